// C19 (round fu4): the SCALED composite shape must behave as a shape.  `acc3` / `acc2` scale a TriMesh (any flags) / Polyline /
// HeightField through `scaled` or `Shape::scale_dyn`, then dump the primitives of the result, its acceleration structure
// (every QBVH node: four lane boxes, children, leaf data) and the answers of BVH-driven queries on the scaled shape
// (cast_local_ray, project_local_point + is_inside, contains_local_point, Qbvh::intersect_aabb).  `aabb_scaled3/2`:
// `Aabb::scaled` alone (bit-exact against the model).  `include!`d by c19.rs (module `acc`).
//
//   acc3 KIND scale(3) VIA NR (origin(3) dir(3))* NP (p(3))* NB (mins(3) maxs(3))*
//     KIND = trimesh NV verts NT idx FLAGS | polyline NV verts NE idx | hf <hf body of c19_ext.rs>
//     VIA  = 0: `scaled`   1: `Shape::scale_dyn(scale, 8)`
//     the query points are given in the frame of the ORIGINAL shape: the scaled shape is asked about `p ∘ scale`
//   output: prims (tri|seg) N coords* bvh (none | root(6) NN (leaf c0..c3 d0..d3 box0(6)..box3(6))*)
//           rays NR (none | t toi)*  pts NP (q(3) proj(3) inside contains)*  boxes (none | NB (k ids*)*)
use crate::util::*;

pub mod a3 {
    use super::*;
    use crate::p3::bounding_volume::Aabb;
    use crate::p3::partitioning::{IndexedData, Qbvh};
    use crate::p3::query::{PointQuery, Ray, RayCast};
    use crate::p3::shape::*;
    type P3 = d3::Point<f64>;

    pub fn fbox(b: &Aabb) -> String { format!("{} {}", d3::fp(&b.mins), d3::fp(&b.maxs)) }

    pub fn fbvh(q: &Qbvh<u32>) -> String {
        let nodes = q.raw_nodes();
        let mut s = format!("{} {}", fbox(q.root_aabb()), nodes.len());
        for n in nodes {
            s.push_str(&format!(" {}", b(n.is_leaf())));
            for ii in 0..4 { s.push_str(&format!(" {}", n.children[ii])); }
            for ii in 0..4 {
                let d = if n.is_leaf() { q.raw_proxies().get(n.children[ii] as usize).map(|p| p.data.index() as u64).unwrap_or(u32::MAX as u64) } else { u32::MAX as u64 };
                s.push_str(&format!(" {}", d));
            }
            for ii in 0..4 { s.push(' '); s.push_str(&fbox(&n.simd_aabb.extract(ii))); }
        }
        s
    }

    struct Queries { rays: Vec<Ray>, pts: Vec<P3>, boxes: Vec<Aabb> }
    fn queries(a: &mut Args) -> Queries {
        let nr = a.u(); let rays = (0..nr).map(|_| { let o = d3::p(a); let d = d3::v(a); Ray::new(o, d) }).collect();
        let np = a.u(); let pts = (0..np).map(|_| d3::p(a)).collect();
        let nb = a.u(); let boxes = (0..nb).map(|_| { let lo = d3::p(a); let hi = d3::p(a); Aabb::new(lo, hi) }).collect();
        Queries { rays, pts, boxes }
    }

    fn answers<S: RayCast + PointQuery>(s: &S, q: Option<&Qbvh<u32>>, sc: &d3::Vector<f64>, qs: &Queries) -> String {
        let mut o = format!(" rays {}", qs.rays.len());
        for r in &qs.rays { match s.cast_local_ray(r, f64::MAX, true) { None => o.push_str(" none"), Some(t) => o.push_str(&format!(" t {}", ff(t))) } }
        o.push_str(&format!(" pts {}", qs.pts.len()));
        for p in &qs.pts {
            let qp = P3::from(p.coords.component_mul(sc));
            let pr = s.project_local_point(&qp, false);
            o.push_str(&format!(" {} {} {} {}", d3::fp(&qp), d3::fp(&pr.point), b(pr.is_inside), b(s.contains_local_point(&qp))));
        }
        match q {
            None => o.push_str(" boxes none"),
            Some(q) => { o.push_str(&format!(" boxes {}", qs.boxes.len()));
                for bx in &qs.boxes { let mut out = Vec::new(); q.intersect_aabb(bx, &mut out); out.sort();
                    o.push_str(&format!(" {}", out.len())); for i in out { o.push_str(&format!(" {}", i)); } } }
        }
        o
    }

    fn ftris<I: Iterator<Item = Triangle>>(it: I) -> String {
        let ts: Vec<Triangle> = it.collect();
        let mut s = format!("prims tri {}", ts.len());
        for t in &ts { s.push_str(&format!(" {} {} {}", d3::fp(&t.a), d3::fp(&t.b), d3::fp(&t.c))); }
        s
    }

    pub fn fkind(s: &dyn Shape) -> String {
        match s.as_typed_shape() {
            TypedShape::Ball(_) => "ball".into(), TypedShape::Cuboid(_) => "cuboid".into(), TypedShape::Capsule(_) => "capsule".into(),
            TypedShape::Cone(_) => "cone".into(), TypedShape::Cylinder(_) => "cyl".into(), TypedShape::Segment(_) => "seg".into(),
            TypedShape::Triangle(_) => "tri".into(), TypedShape::HalfSpace(_) => "hs".into(), TypedShape::ConvexPolyhedron(_) => "polyh".into(),
            TypedShape::TriMesh(_) => "trimesh".into(), TypedShape::Polyline(_) => "polyline".into(), TypedShape::HeightField(_) => "hf".into(),
            TypedShape::RoundCuboid(_) => "rcuboid".into(), TypedShape::RoundCylinder(_) => "rcyl".into(), TypedShape::RoundCone(_) => "rcone".into(),
            TypedShape::RoundTriangle(_) => "rtri".into(), TypedShape::RoundConvexPolyhedron(_) => "rpolyh".into(),
            TypedShape::Compound(c) => { let mut s = format!("compound {}", c.shapes().len()); for (_, sub) in c.shapes() { s.push(' '); s.push_str(&fkind(&*sub.0)); } s }
            _ => "unknown-shape".into(),
        }
    }

    pub fn exec(func: &str, a: &mut Args) -> Option<String> {
        Some(match func {
            "acc3" => {
                let kind = a.tok();
                match kind {
                    "trimesh" => {
                        let nv = a.u(); let vs: Vec<P3> = (0..nv).map(|_| d3::p(a)).collect();
                        let nt = a.u(); let ts: Vec<[u32; 3]> = (0..nt).map(|_| [a.u() as u32, a.u() as u32, a.u() as u32]).collect();
                        let fl = TriMeshFlags::from_bits_truncate(a.u() as u16);
                        let m = TriMesh::with_flags(vs, ts, fl).expect("trimesh");
                        let sc = d3::v(a); let via = a.u(); let qs = queries(a);
                        let m2: TriMesh = if via == 0 { m.scaled(&sc) } else {
                            match m.scale_dyn(&sc, 8) { None => return Some("none".into()),
                                Some(b) => match b.as_trimesh() { Some(t) => t.clone(), None => return Some("unknown-shape".into()) } } };
                        format!("{} bvh {}{}", ftris(m2.triangles()), fbvh(m2.qbvh()), answers(&m2, Some(m2.qbvh()), &sc, &qs))
                    }
                    "polyline" => {
                        let nv = a.u(); let vs: Vec<P3> = (0..nv).map(|_| d3::p(a)).collect();
                        let ne = a.u(); let es: Vec<[u32; 2]> = (0..ne).map(|_| [a.u() as u32, a.u() as u32]).collect();
                        let m = Polyline::new(vs, Some(es));
                        let sc = d3::v(a); let via = a.u(); let qs = queries(a);
                        let m2: Polyline = if via == 0 { m.scaled(&sc) } else {
                            match m.scale_dyn(&sc, 8) { None => return Some("none".into()),
                                Some(b) => match b.as_polyline() { Some(t) => t.clone(), None => return Some("unknown-shape".into()) } } };
                        let mut s = format!("prims seg {}", m2.num_segments());
                        for g in m2.segments() { s.push_str(&format!(" {} {}", d3::fp(&g.a), d3::fp(&g.b))); }
                        let q = SimdCompositeShape::qbvh(&m2);
                        format!("{} bvh {}{}", s, fbvh(q), answers(&m2, Some(q), &sc, &qs))
                    }
                    "hf" => {
                        let m = super::super::ext::e3::hf(a);
                        let sc = d3::v(a); let via = a.u(); let qs = queries(a);
                        let m2: HeightField = if via == 0 { m.scaled(&sc) } else {
                            match m.scale_dyn(&sc, 8) { None => return Some("none".into()),
                                Some(b) => match b.as_heightfield() { Some(t) => t.clone(), None => return Some("unknown-shape".into()) } } };
                        format!("{} bvh none{}", ftris(m2.triangles()), answers(&m2, None, &sc, &qs))
                    }
                    t => panic!("bad acc3 kind {}", t),
                }
            }
            // `map_elements_in_local_aabb` of the scaled 3-D heightfield: hf3_scaled_elems <hf body> scale(3) VIA NB (mins(3) maxs(3))*
            //   output: prims tri N coords*  boxes NB (k (id coords(9))*)*
            "hf3_scaled_elems" => {
                let m = super::super::ext::e3::hf(a);
                let sc = d3::v(a); let via = a.u();
                let m2: HeightField = if via == 0 { m.scaled(&sc) } else {
                    match m.scale_dyn(&sc, 8) { None => return Some("none".into()),
                        Some(b) => match b.as_heightfield() { Some(t) => t.clone(), None => return Some("unknown-shape".into()) } } };
                let nb = a.u();
                let mut o = format!("{} boxes {}", ftris(m2.triangles()), nb);
                for _ in 0..nb {
                    let lo = d3::p(a); let hi = d3::p(a);
                    let mut got: Vec<(u32, Triangle)> = Vec::new();
                    m2.map_elements_in_local_aabb(&Aabb::new(lo, hi), &mut |i, t| got.push((i, *t)));
                    o.push_str(&format!(" {}", got.len()));
                    for (i, t) in got { o.push_str(&format!(" {} {} {} {}", i, d3::fp(&t.a), d3::fp(&t.b), d3::fp(&t.c))); }
                }
                o
            }
            // routing of `Shape::scale_dyn`: which TypedShape variant comes back (recursively for compounds)
            "scale_dyn_kind3" => { let s = super::super::ext::e3::sh(a); let sc = d3::v(a); let n = a.u() as u32;
                match s.scale_dyn(&sc, n) { None => "none".into(), Some(r) => fkind(&*r) } }
            // RoundConvexPolyhedron::to_outline: offset faces joined by arcs around the vertices; the hull the code built is printed too
            "rpolyh_outline" => { let k = a.u(); let pts: Vec<P3> = (0..k).map(|_| d3::p(a)).collect(); let br = a.f(); let n = a.u() as u32;
                let poly = ConvexPolyhedron::from_convex_hull(&pts).expect("convex hull");
                let mesh = poly.to_trimesh();
                format!("{} {}", super::super::ext::e3::foutline(&RoundShape { inner_shape: poly, border_radius: br }.to_outline(n)), super::super::ext::e3::fmesh(&mesh)) }
            // the index buffer after TriMesh::scaled (model: kept, reversed for an ORIENTED mesh under a mirroring scale)
            "trimesh_scaled_idx" => {
                let nv = a.u(); let vs: Vec<P3> = (0..nv).map(|_| d3::p(a)).collect();
                let nt = a.u(); let ts: Vec<[u32; 3]> = (0..nt).map(|_| [a.u() as u32, a.u() as u32, a.u() as u32]).collect();
                let fl = TriMeshFlags::from_bits_truncate(a.u() as u16);
                let sc = d3::v(a);
                let m = TriMesh::with_flags(vs, ts, fl).expect("trimesh").scaled(&sc);
                let mut s = format!("{}", m.indices().len());
                for t in m.indices() { s.push_str(&format!(" {} {} {}", t[0], t[1], t[2])); }
                s }
            "aabb_scaled3" => { let lo = d3::p(a); let hi = d3::p(a); let sc = d3::v(a); fbox(&Aabb::new(lo, hi).scaled(&sc)) }
            _ => return None,
        })
    }
}

pub mod a2 {
    use super::*;
    use crate::p2::bounding_volume::Aabb;
    use crate::p2::partitioning::{IndexedData, Qbvh};
    use crate::p2::query::{PointQuery, Ray, RayCast};
    use crate::p2::shape::*;
    type P2 = d2::Point<f64>;

    pub fn fbox(b: &Aabb) -> String { format!("{} {}", d2::fp(&b.mins), d2::fp(&b.maxs)) }
    pub fn fbvh(q: &Qbvh<u32>) -> String {
        let nodes = q.raw_nodes();
        let mut s = format!("{} {}", fbox(q.root_aabb()), nodes.len());
        for n in nodes {
            s.push_str(&format!(" {}", b(n.is_leaf())));
            for ii in 0..4 { s.push_str(&format!(" {}", n.children[ii])); }
            for ii in 0..4 {
                let d = if n.is_leaf() { q.raw_proxies().get(n.children[ii] as usize).map(|p| p.data.index() as u64).unwrap_or(u32::MAX as u64) } else { u32::MAX as u64 };
                s.push_str(&format!(" {}", d));
            }
            for ii in 0..4 { s.push(' '); s.push_str(&fbox(&n.simd_aabb.extract(ii))); }
        }
        s
    }

    pub fn fkind(s: &dyn Shape) -> String {
        match s.as_typed_shape() {
            TypedShape::Ball(_) => "ball".into(), TypedShape::Cuboid(_) => "cuboid".into(), TypedShape::Capsule(_) => "capsule".into(),
            TypedShape::Segment(_) => "seg".into(), TypedShape::Triangle(_) => "tri".into(), TypedShape::HalfSpace(_) => "hs".into(),
            TypedShape::ConvexPolygon(_) => "polygon".into(), TypedShape::Polyline(_) => "polyline".into(), TypedShape::HeightField(_) => "hf".into(),
            TypedShape::RoundCuboid(_) => "rcuboid".into(), TypedShape::RoundConvexPolygon(_) => "rpolygon".into(),
            TypedShape::Compound(c) => { let mut s = format!("compound {}", c.shapes().len()); for (_, sub) in c.shapes() { s.push(' '); s.push_str(&fkind(&*sub.0)); } s }
            _ => "unknown-shape".into(),
        }
    }

    pub fn exec(func: &str, a: &mut Args) -> Option<String> {
        Some(match func {
            // 2-D polyline: acc2 NV verts NE idx scale(2) VIA NR (o(2) d(2))* NP p(2)* NB (mins maxs)*
            "acc2" => {
                let nv = a.u(); let vs: Vec<P2> = (0..nv).map(|_| d2::p(a)).collect();
                let ne = a.u(); let es: Vec<[u32; 2]> = (0..ne).map(|_| [a.u() as u32, a.u() as u32]).collect();
                let m = Polyline::new(vs, Some(es));
                let sc = d2::v(a); let via = a.u();
                let nr = a.u(); let rays: Vec<Ray> = (0..nr).map(|_| { let o = d2::p(a); let d = d2::v(a); Ray::new(o, d) }).collect();
                let np = a.u(); let pts: Vec<P2> = (0..np).map(|_| d2::p(a)).collect();
                let nb = a.u(); let boxes: Vec<Aabb> = (0..nb).map(|_| { let lo = d2::p(a); let hi = d2::p(a); Aabb::new(lo, hi) }).collect();
                let m2: Polyline = if via == 0 { m.scaled(&sc) } else {
                    match m.scale_dyn(&sc, 8) { None => return Some("none".into()),
                        Some(b) => match b.as_polyline() { Some(t) => t.clone(), None => return Some("unknown-shape".into()) } } };
                let mut s = format!("prims seg {}", m2.num_segments());
                for g in m2.segments() { s.push_str(&format!(" {} {}", d2::fp(&g.a), d2::fp(&g.b))); }
                let q = SimdCompositeShape::qbvh(&m2);
                s.push_str(&format!(" bvh {}", fbvh(q)));
                s.push_str(&format!(" rays {}", rays.len()));
                for r in &rays { match m2.cast_local_ray(r, f64::MAX, true) { None => s.push_str(" none"), Some(t) => s.push_str(&format!(" t {}", ff(t))) } }
                s.push_str(&format!(" pts {}", pts.len()));
                for p in &pts {
                    let qp = P2::from(p.coords.component_mul(&sc));
                    let pr = m2.project_local_point(&qp, false);
                    s.push_str(&format!(" {} {} {} {}", d2::fp(&qp), d2::fp(&pr.point), b(pr.is_inside), b(m2.contains_local_point(&qp))));
                }
                s.push_str(&format!(" boxes {}", boxes.len()));
                for bx in &boxes { let mut out = Vec::new(); q.intersect_aabb(bx, &mut out); out.sort();
                    s.push_str(&format!(" {}", out.len())); for i in out { s.push_str(&format!(" {}", i)); } }
                s
            }
            "scale_dyn_kind2" => { let s = super::super::ext::e2::sh(a); let sc = d2::v(a); let n = a.u() as u32;
                match s.scale_dyn(&sc, n) { None => "none".into(), Some(r) => fkind(&*r) } }
            "aabb_scaled2" => { let lo = d2::p(a); let hi = d2::p(a); let sc = d2::v(a); fbox(&Aabb::new(lo, hi).scaled(&sc)) }
            _ => return None,
        })
    }
}

// ---------------------------------------------------------------------------------------------- generators
pub mod g {
    use super::*;
    type V3 = d3::Vector<f64>;
    type P3 = d3::Point<f64>;

    fn sg(r: &mut Rng) -> f64 { if r.bool() { 1.0 } else { -1.0 } }
    /// anisotropic magnitudes over the whole domain |s_i| in [1e-2, 1e2]
    fn mag(r: &mut Rng, lat: bool) -> f64 { if lat { *r.pick(&[0.015625, 0.125, 0.25, 0.5, 1.0, 2.0, 3.0, 8.0, 64.0]) } else { r.logu(1e-2, 1e2) } }
    /// every sign pattern, by index 0..8 (bit k set = component k negative); uniform / two-equal / general magnitudes
    pub fn scale3(r: &mut Rng, lat: bool, pattern: u64) -> V3 {
        let m = match r.below(4) {
            0 => { let m = mag(r, lat); V3::new(m, m, m) }
            1 => { let m = mag(r, lat); let k = mag(r, lat); match r.below(3) { 0 => V3::new(k, m, m), 1 => V3::new(m, k, m), _ => V3::new(m, m, k) } }
            _ => V3::new(mag(r, lat), mag(r, lat), mag(r, lat)),
        };
        V3::new(if pattern & 1 != 0 { -m.x } else { m.x }, if pattern & 2 != 0 { -m.y } else { m.y }, if pattern & 4 != 0 { -m.z } else { m.z })
    }

    fn cross(a: V3, b: V3) -> V3 { a.cross(&b) }

    /// closed convex meshes with sharp, slanted features, in canonical position; `interior` is a point strictly inside
    fn canonical(r: &mut Rng, lat: bool, fam: u64) -> (Vec<V3>, Vec<[u32; 3]>, V3) {
        let e = |r: &mut Rng| if lat { *r.pick(&[0.25, 0.5, 1.0, 1.5, 2.0, 3.0]) } else { r.logu(0.2, 3.0) };
        match fam {
            // thin wedge: triangular prism with a flat, skewed cross-section
            0 => { let (w, h, l, sk) = (e(r), e(r) * 0.125, e(r), if lat { r.lattice(4, 1) } else { r.uniform(-1.0, 2.0) });
                let vs = vec![V3::new(0.0, 0.0, 0.0), V3::new(w, 0.0, 0.0), V3::new(sk * w, h, 0.0), V3::new(0.0, 0.0, l), V3::new(w, 0.0, l), V3::new(sk * w, h, l)];
                let ts = vec![[0, 2, 1], [3, 4, 5], [0, 1, 4], [0, 4, 3], [1, 2, 5], [1, 5, 4], [2, 0, 3], [2, 3, 5]];
                let c = (vs[0] + vs[1] + vs[2] + vs[3] + vs[4] + vs[5]) / 6.0; (vs, ts, c) }
            // discretized cone (flat or pointed), n = 3..8 rim vertices at uneven angles, base closed by a fan around its centre
            1 => { let n = 3 + r.below(6) as usize; let (h, rad) = (e(r) * if r.bool() { 0.125 } else { 1.0 }, e(r));
                let mut vs = vec![V3::new(0.0, h, 0.0), V3::new(0.0, 0.0, 0.0)];
                for i in 0..n { let (c, s) = if lat { [(1.0, 0.0), (0.6, 0.8), (0.0, 1.0), (-0.8, 0.6), (-1.0, 0.0), (-0.6, -0.8), (0.0, -1.0), (0.8, -0.6)][i * 8 / n] }
                                             else { let t = 6.283185307179586 * (i as f64 + 0.3 * r.unit()) / n as f64; (t.cos(), t.sin()) };
                    vs.push(V3::new(rad * c, 0.0, rad * s)); }
                let mut ts = Vec::new();
                for i in 0..n { let (p, q) = (2 + i as u32, 2 + ((i + 1) % n) as u32); ts.push([0, p, q]); ts.push([1, p, q]); }
                (vs, ts, V3::new(0.0, h * 0.25, 0.0)) }
            // tetrahedron with a sharp corner
            2 => { let vs = vec![V3::new(0.0, 0.0, 0.0), V3::new(e(r), 0.0, 0.0), V3::new(e(r) * 0.25, e(r), 0.0), V3::new(e(r) * 0.25, e(r) * 0.25, e(r) * if r.bool() { 4.0 } else { 0.25 })];
                let c = (vs[0] + vs[1] + vs[2] + vs[3]) / 4.0;
                (vs, vec![[0, 1, 2], [0, 3, 1], [1, 3, 2], [2, 3, 0]], c) }
            // bipyramid over a skewed quadrilateral
            3 => { let (a, b2, up, dn) = (e(r), e(r), e(r), e(r) * 0.25);
                let vs = vec![V3::new(a, 0.0, 0.0), V3::new(0.0, 0.0, b2), V3::new(-a * 0.5, 0.0, 0.0), V3::new(0.0, 0.0, -b2 * 0.5), V3::new(0.1 * a, up, 0.1 * b2), V3::new(0.0, -dn, 0.0)];
                let mut ts = Vec::new();
                for i in 0..4u32 { ts.push([i, (i + 1) % 4, 4]); ts.push([i, (i + 1) % 4, 5]); }
                (vs, ts, V3::new(0.0, 0.0, 0.0)) }
            // sheared box (parallelepiped), 12 triangles
            _ => { let (x, y, z, sh) = (e(r), e(r), e(r), if lat { r.lattice(4, 1) } else { r.uniform(-1.0, 1.0) });
                let mut vs = Vec::new();
                for k in 0..8 { let (i, j, l) = ((k & 1) as f64, ((k >> 1) & 1) as f64, ((k >> 2) & 1) as f64); vs.push(V3::new(i * x + sh * j * y, j * y, l * z + 0.5 * sh * j * y)); }
                let ts = vec![[0, 1, 3], [0, 3, 2], [4, 5, 7], [4, 7, 6], [0, 1, 5], [0, 5, 4], [2, 3, 7], [2, 7, 6], [0, 2, 6], [0, 6, 4], [1, 3, 7], [1, 7, 5]];
                let c = vs.iter().fold(V3::zeros(), |a, b| a + b) / 8.0; (vs, ts, c) }
        }
    }

    /// a closed, outward-oriented mesh, rotated and moved away from the origin
    pub fn closed_mesh(r: &mut Rng, lat: bool) -> (Vec<P3>, Vec<[u32; 3]>) {
        let fam = r.below(5);
        let (vs, mut ts, c) = canonical(r, lat, fam);
        // outward orientation: every family is convex, `c` is interior
        for t in ts.iter_mut() {
            let (a, b2, c2) = (vs[t[0] as usize], vs[t[1] as usize], vs[t[2] as usize]);
            if cross(b2 - a, c2 - a).dot(&(a - c)) < 0.0 { t.swap(1, 2); }
        }
        let m = match r.below(4) { 0 => d3::Isometry::translation(r.coord(lat, 3.0), r.coord(lat, 3.0), r.coord(lat, 3.0)), _ => d3::gen_iso(r, lat, 4.0) };
        (vs.iter().map(|v| m * P3::from(*v)).collect(), ts)
    }

    /// an open strip / fan with many triangles (deep BVH), not oriented
    pub fn open_mesh(r: &mut Rng, lat: bool) -> (Vec<P3>, Vec<[u32; 3]>) {
        let n = 3 + r.below(12) as usize;
        let mut vs = Vec::new();
        for i in 0..=n { let x = i as f64 * 0.5;
            vs.push(V3::new(x, if lat { r.lattice(8, 2) } else { r.uniform(-1.0, 1.0) }, 0.0));
            vs.push(V3::new(x + 0.25, if lat { r.lattice(8, 2) } else { r.uniform(-1.0, 1.0) }, 1.0)); }
        let mut ts = Vec::new();
        for i in 0..n as u32 { ts.push([2 * i, 2 * i + 1, 2 * i + 2]); ts.push([2 * i + 1, 2 * i + 3, 2 * i + 2]); }
        let m = d3::gen_iso(r, lat, 4.0);
        (vs.iter().map(|v| m * P3::from(*v)).collect(), ts)
    }

    fn div(p: V3, s: &V3) -> V3 { V3::new(p.x / s.x, p.y / s.y, p.z / s.z) }

    /// query tail: rays aimed at the scaled primitives, points next to vertices / edges / faces of the scaled primitives (given in the
    /// original frame), boxes around scaled vertices
    fn tail(r: &mut Rng, lat: bool, prims: &[Vec<V3>], sc: &V3, nr: usize, np: usize, nb: usize) -> String {
        let sp: Vec<Vec<V3>> = prims.iter().map(|p| p.iter().map(|v| v.component_mul(sc)).collect()).collect();
        let mut lo = V3::repeat(f64::MAX); let mut hi = V3::repeat(-f64::MAX);
        for p in &sp { for v in p { lo = lo.inf(v); hi = hi.sup(v); } }
        let cen = (lo + hi) * 0.5; let ext = (hi - lo) * 0.5 + V3::repeat(1e-3);
        let on = |r: &mut Rng, p: &Vec<V3>, interior: bool| -> V3 {
            let k = p.len();
            let mut w: Vec<f64> = (0..k).map(|_| if lat { 1.0 + r.below(3) as f64 } else { 0.1 + r.unit() }).collect();
            if !interior { match r.below(3) { 0 => { for i in 1..k { w[i] = 0.0; } w.rotate_left(r.below(k as u64) as usize); }   // a vertex
                                              1 if k > 2 => { w[r.below(k as u64) as usize] = 0.0; }                          // an edge
                                              _ => {} } }
            let tot: f64 = w.iter().sum();
            p.iter().zip(w.iter()).fold(V3::zeros(), |a, (v, wi)| a + v * (*wi / tot))
        };
        let mut s = format!("{}", nr);
        for i in 0..nr {
            let o = cen + V3::new(ext.x * r.uniform(-3.0, 3.0), ext.y * r.uniform(-3.0, 3.0), ext.z * r.uniform(-3.0, 3.0));
            let o = if lat { V3::new((o.x * 4.0).round() / 4.0, (o.y * 4.0).round() / 4.0, (o.z * 4.0).round() / 4.0) } else { o };
            let d = if i % 4 == 3 { d3::gen_v(r, lat, 1.0) + V3::new(0.0, 0.0, 0.125) } else { let pp = r.pick(&sp); let t = on(r, pp, true); (t - o) * *r.pick(&[0.25, 1.0, 4.0]) };
            let d = if d.norm() == 0.0 { V3::new(1.0, 0.5, 0.25) } else { d };
            s.push_str(&format!(" {} {}", d3::hv(&o), d3::hv(&d)));
        }
        s.push_str(&format!(" {}", np));
        for _ in 0..np {
            let p = r.pick(&sp);
            let size = p.iter().map(|v| (v - p[0]).norm()).fold(0.0, f64::max).max(1e-3);
            let base = on(r, p, false);
            let dir = loop { let v = d3::gen_v(r, lat, 1.0); if v.norm() > 0.05 { break v / v.norm(); } };
            let q = base + dir * (size * *r.pick(&[1e-3, 1e-2, 0.0625, 0.25, 0.5, 2.0]));
            s.push(' '); s.push_str(&d3::hv(&div(q, sc)));
        }
        s.push_str(&format!(" {}", nb));
        for _ in 0..nb {
            let p = r.pick(&sp); let inter = r.bool(); let c = on(r, p, inter);
            let h = V3::new(ext.x * r.uniform(0.0, 0.6), ext.y * r.uniform(0.0, 0.6), ext.z * r.uniform(0.0, 0.6));
            s.push_str(&format!(" {} {}", d3::hv(&(c - h)), d3::hv(&(c + h))));
        }
        s
    }

    fn fmesh(vs: &[P3], ts: &[[u32; 3]]) -> String {
        let mut s = format!("{}", vs.len()); for v in vs { s.push(' '); s.push_str(&d3::hp(v)); }
        s.push_str(&format!(" {}", ts.len())); for t in ts { s.push_str(&format!(" {} {} {}", t[0], t[1], t[2])); }
        s
    }

    pub fn gen(r: &mut Rng, thorough: bool, v: &mut Vec<(String, String)>) {
        let n = if thorough { 1600 } else { 160 };
        for it in 0..n {
            let lat = it % 2 == 0;
            let pattern = (it / 2) % 8;      // every sign pattern, in both halves
            let sc = scale3(r, lat, pattern as u64);
            let via = (it / 16) % 2;
            match it % 5 {
                // ORIENTED closed meshes: containment through pseudo-normals
                0 | 1 | 2 => { let (vs, ts) = closed_mesh(r, lat);
                    let prims: Vec<Vec<V3>> = ts.iter().map(|t| t.iter().map(|i| vs[*i as usize].coords).collect()).collect();
                    let flags = *r.pick(&[8u32, 8, 8 | 1, 8 | 128 | 16, 0]);
                    v.push(("acc3".into(), format!("trimesh {} {} {} {} {}", fmesh(&vs, &ts), flags, d3::hv(&sc), via, tail(r, lat, &prims, &sc, 3, 5, 2)))); }
                // open strips, 6..28 triangles (deep BVH)
                3 => { let (vs, ts) = open_mesh(r, lat);
                    let prims: Vec<Vec<V3>> = ts.iter().map(|t| t.iter().map(|i| vs[*i as usize].coords).collect()).collect();
                    v.push(("acc3".into(), format!("trimesh {} 0 {} {} {}", fmesh(&vs, &ts), d3::hv(&sc), via, tail(r, lat, &prims, &sc, 3, 3, 3)))); }
                // 3-D polylines (6..20 segments, away from the origin)
                _ => { let k = 6 + r.below(15) as usize;
                    let off = d3::gen_v(r, lat, 4.0);
                    let vs: Vec<P3> = (0..k).map(|_| d3::gen_p(r, lat, 2.0) + off).collect();
                    let mut s = format!("polyline {}", k); for p in &vs { s.push(' '); s.push_str(&d3::hp(p)); }
                    s.push_str(&format!(" {}", k - 1)); for i in 0..k - 1 { s.push_str(&format!(" {} {}", i, i + 1)); }
                    let prims: Vec<Vec<V3>> = (0..k - 1).map(|i| vec![vs[i].coords, vs[i + 1].coords]).collect();
                    v.push(("acc3".into(), format!("{} {} {} {}", s, d3::hv(&sc), via, tail(r, lat, &prims, &sc, 0, 4, 3)))); }
            }
            // heightfields (own scale of any sign, removed cells): triangles(), projection and ray cast of the scaled field
            if it % 4 == 1 {
                let nr = 2 + r.below(3) as usize; let nc = 2 + r.below(3) as usize;
                let hs: Vec<f64> = (0..nr * nc).map(|_| if lat { r.lattice(8, 1) } else { r.uniform(-2.0, 2.0) }).collect();
                let e = |r: &mut Rng| if lat { *r.pick(&[0.25, 0.5, 1.0, 1.5, 2.0, 3.0]) } else { r.logu(1e-1, 1e1) };
                let hsc = V3::new(e(r) * sg(r), e(r) * sg(r), e(r) * sg(r));
                let mut s = format!("hf {} {}", nr, nc);
                for h in &hs { s.push(' '); s.push_str(&hx(*h)); }
                s.push(' '); s.push_str(&d3::hv(&hsc));
                s.push_str(&format!(" {}", (nr - 1) * (nc - 1)));
                for _ in 0..(nr - 1) * (nc - 1) { let st = if r.below(3) == 0 { r.below(8) } else { r.below(2) }; s.push_str(&format!(" {}", st)); }
                // the cells (both triangles of each, whatever the status) only serve to aim the queries
                let node = |i: usize, j: usize| V3::new((-0.5 + j as f64 / (nc as f64 - 1.0)) * hsc.x, hs[i * nc + j] * hsc.y, (-0.5 + i as f64 / (nr as f64 - 1.0)) * hsc.z);
                let mut prims = Vec::new();
                for i in 0..nr - 1 { for j in 0..nc - 1 { prims.push(vec![node(i, j), node(i + 1, j), node(i, j + 1)]); prims.push(vec![node(i + 1, j), node(i + 1, j + 1), node(i, j + 1)]); } }
                v.push(("acc3".into(), format!("{} {} {} {}", s, d3::hv(&sc), via, tail(r, lat, &prims, &sc, 2, 4, 0))));
            }
            // 2-D polylines (5..16 segments, away from the origin): ray casts, projections, BVH
            if it % 4 == 3 {
                let k = 6 + r.below(12) as usize;
                let off = d2::gen_v(r, lat, 4.0);
                let vs: Vec<d2::Point<f64>> = (0..k).map(|_| d2::gen_p(r, lat, 2.0) + off).collect();
                let mut s = format!("{}", k); for p in &vs { s.push(' '); s.push_str(&d2::hp(p)); }
                s.push_str(&format!(" {}", k - 1)); for i in 0..k - 1 { s.push_str(&format!(" {} {}", i, i + 1)); }
                let sc2 = d2::Vector::new(sc.x, sc.y);
                let sp: Vec<(d2::Vector<f64>, d2::Vector<f64>)> = (0..k - 1).map(|i| (vs[i].coords.component_mul(&sc2), vs[i + 1].coords.component_mul(&sc2))).collect();
                let mut t = String::from("3");
                for i in 0..3 { let g = *r.pick(&sp); let w = if lat { 0.25 * (1 + r.below(3)) as f64 } else { 0.1 + 0.8 * r.unit() };
                    let target = g.0 + (g.1 - g.0) * w;
                    let o = target + d2::gen_v(r, lat, 8.0) + d2::Vector::new(0.125, 0.0);
                    let d = if i == 2 { d2::gen_v(r, lat, 1.0) + d2::Vector::new(0.0, 0.125) } else { (target - o) * *r.pick(&[0.25, 1.0, 4.0]) };
                    t.push_str(&format!(" {} {}", d2::hv(&o), d2::hv(&d))); }
                t.push_str(" 4");
                for _ in 0..4 { let g = *r.pick(&sp); let w = match r.below(3) { 0 => 0.0, 1 => 1.0, _ => r.unit() };
                    let size = (g.1 - g.0).norm().max(1e-3);
                    let q = g.0 + (g.1 - g.0) * w + d2::gen_v(r, lat, 1.0) * (size * *r.pick(&[1e-3, 0.0625, 0.5, 2.0]));
                    t.push(' '); t.push_str(&d2::hv(&d2::Vector::new(q.x / sc2.x, q.y / sc2.y))); }
                t.push_str(" 3");
                for _ in 0..3 { let g = *r.pick(&sp); let c = g.0 + (g.1 - g.0) * r.unit(); let h = d2::Vector::new(r.uniform(0.0, 2.0) * sc2.x.abs(), r.uniform(0.0, 2.0) * sc2.y.abs());
                    t.push_str(&format!(" {} {}", d2::hv(&(c - h)), d2::hv(&(c + h)))); }
                v.push(("acc2".into(), format!("{} {} {} {}", s, d2::hv(&sc2), via, t)));
            }
            // routing of scale_dyn over every shape kind and scale family (uniform / x=z / mixed signs / general)
            for _ in 0..2 { v.push(("scale_dyn_kind3".into(), format!("{} {} {}", super::super::ext::g::shape3(r, lat), d3::hv(&super::super::ext::g::scale3(r, lat)), 3 + r.below(8)))); }
            if it % 8 == 2 {
                let br = if lat { *r.pick(&[0.25, 0.5, 1.0]) } else { r.logu(0.05, 2.0) };
                v.push(("rpolyh_outline".into(), format!("{} {} {}", super::super::ext::g::hull_pts3(r, lat), hx(br), 2 + r.below(5))));
            }
            { let (vs, ts) = closed_mesh(r, lat); let fl = *r.pick(&[8u32, 8, 9, 0]);
              v.push(("trimesh_scaled_idx".into(), format!("{} {} {}", fmesh(&vs, &ts), fl, d3::hv(&sc)))); }
            v.push(("scale_dyn_kind2".into(), format!("{} {} {}", super::super::ext::g::shape2(r, lat), d2::hv(&super::super::ext::g::scale2(r, lat)), 3 + r.below(8))));
            // Aabb::scaled alone, every sign pattern (proper boxes, incl. flat ones)
            let lo = d3::gen_v(r, lat, 4.0); let e = V3::new(r.coord(lat, 2.0).abs(), r.coord(lat, 2.0).abs(), if it % 7 == 0 { 0.0 } else { r.coord(lat, 2.0).abs() });
            v.push(("aabb_scaled3".into(), format!("{} {} {}", d3::hv(&lo), d3::hv(&(lo + e)), d3::hv(&sc))));
            let lo2 = d2::gen_v(r, lat, 4.0); let e2 = d2::Vector::new(r.coord(lat, 2.0).abs(), r.coord(lat, 2.0).abs());
            v.push(("aabb_scaled2".into(), format!("{} {} {}", d2::hv(&lo2), d2::hv(&(lo2 + e2)), d2::hv(&d2::Vector::new(sc.x, sc.y)))));
        }
    }
}
