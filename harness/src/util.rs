//! Shared harness utilities: PRNG, hex encoding, emitter with catch_unwind.
use std::fmt::Write as _;
use std::panic::{catch_unwind, AssertUnwindSafe};

pub struct Rng(pub u64);
impl Rng {
    pub fn new(seed: u64) -> Self { Rng(seed.wrapping_mul(0x9E3779B97F4A7C15) ^ 0xD1B54A32D192ED03) }
    pub fn next(&mut self) -> u64 {
        self.0 = self.0.wrapping_add(0x9E3779B97F4A7C15);
        let mut z = self.0;
        z = (z ^ (z >> 30)).wrapping_mul(0xBF58476D1CE4E5B9);
        z = (z ^ (z >> 27)).wrapping_mul(0x94D049BB133111EB);
        z ^ (z >> 31)
    }
    pub fn below(&mut self, n: u64) -> u64 { self.next() % n }
    pub fn range(&mut self, lo: i64, hi: i64) -> i64 { lo + (self.next() % ((hi - lo + 1) as u64)) as i64 }
    pub fn unit(&mut self) -> f64 { (self.next() >> 11) as f64 / (1u64 << 53) as f64 }
    pub fn uniform(&mut self, lo: f64, hi: f64) -> f64 { lo + (hi - lo) * self.unit() }
    pub fn bool(&mut self) -> bool { self.next() & 1 == 1 }
    pub fn pick<'a, T>(&mut self, xs: &'a [T]) -> &'a T { &xs[self.below(xs.len() as u64) as usize] }
    /// lattice value k / 2^j, |k| <= kmax, j <= jmax
    pub fn lattice(&mut self, kmax: i64, jmax: u32) -> f64 {
        let k = self.range(-kmax, kmax);
        let j = self.below(jmax as u64 + 1) as i32;
        k as f64 / (1u64 << j) as f64
    }
    /// log-uniform positive value in [lo, hi]
    pub fn logu(&mut self, lo: f64, hi: f64) -> f64 { (self.uniform(lo.ln(), hi.ln())).exp() }
    /// a coordinate: mixture of lattice and random
    pub fn coord(&mut self, lat: bool, scale: f64) -> f64 {
        if lat { self.lattice(16, 2) } else { self.uniform(-scale, scale) }
    }
    pub fn pos_extent(&mut self, lat: bool) -> f64 {
        if lat { *self.pick(&[0.25, 0.5, 1.0, 1.5, 2.0, 3.0, 4.0]) } else { self.logu(1e-2, 1e2) }
    }
}

pub fn hx(x: f64) -> String { format!("{:016x}", x.to_bits()) }
pub fn hxs<'a, I: IntoIterator<Item = &'a f64>>(xs: I) -> String {
    let mut s = String::new();
    for (i, x) in xs.into_iter().enumerate() {
        if i > 0 { s.push(' '); }
        let _ = write!(s, "{:016x}", x.to_bits());
    }
    s
}
pub fn b(x: bool) -> &'static str { if x { "1" } else { "0" } }

pub struct Emitter {
    pub out: String,
    pub prop: &'static str,
    pub n: usize,
}
impl Emitter {
    pub fn new(prop: &'static str) -> Self { Emitter { out: String::new(), prop, n: 0 } }
    /// one case: `prop fn args | impl-output`; the closure calls the real code.
    pub fn case<F: FnOnce() -> String>(&mut self, func: &str, args: &str, f: F) {
        let r = catch_unwind(AssertUnwindSafe(f));
        let o = match r {
            Ok(s) => s,
            Err(e) => {
                let msg = if let Some(s) = e.downcast_ref::<&str>() { s.to_string() }
                    else if let Some(s) = e.downcast_ref::<String>() { s.clone() } else { "?".into() };
                let msg: String = msg.chars().map(|c| if c.is_whitespace() || c == '|' { '_' } else { c }).take(80).collect();
                format!("panic {}", msg)
            }
        };
        let _ = writeln!(self.out, "{} {} {} | {}", self.prop, func, args, o);
        self.n += 1;
    }
    pub fn flush(&mut self) {
        use std::io::Write;
        let so = std::io::stdout();
        let mut l = so.lock();
        let _ = l.write_all(self.out.as_bytes());
        self.out.clear();
    }
}

/// Token reader for `exec`.
pub struct Args<'a> { pub t: Vec<&'a str>, pub i: usize }
impl<'a> Args<'a> {
    pub fn new(s: &'a str) -> Self { Args { t: s.split_whitespace().collect(), i: 0 } }
    pub fn tok(&mut self) -> &'a str { let x = self.t[self.i]; self.i += 1; x }
    pub fn f(&mut self) -> f64 { f64::from_bits(u64::from_str_radix(self.tok(), 16).expect("hex")) }
    pub fn u(&mut self) -> usize { self.tok().parse().expect("nat") }
    pub fn i(&mut self) -> i64 { self.tok().parse().expect("int") }
    pub fn b(&mut self) -> bool { self.tok() == "1" }
    pub fn rest(&self) -> usize { self.t.len() - self.i }
}

/// canonical float print: -0 → +0, NaN → `nan`
pub fn ff(x: f64) -> String {
    if x.is_nan() { "nan".into() } else if x == 0.0 { "0000000000000000".into() } else { hx(x) }
}
pub fn ffs<'a, I: IntoIterator<Item = &'a f64>>(xs: I) -> String {
    xs.into_iter().map(|x| ff(*x)).collect::<Vec<_>>().join(" ")
}

pub mod d3 {
    use super::*;
    pub use crate::p3::math::{Isometry, Point, Real, Vector};
    pub use crate::p3::na;
    pub fn v(a: &mut Args) -> Vector<Real> { Vector::new(a.f(), a.f(), a.f()) }
    pub fn p(a: &mut Args) -> Point<Real> { Point::new(a.f(), a.f(), a.f()) }
    /// iso3: qi qj qk qw tx ty tz  (quaternion taken as is, not renormalised)
    pub fn iso(a: &mut Args) -> Isometry<Real> {
        let (i, j, k, w) = (a.f(), a.f(), a.f(), a.f());
        let t = v(a);
        let q = na::Unit::new_unchecked(na::Quaternion::new(w, i, j, k));
        Isometry::from_parts(na::Translation3::from(t), q)
    }
    pub fn fv(x: &Vector<Real>) -> String { ffs(x.iter()) }
    pub fn fp(x: &Point<Real>) -> String { ffs(x.coords.iter()) }
    pub fn hv(x: &Vector<Real>) -> String { hxs(x.iter()) }
    pub fn hp(x: &Point<Real>) -> String { hxs(x.coords.iter()) }
    pub fn hiso(m: &Isometry<Real>) -> String {
        let q = m.rotation.as_ref().coords;
        format!("{} {} {} {} {}", hx(q[0]), hx(q[1]), hx(q[2]), hx(q[3]), hv(&m.translation.vector))
    }
    pub fn fiso(m: &Isometry<Real>) -> String {
        let q = m.rotation.as_ref().coords;
        format!("{} {} {} {} {}", ff(q[0]), ff(q[1]), ff(q[2]), ff(q[3]), fv(&m.translation.vector))
    }
    /// rotations that are exact in binary64 (cube group, (±1±i±j±k)/2) or Pythagorean, or random
    pub fn gen_quat(r: &mut Rng, lat: bool) -> [f64; 4] {
        if lat {
            match r.below(5) {
                0 => [0.0, 0.0, 0.0, 1.0],
                1 => { let mut q = [0.0; 4]; q[r.below(4) as usize] = if r.bool() { 1.0 } else { -1.0 }; q }
                2 => { let mut q = [0.5; 4]; for x in q.iter_mut() { if r.bool() { *x = -*x; } } q }
                3 => { // (1,2,2)/3-type and 3-4-5 on two slots: exact squares sum to 1 only approximately for /3; use 0.6/0.8
                    let mut q = [0.0; 4];
                    let a = r.below(4) as usize; let mut b2 = r.below(4) as usize; if b2 == a { b2 = (a + 1) % 4; }
                    q[a] = if r.bool() { 0.6 } else { -0.6 }; q[b2] = if r.bool() { 0.8 } else { -0.8 }; q }
                _ => { // sqrt(1/2) pairs (90° rotations about axes)
                    let s = std::f64::consts::FRAC_1_SQRT_2; let mut q = [0.0; 4];
                    q[3] = s; q[r.below(3) as usize] = if r.bool() { s } else { -s }; q }
            }
        } else {
            loop {
                let q = [r.uniform(-1.0, 1.0), r.uniform(-1.0, 1.0), r.uniform(-1.0, 1.0), r.uniform(-1.0, 1.0)];
                let n = (q[0]*q[0] + q[1]*q[1] + q[2]*q[2] + q[3]*q[3]).sqrt();
                if n > 0.1 && n <= 1.0 { return [q[0]/n, q[1]/n, q[2]/n, q[3]/n]; }
            }
        }
    }
    pub fn gen_iso(r: &mut Rng, lat: bool, tscale: f64) -> Isometry<Real> {
        let q = gen_quat(r, lat);
        let t = Vector::new(r.coord(lat, tscale), r.coord(lat, tscale), r.coord(lat, tscale));
        Isometry::from_parts(na::Translation3::from(t), na::Unit::new_unchecked(na::Quaternion::new(q[3], q[0], q[1], q[2])))
    }
    pub fn gen_v(r: &mut Rng, lat: bool, s: f64) -> Vector<Real> { Vector::new(r.coord(lat, s), r.coord(lat, s), r.coord(lat, s)) }
    pub fn gen_p(r: &mut Rng, lat: bool, s: f64) -> Point<Real> { Point::from(gen_v(r, lat, s)) }
    pub fn gen_he(r: &mut Rng, lat: bool) -> Vector<Real> { Vector::new(r.pos_extent(lat), r.pos_extent(lat), r.pos_extent(lat)) }
}

pub mod d2 {
    use super::*;
    pub use crate::p2::math::{Isometry, Point, Real, Vector};
    pub use crate::p2::na;
    pub fn v(a: &mut Args) -> Vector<Real> { Vector::new(a.f(), a.f()) }
    pub fn p(a: &mut Args) -> Point<Real> { Point::new(a.f(), a.f()) }
    /// iso2: re im tx ty
    pub fn iso(a: &mut Args) -> Isometry<Real> {
        let (re, im) = (a.f(), a.f());
        let t = v(a);
        let c = na::Unit::new_unchecked(na::Complex::new(re, im));
        Isometry::from_parts(na::Translation2::from(t), c)
    }
    pub fn fv(x: &Vector<Real>) -> String { ffs(x.iter()) }
    pub fn fp(x: &Point<Real>) -> String { ffs(x.coords.iter()) }
    pub fn hv(x: &Vector<Real>) -> String { hxs(x.iter()) }
    pub fn hp(x: &Point<Real>) -> String { hxs(x.coords.iter()) }
    pub fn hiso(m: &Isometry<Real>) -> String {
        format!("{} {} {}", hx(m.rotation.re), hx(m.rotation.im), hv(&m.translation.vector))
    }
    pub fn gen_rot(r: &mut Rng, lat: bool) -> (f64, f64) {
        if lat {
            *r.pick(&[(1.0, 0.0), (0.0, 1.0), (-1.0, 0.0), (0.0, -1.0), (0.6, 0.8), (0.8, -0.6), (-0.6, 0.8), (0.28, 0.96),
                      (std::f64::consts::FRAC_1_SQRT_2, std::f64::consts::FRAC_1_SQRT_2)])
        } else {
            let a = r.uniform(-3.2, 3.2); (a.cos(), a.sin())
        }
    }
    pub fn gen_iso(r: &mut Rng, lat: bool, tscale: f64) -> Isometry<Real> {
        let (re, im) = gen_rot(r, lat);
        let t = Vector::new(r.coord(lat, tscale), r.coord(lat, tscale));
        Isometry::from_parts(na::Translation2::from(t), na::Unit::new_unchecked(na::Complex::new(re, im)))
    }
    pub fn gen_v(r: &mut Rng, lat: bool, s: f64) -> Vector<Real> { Vector::new(r.coord(lat, s), r.coord(lat, s)) }
    pub fn gen_p(r: &mut Rng, lat: bool, s: f64) -> Point<Real> { Point::from(gen_v(r, lat, s)) }
    pub fn gen_he(r: &mut Rng, lat: bool) -> Vector<Real> { Vector::new(r.pos_extent(lat), r.pos_extent(lat)) }
}
