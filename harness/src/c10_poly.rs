//! C10, second part: `ConvexPolyhedron` feature maps (`local_support_feature`, `support_feature_id_toward`,
//! `feature_normal`) and `CSOPoint::from_shapes{,_toward}`.
//!   polyhedron_feature : pts idx dir(unit) -> local_support_feature
//!   polyhedron_featid  : pts idx dir(unit) -> support_feature_id_toward + feature_normal of that id
//!   poly_sincos        : (no args)         -> (PI/180).sin_cos()
//!   cso_<local|toward> : name1 name2 args1 args2 iso dir -> CSOPoint::from_shapes / from_shapes_toward (point orig1 orig2)
use crate::util::*;
use crate::p3::na::Unit;
use crate::p3::shape as s3;
use crate::p3::shape::SupportMap as SM3;
use crate::p3::query::gjk::{CSOPoint, ConstantOrigin, ConstantPoint};

fn pts3(a: &mut Args) -> Vec<d3::Point<f64>> { let n = a.u(); (0..n).map(|_| d3::p(a)).collect() }
fn idx3(a: &mut Args) -> Vec<[u32; 3]> { let n = a.u(); (0..n).map(|_| [a.u() as u32, a.u() as u32, a.u() as u32]).collect() }
fn polyhedron(a: &mut Args) -> s3::ConvexPolyhedron {
    let p = pts3(a); let i = idx3(a);
    s3::ConvexPolyhedron::from_convex_mesh(p, &i).expect("from_convex_mesh")
}

/// the shapes that can take part in a CSO case (boxed: `from_shapes` accepts `?Sized` support maps)
fn shape(name: &str, a: &mut Args) -> Option<Box<dyn SM3>> {
    Some(match name {
        "ball" => Box::new(s3::Ball::new(a.f())),
        "cuboid" => Box::new(s3::Cuboid::new(d3::v(a))),
        "capsule" => { let p = d3::p(a); let q = d3::p(a); let r = a.f(); Box::new(s3::Capsule::new(p, q, r)) }
        "segment" => { let p = d3::p(a); let q = d3::p(a); Box::new(s3::Segment::new(p, q)) }
        "triangle" => { let p = d3::p(a); let q = d3::p(a); let r = d3::p(a); Box::new(s3::Triangle::new(p, q, r)) }
        "cone" => { let hh = a.f(); let r = a.f(); Box::new(s3::Cone::new(hh, r)) }
        "cylinder" => { let hh = a.f(); let r = a.f(); Box::new(s3::Cylinder::new(hh, r)) }
        "polyhedron" => Box::new(polyhedron(a)),
        "roundcuboid" => { let he = d3::v(a); let br = a.f(); Box::new(s3::RoundShape { inner_shape: s3::Cuboid::new(he), border_radius: br }) }
        "roundcone" => { let hh = a.f(); let r = a.f(); let br = a.f(); Box::new(s3::RoundShape { inner_shape: s3::Cone::new(hh, r), border_radius: br }) }
        "constantpoint" => Box::new(ConstantPoint(d3::p(a))),
        "constantorigin" => Box::new(ConstantOrigin),
        _ => return None,
    })
}

pub fn exec(func: &str, a: &mut Args) -> Option<String> {
    Some(match func {
        "poly_sincos" => { let (s, c) = (std::f64::consts::PI / 180.0f64).sin_cos(); format!("{} {}", ff(s), ff(c)) }
        "polyhedron_feature" => { let s = polyhedron(a); let d = d3::v(a);
            let mut f = s3::PolygonalFeature::default();
            s3::PolygonalFeatureMap::local_support_feature(&s, &Unit::new_unchecked(d), &mut f);
            super::ffeat3(&f) }
        "polygon_featid" => { let n = a.u(); let p: Vec<d2::Point<f64>> = (0..n).map(|_| d2::p(a)).collect(); let d = d2::v(a);
            let s = crate::p2::shape::ConvexPolygon::from_convex_polyline_unmodified(p).expect("from_convex_polyline_unmodified");
            let id = s.support_feature_id_toward(&crate::p2::na::Unit::new_unchecked(d));
            let n = match s.feature_normal(id) { Some(n) => d2::fv(&n), None => "none".into() };
            let t = match id { crate::p2::shape::FeatureId::Vertex(c) => format!("v{}", c), crate::p2::shape::FeatureId::Face(c) => format!("f{}", c), _ => "u".into() };
            format!("{} {}", t, n) }
        "polyhedron_featid" => { let s = polyhedron(a); let d = d3::v(a);
            let id = s.support_feature_id_toward(&Unit::new_unchecked(d));
            let n = match s.feature_normal(id) { Some(n) => d3::fv(&n), None => "none".into() };
            let t = match id { s3::FeatureId::Vertex(c) => format!("v{}", c), s3::FeatureId::Edge(c) => format!("e{}", c),
                               s3::FeatureId::Face(c) => format!("f{}", c), _ => "u".into() };
            format!("{} {}", t, n) }
        "cso_local" | "cso_toward" => {
            let n1 = a.tok(); let n2 = a.tok();
            let g1 = shape(n1, a)?; let g2 = shape(n2, a)?;
            let m = d3::iso(a); let d = d3::v(a);
            let c = if func == "cso_local" { CSOPoint::from_shapes(&m, &*g1, &*g2, &d) }
                    else { CSOPoint::from_shapes_toward(&m, &*g1, &*g2, &Unit::new_unchecked(d)) };
            format!("{} {} {}", d3::fp(&c.point), d3::fp(&c.orig1), d3::fp(&c.orig2))
        }
        _ => return None,
    })
}

// ------------------------------------------------------------------ generators

fn hpts3(p: &[d3::Point<f64>]) -> String { format!("{} {}", p.len(), p.iter().map(d3::hp).collect::<Vec<_>>().join(" ")) }
fn hidx(i: &[[u32; 3]]) -> String { format!("{} {}", i.len(), i.iter().map(|t| format!("{} {} {}", t[0], t[1], t[2])).collect::<Vec<_>>().join(" ")) }

/// explicit lattice meshes with faces of more than three / four vertices (outward counter-clockwise triangles):
/// hexagonal prism (two 6-gons: `num_vertices.min(4)` truncates; six quads) and square pyramid (one quad, four triangles)
fn big_face_mesh(r: &mut Rng) -> (Vec<d3::Point<f64>>, Vec<[u32; 3]>) {
    let s = r.pos_extent(true); let h = r.pos_extent(true);
    if r.bool() {
        let ring = [(2.0 * s, 0.0), (s, s), (-s, s), (-2.0 * s, 0.0), (-s, -s), (s, -s)];
        let mut p = Vec::new();
        for &(x, y) in &ring { p.push(d3::Point::new(x, y, h)); }
        for &(x, y) in &ring { p.push(d3::Point::new(x, y, -h)); }
        let mut t: Vec<[u32; 3]> = Vec::new();
        for i in 1..5u32 { t.push([0, i, i + 1]); }
        for i in 1..5u32 { t.push([6, 6 + i + 1, 6 + i]); }
        for i in 0..6u32 { let j = (i + 1) % 6; t.push([i, 6 + i, 6 + j]); t.push([i, 6 + j, j]); }
        (p, t)
    } else {
        let p = vec![d3::Point::new(s, s, -h), d3::Point::new(-s, s, -h), d3::Point::new(-s, -s, -h), d3::Point::new(s, -s, -h),
                     d3::Point::new(0.0, 0.0, h)];
        let t = vec![[0u32, 2, 1], [0, 3, 2], [0, 1, 4], [1, 2, 4], [2, 3, 4], [3, 0, 4]];
        (p, t)
    }
}

/// all vertex permutations / triangle orders / index rotations of the same solid: the point order decides the support
/// vertex on ties, the triangle order decides the face and edge numbering
fn shuffle_mesh(r: &mut Rng, p: &[d3::Point<f64>], t: &[[u32; 3]]) -> (Vec<d3::Point<f64>>, Vec<[u32; 3]>) {
    let n = p.len();
    let mut perm: Vec<usize> = (0..n).collect();
    for i in (1..n).rev() { let j = r.below(i as u64 + 1) as usize; perm.swap(i, j); }
    // new position of old point k is perm[k]
    let mut np = p.to_vec();
    for k in 0..n { np[perm[k]] = p[k]; }
    let mut nt: Vec<[u32; 3]> = t.iter().map(|x| {
        let y = [perm[x[0] as usize] as u32, perm[x[1] as usize] as u32, perm[x[2] as usize] as u32];
        let s = r.below(3) as usize; [y[s], y[(s + 1) % 3], y[(s + 2) % 3]] }).collect();
    for i in (1..nt.len()).rev() { let j = r.below(i as u64 + 1) as usize; nt.swap(i, j); }
    (np, nt)
}

fn tri_normal(p: &[d3::Point<f64>], t: &[u32; 3]) -> d3::Vector<f64> {
    (p[t[1] as usize] - p[t[0] as usize]).cross(&(p[t[2] as usize] - p[t[0] as usize]))
}

/// unit directions aimed at the features of the solid: every face normal in turn (exact ties of the scan are the
/// bisectors of two faces = directions orthogonal to an edge), towards a vertex, around the 1-degree thresholds
fn feature_dirs(r: &mut Rng, p: &[d3::Point<f64>], t: &[[u32; 3]], it: usize, out: &mut Vec<d3::Vector<f64>>) {
    let nt = t.len();
    let k = it % nt;
    let n1 = tri_normal(p, &t[k]);
    if n1.norm() > 0.0 {
        let u = n1.normalize();
        out.push(u);
        // straddle cos(1 degree) / sin(1 degree)
        let tang = (p[t[k][1] as usize] - p[t[k][0] as usize]).normalize();
        for deg in [0.5f64, 0.999, 1.0, 1.001, 1.5, 89.0, 89.5, 90.0] {
            let a = deg.to_radians();
            out.push((u * a.cos() + tang * a.sin()).normalize());
        }
        // the triangle sharing the side t[k][0] -> t[k][1]: bisector (orthogonal to that edge)
        for (j, tj) in t.iter().enumerate() {
            if j != k && tj.contains(&t[k][0]) && tj.contains(&t[k][1]) {
                let n2 = tri_normal(p, tj);
                if n2.norm() > 0.0 {
                    let b = u + n2.normalize();
                    if b.norm() > 1e-9 { out.push(b.normalize()); out.push((b.normalize() + u * r.uniform(-0.02, 0.02)).normalize()); }
                }
            }
        }
    }
    let c = p.iter().fold(d3::Vector::zeros(), |s, q| s + q.coords) / p.len() as f64;
    let w = p[it % p.len()].coords - c;
    if w.norm() > 0.0 { out.push(w.normalize()); }
}

const CSO_SHAPES: [&str; 12] = ["ball", "cuboid", "capsule", "segment", "triangle", "cone", "cylinder", "polyhedron",
                                "roundcuboid", "roundcone", "constantpoint", "constantorigin"];

fn gen_shape(r: &mut Rng, lat: bool, name: &str) -> String {
    let gp = |r: &mut Rng| d3::hp(&d3::gen_p(r, lat, 10.0));
    match name {
        "ball" => hx(r.pos_extent(lat)),
        "cuboid" => d3::hv(&d3::gen_he(r, lat)),
        "capsule" => format!("{} {} {}", gp(r), gp(r), hx(r.pos_extent(lat))),
        "segment" => format!("{} {}", gp(r), gp(r)),
        "triangle" => format!("{} {} {}", gp(r), gp(r), gp(r)),
        "cone" | "cylinder" => format!("{} {}", hx(r.pos_extent(lat)), hx(r.pos_extent(lat))),
        "polyhedron" => { let (p, t) = if lat { big_face_mesh(r) } else { super::gen_polyhedron(r, false) }; format!("{} {}", hpts3(&p), hidx(&t)) }
        "roundcuboid" => format!("{} {}", d3::hv(&d3::gen_he(r, lat)), hx(r.pos_extent(lat))),
        "roundcone" => format!("{} {} {}", hx(r.pos_extent(lat)), hx(r.pos_extent(lat)), hx(r.pos_extent(lat))),
        "constantpoint" => gp(r),
        _ => String::new(),
    }
}

pub fn gen(r: &mut Rng, it: usize, lat: bool, v: &mut Vec<(String, String)>) {
    if it == 0 { v.push(("poly_sincos".into(), String::new())); }
    // ---- ConvexPolyhedron features
    let (p0, t0) = if lat && it % 4 == 0 { big_face_mesh(r) } else { super::gen_polyhedron(r, lat) };
    let (p, t) = if r.bool() { shuffle_mesh(r, &p0, &t0) } else { (p0, t0) };
    if s3::ConvexPolyhedron::from_convex_mesh(p.clone(), &t).is_some() {
        let ph = format!("{} {}", hpts3(&p), hidx(&t));
        let mut dirs = vec![super::gen_unit3(r, lat), super::gen_unit3(r, lat)];
        feature_dirs(r, &p, &t, it, &mut dirs);
        feature_dirs(r, &p, &t, it * 7 + 3, &mut dirs);
        for d in dirs {
            v.push(("polyhedron_feature".into(), format!("{} {}", ph, d3::hv(&d))));
            v.push(("polyhedron_featid".into(), format!("{} {}", ph, d3::hv(&d))));
        }
    }
    // ---- ConvexPolygon feature ids: every edge normal in turn, rotated by 0 / around one degree / half-way to the next
    {
        let pg = super::gen_polygon(r, lat);
        let hp = format!("{} {}", pg.len(), pg.iter().map(d2::hp).collect::<Vec<_>>().join(" "));
        let np = pg.len();
        let mut dirs = vec![super::gen_unit2(r, lat), super::gen_unit2(r, lat)];
        for e in [np - 1, 0, it % np] {
            let t = pg[(e + 1) % np] - pg[e];
            let nrm = d2::Vector::new(t.y, -t.x);
            if nrm.norm() > 0.0 {
                let u = nrm.normalize();
                for deg in [0.0f64, 0.5, 0.999, 1.0, 1.001, -0.999, -1.001, 2.0, -3.0] {
                    let a = deg.to_radians(); let (sn, cs) = a.sin_cos();
                    dirs.push(d2::Vector::new(cs * u.x - sn * u.y, sn * u.x + cs * u.y));
                }
                let c = pg[e].coords - pg.iter().fold(d2::Vector::zeros(), |s, q| s + q.coords) / np as f64;
                if c.norm() > 0.0 { dirs.push(c.normalize()); }
            }
        }
        for d in dirs { v.push(("polygon_featid".into(), format!("{} {}", hp, d2::hv(&d)))); }
    }
    // ---- CSO points: every ordered pair of shape kinds is met over the iterations
    for k in 0..3 {
        let n1 = CSO_SHAPES[(it + k * 5) % 12]; let n2 = CSO_SHAPES[(it / 12 + it + k * 7 + 1) % 12];
        let sa = format!("{} {}", gen_shape(r, lat, n1), gen_shape(r, lat, n2));
        let m = d3::gen_iso(r, lat, 100.0);
        let d = match k { 0 => super::gen_dir3(r, lat), 1 => super::gen_dir3(r, lat) * super::tiny_scale(it), _ => super::gen_dir3(r, !lat) };
        v.push(("cso_local".into(), format!("{} {} {} {} {}", n1, n2, sa, d3::hiso(&m), d3::hv(&d))));
        v.push(("cso_toward".into(), format!("{} {} {} {} {}", n1, n2, sa, d3::hiso(&m), d3::hv(&super::gen_unit3(r, lat)))));
    }
}
