//! Correspondence harness: calls the real parry code (current /repo working tree) on generated
//! inputs and prints one line per case: `<prop> <fn> <args…> | <impl output…>`.
//!   harness gen <prop> <seed> <quick|thorough>     generate cases and run them
//!   harness list <prop> <seed> <quick|thorough>    print the generated cases without running them
//!   harness exec                                   stdin: `<prop> <fn> <args…>[ | …]` lines; re-run them
//!                                                  (HARNESS_FLUSH=1: flush after every case, so that after an abort or a
//!                                                  hang the first case without an output line is the culprit)
#![allow(clippy::all)]
#![allow(dead_code)]
pub extern crate parry2d_f64 as p2;
pub extern crate parry3d_f64 as p3;
mod util;
mod registry;

use std::io::{BufRead, Write};
use std::panic::{catch_unwind, AssertUnwindSafe};
use util::*;

fn exec(prop: &str, func: &str, args: &str) -> String {
    let r = catch_unwind(AssertUnwindSafe(|| {
        let mut a = Args::new(args);
        registry::exec(prop, func, &mut a)
    }));
    match r {
        Ok(s) => s,
        Err(e) => {
            let msg = if let Some(s) = e.downcast_ref::<&str>() { s.to_string() }
                else if let Some(s) = e.downcast_ref::<String>() { s.clone() } else { "?".into() };
            let msg: String = msg.chars().map(|c| if c.is_whitespace() || c == '|' { '_' } else { c }).take(100).collect();
            format!("panic {}", msg)
        }
    }
}

fn gen(prop: &str, rng: &mut Rng, thorough: bool) -> Vec<(String, String)> {
    match registry::gen(prop, rng, thorough) {
        Some(v) => v,
        None => { eprintln!("unknown property {}", prop); std::process::exit(2); }
    }
}

fn main() {
    let args: Vec<String> = std::env::args().collect();
    std::panic::set_hook(Box::new(|_| {}));
    let so = std::io::stdout();
    let mut out = std::io::BufWriter::new(so.lock());
    if args.len() >= 5 && args[1] == "gen" {
        let prop = args[2].clone();
        let seed: u64 = args[3].parse().unwrap_or(0);
        let thorough = args[4] == "thorough";
        let mut rng = Rng::new(seed);
        for (f, a) in gen(&prop, &mut rng, thorough) {
            let o = exec(&prop, &f, &a);
            let _ = writeln!(out, "{} {} {} | {}", prop, f, a, o);
        }
    } else if args.len() >= 5 && args[1] == "list" {
        let prop = args[2].clone();
        let seed: u64 = args[3].parse().unwrap_or(0);
        let thorough = args[4] == "thorough";
        let mut rng = Rng::new(seed);
        for (f, a) in gen(&prop, &mut rng, thorough) {
            let _ = writeln!(out, "{} {} {}", prop, f, a);
        }
    } else if args.len() >= 2 && args[1] == "exec" {
        let flush = std::env::var("HARNESS_FLUSH").is_ok();
        let si = std::io::stdin();
        for line in si.lock().lines() {
            let line = line.unwrap();
            let lhs = line.split('|').next().unwrap().trim().to_string();
            if lhs.is_empty() || lhs.starts_with('#') { continue; }
            let mut it = lhs.splitn(3, ' ');
            let prop = it.next().unwrap_or("");
            let f = it.next().unwrap_or("");
            let a = it.next().unwrap_or("");
            let o = exec(prop, f, a);
            let _ = writeln!(out, "{} {} {} | {}", prop, f, a, o);
            if flush { let _ = out.flush(); }
        }
    } else {
        eprintln!("usage: harness gen <prop> <seed> <quick|thorough> | harness exec < lines");
        std::process::exit(2);
    }
}
