//! C03: argument-order and frame independence.  Isometry group glue, result flipping helpers, mirrored
//! closed-form wrappers (`details::*`), the free functions `query::{distance,closest_points,contact,intersection_test}`
//! on the closed-form routes (bit-exact) and on GJK routes (oracle-only, both orders + common isometry).
use crate::util::*;
use crate::p3::query::{self, details, ClosestPoints, Contact, ShapeCastHit, ShapeCastStatus};
use crate::p3::shape::{Ball, Capsule, Cuboid, HalfSpace, Segment, Shape, SupportMap, Triangle};
use crate::p3::na;
use d3::{Isometry, Point, Real, Vector};

// ------------------------------------------------------------------ shapes on the wire
#[derive(Clone, Debug)]
pub enum Sh {
    Ball(f64),
    Cuboid(Vector<Real>),
    HalfSpace(Vector<Real>),
    Capsule(Point<Real>, Point<Real>, f64),
    Triangle(Point<Real>, Point<Real>, Point<Real>),
    Segment(Point<Real>, Point<Real>),
}
pub fn sh(a: &mut Args) -> Sh {
    match a.tok() {
        "ball" => Sh::Ball(a.f()),
        "cuboid" => Sh::Cuboid(d3::v(a)),
        "halfspace" => Sh::HalfSpace(d3::v(a)),
        "capsule" => { let p = d3::p(a); let q = d3::p(a); Sh::Capsule(p, q, a.f()) }
        "triangle" => { let p = d3::p(a); let q = d3::p(a); let r = d3::p(a); Sh::Triangle(p, q, r) }
        "segment" => { let p = d3::p(a); let q = d3::p(a); Sh::Segment(p, q) }
        k => panic!("shape kind {}", k),
    }
}
pub fn hsh(s: &Sh) -> String {
    match s {
        Sh::Ball(r) => format!("ball {}", hx(*r)),
        Sh::Cuboid(he) => format!("cuboid {}", d3::hv(he)),
        Sh::HalfSpace(n) => format!("halfspace {}", d3::hv(n)),
        Sh::Capsule(p, q, r) => format!("capsule {} {} {}", d3::hp(p), d3::hp(q), hx(*r)),
        Sh::Triangle(p, q, r) => format!("triangle {} {} {}", d3::hp(p), d3::hp(q), d3::hp(r)),
        Sh::Segment(p, q) => format!("segment {} {}", d3::hp(p), d3::hp(q)),
    }
}
pub fn dynsh(s: &Sh) -> Box<dyn Shape> {
    match s {
        Sh::Ball(r) => Box::new(Ball::new(*r)),
        Sh::Cuboid(he) => Box::new(Cuboid::new(*he)),
        Sh::HalfSpace(n) => Box::new(HalfSpace::new(na::Unit::new_unchecked(*n))),
        Sh::Capsule(p, q, r) => Box::new(Capsule::new(*p, *q, *r)),
        Sh::Triangle(p, q, r) => Box::new(Triangle::new(*p, *q, *r)),
        Sh::Segment(p, q) => Box::new(Segment::new(*p, *q)),
    }
}
fn hs(n: &Vector<Real>) -> HalfSpace { HalfSpace::new(na::Unit::new_unchecked(*n)) }

// ------------------------------------------------------------------ printers
pub fn fcontact(c: &Option<Contact>) -> String {
    match c {
        None => "none".into(),
        Some(c) => format!("some {} {} {} {} {}", d3::fp(&c.point1), d3::fp(&c.point2), d3::fv(&c.normal1), d3::fv(&c.normal2), ff(c.dist)),
    }
}
pub fn fcp(c: &ClosestPoints) -> String {
    match c {
        ClosestPoints::Intersecting => "intersecting".into(),
        ClosestPoints::WithinMargin(p, q) => format!("within {} {}", d3::fp(p), d3::fp(q)),
        ClosestPoints::Disjoint => "disjoint".into(),
    }
}
fn contact_in(a: &mut Args) -> Contact {
    let p1 = d3::p(a); let p2 = d3::p(a); let n1 = d3::v(a); let n2 = d3::v(a); let d = a.f();
    Contact::new(p1, p2, na::Unit::new_unchecked(n1), na::Unit::new_unchecked(n2), d)
}
fn hcontact(c: &Contact) -> String {
    format!("{} {} {} {} {}", d3::hp(&c.point1), d3::hp(&c.point2), d3::hv(&c.normal1), d3::hv(&c.normal2), hx(c.dist))
}
fn hcontact_opt(c: &Option<Contact>) -> String {
    match c { None => "none".into(), Some(c) => format!("some {}", hcontact(c)) }
}
fn cp_in(a: &mut Args) -> ClosestPoints {
    match a.tok() {
        "intersecting" => ClosestPoints::Intersecting,
        "disjoint" => ClosestPoints::Disjoint,
        _ => { let p = d3::p(a); let q = d3::p(a); ClosestPoints::WithinMargin(p, q) }
    }
}
fn nopanic<F: FnOnce() -> String>(f: F) -> String {
    match std::panic::catch_unwind(std::panic::AssertUnwindSafe(f)) { Ok(s) => s, Err(_) => "panic".into() }
}
fn res<T, F: Fn(&T) -> String>(r: Result<T, query::Unsupported>, f: F) -> String {
    match r { Ok(x) => f(&x), Err(_) => "unsupported".into() }
}

// ------------------------------------------------------------------ details-level routing (what the dispatcher calls)
pub fn d_contact(s1: &Sh, s2: &Sh, pos12: &Isometry<Real>, pred: f64) -> String {
    match (s1, s2) {
        (Sh::Ball(r1), Sh::Ball(r2)) => fcontact(&details::contact_ball_ball(pos12, &Ball::new(*r1), &Ball::new(*r2), pred)),
        (Sh::HalfSpace(n), x) => { let g = dynsh(x); fcontact(&details::contact_halfspace_support_map(pos12, &hs(n), g.as_support_map().unwrap(), pred)) }
        (x, Sh::HalfSpace(n)) => { let g = dynsh(x); fcontact(&details::contact_support_map_halfspace(pos12, g.as_support_map().unwrap(), &hs(n), pred)) }
        _ => "noroute".into(),
    }
}
pub fn d_distance(s1: &Sh, s2: &Sh, pos12: &Isometry<Real>) -> String {
    match (s1, s2) {
        (Sh::Ball(r1), Sh::Ball(r2)) => ff(details::distance_ball_ball(&Ball::new(*r1), &Point::from(pos12.translation.vector), &Ball::new(*r2))),
        (Sh::HalfSpace(n), x) => { let g = dynsh(x); ff(details::distance_halfspace_support_map(pos12, &hs(n), g.as_support_map().unwrap())) }
        (x, Sh::HalfSpace(n)) => { let g = dynsh(x); ff(details::distance_support_map_halfspace(pos12, g.as_support_map().unwrap(), &hs(n))) }
        _ => "noroute".into(),
    }
}
pub fn d_it(s1: &Sh, s2: &Sh, pos12: &Isometry<Real>) -> String {
    match (s1, s2) {
        (Sh::Ball(r1), Sh::Ball(r2)) => b(details::intersection_test_ball_ball(&Point::from(pos12.translation.vector), &Ball::new(*r1), &Ball::new(*r2))).into(),
        (Sh::HalfSpace(n), x) => { let g = dynsh(x); b(details::intersection_test_halfspace_support_map(pos12, &hs(n), g.as_support_map().unwrap())).into() }
        (x, Sh::HalfSpace(n)) => { let g = dynsh(x); b(details::intersection_test_support_map_halfspace(pos12, g.as_support_map().unwrap(), &hs(n))).into() }
        _ => "noroute".into(),
    }
}
pub fn d_cp(s1: &Sh, s2: &Sh, pos12: &Isometry<Real>, margin: f64) -> String {
    nopanic(|| match (s1, s2) {
        (Sh::Ball(r1), Sh::Ball(r2)) => fcp(&details::closest_points_ball_ball(pos12, &Ball::new(*r1), &Ball::new(*r2), margin)),
        (Sh::HalfSpace(n), x) => { let g = dynsh(x); fcp(&details::closest_points_halfspace_support_map(pos12, &hs(n), g.as_support_map().unwrap(), margin)) }
        (x, Sh::HalfSpace(n)) => { let g = dynsh(x); fcp(&details::closest_points_support_map_halfspace(pos12, g.as_support_map().unwrap(), &hs(n), margin)) }
        _ => "noroute".into(),
    })
}

fn fhit(h: &ShapeCastHit) -> String {
    format!("{} {} {} {} {} {}", ff(h.time_of_impact), d3::fp(&h.witness1), d3::fp(&h.witness2), d3::fv(&h.normal1), d3::fv(&h.normal2), h.status as u8)
}

pub fn exec(func: &str, a: &mut Args) -> String {
    match func {
        // ---- isometry group glue (nalgebra), bit-exact
        "iso_inverse" => { let m = d3::iso(a); d3::fiso(&m.inverse()) }
        "iso_mul" => { let m = d3::iso(a); let n = d3::iso(a); d3::fiso(&(m * n)) }
        "iso_inv_mul" => { let m = d3::iso(a); let n = d3::iso(a); d3::fiso(&m.inv_mul(&n)) }
        "iso_act" => { let m = d3::iso(a); let p = d3::p(a); d3::fp(&(m * p)) }
        "iso_inv_act" => { let m = d3::iso(a); let p = d3::p(a); d3::fp(&m.inverse_transform_point(&p)) }
        "iso_rot" => { let m = d3::iso(a); let v = d3::v(a); d3::fv(&(m * v)) }
        "iso_inv_rot" => { let m = d3::iso(a); let v = d3::v(a); d3::fv(&m.inverse_transform_vector(&v)) }
        // ---- result helpers
        "contact_flipped" => { let c = contact_in(a); fcontact(&Some(c.flipped())) }
        "contact_transform_by" => { let c = contact_in(a); let p1 = d3::iso(a); let p2 = d3::iso(a); let mut c = c; c.transform_by_mut(&p1, &p2); fcontact(&Some(c)) }
        "cp_flipped" => { let c = cp_in(a); fcp(&c.flipped()) }
        "cp_transform_by" => { let c = cp_in(a); let p1 = d3::iso(a); let p2 = d3::iso(a); fcp(&c.transform_by(&p1, &p2)) }
        "hit_swapped" => {
            let toi = a.f(); let w1 = d3::p(a); let w2 = d3::p(a); let n1 = d3::v(a); let n2 = d3::v(a); let st = a.u();
            let status = match st { 0 => ShapeCastStatus::OutOfIterations, 1 => ShapeCastStatus::Converged, 2 => ShapeCastStatus::Failed, _ => ShapeCastStatus::PenetratingOrWithinTargetDist };
            let h = ShapeCastHit { time_of_impact: toi, witness1: w1, witness2: w2, normal1: na::Unit::new_unchecked(n1), normal2: na::Unit::new_unchecked(n2), status };
            fhit(&h.swapped())
        }
        // ---- support maps
        "support_toward" => { let s = sh(a); let m = d3::iso(a); let d = d3::v(a); let g = dynsh(&s);
            d3::fp(&g.as_support_map().unwrap().support_point_toward(&m, &na::Unit::new_unchecked(d))) }
        "support" => { let s = sh(a); let m = d3::iso(a); let d = d3::v(a); let g = dynsh(&s);
            d3::fp(&g.as_support_map().unwrap().support_point(&m, &d)) }
        // ---- closed-form `details::` functions, pos12 form
        "d_contact" => { let s1 = sh(a); let s2 = sh(a); let m = d3::iso(a); let p = a.f(); d_contact(&s1, &s2, &m, p) }
        "d_distance" => { let s1 = sh(a); let s2 = sh(a); let m = d3::iso(a); d_distance(&s1, &s2, &m) }
        "d_it" => { let s1 = sh(a); let s2 = sh(a); let m = d3::iso(a); d_it(&s1, &s2, &m) }
        "d_cp" => { let s1 = sh(a); let s2 = sh(a); let m = d3::iso(a); let p = a.f(); d_cp(&s1, &s2, &m, p) }
        // ---- mirrored wrappers over a tabulated canonical sibling (cuboid as the convex polyhedron):
        //      args: ball radius, cuboid, pos12, param, then the canonical result at `pinv` recorded by the generator (ignored here)
        "w_contact_ball_cp" => { let r = a.f(); let s = sh(a); let m = d3::iso(a); let p = a.f();
            fcontact(&details::contact_ball_convex_polyhedron(&m, &Ball::new(r), &*dynsh(&s), p)) }
        "w_distance_ball_cp" => { let r = a.f(); let s = sh(a); let m = d3::iso(a);
            ff(details::distance_ball_convex_polyhedron(&m, &Ball::new(r), &*dynsh(&s))) }
        "w_it_ball_pq" => { let r = a.f(); let s = sh(a); let m = d3::iso(a);
            b(details::intersection_test_ball_point_query(&m, &Ball::new(r), &*dynsh(&s))).into() }
        "w_cp_ball_cp" => { let r = a.f(); let s = sh(a); let m = d3::iso(a); let p = a.f();
            fcp(&details::closest_points_ball_convex_polyhedron(&m, &Ball::new(r), &*dynsh(&s), p)) }
        "w_cp_cp_ball" => { let r = a.f(); let s = sh(a); let m = d3::iso(a); let p = a.f();
            fcp(&details::closest_points_convex_polyhedron_ball(&m, &*dynsh(&s), &Ball::new(r), p)) }
        // ---- free functions through the real dispatcher, closed-form routes (bit-exact) : s1 pos1 s2 pos2 [param]
        "q_contact" => { let s1 = sh(a); let p1 = d3::iso(a); let s2 = sh(a); let p2 = d3::iso(a); let p = a.f();
            res(query::contact(&p1, &*dynsh(&s1), &p2, &*dynsh(&s2), p), fcontact) }
        "q_distance" => { let s1 = sh(a); let p1 = d3::iso(a); let s2 = sh(a); let p2 = d3::iso(a);
            res(query::distance(&p1, &*dynsh(&s1), &p2, &*dynsh(&s2)), |x| ff(*x)) }
        "q_it" => { let s1 = sh(a); let p1 = d3::iso(a); let s2 = sh(a); let p2 = d3::iso(a);
            res(query::intersection_test(&p1, &*dynsh(&s1), &p2, &*dynsh(&s2)), |x| b(*x).to_string()) }
        "q_cp" => { let s1 = sh(a); let p1 = d3::iso(a); let s2 = sh(a); let p2 = d3::iso(a); let p = a.f();
            nopanic(|| res(query::closest_points(&p1, &*dynsh(&s1), &p2, &*dynsh(&s2), p), fcp)) }
        // ---- oracle-only: any supported pair, three evaluations A=(1,2) B=(2,1) C=(g·1, g·2)
        "o_contact" | "o_distance" | "o_it" | "o_cp" => {
            let s1 = sh(a); let p1 = d3::iso(a); let s2 = sh(a); let p2 = d3::iso(a); let g = d3::iso(a);
            let p = if func == "o_contact" || func == "o_cp" { a.f() } else { 0.0 };
            let (g1, g2) = (dynsh(&s1), dynsh(&s2));
            let (q1, q2) = (g * p1, g * p2);
            let run = |pa: &Isometry<Real>, sa: &dyn Shape, pb: &Isometry<Real>, sb: &dyn Shape| -> String {
                match func {
                    "o_contact" => res(query::contact(pa, sa, pb, sb, p), fcontact),
                    "o_distance" => res(query::distance(pa, sa, pb, sb), |x| ff(*x)),
                    "o_it" => res(query::intersection_test(pa, sa, pb, sb), |x| b(*x).to_string()),
                    _ => res(query::closest_points(pa, sa, pb, sb, p), fcp),
                }
            };
            // auxiliary scalars that tell the oracle whether the configuration is near-touching
            let dist = query::distance(&p1, &*g1, &p2, &*g2).unwrap_or(f64::NAN);
            let depth = match query::contact(&p1, &*g1, &p2, &*g2, 0.0) { Ok(Some(c)) => c.dist, _ => f64::NAN };
            format!("{} ; {} ; {} ; {} {}", run(&p1, &*g1, &p2, &*g2), run(&p2, &*g2, &p1, &*g1), run(&q1, &*g1, &q2, &*g2), ff(dist), ff(depth))
        }
        f if f.contains("2_") => two::exec(f, a),
        _ => "nofn".into(),
    }
}

// ------------------------------------------------------------------ generators
pub fn gen_normal(r: &mut Rng, lat: bool) -> Vector<Real> {
    if lat {
        match r.below(4) {
            0 => { let mut v = Vector::zeros(); v[r.below(3) as usize] = if r.bool() { 1.0 } else { -1.0 }; v }
            1 => { let mut v = Vector::zeros(); let i = r.below(3) as usize; let j = (i + 1 + r.below(2) as usize) % 3;
                   v[i] = if r.bool() { 0.6 } else { -0.6 }; v[j] = if r.bool() { 0.8 } else { -0.8 }; v }
            2 => { let s = std::f64::consts::FRAC_1_SQRT_2; let mut v = Vector::zeros(); let i = r.below(3) as usize; let j = (i + 1) % 3;
                   v[i] = s; v[j] = if r.bool() { s } else { -s }; v }
            _ => Vector::new(1.0, 2.0, 2.0).component_mul(&Vector::new(if r.bool() { 1.0 } else { -1.0 }, if r.bool() { 1.0 } else { -1.0 }, 1.0)).normalize(),
        }
    } else {
        loop {
            let v = Vector::new(r.uniform(-1.0, 1.0), r.uniform(-1.0, 1.0), r.uniform(-1.0, 1.0));
            let n = v.norm();
            if n > 0.1 && n <= 1.0 { return v / n; }
        }
    }
}
/// a shape of one of the kinds in `kinds` (0 ball, 1 cuboid, 2 halfspace, 3 capsule, 4 triangle, 5 segment)
pub fn gen_shape(r: &mut Rng, lat: bool, kinds: &[u8]) -> Sh {
    let small = if lat { 2.0 } else { 10.0 };
    match *r.pick(kinds) {
        0 => Sh::Ball(r.pos_extent(lat)),
        1 => Sh::Cuboid(d3::gen_he(r, lat)),
        2 => Sh::HalfSpace(gen_normal(r, lat)),
        3 => Sh::Capsule(d3::gen_p(r, lat, small), d3::gen_p(r, lat, small), r.pos_extent(lat).min(10.0)),
        4 => loop {
            let (p, q, s) = (d3::gen_p(r, lat, small), d3::gen_p(r, lat, small), d3::gen_p(r, lat, small));
            if (q - p).cross(&(s - p)).norm() > 1e-3 { break Sh::Triangle(p, q, s); }
        },
        _ => loop {
            let (p, q) = (d3::gen_p(r, lat, small), d3::gen_p(r, lat, small));
            if (q - p).norm() > 1e-3 { break Sh::Segment(p, q); }
        },
    }
}
pub fn size(s: &Sh) -> f64 {
    match s {
        Sh::Ball(r) => *r,
        Sh::Cuboid(he) => he.norm(),
        Sh::HalfSpace(_) => 0.0,
        Sh::Capsule(p, q, r) => p.coords.norm().max(q.coords.norm()) + r,
        Sh::Triangle(p, q, s) => p.coords.norm().max(q.coords.norm()).max(s.coords.norm()),
        Sh::Segment(p, q) => p.coords.norm().max(q.coords.norm()),
    }
}
/// two poses whose shapes are near each other (penetrating / touching / separated), never both with identity rotation
pub fn gen_poses(r: &mut Rng, lat: bool, s1: &Sh, s2: &Sh) -> (Isometry<Real>, Isometry<Real>, Isometry<Real>) {
    let ts = if r.below(4) == 0 { 1000.0 } else { 20.0 };
    let p1 = d3::gen_iso(r, lat, ts);
    let mut p2 = d3::gen_iso(r, lat, 1.0);
    let reach = size(s1) + size(s2);
    let dir = gen_normal(r, lat);
    let k = if lat { *r.pick(&[0.0, 0.25, 0.5, 1.0, 1.5, 2.0]) } else { r.uniform(0.0, 2.5) };
    let off = if lat { let o = dir * (reach * k); Vector::new((o.x * 4.0).round() / 4.0, (o.y * 4.0).round() / 4.0, (o.z * 4.0).round() / 4.0) } else { dir * (reach * k) };
    let mut rel = p2;
    rel.translation.vector = off;
    p2.translation.vector = p1.translation.vector + off;
    (p1, p2, rel)
}
pub fn gen_param(r: &mut Rng, lat: bool) -> f64 {
    if lat { *r.pick(&[0.0, 0.25, 0.5, 1.0, 4.0]) } else if r.below(5) == 0 { 0.0 } else { r.logu(1e-3, 1e2) }
}

pub fn gen(r: &mut Rng, thorough: bool) -> Vec<(String, String)> {
    let n = if thorough { 3000 } else { 300 };
    let mut v: Vec<(String, String)> = Vec::new();
    let closed: [u8; 3] = [0, 1, 2];
    for it in 0..n {
        let lat = it % 2 == 0;
        // ---- group glue
        let m = d3::gen_iso(r, lat, 100.0); let m2 = d3::gen_iso(r, lat, 100.0);
        let p = d3::gen_p(r, lat, 50.0);
        v.push(("iso_inverse".into(), d3::hiso(&m)));
        v.push(("iso_mul".into(), format!("{} {}", d3::hiso(&m), d3::hiso(&m2))));
        v.push(("iso_inv_mul".into(), format!("{} {}", d3::hiso(&m), d3::hiso(&m2))));
        for f in ["iso_act", "iso_inv_act", "iso_rot", "iso_inv_rot"] { v.push((f.into(), format!("{} {}", d3::hiso(&m), d3::hp(&p)))); }
        // ---- closed-form pairs
        for _ in 0..4 {
            let (s1, s2) = loop {
                let s1 = gen_shape(r, lat, &closed); let s2 = gen_shape(r, lat, &closed);
                let ok = match (&s1, &s2) { (Sh::Ball(_), Sh::Ball(_)) => true, (Sh::HalfSpace(_), Sh::HalfSpace(_)) => false, (Sh::HalfSpace(_), _) | (_, Sh::HalfSpace(_)) => true, _ => false };
                if ok { break (s1, s2); }
            };
            let (p1, p2, pos12) = gen_poses(r, lat, &s1, &s2);
            let mut par = gen_param(r, lat);
            if r.below(5) == 0 {
                // tie: prediction / margin exactly equal to the reported distance (`<=` vs `<`)
                let c = d_contact(&s1, &s2, &pos12, 1.0e6);
                if c.starts_with("some") {
                    let d = f64::from_bits(u64::from_str_radix(c.split_whitespace().last().unwrap(), 16).unwrap_or(0));
                    if d.is_finite() && d > 0.0 { par = d; }
                }
            }
            let ss = format!("{} {} {}", hsh(&s1), hsh(&s2), d3::hiso(&pos12));
            v.push(("d_contact".into(), format!("{} {}", ss, hx(par))));
            v.push(("d_distance".into(), ss.clone()));
            v.push(("d_it".into(), ss.clone()));
            v.push(("d_cp".into(), format!("{} {}", ss, hx(if r.below(40) == 0 { -par - 1.0 } else { par }))));
            // free functions: only the pairs whose dispatcher route is one of the modelled closed forms
            let sw = format!("{} {} {} {}", hsh(&s1), d3::hiso(&p1), hsh(&s2), d3::hiso(&p2));
            v.push(("q_contact".into(), format!("{} {}", sw, hx(par))));
            let ball_hs = matches!((&s1, &s2), (Sh::Ball(_), Sh::HalfSpace(_)) | (Sh::HalfSpace(_), Sh::Ball(_)));
            if !ball_hs {
                v.push(("q_distance".into(), sw.clone()));
                v.push(("q_it".into(), sw.clone()));
                v.push(("q_cp".into(), format!("{} {}", sw, hx(par))));
            }
        }
        // ---- result helpers
        {
            let c = Contact::new(d3::gen_p(r, lat, 50.0), d3::gen_p(r, lat, 50.0), na::Unit::new_unchecked(gen_normal(r, lat)), na::Unit::new_unchecked(gen_normal(r, lat)), r.coord(lat, 10.0));
            v.push(("contact_flipped".into(), hcontact(&c)));
            v.push(("contact_transform_by".into(), format!("{} {} {}", hcontact(&c), d3::hiso(&m), d3::hiso(&m2))));
            let cp = match r.below(4) { 0 => "intersecting".to_string(), 1 => "disjoint".to_string(), _ => format!("within {} {}", d3::hp(&c.point1), d3::hp(&c.point2)) };
            v.push(("cp_flipped".into(), cp.clone()));
            v.push(("cp_transform_by".into(), format!("{} {} {}", cp, d3::hiso(&m), d3::hiso(&m2))));
            v.push(("hit_swapped".into(), format!("{} {} {}", hx(r.uniform(0.0, 10.0)), hcontact(&c).rsplitn(2, ' ').nth(1).unwrap(), r.below(4))));
        }
        // ---- support maps (ball, cuboid), unit and non-unit directions, zero components
        for _ in 0..2 {
            let s = gen_shape(r, lat, &[0, 1]);
            let mut d = gen_normal(r, lat);
            if r.below(3) == 0 { d *= r.logu(1e-3, 1e3); }
            let a = format!("{} {} {}", hsh(&s), d3::hiso(&m), d3::hv(&d));
            v.push(("support_toward".into(), a.clone()));
            v.push(("support".into(), a));
        }
        // ---- mirrored wrappers over the tabulated canonical sibling (ball vs cuboid)
        for _ in 0..2 {
            let rad = r.pos_extent(lat).min(20.0);
            let cub = Sh::Cuboid(d3::gen_he(r, lat));
            let (_, _, mut pos12) = gen_poses(r, lat, &Sh::Ball(rad), &cub);
            if r.below(6) == 0 { // ball centre inside / on the boundary of the cuboid
                if let Sh::Cuboid(he) = &cub { pos12.translation.vector = -(pos12.rotation * Vector::new(he.x * *r.pick(&[0.0, 0.5, 1.0]), he.y * *r.pick(&[0.0, 0.25, 1.0]), he.z * *r.pick(&[0.0, 0.5, 1.0]))); }
            }
            let par = gen_param(r, lat);
            let pinv = pos12.inverse();
            let (ball, cs) = (Ball::new(rad), dynsh(&cub));
            let base = format!("{} {} {}", hx(rad), hsh(&cub), d3::hiso(&pos12));
            let canon = details::contact_convex_polyhedron_ball(&pinv, &*cs, &ball, par);
            v.push(("w_contact_ball_cp".into(), format!("{} {} {} {}", base, hx(par), d3::hiso(&pinv), hcontact_opt(&canon))));
            v.push(("w_cp_ball_cp".into(), format!("{} {} {} {}", base, hx(par), d3::hiso(&pinv), hcontact_opt(&canon))));
            let canon2 = details::contact_convex_polyhedron_ball(&pos12, &*cs, &ball, par);
            v.push(("w_cp_cp_ball".into(), format!("{} {} {}", base, hx(par), hcontact_opt(&canon2))));
            let cd = details::distance_convex_polyhedron_ball(&pinv, &*cs, &ball);
            v.push(("w_distance_ball_cp".into(), format!("{} {} {}", base, d3::hiso(&pinv), hx(cd))));
            let ci = details::intersection_test_point_query_ball(&pinv, &*cs, &ball);
            v.push(("w_it_ball_pq".into(), format!("{} {} {}", base, d3::hiso(&pinv), b(ci))));
        }
        two::gen(r, lat, &mut v);
        // ---- oracle-only: the real dispatcher on any supported pair, both orders and under a common isometry
        for _ in 0..3 {
            let all: [u8; 6] = [0, 1, 2, 3, 4, 5];
            let (s1, s2) = loop {
                let s1 = gen_shape(r, lat, &all); let s2 = gen_shape(r, lat, &all);
                if !matches!((&s1, &s2), (Sh::HalfSpace(_), Sh::HalfSpace(_))) { break (s1, s2); }
            };
            let (p1, p2, _) = gen_poses(r, lat, &s1, &s2);
            let glat = lat && r.bool(); let g = d3::gen_iso(r, glat, 100.0);
            let par = gen_param(r, lat);
            let sw = format!("{} {} {} {} {}", hsh(&s1), d3::hiso(&p1), hsh(&s2), d3::hiso(&p2), d3::hiso(&g));
            v.push(("o_contact".into(), format!("{} {}", sw, hx(par))));
            v.push(("o_cp".into(), format!("{} {}", sw, hx(par))));
            v.push(("o_distance".into(), sw.clone()));
            v.push(("o_it".into(), sw));
        }
    }
    v
}

// ================================================================== 2-D (parry2d-f64)
pub mod two {
    use crate::util::*;
    use crate::p2::query::{self, details, ClosestPoints, Contact};
    use crate::p2::shape::{Ball, Capsule, Cuboid, HalfSpace, Segment, Shape, Triangle};
    use crate::p2::na;
    use d2::{Isometry, Point, Real, Vector};

    #[derive(Clone, Debug)]
    pub enum Sh { Ball(f64), Cuboid(Vector<Real>), HalfSpace(Vector<Real>), Capsule(Point<Real>, Point<Real>, f64), Triangle(Point<Real>, Point<Real>, Point<Real>), Segment(Point<Real>, Point<Real>) }
    pub fn sh(a: &mut Args) -> Sh {
        match a.tok() {
            "ball" => Sh::Ball(a.f()),
            "cuboid" => Sh::Cuboid(d2::v(a)),
            "halfspace" => Sh::HalfSpace(d2::v(a)),
            "capsule" => { let p = d2::p(a); let q = d2::p(a); Sh::Capsule(p, q, a.f()) }
            "triangle" => { let p = d2::p(a); let q = d2::p(a); let r = d2::p(a); Sh::Triangle(p, q, r) }
            "segment" => { let p = d2::p(a); let q = d2::p(a); Sh::Segment(p, q) }
            k => panic!("shape kind {}", k),
        }
    }
    pub fn hsh(s: &Sh) -> String {
        match s {
            Sh::Ball(r) => format!("ball {}", hx(*r)),
            Sh::Cuboid(he) => format!("cuboid {}", d2::hv(he)),
            Sh::HalfSpace(n) => format!("halfspace {}", d2::hv(n)),
            Sh::Capsule(p, q, r) => format!("capsule {} {} {}", d2::hp(p), d2::hp(q), hx(*r)),
            Sh::Triangle(p, q, r) => format!("triangle {} {} {}", d2::hp(p), d2::hp(q), d2::hp(r)),
            Sh::Segment(p, q) => format!("segment {} {}", d2::hp(p), d2::hp(q)),
        }
    }
    pub fn dynsh(s: &Sh) -> Box<dyn Shape> {
        match s {
            Sh::Ball(r) => Box::new(Ball::new(*r)),
            Sh::Cuboid(he) => Box::new(Cuboid::new(*he)),
            Sh::HalfSpace(n) => Box::new(HalfSpace::new(na::Unit::new_unchecked(*n))),
            Sh::Capsule(p, q, r) => Box::new(Capsule::new(*p, *q, *r)),
            Sh::Triangle(p, q, r) => Box::new(Triangle::new(*p, *q, *r)),
            Sh::Segment(p, q) => Box::new(Segment::new(*p, *q)),
        }
    }
    fn hs(n: &Vector<Real>) -> HalfSpace { HalfSpace::new(na::Unit::new_unchecked(*n)) }
    pub fn fiso(m: &Isometry<Real>) -> String { format!("{} {} {}", ff(m.rotation.re), ff(m.rotation.im), d2::fv(&m.translation.vector)) }
    pub fn fcontact(c: &Option<Contact>) -> String {
        match c {
            None => "none".into(),
            Some(c) => format!("some {} {} {} {} {}", d2::fp(&c.point1), d2::fp(&c.point2), d2::fv(&c.normal1), d2::fv(&c.normal2), ff(c.dist)),
        }
    }
    pub fn fcp(c: &ClosestPoints) -> String {
        match c {
            ClosestPoints::Intersecting => "intersecting".into(),
            ClosestPoints::WithinMargin(p, q) => format!("within {} {}", d2::fp(p), d2::fp(q)),
            ClosestPoints::Disjoint => "disjoint".into(),
        }
    }
    fn res<T, F: Fn(&T) -> String>(r: Result<T, query::Unsupported>, f: F) -> String {
        match r { Ok(x) => f(&x), Err(_) => "unsupported".into() }
    }
    fn d_contact(s1: &Sh, s2: &Sh, pos12: &Isometry<Real>, pred: f64) -> String {
        match (s1, s2) {
            (Sh::Ball(r1), Sh::Ball(r2)) => fcontact(&details::contact_ball_ball(pos12, &Ball::new(*r1), &Ball::new(*r2), pred)),
            (Sh::HalfSpace(n), x) => { let g = dynsh(x); fcontact(&details::contact_halfspace_support_map(pos12, &hs(n), g.as_support_map().unwrap(), pred)) }
            (x, Sh::HalfSpace(n)) => { let g = dynsh(x); fcontact(&details::contact_support_map_halfspace(pos12, g.as_support_map().unwrap(), &hs(n), pred)) }
            _ => "noroute".into(),
        }
    }
    pub fn exec(func: &str, a: &mut Args) -> String {
        match func {
            "iso2_inverse" => { let m = d2::iso(a); fiso(&m.inverse()) }
            "iso2_mul" => { let m = d2::iso(a); let n = d2::iso(a); fiso(&(m * n)) }
            "iso2_inv_mul" => { let m = d2::iso(a); let n = d2::iso(a); fiso(&m.inv_mul(&n)) }
            "iso2_act" => { let m = d2::iso(a); let p = d2::p(a); d2::fp(&(m * p)) }
            "iso2_inv_act" => { let m = d2::iso(a); let p = d2::p(a); d2::fp(&m.inverse_transform_point(&p)) }
            "d2_contact" => { let s1 = sh(a); let s2 = sh(a); let m = d2::iso(a); let p = a.f(); d_contact(&s1, &s2, &m, p) }
            "q2_contact" => { let s1 = sh(a); let p1 = d2::iso(a); let s2 = sh(a); let p2 = d2::iso(a); let p = a.f();
                res(query::contact(&p1, &*dynsh(&s1), &p2, &*dynsh(&s2), p), fcontact) }
            "o2_contact" | "o2_distance" | "o2_it" | "o2_cp" => {
                let s1 = sh(a); let p1 = d2::iso(a); let s2 = sh(a); let p2 = d2::iso(a); let g = d2::iso(a);
                let p = if func == "o2_contact" || func == "o2_cp" { a.f() } else { 0.0 };
                let (g1, g2) = (dynsh(&s1), dynsh(&s2));
                let (q1, q2) = (g * p1, g * p2);
                let run = |pa: &Isometry<Real>, sa: &dyn Shape, pb: &Isometry<Real>, sb: &dyn Shape| -> String {
                    match func {
                        "o2_contact" => res(query::contact(pa, sa, pb, sb, p), fcontact),
                        "o2_distance" => res(query::distance(pa, sa, pb, sb), |x| ff(*x)),
                        "o2_it" => res(query::intersection_test(pa, sa, pb, sb), |x| b(*x).to_string()),
                        _ => res(query::closest_points(pa, sa, pb, sb, p), fcp),
                    }
                };
                let dist = query::distance(&p1, &*g1, &p2, &*g2).unwrap_or(f64::NAN);
                let depth = match query::contact(&p1, &*g1, &p2, &*g2, 0.0) { Ok(Some(c)) => c.dist, _ => f64::NAN };
                format!("{} ; {} ; {} ; {} {}", run(&p1, &*g1, &p2, &*g2), run(&p2, &*g2, &p1, &*g1), run(&q1, &*g1, &q2, &*g2), ff(dist), ff(depth))
            }
            _ => "nofn".into(),
        }
    }
    fn gen_normal(r: &mut Rng, lat: bool) -> Vector<Real> {
        if lat { let (c, s) = d2::gen_rot(r, true); Vector::new(c, s) } else { let a = r.uniform(-3.2, 3.2); Vector::new(a.cos(), a.sin()) }
    }
    fn gen_shape(r: &mut Rng, lat: bool, kinds: &[u8]) -> Sh {
        let small = if lat { 2.0 } else { 10.0 };
        match *r.pick(kinds) {
            0 => Sh::Ball(r.pos_extent(lat)),
            1 => Sh::Cuboid(d2::gen_he(r, lat)),
            2 => Sh::HalfSpace(gen_normal(r, lat)),
            3 => Sh::Capsule(d2::gen_p(r, lat, small), d2::gen_p(r, lat, small), r.pos_extent(lat).min(10.0)),
            4 => loop {
                let (p, q, s) = (d2::gen_p(r, lat, small), d2::gen_p(r, lat, small), d2::gen_p(r, lat, small));
                if (q - p).perp(&(s - p)).abs() > 1e-3 { break Sh::Triangle(p, q, s); }
            },
            _ => loop {
                let (p, q) = (d2::gen_p(r, lat, small), d2::gen_p(r, lat, small));
                if (q - p).norm() > 1e-3 { break Sh::Segment(p, q); }
            },
        }
    }
    fn size(s: &Sh) -> f64 {
        match s {
            Sh::Ball(r) => *r, Sh::Cuboid(he) => he.norm(), Sh::HalfSpace(_) => 0.0,
            Sh::Capsule(p, q, r) => p.coords.norm().max(q.coords.norm()) + r,
            Sh::Triangle(p, q, s) => p.coords.norm().max(q.coords.norm()).max(s.coords.norm()),
            Sh::Segment(p, q) => p.coords.norm().max(q.coords.norm()),
        }
    }
    fn gen_poses(r: &mut Rng, lat: bool, s1: &Sh, s2: &Sh) -> (Isometry<Real>, Isometry<Real>, Isometry<Real>) {
        let ts = if r.below(4) == 0 { 1000.0 } else { 20.0 };
        let p1 = d2::gen_iso(r, lat, ts);
        let mut p2 = d2::gen_iso(r, lat, 1.0);
        let reach = size(s1) + size(s2);
        let dir = gen_normal(r, lat);
        let k = if lat { *r.pick(&[0.0, 0.25, 0.5, 1.0, 1.5, 2.0]) } else { r.uniform(0.0, 2.5) };
        let off = if lat { let o = dir * (reach * k); Vector::new((o.x * 4.0).round() / 4.0, (o.y * 4.0).round() / 4.0) } else { dir * (reach * k) };
        let mut rel = p2;
        rel.translation.vector = off;
        p2.translation.vector = p1.translation.vector + off;
        (p1, p2, rel)
    }
    pub fn gen(r: &mut Rng, lat: bool, v: &mut Vec<(String, String)>) {
        let m = d2::gen_iso(r, lat, 100.0); let m2 = d2::gen_iso(r, lat, 100.0);
        let p = d2::gen_p(r, lat, 50.0);
        v.push(("iso2_inverse".into(), d2::hiso(&m)));
        v.push(("iso2_mul".into(), format!("{} {}", d2::hiso(&m), d2::hiso(&m2))));
        v.push(("iso2_inv_mul".into(), format!("{} {}", d2::hiso(&m), d2::hiso(&m2))));
        v.push(("iso2_act".into(), format!("{} {}", d2::hiso(&m), d2::hp(&p))));
        v.push(("iso2_inv_act".into(), format!("{} {}", d2::hiso(&m), d2::hp(&p))));
        for _ in 0..2 {
            let (s1, s2) = loop {
                let s1 = gen_shape(r, lat, &[0, 1, 2]); let s2 = gen_shape(r, lat, &[0, 1, 2]);
                let ok = match (&s1, &s2) { (Sh::Ball(_), Sh::Ball(_)) => true, (Sh::HalfSpace(_), Sh::HalfSpace(_)) => false, (Sh::HalfSpace(_), _) | (_, Sh::HalfSpace(_)) => true, _ => false };
                if ok { break (s1, s2); }
            };
            let (p1, p2, pos12) = gen_poses(r, lat, &s1, &s2);
            let par = super::gen_param(r, lat);
            v.push(("d2_contact".into(), format!("{} {} {} {}", hsh(&s1), hsh(&s2), d2::hiso(&pos12), hx(par))));
            v.push(("q2_contact".into(), format!("{} {} {} {} {}", hsh(&s1), d2::hiso(&p1), hsh(&s2), d2::hiso(&p2), hx(par))));
        }
        for _ in 0..2 {
            let all: [u8; 6] = [0, 1, 2, 3, 4, 5];
            let (s1, s2) = loop {
                let s1 = gen_shape(r, lat, &all); let s2 = gen_shape(r, lat, &all);
                if !matches!((&s1, &s2), (Sh::HalfSpace(_), Sh::HalfSpace(_))) { break (s1, s2); }
            };
            let (p1, p2, _) = gen_poses(r, lat, &s1, &s2);
            let glat = lat && r.bool(); let g = d2::gen_iso(r, glat, 100.0);
            let par = super::gen_param(r, lat);
            let sw = format!("{} {} {} {} {}", hsh(&s1), d2::hiso(&p1), hsh(&s2), d2::hiso(&p2), d2::hiso(&g));
            v.push(("o2_contact".into(), format!("{} {}", sw, hx(par))));
            v.push(("o2_cp".into(), format!("{} {}", sw, hx(par))));
            v.push(("o2_distance".into(), sw.clone()));
            v.push(("o2_it".into(), sw));
        }
    }
}
