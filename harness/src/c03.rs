//! C03: argument-order and frame independence.  Isometry group glue, result flipping helpers, mirrored
//! closed-form wrappers (`details::*`), the free functions `query::{distance,closest_points,contact,intersection_test}`
//! on the closed-form routes (bit-exact) and on GJK routes (oracle-only, both orders + common isometry).
use crate::util::*;
use crate::p3::query::{self, details, sat, ClosestPoints, Contact, DefaultQueryDispatcher, PointQuery, QueryDispatcher, ShapeCastHit, ShapeCastOptions, ShapeCastStatus};
use crate::p3::shape::{Ball, Capsule, Compound, Cuboid, HalfSpace, Segment, Shape, SharedShape, SupportMap, TriMesh, TriMeshFlags, Triangle};
use crate::p3::na;
use d3::{Isometry, Point, Real, Vector};

// ------------------------------------------------------------------ shapes on the wire
#[derive(Clone, Debug)]
pub enum Sh {
    Ball(f64),
    Cuboid(Vector<Real>),
    HalfSpace(Vector<Real>),
    Capsule(Point<Real>, Point<Real>, f64),
    Triangle(Point<Real>, Point<Real>, Point<Real>),
    Segment(Point<Real>, Point<Real>),
    /// parts with their own poses (parts are never composite themselves)
    Compound(Vec<(Isometry<Real>, Sh)>),
    /// flags (TriMeshFlags bits), vertices, triangles
    TriMesh(u16, Vec<Point<Real>>, Vec<[u32; 3]>),
}
pub fn sh(a: &mut Args) -> Sh {
    match a.tok() {
        "ball" => Sh::Ball(a.f()),
        "cuboid" => Sh::Cuboid(d3::v(a)),
        "halfspace" => Sh::HalfSpace(d3::v(a)),
        "capsule" => { let p = d3::p(a); let q = d3::p(a); Sh::Capsule(p, q, a.f()) }
        "triangle" => { let p = d3::p(a); let q = d3::p(a); let r = d3::p(a); Sh::Triangle(p, q, r) }
        "segment" => { let p = d3::p(a); let q = d3::p(a); Sh::Segment(p, q) }
        "compound" => { let n = a.u(); Sh::Compound((0..n).map(|_| { let m = d3::iso(a); let s = sh(a); (m, s) }).collect()) }
        "trimesh" => { let f = a.u() as u16; let nv = a.u(); let vs = (0..nv).map(|_| d3::p(a)).collect();
            let nt = a.u(); let ts = (0..nt).map(|_| [a.u() as u32, a.u() as u32, a.u() as u32]).collect(); Sh::TriMesh(f, vs, ts) }
        k => panic!("shape kind {}", k),
    }
}
pub fn hsh(s: &Sh) -> String {
    match s {
        Sh::Ball(r) => format!("ball {}", hx(*r)),
        Sh::Cuboid(he) => format!("cuboid {}", d3::hv(he)),
        Sh::HalfSpace(n) => format!("halfspace {}", d3::hv(n)),
        Sh::Capsule(p, q, r) => format!("capsule {} {} {}", d3::hp(p), d3::hp(q), hx(*r)),
        Sh::Triangle(p, q, r) => format!("triangle {} {} {}", d3::hp(p), d3::hp(q), d3::hp(r)),
        Sh::Segment(p, q) => format!("segment {} {}", d3::hp(p), d3::hp(q)),
        Sh::Compound(ps) => format!("compound {} {}", ps.len(), ps.iter().map(|(m, s)| format!("{} {}", d3::hiso(m), hsh(s))).collect::<Vec<_>>().join(" ")),
        Sh::TriMesh(f, vs, ts) => format!("trimesh {} {} {} {} {}", f, vs.len(), vs.iter().map(|p| d3::hp(p)).collect::<Vec<_>>().join(" "),
            ts.len(), ts.iter().map(|t| format!("{} {} {}", t[0], t[1], t[2])).collect::<Vec<_>>().join(" ")),
    }
}
pub fn dynsh(s: &Sh) -> Box<dyn Shape> {
    match s {
        Sh::Ball(r) => Box::new(Ball::new(*r)),
        Sh::Cuboid(he) => Box::new(Cuboid::new(*he)),
        Sh::HalfSpace(n) => Box::new(HalfSpace::new(na::Unit::new_unchecked(*n))),
        Sh::Capsule(p, q, r) => Box::new(Capsule::new(*p, *q, *r)),
        Sh::Triangle(p, q, r) => Box::new(Triangle::new(*p, *q, *r)),
        Sh::Segment(p, q) => Box::new(Segment::new(*p, *q)),
        Sh::Compound(ps) => Box::new(Compound::new(ps.iter().map(|(m, s)| (*m, SharedShape(std::sync::Arc::from(dynsh(s))))).collect())),
        Sh::TriMesh(f, vs, ts) => Box::new(TriMesh::with_flags(vs.clone(), ts.clone(), TriMeshFlags::from_bits_truncate(*f)).expect("trimesh")),
    }
}
fn hs(n: &Vector<Real>) -> HalfSpace { HalfSpace::new(na::Unit::new_unchecked(*n)) }

// ------------------------------------------------------------------ printers
pub fn fcontact(c: &Option<Contact>) -> String {
    match c {
        None => "none".into(),
        Some(c) => format!("some {} {} {} {} {}", d3::fp(&c.point1), d3::fp(&c.point2), d3::fv(&c.normal1), d3::fv(&c.normal2), ff(c.dist)),
    }
}
pub fn fcp(c: &ClosestPoints) -> String {
    match c {
        ClosestPoints::Intersecting => "intersecting".into(),
        ClosestPoints::WithinMargin(p, q) => format!("within {} {}", d3::fp(p), d3::fp(q)),
        ClosestPoints::Disjoint => "disjoint".into(),
    }
}
fn contact_in(a: &mut Args) -> Contact {
    let p1 = d3::p(a); let p2 = d3::p(a); let n1 = d3::v(a); let n2 = d3::v(a); let d = a.f();
    Contact::new(p1, p2, na::Unit::new_unchecked(n1), na::Unit::new_unchecked(n2), d)
}
fn hcontact(c: &Contact) -> String {
    format!("{} {} {} {} {}", d3::hp(&c.point1), d3::hp(&c.point2), d3::hv(&c.normal1), d3::hv(&c.normal2), hx(c.dist))
}
fn hcontact_opt(c: &Option<Contact>) -> String {
    match c { None => "none".into(), Some(c) => format!("some {}", hcontact(c)) }
}
fn cp_in(a: &mut Args) -> ClosestPoints {
    match a.tok() {
        "intersecting" => ClosestPoints::Intersecting,
        "disjoint" => ClosestPoints::Disjoint,
        _ => { let p = d3::p(a); let q = d3::p(a); ClosestPoints::WithinMargin(p, q) }
    }
}
fn nopanic<F: FnOnce() -> String>(f: F) -> String {
    match std::panic::catch_unwind(std::panic::AssertUnwindSafe(f)) { Ok(s) => s, Err(_) => "panic".into() }
}
fn res<T, F: Fn(&T) -> String>(r: Result<T, query::Unsupported>, f: F) -> String {
    match r { Ok(x) => f(&x), Err(_) => "unsupported".into() }
}

// ------------------------------------------------------------------ details-level routing (what the dispatcher calls)
pub fn d_contact(s1: &Sh, s2: &Sh, pos12: &Isometry<Real>, pred: f64) -> String {
    match (s1, s2) {
        (Sh::Ball(r1), Sh::Ball(r2)) => fcontact(&details::contact_ball_ball(pos12, &Ball::new(*r1), &Ball::new(*r2), pred)),
        (Sh::HalfSpace(n), x) => { let g = dynsh(x); fcontact(&details::contact_halfspace_support_map(pos12, &hs(n), g.as_support_map().unwrap(), pred)) }
        (x, Sh::HalfSpace(n)) => { let g = dynsh(x); fcontact(&details::contact_support_map_halfspace(pos12, g.as_support_map().unwrap(), &hs(n), pred)) }
        _ => "noroute".into(),
    }
}
pub fn d_distance(s1: &Sh, s2: &Sh, pos12: &Isometry<Real>) -> String {
    match (s1, s2) {
        (Sh::Ball(r1), Sh::Ball(r2)) => ff(details::distance_ball_ball(&Ball::new(*r1), &Point::from(pos12.translation.vector), &Ball::new(*r2))),
        (Sh::HalfSpace(n), x) => { let g = dynsh(x); ff(details::distance_halfspace_support_map(pos12, &hs(n), g.as_support_map().unwrap())) }
        (x, Sh::HalfSpace(n)) => { let g = dynsh(x); ff(details::distance_support_map_halfspace(pos12, g.as_support_map().unwrap(), &hs(n))) }
        _ => "noroute".into(),
    }
}
pub fn d_it(s1: &Sh, s2: &Sh, pos12: &Isometry<Real>) -> String {
    match (s1, s2) {
        (Sh::Ball(r1), Sh::Ball(r2)) => b(details::intersection_test_ball_ball(&Point::from(pos12.translation.vector), &Ball::new(*r1), &Ball::new(*r2))).into(),
        (Sh::HalfSpace(n), x) => { let g = dynsh(x); b(details::intersection_test_halfspace_support_map(pos12, &hs(n), g.as_support_map().unwrap())).into() }
        (x, Sh::HalfSpace(n)) => { let g = dynsh(x); b(details::intersection_test_support_map_halfspace(pos12, g.as_support_map().unwrap(), &hs(n))).into() }
        _ => "noroute".into(),
    }
}
pub fn d_cp(s1: &Sh, s2: &Sh, pos12: &Isometry<Real>, margin: f64) -> String {
    nopanic(|| match (s1, s2) {
        (Sh::Ball(r1), Sh::Ball(r2)) => fcp(&details::closest_points_ball_ball(pos12, &Ball::new(*r1), &Ball::new(*r2), margin)),
        (Sh::HalfSpace(n), x) => { let g = dynsh(x); fcp(&details::closest_points_halfspace_support_map(pos12, &hs(n), g.as_support_map().unwrap(), margin)) }
        (x, Sh::HalfSpace(n)) => { let g = dynsh(x); fcp(&details::closest_points_support_map_halfspace(pos12, g.as_support_map().unwrap(), &hs(n), margin)) }
        _ => "noroute".into(),
    })
}

fn fhit(h: &ShapeCastHit) -> String {
    format!("{} {} {} {} {} {}", ff(h.time_of_impact), d3::fp(&h.witness1), d3::fp(&h.witness2), d3::fv(&h.normal1), d3::fv(&h.normal2), h.status as u8)
}

pub fn exec(func: &str, a: &mut Args) -> String {
    match func {
        // ---- isometry group glue (nalgebra), bit-exact
        "iso_inverse" => { let m = d3::iso(a); d3::fiso(&m.inverse()) }
        "iso_mul" => { let m = d3::iso(a); let n = d3::iso(a); d3::fiso(&(m * n)) }
        "iso_inv_mul" => { let m = d3::iso(a); let n = d3::iso(a); d3::fiso(&m.inv_mul(&n)) }
        "iso_act" => { let m = d3::iso(a); let p = d3::p(a); d3::fp(&(m * p)) }
        "iso_inv_act" => { let m = d3::iso(a); let p = d3::p(a); d3::fp(&m.inverse_transform_point(&p)) }
        "iso_rot" => { let m = d3::iso(a); let v = d3::v(a); d3::fv(&(m * v)) }
        "iso_inv_rot" => { let m = d3::iso(a); let v = d3::v(a); d3::fv(&m.inverse_transform_vector(&v)) }
        // ---- result helpers
        "contact_flipped" => { let c = contact_in(a); fcontact(&Some(c.flipped())) }
        "contact_transform_by" => { let c = contact_in(a); let p1 = d3::iso(a); let p2 = d3::iso(a); let mut c = c; c.transform_by_mut(&p1, &p2); fcontact(&Some(c)) }
        "cp_flipped" => { let c = cp_in(a); fcp(&c.flipped()) }
        "cp_transform_by" => { let c = cp_in(a); let p1 = d3::iso(a); let p2 = d3::iso(a); fcp(&c.transform_by(&p1, &p2)) }
        "hit_swapped" => {
            let toi = a.f(); let w1 = d3::p(a); let w2 = d3::p(a); let n1 = d3::v(a); let n2 = d3::v(a); let st = a.u();
            let status = match st { 0 => ShapeCastStatus::OutOfIterations, 1 => ShapeCastStatus::Converged, 2 => ShapeCastStatus::Failed, _ => ShapeCastStatus::PenetratingOrWithinTargetDist };
            let h = ShapeCastHit { time_of_impact: toi, witness1: w1, witness2: w2, normal1: na::Unit::new_unchecked(n1), normal2: na::Unit::new_unchecked(n2), status };
            fhit(&h.swapped())
        }
        // ---- support maps
        "support_toward" => { let s = sh(a); let m = d3::iso(a); let d = d3::v(a); let g = dynsh(&s);
            d3::fp(&g.as_support_map().unwrap().support_point_toward(&m, &na::Unit::new_unchecked(d))) }
        "support" => { let s = sh(a); let m = d3::iso(a); let d = d3::v(a); let g = dynsh(&s);
            d3::fp(&g.as_support_map().unwrap().support_point(&m, &d)) }
        // ---- closed-form `details::` functions, pos12 form
        "d_contact" => { let s1 = sh(a); let s2 = sh(a); let m = d3::iso(a); let p = a.f(); d_contact(&s1, &s2, &m, p) }
        "d_distance" => { let s1 = sh(a); let s2 = sh(a); let m = d3::iso(a); d_distance(&s1, &s2, &m) }
        "d_it" => { let s1 = sh(a); let s2 = sh(a); let m = d3::iso(a); d_it(&s1, &s2, &m) }
        "d_cp" => { let s1 = sh(a); let s2 = sh(a); let m = d3::iso(a); let p = a.f(); d_cp(&s1, &s2, &m, p) }
        // ---- mirrored wrappers over a tabulated canonical sibling (cuboid as the convex polyhedron):
        //      args: ball radius, cuboid, pos12, param, then the canonical result at `pinv` recorded by the generator (ignored here)
        "w_contact_ball_cp" => { let r = a.f(); let s = sh(a); let m = d3::iso(a); let p = a.f();
            fcontact(&details::contact_ball_convex_polyhedron(&m, &Ball::new(r), &*dynsh(&s), p)) }
        "w_distance_ball_cp" => { let r = a.f(); let s = sh(a); let m = d3::iso(a);
            ff(details::distance_ball_convex_polyhedron(&m, &Ball::new(r), &*dynsh(&s))) }
        "w_it_ball_pq" => { let r = a.f(); let s = sh(a); let m = d3::iso(a);
            b(details::intersection_test_ball_point_query(&m, &Ball::new(r), &*dynsh(&s))).into() }
        "w_cp_ball_cp" => { let r = a.f(); let s = sh(a); let m = d3::iso(a); let p = a.f();
            fcp(&details::closest_points_ball_convex_polyhedron(&m, &Ball::new(r), &*dynsh(&s), p)) }
        "w_cp_cp_ball" => { let r = a.f(); let s = sh(a); let m = d3::iso(a); let p = a.f();
            fcp(&details::closest_points_convex_polyhedron_ball(&m, &*dynsh(&s), &Ball::new(r), p)) }
        // ---- free functions through the real dispatcher, closed-form routes (bit-exact) : s1 pos1 s2 pos2 [param]
        "q_contact" | "x_contact" => { let s1 = sh(a); let p1 = d3::iso(a); let s2 = sh(a); let p2 = d3::iso(a); let p = a.f();
            res(query::contact(&p1, &*dynsh(&s1), &p2, &*dynsh(&s2), p), fcontact) }
        "q_distance" | "x_distance" => { let s1 = sh(a); let p1 = d3::iso(a); let s2 = sh(a); let p2 = d3::iso(a);
            res(query::distance(&p1, &*dynsh(&s1), &p2, &*dynsh(&s2)), |x| ff(*x)) }
        "q_it" | "x_it" => { let s1 = sh(a); let p1 = d3::iso(a); let s2 = sh(a); let p2 = d3::iso(a);
            res(query::intersection_test(&p1, &*dynsh(&s1), &p2, &*dynsh(&s2)), |x| b(*x).to_string()) }
        "q_cp" | "x_cp" => { let s1 = sh(a); let p1 = d3::iso(a); let s2 = sh(a); let p2 = d3::iso(a); let p = a.f();
            nopanic(|| res(query::closest_points(&p1, &*dynsh(&s1), &p2, &*dynsh(&s2), p), fcp)) }
        // ---- oracle-only: any supported pair (composites included); evaluations A=(1,2) B=(2,1) C=(g·1, g·2) and
        //      D = dispatcher form (pos12, then back-transform) ; witnesses are followed by `@ m1 m2`, the distance of each
        //      witness to its own shape as reported by the (independent) point query
        "o_contact" | "o_distance" | "o_it" | "o_cp" => {
            let s1 = sh(a); let p1 = d3::iso(a); let s2 = sh(a); let p2 = d3::iso(a); let g = d3::iso(a);
            let p = if func == "o_contact" || func == "o_cp" { a.f() } else { 0.0 };
            let (g1, g2) = (dynsh(&s1), dynsh(&s2));
            let (q1, q2) = (g * p1, g * p2);
            let memb = |sa: &dyn Shape, pa: &Isometry<Real>, x: &Point<Real>| ff(sa.distance_to_point(pa, x, true));
            let run = |pa: &Isometry<Real>, sa: &dyn Shape, pb: &Isometry<Real>, sb: &dyn Shape| -> String {
                match func {
                    "o_contact" => match query::contact(pa, sa, pb, sb, p) {
                        Err(_) => "unsupported".into(),
                        Ok(None) => "none".into(),
                        Ok(Some(c)) => format!("{} @ {} {}", fcontact(&Some(c)), memb(sa, pa, &c.point1), memb(sb, pb, &c.point2)),
                    },
                    "o_distance" => res(query::distance(pa, sa, pb, sb), |x| ff(*x)),
                    "o_it" => res(query::intersection_test(pa, sa, pb, sb), |x| b(*x).to_string()),
                    _ => match query::closest_points(pa, sa, pb, sb, p) {
                        Err(_) => "unsupported".into(),
                        Ok(ClosestPoints::WithinMargin(x, y)) => format!("within {} {} @ {} {}", d3::fp(&x), d3::fp(&y), memb(sa, pa, &x), memb(sb, pb, &y)),
                        Ok(c) => fcp(&c),
                    },
                }
            };
            let pos12 = p1.inv_mul(&p2);
            let dform = match func {
                "o_contact" => { let mut r = DefaultQueryDispatcher.contact(&pos12, &*g1, &*g2, p);
                    if let Ok(Some(c)) = &mut r { c.transform_by_mut(&p1, &p2); } res(r, fcontact) }
                "o_distance" => res(DefaultQueryDispatcher.distance(&pos12, &*g1, &*g2), |x| ff(*x)),
                "o_it" => res(DefaultQueryDispatcher.intersection_test(&pos12, &*g1, &*g2), |x| b(*x).to_string()),
                _ => res(DefaultQueryDispatcher.closest_points(&pos12, &*g1, &*g2, p).map(|r| r.transform_by(&p1, &p2)), fcp),
            };
            // auxiliary scalars: near-touching indicators and whether pos12 inverts exactly (then both orders see the same data)
            let dist = query::distance(&p1, &*g1, &p2, &*g2).unwrap_or(f64::NAN);
            let depth = match query::contact(&p1, &*g1, &p2, &*g2, 0.0) { Ok(Some(c)) => c.dist, _ => f64::NAN };
            let pos21 = p2.inv_mul(&p1);
            let rt = d3::hiso(&pos21.inverse()) == d3::hiso(&pos12) && d3::hiso(&pos12.inverse()) == d3::hiso(&pos21);
            format!("{} ; {} ; {} ; {} ; {} {} {}", run(&p1, &*g1, &p2, &*g2), run(&p2, &*g2, &p1, &*g1), run(&q1, &*g1, &q2, &*g2), dform, ff(dist), ff(depth), b(rt))
        }
        // ---- oracle-only shape casts: s1 pos1 vel1 s2 pos2 vel2 g target_distance stop_at_penetration max_toi
        "o_cast" => {
            let s1 = sh(a); let p1 = d3::iso(a); let v1 = d3::v(a); let s2 = sh(a); let p2 = d3::iso(a); let v2 = d3::v(a); let g = d3::iso(a);
            let target = a.f(); let stop = a.b(); let maxtoi = a.f();
            let opts = ShapeCastOptions { max_time_of_impact: maxtoi, target_distance: target, stop_at_penetration: stop, compute_impact_geometry_on_penetration: true };
            let (g1, g2) = (dynsh(&s1), dynsh(&s2));
            let surf = |sa: &dyn Shape, x: &Point<Real>| ff(sa.distance_to_local_point(x, false).abs());
            let fh = |r: Result<Option<ShapeCastHit>, query::Unsupported>, sa: &dyn Shape, sb: &dyn Shape| -> String {
                match r { Err(_) => "unsupported".into(), Ok(None) => "none".into(),
                    Ok(Some(h)) => format!("hit {} @ {} {}", fhit(&h), surf(sa, &h.witness1), surf(sb, &h.witness2)) }
            };
            let aa = fh(query::cast_shapes(&p1, &v1, &*g1, &p2, &v2, &*g2, opts), &*g1, &*g2);
            let bb = fh(query::cast_shapes(&p2, &v2, &*g2, &p1, &v1, &*g1, opts), &*g2, &*g1);
            let cc = fh(query::cast_shapes(&(g * p1), &(g.rotation * v1), &*g1, &(g * p2), &(g.rotation * v2), &*g2, opts), &*g1, &*g2);
            let pos12 = p1.inv_mul(&p2); let vel12 = p1.inverse_transform_vector(&(v2 - v1));
            let dd = fh(DefaultQueryDispatcher.cast_shapes(&pos12, &vel12, &*g1, &*g2, opts), &*g1, &*g2);
            // distance at the start of the motion: tells the oracle whether the cast starts in contact (a tie)
            let dist0 = query::distance(&p1, &*g1, &p2, &*g2).unwrap_or(f64::NAN);
            format!("{} ; {} ; {} ; {} ; {}", aa, bb, cc, dd, ff(dist0))
        }
        // ---- closed-form cuboid/cuboid separating-axis test (bit-exact): he1 he2 pos12 [axis]
        "sat_sep_line" => { let h1 = d3::v(a); let h2 = d3::v(a); let m = d3::iso(a); let ax = d3::v(a);
            let (s, d) = sat::cuboid_cuboid_compute_separation_wrt_local_line(&Cuboid::new(h1), &Cuboid::new(h2), &m, &ax);
            format!("{} {}", ff(s), d3::fv(&d)) }
        "sat_edge_twoway" => { let h1 = d3::v(a); let h2 = d3::v(a); let m = d3::iso(a);
            let (s, d) = sat::cuboid_cuboid_find_local_separating_edge_twoway(&Cuboid::new(h1), &Cuboid::new(h2), &m);
            format!("{} {}", ff(s), d3::fv(&d)) }
        "sat_normal_oneway" => { let h1 = d3::v(a); let h2 = d3::v(a); let m = d3::iso(a);
            let (s, d) = sat::cuboid_cuboid_find_local_separating_normal_oneway(&Cuboid::new(h1), &Cuboid::new(h2), &m);
            format!("{} {}", ff(s), d3::fv(&d)) }
        "d_it_cc" => { let h1 = d3::v(a); let h2 = d3::v(a); let m = d3::iso(a);
            b(details::intersection_test_cuboid_cuboid(&m, &Cuboid::new(h1), &Cuboid::new(h2))).into() }
        // the free function through the real dispatcher: he1 pos1 he2 pos2
        "q_it_cc" => { let h1 = d3::v(a); let p1 = d3::iso(a); let h2 = d3::v(a); let p2 = d3::iso(a);
            res(query::intersection_test(&p1, &Cuboid::new(h1), &p2, &Cuboid::new(h2)), |x| b(*x).to_string()) }
        // ---- follow-up 3: swapped composite-shape wrappers against the tabulated canonical sibling (ignored trailing args):
        //      s1 compound pos12 [param] pinv canon
        "w_cp_sc" => { let s1 = sh(a); let c = compound_of(&sh(a)); let m = d3::iso(a); let p = a.f();
            nopanic(|| fcp(&details::closest_points_shape_composite_shape(&DefaultQueryDispatcher, &m, &*dynsh(&s1), &c, p))) }
        "w_contact_sc" => { let s1 = sh(a); let c = compound_of(&sh(a)); let m = d3::iso(a); let p = a.f();
            fcontact(&details::contact_shape_composite_shape(&DefaultQueryDispatcher, &m, &*dynsh(&s1), &c, p)) }
        "w_distance_sc" => { let s1 = sh(a); let c = compound_of(&sh(a)); let m = d3::iso(a);
            ff(details::distance_shape_composite_shape(&DefaultQueryDispatcher, &m, &*dynsh(&s1), &c)) }
        "w_it_sc" => { let s1 = sh(a); let c = compound_of(&sh(a)); let m = d3::iso(a);
            b(details::intersection_test_shape_composite_shape(&DefaultQueryDispatcher, &m, &*dynsh(&s1), &c)).into() }
        // s1 compound pos12 vel12 target stop maxtoi pinv vinv canon
        "w_cast_sc" => { let s1 = sh(a); let c = compound_of(&sh(a)); let m = d3::iso(a); let v = d3::v(a);
            let opts = cast_opts(a.f(), a.b(), a.f());
            fhit_opt(&details::cast_shapes_shape_composite_shape(&DefaultQueryDispatcher, &m, &v, &*dynsh(&s1), &c, opts)) }
        // s1(ball|cuboid) halfspace pos12 vel12 target stop maxtoi pinv vinv canon
        "w_cast_sh" => { let s1 = sh(a); let s2 = sh(a); let m = d3::iso(a); let v = d3::v(a);
            let opts = cast_opts(a.f(), a.b(), a.f());
            let n = match &s2 { Sh::HalfSpace(n) => *n, _ => panic!("halfspace expected") };
            let g1 = dynsh(&s1);
            fhit_opt(&details::cast_shapes_support_map_halfspace(&m, &v, g1.as_support_map().expect("support map"), &hs(&n), opts)) }
        // s1 motion1 compound motion2 start end stop canon
        "w_castnl_sc" => { let s1 = sh(a); let m1 = motion_in(a); let c = compound_of(&sh(a)); let m2 = motion_in(a);
            let t0 = a.f(); let t1 = a.f(); let stop = a.b();
            fhit_opt(&details::cast_shapes_nonlinear_shape_composite_shape(&DefaultQueryDispatcher, &m1, &*dynsh(&s1), &m2, &c, t0, t1, stop)) }
        // triangle|segment cuboid pos12 [margin] pinv canon
        "w_it_tc" => { let s1 = sh(a); let he = d3::v(a); let m = d3::iso(a);
            match s1 { Sh::Triangle(p, q, r) => b(details::intersection_test_triangle_cuboid(&m, &Triangle::new(p, q, r), &Cuboid::new(he))).into(), _ => "bad".into() } }
        "w_it_sgc" => { let s1 = sh(a); let he = d3::v(a); let m = d3::iso(a);
            match s1 { Sh::Segment(p, q) => b(details::intersection_test_segment_cuboid(&m, &Segment::new(p, q), &Cuboid::new(he))).into(), _ => "bad".into() } }
        "w_cp_tc" => { let s1 = sh(a); let he = d3::v(a); let m = d3::iso(a); let mg = a.f();
            match s1 { Sh::Triangle(p, q, r) => nopanic(|| fcp(&details::closest_points_triangle_cuboid(&m, &Triangle::new(p, q, r), &Cuboid::new(he), mg))), _ => "bad".into() } }
        // ---- NonlinearRigidMotion frame helpers
        "nrm_append_translation" => { let m = motion_in(a); let t = d3::v(a); fmotion(&m.append_translation(t)) }
        "nrm_prepend_translation" => { let m = motion_in(a); let t = d3::v(a); fmotion(&m.prepend_translation(t)) }
        "nrm_append" => { let m = motion_in(a); let g = d3::iso(a); fmotion(&m.append(g)) }
        "nrm_prepend" => { let m = motion_in(a); let g = d3::iso(a); fmotion(&m.prepend(g)) }
        "nrm_position_at" => { let m = motion_in(a); let t = a.f(); d3::fiso(&m.position_at_time(t)) }
        f if f.contains("2_") => two::exec(f, a),
        _ => "nofn".into(),
    }
}

// ------------------------------------------------------------------ follow-up 3 helpers
use crate::p3::query::NonlinearRigidMotion;
pub fn compound_of(s: &Sh) -> Compound {
    match s { Sh::Compound(ps) => Compound::new(ps.iter().map(|(m, s)| (*m, SharedShape(std::sync::Arc::from(dynsh(s))))).collect()),
              _ => panic!("compound expected") }
}
fn cast_opts(target: f64, stop: bool, maxtoi: f64) -> ShapeCastOptions {
    ShapeCastOptions { max_time_of_impact: maxtoi, target_distance: target, stop_at_penetration: stop, compute_impact_geometry_on_penetration: true }
}
fn fhit_opt(h: &Option<ShapeCastHit>) -> String { match h { None => "none".into(), Some(h) => format!("hit {}", fhit(h)) } }
fn hhit_opt(h: &Option<ShapeCastHit>) -> String {
    match h { None => "none".into(), Some(h) => format!("hit {} {} {} {} {} {}", hx(h.time_of_impact), d3::hp(&h.witness1), d3::hp(&h.witness2),
        d3::hv(&h.normal1), d3::hv(&h.normal2), h.status as u8) }
}
fn motion_in(a: &mut Args) -> NonlinearRigidMotion { let s = d3::iso(a); let c = d3::p(a); let l = d3::v(a); let w = d3::v(a); NonlinearRigidMotion::new(s, c, l, w) }
fn hmotion(m: &NonlinearRigidMotion) -> String { format!("{} {} {} {}", d3::hiso(&m.start), d3::hp(&m.local_center), d3::hv(&m.linvel), d3::hv(&m.angvel)) }
fn fmotion(m: &NonlinearRigidMotion) -> String { format!("{} {} {} {}", d3::fiso(&m.start), d3::fp(&m.local_center), d3::fv(&m.linvel), d3::fv(&m.angvel)) }
fn hcp(c: &ClosestPoints) -> String {
    match c { ClosestPoints::Intersecting => "intersecting".into(), ClosestPoints::Disjoint => "disjoint".into(),
              ClosestPoints::WithinMargin(x, y) => format!("within {} {}", d3::hp(x), d3::hp(y)) }
}
/// a Compound of `n` closed-form parts (balls only when `balls_only`), spread around the origin, each with its own rotation
pub fn gen_closed_compound(r: &mut Rng, lat: bool, n: usize, balls_only: bool) -> Sh {
    Sh::Compound((0..n).map(|_| {
        let s = if balls_only || r.bool() { Sh::Ball(if lat { *r.pick(&[0.25, 0.5, 1.0]) } else { r.uniform(0.1, 1.5) }) }
                else { Sh::Cuboid(if lat { Vector::new(*r.pick(&[0.25, 0.5, 1.0]), *r.pick(&[0.5, 1.0]), *r.pick(&[0.25, 0.75])) } else { Vector::new(r.uniform(0.1, 1.5), r.uniform(0.1, 1.5), r.uniform(0.1, 1.5)) }) };
        let t = if lat { Vector::new(quarter(r, 12), quarter(r, 12), quarter(r, 12)) } else { Vector::new(r.uniform(-3.0, 3.0), r.uniform(-3.0, 3.0), r.uniform(-3.0, 3.0)) };
        let q = if lat { exact_quat(r) } else { d3::gen_quat(r, false) };
        (iso_of(q, t), s)
    }).collect())
}
/// follow-up 3, family (d): EVERY ordered pair of shape kinds (ball, cuboid, half-space, capsule = round segment, triangle,
/// segment, Compound, TriMesh; half-space/half-space excluded: unsupported), relative rotation and translation both non-trivial,
/// a non-trivial common world isometry; all five queries.  `mat` counts (kind1, kind2, query).
pub fn gen_matrix(r: &mut Rng, lat: bool, v: &mut Vec<(String, String)>, mat: &mut std::collections::BTreeMap<(String, String), [usize; 5]>) {
    let kind = |s: &Sh| -> String { hsh(s).split_whitespace().next().unwrap().to_string() };
    let mk = |r: &mut Rng, k: u8| -> Sh { match k { 6 => gen_compound(r, lat), 7 => gen_trimesh(r, lat), k => gen_shape(r, lat, &[k]) } };
    for k1 in 0..8u8 { for k2 in 0..8u8 {
        if k1 == 2 && k2 == 2 { continue; }
        let s1 = mk(r, k1); let s2 = mk(r, k2);
        let (p1, p2, g) = loop {
            let (p1, p2, _) = gen_poses(r, lat, &s1, &s2);
            let glat = lat && r.bool(); let g = d3::gen_iso(r, glat, 100.0);
            let rel = p1.inv_mul(&p2);
            if !is_identity_rot(&rel) && !is_identity_rot(&g) && rel.translation.vector.norm() > 1e-6 { break (p1, p2, g); }
        };
        let par = gen_param(r, lat);
        let sw = format!("{} {} {} {} {}", hsh(&s1), d3::hiso(&p1), hsh(&s2), d3::hiso(&p2), d3::hiso(&g));
        v.push(("o_contact".into(), format!("{} {}", sw, hx(par))));
        v.push(("o_cp".into(), format!("{} {}", sw, hx(par))));
        v.push(("o_distance".into(), sw.clone()));
        v.push(("o_it".into(), sw));
        // a cast towards each other from a separated start
        let reach = size(&s1) + size(&s2);
        let dir = gen_normal(r, lat);
        let mut q2 = p2; q2.translation.vector = p1.translation.vector + dir * (reach * if lat { 1.5 } else { r.uniform(1.2, 2.5) } + 0.25);
        let speed = if lat { *r.pick(&[0.25, 1.0, 4.0]) } else { r.logu(1e-1, 1e1) };
        let v1 = if lat { Vector::new(quarter(r, 8), quarter(r, 8), quarter(r, 8)) } else { d3::gen_v(r, false, 2.0) };
        let v2 = v1 - dir * speed;
        let target = if r.bool() { 0.0 } else if lat { 0.25 } else { r.logu(1e-2, 0.5) };
        v.push(("o_cast".into(), format!("{} {} {} {} {} {} {} {} {} {}", hsh(&s1), d3::hiso(&p1), d3::hv(&v1), hsh(&s2), d3::hiso(&q2), d3::hv(&v2),
            d3::hiso(&g), hx(target), b(r.bool()), hx(f64::MAX))));
        let e = mat.entry((kind(&s1), kind(&s2))).or_insert([0; 5]);
        for x in e.iter_mut() { *x += 1; }
    } }
}
/// follow-up 3 generator: swapped wrappers (composite arms, shape casts, non-linear casts) and NonlinearRigidMotion helpers
pub fn gen_wrap(r: &mut Rng, it: usize, v: &mut Vec<(String, String)>, cov: &mut std::collections::BTreeMap<(String, String, String), usize>) {
    let lat = it % 2 == 0;
    let kind = |s: &Sh| -> String { hsh(s).split_whitespace().next().unwrap().to_string() };
    // ---- the four scalar / witness queries
    for _ in 0..2 {
        let s1 = match r.below(3) { 0 => Sh::Ball(if lat { *r.pick(&[0.25, 0.5, 1.0, 2.0]) } else { r.uniform(0.1, 2.0) }),
                                    1 => Sh::HalfSpace(gen_normal(r, lat)), _ => Sh::Cuboid(d3::gen_he(r, lat).map(|x| x.min(3.0))) };
        let n = 3 + r.below(5) as usize;     // 3..7 parts
        let comp = gen_closed_compound(r, lat, n, matches!(s1, Sh::Cuboid(_)));
        // pose of the compound in the frame of shape 1: non-trivial rotation, distance from overlapping to well separated
        let q = if lat { exact_quat(r) } else { d3::gen_quat(r, false) };
        let dir = gen_normal(r, lat);
        let dist = if lat { quarter(r, 40).abs() } else { r.uniform(0.0, 9.0) };
        let pos12 = iso_of(q, dir * dist);
        let pinv = pos12.inverse();
        let par = gen_param(r, lat);
        let (g1, c) = (dynsh(&s1), compound_of(&comp));
        let base = format!("{} {} {}", hsh(&s1), hsh(&comp), d3::hiso(&pos12));
        let d = &DefaultQueryDispatcher;
        let ccp = std::panic::catch_unwind(std::panic::AssertUnwindSafe(|| details::closest_points_composite_shape_shape(d, &pinv, &c, &*g1, par)));
        if let Ok(ccp) = ccp { v.push(("w_cp_sc".into(), format!("{} {} {} {}", base, hx(par), d3::hiso(&pinv), hcp(&ccp)))); }
        let cc = details::contact_composite_shape_shape(d, &pinv, &c, &*g1, par);
        v.push(("w_contact_sc".into(), format!("{} {} {} {}", base, hx(par), d3::hiso(&pinv), hcontact_opt(&cc))));
        let cd = details::distance_composite_shape_shape(d, &pinv, &c, &*g1);
        v.push(("w_distance_sc".into(), format!("{} {} {}", base, d3::hiso(&pinv), hx(cd))));
        let ci = details::intersection_test_composite_shape_shape(d, &pinv, &c, &*g1);
        v.push(("w_it_sc".into(), format!("{} {} {}", base, d3::hiso(&pinv), b(ci))));
        for f in ["closest_points", "contact", "distance", "intersection_test"] { *cov.entry((kind(&s1), "compound".into(), f.into())).or_insert(0) += 1; }
        // ---- shape cast through the swapped composite wrapper: relative velocity mostly towards shape 1
        let mut vel = -dir * if lat { *r.pick(&[0.5, 1.0, 2.0]) } else { r.logu(0.05, 20.0) } + d3::gen_v(r, lat, 0.3);
        if r.below(8) == 0 { vel = Vector::zeros(); }
        let target = if r.below(3) == 0 { if lat { 0.25 } else { r.uniform(0.01, 0.5) } } else { 0.0 };
        let stop = r.bool(); let maxtoi = if r.below(4) == 0 { f64::MAX } else if lat { *r.pick(&[2.0, 8.0, 32.0]) } else { r.logu(0.1, 100.0) };
        let opts = cast_opts(target, stop, maxtoi);
        let vinv = -pos12.inverse_transform_vector(&vel);
        let ch = details::cast_shapes_composite_shape_shape(d, &pinv, &vinv, &c, &*g1, opts);
        v.push(("w_cast_sc".into(), format!("{} {} {} {} {} {} {} {}", base, d3::hv(&vel), hx(target), b(stop), hx(maxtoi), d3::hiso(&pinv), d3::hv(&vinv), hhit_opt(&ch))));
        *cov.entry((kind(&s1), "compound".into(), "cast_shapes".into())).or_insert(0) += 1;
    }
    // ---- cast_shapes_support_map_halfspace
    {
        let s1 = if r.bool() { Sh::Ball(if lat { *r.pick(&[0.25, 0.5, 1.0, 2.0]) } else { r.uniform(0.1, 2.0) }) } else { Sh::Cuboid(d3::gen_he(r, lat).map(|x| x.min(3.0))) };
        let n = gen_normal(r, lat); let s2 = Sh::HalfSpace(n);
        let q = if lat { exact_quat(r) } else { d3::gen_quat(r, false) };
        let dir = gen_normal(r, lat);
        let pos12 = iso_of(q, dir * if lat { quarter(r, 40).abs() } else { r.uniform(0.0, 9.0) });
        let pinv = pos12.inverse();
        let mut vel = d3::gen_v(r, lat, 2.0); if r.below(8) == 0 { vel = Vector::zeros(); }
        let target = if r.below(3) == 0 { if lat { 0.25 } else { r.uniform(0.01, 0.5) } } else { 0.0 };
        let stop = r.bool(); let maxtoi = if r.below(4) == 0 { f64::MAX } else if lat { *r.pick(&[2.0, 8.0, 32.0]) } else { r.logu(0.1, 100.0) };
        let vinv = -pos12.inverse_transform_vector(&vel);
        let g1 = dynsh(&s1);
        let ch = details::cast_shapes_halfspace_support_map(&pinv, &vinv, &hs(&n), g1.as_support_map().unwrap(), cast_opts(target, stop, maxtoi));
        v.push(("w_cast_sh".into(), format!("{} {} {} {} {} {} {} {} {} {}", hsh(&s1), hsh(&s2), d3::hiso(&pos12), d3::hv(&vel), hx(target), b(stop), hx(maxtoi),
            d3::hiso(&pinv), d3::hv(&vinv), hhit_opt(&ch))));
        *cov.entry((kind(&s1), "halfspace".into(), "cast_shapes".into())).or_insert(0) += 1;
    }
    // ---- non-linear cast through the swapped composite wrapper (every other case without angular velocity: exact oracle)
    if it % 3 == 0 {
        let s1 = if r.bool() { Sh::Ball(if lat { *r.pick(&[0.5, 1.0]) } else { r.uniform(0.2, 1.5) }) } else { Sh::Cuboid(Vector::new(0.5, 1.0, 0.75)) };
        let np = 3 + r.below(3) as usize;
        let comp = gen_closed_compound(r, lat, np, true);
        let rotating = it % 6 == 0;
        let mk = |r: &mut Rng, t: Vector<Real>, lin: Vector<Real>| {
            let q = if lat { exact_quat(r) } else { d3::gen_quat(r, false) };
            NonlinearRigidMotion::new(iso_of(q, t), d3::gen_p(r, lat, 1.0), lin, if rotating { d3::gen_v(r, lat, 1.0) } else { Vector::zeros() })
        };
        let dir = gen_normal(r, lat); let dist = if lat { 6.0 } else { r.uniform(3.0, 9.0) };
        let m1 = mk(r, Vector::zeros(), dir * 0.5);
        let sp2 = if lat { 1.0 } else { r.uniform(0.2, 2.0) };
        let m2 = mk(r, dir * dist, -dir * sp2);
        let (t0, t1) = (0.0, if lat { 8.0 } else { r.uniform(1.0, 12.0) }); let stop = r.bool();
        let (g1, c) = (dynsh(&s1), compound_of(&comp));
        let ch = details::cast_shapes_nonlinear_composite_shape_shape(&DefaultQueryDispatcher, &m2, &c, &m1, &*g1, t0, t1, stop);
        v.push(("w_castnl_sc".into(), format!("{} {} {} {} {} {} {} {}", hsh(&s1), hmotion(&m1), hsh(&comp), hmotion(&m2), hx(t0), hx(t1), b(stop), hhit_opt(&ch))));
        *cov.entry((kind(&s1), "compound".into(), "cast_shapes_nonlinear".into())).or_insert(0) += 1;
    }
    // ---- the remaining pairwise mirrored wrappers (triangle / segment first, cuboid second)
    {
        let he = d3::gen_he(r, lat).map(|x| x.min(4.0));
        let tri = gen_shape(r, lat, &[4]); let seg = gen_shape(r, lat, &[5]);
        for (s1, f) in [(&tri, "w_it_tc"), (&seg, "w_it_sgc"), (&tri, "w_cp_tc")] {
            // a point of the triangle / segment coincides with a point of the cuboid (overlap), then in 2/3 of the cases
            // the cuboid is pushed away along a random direction by 0 .. 2 box diagonals (touching, near miss, far)
            let (_, _, mut pos12) = gen_poses(r, lat, s1, &Sh::Cuboid(he));
            let (u, w) = if lat { (*r.pick(&[0.0, 0.25, 0.5, 1.0]), *r.pick(&[0.0, 0.5, 1.0])) } else { (r.unit(), r.unit()) };
            let on1 = match s1 { Sh::Triangle(p, q, t) => p + (q - p) * (u * (1.0 - w * 0.5)) + (t - p) * ((1.0 - u) * (1.0 - w * 0.5)), Sh::Segment(p, q) => p + (q - p) * u, _ => Point::origin() };
            let in2 = if lat { Vector::new(he.x * *r.pick(&[-1.0, 0.0, 0.5]), he.y * *r.pick(&[-0.5, 0.0, 1.0]), he.z * *r.pick(&[-1.0, 0.0, 1.0])) }
                      else { Vector::new(he.x * r.uniform(-1.0, 1.0), he.y * r.uniform(-1.0, 1.0), he.z * r.uniform(-1.0, 1.0)) };
            let push = match r.below(3) { 0 => 0.0, _ => if lat { *r.pick(&[0.25, 0.5, 1.0, 2.0]) } else { r.uniform(0.0, 2.0) } } * he.norm();
            let dirp = gen_normal(r, lat);
            pos12.translation.vector = on1.coords - pos12.rotation * in2 + dirp * push;
            let pinv = pos12.inverse();
            let cub = Cuboid::new(he);
            let base = format!("{} {} {}", hsh(s1), d3::hv(&he), d3::hiso(&pos12));
            match (s1, f) {
                (Sh::Triangle(p, q, t), "w_it_tc") => { let c = details::intersection_test_cuboid_triangle(&pinv, &cub, &Triangle::new(*p, *q, *t));
                    v.push((f.into(), format!("{} {} {}", base, d3::hiso(&pinv), b(c)))); }
                (Sh::Segment(p, q), _) => { let c = details::intersection_test_cuboid_segment(&pinv, &cub, &Segment::new(*p, *q));
                    v.push((f.into(), format!("{} {} {}", base, d3::hiso(&pinv), b(c)))); }
                (Sh::Triangle(p, q, t), _) => { let mg = gen_param(r, lat);
                    let c = std::panic::catch_unwind(std::panic::AssertUnwindSafe(|| details::closest_points_cuboid_triangle(&pinv, &cub, &Triangle::new(*p, *q, *t), mg)));
                    if let Ok(c) = c { v.push((f.into(), format!("{} {} {} {}", base, hx(mg), d3::hiso(&pinv), hcp(&c)))); } }
                _ => {}
            }
            *cov.entry((kind(s1), "cuboid".into(), (if f == "w_cp_tc" { "closest_points" } else { "intersection_test" }).into())).or_insert(0) += 1;
        }
    }
    // ---- NonlinearRigidMotion helpers
    {
        let m = NonlinearRigidMotion::new(d3::gen_iso(r, lat, 50.0), d3::gen_p(r, lat, 5.0), d3::gen_v(r, lat, 5.0), d3::gen_v(r, lat, 3.0));
        let tra = d3::gen_v(r, lat, 20.0); let g = d3::gen_iso(r, lat, 50.0);
        v.push(("nrm_append_translation".into(), format!("{} {}", hmotion(&m), d3::hv(&tra))));
        v.push(("nrm_prepend_translation".into(), format!("{} {}", hmotion(&m), d3::hv(&tra))));
        v.push(("nrm_append".into(), format!("{} {}", hmotion(&m), d3::hiso(&g))));
        v.push(("nrm_prepend".into(), format!("{} {}", hmotion(&m), d3::hiso(&g))));
        let t = if lat { *r.pick(&[0.0, 0.25, 1.0, 2.0]) } else { r.uniform(0.0, 5.0) };
        let mm = if r.below(4) == 0 { NonlinearRigidMotion::new(m.start, m.local_center, m.linvel, Vector::zeros()) } else { m };
        let e = Isometry::new(mm.linvel * t, mm.angvel * t);
        v.push(("nrm_position_at".into(), format!("{} {} {}", hmotion(&mm), hx(t), d3::hiso(&e))));
    }
}

// ------------------------------------------------------------------ generators
pub fn gen_normal(r: &mut Rng, lat: bool) -> Vector<Real> {
    if lat {
        match r.below(4) {
            0 => { let mut v = Vector::zeros(); v[r.below(3) as usize] = if r.bool() { 1.0 } else { -1.0 }; v }
            1 => { let mut v = Vector::zeros(); let i = r.below(3) as usize; let j = (i + 1 + r.below(2) as usize) % 3;
                   v[i] = if r.bool() { 0.6 } else { -0.6 }; v[j] = if r.bool() { 0.8 } else { -0.8 }; v }
            2 => { let s = std::f64::consts::FRAC_1_SQRT_2; let mut v = Vector::zeros(); let i = r.below(3) as usize; let j = (i + 1) % 3;
                   v[i] = s; v[j] = if r.bool() { s } else { -s }; v }
            _ => Vector::new(1.0, 2.0, 2.0).component_mul(&Vector::new(if r.bool() { 1.0 } else { -1.0 }, if r.bool() { 1.0 } else { -1.0 }, 1.0)).normalize(),
        }
    } else {
        loop {
            let v = Vector::new(r.uniform(-1.0, 1.0), r.uniform(-1.0, 1.0), r.uniform(-1.0, 1.0));
            let n = v.norm();
            if n > 0.1 && n <= 1.0 { return v / n; }
        }
    }
}
/// a shape of one of the kinds in `kinds` (0 ball, 1 cuboid, 2 halfspace, 3 capsule, 4 triangle, 5 segment)
pub fn gen_shape(r: &mut Rng, lat: bool, kinds: &[u8]) -> Sh {
    let small = if lat { 2.0 } else { 10.0 };
    match *r.pick(kinds) {
        0 => Sh::Ball(r.pos_extent(lat)),
        1 => Sh::Cuboid(d3::gen_he(r, lat)),
        2 => Sh::HalfSpace(gen_normal(r, lat)),
        3 => Sh::Capsule(d3::gen_p(r, lat, small), d3::gen_p(r, lat, small), r.pos_extent(lat).min(10.0)),
        4 => loop {
            let (p, q, s) = (d3::gen_p(r, lat, small), d3::gen_p(r, lat, small), d3::gen_p(r, lat, small));
            if (q - p).cross(&(s - p)).norm() > 1e-3 { break Sh::Triangle(p, q, s); }
        },
        _ => loop {
            let (p, q) = (d3::gen_p(r, lat, small), d3::gen_p(r, lat, small));
            if (q - p).norm() > 1e-3 { break Sh::Segment(p, q); }
        },
    }
}
pub fn size(s: &Sh) -> f64 {
    match s {
        Sh::Ball(r) => *r,
        Sh::Cuboid(he) => he.norm(),
        Sh::HalfSpace(_) => 0.0,
        Sh::Capsule(p, q, r) => p.coords.norm().max(q.coords.norm()) + r,
        Sh::Triangle(p, q, s) => p.coords.norm().max(q.coords.norm()).max(s.coords.norm()),
        Sh::Segment(p, q) => p.coords.norm().max(q.coords.norm()),
        Sh::Compound(ps) => ps.iter().map(|(m, s)| m.translation.vector.norm() + size(s)).fold(0.0, f64::max),
        Sh::TriMesh(_, vs, _) => vs.iter().map(|p| p.coords.norm()).fold(0.0, f64::max),
    }
}

// ---- structured families (follow-up): composites, exact ties, shape casts
/// unit quaternions whose rotation arithmetic is exact in binary64: identity, half-turns about the axes, (±1±i±j±k)/2
pub fn exact_quat(r: &mut Rng) -> [f64; 4] {
    match r.below(3) {
        0 => [0.0, 0.0, 0.0, 1.0],
        1 => { let mut q = [0.0; 4]; q[r.below(3) as usize] = 1.0; q }
        _ => { let mut q = [0.5; 4]; for x in q.iter_mut() { if r.bool() { *x = -*x; } } q }
    }
}
pub fn iso_of(q: [f64; 4], t: Vector<Real>) -> Isometry<Real> {
    Isometry::from_parts(na::Translation3::from(t), na::Unit::new_unchecked(na::Quaternion::new(q[3], q[0], q[1], q[2])))
}
pub fn quarter(r: &mut Rng, k: i64) -> f64 { r.range(-k, k) as f64 * 0.25 }
/// a moderate-size convex part (ball / cuboid / capsule)
pub fn gen_part(r: &mut Rng, lat: bool) -> Sh {
    let e = |r: &mut Rng| if lat { *r.pick(&[0.25, 0.5, 1.0, 1.5, 2.0]) } else { r.uniform(0.2, 2.0) };
    match r.below(3) {
        0 => Sh::Ball(e(r)),
        1 => Sh::Cuboid(Vector::new(e(r), e(r), e(r))),
        _ => { let c = |r: &mut Rng| if lat { quarter(r, 6) } else { r.uniform(-1.5, 1.5) };
               let a = Point::new(c(r), c(r), c(r)); let mut bb = Point::new(c(r), c(r), c(r)); if (bb - a).norm() < 0.25 { bb.x += 1.0; }
               Sh::Capsule(a, bb, e(r).min(1.0)) }
    }
}
/// Compound of 2-4 overlapping parts with rotated part poses
pub fn gen_compound(r: &mut Rng, lat: bool) -> Sh {
    let n = 2 + r.below(3) as usize;
    Sh::Compound((0..n).map(|_| {
        let q = d3::gen_quat(r, lat);
        let c = |r: &mut Rng| if lat { quarter(r, 6) } else { r.uniform(-1.5, 1.5) };
        let t = Vector::new(c(r), c(r), c(r));
        (iso_of(q, t), gen_part(r, lat))
    }).collect())
}
/// closed triangle mesh (box or tetrahedron, outward orientation), with or without TriMeshFlags::ORIENTED
pub fn gen_trimesh(r: &mut Rng, lat: bool) -> Sh {
    let e = |r: &mut Rng| if lat { *r.pick(&[0.5, 1.0, 1.5, 2.0]) } else { r.uniform(0.3, 2.5) };
    let flags: u16 = if r.below(3) != 0 { TriMeshFlags::ORIENTED.bits() } else { 0 };
    if r.bool() {
        let (vs, ts) = Cuboid::new(Vector::new(e(r), e(r), e(r))).to_trimesh();
        Sh::TriMesh(flags, vs, ts)
    } else {
        let k = e(r);
        let vs = vec![Point::new(k, k, k), Point::new(k, -k, -k), Point::new(-k, k, -k), Point::new(-k, -k, k)];
        let mut ts: Vec<[u32; 3]> = vec![[0, 1, 2], [0, 1, 3], [0, 2, 3], [1, 2, 3]];
        for t in ts.iter_mut() {
            let l = (0..4u32).find(|x| !t.contains(x)).unwrap() as usize;
            let (a, bb, c) = (vs[t[0] as usize], vs[t[1] as usize], vs[t[2] as usize]);
            if (bb - a).cross(&(c - a)).dot(&(vs[l] - a)) > 0.0 { t.swap(1, 2); }
        }
        Sh::TriMesh(flags, vs, ts)
    }
}
/// a point well inside the composite, in its local frame
pub fn interior_point(r: &mut Rng, lat: bool, s: &Sh) -> Point<Real> {
    let f = |r: &mut Rng| if lat { *r.pick(&[-0.5, -0.25, 0.0, 0.25, 0.5]) } else { r.uniform(-0.7, 0.7) };
    match s {
        Sh::Compound(ps) => { let (m, part) = r.pick(ps).clone();
            match part { Sh::Cuboid(he) => m * Point::new(he.x * f(r), he.y * f(r), he.z * f(r)),
                         Sh::Capsule(a, bb, _) => m * na::center(&a, &bb), _ => m * Point::origin() } }
        Sh::TriMesh(_, vs, _) => { let c = vs.iter().fold(Vector::zeros(), |acc, p| acc + p.coords) / vs.len() as f64;
            let v = r.pick(vs); Point::from(c + (v.coords - c) * f(r).abs() * 0.6) }
        _ => Point::origin(),
    }
}
/// world-axis extent of a posed support-mapped shape: max of `axis . x`
fn extent_along(s: &Sh, rot: &Isometry<Real>, axis: &Vector<Real>) -> Option<f64> {
    let g = dynsh(s);
    g.as_support_map().map(|sm| sm.support_point(rot, axis).coords.dot(axis))
}

/// two poses whose shapes are near each other (penetrating / touching / separated), never both with identity rotation
pub fn gen_poses(r: &mut Rng, lat: bool, s1: &Sh, s2: &Sh) -> (Isometry<Real>, Isometry<Real>, Isometry<Real>) {
    let ts = if r.below(4) == 0 { 1000.0 } else { 20.0 };
    let p1 = d3::gen_iso(r, lat, ts);
    let mut p2 = d3::gen_iso(r, lat, 1.0);
    let reach = size(s1) + size(s2);
    let dir = gen_normal(r, lat);
    let k = if lat { *r.pick(&[0.0, 0.25, 0.5, 1.0, 1.5, 2.0]) } else { r.uniform(0.0, 2.5) };
    let off = if lat { let o = dir * (reach * k); Vector::new((o.x * 4.0).round() / 4.0, (o.y * 4.0).round() / 4.0, (o.z * 4.0).round() / 4.0) } else { dir * (reach * k) };
    let mut rel = p2;
    rel.translation.vector = off;
    p2.translation.vector = p1.translation.vector + off;
    (p1, p2, rel)
}
pub fn gen_param(r: &mut Rng, lat: bool) -> f64 {
    if lat { *r.pick(&[0.0, 0.25, 0.5, 1.0, 4.0]) } else if r.below(5) == 0 { 0.0 } else { r.logu(1e-3, 1e2) }
}

// ------------------------------------------------------------------ degenerate-but-valid corners (C20 follow-up)
/// number of corner families of `gen_corner`
pub const N_CORNERS: usize = 18;
pub fn is_identity_rot(m: &Isometry<Real>) -> bool { m.rotation.i == 0.0 && m.rotation.j == 0.0 && m.rotation.k == 0.0 }
/// A shape and a point of its own frame lying exactly ON one of its features (or, for the cuboid, also inside it):
///  0-2 segment parallel to axis k: interior point      3 axis-parallel segment: end point
///  4 oblique segment: interior point                   5 oblique segment: end point
///  6 triangle: face interior   7 triangle: edge interior   8 triangle: vertex
///  9 cuboid: centre   10 cuboid: inside, on a medial plane / equidistant from two or three faces   11 cuboid: face
///  12 cuboid: edge    13 cuboid: vertex
///  14 capsule: axis interior   15 capsule: axis end point
///  16 ball: its centre (coincident ball centres; radii equal to the other ball's / zero are chosen by the caller)
///  17 triangle in a coordinate plane (exact projections): face interior / edge / vertex
/// `lat`: dyadic data (the point is on the feature exactly, all arithmetic exact); otherwise random data (on the feature up to rounding).
pub fn gen_corner(r: &mut Rng, lat: bool, k: usize) -> (Sh, Point<Real>) {
    let c = |r: &mut Rng| if lat { quarter(r, 8) } else { r.uniform(-3.0, 3.0) };
    let u = |r: &mut Rng| if lat { *r.pick(&[0.25, 0.5, 0.75]) } else { r.uniform(0.05, 0.95) };
    let e = |r: &mut Rng| if lat { *r.pick(&[0.25, 0.5, 1.0, 1.5, 2.0]) } else { r.logu(0.05, 5.0) };
    match k {
        0 | 1 | 2 | 3 => {
            let ax = if k == 3 { r.below(3) as usize } else { k };
            let a = Point::new(c(r), c(r), c(r));
            let mut bb = a; let len = if lat { *r.pick(&[0.5, 1.0, 3.0, -2.0, -0.25]) } else { r.uniform(0.1, 4.0) * if r.bool() { 1.0 } else { -1.0 } };
            bb[ax] += len;
            let p = if k == 3 { if r.bool() { a } else { bb } } else { let mut p = a; p[ax] += len * u(r); p };
            (Sh::Segment(a, bb), p)
        }
        4 | 5 => loop {
            let a = Point::new(c(r), c(r), c(r));
            let d = if lat { Vector::new(quarter(r, 8), quarter(r, 8), quarter(r, 8)) } else { Vector::new(r.uniform(-3.0, 3.0), r.uniform(-3.0, 3.0), r.uniform(-3.0, 3.0)) };
            if d.iter().filter(|x| **x != 0.0).count() < 2 || d.norm() < 0.2 { continue; }
            let bb = a + d;
            let p = if k == 5 { if r.bool() { a } else { bb } } else { a + d * u(r) };
            break (Sh::Segment(a, bb), p);
        },
        6 | 7 | 8 | 17 => loop {
            let (a, bb, cc) = if k == 17 {
                // a triangle in a plane orthogonal to a coordinate axis
                let ax = r.below(3) as usize; let h = c(r);
                let mut f = |r: &mut Rng| { let mut p = Point::new(c(r), c(r), c(r)); p[ax] = h; p };
                (f(r), f(r), f(r))
            } else { (Point::new(c(r), c(r), c(r)), Point::new(c(r), c(r), c(r)), Point::new(c(r), c(r), c(r))) };
            if (bb - a).cross(&(cc - a)).norm() < 0.1 { continue; }
            let sub = if k == 17 { 6 + r.below(3) as usize } else { k };
            let p = match sub {
                6 => { let (s, t) = if lat { *r.pick(&[(0.25, 0.25), (0.5, 0.25), (0.25, 0.5), (0.125, 0.125)]) } else { let s = r.uniform(0.05, 0.9); (s, r.uniform(0.02, 0.98 - s)) };
                       a + (bb - a) * s + (cc - a) * t }
                7 => { let t = u(r); match r.below(3) { 0 => a + (bb - a) * t, 1 => bb + (cc - bb) * t, _ => cc + (a - cc) * t } }
                _ => *r.pick(&[a, bb, cc]),
            };
            break (Sh::Triangle(a, bb, cc), p);
        },
        9 | 10 | 11 | 12 | 13 => {
            let he = Vector::new(e(r), e(r), e(r));
            let sg = |r: &mut Rng| if r.bool() { 1.0 } else { -1.0 };
            // a coordinate strictly inside (-h, h)
            let ins = |r: &mut Rng, h: f64| if lat { h * *r.pick(&[-0.5, -0.25, 0.0, 0.25, 0.5]) } else { h * r.uniform(-0.9, 0.9) };
            let p = match k {
                9 => Point::origin(),
                10 => match r.below(3) {
                    // on a medial plane, equidistant from two opposite faces of the thinnest direction when the other coordinates are central
                    0 => { let mut p = Point::new(ins(r, he.x), ins(r, he.y), ins(r, he.z)); p[r.below(3) as usize] = 0.0; p }
                    // same depth below two or three faces
                    1 => { let m = he.min() * if lat { 0.5 } else { r.uniform(0.1, 0.9) }; Point::new(sg(r) * (he.x - m), sg(r) * (he.y - m), sg(r) * (he.z - m)) }
                    _ => Point::new(ins(r, he.x), ins(r, he.y), ins(r, he.z)),
                },
                11 => { let ax = r.below(3) as usize; let mut p = Point::new(ins(r, he.x), ins(r, he.y), ins(r, he.z)); p[ax] = sg(r) * he[ax]; p }
                12 => { let ax = r.below(3) as usize; let mut p = Point::new(sg(r) * he.x, sg(r) * he.y, sg(r) * he.z); p[ax] = ins(r, he[ax]); p }
                _ => Point::new(sg(r) * he.x, sg(r) * he.y, sg(r) * he.z),
            };
            (Sh::Cuboid(he), p)
        }
        14 | 15 => loop {
            let a = Point::new(c(r), c(r), c(r));
            let d = if r.below(3) == 0 { let mut d = Vector::zeros(); d[r.below(3) as usize] = if lat { *r.pick(&[1.0, -2.0, 0.5]) } else { r.uniform(0.2, 3.0) }; d }
                    else if lat { Vector::new(quarter(r, 8), quarter(r, 8), quarter(r, 8)) } else { Vector::new(r.uniform(-3.0, 3.0), r.uniform(-3.0, 3.0), r.uniform(-3.0, 3.0)) };
            if d.norm() < 0.2 { continue; }
            let bb = a + d;
            let p = if k == 15 { if r.bool() { a } else { bb } } else { a + d * u(r) };
            break (Sh::Capsule(a, bb, e(r).min(2.0)), p);
        },
        _ => (Sh::Ball(e(r)), Point::origin()),
    }
}
/// One corner configuration: the shape of family `k`, a ball whose centre is the chosen point of the shape, poses with
/// rotations (never both identity; exact ones in the lattice stream so that "exactly on" stays exact through
/// `pos1.inv_mul(pos2)`), and a prediction / margin.  Random stream: a quarter of the cases are pushed off the feature
/// by 1e-14 .. 1e-2 in a random direction (near-degenerate instead of degenerate).
pub fn gen_corner_case(r: &mut Rng, lat: bool, k: usize) -> ((Sh, Isometry<Real>), (Sh, Isometry<Real>), f64) {
    let (shape, lp) = gen_corner(r, lat, k);
    let mut rad = if lat { *r.pick(&[0.25, 0.5, 1.0, 2.0]) } else { r.logu(0.05, 5.0) };
    if k == 16 {
        // coincident ball centres: equal radii, zero radius on one / both sides, or unrelated radii
        if let Sh::Ball(r1) = &shape { match r.below(4) { 0 => rad = *r1, 1 => rad = 0.0, _ => {} } }
    }
    let shape = if k == 16 && r.below(4) == 0 { Sh::Ball(0.0) } else { shape };
    let (ps, pb) = loop {
        let (ps, qb) = if lat {
            (iso_of(exact_quat(r), Vector::new(quarter(r, 40), quarter(r, 40), quarter(r, 40))), exact_quat(r))
        } else { (d3::gen_iso(r, false, 20.0), d3::gen_quat(r, false)) };
        let mut centre = (ps * lp).coords;
        if !lat && r.below(4) == 0 { centre += gen_normal(r, false) * r.logu(1e-14, 1e-2); }
        let pb = iso_of(qb, centre);
        if !(is_identity_rot(&ps) && is_identity_rot(&pb)) { break (ps, pb); }
    };
    let par = if lat { *r.pick(&[0.0, 0.25, 1.0]) } else { gen_param(r, false).min(10.0) };
    ((shape, ps), (Sh::Ball(rad), pb), par)
}
/// the shape as the first part of a two-part Compound (exact part pose in the lattice stream; the second part is a small
/// ball far from the corner): the same corner reached through the composite traversal.  Returns the composite and its pose.
pub fn wrap_in_compound(r: &mut Rng, lat: bool, s: &Sh, pos: &Isometry<Real>) -> (Sh, Isometry<Real>) {
    let part = if lat { iso_of(exact_quat(r), Vector::new(quarter(r, 8), quarter(r, 8), quarter(r, 8))) } else { d3::gen_iso(r, false, 3.0) };
    // pos = outer * part  =>  outer = pos * part^-1
    let outer = pos * part.inverse();
    let far = iso_of([0.0, 0.0, 0.0, 1.0], part.translation.vector + Vector::new(64.0, 0.0, 0.0));
    (Sh::Compound(vec![(part, s.clone()), (far, Sh::Ball(0.25))]), outer)
}
/// C03 lines of one corner configuration: the four free functions in both argument orders (exact referee) and the
/// both-orders / common-isometry / dispatcher-form comparison
pub fn push_corner_lines(r: &mut Rng, lat: bool, k: usize, v: &mut Vec<(String, String)>) {
    let ((s1, p1), (s2, p2), par) = gen_corner_case(r, lat, k);
    for (a, pa, bb, pb) in [(&s1, &p1, &s2, &p2), (&s2, &p2, &s1, &p1)] {
        let sw = format!("{} {} {} {}", hsh(a), d3::hiso(pa), hsh(bb), d3::hiso(pb));
        v.push(("x_contact".into(), format!("{} {}", sw, hx(par))));
        v.push(("x_cp".into(), format!("{} {}", sw, hx(par))));
        v.push(("x_distance".into(), sw.clone()));
        v.push(("x_it".into(), sw));
    }
    let g = if lat { iso_of(exact_quat(r), Vector::new(quarter(r, 40), quarter(r, 40), quarter(r, 40))) } else { d3::gen_iso(r, false, 100.0) };
    let (a, pa, bb, pb) = if r.bool() { (&s1, &p1, &s2, &p2) } else { (&s2, &p2, &s1, &p1) };
    let sw = format!("{} {} {} {} {}", hsh(a), d3::hiso(pa), hsh(bb), d3::hiso(pb), d3::hiso(&g));
    v.push(("o_contact".into(), format!("{} {}", sw, hx(par))));
    v.push(("o_cp".into(), format!("{} {}", sw, hx(par))));
    v.push(("o_distance".into(), sw.clone()));
    v.push(("o_it".into(), sw));
    // the same corner through a Compound part (composite traversal, both orders inside o_*)
    if !matches!(s1, Sh::Ball(_)) {
        let (c1, q1) = wrap_in_compound(r, lat, &s1, &p1);
        let (a, pa, bb, pb) = if r.bool() { (&c1, &q1, &s2, &p2) } else { (&s2, &p2, &c1, &q1) };
        let sw = format!("{} {} {} {} {}", hsh(a), d3::hiso(pa), hsh(bb), d3::hiso(pb), d3::hiso(&g));
        v.push(("o_contact".into(), format!("{} {}", sw, hx(par))));
        v.push(("o_cp".into(), format!("{} {}", sw, hx(par))));
        v.push(("o_distance".into(), sw.clone()));
        v.push(("o_it".into(), sw));
    }
}

pub fn gen(r: &mut Rng, thorough: bool) -> Vec<(String, String)> {
    let n = if thorough { 3000 } else { 300 };
    let mut v: Vec<(String, String)> = Vec::new();
    let closed: [u8; 3] = [0, 1, 2];
    for it in 0..n {
        let lat = it % 2 == 0;
        // ---- group glue
        let m = d3::gen_iso(r, lat, 100.0); let m2 = d3::gen_iso(r, lat, 100.0);
        let p = d3::gen_p(r, lat, 50.0);
        v.push(("iso_inverse".into(), d3::hiso(&m)));
        v.push(("iso_mul".into(), format!("{} {}", d3::hiso(&m), d3::hiso(&m2))));
        v.push(("iso_inv_mul".into(), format!("{} {}", d3::hiso(&m), d3::hiso(&m2))));
        for f in ["iso_act", "iso_inv_act", "iso_rot", "iso_inv_rot"] { v.push((f.into(), format!("{} {}", d3::hiso(&m), d3::hp(&p)))); }
        // ---- closed-form pairs
        for _ in 0..4 {
            let (s1, s2) = loop {
                let s1 = gen_shape(r, lat, &closed); let s2 = gen_shape(r, lat, &closed);
                let ok = match (&s1, &s2) { (Sh::Ball(_), Sh::Ball(_)) => true, (Sh::HalfSpace(_), Sh::HalfSpace(_)) => false, (Sh::HalfSpace(_), _) | (_, Sh::HalfSpace(_)) => true, _ => false };
                if ok { break (s1, s2); }
            };
            let (p1, p2, pos12) = gen_poses(r, lat, &s1, &s2);
            let mut par = gen_param(r, lat);
            if r.below(5) == 0 {
                // tie: prediction / margin exactly equal to the reported distance (`<=` vs `<`)
                let c = d_contact(&s1, &s2, &pos12, 1.0e6);
                if c.starts_with("some") {
                    let d = f64::from_bits(u64::from_str_radix(c.split_whitespace().last().unwrap(), 16).unwrap_or(0));
                    if d.is_finite() && d > 0.0 { par = d; }
                }
            }
            let ss = format!("{} {} {}", hsh(&s1), hsh(&s2), d3::hiso(&pos12));
            v.push(("d_contact".into(), format!("{} {}", ss, hx(par))));
            v.push(("d_distance".into(), ss.clone()));
            v.push(("d_it".into(), ss.clone()));
            v.push(("d_cp".into(), format!("{} {}", ss, hx(if r.below(40) == 0 { -par - 1.0 } else { par }))));
            // free functions: only the pairs whose dispatcher route is one of the modelled closed forms
            let sw = format!("{} {} {} {}", hsh(&s1), d3::hiso(&p1), hsh(&s2), d3::hiso(&p2));
            v.push(("q_contact".into(), format!("{} {}", sw, hx(par))));
            let ball_hs = matches!((&s1, &s2), (Sh::Ball(_), Sh::HalfSpace(_)) | (Sh::HalfSpace(_), Sh::Ball(_)));
            if !ball_hs {
                v.push(("q_distance".into(), sw.clone()));
                v.push(("q_it".into(), sw.clone()));
                v.push(("q_cp".into(), format!("{} {}", sw, hx(par))));
            }
        }
        // ---- result helpers
        {
            let c = Contact::new(d3::gen_p(r, lat, 50.0), d3::gen_p(r, lat, 50.0), na::Unit::new_unchecked(gen_normal(r, lat)), na::Unit::new_unchecked(gen_normal(r, lat)), r.coord(lat, 10.0));
            v.push(("contact_flipped".into(), hcontact(&c)));
            v.push(("contact_transform_by".into(), format!("{} {} {}", hcontact(&c), d3::hiso(&m), d3::hiso(&m2))));
            let cp = match r.below(4) { 0 => "intersecting".to_string(), 1 => "disjoint".to_string(), _ => format!("within {} {}", d3::hp(&c.point1), d3::hp(&c.point2)) };
            v.push(("cp_flipped".into(), cp.clone()));
            v.push(("cp_transform_by".into(), format!("{} {} {}", cp, d3::hiso(&m), d3::hiso(&m2))));
            v.push(("hit_swapped".into(), format!("{} {} {}", hx(r.uniform(0.0, 10.0)), hcontact(&c).rsplitn(2, ' ').nth(1).unwrap(), r.below(4))));
        }
        // ---- support maps (ball, cuboid), unit and non-unit directions, zero components
        for _ in 0..2 {
            let s = gen_shape(r, lat, &[0, 1]);
            let mut d = gen_normal(r, lat);
            if r.below(3) == 0 { d *= r.logu(1e-3, 1e3); }
            let a = format!("{} {} {}", hsh(&s), d3::hiso(&m), d3::hv(&d));
            v.push(("support_toward".into(), a.clone()));
            v.push(("support".into(), a));
        }
        // ---- mirrored wrappers over the tabulated canonical sibling (ball vs cuboid)
        for _ in 0..2 {
            let rad = r.pos_extent(lat).min(20.0);
            let cub = Sh::Cuboid(d3::gen_he(r, lat));
            let (_, _, mut pos12) = gen_poses(r, lat, &Sh::Ball(rad), &cub);
            if r.below(6) == 0 { // ball centre inside / on the boundary of the cuboid
                if let Sh::Cuboid(he) = &cub { pos12.translation.vector = -(pos12.rotation * Vector::new(he.x * *r.pick(&[0.0, 0.5, 1.0]), he.y * *r.pick(&[0.0, 0.25, 1.0]), he.z * *r.pick(&[0.0, 0.5, 1.0]))); }
            }
            let par = gen_param(r, lat);
            let pinv = pos12.inverse();
            let (ball, cs) = (Ball::new(rad), dynsh(&cub));
            let base = format!("{} {} {}", hx(rad), hsh(&cub), d3::hiso(&pos12));
            let canon = details::contact_convex_polyhedron_ball(&pinv, &*cs, &ball, par);
            v.push(("w_contact_ball_cp".into(), format!("{} {} {} {}", base, hx(par), d3::hiso(&pinv), hcontact_opt(&canon))));
            v.push(("w_cp_ball_cp".into(), format!("{} {} {} {}", base, hx(par), d3::hiso(&pinv), hcontact_opt(&canon))));
            let canon2 = details::contact_convex_polyhedron_ball(&pos12, &*cs, &ball, par);
            v.push(("w_cp_cp_ball".into(), format!("{} {} {}", base, hx(par), hcontact_opt(&canon2))));
            let cd = details::distance_convex_polyhedron_ball(&pinv, &*cs, &ball);
            v.push(("w_distance_ball_cp".into(), format!("{} {} {}", base, d3::hiso(&pinv), hx(cd))));
            let ci = details::intersection_test_point_query_ball(&pinv, &*cs, &ball);
            v.push(("w_it_ball_pq".into(), format!("{} {} {}", base, d3::hiso(&pinv), b(ci))));
        }
        two::gen(r, lat, &mut v);
        // ---- oracle-only: the real dispatcher on any supported pair, both orders and under a common isometry
        for _ in 0..3 {
            let all: [u8; 6] = [0, 1, 2, 3, 4, 5];
            let (s1, s2) = loop {
                let s1 = gen_shape(r, lat, &all); let s2 = gen_shape(r, lat, &all);
                if !matches!((&s1, &s2), (Sh::HalfSpace(_), Sh::HalfSpace(_))) { break (s1, s2); }
            };
            let (p1, p2, _) = gen_poses(r, lat, &s1, &s2);
            let glat = lat && r.bool(); let g = d3::gen_iso(r, glat, 100.0);
            let par = gen_param(r, lat);
            let sw = format!("{} {} {} {} {}", hsh(&s1), d3::hiso(&p1), hsh(&s2), d3::hiso(&p2), d3::hiso(&g));
            v.push(("o_contact".into(), format!("{} {}", sw, hx(par))));
            v.push(("o_cp".into(), format!("{} {}", sw, hx(par))));
            v.push(("o_distance".into(), sw.clone()));
            v.push(("o_it".into(), sw));
        }
        // ---- composites: Compound of overlapping rotated parts / closed (oriented) TriMesh against anything,
        //      the other shape's centre inside the composite in a third of the cases
        for _ in 0..2 {
            let comp = if r.below(3) == 0 { gen_trimesh(r, lat) } else { gen_compound(r, lat) };
            let other = match r.below(8) { 0 => gen_compound(r, lat), 1 => gen_trimesh(r, lat), 2 => Sh::Ball(if lat { *r.pick(&[0.25, 0.5, 1.0]) } else { r.uniform(0.1, 1.5) }),
                                          3 => Sh::HalfSpace(gen_normal(r, lat)), _ => gen_part(r, lat) };
            let (p1, mut p2, _) = gen_poses(r, lat, &comp, &other);
            if r.below(3) == 0 { p2.translation.vector = (p1 * interior_point(r, lat, &comp)).coords; }
            let (s1, p1, s2, p2) = if r.bool() { (comp, p1, other, p2) } else { (other, p2, comp, p1) };
            let glat = lat && r.bool(); let g = d3::gen_iso(r, glat, 100.0);
            let par = gen_param(r, lat);
            let sw = format!("{} {} {} {} {}", hsh(&s1), d3::hiso(&p1), hsh(&s2), d3::hiso(&p2), d3::hiso(&g));
            v.push(("o_contact".into(), format!("{} {}", sw, hx(par))));
            v.push(("o_cp".into(), format!("{} {}", sw, hx(par))));
            v.push(("o_distance".into(), sw.clone()));
            v.push(("o_it".into(), sw));
        }
        // ---- exact ties: exactly representable data (dyadic sizes, exact rotations), gap along a world axis exactly
        //      0 (touching) or exactly the margin / prediction
        if lat {
            for _ in 0..3 {
                let dy = |r: &mut Rng| *r.pick(&[0.25, 0.5, 1.0, 1.5, 2.0]);
                let mk = |r: &mut Rng| -> Sh { match r.below(6) {
                    0 => Sh::Ball(dy(r)), 1 => Sh::Cuboid(Vector::new(dy(r), dy(r), dy(r))),
                    2 => Sh::Capsule(Point::new(quarter(r, 4), quarter(r, 4), quarter(r, 4)), Point::new(quarter(r, 4), quarter(r, 4) + 1.0, quarter(r, 4)), dy(r).min(1.0)),
                    3 => Sh::Triangle(Point::new(quarter(r, 6), quarter(r, 6), quarter(r, 6)), Point::new(quarter(r, 6) + 2.0, quarter(r, 6), quarter(r, 6)), Point::new(quarter(r, 6), quarter(r, 6) + 2.0, quarter(r, 6))),
                    4 => Sh::Segment(Point::new(quarter(r, 6), quarter(r, 6), quarter(r, 6)), Point::new(quarter(r, 6), quarter(r, 6), quarter(r, 6) + 1.5)),
                    _ => Sh::HalfSpace(Vector::zeros()) } };
                let (mut s1, s2) = loop { let a1 = mk(r); let a2 = mk(r); if !matches!(a2, Sh::HalfSpace(_)) { break (a1, a2); } };
                let ax = r.below(3) as usize; let mut axis = Vector::zeros(); axis[ax] = if r.bool() { 1.0 } else { -1.0 };
                let r1 = iso_of(exact_quat(r), Vector::zeros()); let r2 = iso_of(exact_quat(r), Vector::zeros());
                if let Sh::HalfSpace(_) = s1 { s1 = Sh::HalfSpace(r1.inverse_transform_vector(&axis)); }
                let e1 = match &s1 { Sh::HalfSpace(_) => Some(0.0), x => extent_along(x, &r1, &axis) };
                let e2 = extent_along(&s2, &r2, &(-axis));
                if let (Some(e1), Some(e2)) = (e1, e2) {
                    let par = *r.pick(&[0.0, 0.25, 0.5, 1.0]);
                    let gap = if r.bool() { 0.0 } else { par };
                    let t1 = Vector::new(quarter(r, 40), quarter(r, 40), quarter(r, 40));
                    // lateral shift keeps the extreme point of a ball / vertex over the other shape in most cases
                    let mut lateral = Vector::new(quarter(r, 1), quarter(r, 1), quarter(r, 1)); lateral[ax] = 0.0;
                    let p1 = iso_of([r1.rotation.i, r1.rotation.j, r1.rotation.k, r1.rotation.w], t1);
                    let p2 = iso_of([r2.rotation.i, r2.rotation.j, r2.rotation.k, r2.rotation.w], t1 + axis * (e1 + e2 + gap) + lateral);
                    let g = iso_of(exact_quat(r), Vector::new(quarter(r, 40), quarter(r, 40), quarter(r, 40)));
                    let sw = format!("{} {} {} {} {}", hsh(&s1), d3::hiso(&p1), hsh(&s2), d3::hiso(&p2), d3::hiso(&g));
                    v.push(("o_contact".into(), format!("{} {}", sw, hx(par))));
                    v.push(("o_cp".into(), format!("{} {}", sw, hx(par))));
                    v.push(("o_distance".into(), sw.clone()));
                    v.push(("o_it".into(), sw));
                }
            }
        }
        // ---- shape casts: both orders, common isometry, dispatcher form; target_distance 0 / > 0, both
        //      stop_at_penetration, zero and non-unit velocities, finite and unbounded max_toi
        for _ in 0..3 {
            let all: [u8; 6] = [0, 1, 2, 3, 4, 5];
            let (s1, s2) = loop {
                let pick = |r: &mut Rng| if r.below(8) == 0 { gen_compound(r, lat) } else { gen_shape(r, lat, &all) };
                let s1 = pick(r); let s2 = pick(r);
                if !matches!((&s1, &s2), (Sh::HalfSpace(_), Sh::HalfSpace(_))) { break (s1, s2); }
            };
            let ts = if r.below(4) == 0 { 1000.0 } else { 20.0 };
            let p1 = d3::gen_iso(r, lat, ts);
            let mut p2 = d3::gen_iso(r, lat, 1.0);
            let reach = size(&s1) + size(&s2);
            let dir = gen_normal(r, lat);
            let k = if lat { *r.pick(&[0.5, 1.5, 2.0, 3.0]) } else { r.uniform(0.3, 3.5) };
            p2.translation.vector = p1.translation.vector + dir * (reach * k + if lat { 0.25 } else { 0.1 });
            let speed = if lat { *r.pick(&[0.25, 1.0, 4.0]) } else { r.logu(1e-2, 1e2) };
            let noise = if lat { Vector::new(quarter(r, 1), quarter(r, 1), quarter(r, 1)) * 0.5 } else { d3::gen_v(r, false, 0.3) };
            let vrel = match r.below(10) { 0 => Vector::zeros(), 1 => dir * speed, _ => (-dir + noise) * speed };
            let v1 = if r.bool() { Vector::zeros() } else if lat { Vector::new(quarter(r, 8), quarter(r, 8), quarter(r, 8)) } else { d3::gen_v(r, false, 5.0) };
            let v2 = v1 + vrel;
            let target = if r.bool() { 0.0 } else if lat { *r.pick(&[0.25, 0.5]) } else { r.logu(1e-2, 1.0) };
            let maxtoi = match r.below(4) { 0 => reach * k / speed * r.uniform(0.2, 1.5), 1 => 1.0e3, _ => f64::MAX };
            let glat = lat && r.bool(); let g = d3::gen_iso(r, glat, 100.0);
            v.push(("o_cast".into(), format!("{} {} {} {} {} {} {} {} {} {}", hsh(&s1), d3::hiso(&p1), d3::hv(&v1), hsh(&s2), d3::hiso(&p2), d3::hv(&v2),
                d3::hiso(&g), hx(target), b(r.bool()), hx(maxtoi))));
        }
    }
    // ---- follow-up 2 (appended after the loop so that the cases above are unchanged for a given seed):
    //      edge/edge configurations, closed-form cuboid/cuboid separating-axis functions
    for it in 0..n { gen_edge_families(r, it, &mut v); }
    // ---- degenerate-but-valid corners: ball centre exactly on a feature of the other shape (segment / triangle / cuboid /
    //      capsule axis / another ball's centre), both argument orders, rotated poses; lattice (exact) and random halves.
    //      Appended after the main loop so that the stream above is unchanged.
    let reps = if thorough { 60 } else { 6 };
    for rep in 0..reps {
        for k in 0..N_CORNERS { push_corner_lines(r, rep % 2 == 0, k, &mut v); }
    }
    // coincident ball centres on the closed-form (bit-exact) routes: equal / zero / unrelated radii
    for rep in 0..reps * 4 {
        let lat = rep % 2 == 0;
        let ((s1, p1), (s2, p2), par) = gen_corner_case(r, lat, 16);
        let pos12 = p1.inv_mul(&p2);
        let ss = format!("{} {} {}", hsh(&s1), hsh(&s2), d3::hiso(&pos12));
        v.push(("d_contact".into(), format!("{} {}", ss, hx(par))));
        v.push(("d_distance".into(), ss.clone()));
        v.push(("d_it".into(), ss.clone()));
        v.push(("d_cp".into(), format!("{} {}", ss, hx(par))));
        let sw = format!("{} {} {} {}", hsh(&s1), d3::hiso(&p1), hsh(&s2), d3::hiso(&p2));
        v.push(("q_contact".into(), format!("{} {}", sw, hx(par))));
        v.push(("q_distance".into(), sw.clone()));
        v.push(("q_it".into(), sw.clone()));
        v.push(("q_cp".into(), format!("{} {}", sw, hx(par))));
    }
    // ---- follow-up 3 (appended last): swapped composite / cast / non-linear wrappers, NonlinearRigidMotion helpers
    let mut cov: std::collections::BTreeMap<(String, String, String), usize> = Default::default();
    for it in 0..n { gen_wrap(r, it, &mut v, &mut cov); }
    if std::env::var("VERIF_DBG").is_ok() { for ((k1, k2, f), c) in &cov { eprintln!("C03 wrap coverage: {} / {} {} = {}", k1, k2, f, c); } }
    // ---- family (d): the full ordered pair-kind x query matrix
    let mut mat: std::collections::BTreeMap<(String, String), [usize; 5]> = Default::default();
    for rep in 0..(if thorough { 20 } else { 2 }) { gen_matrix(r, rep % 2 == 0, &mut v, &mut mat); }
    if std::env::var("VERIF_DBG").is_ok() {
        for ((k1, k2), c) in &mat { eprintln!("C03 matrix (contact cp distance it cast): {} / {} = {} {} {} {} {}", k1, k2, c[0], c[1], c[2], c[3], c[4]); }
    }
    v
}

// ------------------------------------------------------------------ edge/edge configurations (follow-up 2)
/// vertices and edge directions (local frame) of a polytope-like shape, and its rounding radius
pub fn poly_of(s: &Sh) -> Option<(Vec<Point<Real>>, Vec<Vector<Real>>, f64)> {
    match s {
        Sh::Cuboid(he) => {
            let mut vs = Vec::new();
            for sx in [-1.0, 1.0] { for sy in [-1.0, 1.0] { for sz in [-1.0, 1.0] { vs.push(Point::new(sx * he.x, sy * he.y, sz * he.z)); } } }
            Some((vs, vec![Vector::x(), Vector::y(), Vector::z()], 0.0))
        }
        Sh::Triangle(a, b, c) => Some((vec![*a, *b, *c], vec![b - a, c - b, a - c], 0.0)),
        Sh::Segment(a, b) => Some((vec![*a, *b], vec![b - a], 0.0)),
        Sh::Capsule(a, b, r) => Some((vec![*a, *b], vec![b - a], *r)),
        _ => None,
    }
}
/// the 15 candidate separations of two cuboids (faces of 1, faces of 2, the 9 edge/edge axes with index 6 + 3 j + i for
/// e_i x R e_j), computed from the rotation matrix with the generator's own arithmetic; degenerate edge axes give -inf
pub fn sat15(he1: &Vector<Real>, he2: &Vector<Real>, pos12: &Isometry<Real>) -> [f64; 15] {
    let rm = pos12.rotation.to_rotation_matrix();
    let t = pos12.translation.vector;
    let col = |j: usize| Vector::new(rm[(0, j)], rm[(1, j)], rm[(2, j)]);
    let e = |i: usize| { let mut x = Vector::zeros(); x[i] = 1.0; x };
    let sep = |d: &Vector<Real>| -> f64 {
        let n = d.norm();
        if n < 1e-9 { return f64::NEG_INFINITY; }
        let r1: f64 = (0..3).map(|k| he1[k] * d[k].abs()).sum();
        let r2: f64 = (0..3).map(|k| he2[k] * col(k).dot(d).abs()).sum();
        (t.dot(d).abs() - r1 - r2) / n
    };
    let mut out = [0.0; 15];
    for i in 0..3 { out[i] = sep(&e(i)); out[3 + i] = sep(&col(i)); }
    for j in 0..3 { for i in 0..3 { out[6 + 3 * j + i] = sep(&e(i).cross(&col(j))); } }
    out
}
/// relative pose placing the two shapes in an edge/edge configuration: the closest features are an edge of `s1`
/// (direction index `i`) and an edge of `s2` (direction index `j`), crossing in their interiors, `gap` apart along
/// `n = ± e1_i x R e2_j`.  Returns (pos12, n).
pub fn gen_edge_edge(r: &mut Rng, lat: bool, s1: &Sh, s2: &Sh, i: usize, j: usize, gap: f64) -> Option<(Isometry<Real>, Vector<Real>)> {
    let (v1, e1, r1) = poly_of(s1)?; let (v2, e2, r2) = poly_of(s2)?;
    let scale = size(s1) + size(s2);
    for _ in 0..30 {
        let rot = iso_of(if lat { tilted_quat(r) } else { d3::gen_quat(r, false) }, Vector::zeros());
        let da = e1[i % e1.len()]; let db = rot * e2[j % e2.len()];
        let c = da.cross(&db);
        if c.norm() < 0.2 * da.norm() * db.norm() { continue; }
        let n = c.normalize() * if r.bool() { 1.0 } else { -1.0 };
        let sup = |vs: &Vec<Point<Real>>, m: &Isometry<Real>, d: &Vector<Real>| -> Vec<Point<Real>> {
            let w: Vec<Point<Real>> = vs.iter().map(|p| m * p).collect();
            let best = w.iter().map(|p| p.coords.dot(d)).fold(f64::NEG_INFINITY, f64::max);
            w.into_iter().filter(|p| p.coords.dot(d) > best - 1e-9 * (1.0 + scale)).collect()
        };
        let f1 = sup(&v1, &Isometry::identity(), &n); let f2 = sup(&v2, &rot, &(-n));
        if f1.len() != 2 || f2.len() != 2 { continue; }
        let u = |r: &mut Rng| if lat { *r.pick(&[0.25, 0.5, 0.75]) } else { r.uniform(0.15, 0.85) };
        let a = f1[0] + (f1[1] - f1[0]) * u(r);
        let bb = f2[0] + (f2[1] - f2[0]) * u(r);
        let t = a.coords + n * (gap + r1 + r2) - bb.coords;
        return Some((Isometry::from_parts(na::Translation3::from(t), rot.rotation), n));
    }
    None
}
/// a generic (no edge of one cuboid parallel to a face of the other) rotation with short decimal coordinates: the product
/// of two 3-4-5 half-angle rotations about two different coordinate axes
pub fn tilted_quat(r: &mut Rng) -> [f64; 4] {
    let a = r.below(3) as usize; let b = (a + 1 + r.below(2) as usize) % 3;
    let mk = |r: &mut Rng, k: usize| { let mut v = Vector::zeros(); v[k] = if r.bool() { 0.6 } else { -0.6 };
        na::Quaternion::from_parts(if r.bool() { 0.8 } else { -0.8 }, v) };
    let q = mk(r, a) * mk(r, b);
    [q.i, q.j, q.k, q.w]
}
fn hcc(h1: &Vector<Real>, h2: &Vector<Real>, m: &Isometry<Real>) -> String { format!("{} {} {}", d3::hv(h1), d3::hv(h2), d3::hiso(m)) }

pub fn gen_edge_families(r: &mut Rng, it: usize, v: &mut Vec<(String, String)>) {
    let lat = it % 2 == 0;
    let ext = |r: &mut Rng| if lat { *r.pick(&[0.25, 0.5, 1.0, 1.5, 2.0, 4.0]) } else if r.below(4) == 0 { r.logu(1e-2, 1e2) } else { r.uniform(0.2, 3.0) };
    let push_o = |r: &mut Rng, v: &mut Vec<(String, String)>, s1: &Sh, p1: &Isometry<Real>, s2: &Sh, p2: &Isometry<Real>| {
        let glat = lat && r.bool(); let g = d3::gen_iso(r, glat, 100.0);
        let par = gen_param(r, lat);
        let sw = format!("{} {} {} {} {}", hsh(s1), d3::hiso(p1), hsh(s2), d3::hiso(p2), d3::hiso(&g));
        v.push(("o_contact".into(), format!("{} {}", sw, hx(par))));
        v.push(("o_cp".into(), format!("{} {}", sw, hx(par))));
        v.push(("o_distance".into(), sw.clone()));
        v.push(("o_it".into(), sw));
    };
    // ---- A. cuboid/cuboid, edge i of cuboid 1 against edge j of cuboid 2: every one of the 9 pairs in turn.
    //      In two thirds of the cases the configuration is kept only if NO OTHER of the 15 candidate axes separates
    //      (so that the verdict depends on this one entry of the edge/edge table); gaps from 1e-4 to 0.3 of the
    //      smallest extent, both signs, and exactly 0
    {
        let (i, j) = ((it / 2) % 3, (it / 6) % 3);
        let h1 = Vector::new(ext(r), ext(r), ext(r)); let h2 = Vector::new(ext(r), ext(r), ext(r));
        let smin = h1.min().min(h2.min());
        let only = r.below(3) != 0;
        let mut found = None;
        for _ in 0..20 {
            let mag = if lat { *r.pick(&[0.0, 0.015625, 0.125, 0.25]) } else { r.logu(1e-4, 0.3) };
            let gap = smin * mag * if r.below(4) == 0 { -1.0 } else { 1.0 };
            if let Some((pos12, n)) = gen_edge_edge(r, lat, &Sh::Cuboid(h1), &Sh::Cuboid(h2), i, j, gap) {
                let s15 = sat15(&h1, &h2, &pos12);
                let others_overlap = (0..15).all(|k| k == 6 + 3 * j + i || s15[k] < 0.0);
                if !only || gap <= 0.0 || others_overlap { found = Some((pos12, n)); break; }
            }
        }
        if let Some((pos12, n)) = found {
            let pinv = pos12.inverse();
            let ts = if r.below(4) == 0 { 1000.0 } else { 20.0 }; let p1 = d3::gen_iso(r, lat, ts);
            let p2 = p1 * pos12;
            // the axis of the configuration, a random (possibly non-unit) one, a face normal of cuboid 2
            let rnd = gen_normal(r, lat) * if r.bool() { 1.0 } else { r.logu(1e-2, 1e2) };
            for ax in [n, rnd, pos12 * Vector::ith(r.below(3) as usize, 1.0)] {
                v.push(("sat_sep_line".into(), format!("{} {}", hcc(&h1, &h2, &pos12), d3::hv(&ax))));
            }
            v.push(("sat_sep_line".into(), format!("{} {}", hcc(&h2, &h1, &pinv), d3::hv(&(pinv * -n)))));
            for f in ["sat_edge_twoway", "sat_normal_oneway", "d_it_cc"] {
                v.push((f.into(), hcc(&h1, &h2, &pos12)));
                v.push((f.into(), hcc(&h2, &h1, &pinv)));
            }
            v.push(("q_it_cc".into(), format!("{} {} {} {}", d3::hv(&h1), d3::hiso(&p1), d3::hv(&h2), d3::hiso(&p2))));
            v.push(("q_it_cc".into(), format!("{} {} {} {}", d3::hv(&h2), d3::hiso(&p2), d3::hv(&h1), d3::hiso(&p1))));
            push_o(r, v, &Sh::Cuboid(h1), &p1, &Sh::Cuboid(h2), &p2);
        }
    }
    // ---- B. edge/edge configurations of any two polytope-like shapes (cuboid, triangle, segment, capsule)
    {
        let kinds: [u8; 4] = [1, 3, 4, 5];
        let mk = |r: &mut Rng| if r.below(3) == 0 { Sh::Cuboid(Vector::new(ext(r), ext(r), ext(r))) } else { gen_shape(r, lat, &kinds) };
        let s1 = mk(r); let s2 = mk(r);
        let smin = size(&s1).min(size(&s2)).max(1e-2);
        let mag = if lat { *r.pick(&[0.0, 0.015625, 0.125, 0.25]) } else { r.logu(1e-4, 0.3) };
        let gap = smin * mag * if r.below(4) == 0 { -1.0 } else { 1.0 };
        let (ei, ej) = (r.below(3) as usize, r.below(3) as usize);
        if let Some((pos12, _)) = gen_edge_edge(r, lat, &s1, &s2, ei, ej, gap) {
            let ts = if r.below(4) == 0 { 1000.0 } else { 20.0 }; let p1 = d3::gen_iso(r, lat, ts);
            let p2 = p1 * pos12;
            push_o(r, v, &s1, &p1, &s2, &p2);
        }
    }
    // ---- C. the closed-form functions on unstructured cuboid pairs (far / face-separated / overlapping / vertex contacts)
    {
        let (s1, s2) = (Sh::Cuboid(d3::gen_he(r, lat)), Sh::Cuboid(d3::gen_he(r, lat)));
        let (p1, p2, pos12) = gen_poses(r, lat, &s1, &s2);
        if let (Sh::Cuboid(h1), Sh::Cuboid(h2)) = (&s1, &s2) {
            for f in ["sat_edge_twoway", "sat_normal_oneway", "d_it_cc"] { v.push((f.into(), hcc(h1, h2, &pos12))); }
            v.push(("sat_sep_line".into(), format!("{} {}", hcc(h1, h2, &pos12), d3::hv(&gen_normal(r, lat)))));
            v.push(("q_it_cc".into(), format!("{} {} {} {}", d3::hv(h1), d3::hiso(&p1), d3::hv(h2), d3::hiso(&p2))));
            v.push(("q_it_cc".into(), format!("{} {} {} {}", d3::hv(h2), d3::hiso(&p2), d3::hv(h1), d3::hiso(&p1))));
        }
    }
    two::gen_sat(r, lat, v);
}

// ================================================================== 2-D (parry2d-f64)
pub mod two {
    use crate::util::*;
    use crate::p2::query::{self, details, ClosestPoints, Contact, DefaultQueryDispatcher, PointQuery, QueryDispatcher, ShapeCastHit, ShapeCastOptions};
    use crate::p2::shape::{Ball, Capsule, Compound, Cuboid, HalfSpace, Polyline, Segment, Shape, SharedShape, Triangle};
    use crate::p2::na;
    use d2::{Isometry, Point, Real, Vector};

    #[derive(Clone, Debug)]
    pub enum Sh { Ball(f64), Cuboid(Vector<Real>), HalfSpace(Vector<Real>), Capsule(Point<Real>, Point<Real>, f64), Triangle(Point<Real>, Point<Real>, Point<Real>), Segment(Point<Real>, Point<Real>),
        Compound(Vec<(Isometry<Real>, Sh)>), Polyline(Vec<Point<Real>>) }
    pub fn sh(a: &mut Args) -> Sh {
        match a.tok() {
            "ball" => Sh::Ball(a.f()),
            "cuboid" => Sh::Cuboid(d2::v(a)),
            "halfspace" => Sh::HalfSpace(d2::v(a)),
            "capsule" => { let p = d2::p(a); let q = d2::p(a); Sh::Capsule(p, q, a.f()) }
            "triangle" => { let p = d2::p(a); let q = d2::p(a); let r = d2::p(a); Sh::Triangle(p, q, r) }
            "segment" => { let p = d2::p(a); let q = d2::p(a); Sh::Segment(p, q) }
            "compound" => { let n = a.u(); Sh::Compound((0..n).map(|_| { let m = d2::iso(a); let s = sh(a); (m, s) }).collect()) }
            "polyline" => { let n = a.u(); Sh::Polyline((0..n).map(|_| d2::p(a)).collect()) }
            k => panic!("shape kind {}", k),
        }
    }
    pub fn hsh(s: &Sh) -> String {
        match s {
            Sh::Ball(r) => format!("ball {}", hx(*r)),
            Sh::Cuboid(he) => format!("cuboid {}", d2::hv(he)),
            Sh::HalfSpace(n) => format!("halfspace {}", d2::hv(n)),
            Sh::Capsule(p, q, r) => format!("capsule {} {} {}", d2::hp(p), d2::hp(q), hx(*r)),
            Sh::Triangle(p, q, r) => format!("triangle {} {} {}", d2::hp(p), d2::hp(q), d2::hp(r)),
            Sh::Segment(p, q) => format!("segment {} {}", d2::hp(p), d2::hp(q)),
            Sh::Compound(ps) => format!("compound {} {}", ps.len(), ps.iter().map(|(m, s)| format!("{} {}", d2::hiso(m), hsh(s))).collect::<Vec<_>>().join(" ")),
            Sh::Polyline(vs) => format!("polyline {} {}", vs.len(), vs.iter().map(|p| d2::hp(p)).collect::<Vec<_>>().join(" ")),
        }
    }
    pub fn dynsh(s: &Sh) -> Box<dyn Shape> {
        match s {
            Sh::Ball(r) => Box::new(Ball::new(*r)),
            Sh::Cuboid(he) => Box::new(Cuboid::new(*he)),
            Sh::HalfSpace(n) => Box::new(HalfSpace::new(na::Unit::new_unchecked(*n))),
            Sh::Capsule(p, q, r) => Box::new(Capsule::new(*p, *q, *r)),
            Sh::Triangle(p, q, r) => Box::new(Triangle::new(*p, *q, *r)),
            Sh::Segment(p, q) => Box::new(Segment::new(*p, *q)),
            Sh::Compound(ps) => Box::new(Compound::new(ps.iter().map(|(m, s)| (*m, SharedShape(std::sync::Arc::from(dynsh(s))))).collect())),
            Sh::Polyline(vs) => Box::new(Polyline::new(vs.clone(), None)),
        }
    }
    fn hs(n: &Vector<Real>) -> HalfSpace { HalfSpace::new(na::Unit::new_unchecked(*n)) }
    pub fn fiso(m: &Isometry<Real>) -> String { format!("{} {} {}", ff(m.rotation.re), ff(m.rotation.im), d2::fv(&m.translation.vector)) }
    pub fn fcontact(c: &Option<Contact>) -> String {
        match c {
            None => "none".into(),
            Some(c) => format!("some {} {} {} {} {}", d2::fp(&c.point1), d2::fp(&c.point2), d2::fv(&c.normal1), d2::fv(&c.normal2), ff(c.dist)),
        }
    }
    pub fn fcp(c: &ClosestPoints) -> String {
        match c {
            ClosestPoints::Intersecting => "intersecting".into(),
            ClosestPoints::WithinMargin(p, q) => format!("within {} {}", d2::fp(p), d2::fp(q)),
            ClosestPoints::Disjoint => "disjoint".into(),
        }
    }
    fn res<T, F: Fn(&T) -> String>(r: Result<T, query::Unsupported>, f: F) -> String {
        match r { Ok(x) => f(&x), Err(_) => "unsupported".into() }
    }
    fn d_contact(s1: &Sh, s2: &Sh, pos12: &Isometry<Real>, pred: f64) -> String {
        match (s1, s2) {
            (Sh::Ball(r1), Sh::Ball(r2)) => fcontact(&details::contact_ball_ball(pos12, &Ball::new(*r1), &Ball::new(*r2), pred)),
            (Sh::HalfSpace(n), x) => { let g = dynsh(x); fcontact(&details::contact_halfspace_support_map(pos12, &hs(n), g.as_support_map().unwrap(), pred)) }
            (x, Sh::HalfSpace(n)) => { let g = dynsh(x); fcontact(&details::contact_support_map_halfspace(pos12, g.as_support_map().unwrap(), &hs(n), pred)) }
            _ => "noroute".into(),
        }
    }
    pub fn exec(func: &str, a: &mut Args) -> String {
        match func {
            "iso2_inverse" => { let m = d2::iso(a); fiso(&m.inverse()) }
            "iso2_mul" => { let m = d2::iso(a); let n = d2::iso(a); fiso(&(m * n)) }
            "iso2_inv_mul" => { let m = d2::iso(a); let n = d2::iso(a); fiso(&m.inv_mul(&n)) }
            "iso2_act" => { let m = d2::iso(a); let p = d2::p(a); d2::fp(&(m * p)) }
            "iso2_inv_act" => { let m = d2::iso(a); let p = d2::p(a); d2::fp(&m.inverse_transform_point(&p)) }
            "d2_contact" => { let s1 = sh(a); let s2 = sh(a); let m = d2::iso(a); let p = a.f(); d_contact(&s1, &s2, &m, p) }
            "q2_contact" => { let s1 = sh(a); let p1 = d2::iso(a); let s2 = sh(a); let p2 = d2::iso(a); let p = a.f();
                res(query::contact(&p1, &*dynsh(&s1), &p2, &*dynsh(&s2), p), fcontact) }
            "sat2_normal_oneway" => { let h1 = d2::v(a); let h2 = d2::v(a); let m = d2::iso(a);
                let (s, d) = query::sat::cuboid_cuboid_find_local_separating_normal_oneway(&Cuboid::new(h1), &Cuboid::new(h2), &m);
                format!("{} {}", ff(s), d2::fv(&d)) }
            "d2_it_cc" => { let h1 = d2::v(a); let h2 = d2::v(a); let m = d2::iso(a);
                b(details::intersection_test_cuboid_cuboid(&m, &Cuboid::new(h1), &Cuboid::new(h2))).into() }
            "q2_it_cc" => { let h1 = d2::v(a); let p1 = d2::iso(a); let h2 = d2::v(a); let p2 = d2::iso(a);
                res(query::intersection_test(&p1, &Cuboid::new(h1), &p2, &Cuboid::new(h2)), |x| b(*x).to_string()) }
            "o2_contact" | "o2_distance" | "o2_it" | "o2_cp" => {
                let s1 = sh(a); let p1 = d2::iso(a); let s2 = sh(a); let p2 = d2::iso(a); let g = d2::iso(a);
                let p = if func == "o2_contact" || func == "o2_cp" { a.f() } else { 0.0 };
                let (g1, g2) = (dynsh(&s1), dynsh(&s2));
                let (q1, q2) = (g * p1, g * p2);
                let memb = |sa: &dyn Shape, pa: &Isometry<Real>, x: &Point<Real>| ff(sa.distance_to_point(pa, x, true));
                let run = |pa: &Isometry<Real>, sa: &dyn Shape, pb: &Isometry<Real>, sb: &dyn Shape| -> String {
                    match func {
                        "o2_contact" => match query::contact(pa, sa, pb, sb, p) {
                            Err(_) => "unsupported".into(),
                            Ok(None) => "none".into(),
                            Ok(Some(c)) => format!("{} @ {} {}", fcontact(&Some(c)), memb(sa, pa, &c.point1), memb(sb, pb, &c.point2)),
                        },
                        "o2_distance" => res(query::distance(pa, sa, pb, sb), |x| ff(*x)),
                        "o2_it" => res(query::intersection_test(pa, sa, pb, sb), |x| b(*x).to_string()),
                        _ => match query::closest_points(pa, sa, pb, sb, p) {
                            Err(_) => "unsupported".into(),
                            Ok(ClosestPoints::WithinMargin(x, y)) => format!("within {} {} @ {} {}", d2::fp(&x), d2::fp(&y), memb(sa, pa, &x), memb(sb, pb, &y)),
                            Ok(c) => fcp(&c),
                        },
                    }
                };
                let pos12 = p1.inv_mul(&p2);
                let dform = match func {
                    "o2_contact" => { let mut r = DefaultQueryDispatcher.contact(&pos12, &*g1, &*g2, p);
                        if let Ok(Some(c)) = &mut r { c.transform_by_mut(&p1, &p2); } res(r, fcontact) }
                    "o2_distance" => res(DefaultQueryDispatcher.distance(&pos12, &*g1, &*g2), |x| ff(*x)),
                    "o2_it" => res(DefaultQueryDispatcher.intersection_test(&pos12, &*g1, &*g2), |x| b(*x).to_string()),
                    _ => res(DefaultQueryDispatcher.closest_points(&pos12, &*g1, &*g2, p).map(|r| r.transform_by(&p1, &p2)), fcp),
                };
                let dist = query::distance(&p1, &*g1, &p2, &*g2).unwrap_or(f64::NAN);
                let depth = match query::contact(&p1, &*g1, &p2, &*g2, 0.0) { Ok(Some(c)) => c.dist, _ => f64::NAN };
                let pos21 = p2.inv_mul(&p1);
                let rt = d2::hiso(&pos21.inverse()) == d2::hiso(&pos12) && d2::hiso(&pos12.inverse()) == d2::hiso(&pos21);
                format!("{} ; {} ; {} ; {} ; {} {} {}", run(&p1, &*g1, &p2, &*g2), run(&p2, &*g2, &p1, &*g1), run(&q1, &*g1, &q2, &*g2), dform, ff(dist), ff(depth), b(rt))
            }
            "o2_cast" => {
                let s1 = sh(a); let p1 = d2::iso(a); let v1 = d2::v(a); let s2 = sh(a); let p2 = d2::iso(a); let v2 = d2::v(a); let g = d2::iso(a);
                let target = a.f(); let stop = a.b(); let maxtoi = a.f();
                let opts = ShapeCastOptions { max_time_of_impact: maxtoi, target_distance: target, stop_at_penetration: stop, compute_impact_geometry_on_penetration: true };
                let (g1, g2) = (dynsh(&s1), dynsh(&s2));
                let surf = |sa: &dyn Shape, x: &Point<Real>| ff(sa.distance_to_local_point(x, false).abs());
                let fh = |r: Result<Option<ShapeCastHit>, query::Unsupported>, sa: &dyn Shape, sb: &dyn Shape| -> String {
                    match r { Err(_) => "unsupported".into(), Ok(None) => "none".into(),
                        Ok(Some(h)) => format!("hit {} {} {} {} {} {} @ {} {}", ff(h.time_of_impact), d2::fp(&h.witness1), d2::fp(&h.witness2), d2::fv(&h.normal1), d2::fv(&h.normal2), h.status as u8,
                            surf(sa, &h.witness1), surf(sb, &h.witness2)) }
                };
                let aa = fh(query::cast_shapes(&p1, &v1, &*g1, &p2, &v2, &*g2, opts), &*g1, &*g2);
                let bb = fh(query::cast_shapes(&p2, &v2, &*g2, &p1, &v1, &*g1, opts), &*g2, &*g1);
                let cc = fh(query::cast_shapes(&(g * p1), &(g.rotation * v1), &*g1, &(g * p2), &(g.rotation * v2), &*g2, opts), &*g1, &*g2);
                let pos12 = p1.inv_mul(&p2); let vel12 = p1.inverse_transform_vector(&(v2 - v1));
                let dd = fh(DefaultQueryDispatcher.cast_shapes(&pos12, &vel12, &*g1, &*g2, opts), &*g1, &*g2);
                let dist0 = query::distance(&p1, &*g1, &p2, &*g2).unwrap_or(f64::NAN);
                format!("{} ; {} ; {} ; {} ; {}", aa, bb, cc, dd, ff(dist0))
            }
            _ => "nofn".into(),
        }
    }
    fn gen_normal(r: &mut Rng, lat: bool) -> Vector<Real> {
        if lat { let (c, s) = d2::gen_rot(r, true); Vector::new(c, s) } else { let a = r.uniform(-3.2, 3.2); Vector::new(a.cos(), a.sin()) }
    }
    fn gen_shape(r: &mut Rng, lat: bool, kinds: &[u8]) -> Sh {
        let small = if lat { 2.0 } else { 10.0 };
        match *r.pick(kinds) {
            0 => Sh::Ball(r.pos_extent(lat)),
            1 => Sh::Cuboid(d2::gen_he(r, lat)),
            2 => Sh::HalfSpace(gen_normal(r, lat)),
            3 => Sh::Capsule(d2::gen_p(r, lat, small), d2::gen_p(r, lat, small), r.pos_extent(lat).min(10.0)),
            4 => loop {
                let (p, q, s) = (d2::gen_p(r, lat, small), d2::gen_p(r, lat, small), d2::gen_p(r, lat, small));
                if (q - p).perp(&(s - p)).abs() > 1e-3 { break Sh::Triangle(p, q, s); }
            },
            _ => loop {
                let (p, q) = (d2::gen_p(r, lat, small), d2::gen_p(r, lat, small));
                if (q - p).norm() > 1e-3 { break Sh::Segment(p, q); }
            },
        }
    }
    fn size(s: &Sh) -> f64 {
        match s {
            Sh::Ball(r) => *r, Sh::Cuboid(he) => he.norm(), Sh::HalfSpace(_) => 0.0,
            Sh::Capsule(p, q, r) => p.coords.norm().max(q.coords.norm()) + r,
            Sh::Triangle(p, q, s) => p.coords.norm().max(q.coords.norm()).max(s.coords.norm()),
            Sh::Segment(p, q) => p.coords.norm().max(q.coords.norm()),
            Sh::Compound(ps) => ps.iter().map(|(m, s)| m.translation.vector.norm() + size(s)).fold(0.0, f64::max),
            Sh::Polyline(vs) => vs.iter().map(|p| p.coords.norm()).fold(0.0, f64::max),
        }
    }
    fn quarter(r: &mut Rng, k: i64) -> f64 { r.range(-k, k) as f64 * 0.25 }
    fn iso_of(c: (f64, f64), t: Vector<Real>) -> Isometry<Real> {
        Isometry::from_parts(na::Translation2::from(t), na::Unit::new_unchecked(na::Complex::new(c.0, c.1)))
    }
    /// rotations whose arithmetic is exact: multiples of 90 degrees
    fn exact_rot(r: &mut Rng) -> (f64, f64) { *r.pick(&[(1.0, 0.0), (0.0, 1.0), (-1.0, 0.0), (0.0, -1.0)]) }
    fn gen_part(r: &mut Rng, lat: bool) -> Sh {
        let e = |r: &mut Rng| if lat { *r.pick(&[0.25, 0.5, 1.0, 1.5, 2.0]) } else { r.uniform(0.2, 2.0) };
        match r.below(3) {
            0 => Sh::Ball(e(r)),
            1 => Sh::Cuboid(Vector::new(e(r), e(r))),
            _ => { let c = |r: &mut Rng| if lat { quarter(r, 6) } else { r.uniform(-1.5, 1.5) };
                   let a = Point::new(c(r), c(r)); let mut bb = Point::new(c(r), c(r)); if (bb - a).norm() < 0.25 { bb.x += 1.0; }
                   Sh::Capsule(a, bb, e(r).min(1.0)) }
        }
    }
    fn gen_compound(r: &mut Rng, lat: bool) -> Sh {
        let n = 2 + r.below(3) as usize;
        Sh::Compound((0..n).map(|_| {
            let c = |r: &mut Rng| if lat { quarter(r, 6) } else { r.uniform(-1.5, 1.5) };
            let rot = d2::gen_rot(r, lat);
            (iso_of(rot, Vector::new(c(r), c(r))), gen_part(r, lat))
        }).collect())
    }
    /// open or closed polygonal chain with 3-6 vertices
    fn gen_polyline(r: &mut Rng, lat: bool) -> Sh {
        let n = 3 + r.below(4) as usize;
        let c = |r: &mut Rng| if lat { quarter(r, 10) } else { r.uniform(-2.5, 2.5) };
        let mut vs: Vec<Point<Real>> = Vec::new();
        while vs.len() < n { let p = Point::new(c(r), c(r)); if vs.iter().all(|q| (q - p).norm() > 0.2) { vs.push(p); } }
        if r.bool() { let f = vs[0]; vs.push(f); }
        Sh::Polyline(vs)
    }
    fn interior_point(r: &mut Rng, s: &Sh) -> Point<Real> {
        match s {
            Sh::Compound(ps) => { let (m, _) = r.pick(ps).clone(); m * Point::origin() }
            Sh::Polyline(vs) => Point::from(vs.iter().fold(Vector::zeros(), |acc, p| acc + p.coords) / vs.len() as f64),
            _ => Point::origin(),
        }
    }
    fn extent_along(s: &Sh, rot: &Isometry<Real>, axis: &Vector<Real>) -> Option<f64> {
        let g = dynsh(s);
        g.as_support_map().map(|sm| sm.support_point(rot, axis).coords.dot(axis))
    }
    fn gen_poses(r: &mut Rng, lat: bool, s1: &Sh, s2: &Sh) -> (Isometry<Real>, Isometry<Real>, Isometry<Real>) {
        let ts = if r.below(4) == 0 { 1000.0 } else { 20.0 };
        let p1 = d2::gen_iso(r, lat, ts);
        let mut p2 = d2::gen_iso(r, lat, 1.0);
        let reach = size(s1) + size(s2);
        let dir = gen_normal(r, lat);
        let k = if lat { *r.pick(&[0.0, 0.25, 0.5, 1.0, 1.5, 2.0]) } else { r.uniform(0.0, 2.5) };
        let off = if lat { let o = dir * (reach * k); Vector::new((o.x * 4.0).round() / 4.0, (o.y * 4.0).round() / 4.0) } else { dir * (reach * k) };
        let mut rel = p2;
        rel.translation.vector = off;
        p2.translation.vector = p1.translation.vector + off;
        (p1, p2, rel)
    }
    pub fn gen(r: &mut Rng, lat: bool, v: &mut Vec<(String, String)>) {
        let m = d2::gen_iso(r, lat, 100.0); let m2 = d2::gen_iso(r, lat, 100.0);
        let p = d2::gen_p(r, lat, 50.0);
        v.push(("iso2_inverse".into(), d2::hiso(&m)));
        v.push(("iso2_mul".into(), format!("{} {}", d2::hiso(&m), d2::hiso(&m2))));
        v.push(("iso2_inv_mul".into(), format!("{} {}", d2::hiso(&m), d2::hiso(&m2))));
        v.push(("iso2_act".into(), format!("{} {}", d2::hiso(&m), d2::hp(&p))));
        v.push(("iso2_inv_act".into(), format!("{} {}", d2::hiso(&m), d2::hp(&p))));
        for _ in 0..2 {
            let (s1, s2) = loop {
                let s1 = gen_shape(r, lat, &[0, 1, 2]); let s2 = gen_shape(r, lat, &[0, 1, 2]);
                let ok = match (&s1, &s2) { (Sh::Ball(_), Sh::Ball(_)) => true, (Sh::HalfSpace(_), Sh::HalfSpace(_)) => false, (Sh::HalfSpace(_), _) | (_, Sh::HalfSpace(_)) => true, _ => false };
                if ok { break (s1, s2); }
            };
            let (p1, p2, pos12) = gen_poses(r, lat, &s1, &s2);
            let par = super::gen_param(r, lat);
            v.push(("d2_contact".into(), format!("{} {} {} {}", hsh(&s1), hsh(&s2), d2::hiso(&pos12), hx(par))));
            v.push(("q2_contact".into(), format!("{} {} {} {} {}", hsh(&s1), d2::hiso(&p1), hsh(&s2), d2::hiso(&p2), hx(par))));
        }
        for _ in 0..2 {
            let all: [u8; 6] = [0, 1, 2, 3, 4, 5];
            let (s1, s2) = loop {
                let s1 = gen_shape(r, lat, &all); let s2 = gen_shape(r, lat, &all);
                if !matches!((&s1, &s2), (Sh::HalfSpace(_), Sh::HalfSpace(_))) { break (s1, s2); }
            };
            let (p1, p2, _) = gen_poses(r, lat, &s1, &s2);
            let glat = lat && r.bool(); let g = d2::gen_iso(r, glat, 100.0);
            let par = super::gen_param(r, lat);
            let sw = format!("{} {} {} {} {}", hsh(&s1), d2::hiso(&p1), hsh(&s2), d2::hiso(&p2), d2::hiso(&g));
            v.push(("o2_contact".into(), format!("{} {}", sw, hx(par))));
            v.push(("o2_cp".into(), format!("{} {}", sw, hx(par))));
            v.push(("o2_distance".into(), sw.clone()));
            v.push(("o2_it".into(), sw));
        }
        // ---- composites (Compound of overlapping rotated parts, Polyline)
        {
            let comp = if r.below(3) == 0 { gen_polyline(r, lat) } else { gen_compound(r, lat) };
            let other = match r.below(8) { 0 => gen_compound(r, lat), 1 => gen_polyline(r, lat), 2 => Sh::Ball(if lat { *r.pick(&[0.25, 0.5, 1.0]) } else { r.uniform(0.1, 1.5) }),
                                          3 => Sh::HalfSpace(gen_normal(r, lat)), _ => gen_part(r, lat) };
            let (p1, mut p2, _) = gen_poses(r, lat, &comp, &other);
            if r.below(3) == 0 { p2.translation.vector = (p1 * interior_point(r, &comp)).coords; }
            let (s1, p1, s2, p2) = if r.bool() { (comp, p1, other, p2) } else { (other, p2, comp, p1) };
            let glat = lat && r.bool(); let g = d2::gen_iso(r, glat, 100.0);
            let par = super::gen_param(r, lat);
            let sw = format!("{} {} {} {} {}", hsh(&s1), d2::hiso(&p1), hsh(&s2), d2::hiso(&p2), d2::hiso(&g));
            v.push(("o2_contact".into(), format!("{} {}", sw, hx(par))));
            v.push(("o2_cp".into(), format!("{} {}", sw, hx(par))));
            v.push(("o2_distance".into(), sw.clone()));
            v.push(("o2_it".into(), sw));
        }
        // ---- exact ties
        if lat {
            for _ in 0..2 {
                let dy = |r: &mut Rng| *r.pick(&[0.25, 0.5, 1.0, 1.5, 2.0]);
                let mk = |r: &mut Rng| -> Sh { match r.below(6) {
                    0 => Sh::Ball(dy(r)), 1 => Sh::Cuboid(Vector::new(dy(r), dy(r))),
                    2 => Sh::Capsule(Point::new(quarter(r, 4), quarter(r, 4)), Point::new(quarter(r, 4), quarter(r, 4) + 1.0), dy(r).min(1.0)),
                    3 => Sh::Triangle(Point::new(quarter(r, 6), quarter(r, 6)), Point::new(quarter(r, 6) + 2.0, quarter(r, 6)), Point::new(quarter(r, 6), quarter(r, 6) + 2.0)),
                    4 => Sh::Segment(Point::new(quarter(r, 6), quarter(r, 6)), Point::new(quarter(r, 6), quarter(r, 6) + 1.5)),
                    _ => Sh::HalfSpace(Vector::zeros()) } };
                let (mut s1, s2) = loop { let a1 = mk(r); let a2 = mk(r); if !matches!(a2, Sh::HalfSpace(_)) { break (a1, a2); } };
                let ax = r.below(2) as usize; let mut axis = Vector::zeros(); axis[ax] = if r.bool() { 1.0 } else { -1.0 };
                let c1 = exact_rot(r); let c2 = exact_rot(r);
                let r1 = iso_of(c1, Vector::zeros()); let r2 = iso_of(c2, Vector::zeros());
                if let Sh::HalfSpace(_) = s1 { s1 = Sh::HalfSpace(r1.inverse_transform_vector(&axis)); }
                let e1 = match &s1 { Sh::HalfSpace(_) => Some(0.0), x => extent_along(x, &r1, &axis) };
                let e2 = extent_along(&s2, &r2, &(-axis));
                if let (Some(e1), Some(e2)) = (e1, e2) {
                    let par = *r.pick(&[0.0, 0.25, 0.5, 1.0]);
                    let gap = if r.bool() { 0.0 } else { par };
                    let t1 = Vector::new(quarter(r, 40), quarter(r, 40));
                    let mut lateral = Vector::new(quarter(r, 1), quarter(r, 1)); lateral[ax] = 0.0;
                    let p1 = iso_of(c1, t1);
                    let p2 = iso_of(c2, t1 + axis * (e1 + e2 + gap) + lateral);
                    let g = iso_of(exact_rot(r), Vector::new(quarter(r, 40), quarter(r, 40)));
                    let sw = format!("{} {} {} {} {}", hsh(&s1), d2::hiso(&p1), hsh(&s2), d2::hiso(&p2), d2::hiso(&g));
                    v.push(("o2_contact".into(), format!("{} {}", sw, hx(par))));
                    v.push(("o2_cp".into(), format!("{} {}", sw, hx(par))));
                    v.push(("o2_distance".into(), sw.clone()));
                    v.push(("o2_it".into(), sw));
                }
            }
        }
        // ---- shape casts
        for _ in 0..2 {
            let all: [u8; 6] = [0, 1, 2, 3, 4, 5];
            let (s1, s2) = loop {
                let pick = |r: &mut Rng| match r.below(10) { 0 => gen_compound(r, lat), 1 => gen_polyline(r, lat), _ => gen_shape(r, lat, &all) };
                let s1 = pick(r); let s2 = pick(r);
                if !matches!((&s1, &s2), (Sh::HalfSpace(_), Sh::HalfSpace(_))) { break (s1, s2); }
            };
            let ts = if r.below(4) == 0 { 1000.0 } else { 20.0 };
            let p1 = d2::gen_iso(r, lat, ts);
            let mut p2 = d2::gen_iso(r, lat, 1.0);
            let reach = size(&s1) + size(&s2);
            let dir = gen_normal(r, lat);
            let k = if lat { *r.pick(&[0.5, 1.5, 2.0, 3.0]) } else { r.uniform(0.3, 3.5) };
            p2.translation.vector = p1.translation.vector + dir * (reach * k + if lat { 0.25 } else { 0.1 });
            let speed = if lat { *r.pick(&[0.25, 1.0, 4.0]) } else { r.logu(1e-2, 1e2) };
            let noise = if lat { Vector::new(quarter(r, 1), quarter(r, 1)) * 0.5 } else { d2::gen_v(r, false, 0.3) };
            let vrel = match r.below(10) { 0 => Vector::zeros(), 1 => dir * speed, _ => (-dir + noise) * speed };
            let v1 = if r.bool() { Vector::zeros() } else if lat { Vector::new(quarter(r, 8), quarter(r, 8)) } else { d2::gen_v(r, false, 5.0) };
            let v2 = v1 + vrel;
            let target = if r.bool() { 0.0 } else if lat { *r.pick(&[0.25, 0.5]) } else { r.logu(1e-2, 1.0) };
            let maxtoi = match r.below(4) { 0 => reach * k / speed * r.uniform(0.2, 1.5), 1 => 1.0e3, _ => f64::MAX };
            let glat = lat && r.bool(); let g = d2::gen_iso(r, glat, 100.0);
            v.push(("o2_cast".into(), format!("{} {} {} {} {} {} {} {} {} {}", hsh(&s1), d2::hiso(&p1), d2::hv(&v1), hsh(&s2), d2::hiso(&p2), d2::hv(&v2),
                d2::hiso(&g), hx(target), b(r.bool()), hx(maxtoi))));
        }
    }
    /// follow-up 2: the closed-form 2-D cuboid/cuboid separating-axis test; vertex of one near an edge of the other
    /// (gap from 1e-4 to 0.3 of the smallest extent, both signs, exactly 0), and unstructured pairs
    pub fn gen_sat(r: &mut Rng, lat: bool, v: &mut Vec<(String, String)>) {
        let ext = |r: &mut Rng| if lat { *r.pick(&[0.25, 0.5, 1.0, 1.5, 2.0, 4.0]) } else if r.below(4) == 0 { r.logu(1e-2, 1e2) } else { r.uniform(0.2, 3.0) };
        let h1 = Vector::new(ext(r), ext(r)); let h2 = Vector::new(ext(r), ext(r));
        let rot = iso_of(d2::gen_rot(r, lat), Vector::zeros());
        let pos12 = if r.below(3) == 0 { gen_poses(r, lat, &Sh::Cuboid(h1), &Sh::Cuboid(h2)).2 } else {
            // the face of cuboid 1 with outward normal `nrm` against the deepest vertex of cuboid 2
            let k = r.below(2) as usize; let mut nrm = Vector::zeros(); nrm[k] = if r.bool() { 1.0 } else { -1.0 };
            let d = rot.inverse_transform_vector(&(-nrm));
            let deep = rot * Point::new(h2.x.copysign(d.x), h2.y.copysign(d.y));
            let smin = h1.min().min(h2.min());
            let mag = if lat { *r.pick(&[0.0, 0.015625, 0.125, 0.25]) } else { r.logu(1e-4, 0.3) };
            let gap = smin * mag * if r.below(4) == 0 { -1.0 } else { 1.0 };
            let mut on_face = Vector::new(h1.x, h1.y).component_mul(&Vector::new(r.uniform(-0.9, 0.9), r.uniform(-0.9, 0.9)));
            if lat { on_face = Vector::new(h1.x * quarter(r, 3), h1.y * quarter(r, 3)); }
            on_face[k] = nrm[k] * h1[k];
            iso_of((rot.rotation.re, rot.rotation.im), on_face + nrm * gap - deep.coords)
        };
        let (pos12, h1, h2) = if r.bool() { (pos12, h1, h2) } else { (pos12.inverse(), h2, h1) };
        let pinv = pos12.inverse();
        let ts = if r.below(4) == 0 { 1000.0 } else { 20.0 }; let p1 = d2::gen_iso(r, lat, ts);
        let p2 = p1 * pos12;
        for f in ["sat2_normal_oneway", "d2_it_cc"] {
            v.push((f.into(), format!("{} {} {}", d2::hv(&h1), d2::hv(&h2), d2::hiso(&pos12))));
            v.push((f.into(), format!("{} {} {}", d2::hv(&h2), d2::hv(&h1), d2::hiso(&pinv))));
        }
        v.push(("q2_it_cc".into(), format!("{} {} {} {}", d2::hv(&h1), d2::hiso(&p1), d2::hv(&h2), d2::hiso(&p2))));
        v.push(("q2_it_cc".into(), format!("{} {} {} {}", d2::hv(&h2), d2::hiso(&p2), d2::hv(&h1), d2::hiso(&p1))));
        let glat = lat && r.bool(); let g = d2::gen_iso(r, glat, 100.0);
        let par = super::gen_param(r, lat);
        let sw = format!("{} {} {} {} {}", hsh(&Sh::Cuboid(h1)), d2::hiso(&p1), hsh(&Sh::Cuboid(h2)), d2::hiso(&p2), d2::hiso(&g));
        v.push(("o2_contact".into(), format!("{} {}", sw, hx(par))));
        v.push(("o2_cp".into(), format!("{} {}", sw, hx(par))));
        v.push(("o2_distance".into(), sw.clone()));
        v.push(("o2_it".into(), sw));
    }
    /// C02: contact self-consistency cases in 2-D (Compound with rotated parts / Polyline against convex shapes, both orders)
    pub fn gen_k(r: &mut Rng, lat: bool, v: &mut Vec<(String, String)>) {
        let all: [u8; 6] = [0, 1, 2, 3, 4, 5];
        let comp = if r.below(4) == 0 { gen_polyline(r, lat) } else { gen_compound(r, lat) };
        let other = match r.below(6) { 0 => gen_compound(r, lat), 1 => gen_shape(r, lat, &all), _ => gen_part(r, lat) };
        let (p1, mut p2, _) = gen_poses(r, lat, &comp, &other);
        if r.below(4) == 0 { p2.translation.vector = (p1 * interior_point(r, &comp)).coords; }
        let pred = super::gen_param(r, lat).max(if lat { 0.5 } else { 0.3 });
        v.push(("k2_contact".into(), format!("{} {} {} {} {}", hsh(&comp), d2::hiso(&p1), hsh(&other), d2::hiso(&p2), hx(pred))));
        v.push(("k2_contact".into(), format!("{} {} {} {} {}", hsh(&other), d2::hiso(&p2), hsh(&comp), d2::hiso(&p1), hx(pred))));
    }
}
