//! C15: 2-D predicates — segments_intersection2d, Triangle::orientation2d, point_in_poly2d,
//! point_in_convex_poly2d, corner_direction, is_point_in_triangle.
use crate::util::*;
use crate::p2::shape::{SegmentPointLocation, Triangle, TriangleOrientation};
use crate::p2::utils::point_in_triangle::{corner_direction, is_point_in_triangle, Orientation};
use crate::p2::utils::{point_in_convex_poly2d, point_in_poly2d, segments_intersection2d, SegmentsIntersection};

type P2 = d2::Point<f64>;
/// `PolygonIntersectionTolerances` is public with a public field but not re-exported from `transformation`, so it cannot
/// be named here; its type is inferred from the call inside `f` and the field is set through the second closure.
fn with_tol2<T: Default, R>(f: impl FnOnce(T) -> R, edit: impl FnOnce(&mut T)) -> R { let mut t = T::default(); edit(&mut t); f(t) }
macro_rules! tol_call { ($e:expr, $f:expr) => { with_tol2($f, |t| t.collinearity_epsilon = $e) } }

pub fn floc(l: &SegmentPointLocation) -> String {
    match l {
        SegmentPointLocation::OnVertex(i) => format!("v{}", i),
        SegmentPointLocation::OnEdge(uv) => format!("e {} {}", ff(uv[0]), ff(uv[1])),
    }
}
pub fn fori(o: TriangleOrientation) -> &'static str {
    match o {
        TriangleOrientation::CounterClockwise => "ccw",
        TriangleOrientation::Clockwise => "cw",
        TriangleOrientation::Degenerate => "deg",
    }
}
pub fn poly(a: &mut Args) -> Vec<P2> { let n = a.u(); (0..n).map(|_| d2::p(a)).collect() }
pub fn hpoly(p: &[P2]) -> String {
    let mut s = format!("{}", p.len());
    for q in p { s.push(' '); s.push_str(&d2::hp(q)); }
    s
}

pub fn exec(func: &str, a: &mut Args) -> String {
    match func {
        "orientation2d" => { let p = d2::p(a); let q = d2::p(a); let r = d2::p(a); let e = a.f();
            fori(Triangle::orientation2d(&p, &q, &r, e)).into() }
        // the method `Triangle::orientation(&self, eps)` (dim2) has its own copy of the body of `orientation2d`
        "triangle_orientation" => { let p = d2::p(a); let q = d2::p(a); let r = d2::p(a); let e = a.f();
            fori(Triangle::new(p, q, r).orientation(e)).into() }
        "segments_intersection2d" | "segments_collinear_vertical" | "segments_collinear_horizontal" | "segments_collinear_generic" => { let p = d2::p(a); let q = d2::p(a); let r = d2::p(a); let s = d2::p(a); let e = a.f();
            match segments_intersection2d(&p, &q, &r, &s, e) {
                None => "none".into(),
                Some(SegmentsIntersection::Point { loc1, loc2 }) => format!("point {} {}", floc(&loc1), floc(&loc2)),
                Some(SegmentsIntersection::Segment { first_loc1, first_loc2, second_loc1, second_loc2 }) =>
                    format!("segment {} {} {} {}", floc(&first_loc1), floc(&first_loc2), floc(&second_loc1), floc(&second_loc2)),
            } }
        "point_in_poly2d" => { let p = d2::p(a); let pl = poly(a); b(point_in_poly2d(&p, &pl)).into() }
        "point_in_convex_poly2d" => { let p = d2::p(a); let pl = poly(a); b(point_in_convex_poly2d(&p, &pl)).into() }
        "corner_direction" => { let p = d2::p(a); let q = d2::p(a); let r = d2::p(a);
            match corner_direction(&p, &q, &r) { Orientation::Ccw => "ccw", Orientation::Cw => "cw", Orientation::None => "none" }.into() }
        "is_point_in_triangle" => { let p = d2::p(a); let q = d2::p(a); let r = d2::p(a); let s = d2::p(a);
            match is_point_in_triangle(&p, &q, &r, &s) { None => "none".into(), Some(x) => b(x).into() } }
        "triangle_contains_point" => { let q = d2::p(a); let r = d2::p(a); let s = d2::p(a); let p = d2::p(a);
            b(Triangle::new(q, r, s).contains_point(&p)).into() }
        // callback form with an explicit collinearity epsilon (`_with_tolerances`): the ordered stream of location pairs
        "convex_polygons_intersection" => { let p1 = poly(a); let p2 = poly(a); let e = a.f(); cvx_locs(&p1, &p2, e) }
        "convex_points_with_tolerances" => { let p1 = poly(a); let p2 = poly(a); let e = a.f();
            let mut out = Vec::new();
            tol_call!(e, |t| crate::p2::transformation::convex_polygons_intersection_points_with_tolerances(&p1, &p2, t, &mut out));
            let mut s = format!("{}", out.len());
            for q in out.iter() { s.push(' '); s.push_str(&d2::fp(q)); }
            s }
        "convex_polygons_intersection_points" | "convex_axis_edge_pair" | "convex_large_pair" => { let p1 = poly(a); let p2 = poly(a);
            let mut out = Vec::new();
            crate::p2::transformation::convex_polygons_intersection_points(&p1, &p2, &mut out);
            let mut s = format!("{}", out.len());
            for q in out.iter() { s.push(' '); s.push_str(&d2::fp(q)); }
            s }
        // non-convex: `polygons_intersection_points` (points) and `polygons_intersection` (location stream).  The names
        // `polygons_touching*` run the same code on the vertex-on-boundary families (oracle only, see relations.json).
        "polygons_intersection_points" | "polygons_touching_points" => { let p1 = poly(a); let p2 = poly(a);
            run_stable(|| nc_points(&p1, &p2)) }
        "polygons_intersection" | "polygons_touching" => { let p1 = poly(a); let p2 = poly(a);
            run_stable(|| nc_locs(&p1, &p2)) }
        _ => "nofn".into(),
    }
}

// ---------------------------------------------------------------- convex, callback form / tolerances

fn cvx_locs(p1: &[P2], p2: &[P2], e: f64) -> String {
    let mut items: Vec<String> = Vec::new();
    tol_call!(e, |t| crate::p2::transformation::convex_polygons_intersection_with_tolerances(p1, p2, t, |l1, l2| {
        match (l1, l2) {
            (Some(a), Some(b)) => { let (_, sa) = parse_loc(&format!("{:?}", a)); let (_, sb) = parse_loc(&format!("{:?}", b)); items.push(format!("b {} {}", sa, sb)); }
            (Some(a), None) => { let (_, sa) = parse_loc(&format!("{:?}", a)); items.push(format!("p {}", sa)); }
            (None, Some(b)) => { let (_, sb) = parse_loc(&format!("{:?}", b)); items.push(format!("q {}", sb)); }
            (None, None) => { items.push("n".into()); }
        }
    }));
    let mut s = format!("{}", items.len());
    for it in items { s.push(' '); s.push_str(&it); }
    s
}

// ---------------------------------------------------------------- non-convex polygon intersection

/// one output item: a sort key (numbers compared lexicographically) and its printed form
type Item = (Vec<f64>, String);

fn cmp_key(a: &[f64], b: &[f64]) -> std::cmp::Ordering {
    use std::cmp::Ordering::*;
    for (x, y) in a.iter().zip(b.iter()) {
        if x < y { return Less; }
        if y < x { return Greater; }
    }
    a.len().cmp(&b.len())
}
fn cmp_seq(a: &[Item], b: &[Item]) -> std::cmp::Ordering {
    use std::cmp::Ordering::*;
    for (x, y) in a.iter().zip(b.iter()) {
        match cmp_key(&x.0, &y.0) { Equal => {}, o => return o }
    }
    a.len().cmp(&b.len())
}
/// The iteration order of the hash map of `polygons_intersection` (hashbrown + foldhash, seeded per map from ASLR / stack
/// addresses) decides which intersection starts a component and in which order the components are produced.  Canonical
/// form: every component rotated to its lexicographically least rotation, components sorted.
fn canonical(comps: Vec<Vec<Item>>) -> String {
    let mut cs: Vec<Vec<Item>> = comps.into_iter().map(|c| {
        let n = c.len();
        let mut best: Vec<Item> = c.clone();
        for k in 1..n {
            let mut r = c.clone(); r.rotate_left(k);
            if cmp_seq(&r, &best) == std::cmp::Ordering::Less { best = r; }
        }
        best
    }).collect();
    cs.sort_by(|a, b| cmp_seq(a, b));
    let mut s = format!("ok {}", cs.len());
    for c in cs.iter() { s.push_str(&format!(" {}", c.len())); for it in c.iter() { s.push(' '); s.push_str(&it.1); } }
    s
}
/// call twice (two hash maps, two iteration orders): an output that depends on the order is reported as such
fn run_stable<F: Fn() -> String>(f: F) -> String {
    let a = f();
    for _ in 0..2 { let b = f(); if a != b { return format!("unstable {} // {}", a, b); } }
    a
}
fn nc_points(p1: &[P2], p2: &[P2]) -> String {
    match crate::p2::transformation::polygons_intersection_points(p1, p2) {
        Err(_) => "err".into(),
        Ok(comps) => canonical(comps.iter().map(|c| c.iter().map(|q| (vec![q.x, q.y], d2::fp(q))).collect()).collect()),
    }
}
/// `PolylinePointLocation` is not nameable from outside the crate (private module); its derived `Debug` output
/// (`OnVertex(3)`, `OnEdge(1, 2, [0.25, 0.75])`, floats in shortest round-trip form) is parsed instead.
fn parse_loc(dbg: &str) -> (Vec<f64>, String) {
    if dbg.starts_with("OnVertex") {
        let i: usize = dbg.trim_start_matches("OnVertex(").trim_end_matches(')').parse().expect("vertex index");
        (vec![0.0, i as f64], format!("v{}", i))
    } else {
        let inner = dbg.trim_start_matches("OnEdge(").trim_end_matches(')');
        let parts: Vec<&str> = inner.split(|c: char| c == ',' || c == '[' || c == ']' || c == ' ').filter(|t| !t.is_empty()).collect();
        let i: usize = parts[0].parse().expect("edge i"); let j: usize = parts[1].parse().expect("edge j");
        let u: f64 = parts[2].parse().expect("bcoord 0"); let v: f64 = parts[3].parse().expect("bcoord 1");
        (vec![1.0, i as f64, j as f64, u, v], format!("e {} {} {} {}", i, j, ff(u), ff(v)))
    }
}
fn nc_locs(p1: &[P2], p2: &[P2]) -> String {
    let mut comps: Vec<Vec<Item>> = Vec::new();
    let mut cur: Vec<Item> = Vec::new();
    let r = crate::p2::transformation::polygons_intersection(p1, p2, |l1, l2| {
        match (l1, l2) {
            (Some(a), Some(b)) => { let (ka, sa) = parse_loc(&format!("{:?}", a)); let (kb, sb) = parse_loc(&format!("{:?}", b));
                let mut k = vec![0.0]; k.extend(ka); k.extend(kb); cur.push((k, format!("b {} {}", sa, sb))); }
            (Some(a), None) => { let (ka, sa) = parse_loc(&format!("{:?}", a)); let mut k = vec![1.0]; k.extend(ka); cur.push((k, format!("p {}", sa))); }
            (None, Some(b)) => { let (kb, sb) = parse_loc(&format!("{:?}", b)); let mut k = vec![2.0]; k.extend(kb); cur.push((k, format!("q {}", sb))); }
            (None, None) => { comps.push(std::mem::take(&mut cur)); }
        }
    });
    match r {
        Err(_) => "err".into(),
        Ok(()) => { if !cur.is_empty() { comps.push(cur); } canonical(comps) }
    }
}

// ---------------------------------------------------------------- generators

fn pt(r: &mut Rng, lat: bool) -> P2 {
    if lat { P2::new(r.lattice(16, 2), r.lattice(16, 2)) }
    else { let s = *r.pick(&[1.0, 10.0, 100.0, 1000.0]); P2::new(r.uniform(-s, s), r.uniform(-s, s)) }
}
/// a "nice" affine parameter
fn par(r: &mut Rng, lat: bool) -> f64 {
    if lat || r.bool() { *r.pick(&[-1.0, -0.5, -0.25, 0.0, 0.25, 0.5, 0.75, 1.0, 1.25, 1.5, 2.0]) } else { r.uniform(-0.5, 1.5) }
}
fn lerp(a: &P2, b: &P2, t: f64) -> P2 { P2::new(a.x + (b.x - a.x) * t, a.y + (b.y - a.y) * t) }
fn gen_eps(r: &mut Rng) -> f64 {
    match r.below(8) { 0 | 1 | 2 => 0.0, 3 | 4 | 5 => f64::EPSILON * 100.0, 6 => 1.0e-6, _ => 0.0625 }
}

/// convex hull (monotone chain), counter-clockwise; `keep_collinear` keeps points on hull edges
fn hull(pts: &[P2], keep_collinear: bool) -> Vec<P2> {
    let mut p: Vec<P2> = pts.to_vec();
    p.sort_by(|a, b| a.x.partial_cmp(&b.x).unwrap().then(a.y.partial_cmp(&b.y).unwrap()));
    p.dedup_by(|a, b| a.x == b.x && a.y == b.y);
    if p.len() < 3 { return p; }
    let cr = |o: &P2, a: &P2, b: &P2| (a.x - o.x) * (b.y - o.y) - (a.y - o.y) * (b.x - o.x);
    let bad = |c: f64| if keep_collinear { c < 0.0 } else { c <= 0.0 };
    let mut h: Vec<P2> = Vec::new();
    for q in p.iter() {
        while h.len() >= 2 && bad(cr(&h[h.len() - 2], &h[h.len() - 1], q)) { h.pop(); }
        h.push(*q);
    }
    let lo = h.len() + 1;
    for q in p.iter().rev().skip(1) {
        while h.len() >= lo && bad(cr(&h[h.len() - 2], &h[h.len() - 1], q)) { h.pop(); }
        h.push(*q);
    }
    h.pop();
    h
}
/// rotate the start vertex and optionally reverse the orientation
fn respin(r: &mut Rng, mut p: Vec<P2>) -> Vec<P2> {
    if p.is_empty() { return p; }
    let k = r.below(p.len() as u64) as usize;
    p.rotate_left(k);
    if r.bool() { p.reverse(); }
    p
}
pub fn gen_convex(r: &mut Rng, lat: bool) -> Vec<P2> {
    let n = 3 + r.below(10) as usize;
    let h = if lat || r.bool() {
        let pts: Vec<P2> = (0..n + 2).map(|_| pt(r, lat)).collect();
        hull(&pts, lat && r.below(3) == 0)
    } else {
        // points on an ellipse at sorted angles
        let mut ang: Vec<f64> = (0..n).map(|_| r.uniform(0.0, 6.283185307179586)).collect();
        ang.sort_by(|a, b| a.partial_cmp(b).unwrap());
        let (rx, ry) = (r.logu(1e-2, 1e2), r.logu(1e-2, 1e2));
        let c = pt(r, false);
        ang.iter().map(|t| P2::new(c.x + rx * t.cos(), c.y + ry * t.sin())).collect()
    };
    respin(r, h)
}
/// general closed polygon: star-shaped simple, or arbitrary (possibly self-intersecting)
pub fn gen_poly(r: &mut Rng, lat: bool) -> Vec<P2> {
    let n = match r.below(20) { 0 => r.below(3) as usize, _ => 3 + r.below(10) as usize };
    let p: Vec<P2> = match r.below(3) {
        0 => (0..n).map(|_| pt(r, lat)).collect(),
        1 => { // star-shaped around a centre, lattice radii along 8/16 exact directions
            let dirs: [(f64, f64); 16] = [(1.0, 0.0), (2.0, 1.0), (1.0, 1.0), (1.0, 2.0), (0.0, 1.0), (-1.0, 2.0), (-1.0, 1.0), (-2.0, 1.0),
                (-1.0, 0.0), (-2.0, -1.0), (-1.0, -1.0), (-1.0, -2.0), (0.0, -1.0), (1.0, -2.0), (1.0, -1.0), (2.0, -1.0)];
            let c = pt(r, lat);
            let mut v = Vec::new();
            for d in dirs.iter() {
                if v.len() < n.max(3) && r.below(4) != 0 {
                    let k = if lat { (1 + r.below(8)) as f64 * 0.25 } else { r.logu(0.05, 50.0) };
                    v.push(P2::new(c.x + d.0 * k, c.y + d.1 * k));
                }
            }
            v }
        _ => { // comb / staircase: axis-parallel edges, many vertices on common y-levels
            let mut v = Vec::new();
            let teeth = 1 + r.below(4) as usize;
            let s = if lat { 0.5 } else { r.logu(0.1, 10.0) };
            let o = pt(r, lat);
            v.push(P2::new(o.x, o.y));
            for t in 0..teeth {
                let x0 = o.x + (2 * t) as f64 * s; let x1 = x0 + s; let x2 = x0 + 2.0 * s;
                let h = (1 + r.below(3)) as f64 * s;
                v.push(P2::new(x0, o.y + h)); v.push(P2::new(x1, o.y + h));
                if t + 1 < teeth { v.push(P2::new(x1, o.y + s * 0.5)); v.push(P2::new(x2, o.y + s * 0.5)); }
            }
            let xe = o.x + (2 * teeth - 1) as f64 * s;
            v.push(P2::new(xe, o.y));
            v.reverse(); // counter-clockwise
            v }
    };
    respin(r, p)
}
/// query points biased to ties: vertices, edge midpoints, points sharing a coordinate with a vertex
fn gen_query(r: &mut Rng, lat: bool, p: &[P2]) -> P2 {
    if p.is_empty() { return pt(r, lat); }
    let i = r.below(p.len() as u64) as usize; let j = (i + 1) % p.len();
    match r.below(12) {
        0 => p[i],
        1 => lerp(&p[i], &p[j], 0.5),
        2 => lerp(&p[i], &p[j], par(r, lat)),                    // on the edge line, possibly outside
        3 | 4 => P2::new(pt(r, lat).x, p[i].y),                  // ray through a vertex
        5 | 6 => P2::new(p[i].x, pt(r, lat).y),
        7 | 8 => { let k = r.below(p.len() as u64) as usize; let c = lerp(&p[i], &p[k], 0.5); lerp(&c, &p[j], 0.5) } // inside-ish
        _ => pt(r, lat),
    }
}

fn gen_segments(r: &mut Rng, lat: bool) -> [P2; 4] {
    let a = pt(r, lat); let b = pt(r, lat);
    if r.below(30) == 0 { // zero-length segment
        return if r.bool() { [a, a, pt(r, lat), pt(r, lat)] } else { let c = pt(r, lat); [a, b, c, c] };
    }
    match r.below(9) {
        0 | 1 | 2 => [a, b, pt(r, lat), pt(r, lat)],
        3 => { // T-junction: an end point of one segment on the line of the other — all four kinds (c on ab, d on ab, a on cd, b on cd)
               let c = lerp(&a, &b, par(r, lat)); let o = pt(r, lat);
               match r.below(4) { 0 => [a, b, c, o], 1 => [a, b, o, c], 2 => [c, o, a, b], _ => [o, c, a, b] } }
        4 => { let c = lerp(&a, &b, par(r, lat)); let d = lerp(&a, &b, par(r, lat)); [a, b, c, d] } // collinear
        5 => { let o = pt(r, lat); let k = par(r, lat); let c = P2::new(o.x, o.y);                  // parallel
               let d = P2::new(o.x + (b.x - a.x) * k, o.y + (b.y - a.y) * k); [a, b, c, d] }
        6 => { let e = *r.pick(&[a, b]); if r.bool() { [a, b, e, pt(r, lat)] } else { [a, b, pt(r, lat), e] } } // shared endpoint
        7 => { // crossing at a chosen interior point of both
               let x = lerp(&a, &b, par(r, lat)); let c = pt(r, lat); let t = *r.pick(&[0.25, 0.5, 1.0, 2.0, 3.0]);
               let d = P2::new(x.x + (x.x - c.x) * t, x.y + (x.y - c.y) * t); [a, b, c, d] }
        _ => { // axis-aligned unit-ish configurations where `s == denom` coincidences live
               let h = *r.pick(&[0.25, 0.5, 1.0, 2.0]); let w = *r.pick(&[0.25, 0.5, 1.0, 2.0]);
               let a = P2::new(0.0, 0.0); let b = P2::new(w, 0.0); let x = w * *r.pick(&[0.25, 0.5, 0.75, 1.0]);
               let c = P2::new(x, h * 0.5); let d = P2::new(x, -h * 0.5);
               if r.bool() { [a, b, c, d] } else { [c, d, a, b] } }
    }
}

/// Structured family for the parallel / collinear path (`parallel_intersection`, `between`).
/// The two segments live on one lattice line `o + t·u`, `t` integer, so every coordinate is exact and the interior end
/// points sit at non-symmetric barycentric parameters (1/3, 1/4, 2/5, …).
///   dir     0 vertical (a.x == b.x exactly), 1 horizontal, 2 generic lattice direction
///   pattern overlap pattern of the second segment relative to the first, which spans [0, L]
///   flip1/flip2 orientation of each segment (up/down, left/right), swap = which segment is (a,b)
///   off     perpendicular offset in lattice steps (0 = collinear, otherwise parallel and disjoint)
pub const N_COL_PATTERNS: usize = 13;
fn collinear_case(r: &mut Rng, dir: usize, pattern: usize, flip1: bool, flip2: bool, swap: bool, off: i64) -> [P2; 4] {
    let s = *r.pick(&[0.25, 0.5, 1.0]);
    let (ux, uy): (f64, f64) = match dir {
        0 => (0.0, s),
        1 => (s, 0.0),
        _ => { let dx = *r.pick(&[-3.0, -2.0, -1.0, 1.0, 2.0, 3.0]); let dy = *r.pick(&[-3.0, -2.0, -1.0, 1.0, 2.0, 3.0]); (dx * s, dy * s) }
    };
    let l: i64 = 3 + r.below(4) as i64;             // L = 3..6
    // second segment [lo, hi] in units of u, first is [0, L]
    let (lo, hi): (i64, i64) = match pattern {
        0 => (l + 1, l + 3),          // disjoint, beyond the far end
        1 => (-3, -1),                // disjoint, before the near end
        2 => (l, l + 2),              // touching at the far end point
        3 => (-2, 0),                 // touching at the near end point
        4 => (1, l + 2),              // partial overlap, enters at 1/L
        5 => (-2, l - 1),             // partial overlap from the other side
        6 => (1, l - 1),              // contained, both end points interior
        7 => (1, 2),                  // contained, interior end points at 1/L and 2/L
        8 => (-1, l + 2),             // containing: the first segment is strictly inside the second
        9 => (0, l),                  // identical
        10 => (0, 2),                 // shares the near end point, ends inside
        11 => (2, l),                 // shares the far end point
        _ => (-2, l + 1),             // containing, asymmetric
    };
    let base = r.range(-6, 6);
    let o = P2::new(r.lattice(8, 2), r.lattice(8, 2));
    let at = |t: i64| P2::new(o.x + (base + t) as f64 * ux, o.y + (base + t) as f64 * uy);
    let (mut a, mut b, mut c, mut d) = (at(0), at(l), at(lo), at(hi));
    if off != 0 { // parallel, not collinear: shift the second segment perpendicular to the line
        let (nx, ny) = (-uy * off as f64, ux * off as f64);
        c = P2::new(c.x + nx, c.y + ny); d = P2::new(d.x + nx, d.y + ny);
    }
    if flip1 { std::mem::swap(&mut a, &mut b); }
    if flip2 { std::mem::swap(&mut c, &mut d); }
    if swap { [c, d, a, b] } else { [a, b, c, d] }
}
fn push_collinear(v: &mut Vec<(String, String)>, dir: usize, s: &[P2; 4], eps: f64) {
    let name = ["segments_collinear_vertical", "segments_collinear_horizontal", "segments_collinear_generic"][dir];
    v.push((name.into(), format!("{} {} {} {} {}", d2::hp(&s[0]), d2::hp(&s[1]), d2::hp(&s[2]), d2::hp(&s[3]), hx(eps))));
}

/// Two convex lattice polygons on the two sides of (or overlapping across) an axis-parallel line, with edges ON that
/// line whose spans are in a chosen overlap pattern: touching along (part of) a vertical / horizontal edge.
fn gen_axis_edge_pair(r: &mut Rng) -> (Vec<P2>, Vec<P2>) {
    let vertical = r.bool();
    let l: i64 = 3 + r.below(4) as i64;
    let (lo, hi): (i64, i64) = match r.below(9) {
        0 => (1, l + 2), 1 => (-2, l - 1), 2 => (1, l - 1), 3 => (1, 2), 4 => (-1, l + 2), 5 => (0, l), 6 => (0, 2), 7 => (2, l), _ => (l, l + 2),
    };
    let s = *r.pick(&[0.5, 1.0]);
    let o = P2::new(r.lattice(8, 1), r.lattice(8, 1));
    // local frame: the shared line is the w-axis (coordinate along the line = w, across = z)
    let mk = |w: f64, z: f64| if vertical { P2::new(o.x + z, o.y + w) } else { P2::new(o.x + w, o.y + z) };
    // polygon on side `sgn` of the line with its edge [w0, w1] on the line, plus 1..3 vertices off the line (convex cap)
    let cap = |r: &mut Rng, w0: f64, w1: f64, sgn: f64| -> Vec<P2> {
        let k = 1 + r.below(3) as usize;
        let mut p = vec![mk(w0, 0.0), mk(w1, 0.0)];
        let len = w1 - w0;
        match k {
            1 => { let t = *r.pick(&[0.25, 0.5, 0.75]); p.push(mk(w0 + len * t, sgn * s * (1 + r.below(3)) as f64)); }
            2 => { let h = s * (1 + r.below(3)) as f64; p.push(mk(w1, sgn * h)); p.push(mk(w0, sgn * h)); }
            _ => { let h = s * (1 + r.below(2)) as f64; p.push(mk(w1 + s * 0.5, sgn * h)); p.push(mk(w0 + len * 0.5, sgn * 2.0 * h)); p.push(mk(w0 - s * 0.5, sgn * h)); }
        }
        p
    };
    let p1 = cap(r, 0.0, l as f64 * s, 1.0);
    // other side (touching along the edge) most of the time; same side (overlapping interiors, collinear same-direction edges) otherwise
    let side = if r.below(4) == 0 { 1.0 } else { -1.0 };
    let p2 = cap(r, lo as f64 * s, hi as f64 * s, side);
    let (p1, p2) = if r.bool() { (p1, p2) } else { (p2, p1) };
    (respin(r, p1), respin(r, p2))
}

pub fn gen(r: &mut Rng, thorough: bool) -> Vec<(String, String)> {
    let n = if thorough { 12000 } else { 1200 };
    let mut v = Vec::new();
    let mut fam: std::collections::BTreeMap<String, usize> = std::collections::BTreeMap::new();
    // exhaustive sweep of the collinear family: every direction × pattern × orientation × role, collinear (off = 0)
    for dir in 0..3 { for pattern in 0..N_COL_PATTERNS { for bits in 0..8u32 {
        let s = collinear_case(r, dir, pattern, bits & 1 != 0, bits & 2 != 0, bits & 4 != 0, 0);
        push_collinear(&mut v, dir, &s, 0.0);
    } } }
    for it in 0..n {
        let lat = it % 2 == 0;
        // orientation2d / corner_direction / is_point_in_triangle share triangles
        let (t0, t1) = (pt(r, lat), pt(r, lat));
        let t2 = if r.below(6) == 0 { lerp(&t0, &t1, par(r, lat)) } else { pt(r, lat) };
        v.push(("orientation2d".into(), format!("{} {} {} {}", d2::hp(&t0), d2::hp(&t1), d2::hp(&t2), hx(gen_eps(r)))));
        v.push(("triangle_orientation".into(), format!("{} {} {} {}", d2::hp(&t0), d2::hp(&t1), d2::hp(&t2), hx(gen_eps(r)))));
        v.push(("corner_direction".into(), format!("{} {} {}", d2::hp(&t0), d2::hp(&t1), d2::hp(&t2))));
        let tri = [t0, t1, t2];
        let q = gen_query(r, lat, &tri);
        v.push(("is_point_in_triangle".into(), format!("{} {} {} {}", d2::hp(&q), d2::hp(&t0), d2::hp(&t1), d2::hp(&t2))));
        // segments
        for _ in 0..3 {
            let s = gen_segments(r, lat);
            v.push(("segments_intersection2d".into(), format!("{} {} {} {} {}", d2::hp(&s[0]), d2::hp(&s[1]), d2::hp(&s[2]), d2::hp(&s[3]), hx(gen_eps(r)))));
        }
        // collinear / parallel structured family (always lattice)
        for _ in 0..2 {
            let dir = r.below(3) as usize;
            let off = if r.below(5) == 0 { *r.pick(&[-2, -1, 1, 3]) } else { 0 };
            let pat = r.below(N_COL_PATTERNS as u64) as usize; let (f1, f2, sw) = (r.bool(), r.bool(), r.bool());
            let s = collinear_case(r, dir, pat, f1, f2, sw, off);
            push_collinear(&mut v, dir, &s, gen_eps(r));
        }
        // polygons
        let p = gen_poly(r, lat);
        for _ in 0..2 {
            let q = gen_query(r, lat, &p);
            v.push(("point_in_poly2d".into(), format!("{} {}", d2::hp(&q), hpoly(&p))));
        }
        let c = if r.below(25) == 0 { gen_poly(r, lat) } else { gen_convex(r, lat) };
        for _ in 0..2 {
            let q = gen_query(r, lat, &c);
            v.push(("point_in_convex_poly2d".into(), format!("{} {}", d2::hp(&q), hpoly(&c))));
            // a convex polygon is also a polygon: both predicates on the same input
            v.push(("point_in_poly2d".into(), format!("{} {}", d2::hp(&q), hpoly(&c))));
        }
        // start-vertex independence: a point on the supporting line of edge k (k sweeps every edge index, 0 included),
        // beyond either end of the edge — outside the polygon, with an exactly zero perp product against that edge
        if c.len() >= 3 {
            let k = it % c.len(); let k2 = (k + 1) % c.len();
            let t = *r.pick(&[-1.0, -0.5, -0.25, 1.25, 1.5, 2.0]);
            let q = lerp(&c[k], &c[k2], t);
            v.push(("point_in_convex_poly2d".into(), format!("{} {}", d2::hp(&q), hpoly(&c))));
        }
        // convex ∩ convex
        for _ in 0..2 {
            let (p1, p2) = gen_convex_pair(r, lat);
            v.push(("convex_polygons_intersection_points".into(), format!("{} {}", hpoly(&p1), hpoly(&p2))));
        }
        // convex polygons sharing (part of) a vertical / horizontal edge line
        {
            let (p1, p2) = gen_axis_edge_pair(r);
            v.push(("convex_axis_edge_pair".into(), format!("{} {}", hpoly(&p1), hpoly(&p2))));
        }
        // Triangle::contains_point (2-D): interior / exterior / edge / vertex / edge line beyond the edge, both orientations
        {
            let (t, q, class) = gen_tri_query(r, lat);
            *fam.entry(format!("triangle_contains_point/{}", class)).or_insert(0) += 1;
            v.push(("triangle_contains_point".into(), format!("{} {} {} {}", d2::hp(&t[0]), d2::hp(&t[1]), d2::hp(&t[2]), d2::hp(&q))));
        }
        // convex ∩ convex, callback form (location pairs, in emission order) and point form, explicit collinearity epsilon
        {
            let (p1, p2) = if it % 3 == 0 { gen_axis_edge_pair(r) } else { gen_convex_pair(r, lat) };
            let e = *r.pick(&[0.0, f64::EPSILON * 100.0, f64::EPSILON * 100.0, 1.0e-9, 1.0e-6, 1.0e-4]);
            if p1.len() >= 1 && p2.len() >= 1 {
                let out = cvx_locs(&p1, &p2, e);
                let class = if out == "0" { "empty" } else if out.contains(" b ") { if out.contains(" p ") && out.contains(" q ") { "crossing+both-vertices" } else if out.contains(" p ") || out.contains(" q ") { "crossing+one-polygon-vertices" } else { "crossing-only" } }
                    else if out.contains(" p ") { "poly1-inside" } else { "poly2-inside" };
                *fam.entry(format!("convex_polygons_intersection/{}/eps={:e}", class, e)).or_insert(0) += 1;
                v.push(("convex_polygons_intersection".into(), format!("{} {} {}", hpoly(&p1), hpoly(&p2), hx(e))));
                v.push(("convex_points_with_tolerances".into(), format!("{} {} {}", hpoly(&p1), hpoly(&p2), hx(e))));
            }
        }
        // large convex polygons (the property's range is 3 to 64 vertices): many crossings, long walks against the loop cap
        if it % 4 == 1 {
            let (p1, p2, class) = gen_convex_large_pair(r, it % 8 == 1);
            *fam.entry(format!("convex_large_pair/{}/n1={}..{}", class, p1.len() / 16 * 16, p1.len() / 16 * 16 + 15)).or_insert(0) += 1;
            v.push(("convex_large_pair".into(), format!("{} {}", hpoly(&p1), hpoly(&p2))));
        }
        // non-convex ∩ non-convex (simple polygons)
        if it % 4 < 2 { gen_nc(r, lat, &mut v, it % 32 == 4 || it % 32 == 5); }
    }
    if std::env::var("VERIF_FAMILIES").is_ok() { for (k, c) in fam.iter() { eprintln!("C15 family {}: {}", k, c); } }
    v
}

/// a strictly convex polygon with `2 m` vertices (up to 64).  Lattice: the edge vectors are `m` distinct primitive integer
/// vectors of the upper half-plane and their negatives, sorted by angle (their cumulative sums are the vertices: exact,
/// strictly convex, counter-clockwise), scaled by 1/4.  Random: points of an ellipse at sorted random angles.
fn gen_convex_large(r: &mut Rng, lat: bool) -> Vec<P2> {
    let m = 4 + r.below(29) as usize; // 8 .. 64 vertices
    if lat {
        let gcd = |mut a: i64, mut b: i64| { a = a.abs(); b = b.abs(); while b != 0 { let t = a % b; a = b; b = t; } a };
        let mut dirs: Vec<(i64, i64)> = Vec::new();
        let mut guard = 0;
        while dirs.len() < m && guard < 10000 {
            guard += 1;
            let dx = r.below(15) as i64 - 7; let dy = r.below(8) as i64;
            if (dy == 0 && dx <= 0) || gcd(dx, dy) != 1 { continue; }
            if !dirs.contains(&(dx, dy)) { dirs.push((dx, dy)); }
        }
        // angle order in the upper half-plane: decreasing dx/dy slope, i.e. by cross product
        dirs.sort_by(|a, b| (b.0 * a.1 - a.0 * b.1).cmp(&0));
        let mut all = dirs.clone(); all.extend(dirs.iter().map(|d| (-d.0, -d.1)));
        let (ox, oy) = (r.below(17) as i64 - 8, r.below(17) as i64 - 8);
        let (mut x, mut y) = (ox, oy);
        let mut p = Vec::new();
        for d in all.iter() { p.push(P2::new(x as f64 * 0.25, y as f64 * 0.25)); x += d.0; y += d.1; }
        p
    } else {
        // the exact oracle is slow on large non-lattice polygons (long rationals): mostly up to 32 vertices, sometimes up to 64
        let m = if r.below(4) == 0 { m } else { 4 + m % 13 };
        let n = 2 * m;
        let mut ang: Vec<f64> = (0..n).map(|k| (k as f64 + r.uniform(0.1, 0.9)) * 6.283185307179586 / n as f64).collect();
        ang.sort_by(|a, b| a.partial_cmp(b).unwrap());
        let (rx, ry) = (r.logu(1.0, 1e2), r.logu(1.0, 1e2));
        let c = pt(r, false);
        ang.iter().map(|t| P2::new(c.x + rx * t.cos(), c.y + ry * t.sin())).collect()
    }
}
/// a large convex polygon against: a slightly shifted copy (many crossings), another large polygon around the same
/// centre, a scaled copy (containment, parallel edges), a small polygon, a far copy; random start vertex / orientation
fn gen_convex_large_pair(r: &mut Rng, lat: bool) -> (Vec<P2>, Vec<P2>, &'static str) {
    let p = gen_convex_large(r, lat);
    let c = centroid(&p); let c = P2::new(snap(c.x, lat), snap(c.y, lat));
    let (q, class): (Vec<P2>, &'static str) = match r.below(6) {
        0 | 1 => { let d = if lat { (r.lattice(4, 2), r.lattice(4, 2)) } else { (r.uniform(-1.0, 1.0), r.uniform(-1.0, 1.0)) }; (shift(&p, d.0, d.1), "shifted-copy") }
        2 => { let t = gen_convex_large(r, lat); let ct = centroid(&t); (shift(&t, snap(c.x - ct.x, lat), snap(c.y - ct.y, lat)), "concentric-other") }
        3 => { let k = *r.pick(&[0.5, 2.0, 0.75]); (p.iter().map(|v| P2::new(c.x + (v.x - c.x) * k, c.y + (v.y - c.y) * k)).collect(), "scaled-copy") }
        4 => { let t = gen_convex(r, lat); let ct = centroid(&t); (shift(&t, snap(c.x - ct.x, lat), snap(c.y - ct.y, lat)), "small-polygon-at-centre") }
        _ => (shift(&p, if lat { 64.0 } else { 1000.0 }, 0.0), "far-copy"),
    };
    let (p, q) = if r.bool() { (p, q) } else { (q, p) };
    (respin(r, p), respin(r, q), class)
}

/// a triangle and a query point of a chosen class (the class name carries the orientation of the triangle)
fn gen_tri_query(r: &mut Rng, lat: bool) -> ([P2; 3], P2, String) {
    let t = [pt(r, lat), pt(r, lat), pt(r, lat)];
    let area2 = (t[1].x - t[0].x) * (t[2].y - t[0].y) - (t[1].y - t[0].y) * (t[2].x - t[0].x);
    let ori = if area2 > 0.0 { "ccw" } else if area2 < 0.0 { "cw" } else { "degenerate" };
    let i = r.below(3) as usize; let j = (i + 1) % 3; let k = (i + 2) % 3;
    let (q, class) = match r.below(8) {
        0 | 1 => { let w = *r.pick(&[(0.25, 0.25, 0.5), (0.5, 0.25, 0.25), (0.125, 0.125, 0.75), (0.375, 0.5, 0.125)]);
                   (P2::new(t[i].x * w.0 + t[j].x * w.1 + t[k].x * w.2, t[i].y * w.0 + t[j].y * w.1 + t[k].y * w.2), "interior") }
        2 => (lerp(&t[i], &t[j], *r.pick(&[0.5, 0.25, 0.75])), "edge"),
        3 => (t[i], "vertex"),
        4 => (lerp(&t[i], &t[j], *r.pick(&[-0.5, 1.5, 2.0, -1.0])), "edge-line-beyond"),
        5 => (P2::new(t[i].x + t[j].x - t[k].x, t[i].y + t[j].y - t[k].y), "exterior-mirrored"),
        6 => (P2::new(t[i].x, pt(r, lat).y), "vertex-column"),
        _ => (pt(r, lat), "random"),
    };
    (t, q, format!("{}-{}", class, ori))
}

/// two convex polygons in a chosen relation (generic overlap, translate, containment, shared vertex / edge, identical, disjoint)
fn gen_convex_pair(r: &mut Rng, lat: bool) -> (Vec<P2>, Vec<P2>) {
    let p = gen_convex(r, lat);
    if p.len() < 3 { return (p.clone(), gen_convex(r, lat)); }
    let shift = |q: &[P2], dx: f64, dy: f64| -> Vec<P2> { q.iter().map(|v| P2::new(v.x + dx, v.y + dy)).collect() };
    let scale_about = |q: &[P2], c: &P2, k: f64| -> Vec<P2> { q.iter().map(|v| P2::new(c.x + (v.x - c.x) * k, c.y + (v.y - c.y) * k)).collect() };
    let q: Vec<P2> = match r.below(10) {
        0 | 1 | 2 => gen_convex(r, lat),                                            // unrelated (overlap / disjoint / containment by chance)
        3 => { let d = if lat { (r.lattice(8, 2), r.lattice(8, 2)) } else { (r.uniform(-5.0, 5.0), r.uniform(-5.0, 5.0)) }; shift(&p, d.0, d.1) } // translate: parallel edges
        4 => { let c = p[r.below(p.len() as u64) as usize]; scale_about(&p, &c, *r.pick(&[0.5, 0.25, 2.0])) }   // containment, shared vertex, collinear edges
        5 => { let i = r.below(p.len() as u64) as usize; let j = (i + 1) % p.len();                                // shares the edge (i,j), other side
               let (a, b) = (p[i], p[j]); let n = P2::new(b.y - a.y, -(b.x - a.x)); let k = *r.pick(&[0.5, 1.0, 2.0]);
               vec![b, a, P2::new((a.x + b.x) * 0.5 + n.x * k, (a.y + b.y) * 0.5 + n.y * k)] }
        6 => p.clone(),                                                             // identical
        7 => { let cx = p.iter().map(|v| v.x).sum::<f64>() / p.len() as f64; let cy = p.iter().map(|v| v.y).sum::<f64>() / p.len() as f64;
               let c = if lat { P2::new((cx * 4.0).round() / 4.0, (cy * 4.0).round() / 4.0) } else { P2::new(cx, cy) };
               scale_about(&p, &c, *r.pick(&[0.5, 2.0, 1.5])) }                       // concentric containment
        8 => { let i = r.below(p.len() as u64) as usize; let a = p[i];              // touches at the vertex p[i] only (or overlaps)
               let t = gen_convex(r, lat); if t.is_empty() { t } else { let b = t[0]; shift(&t, a.x - b.x, a.y - b.y) } }
        _ => { let w = if lat { 8.0 } else { 300.0 }; shift(&gen_convex(r, lat), w, 0.0) } // far apart
    };
    (p, respin(r, q))
}

// ---------------------------------------------------------------- non-convex generators (simple polygons, counter-clockwise)

fn shoelace(p: &[P2]) -> f64 { let n = p.len(); (0..n).map(|i| { let j = (i + 1) % n; p[i].x * p[j].y - p[j].x * p[i].y }).sum() }
fn make_ccw(mut p: Vec<P2>) -> Vec<P2> { if shoelace(&p) < 0.0 { p.reverse(); } p }
fn shift(q: &[P2], dx: f64, dy: f64) -> Vec<P2> { q.iter().map(|v| P2::new(v.x + dx, v.y + dy)).collect() }
/// exact quarter turns + mirror keep lattice coordinates exact
fn quarter(q: &[P2], k: u64) -> Vec<P2> {
    make_ccw(q.iter().map(|v| match k % 4 { 0 => P2::new(v.x, v.y), 1 => P2::new(-v.y, v.x), 2 => P2::new(-v.x, -v.y), _ => P2::new(v.y, -v.x) }).collect())
}
fn centroid(p: &[P2]) -> P2 { let n = p.len().max(1) as f64; P2::new(p.iter().map(|v| v.x).sum::<f64>() / n, p.iter().map(|v| v.y).sum::<f64>() / n) }
fn snap(x: f64, lat: bool) -> f64 { if lat { (x * 4.0).round() / 4.0 } else { x } }

/// star-shaped about `c`: strictly increasing angles, every gap below a half turn
fn gen_star(r: &mut Rng, lat: bool) -> (Vec<P2>, P2) {
    if lat {
        let dirs: [(f64, f64); 16] = [(1.0, 0.0), (2.0, 1.0), (1.0, 1.0), (1.0, 2.0), (0.0, 1.0), (-1.0, 2.0), (-1.0, 1.0), (-2.0, 1.0),
            (-1.0, 0.0), (-2.0, -1.0), (-1.0, -1.0), (-1.0, -2.0), (0.0, -1.0), (1.0, -2.0), (1.0, -1.0), (2.0, -1.0)];
        let c = P2::new(r.lattice(8, 1), r.lattice(8, 1));
        loop {
            let pick: Vec<usize> = (0..16).filter(|_| r.below(3) != 0).collect();
            if pick.len() < 3 { continue; }
            // gap between consecutive picked directions must stay below 8 sixteenths of a turn
            let ok = (0..pick.len()).all(|i| { let a = pick[i]; let b = pick[(i + 1) % pick.len()]; (b + 16 - a) % 16 < 8 && (pick.len() > 1) });
            if !ok { continue; }
            let v: Vec<P2> = pick.iter().map(|&d| { let k = (1 + r.below(8)) as f64 * 0.25; P2::new(c.x + dirs[d].0 * k, c.y + dirs[d].1 * k) }).collect();
            return (v, c);
        }
    } else {
        let n = 3 + r.below(9) as usize;
        let c = P2::new(r.uniform(-10.0, 10.0), r.uniform(-10.0, 10.0));
        let s = r.logu(0.1, 20.0);
        loop {
            let mut ang: Vec<f64> = (0..n).map(|_| r.uniform(0.0, 6.283185307179586)).collect();
            ang.sort_by(|a, b| a.partial_cmp(b).unwrap());
            let ok = (0..n).all(|i| { let g = if i + 1 < n { ang[i + 1] - ang[i] } else { ang[0] + 6.283185307179586 - ang[i] }; g > 0.05 && g < 3.0 });
            if !ok { continue; }
            let v: Vec<P2> = ang.iter().map(|t| { let k = s * r.uniform(0.3, 1.0); P2::new(c.x + k * t.cos(), c.y + k * t.sin()) }).collect();
            return (v, c);
        }
    }
}
/// comb: a spine `[0, W] x [h, h + s]` with `teeth` teeth of width `w` hanging down to `y = 0` (tooth `t` spans
/// `x in [t (w + g), t (w + g) + w]`); returns the polygon and `(w, g, h, s, teeth)`
fn gen_comb(r: &mut Rng, lat: bool) -> (Vec<P2>, (f64, f64, f64, f64, usize)) {
    let teeth = 2 + r.below(3) as usize;
    let (w, g, h, s) = if lat { ((1 + r.below(2)) as f64 * 0.5, (1 + r.below(3)) as f64 * 0.5, (2 + r.below(3)) as f64 * 0.5, (1 + r.below(2)) as f64 * 0.5) }
                       else { (r.uniform(0.3, 1.5), r.uniform(0.3, 1.5), r.uniform(1.0, 3.0), r.uniform(0.3, 1.0)) };
    let mut v = Vec::new();
    for t in 0..teeth {
        let x0 = t as f64 * (w + g); let x1 = x0 + w;
        v.push(P2::new(x0, 0.0)); v.push(P2::new(x1, 0.0));
        if t + 1 < teeth { v.push(P2::new(x1, h)); v.push(P2::new(x1 + g, h)); }
    }
    let wtot = (teeth - 1) as f64 * (w + g) + w;
    v.push(P2::new(wtot, h + s)); v.push(P2::new(0.0, h + s));
    (v, (w, g, h, s, teeth))
}
/// a polygon that crosses every tooth of the comb: an axis slab, a slanted strip or a wedge
fn gen_cutter(r: &mut Rng, lat: bool, c: (f64, f64, f64, f64, usize)) -> Vec<P2> {
    let (w, g, h, _s, teeth) = c;
    let wtot = (teeth - 1) as f64 * (w + g) + w;
    let m = if lat { 0.25 * (1 + 2 * r.below(2)) as f64 } else { r.uniform(0.1, 0.9) };      // overhang on the sides
    let (y0, y1) = if lat { let a = 0.25 * (1 + r.below(3)) as f64; (a - if r.below(3) == 0 { 0.75 } else { 0.0 }, a + 0.25 * (1 + r.below(2)) as f64) }
                   else { let a = r.uniform(-0.5, 0.5) * h; (a, a + r.uniform(0.1, 0.6) * h) };
    match r.below(4) {
        0 | 1 => vec![P2::new(-m, y0), P2::new(wtot + m, y0), P2::new(wtot + m, y1), P2::new(-m, y1)],
        2 => { let d = if lat { 0.125 } else { r.uniform(0.01, 0.2) * h };                        // slanted strip
               vec![P2::new(-m, y0), P2::new(wtot + m, y0 + d), P2::new(wtot + m, y1 + d), P2::new(-m, y1)] }
        _ => vec![P2::new(-m, y0.min(0.25 * h) - 0.5 * h), P2::new(wtot + m, y0), P2::new(wtot + m + m, y1)],   // wedge (triangle)
    }
}
fn gen_simple(r: &mut Rng, lat: bool) -> Vec<P2> {
    let p = match r.below(8) {
        0 | 1 | 2 => gen_star(r, lat).0,
        3 => { let (c, _) = gen_comb(r, lat); let k = r.below(4); quarter(&c, k) }
        4 => make_ccw(gen_convex(r, lat)),
        5 => { // the staple and the zig-zag of the reviewer's demo, scaled
               let k = if lat { *r.pick(&[0.5, 1.0]) } else { r.uniform(0.3, 2.0) };
               let base: &[(f64, f64)] = if r.bool() { &[(2.0, 1.0), (3.0, 1.0), (3.0, 3.0), (6.0, 3.0), (6.0, 1.0), (7.0, 1.0), (7.0, 4.0), (2.0, 4.0)] }
                                         else { &[(2.0, 0.5), (4.0, 3.0), (6.0, 1.0), (8.0, 5.0), (1.0, 5.0)] };
               base.iter().map(|q| P2::new(q.0 * k, q.1 * k)).collect() }
        6 => { // L / U / T shapes on the half-integer grid
               let k = if lat { 0.5 } else { r.uniform(0.3, 2.0) };
               let base: &[(f64, f64)] = match r.below(3) {
                   0 => &[(0.0, 0.0), (4.0, 0.0), (4.0, 1.0), (1.0, 1.0), (1.0, 4.0), (0.0, 4.0)],
                   1 => &[(0.0, 0.0), (5.0, 0.0), (5.0, 4.0), (4.0, 4.0), (4.0, 1.0), (1.0, 1.0), (1.0, 4.0), (0.0, 4.0)],
                   _ => &[(2.0, 0.0), (3.0, 0.0), (3.0, 3.0), (5.0, 3.0), (5.0, 4.0), (0.0, 4.0), (0.0, 3.0), (2.0, 3.0)] };
               let q: Vec<P2> = base.iter().map(|q| P2::new(q.0 * k, q.1 * k)).collect(); let t = r.below(4); quarter(&q, t) }
        _ => { let (a, b) = (pt(r, lat), pt(r, lat)); let c = pt(r, lat); make_ccw(vec![a, b, c]) }   // may be degenerate: is_simple() decides the protocol name
    };
    if p.len() < 3 { return vec![P2::new(0.0, 0.0), P2::new(1.0, 0.0), P2::new(0.0, 1.0)]; }
    p
}
/// exact decision (lattice coordinates only) of "a vertex of one polygon lies on the boundary of the other"
fn vob_exact(p1: &[P2], p2: &[P2]) -> Option<bool> {
    let sc = 4096.0;
    let conv = |p: &[P2]| -> Option<Vec<(i128, i128)>> { p.iter().map(|v| { let (x, y) = (v.x * sc, v.y * sc);
        if x.fract() == 0.0 && y.fract() == 0.0 && x.abs() < 1e12 && y.abs() < 1e12 { Some((x as i128, y as i128)) } else { None } }).collect() };
    let (a, b) = (conv(p1)?, conv(p2)?);
    let on = |p: &[(i128, i128)], q: &[(i128, i128)]| p.iter().any(|v| (0..q.len()).any(|i| { let (s, t) = (q[i], q[(i + 1) % q.len()]);
        (t.0 - s.0) * (v.1 - s.1) - (t.1 - s.1) * (v.0 - s.0) == 0 && s.0.min(t.0) <= v.0 && v.0 <= s.0.max(t.0) && s.1.min(t.1) <= v.1 && v.1 <= s.1.max(t.1) }));
    Some(on(&a, &b) || on(&b, &a))
}
/// simplicity test in f64 (exact on lattice coordinates, where every cross product is exact): no zero-length edge, adjacent
/// edges do not fold back, non-adjacent edges have no common point
fn is_simple(p: &[P2]) -> bool {
    let n = p.len();
    if n < 3 { return false; }
    let cr = |a: &P2, b: &P2, c: &P2| (b.x - a.x) * (c.y - a.y) - (b.y - a.y) * (c.x - a.x);
    let on = |a: &P2, b: &P2, c: &P2| cr(a, b, c) == 0.0 && a.x.min(b.x) <= c.x && c.x <= a.x.max(b.x) && a.y.min(b.y) <= c.y && c.y <= a.y.max(b.y);
    let meet = |a: &P2, b: &P2, c: &P2, d: &P2| {
        let (d1, d2, d3, d4) = (cr(a, b, c), cr(a, b, d), cr(c, d, a), cr(c, d, b));
        (((d1 > 0.0 && d2 < 0.0) || (d1 < 0.0 && d2 > 0.0)) && ((d3 > 0.0 && d4 < 0.0) || (d3 < 0.0 && d4 > 0.0)))
            || on(a, b, c) || on(a, b, d) || on(c, d, a) || on(c, d, b) };
    for i in 0..n {
        let (a, b) = (&p[i], &p[(i + 1) % n]);
        if a.x == b.x && a.y == b.y { return false; }
        for j in (i + 1)..n {
            let (c, d) = (&p[j], &p[(j + 1) % n]);
            if j == i + 1 || (i == 0 && j == n - 1) {
                // adjacent: share one vertex; must not be collinear and pointing back
                let (u, v, w) = if j == i + 1 { (a, b, d) } else { (c, d, b) };
                if cr(u, v, w) == 0.0 && (v.x - u.x) * (w.x - v.x) + (v.y - u.y) * (w.y - v.y) < 0.0 { return false; }
            } else if meet(a, b, c, d) { return false; }
        }
    }
    true
}
/// a pair of simple counter-clockwise polygons in a chosen relation; the flag says "touching by construction"
fn gen_nc_pair(r: &mut Rng, lat: bool) -> (Vec<P2>, Vec<P2>, bool) {
    let fam = r.below(24);
    let (p, q, touching): (Vec<P2>, Vec<P2>, bool) = match fam {
        0 | 1 | 2 | 3 | 16 | 17 | 18 => { // independent shapes brought over each other
            let p = gen_simple(r, lat); let q = gen_simple(r, lat);
            let (cp, cq) = (centroid(&p), centroid(&q));
            let j = if lat { (r.lattice(6, 2), r.lattice(6, 2)) } else { (r.uniform(-1.0, 1.0), r.uniform(-1.0, 1.0)) };
            let q = shift(&q, snap(cp.x - cq.x, lat) + j.0, snap(cp.y - cq.y, lat) + j.1);
            (p, q, false) }
        4 | 5 | 6 | 19 | 20 => { // one edge of the cutter crosses several teeth: several components
            let (c, dims) = gen_comb(r, lat); let k = gen_cutter(r, lat, dims);
            let t = r.below(4); let o = if lat { (r.lattice(4, 1), r.lattice(4, 1)) } else { (r.uniform(-5.0, 5.0), r.uniform(-5.0, 5.0)) };
            // rotate both by the same quarter turn (the pair keeps its relation)
            let both = |x: &[P2]| -> Vec<P2> { shift(&x.iter().map(|v| match t { 0 => P2::new(v.x, v.y), 1 => P2::new(-v.y, v.x), 2 => P2::new(-v.x, -v.y), _ => P2::new(v.y, -v.x) }).collect::<Vec<_>>(), o.0, o.1) };
            (make_ccw(both(&c)), make_ccw(both(&k)), false) }
        7 | 21 => { // two combs, one turned: a grid of components
            let (c1, _) = gen_comb(r, lat); let (c2, _) = gen_comb(r, lat);
            let c2 = quarter(&c2, 1 + 2 * r.below(2));
            let (a, b) = (centroid(&c1), centroid(&c2));
            let j = if lat { 0.125 } else { r.uniform(0.0, 0.1) };
            (c1, shift(&c2, snap(a.x - b.x, lat) + j, snap(a.y - b.y, lat) + j), false) }
        8 | 22 => { // nested: a scaled copy about the star centre (strictly inside)
            let (p, c) = gen_star(r, lat); let k = *r.pick(&[0.5, 0.25, 0.75]);
            let q: Vec<P2> = p.iter().map(|v| P2::new(c.x + (v.x - c.x) * k, c.y + (v.y - c.y) * k)).collect();
            (p, q, false) }
        9 | 23 => { // disjoint
            let p = gen_simple(r, lat); let q = gen_simple(r, lat);
            let w = if lat { 64.0 } else { 500.0 };
            (p, shift(&q, w, if r.bool() { 0.0 } else { w }), false) }
        10 => { let p = gen_simple(r, lat); (p.clone(), p, true) }                                   // identical
        11 => { // shared vertex
            let p = gen_simple(r, lat); let q = gen_simple(r, lat);
            let a = p[r.below(p.len() as u64) as usize]; let b = q[r.below(q.len() as u64) as usize];
            (p, shift(&q, a.x - b.x, a.y - b.y), true) }
        12 => { // a vertex of q on the middle of an edge of p (from inside or outside, whatever the shapes give)
            let p = gen_simple(r, lat); let q = gen_simple(r, lat);
            let i = r.below(p.len() as u64) as usize; let a = lerp(&p[i], &p[(i + 1) % p.len()], 0.5); let b = q[r.below(q.len() as u64) as usize];
            (p, shift(&q, a.x - b.x, a.y - b.y), true) }
        13 => { // a triangle glued on an edge of p (shared edge), outside or inside
            let p = gen_simple(r, lat); let i = r.below(p.len() as u64) as usize; let (a, b) = (p[i], p[(i + 1) % p.len()]);
            let k = *r.pick(&[0.25, 0.5, 1.0]) * if r.bool() { 1.0 } else { -1.0 };
            let n = P2::new((b.y - a.y) * k, -(b.x - a.x) * k);
            (p.clone(), make_ccw(vec![a, b, P2::new((a.x + b.x) * 0.5 + n.x, (a.y + b.y) * 0.5 + n.y)]), true) }
        14 => { // collinear partial overlap of two edges: slide a copy of an edge-glued triangle along the edge
            let p = gen_simple(r, lat); let i = r.below(p.len() as u64) as usize; let (a, b) = (p[i], p[(i + 1) % p.len()]);
            let t = *r.pick(&[0.25, 0.5, -0.25]); let k = if r.bool() { 0.5 } else { -0.5 };
            let (a2, b2) = (lerp(&a, &b, t), lerp(&a, &b, t + 1.0));
            let n = P2::new((b.y - a.y) * k, -(b.x - a.x) * k);
            (p.clone(), make_ccw(vec![a2, b2, P2::new((a2.x + b2.x) * 0.5 + n.x, (a2.y + b2.y) * 0.5 + n.y)]), true) }
        _ => { // a small triangle with one vertex on the boundary of a square, inside or outside (the reviewer's example)
            let s = if lat { 4.0 } else { r.uniform(1.0, 8.0) };
            let sq = vec![P2::new(0.0, 0.0), P2::new(s, 0.0), P2::new(s, s), P2::new(0.0, s)];
            let x = s * *r.pick(&[0.25, 0.5, 0.75]); let d = if r.bool() { 1.0 } else { -1.0 };
            let tri = make_ccw(vec![P2::new(x, 0.0), P2::new(x + s * 0.25, d * s * 0.5), P2::new(x - s * 0.25, d * s * 0.5)]);
            let t = r.below(4); (quarter(&sq, t), quarter(&tri, t), true) }
    };
    let (p, q) = if r.bool() { (p, q) } else { (q, p) };
    (p, q, touching)
}
fn rot_start(r: &mut Rng, mut p: Vec<P2>) -> Vec<P2> { if !p.is_empty() { let k = r.below(p.len() as u64) as usize; p.rotate_left(k); } p }

/// the non-convex cases of one generator iteration
fn gen_nc(r: &mut Rng, lat: bool, v: &mut Vec<(String, String)>, all_rotations: bool) {
    let (p, q, touching) = gen_nc_pair(r, lat);
    // the compared names are reserved for simple polygons in general position (where the output is a function of the input)
    let touching = touching || vob_exact(&p, &q).unwrap_or(false) || !is_simple(&p) || !is_simple(&q);
    let (n_pts, n_loc) = if touching { ("polygons_touching_points", "polygons_touching") } else { ("polygons_intersection_points", "polygons_intersection") };
    let (p1, q1) = (rot_start(r, p.clone()), rot_start(r, q.clone()));
    v.push((n_pts.into(), format!("{} {}", hpoly(&p1), hpoly(&q1))));
    v.push((n_loc.into(), format!("{} {}", hpoly(&p1), hpoly(&q1))));
    if all_rotations {
        // every starting vertex of the first polygon against one of the second, and the other way round
        for k in 1..p.len() { let mut pr = p.clone(); pr.rotate_left(k); v.push((n_pts.into(), format!("{} {}", hpoly(&pr), hpoly(&q)))); }
        for k in 1..q.len() { let mut qr = q.clone(); qr.rotate_left(k); v.push((n_pts.into(), format!("{} {}", hpoly(&p), hpoly(&qr)))); }
    }
    if r.below(8) == 0 {
        // clockwise input (outside the documented contract: correspondence only)
        let (mut pr, mut qr) = (p.clone(), q.clone());
        match r.below(3) { 0 => pr.reverse(), 1 => qr.reverse(), _ => { pr.reverse(); qr.reverse(); } }
        v.push((n_pts.into(), format!("{} {}", hpoly(&pr), hpoly(&qr))));
    }
}
