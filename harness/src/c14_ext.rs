//! C14 extension (round fu4)
//!   css3 a1 b1 a2 b2            `query::details::clip_segment_segment` (3-D) → `none` | `some (p1 p2 f1 f2){2}`
//!   css2 a1 b1 a2 b2            the 2-D instance of the same function (parry2d)
//!   cc3  n1 (ty p pose)* n2 (ty p pose)* pred nposes pose*
//!                               Compound-vs-Compound history through `DefaultQueryDispatcher::contact_manifolds`
//!                               (→ `contact_manifolds_composite_shape_composite_shape`), manifolds + workspace reused;
//!                               observed: the part boxes, and per call `flipped`, the outer query box, the visited outer leaves
//!                               with their inner query boxes and visited inner leaves, and the manifolds of a FRESH computation at that pose
//!   cap3 pos12 a1 b1 r1 a2 b2 r2 pred manifold   3-D `contact_manifold_capsule_capsule` called directly, arbitrary axes
//!   hfc2 <hf2 args, other shape = capsule>   2-D HeightField-vs-capsule history (`contact_manifolds_heightfield_shape`) with user-data
//!                               tags; observed per call: the cells `map_elements_in_local_aabb` reports (id, a, b)
//!   ee3 pos12 e1a e1b e2a e2b sep flipped   `PolygonalFeature::contacts` on two 2-vertex features (edge/edge): npts (p1 p2 dist)*
//!   pfmg3 kind a b pred pos12  `contact_manifold_pfm_pfm` on a fresh manifold; observed: the GJK answer and the two support features
//!                               (when both are edges) → the manifold
//!   pfm3 kind a b pred nposes pose*   pose history of a pfm/pfm pair whose support features are EDGES (capsule / cylinder /
//!                               cone / segment sides): one-shot reference ;; manifold after every call (oracle only)
use super::*;

fn fclip3(c: &(d3::Point<f64>, d3::Point<f64>, usize, usize)) -> String { format!("{} {} {} {}", d3::fp(&c.0), d3::fp(&c.1), c.2, c.3) }
fn fclip2(c: &(d2::Point<f64>, d2::Point<f64>, usize, usize)) -> String { format!("{} {} {} {}", d2::fp(&c.0), d2::fp(&c.1), c.2, c.3) }

fn cc3(a: &mut Args) -> String {
    use crate::p3::query::{DefaultQueryDispatcher, PersistentQueryDispatcher};
    use crate::p3::query::visitors::BoundingVolumeIntersectionsVisitor;
    use crate::p3::bounding_volume::BoundingVolume;
    use crate::p3::shape::*;
    let mut obs = String::new();
    let mut comps: Vec<Compound> = Vec::new();
    for _ in 0..2 {
        let np = a.u();
        let mut parts = Vec::new();
        for _ in 0..np {
            let ty = a.u(); let p = d3::v(a); let pose = d3::iso(a);
            let sh = if ty == 0 { SharedShape::ball(p.x) } else { SharedShape::cuboid(p.x, p.y, p.z) };
            parts.push((pose, sh));
        }
        let c = Compound::new(parts);
        for bb in c.aabbs() { obs += &format!("{} {} ", d3::fp(&bb.mins), d3::fp(&bb.maxs)); }
        comps.push(c);
    }
    let (c1, c2) = (&comps[0], &comps[1]);
    let pred = a.f();
    let n = a.u();
    let poses: Vec<_> = (0..n).map(|_| d3::iso(a)).collect();
    let mut manifolds: Vec<M3> = Vec::new();
    let mut ws = None;
    let mut out = String::new();
    let leaves_of = |q: &crate::p3::partitioning::Qbvh<u32>, bx: &crate::p3::bounding_volume::Aabb| -> Vec<u32> {
        let mut leaves: Vec<u32> = Vec::new();
        { let mut cb = |l: &u32| { leaves.push(*l); true };
          let mut vis = BoundingVolumeIntersectionsVisitor::new(bx, &mut cb);
          let _ = q.traverse_depth_first(&mut vis); }
        leaves
    };
    for (k, p) in poses.iter().enumerate() {
        // the broad phase the implementation must perform (recomputed here from the public API, outside the function under test)
        let r1 = c1.qbvh().root_aabb(); let r2 = c2.qbvh().root_aabb();
        let flipped = r1.half_extents().norm_squared() < r2.half_extents().norm_squared();
        let (co, ci, p12, p21) = if flipped { (c2, c1, p.inverse(), *p) } else { (c1, c2, *p, p.inverse()) };
        let root_box = ci.qbvh().root_aabb().transform_by(&p12).loosened(pred);
        let outer = leaves_of(co.qbvh(), &root_box);
        obs += &format!("{} {} {} {} ", b(flipped), d3::fp(&root_box.mins), d3::fp(&root_box.maxs), outer.len());
        for l1 in &outer {
            let (pose1, sh1) = &co.shapes()[*l1 as usize];
            let pos211 = p21 * pose1;
            let bx = sh1.compute_aabb(&pos211).loosened(pred);
            let inner = leaves_of(ci.qbvh(), &bx);
            obs += &format!("{} {} {} {} ", l1, d3::fp(&bx.mins), d3::fp(&bx.maxs), inner.len());
            for l2 in &inner { obs += &format!("{} ", l2); }
        }
        // the reference of the property: a FRESH computation at this pose (new manifold vector, no workspace)
        {
            let mut fm: Vec<M3> = Vec::new(); let mut fws = None;
            if DefaultQueryDispatcher.contact_manifolds(p, c1, c2, pred, &mut fm, &mut fws).is_err() { return "unsupported".into(); }
            obs += &format!("{} ", fm.len());
            for m in &fm { obs += &format!("{} {} {} ", m.subshape1, m.subshape2, fman3(m)); }
        }
        let r = DefaultQueryDispatcher.contact_manifolds(p, c1, c2, pred, &mut manifolds, &mut ws);
        if r.is_err() { return "unsupported".into(); }
        out += &format!("{} ", manifolds.len());
        for (i, m) in manifolds.iter_mut().enumerate() {
            let fp = |o: &Option<d3::Isometry<f64>>| match o { Some(x) => format!("1 {}", d3::fiso(x)), None => "0".to_string() };
            out += &format!("{} {} {} {} {} {} ", m.subshape1, m.subshape2, fp(&m.subshape_pos1), fp(&m.subshape_pos2), m.data, fman3(m));
            m.data = (1000 * (k + 1) + i + 1) as u32;      // re-tag: user data must follow the pair, not the slot
        }
    }
    format!("{};; {}", obs, out.trim_end())
}

/// kinds: 0 capsule/cylinder · 1 cylinder/capsule · 2 cylinder/cylinder · 3 segment/cylinder · 4 cylinder/segment ·
/// 5 capsule/cone · 6 cone/capsule · 7 segment/capsule · 8 capsule/segment.  Shape parameters: capsule_y (hh = .x, r = .y),
/// cylinder / cone (hh = .x, r = .y), segment along y (hh = .x).
pub fn shapes_pfm3(kind: usize, a: d3::Vector<f64>, b: d3::Vector<f64>) -> (Box<dyn Shape3>, Box<dyn Shape3>) {
    use crate::p3::shape::*;
    let ca = |p: d3::Vector<f64>| -> Box<dyn Shape3> { Box::new(Capsule::new_y(p.x, p.y)) };
    let cy = |p: d3::Vector<f64>| -> Box<dyn Shape3> { Box::new(Cylinder::new(p.x, p.y)) };
    let co = |p: d3::Vector<f64>| -> Box<dyn Shape3> { Box::new(Cone::new(p.x, p.y)) };
    let sg = |p: d3::Vector<f64>| -> Box<dyn Shape3> { Box::new(Segment::new(d3::Point::new(0.0, -p.x, 0.0), d3::Point::new(0.0, p.x, 0.0))) };
    match kind {
        0 => (ca(a), cy(b)), 1 => (cy(a), ca(b)), 2 => (cy(a), cy(b)), 3 => (sg(a), cy(b)), 4 => (cy(a), sg(b)),
        5 => (ca(a), co(b)), 6 => (co(a), ca(b)), 7 => (sg(a), ca(b)), _ => (ca(a), sg(b)),
    }
}

fn pfm3(a: &mut Args) -> String {
    use crate::p3::query::{DefaultQueryDispatcher, PersistentQueryDispatcher, QueryDispatcher};
    let kind = a.u(); let sa = d3::v(a); let sb = d3::v(a); let pred = a.f();
    let n = a.u();
    let poses: Vec<_> = (0..n).map(|_| d3::iso(a)).collect();
    let (s1, s2) = shapes_pfm3(kind, sa, sb);
    let mut manifolds: Vec<M3> = Vec::new();
    let mut ws = None;
    let mut obs = String::new();
    let mut out = String::new();
    for p in &poses {
        match DefaultQueryDispatcher.contact(p, &*s1, &*s2, pred) { Ok(Some(c)) => obs += &format!("1 {} ", ff(c.dist)), _ => obs += "0 0000000000000000 " }
        let r = DefaultQueryDispatcher.contact_manifolds(p, &*s1, &*s2, pred, &mut manifolds, &mut ws);
        if r.is_err() { return "unsupported".into(); }
        if manifolds.len() != 1 { return format!("nmanifolds {}", manifolds.len()); }
        if !out.is_empty() { out.push(' '); }
        out += &fman3(&manifolds[0]);
    }
    format!("{};; {}", obs, out)
}

/// `hfc2`: same arguments as `hf2`; the other shape must be the capsule (`s2type = 1`)
fn hfc2(a: &mut Args) -> String {
    use crate::p2::query::{DefaultQueryDispatcher, PersistentQueryDispatcher};
    use crate::p2::bounding_volume::BoundingVolume;
    use crate::p2::shape::*;
    let flipped = a.b();
    let nh = a.u();
    let hs: Vec<f64> = (0..nh).map(|_| a.f()).collect();
    let scale = d2::v(a);
    let mut hf = HeightField::new(d2::na::DVector::from_vec(hs), scale);
    let nr = a.u();
    for _ in 0..nr { let i = a.u(); if i < hf.num_cells() { hf.set_segment_removed(i, true); } }
    let ty2 = a.u(); let q = d2::v(a);
    if ty2 != 1 { return "unsupported".into(); }
    let other = Capsule::new_y(q.x, q.y);
    let pred = a.f();
    let n = a.u();
    let poses: Vec<_> = (0..n).map(|_| d2::iso(a)).collect();
    let mut obs = format!("{} ", hf.num_cells());
    for i in 0..hf.num_cells() {
        match hf.segment_at(i) { Some(sg) => obs += &format!("1 {} {} ", d2::fp(&sg.a), d2::fp(&sg.b)), None => obs += "0 " }
    }
    let mut manifolds: Vec<M2> = Vec::new();
    let mut ws = None;
    let mut out = String::new();
    for (k, p) in poses.iter().enumerate() {
        // the cells the implementation must visit: those reported for the capsule's prediction-loosened box in the field's frame
        let pos_in_hf = if flipped { p.inverse() } else { *p };
        let bx = other.compute_aabb(&pos_in_hf).loosened(pred);
        let mut vis: Vec<(u32, d2::Point<f64>, d2::Point<f64>)> = Vec::new();
        hf.map_elements_in_local_aabb(&bx, &mut |i, sg| vis.push((i, sg.a, sg.b)));
        obs += &format!("{} ", vis.len());
        for (i, sa, sb) in &vis { obs += &format!("{} {} {} ", i, d2::fp(sa), d2::fp(sb)); }
        let r = if flipped { DefaultQueryDispatcher.contact_manifolds(p, &other, &hf, pred, &mut manifolds, &mut ws) }
                else { DefaultQueryDispatcher.contact_manifolds(p, &hf, &other, pred, &mut manifolds, &mut ws) };
        if r.is_err() { return "unsupported".into(); }
        out += &format!("{} ", manifolds.len());
        for (i, m) in manifolds.iter_mut().enumerate() {
            out += &format!("{} {} {} {} ", m.subshape1, m.subshape2, m.data, fman2(m));
            m.data = (1000 * (k + 1) + i + 1) as u32;
        }
    }
    format!("{};; {}", obs, out.trim_end())
}

/// one fresh `contact_manifold_pfm_pfm` call with the GJK answer and the support features observed from the public API
fn pfmg3(a: &mut Args) -> String {
    use crate::p3::query::gjk::{GJKResult, VoronoiSimplex};
    use crate::p3::shape::PolygonalFeature;
    let kind = a.u(); let sa = d3::v(a); let sb = d3::v(a); let pred = a.f();
    let p = d3::iso(a);
    let (s1, s2) = shapes_pfm3(kind, sa, sb);
    let (pfm1, br1) = s1.as_polygonal_feature_map().unwrap();
    let (pfm2, br2) = s2.as_polygonal_feature_map().unwrap();
    let gjk = crate::p3::query::details::contact_support_map_support_map_with_params(&p, pfm1, pfm2, pred + br1 + br2, &mut VoronoiSimplex::new(), None);
    let obs = match gjk {
        GJKResult::ClosestPoints(p1, p2_1, dir) => {
            let n2 = p.inverse_transform_unit_vector(&-dir);
            let mut f1 = PolygonalFeature::default(); let mut f2 = PolygonalFeature::default();
            pfm1.local_support_feature(&dir, &mut f1);
            pfm2.local_support_feature(&n2, &mut f2);
            if f1.num_vertices == 2 && f2.num_vertices == 2 {
                format!("1 {} {} {} {} {} {} {} {} {}", d3::fp(&p1), d3::fp(&p2_1), d3::fv(&dir), d3::fp(&f1.vertices[0]), d3::fp(&f1.vertices[1]),
                    d3::fp(&f2.vertices[0]), d3::fp(&f2.vertices[1]), ff(br1), ff(br2))
            } else { "0".into() }
        }
        _ => "0".into(),
    };
    if obs == "0" { return "0 ;; skip".into(); }
    let mut m = M3::new();
    crate::p3::query::details::contact_manifold_pfm_pfm(&p, pfm1, br1, None, pfm2, br2, None, pred, &mut m);
    format!("{} ;; {}", obs, fman3(&m))
}

pub fn exec(func: &str, a: &mut Args) -> String {
    match func {
        "css3" => { let a1 = d3::p(a); let b1 = d3::p(a); let a2 = d3::p(a); let b2 = d3::p(a);
            match crate::p3::query::details::clip_segment_segment((a1, b1), (a2, b2)) {
                None => "none".into(),
                Some((ca, cb)) => format!("some {} {}", fclip3(&ca), fclip3(&cb)) } }
        "css2" => { let a1 = d2::p(a); let b1 = d2::p(a); let a2 = d2::p(a); let b2 = d2::p(a);
            match crate::p2::query::details::clip_segment_segment((a1, b1), (a2, b2)) {
                None => "none".into(),
                Some((ca, cb)) => format!("some {} {}", fclip2(&ca), fclip2(&cb)) } }
        "cc3" => cc3(a),
        "pfmg3" => pfmg3(a),
        "hfc2" => hfc2(a),
        "ee3" => { use crate::p3::shape::{PolygonalFeature, Segment};
            let p = d3::iso(a);
            let f1 = PolygonalFeature::from(Segment::new(d3::p(a), d3::p(a)));
            let f2 = PolygonalFeature::from(Segment::new(d3::p(a), d3::p(a)));
            let sep = d3::v(a); let flipped = a.b();
            let sep2 = p.inverse_transform_vector(&-sep);
            let mut m = M3::new();
            PolygonalFeature::contacts(&p, &p.inverse(), &sep, &sep2, &f1, &f2, &mut m, flipped);
            let mut o = format!("{}", m.points.len());
            for c in &m.points { o += &format!(" {} {} {}", d3::fp(&c.local_p1), d3::fp(&c.local_p2), ff(c.dist)); }
            o }
        "pfm3" => pfm3(a),
        "cap3" => { use crate::p3::shape::Capsule;
            let p = d3::iso(a);
            let a1 = d3::p(a); let b1 = d3::p(a); let r1 = a.f();
            let a2 = d3::p(a); let b2 = d3::p(a); let r2 = a.f();
            let pred = a.f();
            let mut m = man3(a);
            crate::p3::query::details::contact_manifold_capsule_capsule(&p, &Capsule::new(a1, b1, r1), &Capsule::new(a2, b2, r2), pred, &mut m);
            fman3(&m) }
        _ => "nofn".into(),
    }
}

// ---------------------------------------------------------------- generators

/// two segments: nearly parallel / anti-parallel / tilted / crossed, unequal lengths, every lengthwise overlap pattern
fn gen_css3(r: &mut Rng, lat: bool, fam: usize) -> (String, String) {
    // canonical frame: segment 1 along x from 0 to l1; segment 2 = [s, s + l2] along x (or reversed), offset by `off`, tilted
    let l1 = if lat { *r.pick(&[0.5, 1.0, 2.0, 4.0]) } else { r.logu(0.05, 8.0) };
    let l2 = if lat { *r.pick(&[0.25, 0.5, 1.0, 3.0, 8.0]) } else { r.logu(0.05, 8.0) };
    // start of segment 2's range relative to segment 1: before / touching / partial low / inside / partial high / covering / after
    let s = if lat { *r.pick(&[-l2 - 0.5, -l2, -l2 * 0.5, 0.0, l1 * 0.25, l1 - l2, l1 - l2 * 0.5, l1, l1 + 0.5, -0.25]) }
            else { r.uniform(-l2 - 0.3 * l1, l1 + 0.3 * l1) };
    let off = if lat { d3::Vector::new(0.0, *r.pick(&[0.0, 0.25, -0.5, 1.0]), *r.pick(&[0.0, 0.5, -0.25])) }
              else { d3::Vector::new(0.0, r.uniform(-1.0, 1.0), r.uniform(-1.0, 1.0)) };
    let dir = match fam {
        0 => d3::Vector::new(1.0, 0.0, 0.0),                                             // parallel
        1 => d3::Vector::new(-1.0, 0.0, 0.0),                                            // anti-parallel
        2 => { let t = if lat { *r.pick(&[0.125, -0.25, 0.375]) } else { r.uniform(-0.4, 0.4) };        // within 22.5°
               let sgn = if r.bool() { 1.0 } else { -1.0 };
               d3::Vector::new(sgn, t, if lat { 0.0 } else { r.uniform(-0.1, 0.1) }) }
        3 => unit3(r, lat),                                                              // anything, incl. perpendicular
        _ => d3::Vector::new(if r.bool() { 1.0 } else { -1.0 }, if lat { 0.0 } else { r.uniform(-1e-9, 1e-9) }, 0.0),   // parallel up to noise
    };
    let (a2c, b2c) = if dir.x >= 0.0 { let a = d3::Vector::new(s, 0.0, 0.0) + off; (a, a + dir * (l2 / dir.x.abs().max(0.1))) }
                     else { let b = d3::Vector::new(s, 0.0, 0.0) + off; (b - dir * (l2 / dir.x.abs().max(0.1)), b) };
    // rigid placement of the whole configuration
    let m = d3::gen_iso(r, lat, 3.0);
    let a1 = m * d3::Point::origin(); let b1 = m * d3::Point::new(l1, 0.0, 0.0);
    let mut a2 = m * d3::Point::from(a2c); let mut b2 = m * d3::Point::from(b2c);
    if fam == 3 && r.below(8) == 0 { b2 = a2; }            // point-like segment 2
    if r.below(6) == 0 { std::mem::swap(&mut a2, &mut b2); }
    let (x1, y1, x2, y2) = if r.below(4) == 0 { (a2, b2, a1, b1) } else { (a1, b1, a2, b2) };      // both argument orders
    ("css3".into(), format!("{} {} {} {}", d3::hp(&x1), d3::hp(&y1), d3::hp(&x2), d3::hp(&y2)))
}

fn gen_css2(r: &mut Rng, lat: bool, fam: usize) -> (String, String) {
    let l1 = if lat { *r.pick(&[0.5, 1.0, 2.0, 4.0]) } else { r.logu(0.05, 8.0) };
    let l2 = if lat { *r.pick(&[0.25, 0.5, 1.0, 3.0, 8.0]) } else { r.logu(0.05, 8.0) };
    let s = if lat { *r.pick(&[-l2 - 0.5, -l2, -l2 * 0.5, 0.0, l1 * 0.25, l1 - l2, l1 - l2 * 0.5, l1, l1 + 0.5, -0.25]) }
            else { r.uniform(-l2 - 0.3 * l1, l1 + 0.3 * l1) };
    let off = if lat { *r.pick(&[0.0, 0.25, -0.5, 1.0]) } else { r.uniform(-1.0, 1.0) };
    let dir = match fam {
        0 => d2::Vector::new(1.0, 0.0), 1 => d2::Vector::new(-1.0, 0.0),
        2 => d2::Vector::new(if r.bool() { 1.0 } else { -1.0 }, if lat { *r.pick(&[0.125, -0.25, 0.375]) } else { r.uniform(-0.4, 0.4) }),
        _ => unit2(r, lat),
    };
    let a2c = d2::Vector::new(s, off);
    let b2c = a2c + dir * (l2 / dir.x.abs().max(0.1));
    let m = d2::gen_iso(r, lat, 3.0);
    let a1 = m * d2::Point::origin(); let b1 = m * d2::Point::new(l1, 0.0);
    let mut a2 = m * d2::Point::from(a2c); let mut b2 = m * d2::Point::from(b2c);
    if r.below(6) == 0 { std::mem::swap(&mut a2, &mut b2); }
    let (x1, y1, x2, y2) = if r.below(4) == 0 { (a2, b2, a1, b1) } else { (a1, b1, a2, b2) };
    ("css2".into(), format!("{} {} {} {}", d2::hp(&x1), d2::hp(&y1), d2::hp(&x2), d2::hp(&y2)))
}

/// Compound A (a grid of balls/cuboids) against Compound B (a small cluster) that slides over it in both directions, jumps,
/// separates and returns: the set of overlapping part pairs grows/shrinks at the front, in the middle and at the end of the
/// traversal order.  Never a cuboid/cuboid pair (its narrow phase is not modelled): one side is all balls.
fn gen_cc3(r: &mut Rng, lat: bool, maxposes: usize) -> (String, String) {
    let n_a = 1 + r.below(6) as usize;
    let n_b = 1 + r.below(4) as usize;
    let a_mixed = r.bool();
    let mut part = |r: &mut Rng, mixed: bool, c: d3::Vector<f64>| -> String {
        let ty = if mixed && r.below(3) == 0 { 1 } else { 0 };
        let p = if ty == 0 { d3::Vector::new(if lat { *r.pick(&[0.25, 0.5, 1.0]) } else { r.uniform(0.2, 1.0) }, 0.0, 0.0) }
                else if lat { d3::Vector::new(*r.pick(&[0.25, 0.5, 1.0]), *r.pick(&[0.25, 0.5]), *r.pick(&[0.5, 1.0])) }
                else { d3::Vector::new(r.uniform(0.2, 1.0), r.uniform(0.2, 1.0), r.uniform(0.2, 1.0)) };
        let q = d3::gen_quat(r, lat);
        let pose = d3::Isometry::from_parts(d3::na::Translation3::from(c), d3::na::Unit::new_unchecked(d3::na::Quaternion::new(q[3], q[0], q[1], q[2])));
        format!(" {} {} {}", ty, d3::hv(&p), d3::hiso(&pose))
    };
    let mut s = format!("{}", n_a);
    let mut centers = Vec::new();
    for i in 0..n_a {
        let c = if lat { d3::Vector::new((i % 3) as f64 * 1.5, (i / 3) as f64 * 1.5, r.range(-1, 1) as f64 * 0.25) }
                else { d3::Vector::new((i % 3) as f64 * 1.5 + r.uniform(-0.3, 0.3), (i / 3) as f64 * 1.5 + r.uniform(-0.3, 0.3), r.uniform(-0.3, 0.3)) };
        centers.push(c);
        s += &part(r, a_mixed, c);
    }
    s += &format!(" {}", n_b);
    for j in 0..n_b {
        let c = if lat { d3::Vector::new((j % 2) as f64 * 1.5 - 0.75, (j / 2) as f64 * 1.5 - 0.75, 0.0) }
                else { d3::Vector::new((j % 2) as f64 * 1.5 - 0.75 + r.uniform(-0.2, 0.2), (j / 2) as f64 * 1.5 - 0.75 + r.uniform(-0.2, 0.2), r.uniform(-0.2, 0.2)) };
        s += &part(r, !a_mixed, c);
    }
    let pred = if lat { *r.pick(&[0.0, 0.25, 0.5]) } else { *r.pick(&[0.0, 0.01, 0.1, 0.4]) };
    s += &format!(" {}", hx(pred));
    let n = 4 + r.below(maxposes as u64 - 3) as usize;
    let q = d3::gen_quat(r, lat);
    let z0 = if lat { 1.0 } else { r.uniform(0.6, 1.4) };
    let mut cur = d3::Isometry::from_parts(d3::na::Translation3::from(*r.pick(&centers) + d3::Vector::new(0.0, 0.0, z0)),
        d3::na::Unit::new_unchecked(d3::na::Quaternion::new(q[3], q[0], q[1], q[2])));
    let mut sweep = d3::Vector::new(if r.bool() { 0.75 } else { -0.75 }, 0.0, 0.0);
    s += &format!(" {}", n);
    for _ in 0..n {
        s += " "; s += &d3::hiso(&cur);
        let k = r.below(12);
        if k < 5 { cur.translation.vector += sweep; }                                       // slide across the grid
        else if k < 6 { sweep = -sweep; cur.translation.vector += sweep; }
        else if k < 7 { sweep = d3::Vector::new(0.0, sweep.x, 0.0); cur.translation.vector += sweep; }
        else if k < 9 { cur.translation.vector += if lat { d3::gen_v(r, true, 1.0) * 0.125 } else { d3::Vector::new(r.uniform(-1.0, 1.0), r.uniform(-1.0, 1.0), r.uniform(-1.0, 1.0)) * 0.2 };
                        if !lat { let ang = r.uniform(0.0, 0.3); cur.rotation = small_quat(r, ang) * cur.rotation; } }
        else if k < 10 { let c = *r.pick(&centers); cur.translation.vector = c + d3::Vector::new(0.0, 0.0, z0); }       // jump onto a part
        else if k < 11 { cur.translation.vector += d3::Vector::new(0.0, 0.0, 50.0); }     // separation
        else { }
        if cur.translation.vector.z > 25.0 && r.bool() { cur.translation.vector.z -= 50.0; }
    }
    ("cc3".into(), s)
}

/// side-by-side pfm/pfm pairs whose closest features are edges: axes parallel / anti-parallel / slightly tilted, UNEQUAL lengths,
/// the shorter one sliding along the longer one past either end; both argument orders (kinds)
fn gen_pfm3(r: &mut Rng, lat: bool, kind: usize, maxposes: usize) -> (String, String) {
    let hh = |r: &mut Rng| if lat { *r.pick(&[0.25, 0.5, 1.0, 2.0, 4.0]) } else { r.logu(0.2, 4.0) };
    let rad = |r: &mut Rng| if lat { *r.pick(&[0.25, 0.5, 1.0]) } else { r.uniform(0.1, 1.0) };
    // which sides have a radius: kinds → (type1, type2), 0 capsule 1 cylinder 2 segment 3 cone
    let ty = match kind { 0 => (0, 1), 1 => (1, 0), 2 => (1, 1), 3 => (2, 1), 4 => (1, 2), 5 => (0, 3), 6 => (3, 0), 7 => (2, 0), _ => (0, 2) };
    let mk = |r: &mut Rng, t: usize| d3::Vector::new(hh(r), if t == 2 { 0.0 } else { rad(r) }, 0.0);
    let a = mk(r, ty.0); let bb = mk(r, ty.1);
    let pred = if lat { *r.pick(&[0.0, 0.25]) } else { *r.pick(&[0.0, 0.01, 0.1]) };
    let n = 2 + r.below(maxposes as u64 - 1) as usize;
    // pose of shape 2 in the frame of shape 1: axis along ±y (parallel / anti-parallel), beside shape 1 at the contact distance + gap
    let anti = r.bool();
    let gap0 = if lat { *r.pick(&[0.0, 0.125, -0.125]) } else { r.uniform(-0.1, 0.1) };
    let side = if lat { *r.pick(&[d3::Vector::new(1.0, 0.0, 0.0), d3::Vector::new(0.0, 0.0, -1.0), d3::Vector::new(0.6, 0.0, 0.8)]) }
               else { let t = r.uniform(0.0, 6.28); d3::Vector::new(t.cos(), 0.0, t.sin()) };
    let rot0 = if anti { d3::na::UnitQuaternion::from_axis_angle(&d3::na::Unit::new_unchecked(side), std::f64::consts::PI) }
               else { d3::na::UnitQuaternion::identity() };
    let rot0 = if anti && lat { d3::na::Unit::new_unchecked(d3::na::Quaternion::new(0.0, side.x, side.y, side.z)) } else { rot0 };
    let spin = if lat { d3::na::UnitQuaternion::identity() } else { d3::na::UnitQuaternion::from_axis_angle(&d3::Vector::y_axis(), r.uniform(0.0, 6.28)) };
    let mut slide = if lat { *r.pick(&[-1.0, -0.5, 0.0, 0.5, 1.0]) * (a.x + bb.x) } else { r.uniform(-1.1, 1.1) * (a.x + bb.x) };
    let step = if lat { *r.pick(&[0.125, -0.125, 0.25]) } else { r.uniform(-0.2, 0.2) };
    let mut gap = gap0;
    let mut tilt = 0.0f64;
    let mut s = format!("{} {} {} {} {}", kind, d3::hv(&a), d3::hv(&bb), hx(pred), n);
    for _ in 0..n {
        let tq = d3::na::UnitQuaternion::from_axis_angle(&d3::na::Unit::new_normalize(side.cross(&d3::Vector::y())), tilt);
        let rot = tq * rot0 * spin;
        let t = side * (a.y + bb.y + gap) + d3::Vector::new(0.0, slide, 0.0);
        let p = d3::Isometry::from_parts(d3::na::Translation3::from(t), rot);
        s += " "; s += &d3::hiso(&p);
        let k = r.below(10);
        if k < 5 { slide += step; }
        else if k < 6 { slide = if lat { *r.pick(&[-1.0, -0.5, 0.5, 1.0]) * (a.x + bb.x) } else { r.uniform(-1.1, 1.1) * (a.x + bb.x) }; }
        else if k < 7 { gap += 20.0; }
        else if k < 8 && !lat { tilt = r.uniform(-0.05, 0.05); }
        else if k < 9 { gap = gap0 + if lat { 0.0625 } else { r.uniform(-0.02, 0.05) }; }
        else { }
        if gap > 10.0 && r.bool() { gap = gap0; }
    }
    ("pfm3".into(), s)
}

/// 3-D capsules with arbitrary axes: parallel / anti-parallel / tilted (coplanar and skew) / crossing / collinear / point-like,
/// every lengthwise overlap, gaps around 0 and around the prediction
fn gen_cap3(r: &mut Rng, lat: bool, fam: usize) -> (String, String) {
    let pos12 = d3::gen_iso(r, lat, 4.0);
    let rad = |r: &mut Rng| if lat { *r.pick(&[0.0, 0.25, 0.5, 1.0]) } else { match r.below(5) { 0 => 0.0, _ => r.logu(1e-2, 3.0) } };
    let (r1, r2) = (rad(r), rad(r));
    let u = unit3(r, lat);
    // an orthonormal frame (u, v, w); exact in lattice mode for the axis-aligned / 3-4-5 directions of `unit3`
    let v = { let c = if u.x.abs() < 0.5 { d3::Vector::x() } else { d3::Vector::y() }; let t = u.cross(&c); if lat && (t.norm() - 1.0).abs() < 1e-12 { t } else { t.normalize() } };
    let w = u.cross(&v);
    let c1 = d3::gen_v(r, lat, 3.0);
    let h1 = if lat { *r.pick(&[0.5, 1.0, 2.0, 4.0]) } else { r.logu(5e-2, 20.0) };
    let h2 = if lat { *r.pick(&[0.5, 1.0, 2.0, 4.0]) } else { h1 * r.logu(0.1, 10.0) };
    let (mut a1, mut b1) = (c1 - u * h1, c1 + u * h1);
    let pred = if lat { *r.pick(&[0.0, 0.25, 0.5]) } else { *r.pick(&[0.0, 1e-3, 0.05, 0.2]) * (h1 + h2 + r1 + r2).min(2.0) };
    let (mut a2w, mut b2w);
    if fam == 2 {
        let c2 = c1 + d3::gen_v(r, lat, 1.0) * (0.6 * (h1 + h2 + r1 + r2));
        let d = unit3(r, lat);
        a2w = c2 - d * h2; b2w = c2 + d * h2;
    } else {
        // direction of axis 2: `u` tilted within the (u, v) plane (coplanar / crossing) or towards `w` (skew, the normal direction)
        let d = if fam == 1 { u } else if lat {
            u + v * *r.pick(&[0.0, 0.125, -0.25, 0.5, 1.0]) + w * *r.pick(&[0.0, 0.0, 0.125, -0.5])
        } else {
            let t = match r.below(4) { 0 => r.logu(1e-9, 1e-4), 1 => r.logu(1e-3, 0.39), 2 => r.uniform(0.0, 1.6), _ => 0.0 } * if r.bool() { 1.0 } else { -1.0 };
            let k = if r.bool() { 0.0 } else { r.uniform(-0.3, 0.3) };
            u * t.cos() + v * t.sin() + w * k
        };
        let d = if r.bool() { d } else { -d };
        let s = if lat { *r.pick(&[0.0, 0.25, -0.25, 0.5, -0.5, 1.0, -1.0, 1.25, -1.25]) } else {
            match r.below(6) { 0 => 0.0, 1 => if r.bool() { 1.0 } else { -1.0 }, 2 => r.uniform(-1.5, 1.5), _ => r.uniform(-1.0, 1.0) } };
        let gap = if lat { *r.pick(&[0.0, 0.25, -0.25, 0.5, 1.0]) } else {
            match r.below(6) { 0 => r.uniform(-1e-6, 1e-6), 1 => pred + r.uniform(-1e-3, 1e-3), 2 => r.uniform(0.0, 1.5) * (pred + 0.05),
                               _ => r.uniform(-0.9, 0.3) * (r1 + r2).max(0.05) } };
        let lift = if r.below(8) == 0 { 0.0 } else { r1 + r2 + gap };                   // collinear / intersecting axes
        let c2 = c1 + u * (s * (h1 + h2)) + w * lift;
        a2w = c2 - d * h2; b2w = c2 + d * h2;
    }
    if fam == 3 {
        match r.below(4) { 0 => { b1 = a1; } 1 => { b2w = a2w; } 2 => { b1 = a1; b2w = a2w; } _ => {} }
        if !lat && r.below(4) == 0 { let e = d3::Vector::new(r.uniform(-1.0, 1.0), r.uniform(-1.0, 1.0), r.uniform(-1.0, 1.0)) * *r.pick(&[1e-9, 1e-8, 3e-8]); b1 = a1 + e; }
    }
    if r.below(8) == 0 { std::mem::swap(&mut a1, &mut b1); }
    if r.below(8) == 0 { std::mem::swap(&mut a2w, &mut b2w); }
    let a2 = pos12.inverse_transform_point(&d3::Point::from(a2w));
    let b2 = pos12.inverse_transform_point(&d3::Point::from(b2w));
    let npts = *r.pick(&[0usize, 0, 1, 2]);
    let pts: Vec<_> = (0..npts).map(|_| (d3::gen_p(r, lat, 2.0), d3::gen_p(r, lat, 2.0), r.coord(lat, 1.0))).collect();
    ("cap3".into(), format!("{} {} {} {} {} {} {} {} {}", d3::hiso(&pos12), d3::hp(&d3::Point::from(a1)), d3::hp(&d3::Point::from(b1)), hx(r1),
        d3::hp(&a2), d3::hp(&b2), hx(r2), hx(pred), hman3(&unit3(r, lat), &unit3(r, lat), &pts)))
}

/// two edges (the css3 families: parallel / anti-parallel / tilted / arbitrary, unequal lengths, every overlap), edge 2 expressed in
/// the frame of shape 2 through a random pose, a separating axis perpendicular to edge 1 towards edge 2 (or arbitrary), both `flipped`
fn gen_ee3(r: &mut Rng, lat: bool, fam: usize) -> (String, String) {
    let (_, args) = gen_css3(r, lat, fam);
    let t: Vec<f64> = args.split_whitespace().map(|x| f64::from_bits(u64::from_str_radix(x, 16).unwrap())).collect();
    let a1 = d3::Point::new(t[0], t[1], t[2]); let b1 = d3::Point::new(t[3], t[4], t[5]);
    let a2 = d3::Point::new(t[6], t[7], t[8]); let b2 = d3::Point::new(t[9], t[10], t[11]);
    let d1 = b1 - a1; let w = a2 - a1;
    let n = if d1.norm_squared() > 0.0 { w - d1 * (w.dot(&d1) / d1.norm_squared()) } else { w };
    let sep = match r.below(4) { 0 => unit3(r, lat), 1 => { let c = d1.cross(&(b2 - a2)); if c.norm() > 1e-6 { c / c.norm() } else { unit3(r, lat) } }
                                 _ => if n.norm() > 1e-9 { n / n.norm() } else { unit3(r, lat) } };
    let pos12 = d3::gen_iso(r, lat, 4.0);
    let e2a = pos12.inverse_transform_point(&a2); let e2b = pos12.inverse_transform_point(&b2);
    ("ee3".into(), format!("{} {} {} {} {} {} {}", d3::hiso(&pos12), d3::hp(&a1), d3::hp(&b1), d3::hp(&e2a), d3::hp(&e2b), d3::hv(&sep), b(r.below(4) == 0)))
}

pub fn gen(r: &mut Rng, thorough: bool) -> Vec<(String, String)> {
    let k = if thorough { 10 } else { 1 };
    let mut v = Vec::new();
    for it in 0..1200 * k {
        let lat = it % 2 == 0;
        v.push(gen_css3(r, lat, (it / 2) % 5));
        if it % 3 == 0 { v.push(gen_css2(r, lat, (it / 6) % 4)); }
    }
    for it in 0..800 * k { v.push(gen_ee3(r, it % 2 == 0, (it / 2) % 5)); }
    for it in 0..300 * k { v.push(gen_cc3(r, it % 2 == 0, 12)); }
    for it in 0..160 * k {
        // HeightField-vs-capsule histories of the hf2 family, replayed with tags and the model leg
        let (_, args) = gen_hf2(r, it % 4 == 0, 16);
        let t: Vec<&str> = args.split_whitespace().collect();
        let nh: usize = t[1].parse().unwrap(); let nr: usize = t[4 + nh].parse().unwrap();
        if t[5 + nh + nr] == "1" { v.push(("hfc2".into(), args)); }
    }
    for it in 0..800 * k { v.push(gen_cap3(r, it % 2 == 0, match it % 8 { 0 | 1 | 2 | 3 => 0, 4 => 1, 5 | 6 => 2, _ => 3 })); }
    for it in 0..40 * k { for kind in 0..9 { v.push(gen_pfm3(r, it % 2 == 0, kind, 12)); } }
    for it in 0..80 * k { for kind in 0..9 {
        // single fresh calls of the same family, with the GJK answer observed: the model leg of pfm/pfm's contact assembly
        let (_, args) = gen_pfm3(r, it % 2 == 0, kind, 6);
        let t: Vec<&str> = args.split_whitespace().collect();
        let n: usize = t[8].parse().unwrap();
        let j = r.below(n as u64) as usize;
        v.push(("pfmg3".into(), format!("{} {}", t[..8].join(" "), t[9 + 7 * j..16 + 7 * j].join(" "))));
    } }
    v
}
