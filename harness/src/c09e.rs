//! C09 round fu5: `SimdAabb::transform_by` with a different isometry in every lane,
//! `BoundingSphere::{transform_by, loosened, tightened}`, `Aabb::tightened`.
use crate::util::*;
use crate::p3::bounding_volume::{Aabb, BoundingSphere, BoundingVolume, SimdAabb};
use crate::p3::math::{Isometry, Real, SimdReal};
use crate::p3::na;
use crate::p3::shape::{HeightField, Polyline, Shape, TriMesh};
use super::c09b::{self, Co};
use super::c09c::{self, Co as Co2};

fn aabb(a: &mut Args) -> Aabb { Aabb::new(d3::p(a), d3::p(a)) }
fn faabb(b: &Aabb) -> String { format!("{} {}", d3::fp(&b.mins), d3::fp(&b.maxs)) }
fn haabb(b: &Aabb) -> String { format!("{} {}", d3::hp(&b.mins), d3::hp(&b.maxs)) }
fn sph(a: &mut Args) -> BoundingSphere { BoundingSphere::new(d3::p(a), a.f()) }
fn fsph(s: &BoundingSphere) -> String { format!("{} {}", d3::fp(s.center()), ff(s.radius())) }
fn hsph(s: &BoundingSphere) -> String { format!("{} {}", d3::hp(s.center()), hx(s.radius())) }

pub fn exec(func: &str, a: &mut Args) -> Option<String> {
    Some(match func {
        "simd_transform_by" => {
            let x = SimdAabb::from([aabb(a), aabb(a), aabb(a), aabb(a)]);
            let ms: [Isometry<Real>; 4] = [d3::iso(a), d3::iso(a), d3::iso(a), d3::iso(a)];
            let m: na::Isometry3<SimdReal> = na::Isometry3::from(ms);
            let y = x.transform_by(&m);
            (0..4).map(|i| faabb(&y.extract(i))).collect::<Vec<_>>().join(" ")
        }
        "bsphere_transform_by" => { let s = sph(a); let m = d3::iso(a); fsph(&s.transform_by(&m)) }
        "bsphere_loosened" => { let s = sph(a); let m = a.f(); fsph(&s.loosened(m)) }
        "bsphere_tightened" => { let s = sph(a); let m = a.f(); fsph(&s.tightened(m)) }
        "aabb_tightened" => { let x = aabb(a); let m = a.f(); faabb(&x.tightened(m)) }
        "aabb_take_point" => { let mut x = aabb(a); let p = d3::p(a); x.take_point(p); faabb(&x) }
        // composite, then k times `.scaled(s_i)`, then the box through `dyn Shape`
        "co3_hist_aabb" => {
            let c = c09b::co(a); let k = a.u(); let ss: Vec<d3::Vector<Real>> = (0..k).map(|_| d3::v(a)).collect();
            let b = match &c {
                Co::TriMesh(vs, is) => { let mut t = TriMesh::new(vs.clone(), is.clone()).expect("trimesh"); for s in &ss { t = t.scaled(s); } (&t as &dyn Shape).compute_local_aabb() }
                Co::Polyline(vs, is) => { let mut t = Polyline::new(vs.clone(), Some(is.clone())); for s in &ss { t = t.scaled(s); } (&t as &dyn Shape).compute_local_aabb() }
                Co::HeightField(nr, nc, hs, sc) => { let mut t = HeightField::new(na::DMatrix::from_column_slice(*nr, *nc, hs), *sc); for s in &ss { t = t.scaled(s); } (&t as &dyn Shape).compute_local_aabb() }
                Co::Compound(..) => panic!("compound has no scaled"),
            };
            faabb(&b)
        }
        "co2_hist_aabb" => {
            use crate::p2::shape::{HeightField as H2, Polyline as P2, Shape as S2, TriMesh as T2};
            let c = c09c::co(a); let k = a.u(); let ss: Vec<d2::Vector<Real>> = (0..k).map(|_| d2::v(a)).collect();
            let b = match &c {
                Co2::TriMesh(vs, is) => { let mut t = T2::new(vs.clone(), is.clone()).expect("trimesh"); for s in &ss { t = t.scaled(s); } (&t as &dyn S2).compute_local_aabb() }
                Co2::Polyline(vs, is) => { let mut t = P2::new(vs.clone(), Some(is.clone())); for s in &ss { t = t.scaled(s); } (&t as &dyn S2).compute_local_aabb() }
                Co2::HeightField(hs, sc) => { let mut t = H2::new(crate::p2::na::DVector::from_column_slice(hs), *sc); for s in &ss { t = t.scaled(s); } (&t as &dyn S2).compute_local_aabb() }
                Co2::Compound(..) => panic!("compound has no scaled"),
            };
            format!("{} {}", d2::fp(&b.mins), d2::fp(&b.maxs))
        }
        _ => return None,
    })
}

fn gen_aabb(r: &mut Rng, lat: bool) -> Aabb {
    let c = d3::gen_p(r, lat, 50.0);
    let he = d3::gen_he(r, lat);
    if r.below(20) == 0 { Aabb::new(c, c) } else { Aabb::new(c - he, c + he) }
}

pub fn gen(r: &mut Rng, thorough: bool, v: &mut Vec<(String, String)>) {
    let n = if thorough { 4000 } else { 400 };
    for it in 0..n {
        let lat = it % 2 == 0;
        // four boxes, four different poses (exact / Pythagorean / random quaternions, identity now and then)
        let boxes: Vec<String> = (0..4).map(|_| haabb(&gen_aabb(r, lat))).collect();
        let isos: Vec<String> = (0..4).map(|k| {
            let m = if r.below(8) == 0 { Isometry::identity() } else { d3::gen_iso(r, lat || k == 3, 100.0) };
            d3::hiso(&m) }).collect();
        v.push(("simd_transform_by".into(), format!("{} {}", boxes.join(" "), isos.join(" "))));
        let s = BoundingSphere::new(d3::gen_p(r, lat, 50.0), if r.below(10) == 0 { 0.0 } else { r.pos_extent(lat) });
        let m = d3::gen_iso(r, lat, 100.0);
        v.push(("bsphere_transform_by".into(), format!("{} {}", hsph(&s), d3::hiso(&m))));
        let am = if lat { r.range(0, 8) as f64 * 0.25 } else { r.logu(1e-3, 10.0) };
        v.push(("bsphere_loosened".into(), format!("{} {}", hsph(&s), hx(am))));
        // tightened: 0 <= amount <= radius (the code asserts it), ends included
        let t = match r.below(4) { 0 => 0.0, 1 => s.radius(), 2 => s.radius() * 0.5, _ => s.radius() * r.uniform(0.0, 1.0) };
        v.push(("bsphere_tightened".into(), format!("{} {}", hsph(&s), hx(t))));
        let x = gen_aabb(r, lat);
        let hmin = x.half_extents().min();
        let t = match r.below(5) { 0 => 0.0, 1 => hmin, 2 => hmin * 0.5, 3 => hmin * 1.5, _ => am };
        v.push(("aabb_tightened".into(), format!("{} {}", haabb(&x), hx(t))));
        // take_point: inside / on a face / beyond one, two or three faces / into the invalid sentinel box
        let tp = if r.below(3) == 0 { d3::gen_p(r, lat, 60.0) } else {
            x.mins + (x.maxs - x.mins).component_mul(&d3::Vector::new(*r.pick(&[0.0, 0.5, 1.0, 1.25, -0.25]), *r.pick(&[0.0, 0.5, 1.0, 2.0]), *r.pick(&[0.5, 1.0, -1.0]))) };
        let bx = if r.below(8) == 0 { Aabb::new_invalid() } else { x };
        v.push(("aabb_take_point".into(), format!("{} {}", haabb(&bx), d3::hp(&tp))));
        // histories: 1..4 scalings, signs flip back and forth (a flip followed by its undo, the same flip twice, a zero-free mix)
        if it % 2 == 0 {
            let c = match (it / 2) % 3 { 0 => c09b::gen_trimesh(r, lat), 1 => c09b::gen_polyline(r, lat), _ => { let neg = r.below(3) == 0; c09b::gen_heightfield(r, lat, neg) } };
            let k = 1 + r.below(4) as usize;
            let mut ss: Vec<d3::Vector<Real>> = (0..k).map(|_| c09b::gen_scale(r, lat)).collect();
            if k >= 2 && r.below(3) == 0 { let f = d3::Vector::new(-1.0, 1.0, -1.0); ss[0] = f; ss[k - 1] = f; }   // mirror … mirror back
            if k >= 2 && r.below(4) == 0 { ss[1] = d3::Vector::new(1.0 / ss[0].x, 1.0 / ss[0].y, 1.0 / ss[0].z); } // undo the first step
            v.push(("co3_hist_aabb".into(), format!("{} {} {}", c09b::hco(&c), k, ss.iter().map(d3::hv).collect::<Vec<_>>().join(" "))));
        } else {
            let c = match (it / 2) % 3 { 0 => c09c::gen_trimesh(r, lat), 1 => c09c::gen_polyline(r, lat), _ => { let neg = r.below(3) == 0; c09c::gen_heightfield(r, lat, neg) } };
            let k = 1 + r.below(4) as usize;
            let mut ss: Vec<d2::Vector<Real>> = (0..k).map(|_| c09c::gen_scale(r, lat)).collect();
            if k >= 2 && r.below(3) == 0 { let f = d2::Vector::new(-1.0, 1.0); ss[0] = f; ss[k - 1] = f; }
            if k >= 2 && r.below(4) == 0 { ss[1] = d2::Vector::new(1.0 / ss[0].x, 1.0 / ss[0].y); }
            v.push(("co2_hist_aabb".into(), format!("{} {} {}", c09c::hco(&c), k, ss.iter().map(d2::hv).collect::<Vec<_>>().join(" "))));
        }
    }
}
