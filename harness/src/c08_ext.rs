//! C08 extension (round fu3): the remaining observation points of the property and the early-exit semantics.
//!   topo   <hist>                     `Qbvh::check_topology(false|true, cur)` after EVERY operation of the history
//!   acc    <hist>                     `node_aabb` / `leaf_data` for every proxy's NodeIndex, every (node, lane), and an out-of-range index
//!   scal   <hist> <scale> <box>       `Qbvh::scaled(scale)` of the final tree: full state dump + `intersect_aabb(box)` on it
//!   dfsx   <hist> <box> <limit>       `traverse_depth_first_node_with_stack` / `_and_context` with a visitor whose callback
//!                                     answers `false` at the `limit`-th report (ExitEarly): ordered reports + returned flag
//!   dfsxp  <hist> <box> <limit>       the same predicate through `traverse_depth_first_parallel` on 1/2/8/all threads (oracle only)
//! round fu4:
//!   mixq   <k> {<cut> <box> <point>}^k <hist>   one LONG history (>= 200 operations in the thorough tier) with `k` checkpoints:
//!                                     after operation number `cut` the tree is queried with `intersect_aabb(box)` (ordered ids)
//!                                     and the history goes on.  The update workspace is SHARED with a second, unrelated tree
//!                                     that is updated (insert / refit / rebalance / remove) between the operations: the
//!                                     workspace is scratch space, stale contents of another tree must not matter.
//!   mixb   (same arguments)           at every checkpoint `traverse_best_first` with the point-distance visitor (oracle only)
use super::*;
use std::sync::atomic::{AtomicUsize, Ordering};
use crate::p3::partitioning::NodeIndex;
use crate::p3::math::Vector;

/// box-overlap visitor with a depth context and a counting callback: `ExitEarly` at the `limit`-th report
struct LimitCtxVisitor<'a> { bv: SimdAabb, limit: usize, out: &'a mut Vec<(u32, u32)> }
impl<'a> SimdVisitorWithContext<u32, SimdAabb, u32> for LimitCtxVisitor<'a> {
    fn visit(&mut self, bv: &SimdAabb, data: Option<[Option<&u32>; SIMD_WIDTH]>, ctx: u32) -> (SimdVisitStatus, [u32; SIMD_WIDTH]) {
        use crate::p3::na::SimdBool as _;
        let mask = bv.intersects(&self.bv);
        if let Some(data) = data {
            let bitmask = mask.bitmask();
            for ii in 0..SIMD_WIDTH {
                if (bitmask & (1 << ii)) != 0 {
                    let Some(d) = data[ii] else { continue };
                    self.out.push((*d, ctx));
                    if !(self.out.len() < self.limit) { return (SimdVisitStatus::ExitEarly, [ctx + 1; SIMD_WIDTH]); }
                }
            }
        }
        (SimdVisitStatus::MaybeContinue(mask), [ctx + 1; SIMD_WIDTH])
    }
}

/// replays a history like `replay_cur`, calling `after(tree, current boxes, op)` after every operation; `false` on panic
fn replay_each(a: &mut Args, after: impl FnMut(&Qbvh<u32>, &[Aabb], &str)) -> bool { replay_each_ws(a, false, after) }

/// the unrelated tree that shares the workspace: one deterministic update round per call (grows to 37 leaves, then
/// shrinks and is rebuilt), leaving its own stale entries in every workspace vector
struct Foreign { q: Qbvh<u32>, cur: Vec<Aabb>, round: usize }
impl Foreign {
    fn new() -> Self { Foreign { q: Qbvh::new(), cur: Vec::new(), round: 0 } }
    fn bx(k: usize) -> Aabb {
        let c = d3::Point::new(((k * 7) % 11) as f64 * 3.0 - 15.0, ((k * 5) % 13) as f64 * 2.0 - 13.0, (k % 3) as f64);
        Aabb::new(c, c + d3::Vector::new(1.0 + (k % 4) as f64 * 0.5, 1.0, 2.0))
    }
    fn round(&mut self, ws: &mut QbvhUpdateWorkspace) {
        let k = self.round; self.round += 1;
        let id = k % 37;
        if self.cur.len() <= id { self.cur.resize(id + 1, Aabb::new_invalid()); }
        self.cur[id] = Self::bx(k);
        self.q.pre_update_or_insert(id as u32);
        if k % 5 == 4 { let _ = self.q.remove(((k * 3) % 37) as u32); }
        let c = &self.cur;
        let _ = self.q.refit(0.125, ws, |d: &u32| c.get(*d as usize).copied().unwrap_or_else(Aabb::new_invalid));
        if k % 3 == 2 { self.q.rebalance(0.125, ws); }
        if k % 41 == 40 { let items: Vec<(u32, Aabb)> = (0..9usize).map(|i| (i as u32, Self::bx(i + k))).collect();
                          for (i, b) in &items { self.cur[*i as usize] = *b; }
                          self.q.clear_and_rebuild(items.into_iter(), 0.0); }
    }
}

/// `stale = true`: before every `refit` / `rebalance` of the history the shared workspace is used by the foreign tree
fn replay_each_ws(a: &mut Args, stale: bool, mut after: impl FnMut(&Qbvh<u32>, &[Aabb], &str)) -> bool {
    let nops = a.u();
    let mut q: Qbvh<u32> = Qbvh::new();
    let mut ws = QbvhUpdateWorkspace::default();
    let mut cur: Vec<Aabb> = Vec::new();
    let mut foreign = Foreign::new();
    for _ in 0..nops {
        let op = a.tok().to_string();
        let r = catch_unwind(AssertUnwindSafe(|| {
            if stale && (op == "F" || op == "B") { foreign.round(&mut ws); }
            match op.as_str() {
                "I" => { let id = a.u(); let b = rd_box(a);
                         if cur.len() <= id { cur.resize(id + 1, Aabb::new_invalid()); }
                         cur[id] = b; q.pre_update_or_insert(id as u32); }
                "R" => { let id = a.u(); let _ = q.remove(id as u32); }
                "F" => { let m = a.f(); let c = &cur;
                         let _ = q.refit(m, &mut ws, |d: &u32| c.get(*d as usize).copied().unwrap_or_else(Aabb::new_invalid)); }
                "B" => { let m = a.f(); q.rebalance(m, &mut ws); }
                "S" | "N" => { let _ = bld::build_with_splitter(&op, a, &mut q, &mut cur); }
                "C" => { let n = a.u(); let mut items = Vec::new();
                         for _ in 0..n { let id = a.u(); let b = rd_box(a); items.push((id as u32, b)); }
                         let dil = a.f();
                         for (id, b) in &items { let id = *id as usize; if cur.len() <= id { cur.resize(id + 1, Aabb::new_invalid()); } cur[id] = *b; }
                         q.clear_and_rebuild(items.into_iter(), dil); }
                _ => panic!("bad op"),
            }
        }));
        if r.is_err() { return false; }
        after(&q, &cur, &op);
    }
    true
}

/// `mixq` / `mixb`: replay with checkpoints (see the module documentation)
fn mix_run(isq: bool, a: &mut Args) -> String {
    let k = a.u();
    let mut cps: Vec<(usize, Aabb, Point<Real>)> = Vec::new();
    for _ in 0..k { let cut = a.u(); let qb = rd_box(a); let pt = d3::p(a); cps.push((cut, qb, pt)); }
    let mut segs: Vec<String> = Vec::new();
    let mut n = 0usize;
    let ok = replay_each_ws(a, true, |q, cur, _op| {
        n += 1;
        for (cut, qb, pt) in &cps {
            if *cut != n { continue; }
            let r = catch_unwind(AssertUnwindSafe(|| {
                if isq {
                    let mut out = Vec::new();
                    q.intersect_aabb(qb, &mut out);
                    { let mut t = vec!["q".to_string()]; t.extend(out.iter().map(|x| x.to_string())); t.push(";".into()); t.join(" ") }
                } else {
                    let mut v = BfVisitor { p: *pt, cur };
                    match q.traverse_best_first(&mut v) {
                        None => "b none ;".to_string(),
                        Some((_, id)) => { let c = cur.get(id as usize).map(|b| dist2(pt, b)).unwrap_or(f64::NAN); format!("b {} {} ;", ff(c), id) }
                    }
                }
            }));
            segs.push(r.unwrap_or_else(|_| "PANIC ;".into()));
        }
    });
    if !ok { segs.push("PANIC ;".into()); }
    segs.join(" ")
}

fn fbox(b: &Aabb) -> String { box6(b).iter().map(|x| cf(*x)).collect::<Vec<_>>().join(" ") }

pub fn exec(func: &str, a: &mut Args) -> String {
    match func {
        "topo" => {
            let mut out: Vec<String> = Vec::new();
            let ok = replay_each(a, |q, cur, _op| {
                let mut s = String::new();
                for check_aabbs in [false, true] {
                    let r = catch_unwind(AssertUnwindSafe(|| {
                        q.check_topology(check_aabbs, |d: &u32| cur.get(*d as usize).copied().unwrap_or_else(Aabb::new_invalid));
                    }));
                    s.push(if r.is_ok() { '1' } else { '0' });
                }
                out.push(s);
            });
            if !ok { out.push("PANIC".into()); }
            out.join(" ")
        }
        "acc" => {
            let (q, _, _) = replay_cur(a, false);
            let q = match q { Some(q) => q, None => return "PANIC".into() };
            let r = catch_unwind(AssertUnwindSafe(|| {
                let mut out: Vec<String> = Vec::new();
                let od = |d: Option<u32>| d.map(|x| x.to_string()).unwrap_or_else(|| "-".into());
                for (i, p) in q.raw_proxies().iter().enumerate() {
                    let bx = q.node_aabb(p.node).map(|b| fbox(&b)).unwrap_or_else(|| "-".into());
                    out.push(format!("p {} {} {}", i, od(q.leaf_data(p.node)), bx));
                }
                let nn = q.raw_nodes().len();
                for i in 0..nn + 1 {
                    let ds: Vec<String> = (0..4u8).map(|l| od(q.leaf_data(NodeIndex { index: i as u32, lane: l }))).collect();
                    let has = (0..4u8).map(|l| q.node_aabb(NodeIndex { index: i as u32, lane: l }).is_some() as u32).sum::<u32>();
                    out.push(format!("n {} {} {}", i, ds.join(" "), has));
                }
                // the boxes handed out for the root's lanes are the stored ones
                if nn > 0 { for l in 0..4u8 { out.push(format!("r {}", fbox(&q.node_aabb(NodeIndex { index: 0, lane: l }).unwrap()))); } }
                out.join(" ")
            }));
            r.unwrap_or_else(|_| "PANIC".into())
        }
        "scal" => {
            let (q, _, _) = replay_cur(a, false);
            let s: Vector<Real> = d3::v(a);
            let qb = rd_box(a);
            let q = match q { Some(q) => q, None => return "PANIC".into() };
            let r = catch_unwind(AssertUnwindSafe(|| {
                let q2 = q.scaled(&s);
                let mut out = String::new();
                dump(&q2, &mut Shadow::default(), "S", 0, &mut out);
                let mut ids = Vec::new();
                q2.intersect_aabb(&qb, &mut ids);
                format!("{} Q {}", out, ids.iter().map(|x| x.to_string()).collect::<Vec<_>>().join(" "))
            }));
            r.unwrap_or_else(|_| "PANIC".into())
        }
        "dfsx" => {
            let (q, _, _) = replay_cur(a, false);
            let bx = rd_box(a);
            let limit = a.u();
            let q = match q { Some(q) => q, None => return "PANIC".into() };
            let r = catch_unwind(AssertUnwindSafe(|| {
                let mut o: Vec<u32> = Vec::new();
                let ret;
                { let mut n = 0usize;
                  let mut cb = |x: &u32| { o.push(*x); n += 1; n < limit };
                  let mut v = BoundingVolumeIntersectionsVisitor::new(&bx, &mut cb);
                  let mut stack: Vec<u32> = vec![3, 1];
                  ret = q.traverse_depth_first_node_with_stack(&mut v, &mut stack, 0); }
                let mut o2: Vec<(u32, u32)> = Vec::new();
                let ret2;
                { let mut v = LimitCtxVisitor { bv: SimdAabb::splat(bx), limit, out: &mut o2 };
                  let mut stack: Vec<(u32, u32)> = vec![(2, 2)];
                  ret2 = q.traverse_depth_first_node_with_stack_and_context(&mut v, &mut stack, 0, 0u32); }
                format!("s {} {} c {} {}", ret as u32, o.iter().map(|x| x.to_string()).collect::<Vec<_>>().join(" "),
                        ret2 as u32, o2.iter().map(|(x, d)| format!("{}@{}", x, d)).collect::<Vec<_>>().join(" "))
            }));
            r.unwrap_or_else(|_| "PANIC".into())
        }
        "dfsxp" => {
            let (q, _, _) = replay_cur(a, false);
            let bx = rd_box(a);
            let limit = a.u();
            let q = match q { Some(q) => q, None => return "PANIC".into() };
            let r = catch_unwind(AssertUnwindSafe(|| {
                let sb = SimdAabb::splat(bx);
                let mut segs: Vec<String> = Vec::new();
                for which in 0..4 {
                    let o: Mutex<Vec<u32>> = Mutex::new(Vec::new());
                    let cnt = AtomicUsize::new(0);
                    {
                        let vis = |node: &QbvhNode, data: Option<[Option<&u32>; SIMD_WIDTH]>| {
                            use crate::p3::na::SimdBool as _;
                            let mask = node.simd_aabb.intersects(&sb);
                            if let Some(data) = data { let bm = mask.bitmask();
                                for ii in 0..SIMD_WIDTH { if (bm & (1 << ii)) != 0 { if let Some(d) = data[ii] {
                                    o.lock().unwrap().push(*d);
                                    if !(cnt.fetch_add(1, Ordering::SeqCst) + 1 < limit) { return SimdVisitStatus::ExitEarly; } } } } }
                            SimdVisitStatus::MaybeContinue(mask)
                        };
                        match which {
                            0 => q.traverse_depth_first_parallel(&vis),
                            1 => pool(1).install(|| q.traverse_depth_first_parallel(&vis)),
                            2 => pool(2).install(|| q.traverse_depth_first_parallel(&vis)),
                            _ => pool(8).install(|| q.traverse_depth_first_parallel(&vis)),
                        }
                    }
                    segs.push(format!("{} {}", ["par", "par1", "par2", "par8"][which], sorted_ids(o.into_inner().unwrap())));
                }
                segs.join(" ")
            }));
            r.unwrap_or_else(|_| "PANIC".into())
        }
        "mixq" | "mixb" => {
            // the replay runs on a watchdog thread: a hang of the real code (never seen on the unchanged tree; a corrupted
            // tree can make `refit` or a traversal loop forever) is reported as `PANIC hang` after 30 s instead of stalling the run
            let toks: String = a.t[a.i..].join(" ");
            a.i = a.t.len();
            let isq = func == "mixq";
            let (tx, rx) = std::sync::mpsc::channel();
            let th = std::thread::Builder::new().stack_size(64 << 20).spawn(move || { let mut a = Args::new(&toks); let _ = tx.send(mix_run(isq, &mut a)); });
            if th.is_err() { return "PANIC spawn ;".into(); }
            match rx.recv_timeout(std::time::Duration::from_secs(30)) { Ok(s) => s, Err(_) => "PANIC hang ;".into() }
        }
        _ => "nofn".into(),
    }
}

// ---------------------------------------------------------------- generators

/// a history of one of the structured / random families, always ending with a refit
fn any_history(r: &mut Rng, thorough: bool, it: usize) -> Hist {
    let lat = it % 2 == 0;
    let maxops = if thorough { 200 } else { 40 };
    let mut h = match it % 5 {
        0 => { let var = r.below(10); root_split_history_h(r, var, lat) }
        1 => random_history_h(r, maxops, lat, true),
        2 => { let n = 1 + r.below(if thorough { 200 } else { 70 }) as usize; sized_history(r, n, lat, true) }
        3 => { let n = r.below(24) as usize; sized_history(r, n, lat, false) }
        _ => random_history_h(r, maxops, lat, false),
    };
    if !h.ops.last().map(|o| o.starts_with("F ")).unwrap_or(false) { let m = gen_margin(r, lat); h.refit(m); }
    h
}

/// scale vectors: identity, uniform, non-uniform, mirrored (negative components), flattening (zero component)
fn gen_scale(r: &mut Rng, lat: bool) -> Vector<Real> {
    let c = |r: &mut Rng| -> f64 {
        if lat { *r.pick(&[1.0, 2.0, 0.5, -1.0, -2.0, 0.25, 3.0, -0.5, 0.0]) }
        else { let m = r.logu(1e-2, 1e2); if r.below(3) == 0 { -m } else { m } }
    };
    match r.below(5) {
        0 => { let s = c(r); Vector::new(s, s, s) }
        1 => Vector::new(1.0, 1.0, 1.0),
        _ => Vector::new(c(r), c(r), c(r)),
    }
}

fn query_box(r: &mut Rng, h: &Hist, lat: bool) -> Aabb {
    let live: Vec<usize> = (0..h.live.len()).filter(|i| h.live[*i]).collect();
    if live.is_empty() || r.below(5) == 0 { gen_box(r, 0, lat) }
    else if r.below(6) == 0 { Aabb::new(d3::Point::new(-1e3, -1e3, -1e3), d3::Point::new(1e3, 1e3, 1e3)) }
    else { let bb = h.boxes[*r.pick(&live)]; match r.below(3) { 0 => bb, 1 => moved(r, &bb, lat), _ => Aabb::new(bb.mins, bb.mins) } }
}

/// two trees whose leaves sit in four far-apart clusters: the `k` leaves of the small tree (one per cluster, all in ONE
/// leaf node: 4 valid lanes when `k = 4`) each overlap a DIFFERENT child subtree of the big tree (built by
/// `clear_and_rebuild`, which splits spatially, or by cluster-wise insertion), so in the (leaf, internal) and
/// (internal, leaf) arms of the simultaneous traversals every lane decides about another child; both orders
fn gen_bvtt_lanes(r: &mut Rng, thorough: bool, it: usize) -> (String, String) {
    let lat = it % 2 == 0;
    let centres = [(-12.0, -12.0), (12.0, -12.0), (-12.0, 12.0), (12.0, 12.0)];
    let cell = |r: &mut Rng, c: usize, spread: f64| -> Aabb {
        let (cx, cy) = centres[c];
        let o = if lat { d3::Vector::new(r.range(-4, 4) as f64 * spread * 0.25, r.range(-4, 4) as f64 * spread * 0.25, r.range(-2, 2) as f64 * 0.5) }
                else { d3::Vector::new(r.uniform(-spread, spread), r.uniform(-spread, spread), r.uniform(-1.0, 1.0)) };
        let p = d3::Point::new(cx, cy, 0.0) + o;
        let he = if lat { 0.5 } else { r.uniform(0.1, 0.8) };
        Aabb::new(p - d3::Vector::new(he, he, he), p + d3::Vector::new(he, he, he))
    };
    // small tree: k leaves, leaf i in cluster perm[i]; optionally a few more per cluster (depth 2)
    let k = match it % 4 { 0 => 4, 1 => 4, 2 => 3, _ => 1 + r.below(4) as usize };
    let extra = if it % 5 == 4 { 1 + r.below(3) as usize } else { 0 };
    let mut perm = [0usize, 1, 2, 3];
    for i in 0..4 { let j = i + r.below((4 - i) as u64) as usize; perm.swap(i, j); }
    let mut small = Hist::new(4 * (1 + extra) + 1);
    let mut id = 0;
    let mut items: Vec<(usize, Aabb)> = Vec::new();
    for e in 0..1 + extra { for i in 0..k { let b = cell(r, perm[i], if e == 0 { 0.0 } else { 2.0 }); items.push((id, b)); id += 1; } }
    if it % 3 == 0 { small.rebuild(&items, 0.0); } else { for (i, b) in &items { small.ins(*i, *b); } }
    let m = gen_margin(r, lat); small.refit(m);
    // big tree: 2..24 leaves per cluster (some clusters may stay empty)
    let per = if thorough { 40 } else { 16 };
    let mut big = Hist::new(4 * per + 1);
    let mut items: Vec<(usize, Aabb)> = Vec::new();
    let mut id = 0;
    for c in 0..4 { let n = if r.below(6) == 0 { 0 } else { 2 + r.below(per as u64 - 1) as usize };
        for _ in 0..n { let b = cell(r, c, 3.0); items.push((id, b)); id += 1; } }
    if it % 2 == 0 { big.rebuild(&items, *r.pick(&[0.0, 0.0, 0.01])); if r.bool() { let m = gen_margin(r, lat); big.refit(m); big.rebalance(m); } }
    else { for (i, b) in &items { big.ins(*i, *b); if r.below(10) == 0 { let m = gen_margin(r, lat); big.refit(m); } } }
    let m = gen_margin(r, lat); big.refit(m);
    let (h1, h2) = if (it / 2) % 2 == 0 { (small, big) } else { (big, small) };
    ("bvttall".to_string(), format!("{} {} 0", h1.args(), h2.args()))
}

/// One long history of at least `nops` operations that cycles through phases — grow (fresh ids), move (existing leaves
/// change their boxes), shrink, drain (down to the last leaf and the empty tree: root collapse), rebuild from a subset
/// (`clear_and_rebuild` after removes), mixed — and settles (`refit(margin)`, half of the time followed by `rebalance`)
/// after every phase; 1..3 checkpoints (query box + query point against the leaves live at that moment) after every settle.
fn long_mixed_history(r: &mut Rng, nops: usize, lat: bool) -> (Hist, Vec<(usize, Aabb, Point<Real>)>, [usize; 6]) {
    let nids = *r.pick(&[6usize, 20, 40, 64, 96]);
    let fam = r.below(6);
    let mut h = Hist::new(nids);
    let mut cps: Vec<(usize, Aabb, Point<Real>)> = Vec::new();
    let mut phases = [0usize; 6];
    let bx = |r: &mut Rng| { let f = if fam == 5 { r.below(5) } else { fam }; gen_box(r, f, lat) };
    while h.ops.len() < nops {
        let phase = if h.ops.is_empty() { 0 } else { r.below(6) as usize };
        phases[phase] += 1;
        let len = 4 + r.below(24) as usize;
        for _ in 0..len {
            let live: Vec<usize> = (0..nids).filter(|i| h.live[*i]).collect();
            let dead: Vec<usize> = (0..nids).filter(|i| !h.live[*i]).collect();
            match phase {
                0 => { let id = if !dead.is_empty() { *r.pick(&dead) } else { r.below(nids as u64) as usize }; let b = bx(r); h.ins(id, b); }
                1 => { if live.is_empty() { let b = bx(r); h.ins(0, b); } else { let id = *r.pick(&live); let b = moved(r, &h.boxes[id].clone(), lat); h.ins(id, b); } }
                2 => { if live.is_empty() { break; } let id = *r.pick(&live); h.rem(id); }
                3 => { if live.is_empty() { break; } for id in live { h.rem(id); if r.below(9) == 0 { let m = gen_margin(r, lat); h.refit(m); } } break; }
                4 => { for id in live.iter().take(live.len() / 3) { h.rem(*id); }
                       let mut ids: Vec<usize> = (0..nids).collect();
                       for i in 0..ids.len() { let j = i + r.below((ids.len() - i) as u64) as usize; ids.swap(i, j); }
                       let n = r.below(nids as u64 + 1) as usize;
                       let items: Vec<(usize, Aabb)> = ids[..n].iter().map(|i| (*i, bx(r))).collect();
                       h.rebuild(&items, *r.pick(&[0.0, 0.0, 0.01, 0.25])); break; }
                _ => { let c = r.below(10);
                       if c < 4 || live.is_empty() { let id = r.below(nids as u64) as usize; let b = bx(r); h.ins(id, b); }
                       else if c < 7 { let id = *r.pick(&live); let b = moved(r, &h.boxes[id].clone(), lat); h.ins(id, b); }
                       else { let id = r.below(nids as u64 + 2) as usize; if id < nids { h.rem(id) } else { h.ops.push(format!("R {}", id)) } } }
            }
        }
        let m = gen_margin(r, lat); h.refit(m);
        if r.bool() { h.rebalance(m); }
        for _ in 0..1 + r.below(3) {
            let qb = query_box(r, &h, lat);
            let live: Vec<usize> = (0..nids).filter(|i| h.live[*i]).collect();
            let pt = if live.is_empty() || r.below(3) == 0 { d3::gen_p(r, lat, 50.0) } else { let b = h.boxes[*r.pick(&live)]; if r.bool() { b.center() } else { b.maxs + d3::gen_v(r, lat, 2.0) } };
            cps.push((h.ops.len(), qb, pt));
        }
    }
    (h, cps, phases)
}

/// histories in which `rebalance` is ALSO called with updates pending (no `refit` before it): the documentation promises
/// nothing about the boxes then, but the structure must stay valid whatever the flags and the dirty list
/// (`rebalance_preserves_inv` holds for every call); compared bit for bit with the model, structural oracle
fn pending_rebalance_history(r: &mut Rng, maxops: usize, lat: bool) -> (String, String) {
    let nids = *r.pick(&[6usize, 17, 40, 64]);
    let fam = r.below(6);
    let nops = 8 + r.below(maxops as u64) as usize;
    let mut h = Hist::new(nids);
    let bx = |r: &mut Rng| { let f = if fam == 5 { r.below(5) } else { fam }; gen_box(r, f, lat) };
    let grow = r.below(nops as u64 / 2 + 1) as usize;
    while h.ops.len() < nops {
        let live: Vec<usize> = (0..nids).filter(|i| h.live[*i]).collect();
        let c = r.below(100);
        if h.ops.len() < grow || c < 40 { let id = r.below(nids as u64) as usize; let b = bx(r); h.ins(id, b); }
        else if c < 55 && !live.is_empty() { let id = *r.pick(&live); let b = moved(r, &h.boxes[id].clone(), lat); h.ins(id, b); }
        else if c < 72 { let id = r.below(nids as u64) as usize; h.rem(id); }
        else if c < 84 { let m = gen_margin(r, lat); h.rebalance(m); }            // pending updates
        else if c < 94 { let m = gen_margin(r, lat); h.refit(m); if r.bool() { h.rebalance(m); } }
        else { let n = r.below(nids as u64 + 1) as usize;
               let items: Vec<(usize, Aabb)> = (0..n).map(|i| ((i * 5) % nids, bx(r))).collect::<std::collections::BTreeMap<usize, Aabb>>().into_iter().collect();
               h.rebuild(&items, 0.0); }
    }
    let m = gen_margin(r, lat); h.refit(m);
    h.finish()
}

fn gen_mix(r: &mut Rng, thorough: bool, it: usize) -> (String, String) {
    let lat = it % 2 == 0;
    let nops = if thorough { 200 + r.below(120) as usize } else { 50 + r.below(50) as usize };
    let (h, cps, _) = long_mixed_history(r, nops, lat);
    let mut s = format!("{}", cps.len());
    for (cut, qb, pt) in &cps { s += &format!(" {} {} {}", cut, hb(qb), d3::hp(pt)); }
    ((if it % 3 == 2 { "mixb" } else { "mixq" }).to_string(), format!("{} {}", s, h.args()))
}

pub fn gen(r: &mut Rng, thorough: bool) -> Vec<(String, String)> {
    let mut v = Vec::new();
    // long mixed histories with interleaved queries and a shared (stale) workspace
    let nm = if thorough { 60 } else { 24 };
    for it in 0..nm { v.push(gen_mix(r, thorough, it)); }
    // the code's own validator after every operation, and the accessors at the end, of long mixed histories
    let nl = if thorough { 12 } else { 4 };
    for it in 0..nl {
        let nops = if thorough { 200 + r.below(100) as usize } else { 50 + r.below(40) as usize };
        let (mut h, _, _) = long_mixed_history(r, nops, it % 2 == 0);
        if !h.ops.last().map(|o| o.starts_with("F ")).unwrap_or(false) { let m = gen_margin(r, it % 2 == 0); h.refit(m); }
        v.push(((if it % 2 == 0 { "topo" } else { "acc" }).to_string(), h.args()));
    }
    // rebalance with pending updates (structure only)
    let np = if thorough { 200 } else { 40 };
    for it in 0..np { v.push(pending_rebalance_history(r, if thorough { 150 } else { 50 }, it % 2 == 0)); }
    // the code's own validator after every operation of every history family
    let nt = if thorough { 300 } else { 90 };
    for it in 0..nt {
        let h = any_history(r, thorough, it);
        v.push(("topo".to_string(), h.args()));
    }
    let nst = if thorough { 6 } else { 1 };
    for it in 0..nst {
        let lat = it % 2 == 0;
        for variant in 0..6 { let (_, a) = rebuild_history(r, variant, lat); v.push(("topo".to_string(), a)); }
        let (_, a) = park_free_list_history(r, lat); v.push(("topo".to_string(), a));
        let (_, a) = shrink_grow_history(r, lat); v.push(("topo".to_string(), a));
        let (_, a) = drain_history(r, lat); v.push(("topo".to_string(), a));
    }
    // accessors
    let na = if thorough { 150 } else { 40 };
    for it in 0..na { let h = any_history(r, thorough, it); v.push(("acc".to_string(), h.args())); }
    // scaled trees
    let ns = if thorough { 240 } else { 70 };
    for it in 0..ns {
        let lat = it % 2 == 0;
        let h = any_history(r, thorough, it);
        let s = gen_scale(r, lat);
        // the query lives in the scaled frame: the image of a query box of the unscaled frame
        let qb0 = query_box(r, &h, lat);
        let qb = if r.below(4) == 0 { qb0 } else { qb0.scaled(&s) };
        v.push(("scal".to_string(), format!("{} {} {}", h.args(), d3::hv(&s), hb(&qb))));
    }
    // early exit
    let nx = if thorough { 300 } else { 80 };
    for it in 0..nx {
        let lat = it % 2 == 0;
        let h = any_history(r, thorough, it);
        let qb = query_box(r, &h, lat);
        let limit = *r.pick(&[1usize, 1, 2, 3, 5, 9, 1000000]);
        v.push(((if it % 4 == 3 { "dfsxp" } else { "dfsx" }).to_string(), format!("{} {} {}", h.args(), hb(&qb), limit)));
    }
    // lane-separating layouts for every simultaneous entry point (sequential and parallel), both orders
    let nl = if thorough { 120 } else { 32 };
    for it in 0..nl { v.push(gen_bvtt_lanes(r, thorough, it)); }
    v
}
