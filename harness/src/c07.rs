//! C07: traversals of the real `Qbvh` against brute force.  `bf_point`: a C08 history, then a point;
//! `Qbvh::traverse_best_first` with a point-distance visitor.
use crate::util::*;
use super::c08;
use crate::p3::bounding_volume::{Aabb, SimdAabb};
use crate::p3::math::{Real, SimdBool, SimdReal};
use crate::p3::partitioning::{SimdBestFirstVisitStatus, SimdBestFirstVisitor};

fn dist2(p: &d3::Point<Real>, b: &Aabb) -> f64 {
    let mut s = 0.0;
    // same operation order as `Model.Qbvh.dist2`
    let dx = (b.mins.x - p.x).max(p.x - b.maxs.x).max(0.0);
    let dy = (b.mins.y - p.y).max(p.y - b.maxs.y).max(0.0);
    let dz = (b.mins.z - p.z).max(p.z - b.maxs.z).max(0.0);
    s += dx * dx; s += dy * dy; s += dz * dz;
    s
}

struct PointVisitor<'a> { p: d3::Point<Real>, cur: &'a [Aabb] }
impl<'a> SimdBestFirstVisitor<u32, SimdAabb> for PointVisitor<'a> {
    type Result = u32;
    fn visit(&mut self, best: Real, bv: &SimdAabb, data: Option<[Option<&u32>; 4]>) -> SimdBestFirstVisitStatus<u32> {
        let mut weights = [0.0f64; 4]; let mut mask = [false; 4]; let mut results = [None; 4];
        for ii in 0..4 {
            match data {
                Some(d) => if let Some(id) = d[ii] {
                    let bx = self.cur.get(*id as usize).copied().unwrap_or_else(Aabb::new_invalid);
                    let c = dist2(&self.p, &bx);
                    weights[ii] = c; mask[ii] = c < best; results[ii] = Some(*id);
                },
                None => { let w = dist2(&self.p, &bv.extract(ii)); weights[ii] = w; mask[ii] = w < best; }
            }
        }
        SimdBestFirstVisitStatus::MaybeContinue { weights: SimdReal::from(weights), mask: SimdBool::from(mask), results }
    }
}

pub fn exec(func: &str, a: &mut Args) -> String {
    if func.starts_with("composite2_") { return comp2::exec(func, a); }
    if func.starts_with("composite_") { return comp::exec(func, a); }
    if func.starts_with("lane3_") || func.starts_with("nl3_") || func.starts_with("dv3_") || func.starts_with("tv3_") || func.starts_with("cp3_") { return lanes3::exec(func, a); }
    if func.starts_with("lane2_") || func.starts_with("nl2_") || func.starts_with("dv2_") || func.starts_with("tv2_") || func.starts_with("cp2_") { return lanes2::exec(func, a); }
    if func.starts_with("hf2_") { return hf2::exec(func, a); }
    if func.starts_with("hf3_") { return hf3::exec(func, a); }
    match func {
        "bf_point" => {
            let (q, cur, _) = c08::replay_cur(a, false);
            let p = d3::p(a);
            match q {
                None => "PANIC".into(),
                Some(q) => {
                    let mut v = PointVisitor { p, cur: &cur };
                    match q.traverse_best_first(&mut v) {
                        None => "none".into(),
                        Some((_, id)) => format!("some {}", ff(dist2(&p, &cur[id as usize]))),
                    }
                }
            }
        }
        _ => "nofn".into(),
    }
}

pub fn gen(r: &mut Rng, thorough: bool) -> Vec<(String, String)> {
    let mut v = comp::gen(r, thorough);
    v.extend(comp2::gen(r, thorough));
    let n = if thorough { 500 } else { 200 };
    for it in 0..n {
        let lat = it % 2 == 0;
        for (_, args) in c08::gen_history_for_queries(r, thorough, lat, 4) {
            v.push(("bf_point".to_string(), args));
        }
    }
    // families added later are generated last so that the earlier case streams stay unchanged
    v.extend(comp::gen_touch(r, thorough));
    v.extend(comp::gen_nlcast(r, thorough));
    v.extend(comp2::gen_touch(r, thorough));
    v.extend(comp2::gen_nlcast(r, thorough));
    v.extend(lanes3::gen(r, thorough));
    v.extend(lanes2::gen(r, thorough));
    v.extend(comp::gen_pairs(r, thorough));
    v.extend(lanes3::gen_dv(r, thorough));
    v.extend(lanes2::gen_dv(r, thorough));
    v.extend(hf2::gen(r, thorough));
    v.extend(lanes3::gen_tv(r, thorough));
    v.extend(lanes2::gen_tv(r, thorough));
    v.extend(hf3::gen(r, thorough));
    // the closest-points visitor has the same lane formula as the distance visitor: same argument families
    v.extend(lanes3::gen_dv(r, thorough).into_iter().map(|(_, a)| ("cp3_visit".to_string(), a)));
    v.extend(lanes2::gen_dv(r, thorough).into_iter().map(|(_, a)| ("cp2_visit".to_string(), a)));
    v
}


/// Composite-shape queries against the brute-force reduction over the parts (oracle-only family `composite_*`):
/// every function prints `<answer of the real composite query> ; <reduction of the SAME real per-part query over all parts>`.
/// The per-part calls are made exactly as the composite visitors make them (`part_pos.inv_mul(pos12)` …), so the two
/// answers agree up to the accuracy of the per-part routine; they are compared by value (cost), never by part id.
pub mod comp {
    use crate::util::*;
    use super::super::c03::{self, Sh};
    use crate::p3::bounding_volume::Aabb;
    use crate::p3::na::{self, DMatrix};
    use crate::p3::query::{self, ClosestPoints, DefaultQueryDispatcher, NonlinearRigidMotion, PointQuery, QueryDispatcher, Ray, RayCast, ShapeCastOptions};
    use crate::p3::shape::{Ball, Compound, HeightField, Polyline, Shape, SharedShape, TriMesh};
    use crate::p3::utils::IsometryOpt;
    use d3::{Isometry, Point, Real, Vector};

    // ---------------------------------------------------------------- composites on the wire
    #[derive(Clone)]
    pub enum Co {
        Compound(Vec<(Sh, Isometry<Real>)>),
        TriMesh(Vec<Point<Real>>, Vec<[u32; 3]>),
        Polyline(Vec<Point<Real>>),
        HeightField(usize, usize, Vec<f64>, Vector<Real>),
    }
    pub fn co(a: &mut Args) -> Co {
        match a.tok() {
            "compound" => { let n = a.u(); Co::Compound((0..n).map(|_| { let s = c03::sh(a); let m = d3::iso(a); (s, m) }).collect()) }
            "trimesh" => { let nv = a.u(); let vs = (0..nv).map(|_| d3::p(a)).collect(); let nt = a.u();
                           let is = (0..nt).map(|_| [a.u() as u32, a.u() as u32, a.u() as u32]).collect(); Co::TriMesh(vs, is) }
            "polyline" => { let nv = a.u(); Co::Polyline((0..nv).map(|_| d3::p(a)).collect()) }
            "heightfield" => { let nr = a.u(); let nc = a.u(); let hs = (0..nr * nc).map(|_| a.f()).collect(); Co::HeightField(nr, nc, hs, d3::v(a)) }
            k => panic!("composite kind {}", k),
        }
    }
    pub fn hco(c: &Co) -> String {
        match c {
            Co::Compound(ps) => format!("compound {} {}", ps.len(), ps.iter().map(|(s, m)| format!("{} {}", c03::hsh(s), d3::hiso(m))).collect::<Vec<_>>().join(" ")),
            Co::TriMesh(vs, is) => format!("trimesh {} {} {} {}", vs.len(), vs.iter().map(d3::hp).collect::<Vec<_>>().join(" "), is.len(),
                                           is.iter().map(|t| format!("{} {} {}", t[0], t[1], t[2])).collect::<Vec<_>>().join(" ")),
            Co::Polyline(vs) => format!("polyline {} {}", vs.len(), vs.iter().map(d3::hp).collect::<Vec<_>>().join(" ")),
            Co::HeightField(nr, nc, hs, sc) => format!("heightfield {} {} {} {}", nr, nc, hxs(hs.iter()), d3::hv(sc)),
        }
    }
    pub fn dynco(c: &Co) -> Box<dyn Shape> {
        match c {
            Co::Compound(ps) => Box::new(Compound::new(ps.iter().map(|(s, m)| (*m, SharedShape(c03::dynsh(s).into()))).collect())),
            Co::TriMesh(vs, is) => Box::new(TriMesh::new(vs.clone(), is.clone()).expect("trimesh")),
            Co::Polyline(vs) => Box::new(Polyline::new(vs.clone(), None)),
            Co::HeightField(nr, nc, hs, sc) => Box::new(HeightField::new(DMatrix::from_column_slice(*nr, *nc, hs), *sc)),
        }
    }

    /// the parts `(pose in the composite's frame, shape)`, independently of the composite's acceleration structure
    fn parts(c: &Co, g: &dyn Shape) -> Vec<(Option<Isometry<Real>>, Box<dyn Shape>)> {
        match c {
            Co::Compound(ps) => ps.iter().map(|(s, m)| (Some(*m), c03::dynsh(s))).collect(),
            Co::TriMesh(..) => g.as_trimesh().unwrap().triangles().map(|t| (None, Box::new(t) as Box<dyn Shape>)).collect(),
            Co::Polyline(..) => g.as_polyline().unwrap().segments().map(|t| (None, Box::new(t) as Box<dyn Shape>)).collect(),
            Co::HeightField(..) => g.as_heightfield().unwrap().triangles().map(|t| (None, Box::new(t) as Box<dyn Shape>)).collect(),
        }
    }

    fn fo(x: Option<f64>) -> String { match x { Some(v) => format!("v {}", ff(v)), None => "none".into() } }
    fn minf(xs: impl Iterator<Item = f64>) -> Option<f64> { xs.fold(None, |m, x| Some(match m { None => x, Some(y) => if x < y { x } else { y } })) }
    fn fcp(c: &ClosestPoints, pos12: &Isometry<Real>) -> (u8, f64) {
        match c { ClosestPoints::Intersecting => (0, 0.0), ClosestPoints::WithinMargin(p1, p2) => (1, na::distance(p1, &(pos12 * p2))), ClosestPoints::Disjoint => (2, 0.0) }
    }
    fn fcps(k: (u8, f64)) -> String { match k.0 { 0 => "I".into(), 1 => format!("v {}", ff(k.1)), _ => "D".into() } }

    /// every float of the case is a small dyadic rational (multiple of 2^-5, |x| <= 1024): with such inputs (and no
    /// heightfield, whose vertex abscissae are divided by the cell count) every bounding-box computation of the composite
    /// paths is exact in f64, so a touching configuration is a touching configuration for the real code as well
    pub fn lattice_args(a: &Args) -> bool {
        !a.t.iter().any(|t| *t == "heightfield") && a.t.iter().all(|t| {
            if t.len() != 16 { return true; }
            match u64::from_str_radix(t, 16) { Ok(bits) => { let x = f64::from_bits(bits); x.is_finite() && x.abs() <= 1024.0 && (x * 32.0).fract() == 0.0 }, Err(_) => true }
        })
    }
    pub fn exec(func: &str, a: &mut Args) -> String {
        let exact = lattice_args(a);
        // composite against composite: the pair poses go through two levels of frame changes
        let pair = a.t.iter().filter(|t| matches!(**t, "compound" | "trimesh" | "polyline" | "heightfield")).count() >= 2;
        let out = exec0(func, a);
        let out = if pair { format!("{} ; pair", out) } else { out };
        if exact { format!("{} ; exact", out) } else { out }
    }
    fn exec0(func: &str, a: &mut Args) -> String {
        let c = co(a); let pc = d3::iso(a);
        let gc = dynco(&c);
        let ps = parts(&c, &*gc);
        let d = DefaultQueryDispatcher;
        match func {
            // ---- nonlinear cast: composite, start pose, other shape, start pose, order flag, then for the composite and for
            // the other shape `local_center linvel angvel`, then start_time end_time stop_at_penetration
            "composite_nlcast" => {
                let x = c03::sh(a); let px = d3::iso(a); let first = a.b();
                let gx = c03::dynsh(&x);
                let mc = NonlinearRigidMotion::new(pc, d3::p(a), d3::v(a), d3::v(a));
                let mx = NonlinearRigidMotion::new(px, d3::p(a), d3::v(a), d3::v(a));
                let t0 = a.f(); let t1 = a.f(); let stop = a.b();
                let got = if first { query::cast_shapes_nonlinear(&mc, &*gc, &mx, &*gx, t0, t1, stop) } else { query::cast_shapes_nonlinear(&mx, &*gx, &mc, &*gc, t0, t1, stop) };
                let got = match got { Ok(v) => v, Err(_) => return "unsupported ; unsupported".into() };
                // per part, as the visitor does it: the part's motion is the composite's motion with the part pose prepended
                let tois: Vec<Option<f64>> = ps.iter().map(|(pp, s)| {
                    let mp = match pp { Some(pp) => mc.prepend(*pp), None => mc };
                    d.cast_shapes_nonlinear(&mp, &**s, &mx, &*gx, t0, t1, stop).ok().flatten().map(|h| h.time_of_impact) }).collect();
                let bf = minf(tois.iter().filter_map(|x| *x));
                // root-cause qualifier: when the composite misses the earliest part, was it the pruning logic or the pruning
                // PRIMITIVE?  The visitor masks a lane with the real ball-vs-ball nonlinear cast of the lane box's ball against the
                // other shape's bounding ball; if for some lane on the path from the root to that part this very cast reports no
                // impact up to the part's own time of impact, the primitive is not conservative (a defect of
                // `cast_shapes_nonlinear_support_map_support_map`, property C06); otherwise the traversal lost the part
                let mut qual = String::new();
                if let Some(tb) = bf {
                    if got.map(|h| h.time_of_impact > tb + 1.0e-4 * (1.0 + tb)).unwrap_or(true) {
                        let i = tois.iter().position(|x| *x == Some(tb)).unwrap();
                        let sph2 = gx.compute_local_bounding_sphere();
                        let b2 = Ball::new(sph2.radius());
                        let m2 = mx.prepend_translation(sph2.center.coords);
                        // every lane on the path root -> leaf of that part, with the ball the visitor builds for it
                        let qb = gc.as_composite_shape().unwrap().qbvh();
                        let (nodes, prox) = (qb.raw_nodes(), qb.raw_proxies());
                        let mut ni = prox[i].node;
                        for _ in 0..64 {
                            let nd = &nodes[ni.index as usize];
                            let bx = nd.simd_aabb.extract(ni.lane as usize);
                            let b1 = Ball::new((bx.maxs - bx.mins).norm());
                            let m1 = mc.prepend_translation(na::center(&bx.mins, &bx.maxs).coords);
                            let rb = query::details::cast_shapes_nonlinear_support_map_support_map(&d, &m1, &b1, &b1, &m2, &b2, &b2, t0, t1,
                                query::details::NonlinearShapeCastMode::StopAtPenetration).map(|h| h.time_of_impact);
                            if rb.map(|x| x > tb + 1.0e-4 * (1.0 + tb)).unwrap_or(true) { qual = " ; primmiss".into(); break; }
                            if ni.index == 0 { break; }
                            ni = nd.parent;
                        }
                    }
                }
                format!("{} ; {} ; lim {}{}", fo(got.map(|h| h.time_of_impact)), fo(bf), ff(t1), qual)
            }
            // ---- pairwise queries: composite, pose, other shape, pose, order flag (1 = composite first)
            "composite_distance" | "composite_it" | "composite_cp" | "composite_contact" | "composite_cast" => {
                let x = c03::sh(a); let px = d3::iso(a); let first = a.b();
                let gx = c03::dynsh(&x);
                // the composite is always `c`; `pos_cx` = pose of X in the composite's frame, computed as the entry points do
                let (p1, g1, p2, g2): (&Isometry<Real>, &dyn Shape, &Isometry<Real>, &dyn Shape) =
                    if first { (&pc, &*gc, &px, &*gx) } else { (&px, &*gx, &pc, &*gc) };
                let pos12 = p1.inv_mul(p2);
                let pos_cx = if first { pos12 } else { pos12.inverse() };
                // composite vs composite: the other shape is expanded into ITS parts as well, the brute force is the double
                // reduction over all (part, other part) pairs; for a simple other shape there is one "part" with no pose
                let xps: Vec<(Option<Isometry<Real>>, Box<dyn Shape>)> = match &x {
                    Sh::Compound(qs) => qs.iter().map(|(m, s)| (Some(*m), c03::dynsh(s))).collect(),
                    Sh::TriMesh(..) => gx.as_trimesh().unwrap().triangles().map(|t| (None, Box::new(t) as Box<dyn Shape>)).collect(),
                    _ => vec![(None, c03::dynsh(&x))] };
                // When the other shape is itself composite the real code, having reached part i of `c`, calls the query on
                // (part i, X); the dispatcher sees a composite SECOND argument, swaps the roles and reaches the parts of X with the
                // pair in the order (X-part j, part i).  The brute force calls the pair query in that same order and frame
                // (an order-asymmetry of a pair query is a matter for C02/C03/C06, not a pruning fault).
                // (With X first the outer loop runs over the parts of X, the inner swap brings the pair back to (part i, X-part j).)
                let xcomp = matches!(x, Sh::Compound(_) | Sh::TriMesh(..));
                let nested = first && xcomp;
                // With X (composite) first the outer loop runs over the parts of X, the inner call swaps and reaches the parts of
                // `c`: the pair comes back in the order (part i, X-part j), its pose is composed as the real code composes it:
                // `pose1 = q_j⁻¹·pos12`, then `pp_i⁻¹·pose1⁻¹`.
                let nested2 = !first && xcomp;
                // (pose of the second shape in the first one's frame, first, second, pose of part i, pose of X-part j, outer pose)
                let pairs: Vec<(Isometry<Real>, &dyn Shape, &dyn Shape, Option<Isometry<Real>>, Option<Isometry<Real>>, Isometry<Real>)> = ps.iter().flat_map(|(pp, s)| {
                    let m0 = pp.as_ref().inv_mul(&pos_cx);
                    xps.iter().map(move |(q, sx)|
                        if nested { (q.as_ref().inv_mul(&m0.inverse()), &**sx, &**s, *pp, *q, m0) }
                        else if nested2 { let pose1 = q.as_ref().inv_mul(&pos12); (pp.as_ref().inv_mul(&pose1.inverse()), &**s, &**sx, *pp, *q, pose1) }
                        else { (match q { Some(q) => m0 * q, None => m0 }, &**s, &**sx, *pp, *q, m0) }) }).collect();
                match func {
                    "composite_distance" => {
                        let got = match query::distance(p1, g1, p2, g2) { Ok(v) => v, Err(_) => return "unsupported ; unsupported".into() };
                        let bf = minf(pairs.iter().filter_map(|(m, s, sx, ..)| d.distance(m, *s, *sx).ok()));
                        format!("v {} ; {}", ff(got), fo(bf))
                    }
                    "composite_it" => {
                        let got = match query::intersection_test(p1, g1, p2, g2) { Ok(v) => v, Err(_) => return "unsupported ; unsupported".into() };
                        let bf = pairs.iter().any(|(m, s, sx, ..)| d.intersection_test(m, *s, *sx).unwrap_or(false));
                        // qualifier: signed gap of the closest / deepest part (a verdict may legitimately differ only when the shapes merely touch)
                        let tie = minf(pairs.iter().filter_map(|(m, s, sx, ..)| d.contact(m, *s, *sx, 1.0).ok().flatten().map(|c| c.dist)));
                        // the per-part verdicts must agree among themselves (C02); if they do not, say so instead of blaming the reduction
                        let dmin = minf(pairs.iter().filter_map(|(m, s, sx, ..)| d.distance(m, *s, *sx).ok()));
                        if bf && !got && dmin.map(|x| x > 1.0e-9).unwrap_or(false) { return format!("{} ; X ; tie {}", b(got), fo(dmin)); }
                        format!("{} ; {} ; tie {}", b(got), b(bf), fo(tie))
                    }
                    "composite_cp" => {
                        let margin = a.f();
                        let got = match query::closest_points(p1, g1, p2, g2, margin) { Ok(v) => v, Err(_) => return "unsupported ; unsupported".into() };
                        // the entry point returns world-space points
                        let gk = fcp(&got, &Isometry::identity());
                        let mut best: (u8, f64) = (2, 0.0);
                        for (m, s, sx, ..) in &pairs {
                            if let Ok(r) = d.closest_points(m, *s, *sx, margin) {
                                let k = fcp(&r, m);
                                if k.0 == 0 { best = (0, 0.0); break; }
                                if k.0 == 1 && (best.0 == 2 || k.1 < best.1) { best = k; }
                            }
                        }
                        format!("{} ; {} ; lim {}", fcps(gk), fcps(best), ff(margin))
                    }
                    "composite_contact" => {
                        let pred = a.f();
                        let got = match query::contact(p1, g1, p2, g2, pred) { Ok(v) => v, Err(_) => return "unsupported ; unsupported".into() };
                        let bf = minf(pairs.iter().filter_map(|(m, s, sx, ..)| d.contact(m, *s, *sx, pred).ok().flatten().map(|c| c.dist)));
                        format!("{} ; {} ; lim {}", fo(got.map(|c| c.dist)), fo(bf), ff(pred))
                    }
                    _ => {
                        let vel = d3::v(a); let max_toi = a.f(); let target = a.f(); let stop = a.b();
                        let opts = ShapeCastOptions { max_time_of_impact: max_toi, target_distance: target, stop_at_penetration: stop, compute_impact_geometry_on_penetration: true };
                        // relative velocity of shape 2 w.r.t. shape 1 expressed in the frame of shape 1
                        let vel12 = vel;
                        let got = match d.cast_shapes(&pos12, &vel12, g1, g2, opts) { Ok(v) => v, Err(_) => return "unsupported ; unsupported".into() };
                        let vel_cx = if first { vel12 } else { -pos12.inverse_transform_vector(&vel12) };
                        let mut pi = 0;
                        let mut best_pair: Option<(f64, Isometry<Real>, Vector<Real>, usize)> = None;
                        let bf = minf(pairs.iter().enumerate().filter_map(|(idx, (m, s, sx, pp, q, m0))| {
                            let v0 = match pp { Some(pp) => pp.inverse_transform_vector(&vel_cx), None => vel_cx };
                            let v = if nested { let vin = -m0.inverse_transform_vector(&v0); match q { Some(q) => q.inverse_transform_vector(&vin), None => vin } }
                                    else if nested2 { let v1 = match q { Some(q) => q.inverse_transform_vector(&vel12), None => vel12 }; let v2 = -m0.inverse_transform_vector(&v1);
                                                      match pp { Some(pp) => pp.inverse_transform_vector(&v2), None => v2 } }
                                    else { v0 };
                            let r = d.cast_shapes(m, &v, *s, *sx, opts);
                            if std::env::var("VERIF_DBG").is_ok() { if let Ok(Some(h)) = &r { eprintln!("part {} {:?} toi {} m {:?} v {:?} a {:?} b {:?}", pi, s.as_triangle(), h.time_of_impact, m, v, s.shape_type(), sx.shape_type()); } else { eprintln!("pair {} none m {:?} v {:?} a {:?} b {:?}", pi, m, v, s.shape_type(), sx.shape_type()); } }
                            pi += 1;
                            let t = r.ok().flatten().map(|h| h.time_of_impact);
                            if let Some(t) = t { if best_pair.map(|b| t < b.0).unwrap_or(true) { best_pair = Some((t, *m, v, idx)); } }
                            t }));
                        // tie qualifier: the composite misses the earliest pair although the pair's own cast reports an impact - is that
                        // impact a GRAZING one?  The two parts' boxes (second one moving with the pair's velocity) overlap during
                        // [t_in, t_out]; when that interval is empty or a single instant the pair merely grazes (corner on corner, exactly
                        // or within rounding) and the conservative box test of the visitor sits on the same knife edge
                        let mut graze = "";
                        if let Some((tb, m, v, idx)) = best_pair {
                            if got.map(|h| h.time_of_impact > tb + 1.0e-4 * (1.0 + tb)).unwrap_or(true) {
                                let (a_, b_) = (pairs[idx].1, pairs[idx].2);
                                let (ba, bb) = (a_.compute_local_aabb(), b_.compute_aabb(&m));
                                let (mut tin, mut tout) = (f64::NEG_INFINITY, f64::INFINITY);
                                for k in 0..3 {
                                    if v[k] == 0.0 { if bb.maxs[k] < ba.mins[k] || ba.maxs[k] < bb.mins[k] { tout = f64::NEG_INFINITY; } }
                                    else { let (t1, t2) = ((ba.mins[k] - bb.maxs[k]) / v[k], (ba.maxs[k] - bb.mins[k]) / v[k]);
                                           tin = tin.max(t1.min(t2)); tout = tout.min(t1.max(t2)); }
                                }
                                if tout - tin <= 1.0e-9 * (1.0 + tb.abs()) { graze = " ; graze"; }
                            }
                        }
                        if std::env::var("VERIF_DBG").is_ok() && nested2 { for (j, (q, sx)) in xps.iter().enumerate() {
                            let pose1 = q.as_ref().inv_mul(&pos12); let v1 = match q { Some(q) => q.inverse_transform_vector(&vel12), None => vel12 };
                            eprintln!("X-part {} vs c: {:?}  (pose1 {:?} v1 {:?})", j, d.cast_shapes(&pose1, &v1, &**sx, &*gc, opts).map(|h| h.map(|h| (h.time_of_impact, h.status))), pose1, v1);
                            let p2 = pose1.inverse(); let v2 = -pose1.inverse_transform_vector(&v1);
                            eprintln!("   swapped c vs X-part {}: {:?} aabb2 {:?}", j, d.cast_shapes(&p2, &v2, &*gc, &**sx, opts).map(|h| h.map(|h| (h.time_of_impact, h.status))), sx.compute_aabb(&p2));
                            for (k, (pp, s)) in ps.iter().enumerate() { let m = pp.as_ref().inv_mul(&p2); let v = match pp { Some(pp) => pp.inverse_transform_vector(&v2), None => v2 };
                                eprintln!("      seg {} : {:?} aabb1 {:?}", k, d.cast_shapes(&m, &v, &**s, &**sx, opts).map(|h| h.map(|h| (h.time_of_impact, h.status))), s.compute_local_aabb()); } } }
                        if std::env::var("VERIF_DBG").is_ok() { for (k, (pp, s)) in ps.iter().enumerate() {
                            let m0 = pp.as_ref().inv_mul(&pos_cx); let v0 = match pp { Some(pp) => pp.inverse_transform_vector(&vel_cx), None => vel_cx };
                            eprintln!("outer part {} vs X: {:?}", k, d.cast_shapes(&m0, &v0, &**s, &*gx, opts).map(|h| h.map(|h| (h.time_of_impact, h.status))));
                            for (q, sx) in &xps { let m = match q { Some(q) => m0 * q, None => m0 };
                                eprintln!("    pair: {:?} dist {:?}", d.cast_shapes(&m, &v0, &**s, &**sx, opts).map(|h| h.map(|h| (h.time_of_impact, h.status))), d.distance(&m, &**s, &**sx)); } } }
                        if std::env::var("VERIF_DBG").is_ok() { eprintln!("pos_cx {:?} vel_cx {:?} aabb_x {:?} aabb_c {:?}", pos_cx, vel_cx, gx.compute_aabb(&pos_cx), gc.compute_local_aabb()); }
                        format!("{} ; {} ; lim {}{}", fo(got.map(|h| h.time_of_impact)), fo(bf), ff(max_toi), graze)
                    }
                }
            }
            "composite_ray" => {
                let ray = Ray::new(d3::p(a), d3::v(a)); let max_toi = a.f(); let solid = a.b();
                let got = gc.cast_ray(&pc, &ray, max_toi, solid);
                let got_n = gc.cast_ray_and_get_normal(&pc, &ray, max_toi, solid).map(|i| i.time_of_impact);
                let ls = ray.inverse_transform_by(&pc);
                let bf = minf(ps.iter().filter_map(|(pp, s)| match pp { Some(pp) => s.cast_ray(pp, &ls, max_toi, solid), None => s.cast_local_ray(&ls, max_toi, solid) }));
                // like with like: the normal-returning composite visitor calls the parts' `cast_ray_and_get_normal`
                let bf_n = minf(ps.iter().filter_map(|(pp, s)| match pp { Some(pp) => s.cast_ray_and_get_normal(pp, &ls, max_toi, solid), None => s.cast_local_ray_and_get_normal(&ls, max_toi, solid) }.map(|i| i.time_of_impact)));
                format!("{} {} ; {} {} ; lim {}", fo(got), fo(got_n), fo(bf), fo(bf_n), ff(max_toi))
            }
            "composite_point" => {
                let pt = d3::p(a); let solid = a.b();
                let lp = pc.inverse_transform_point(&pt);
                let got = gc.project_local_point(&lp, solid);
                let gd = na::distance(&lp, &got.point);
                let gdist = gc.distance_to_local_point(&lp, solid);
                let contains = gc.contains_local_point(&lp);
                let bf = minf(ps.iter().map(|(pp, s)| { let pr = match pp { Some(pp) => s.project_point(pp, &lp, solid), None => s.project_local_point(&lp, solid) }; na::distance(&lp, &pr.point) }));
                let bc = ps.iter().any(|(pp, s)| match pp { Some(pp) => s.contains_point(pp, &lp), None => s.contains_local_point(&lp) });
                // HeightField::contains_local_point is documented to be `false`; TriMesh/Polyline parts have no interior
                let cmp_contains = matches!(c, Co::Compound(_));
                let bd = minf(ps.iter().map(|(pp, s)| { let pr = match pp { Some(pp) => s.project_point(pp, &lp, false), None => s.project_local_point(&lp, false) }; na::distance(&lp, &pr.point) }));
                format!("v {} v {} {} ; {} {} {} ; tie {}", ff(gd), ff(gdist.abs()), if cmp_contains { b(contains) } else { "-" }, fo(bf), fo(bf), if cmp_contains { b(bc) } else { "-" }, fo(bd))
            }
            "composite_aabb" => {
                let bx = Aabb::new(d3::p(a), d3::p(a));
                let mut got: Vec<u32> = Vec::new();
                match &c {
                    Co::HeightField(..) => {
                        // contract: every triangle whose box overlaps the query box is reported (a superset is allowed;
                        // boxes that merely touch the query box are not demanded)
                        let hf = gc.as_heightfield().unwrap();
                        hf.map_elements_in_local_aabb(&bx, &mut |i, _t| { got.push(i); });
                        let ntri = 2 * (hf.nrows() * hf.ncols()) as u32;
                        let strict = |t: &Aabb| (0..3).all(|k| t.mins[k] < bx.maxs[k] && bx.mins[k] < t.maxs[k] || (t.mins[k] == t.maxs[k] && bx.mins[k] < t.mins[k] && t.mins[k] < bx.maxs[k]));
                        let missed = (0..ntri).filter(|id| match hf.triangle_at_id(*id) { Some(t) => strict(&t.local_aabb()) && !got.contains(id), None => false }).count();
                        return format!("sup 0 ; sup {}", missed);
                    }
                    _ => {
                        let comp = gc.as_composite_shape().unwrap();
                        comp.qbvh().intersect_aabb(&bx, &mut got);
                        got.sort();
                        let mut bf: Vec<u32> = ps.iter().enumerate().filter(|(_, (pp, s))| match pp { Some(pp) => s.compute_aabb(pp), None => s.compute_local_aabb() }.intersects(&bx)).map(|(i, _)| i as u32).collect();
                        bf.sort();
                        format!("ids {} ; ids {}", got.iter().map(|x| x.to_string()).collect::<Vec<_>>().join(","), bf.iter().map(|x| x.to_string()).collect::<Vec<_>>().join(","))
                    }
                }
            }
            _ => "nofn".into(),
        }
    }
    use crate::p3::bounding_volume::BoundingVolume;
    /// index (in `triangles()` order) of a triangle handed out by `map_elements_in_local_aabb`, by value
    fn tri_key(t: &crate::p3::shape::Triangle, ps: &[(Option<Isometry<Real>>, Box<dyn Shape>)]) -> u32 {
        for (i, (_, s)) in ps.iter().enumerate() {
            let u = s.as_triangle().unwrap();
            if u.a == t.a && u.b == t.b && u.c == t.c { return i as u32; }
        }
        u32::MAX
    }

    // ---------------------------------------------------------------- generators
    fn unit_parts(r: &mut Rng, lat: bool, kind: u64) -> Sh {
        match kind {
            0 => Sh::Cuboid(Vector::new(0.5, 0.5, 0.5)),
            1 => Sh::Ball(0.5),
            2 => Sh::Capsule(Point::new(-0.25, 0.0, 0.0), Point::new(0.25, 0.0, 0.0), 0.25),
            3 => Sh::Cuboid(Vector::new(r.pos_extent(lat).min(1.0), 0.25, 0.5)),
            _ => c03::gen_shape(r, lat, &[0, 1, 3]),
        }
    }
    /// rows / grids of parts with rotated part poses, duplicated and degenerate parts
    /// rotations whose quaternion has dyadic coefficients (identity, half turns about the axes, thirds of a turn about the
    /// cube diagonals): they map lattice points to lattice points without rounding
    pub fn qexact(r: &mut Rng) -> [f64; 4] {
        match r.below(3) {
            0 => [0.0, 0.0, 0.0, 1.0],
            1 => { let mut q = [0.0; 4]; q[r.below(4) as usize] = if r.bool() { 1.0 } else { -1.0 }; q }
            _ => { let mut q = [0.5; 4]; for x in q.iter_mut() { if r.bool() { *x = -*x; } } q }
        }
    }
    fn uq(q: [f64; 4]) -> na::UnitQuaternion<Real> { na::Unit::new_unchecked(na::Quaternion::new(q[3], q[0], q[1], q[2])) }
    fn gen_compound(r: &mut Rng, lat: bool) -> Co { gen_compound_x(r, lat, false) }
    fn gen_compound_x(r: &mut Rng, lat: bool, exact: bool) -> Co {
        let n = 5 + r.below(36) as usize;
        let kind = r.below(6);
        let layout = r.below(4);
        let pitch = if exact { *r.pick(&[1.0, 1.5, 2.0]) } else { *r.pick(&[1.5, 2.0, 3.0]) };
        let mut ps = Vec::new();
        for k in 0..n {
            let t = match layout {
                0 => Vector::new(pitch * k as f64, 0.0, 0.0),
                1 => Vector::new(pitch * (k % 4) as f64, pitch * (k / 4) as f64, 0.0),
                2 => Vector::new(pitch * (k % 3) as f64, pitch * ((k / 3) % 3) as f64, pitch * (k / 9) as f64),
                _ => d3::gen_v(r, lat, 10.0),
            };
            let ql = lat || r.bool(); let q = if exact { qexact(r) } else { d3::gen_quat(r, ql) };
            let m = Isometry::from_parts(na::Translation3::from(t), na::Unit::new_unchecked(na::Quaternion::new(q[3], q[0], q[1], q[2])));
            let kk = if kind == 5 { r.below(5) } else { kind }; let s = unit_parts(r, lat, kk);
            ps.push((s, m));
            if r.below(12) == 0 { let last = ps.last().unwrap().clone(); ps.push(last); }           // duplicated part
            if r.below(15) == 0 { ps.push((Sh::Segment(Point::new(0.0, 0.0, 0.0), Point::new(0.5, 0.0, 0.0)), m)); } // flat part
        }
        Co::Compound(ps)
    }
    fn gen_grid_mesh(r: &mut Rng, lat: bool) -> Co {
        let nx = 2 + r.below(5) as usize; let ny = 2 + r.below(5) as usize;
        let mut vs = Vec::new();
        for j in 0..=ny { for i in 0..=nx {
            let h = if r.below(3) == 0 { 0.0 } else if lat { r.range(-2, 2) as f64 * 0.5 } else { r.uniform(-1.0, 1.0) };
            vs.push(Point::new(i as f64 * 1.5, h, j as f64 * 1.5));
        } }
        let mut is = Vec::new();
        let w = (nx + 1) as u32;
        for j in 0..ny as u32 { for i in 0..nx as u32 {
            let a = j * w + i;
            if (i + j) % 2 == 0 { is.push([a, a + w, a + 1]); is.push([a + 1, a + w, a + w + 1]); }
            else { is.push([a, a + w, a + w + 1]); is.push([a, a + w + 1, a + 1]); }
        } }
        Co::TriMesh(vs, is)
    }
    fn gen_primitive_mesh(r: &mut Rng, lat: bool) -> Co {
        use crate::p3::shape::{Ball, Cuboid};
        let (vs, is) = if r.bool() { Cuboid::new(d3::gen_he(r, lat)).to_trimesh() } else { Ball::new(r.pos_extent(true)).to_trimesh(4 + r.below(4) as u32, 4 + r.below(4) as u32) };
        Co::TriMesh(vs, is)
    }
    fn gen_polyline(r: &mut Rng, lat: bool) -> Co {
        let n = 6 + r.below(30) as usize;
        let mut vs = Vec::new();
        let mut p = Point::new(0.0, 0.0, 0.0);
        for k in 0..n {
            vs.push(p);
            let step = if lat { Vector::new(1.0, *r.pick(&[-1.0, 0.0, 0.5, 1.0]), *r.pick(&[-0.5, 0.0, 0.5])) } else { Vector::new(r.uniform(0.2, 1.5), r.uniform(-1.0, 1.0), r.uniform(-1.0, 1.0)) };
            p += step * if k % 7 == 6 { 3.0 } else { 1.0 };
        }
        Co::Polyline(vs)
    }
    fn gen_heightfield(r: &mut Rng, lat: bool) -> Co {
        let nr = 2 + r.below(6) as usize; let nc = 2 + r.below(6) as usize;
        let flat = r.below(4) == 0;
        let hs = (0..nr * nc).map(|_| if flat { 0.5 } else if lat { r.range(-4, 4) as f64 * 0.25 } else { r.uniform(-1.0, 1.0) }).collect();
        let sc = if lat { Vector::new(*r.pick(&[2.0, 4.0, 8.0]), *r.pick(&[1.0, 2.0]), *r.pick(&[2.0, 4.0, 8.0])) } else { Vector::new(r.uniform(2.0, 10.0), r.uniform(0.5, 3.0), r.uniform(2.0, 10.0)) };
        Co::HeightField(nr, nc, hs, sc)
    }
    fn local_box(c: &Co) -> Aabb { dynco(c).compute_local_aabb() }

    /// the other shape: compact ones and long "bars" that stick out of the BVH node boxes on either side
    fn gen_other(r: &mut Rng, lat: bool) -> Sh {
        match r.below(7) {
            0 => Sh::Ball(r.pos_extent(lat).min(3.0)),
            1 => Sh::Cuboid(Vector::new(*r.pick(&[0.6, 1.5, 3.0, 6.0]), 0.6, 0.6)),                      // bar along x
            2 => { let mut he = Vector::new(0.6, 0.6, 0.6); he[r.below(3) as usize] = *r.pick(&[1.5, 3.0, 6.0]); Sh::Cuboid(he) }
            3 => { let l = *r.pick(&[0.5, 2.0, 5.0]); let ax = r.below(3) as usize; let mut p = Point::origin(); p[ax] = l; Sh::Capsule(Point::from(-p.coords), p, *r.pick(&[0.25, 0.5])) }
            4 => c03::gen_shape(r, lat, &[4]),
            5 => Sh::Cuboid(d3::gen_he(r, lat)),
            _ => c03::gen_shape(r, lat, &[0, 1, 3]),
        }
    }
    /// pose of the other shape in the composite's frame: near a random part / cell, shifted by lattice gaps towards either
    /// side of every axis (overlapping, touching, separated), sometimes far away
    fn gen_rel_pose(r: &mut Rng, lat: bool, c: &Co) -> Isometry<Real> {
        let bx = local_box(c);
        let anchor = match c {
            Co::Compound(ps) => ps[r.below(ps.len() as u64) as usize].1.translation.vector,
            Co::TriMesh(vs, _) | Co::Polyline(vs) => vs[r.below(vs.len() as u64) as usize].coords,
            Co::HeightField(..) => Vector::new(r.uniform(bx.mins.x, bx.maxs.x), r.uniform(bx.mins.y, bx.maxs.y), r.uniform(bx.mins.z, bx.maxs.z)),
        };
        let off = if lat { Vector::new(*r.pick(&[-3.0, -1.5, -0.9, -0.5, 0.0, 0.1, 0.5, 0.9, 1.5, 3.0]), *r.pick(&[-1.5, -0.5, 0.0, 0.1, 0.5, 1.5]), *r.pick(&[-1.5, -0.1, 0.0, 0.5, 1.5])) }
                  else { d3::gen_v(r, false, 3.0) };
        let far = if r.below(10) == 0 { d3::gen_v(r, lat, 30.0) } else { Vector::zeros() };
        let q = if r.below(3) == 0 { [0.0, 0.0, 0.0, 1.0] } else { d3::gen_quat(r, lat) };
        Isometry::from_parts(na::Translation3::from(anchor + off + far), na::Unit::new_unchecked(na::Quaternion::new(q[3], q[0], q[1], q[2])))
    }

    // ---------------------------------------------------------------- exact touching configurations (lattice)
    fn part_boxes(c: &Co) -> Vec<Aabb> {
        let g = dynco(c);
        parts(c, &*g).iter().map(|(pp, s)| match pp { Some(pp) => s.compute_aabb(pp), None => s.compute_local_aabb() }).collect()
    }
    fn gen_touch_composite(r: &mut Rng) -> Co {
        match r.below(5) { 0 | 1 | 2 => gen_compound_x(r, true, true), 3 => gen_grid_mesh(r, true), _ => gen_polyline(r, true) }
    }
    fn gen_touch_other(r: &mut Rng) -> Sh {
        match r.below(6) {
            0 => Sh::Ball(*r.pick(&[0.25, 0.5, 1.0])),
            1 => Sh::Cuboid(Vector::new(*r.pick(&[0.5, 1.0, 3.0]), *r.pick(&[0.25, 0.5]), *r.pick(&[0.5, 2.0]))),
            2 => { let mut p = Point::origin(); p[r.below(3) as usize] = *r.pick(&[0.5, 2.0]); Sh::Capsule(Point::from(-p.coords), p, *r.pick(&[0.25, 0.5])) }
            3 => c03::gen_shape(r, true, &[4]),
            4 => c03::gen_shape(r, true, &[5]),
            _ => Sh::Capsule(Point::new(0.5, 0.0, 0.25), Point::new(1.5, 1.0, 0.25), 0.25),     // off-centre
        }
    }
    /// pose of `x` (in the composite's frame) such that its box, loosened by `gap`, touches the box `pb` of a part exactly:
    /// on the `plus`/minus side of axis `k`, overlapping it along the other axes
    fn touch_pose(r: &mut Rng, pb: &Aabb, x: &Sh, gap: f64, k: usize, plus: bool) -> Isometry<Real> {
        let rot = uq(qexact(r));
        let xb = c03::dynsh(x).compute_aabb(&Isometry::from_parts(na::Translation3::identity(), rot));
        let mut t = Vector::zeros();
        for j in 0..3 {
            t[j] = if j == k { if plus { pb.maxs[j] + gap - xb.mins[j] } else { pb.mins[j] - gap - xb.maxs[j] } }
                   else { (pb.mins[j] + pb.maxs[j]) * 0.5 - (xb.mins[j] + xb.maxs[j]) * 0.5 + *r.pick(&[-0.5, 0.0, 0.0, 0.25]) };
        }
        Isometry::from_parts(na::Translation3::from(t), rot)
    }
    fn exact_world(r: &mut Rng) -> Isometry<Real> {
        if r.bool() { Isometry::identity() } else { Isometry::from_parts(na::Translation3::from(d3::gen_v(r, true, 8.0)), uq(qexact(r))) }
    }
    pub fn gen_touch(r: &mut Rng, thorough: bool) -> Vec<(String, String)> {
        let mut v = Vec::new();
        let n = if thorough { 500 } else { 60 };
        for _ in 0..n {
            let c = gen_touch_composite(r);
            let world = exact_world(r);
            let hc = format!("{} {}", hco(&c), d3::hiso(&world));
            let boxes = part_boxes(&c);
            for _ in 0..2 {
                let x = gen_touch_other(r);
                let gap = *r.pick(&[0.0, 0.0, 0.25, 0.5]);
                let pb = boxes[r.below(boxes.len() as u64) as usize];
                let k = r.below(3) as usize; let plus = r.bool();
                let rel = touch_pose(r, &pb, &x, gap, k, plus);
                let hx_ = format!("{} {}", c03::hsh(&x), d3::hiso(&(world * rel)));
                for first in [true, false] {
                    let base = format!("{} {} {}", hc, hx_, b(first));
                    v.push(("composite_distance".into(), base.clone()));
                    v.push(("composite_it".into(), base.clone()));
                    v.push(("composite_cp".into(), format!("{} {}", base, hx(gap))));
                    v.push(("composite_contact".into(), format!("{} {}", base, hx(gap))));
                    // casts: start `back` behind the touching pose and approach along the axis, or slide along the part
                    let mut e = Vector::zeros(); e[k] = if plus { 1.0 } else { -1.0 };
                    let back = *r.pick(&[0.0, 1.0, 2.0]);
                    let start = Isometry::from_parts(na::Translation3::from(rel.translation.vector + e * back), rel.rotation);
                    let mut vel = if r.below(3) == 0 { let mut s = Vector::zeros(); s[(k + 1) % 3] = 1.0; s } else { -e * *r.pick(&[0.5, 1.0, 2.0]) };
                    if !first { vel = -(start.inverse_transform_vector(&vel)); }
                    let hs_ = format!("{} {} {} {}", hc, c03::hsh(&x), d3::hiso(&(world * start)), b(first));
                    // `composite_cast` takes the velocity in the frame of shape 1: the composite's frame (first) or x's frame
                    v.push(("composite_cast".into(), format!("{} {} {} {} {}", hs_, d3::hv(&vel), hx(*r.pick(&[1.0, 2.0, 1.0e3])), hx(if r.bool() { gap } else { 0.0 }), b(r.bool()))));
                }
            }
            for _ in 0..3 {
                let pb = boxes[r.below(boxes.len() as u64) as usize];
                let k = r.below(3) as usize; let plus = r.bool();
                let ctr = na::center(&pb.mins, &pb.maxs);
                // points on faces / edges / corners of a part's box
                let mut pt = ctr; for j in 0..3 { pt[j] = *r.pick(&[pb.mins[j], ctr[j], pb.maxs[j]]); }
                v.push(("composite_point".into(), format!("{} {} {}", hc, d3::hp(&(world * pt)), b(r.bool()))));
                // query boxes that touch the part's box exactly on one side of one axis
                let he = Vector::new(*r.pick(&[0.25, 0.5, 1.0, 4.0]), *r.pick(&[0.25, 0.5, 1.0, 4.0]), *r.pick(&[0.25, 0.5, 1.0, 4.0]));
                let mut cq = ctr; for j in 0..3 { if j != k { cq[j] += *r.pick(&[-0.5, 0.0, 0.25]); } }
                cq[k] = if plus { pb.maxs[k] + he[k] } else { pb.mins[k] - he[k] };
                v.push(("composite_aabb".into(), format!("{} {} {}", hc, d3::hp(&(cq - he)), d3::hp(&(cq + he)))));
                // rays grazing a face of the box, and rays that reach the box exactly at max_toi
                let j = (k + 1 + r.below(2) as usize) % 3;
                let mut org = ctr; org[k] = if plus { pb.maxs[k] } else { pb.mins[k] }; org[j] = pb.mins[j] - 2.0;
                let mut dir = Vector::zeros(); dir[j] = *r.pick(&[0.5, 1.0, 2.0]);
                if r.bool() { org = ctr; org[k] = if plus { pb.maxs[k] + 2.0 } else { pb.mins[k] - 2.0 }; dir = Vector::zeros(); dir[k] = if plus { -1.0 } else { 1.0 }; }
                v.push(("composite_ray".into(), format!("{} {} {} {} {}", hc, d3::hp(&(world * org)), d3::hv(&(world * dir)), hx(*r.pick(&[2.0, 4.0, 1.0e3])), b(r.bool()))));
            }
        }
        v
    }

    // ---------------------------------------------------------------- composite against composite
    /// a small composite as the OTHER shape (2-6 parts / 12 triangles); `exact`: dyadic poses only
    fn gen_other_composite(r: &mut Rng, lat: bool, exact: bool) -> Sh {
        if r.below(4) == 0 {
            use crate::p3::shape::Cuboid;
            let (vs, is) = Cuboid::new(Vector::new(*r.pick(&[0.5, 1.0]), *r.pick(&[0.25, 0.5]), *r.pick(&[0.5, 2.0]))).to_trimesh();
            Sh::TriMesh(0, vs, is)
        } else {
            let n = 2 + r.below(5) as usize;
            Sh::Compound((0..n).map(|_| {
                let t = if exact || lat { Vector::new(*r.pick(&[-1.0, 0.0, 0.5, 1.5]), *r.pick(&[-0.5, 0.0, 1.0]), *r.pick(&[-1.0, 0.0, 0.5])) } else { d3::gen_v(r, false, 1.5) };
                let q = if exact { qexact(r) } else { d3::gen_quat(r, lat) };
                let kind = r.below(4);
                (Isometry::from_parts(na::Translation3::from(t), uq(q)), unit_parts(r, true, kind)) }).collect())
        }
    }
    pub fn gen_pairs(r: &mut Rng, thorough: bool) -> Vec<(String, String)> {
        let mut v = Vec::new();
        let n = if thorough { 250 } else { 30 };
        for it in 0..n {
            let lat = it % 2 == 0; let exact = it % 4 == 0;
            let c = if exact { gen_touch_composite(r) } else { match it % 3 { 0 => gen_compound(r, lat), 1 => gen_grid_mesh(r, lat), _ => gen_polyline(r, lat) } };
            let world = if exact { exact_world(r) } else if r.below(3) == 0 { Isometry::identity() } else { d3::gen_iso(r, lat, 20.0) };
            let hc = format!("{} {}", hco(&c), d3::hiso(&world));
            let boxes = part_boxes(&c);
            for _ in 0..2 {
                let x = gen_other_composite(r, lat, exact);
                let gap = *r.pick(&[0.0, 0.0, 0.25, 0.5]);
                let rel = if exact { let pb = boxes[r.below(boxes.len() as u64) as usize]; let k = r.below(3) as usize; let plus = r.bool(); touch_pose(r, &pb, &x, gap, k, plus) } else { gen_rel_pose(r, lat, &c) };
                let hx_ = format!("{} {}", c03::hsh(&x), d3::hiso(&(world * rel)));
                for first in [true, false] {
                    let base = format!("{} {} {}", hc, hx_, b(first));
                    v.push(("composite_distance".into(), base.clone()));
                    v.push(("composite_it".into(), base.clone()));
                    let par = if exact { gap } else { c03::gen_param(r, lat) };
                    v.push(("composite_cp".into(), format!("{} {}", base, hx(par))));
                    v.push(("composite_contact".into(), format!("{} {}", base, hx(par))));
                    let vel = if rel.translation.vector.norm() > 1e-3 && r.bool() { -rel.translation.vector.normalize() * r.pos_extent(true) } else { d3::gen_v(r, true, 3.0) };
                    let vel = if first { vel } else { -(rel.inverse_transform_vector(&vel)) };
                    v.push(("composite_cast".into(), format!("{} {} {} {} {}", base, d3::hv(&vel), hx(*r.pick(&[2.0, 1.0e3])), hx(0.0), b(r.bool()))));
                }
            }
        }
        v
    }

    // ---------------------------------------------------------------- nonlinear casts
    pub fn gen_nlcast(r: &mut Rng, thorough: bool) -> Vec<(String, String)> {
        let mut v = Vec::new();
        let n = if thorough { 400 } else { 50 };
        for it in 0..n {
            let lat = it % 2 == 0;
            let c = match it % 5 { 0 | 1 => gen_compound(r, lat), 2 => gen_grid_mesh(r, lat), 3 => gen_compound_x(r, true, true), _ => gen_polyline(r, lat) };
            let world = if r.below(3) == 0 { Isometry::identity() } else { d3::gen_iso(r, lat, 20.0) };
            let hc = format!("{} {}", hco(&c), d3::hiso(&world));
            let boxes = part_boxes(&c);
            for _ in 0..2 {
                // the other shape: mostly shapes whose bounding sphere is NOT centred at their local origin
                let x = match r.below(6) { 0 => Sh::Ball(*r.pick(&[0.25, 0.5])), 1 => Sh::Cuboid(d3::gen_he(r, true) * 0.5),
                                           2 => Sh::Capsule(Point::new(1.0, 0.5, 0.0), Point::new(2.0, 0.5, 0.5), 0.25),
                                           3 => { let o = d3::gen_v(r, true, 2.0); Sh::Triangle(Point::from(o), Point::from(o + Vector::new(0.5, 0.0, 0.0)), Point::from(o + Vector::new(0.0, 0.5, 0.25))) }
                                           4 => { let o = d3::gen_v(r, true, 2.0); Sh::Segment(Point::from(o), Point::from(o + Vector::new(0.25, 0.5, 0.0))) }
                                           _ => c03::gen_shape(r, lat, &[3, 4, 5]) };
                let gx = c03::dynsh(&x);
                // start pose: rotated (2 of 3), placed so that a point of x (its local box centre) sits at `dist` from a part
                let q = if r.below(3) == 0 { [0.0, 0.0, 0.0, 1.0] } else { d3::gen_quat(r, lat) };
                let rot = uq(q);
                let pb = boxes[r.below(boxes.len() as u64) as usize];
                let ctr = na::center(&pb.mins, &pb.maxs);
                let xb = gx.compute_local_aabb(); let xc = na::center(&xb.mins, &xb.maxs);
                let mut dirv = d3::gen_v(r, lat, 1.0); if dirv.norm() < 1e-3 { dirv = Vector::new(0.0, 1.0, 0.0); }
                let dirv = dirv.normalize();
                let dist = *r.pick(&[2.0, 3.0, 5.0]);
                let t = ctr.coords + dirv * dist - rot * xc.coords;
                let rel = Isometry::from_parts(na::Translation3::from(t), rot);
                let px = world * rel;
                let t1: f64 = *r.pick(&[1.0, 2.0, 10.0]);
                // x moves towards the part (world frame) and spins; the composite stands still, translates or spins slowly
                let linx = world * (-dirv * (dist / *r.pick(&[0.5, 1.0, 1.5])) / t1.min(2.0)) + d3::gen_v(r, lat, 0.1);
                let angx = if r.bool() { Vector::zeros() } else { d3::gen_v(r, lat, 1.0) * 0.25 };
                let lcx = if r.bool() { Point::origin() } else { xc };
                let (linc, angc, lcc) = match r.below(3) { 0 => (Vector::zeros(), Vector::zeros(), Point::origin()),
                    1 => (d3::gen_v(r, lat, 0.5), Vector::zeros(), Point::origin()),
                    _ => (d3::gen_v(r, lat, 0.25), d3::gen_v(r, lat, 1.0) * 0.0625, ctr) };
                for first in [true, false] {
                    v.push(("composite_nlcast".into(), format!("{} {} {} {} {} {} {} {} {} {} {} {} {}", hc, c03::hsh(&x), d3::hiso(&px), b(first),
                        d3::hp(&lcc), d3::hv(&linc), d3::hv(&angc), d3::hp(&lcx), d3::hv(&linx), d3::hv(&angx), hx(0.0), hx(t1), b(r.bool()))));
                }
            }
        }
        v
    }

    pub fn gen(r: &mut Rng, thorough: bool) -> Vec<(String, String)> {
        let mut v = Vec::new();
        let n = if thorough { 1200 } else { 150 };
        for it in 0..n {
            let lat = it % 2 == 0;
            let c = match it % 8 { 0 | 1 | 2 | 3 => gen_compound(r, lat), 4 => gen_grid_mesh(r, lat), 5 => gen_primitive_mesh(r, lat), 6 => gen_polyline(r, lat), _ => gen_heightfield(r, lat) };
            let is_hf = matches!(c, Co::HeightField(..));
            let world = if r.below(3) == 0 { Isometry::identity() } else { d3::gen_iso(r, lat, 20.0) };
            let hc = format!("{} {}", hco(&c), d3::hiso(&world));
            for _ in 0..3 {
                let x = gen_other(r, lat);
                let rel = gen_rel_pose(r, lat, &c);
                let px = world * rel;
                let hx_ = format!("{} {}", c03::hsh(&x), d3::hiso(&px));
                for first in [true, false] {
                    let base = format!("{} {} {}", hc, hx_, b(first));
                    if !is_hf {
                        v.push(("composite_distance".into(), base.clone()));
                        v.push(("composite_it".into(), base.clone()));
                        v.push(("composite_cp".into(), format!("{} {}", base, hx(c03::gen_param(r, lat) + if r.bool() { 5.0 } else { 0.0 }))));
                        v.push(("composite_contact".into(), format!("{} {}", base, hx(c03::gen_param(r, lat)))));
                    }
                    // cast: velocity towards / across the composite, or random
                    let vel = if r.bool() && rel.translation.vector.norm() > 1e-3 { -rel.translation.vector.normalize() * r.pos_extent(lat) + d3::gen_v(r, lat, 0.5) } else { d3::gen_v(r, lat, 3.0) };
                    // heightfields: also purely horizontal and axis-aligned motions (the cell walk has a branch per axis)
                    let vel = if is_hf && r.below(3) == 0 { let mut w = vel; w.y = 0.0; if r.bool() { w.z = 0.0; } if w.norm() < 1e-3 { w.x = 1.0; } w } else { vel };
                    let vel = if first { vel } else { -(rel.inverse_transform_vector(&vel)) };
                    let max_toi = if r.below(4) == 0 { *r.pick(&[0.5, 2.0]) } else { 1.0e3 };
                    let target = if r.below(3) == 0 { *r.pick(&[0.25, 0.5]) } else { 0.0 };
                    v.push(("composite_cast".into(), format!("{} {} {} {} {}", base, d3::hv(&vel), hx(max_toi), hx(target), b(r.bool()))));
                }
            }
            let bx = local_box(&c);
            for _ in 0..4 {
                // rays: from outside towards a point of the composite's box, from inside, parallel to the axes, non-unit directions
                let tgt = Point::new(r.uniform(bx.mins.x, bx.maxs.x), r.uniform(bx.mins.y, bx.maxs.y), r.uniform(bx.mins.z, bx.maxs.z));
                let org = if r.below(4) == 0 { tgt } else { tgt + d3::gen_v(r, lat, 8.0) };
                let dir = if r.below(4) == 0 { let mut d = Vector::zeros(); d[r.below(3) as usize] = if r.bool() { 1.0 } else { -2.0 }; d } else { (tgt - org) * *r.pick(&[0.5, 1.0, 3.0]) + d3::gen_v(r, lat, 0.25) };
                if dir.norm() < 1e-6 { continue; }
                let ray_o = world * org; let ray_d = world * dir;
                let max_toi = if r.below(4) == 0 { *r.pick(&[0.25, 1.0]) } else { 1.0e3 };
                v.push(("composite_ray".into(), format!("{} {} {} {} {}", hc, d3::hp(&ray_o), d3::hv(&ray_d), hx(max_toi), b(r.bool()))));
                let pt = if r.bool() { tgt } else { tgt + d3::gen_v(r, lat, 4.0) };
                v.push(("composite_point".into(), format!("{} {} {}", hc, d3::hp(&(world * pt)), b(r.bool()))));
                let he = d3::gen_he(r, lat) * *r.pick(&[0.1, 0.5, 1.0]);
                let cq = if r.bool() { tgt } else { tgt + d3::gen_v(r, lat, 4.0) };
                v.push(("composite_aabb".into(), format!("{} {} {}", hc, d3::hp(&(cq - he)), d3::hp(&(cq + he)))));
            }
        }
        v
    }
}


/// the same family in 2-D (`composite2_*`): Compound, Polyline and HeightField of `parry2d-f64`
pub mod comp2 {
    use crate::util::*;
    use crate::p2::na::{self, DVector};
    use crate::p2::bounding_volume::{Aabb, BoundingVolume};
    use crate::p2::query::{self, ClosestPoints, DefaultQueryDispatcher, NonlinearRigidMotion, PointQuery, QueryDispatcher, Ray, RayCast, ShapeCastOptions};
    use crate::p2::shape::{Ball, Capsule, Compound, Cuboid, HeightField, Polyline, Segment, Shape, SharedShape, Triangle};
    use crate::p2::utils::IsometryOpt;
    use d2::{Isometry, Point, Real, Vector};

    #[derive(Clone)]
    pub enum Sh2 { Ball(f64), Cuboid(Vector<Real>), Capsule(Point<Real>, Point<Real>, f64), Triangle(Point<Real>, Point<Real>, Point<Real>), Segment(Point<Real>, Point<Real>) }
    pub fn sh(a: &mut Args) -> Sh2 {
        match a.tok() {
            "ball" => Sh2::Ball(a.f()),
            "cuboid" => Sh2::Cuboid(d2::v(a)),
            "capsule" => { let p = d2::p(a); let q = d2::p(a); Sh2::Capsule(p, q, a.f()) }
            "triangle" => { let p = d2::p(a); let q = d2::p(a); let r = d2::p(a); Sh2::Triangle(p, q, r) }
            "segment" => { let p = d2::p(a); let q = d2::p(a); Sh2::Segment(p, q) }
            k => panic!("shape kind {}", k),
        }
    }
    pub fn hsh(s: &Sh2) -> String {
        match s {
            Sh2::Ball(r) => format!("ball {}", hx(*r)),
            Sh2::Cuboid(he) => format!("cuboid {}", d2::hv(he)),
            Sh2::Capsule(p, q, r) => format!("capsule {} {} {}", d2::hp(p), d2::hp(q), hx(*r)),
            Sh2::Triangle(p, q, r) => format!("triangle {} {} {}", d2::hp(p), d2::hp(q), d2::hp(r)),
            Sh2::Segment(p, q) => format!("segment {} {}", d2::hp(p), d2::hp(q)),
        }
    }
    pub fn dynsh(s: &Sh2) -> Box<dyn Shape> {
        match s {
            Sh2::Ball(r) => Box::new(Ball::new(*r)),
            Sh2::Cuboid(he) => Box::new(Cuboid::new(*he)),
            Sh2::Capsule(p, q, r) => Box::new(Capsule::new(*p, *q, *r)),
            Sh2::Triangle(p, q, r) => Box::new(Triangle::new(*p, *q, *r)),
            Sh2::Segment(p, q) => Box::new(Segment::new(*p, *q)),
        }
    }
    #[derive(Clone)]
    pub enum Co2 { Compound(Vec<(Sh2, Isometry<Real>)>), Polyline(Vec<Point<Real>>), HeightField(Vec<f64>, Vector<Real>) }
    fn co(a: &mut Args) -> Co2 {
        match a.tok() {
            "compound" => { let n = a.u(); Co2::Compound((0..n).map(|_| { let s = sh(a); let m = d2::iso(a); (s, m) }).collect()) }
            "polyline" => { let nv = a.u(); Co2::Polyline((0..nv).map(|_| d2::p(a)).collect()) }
            "heightfield" => { let n = a.u(); let hs = (0..n).map(|_| a.f()).collect(); Co2::HeightField(hs, d2::v(a)) }
            k => panic!("composite kind {}", k),
        }
    }
    fn hco(c: &Co2) -> String {
        match c {
            Co2::Compound(ps) => format!("compound {} {}", ps.len(), ps.iter().map(|(s, m)| format!("{} {}", hsh(s), d2::hiso(m))).collect::<Vec<_>>().join(" ")),
            Co2::Polyline(vs) => format!("polyline {} {}", vs.len(), vs.iter().map(d2::hp).collect::<Vec<_>>().join(" ")),
            Co2::HeightField(hs, sc) => format!("heightfield {} {} {}", hs.len(), hxs(hs.iter()), d2::hv(sc)),
        }
    }
    fn dynco(c: &Co2) -> Box<dyn Shape> {
        match c {
            Co2::Compound(ps) => Box::new(Compound::new(ps.iter().map(|(s, m)| (*m, SharedShape(dynsh(s).into()))).collect())),
            Co2::Polyline(vs) => Box::new(Polyline::new(vs.clone(), None)),
            Co2::HeightField(hs, sc) => Box::new(HeightField::new(DVector::from_column_slice(hs), *sc)),
        }
    }
    fn parts(c: &Co2, g: &dyn Shape) -> Vec<(Option<Isometry<Real>>, Box<dyn Shape>)> {
        match c {
            Co2::Compound(ps) => ps.iter().map(|(s, m)| (Some(*m), dynsh(s))).collect(),
            Co2::Polyline(..) => g.as_polyline().unwrap().segments().map(|t| (None, Box::new(t) as Box<dyn Shape>)).collect(),
            Co2::HeightField(..) => g.as_heightfield().unwrap().segments().map(|t| (None, Box::new(t) as Box<dyn Shape>)).collect(),
        }
    }
    fn fo(x: Option<f64>) -> String { match x { Some(v) => format!("v {}", ff(v)), None => "none".into() } }
    fn minf(xs: impl Iterator<Item = f64>) -> Option<f64> { xs.fold(None, |m, x| Some(match m { None => x, Some(y) => if x < y { x } else { y } })) }
    fn fcp(c: &ClosestPoints, pos12: &Isometry<Real>) -> (u8, f64) {
        match c { ClosestPoints::Intersecting => (0, 0.0), ClosestPoints::WithinMargin(p1, p2) => (1, na::distance(p1, &(pos12 * p2))), ClosestPoints::Disjoint => (2, 0.0) }
    }
    fn fcps(k: (u8, f64)) -> String { match k.0 { 0 => "I".into(), 1 => format!("v {}", ff(k.1)), _ => "D".into() } }

    pub fn exec(func: &str, a: &mut Args) -> String {
        let exact = super::comp::lattice_args(a);
        let out = exec0(func, a);
        if exact { format!("{} ; exact", out) } else { out }
    }
    fn exec0(func: &str, a: &mut Args) -> String {
        let c = co(a); let pc = d2::iso(a);
        let gc = dynco(&c);
        let ps = parts(&c, &*gc);
        let d = DefaultQueryDispatcher;
        match func {
            "composite2_nlcast" => {
                let x = sh(a); let px = d2::iso(a); let first = a.b();
                let gx = dynsh(&x);
                let mc = NonlinearRigidMotion::new(pc, d2::p(a), d2::v(a), a.f());
                let mx = NonlinearRigidMotion::new(px, d2::p(a), d2::v(a), a.f());
                let t0 = a.f(); let t1 = a.f(); let stop = a.b();
                let got = if first { query::cast_shapes_nonlinear(&mc, &*gc, &mx, &*gx, t0, t1, stop) } else { query::cast_shapes_nonlinear(&mx, &*gx, &mc, &*gc, t0, t1, stop) };
                let got = match got { Ok(v) => v, Err(_) => return "unsupported ; unsupported".into() };
                let tois: Vec<Option<f64>> = ps.iter().map(|(pp, s)| {
                    let mp = match pp { Some(pp) => mc.prepend(*pp), None => mc };
                    d.cast_shapes_nonlinear(&mp, &**s, &mx, &*gx, t0, t1, stop).ok().flatten().map(|h| h.time_of_impact) }).collect();
                let bf = minf(tois.iter().filter_map(|x| *x));
                // root-cause qualifier: when the composite misses the earliest part, was it the pruning logic or the pruning
                // PRIMITIVE?  The visitor masks a lane with the real ball-vs-ball nonlinear cast of the lane box's ball against the
                // other shape's bounding ball; if for some lane on the path from the root to that part this very cast reports no
                // impact up to the part's own time of impact, the primitive is not conservative (a defect of
                // `cast_shapes_nonlinear_support_map_support_map`, property C06); otherwise the traversal lost the part
                let mut qual = String::new();
                if let Some(tb) = bf {
                    if got.map(|h| h.time_of_impact > tb + 1.0e-4 * (1.0 + tb)).unwrap_or(true) {
                        let i = tois.iter().position(|x| *x == Some(tb)).unwrap();
                        let sph2 = gx.compute_local_bounding_sphere();
                        let b2 = Ball::new(sph2.radius());
                        let m2 = mx.prepend_translation(sph2.center.coords);
                        // every lane on the path root -> leaf of that part, with the ball the visitor builds for it
                        let qb = gc.as_composite_shape().unwrap().qbvh();
                        let (nodes, prox) = (qb.raw_nodes(), qb.raw_proxies());
                        let mut ni = prox[i].node;
                        for _ in 0..64 {
                            let nd = &nodes[ni.index as usize];
                            let bx = nd.simd_aabb.extract(ni.lane as usize);
                            let b1 = Ball::new((bx.maxs - bx.mins).norm());
                            let m1 = mc.prepend_translation(na::center(&bx.mins, &bx.maxs).coords);
                            let rb = query::details::cast_shapes_nonlinear_support_map_support_map(&d, &m1, &b1, &b1, &m2, &b2, &b2, t0, t1,
                                query::details::NonlinearShapeCastMode::StopAtPenetration).map(|h| h.time_of_impact);
                            if rb.map(|x| x > tb + 1.0e-4 * (1.0 + tb)).unwrap_or(true) { qual = " ; primmiss".into(); break; }
                            if ni.index == 0 { break; }
                            ni = nd.parent;
                        }
                    }
                }
                format!("{} ; {} ; lim {}{}", fo(got.map(|h| h.time_of_impact)), fo(bf), ff(t1), qual)
            }
            "composite2_aabb" => {
                // `Qbvh::intersect_aabb` against the closed scalar test on the parts' own boxes
                let bx = Aabb::new(d2::p(a), d2::p(a));
                let comp = match gc.as_composite_shape() { Some(c) => c, None => return "unsupported ; unsupported".into() };
                let mut got: Vec<u32> = Vec::new();
                comp.qbvh().intersect_aabb(&bx, &mut got);
                got.sort();
                let mut bf: Vec<u32> = ps.iter().enumerate().filter(|(_, (pp, s))| match pp { Some(pp) => s.compute_aabb(pp), None => s.compute_local_aabb() }.intersects(&bx)).map(|(i, _)| i as u32).collect();
                bf.sort();
                format!("ids {} ; ids {}", got.iter().map(|x| x.to_string()).collect::<Vec<_>>().join(","), bf.iter().map(|x| x.to_string()).collect::<Vec<_>>().join(","))
            }
            "composite2_distance" | "composite2_it" | "composite2_cp" | "composite2_contact" | "composite2_cast" => {
                let x = sh(a); let px = d2::iso(a); let first = a.b();
                let gx = dynsh(&x);
                let (p1, g1, p2, g2): (&Isometry<Real>, &dyn Shape, &Isometry<Real>, &dyn Shape) =
                    if first { (&pc, &*gc, &px, &*gx) } else { (&px, &*gx, &pc, &*gc) };
                let pos12 = p1.inv_mul(p2);
                let pos_cx = if first { pos12 } else { pos12.inverse() };
                match func {
                    "composite2_distance" => {
                        let got = match query::distance(p1, g1, p2, g2) { Ok(v) => v, Err(_) => return "unsupported ; unsupported".into() };
                        let bf = minf(ps.iter().filter_map(|(pp, s)| d.distance(&pp.as_ref().inv_mul(&pos_cx), &**s, &*gx).ok()));
                        format!("v {} ; {}", ff(got), fo(bf))
                    }
                    "composite2_it" => {
                        let got = match query::intersection_test(p1, g1, p2, g2) { Ok(v) => v, Err(_) => return "unsupported ; unsupported".into() };
                        let bf = ps.iter().any(|(pp, s)| d.intersection_test(&pp.as_ref().inv_mul(&pos_cx), &**s, &*gx).unwrap_or(false));
                        let tie = minf(ps.iter().filter_map(|(pp, s)| d.contact(&pp.as_ref().inv_mul(&pos_cx), &**s, &*gx, 1.0).ok().flatten().map(|c| c.dist)));
                        if std::env::var("VERIF_DBG").is_ok() { for (pp, s) in &ps { let m = pp.as_ref().inv_mul(&pos_cx);
                            eprintln!("part it={:?} dist={:?} contact={:?} m={:?}", d.intersection_test(&m, &**s, &*gx), d.distance(&m, &**s, &*gx), d.contact(&m, &**s, &*gx, 1.0).ok().flatten().map(|c| c.dist), m); } }
                        let dmin = minf(ps.iter().filter_map(|(pp, s)| d.distance(&pp.as_ref().inv_mul(&pos_cx), &**s, &*gx).ok()));
                        if bf && !got && dmin.map(|x| x > 1.0e-9).unwrap_or(false) { return format!("{} ; X ; tie {}", b(got), fo(dmin)); }
                        format!("{} ; {} ; tie {}", b(got), b(bf), fo(tie))
                    }
                    "composite2_cp" => {
                        let margin = a.f();
                        let got = match query::closest_points(p1, g1, p2, g2, margin) { Ok(v) => v, Err(_) => return "unsupported ; unsupported".into() };
                        let gk = fcp(&got, &Isometry::identity());
                        let mut best: (u8, f64) = (2, 0.0);
                        for (pp, s) in &ps {
                            let m = pp.as_ref().inv_mul(&pos_cx);
                            if let Ok(r) = d.closest_points(&m, &**s, &*gx, margin) {
                                let k = fcp(&r, &m);
                                if k.0 == 0 { best = (0, 0.0); break; }
                                if k.0 == 1 && (best.0 == 2 || k.1 < best.1) { best = k; }
                            }
                        }
                        format!("{} ; {} ; lim {}", fcps(gk), fcps(best), ff(margin))
                    }
                    "composite2_contact" => {
                        let pred = a.f();
                        let got = match query::contact(p1, g1, p2, g2, pred) { Ok(v) => v, Err(_) => return "unsupported ; unsupported".into() };
                        let bf = minf(ps.iter().filter_map(|(pp, s)| d.contact(&pp.as_ref().inv_mul(&pos_cx), &**s, &*gx, pred).ok().flatten().map(|c| c.dist)));
                        format!("{} ; {} ; lim {}", fo(got.map(|c| c.dist)), fo(bf), ff(pred))
                    }
                    _ => {
                        let vel12 = d2::v(a); let max_toi = a.f(); let target = a.f(); let stop = a.b();
                        let opts = ShapeCastOptions { max_time_of_impact: max_toi, target_distance: target, stop_at_penetration: stop, compute_impact_geometry_on_penetration: true };
                        let got = match d.cast_shapes(&pos12, &vel12, g1, g2, opts) { Ok(v) => v, Err(_) => return "unsupported ; unsupported".into() };
                        let vel_cx = if first { vel12 } else { -pos12.inverse_transform_vector(&vel12) };
                        let mut best_part: Option<(f64, Isometry<Real>, Vector<Real>, usize)> = None; let mut pi = 0usize;
                        let bf = minf(ps.iter().filter_map(|(pp, s)| {
                            let r = match pp { Some(pp) => d.cast_shapes(&pp.inv_mul(&pos_cx), &pp.inverse_transform_vector(&vel_cx), &**s, &*gx, opts),
                                               None => d.cast_shapes(&pos_cx, &vel_cx, &**s, &*gx, opts) };
                            { let (m, v) = match pp { Some(pp) => (pp.inv_mul(&pos_cx), pp.inverse_transform_vector(&vel_cx)), None => (pos_cx, vel_cx) };
                              if let Ok(Some(h)) = &r { if best_part.map(|b| h.time_of_impact < b.0).unwrap_or(true) { best_part = Some((h.time_of_impact, m, v, pi)); } } }
                            pi += 1;
                            if std::env::var("VERIF_DBG").is_ok() { eprintln!("part {:?} -> {:?}  (pos_cx {:?} vel_cx {:?} aabb {:?})", s.as_segment(), r, pos_cx, vel_cx, gx.compute_aabb(&pos_cx)); }
                            r.ok().flatten().map(|h| h.time_of_impact) }));
                        // tie qualifier (as in the 3-D family): the composite misses the earliest part although the part's own cast reports an
                        // impact - when the boxes of the part and of the moving shape overlap for no more than an instant the impact is a
                        // GRAZING one (tangential, within rounding) and the conservative box test of the visitor sits on the same knife edge
                        let mut graze = "";
                        if let Some((tb, m, v, idx)) = best_part {
                            if got.map(|h| h.time_of_impact > tb + 1.0e-4 * (1.0 + tb)).unwrap_or(true) {
                                let (ba, bb) = (ps[idx].1.compute_local_aabb(), gx.compute_aabb(&m));
                                let (mut tin, mut tout) = (f64::NEG_INFINITY, f64::INFINITY);
                                for k in 0..2 {
                                    if v[k] == 0.0 { if bb.maxs[k] < ba.mins[k] || ba.maxs[k] < bb.mins[k] { tout = f64::NEG_INFINITY; } }
                                    else { let (t1, t2) = ((ba.mins[k] - bb.maxs[k]) / v[k], (ba.maxs[k] - bb.mins[k]) / v[k]);
                                           tin = tin.max(t1.min(t2)); tout = tout.min(t1.max(t2)); }
                                }
                                if tout - tin <= 1.0e-9 * (1.0 + tb.abs()) { graze = " ; graze"; }
                            }
                        }
                        format!("{} ; {} ; lim {}{}", fo(got.map(|h| h.time_of_impact)), fo(bf), ff(max_toi), graze)
                    }
                }
            }
            "composite2_ray" => {
                let ray = Ray::new(d2::p(a), d2::v(a)); let max_toi = a.f(); let solid = a.b();
                let got = gc.cast_ray(&pc, &ray, max_toi, solid);
                let got_n = gc.cast_ray_and_get_normal(&pc, &ray, max_toi, solid).map(|i| i.time_of_impact);
                let ls = ray.inverse_transform_by(&pc);
                let bf = minf(ps.iter().filter_map(|(pp, s)| match pp { Some(pp) => s.cast_ray(pp, &ls, max_toi, solid), None => s.cast_local_ray(&ls, max_toi, solid) }));
                // like with like: the normal-returning composite visitor calls the parts' `cast_ray_and_get_normal`
                let bf_n = minf(ps.iter().filter_map(|(pp, s)| match pp { Some(pp) => s.cast_ray_and_get_normal(pp, &ls, max_toi, solid), None => s.cast_local_ray_and_get_normal(&ls, max_toi, solid) }.map(|i| i.time_of_impact)));
                format!("{} {} ; {} {} ; lim {}", fo(got), fo(got_n), fo(bf), fo(bf_n), ff(max_toi))
            }
            "composite2_point" => {
                let pt = d2::p(a); let solid = a.b();
                let lp = pc.inverse_transform_point(&pt);
                let got = gc.project_local_point(&lp, solid);
                let gd = na::distance(&lp, &got.point);
                let contains = gc.contains_local_point(&lp);
                let bf = minf(ps.iter().map(|(pp, s)| { let pr = match pp { Some(pp) => s.project_point(pp, &lp, solid), None => s.project_local_point(&lp, solid) }; na::distance(&lp, &pr.point) }));
                let bc = ps.iter().any(|(pp, s)| match pp { Some(pp) => s.contains_point(pp, &lp), None => s.contains_local_point(&lp) });
                let bd = minf(ps.iter().map(|(pp, s)| { let pr = match pp { Some(pp) => s.project_point(pp, &lp, false), None => s.project_local_point(&lp, false) }; na::distance(&lp, &pr.point) }));
                let cmp_contains = matches!(c, Co2::Compound(_));
                format!("v {} {} ; {} {} ; tie {}", ff(gd), if cmp_contains { b(contains) } else { "-" }, fo(bf), if cmp_contains { b(bc) } else { "-" }, fo(bd))
            }
            _ => "nofn".into(),
        }
    }

    fn rot(r: &mut Rng, lat: bool) -> na::UnitComplex<Real> { let (re, im) = d2::gen_rot(r, lat); na::Unit::new_unchecked(na::Complex::new(re, im)) }
    fn gen_part(r: &mut Rng, lat: bool, kind: u64) -> Sh2 {
        match kind {
            0 => Sh2::Cuboid(Vector::new(0.5, 0.5)),
            1 => Sh2::Ball(0.5),
            2 => Sh2::Capsule(Point::new(-0.25, 0.0), Point::new(0.25, 0.0), 0.25),
            3 => Sh2::Cuboid(Vector::new(r.pos_extent(lat).min(1.0), 0.25)),
            _ => Sh2::Segment(Point::new(-0.5, 0.0), Point::new(0.5, 0.25)),
        }
    }
    fn rexact(r: &mut Rng) -> na::UnitComplex<Real> { let (re, im) = *r.pick(&[(1.0, 0.0), (0.0, 1.0), (-1.0, 0.0), (0.0, -1.0)]); na::Unit::new_unchecked(na::Complex::new(re, im)) }
    fn gen_compound(r: &mut Rng, lat: bool) -> Co2 { gen_compound_x(r, lat, false) }
    fn gen_compound_x(r: &mut Rng, lat: bool, exact: bool) -> Co2 {
        let n = 5 + r.below(36) as usize;
        let kind = r.below(6); let layout = r.below(3); let pitch = if exact { *r.pick(&[1.0, 1.5, 2.0]) } else { *r.pick(&[1.5, 2.0, 3.0]) };
        let mut ps = Vec::new();
        for k in 0..n {
            let t = match layout { 0 => Vector::new(pitch * k as f64, 0.0), 1 => Vector::new(pitch * (k % 5) as f64, pitch * (k / 5) as f64), _ => d2::gen_v(r, lat, 10.0) };
            let ql = lat || r.bool();
            let m = Isometry::from_parts(na::Translation2::from(t), if exact { rexact(r) } else { rot(r, ql) });
            let kk = if kind == 5 { r.below(5) } else { kind };
            ps.push((gen_part(r, lat, kk), m));
            if r.below(12) == 0 { let last = ps.last().unwrap().clone(); ps.push(last); }
        }
        Co2::Compound(ps)
    }
    fn gen_polyline(r: &mut Rng, lat: bool) -> Co2 {
        let n = 6 + r.below(30) as usize;
        let mut vs = Vec::new(); let mut p = Point::new(0.0, 0.0);
        for k in 0..n {
            vs.push(p);
            let step = if lat { Vector::new(*r.pick(&[0.5, 1.0]), *r.pick(&[-1.0, 0.0, 0.5, 1.0])) } else { Vector::new(r.uniform(0.2, 1.5), r.uniform(-1.0, 1.0)) };
            p += step * if k % 7 == 6 { 3.0 } else { 1.0 };
        }
        Co2::Polyline(vs)
    }
    fn gen_heightfield(r: &mut Rng, lat: bool) -> Co2 {
        let n = 3 + r.below(12) as usize;
        let flat = r.below(4) == 0;
        let hs = (0..n).map(|_| if flat { 0.5 } else if lat { r.range(-4, 4) as f64 * 0.25 } else { r.uniform(-1.0, 1.0) }).collect();
        let sc = if lat { Vector::new(*r.pick(&[4.0, 8.0, 16.0]), *r.pick(&[1.0, 2.0])) } else { Vector::new(r.uniform(4.0, 20.0), r.uniform(0.5, 3.0)) };
        Co2::HeightField(hs, sc)
    }
    pub fn gen_other(r: &mut Rng, lat: bool) -> Sh2 {
        match r.below(6) {
            0 => Sh2::Ball(r.pos_extent(lat).min(3.0)),
            1 => Sh2::Cuboid(Vector::new(*r.pick(&[0.6, 1.5, 3.0, 6.0]), 0.6)),
            2 => Sh2::Cuboid(Vector::new(0.6, *r.pick(&[1.5, 3.0, 6.0]))),
            3 => { let l = *r.pick(&[0.5, 2.0, 5.0]); Sh2::Capsule(Point::new(-l, 0.0), Point::new(l, 0.0), *r.pick(&[0.25, 0.5])) }
            4 => loop { let (p, q, s) = (d2::gen_p(r, lat, 2.0), d2::gen_p(r, lat, 2.0), d2::gen_p(r, lat, 2.0));
                        if (q - p).perp(&(s - p)).abs() > 1e-3 { break Sh2::Triangle(p, q, s); } },
            _ => Sh2::Cuboid(d2::gen_he(r, lat)),
        }
    }
    fn gen_rel_pose(r: &mut Rng, lat: bool, c: &Co2) -> Isometry<Real> {
        let bx = dynco(c).compute_local_aabb();
        let anchor = match c {
            Co2::Compound(ps) => ps[r.below(ps.len() as u64) as usize].1.translation.vector,
            Co2::Polyline(vs) => vs[r.below(vs.len() as u64) as usize].coords,
            Co2::HeightField(..) => Vector::new(r.uniform(bx.mins.x, bx.maxs.x), r.uniform(bx.mins.y, bx.maxs.y)),
        };
        let off = if lat { Vector::new(*r.pick(&[-3.0, -1.5, -0.9, -0.5, 0.0, 0.1, 0.5, 0.9, 1.5, 3.0]), *r.pick(&[-1.5, -0.5, 0.0, 0.1, 0.5, 1.5])) } else { d2::gen_v(r, false, 3.0) };
        let far = if r.below(10) == 0 { d2::gen_v(r, lat, 30.0) } else { Vector::zeros() };
        let rt = if r.below(3) == 0 { na::UnitComplex::identity() } else { rot(r, lat) };
        Isometry::from_parts(na::Translation2::from(anchor + off + far), rt)
    }

    // ---------------------------------------------------------------- exact touching configurations (lattice)
    fn part_boxes(c: &Co2) -> Vec<Aabb> {
        let g = dynco(c);
        parts(c, &*g).iter().map(|(pp, s)| match pp { Some(pp) => s.compute_aabb(pp), None => s.compute_local_aabb() }).collect()
    }
    fn gen_touch_other(r: &mut Rng) -> Sh2 {
        match r.below(6) {
            0 => Sh2::Ball(*r.pick(&[0.25, 0.5, 1.0])),
            1 => Sh2::Cuboid(Vector::new(*r.pick(&[0.5, 1.0, 3.0]), *r.pick(&[0.25, 0.5, 2.0]))),
            2 => { let mut p = Point::origin(); p[r.below(2) as usize] = *r.pick(&[0.5, 2.0]); Sh2::Capsule(Point::from(-p.coords), p, *r.pick(&[0.25, 0.5])) }
            3 => loop { let (p, q, s) = (d2::gen_p(r, true, 2.0), d2::gen_p(r, true, 2.0), d2::gen_p(r, true, 2.0));
                        if (q - p).perp(&(s - p)).abs() > 1e-3 { break Sh2::Triangle(p, q, s); } },
            4 => loop { let (p, q) = (d2::gen_p(r, true, 2.0), d2::gen_p(r, true, 2.0)); if (q - p).norm() > 1e-3 { break Sh2::Segment(p, q); } },
            _ => Sh2::Capsule(Point::new(0.5, 0.25), Point::new(1.5, 1.0), 0.25),
        }
    }
    fn touch_pose(r: &mut Rng, pb: &Aabb, x: &Sh2, gap: f64, k: usize, plus: bool) -> Isometry<Real> {
        let rot = rexact(r);
        let xb = dynsh(x).compute_aabb(&Isometry::from_parts(na::Translation2::identity(), rot));
        let mut t = Vector::zeros();
        for j in 0..2 {
            t[j] = if j == k { if plus { pb.maxs[j] + gap - xb.mins[j] } else { pb.mins[j] - gap - xb.maxs[j] } }
                   else { (pb.mins[j] + pb.maxs[j]) * 0.5 - (xb.mins[j] + xb.maxs[j]) * 0.5 + *r.pick(&[-0.5, 0.0, 0.0, 0.25]) };
        }
        Isometry::from_parts(na::Translation2::from(t), rot)
    }
    pub fn gen_touch(r: &mut Rng, thorough: bool) -> Vec<(String, String)> {
        let mut v = Vec::new();
        let n = if thorough { 500 } else { 60 };
        for _ in 0..n {
            let c = if r.below(3) == 0 { gen_polyline(r, true) } else { gen_compound_x(r, true, true) };
            let world = if r.bool() { Isometry::identity() } else { Isometry::from_parts(na::Translation2::from(d2::gen_v(r, true, 8.0)), rexact(r)) };
            let hc = format!("{} {}", hco(&c), d2::hiso(&world));
            let boxes = part_boxes(&c);
            for _ in 0..2 {
                let x = gen_touch_other(r);
                let gap = *r.pick(&[0.0, 0.0, 0.25, 0.5]);
                let pb = boxes[r.below(boxes.len() as u64) as usize];
                let k = r.below(2) as usize; let plus = r.bool();
                let rel = touch_pose(r, &pb, &x, gap, k, plus);
                let hx_ = format!("{} {}", hsh(&x), d2::hiso(&(world * rel)));
                for first in [true, false] {
                    let base = format!("{} {} {}", hc, hx_, b(first));
                    v.push(("composite2_distance".into(), base.clone()));
                    v.push(("composite2_it".into(), base.clone()));
                    v.push(("composite2_cp".into(), format!("{} {}", base, hx(gap))));
                    v.push(("composite2_contact".into(), format!("{} {}", base, hx(gap))));
                    let mut e = Vector::zeros(); e[k] = if plus { 1.0 } else { -1.0 };
                    let back = *r.pick(&[0.0, 1.0, 2.0]);
                    let start = Isometry::from_parts(na::Translation2::from(rel.translation.vector + e * back), rel.rotation);
                    let mut vel = if r.below(3) == 0 { let mut s = Vector::zeros(); s[(k + 1) % 2] = 1.0; s } else { -e * *r.pick(&[0.5, 1.0, 2.0]) };
                    if !first { vel = -(start.inverse_transform_vector(&vel)); }
                    let hs_ = format!("{} {} {} {}", hc, hsh(&x), d2::hiso(&(world * start)), b(first));
                    v.push(("composite2_cast".into(), format!("{} {} {} {} {}", hs_, d2::hv(&vel), hx(*r.pick(&[1.0, 2.0, 1.0e3])), hx(if r.bool() { gap } else { 0.0 }), b(r.bool()))));
                }
            }
            for _ in 0..3 {
                let pb = boxes[r.below(boxes.len() as u64) as usize];
                let k = r.below(2) as usize; let plus = r.bool();
                let ctr = na::center(&pb.mins, &pb.maxs);
                let mut pt = ctr; for j in 0..2 { pt[j] = *r.pick(&[pb.mins[j], ctr[j], pb.maxs[j]]); }
                v.push(("composite2_point".into(), format!("{} {} {}", hc, d2::hp(&(world * pt)), b(r.bool()))));
                let he = Vector::new(*r.pick(&[0.25, 0.5, 1.0, 4.0]), *r.pick(&[0.25, 0.5, 1.0, 4.0]));
                let mut cq = ctr; for j in 0..2 { if j != k { cq[j] += *r.pick(&[-0.5, 0.0, 0.25]); } }
                cq[k] = if plus { pb.maxs[k] + he[k] } else { pb.mins[k] - he[k] };
                v.push(("composite2_aabb".into(), format!("{} {} {}", hc, d2::hp(&(cq - he)), d2::hp(&(cq + he)))));
                let j = (k + 1) % 2;
                let mut org = ctr; org[k] = if plus { pb.maxs[k] } else { pb.mins[k] }; org[j] = pb.mins[j] - 2.0;
                let mut dir = Vector::zeros(); dir[j] = *r.pick(&[0.5, 1.0, 2.0]);
                if r.bool() { org = ctr; org[k] = if plus { pb.maxs[k] + 2.0 } else { pb.mins[k] - 2.0 }; dir = Vector::zeros(); dir[k] = if plus { -1.0 } else { 1.0 }; }
                v.push(("composite2_ray".into(), format!("{} {} {} {} {}", hc, d2::hp(&(world * org)), d2::hv(&(world * dir)), hx(*r.pick(&[2.0, 4.0, 1.0e3])), b(r.bool()))));
            }
            // random (non-touching) query boxes as well: the 2-D enumeration had no family at all
            let bx = dynco(&c).compute_local_aabb();
            for _ in 0..2 {
                let cq = Point::new(r.uniform(bx.mins.x, bx.maxs.x), r.uniform(bx.mins.y, bx.maxs.y));
                let he = d2::gen_he(r, false) * 0.25;
                v.push(("composite2_aabb".into(), format!("{} {} {}", hc, d2::hp(&(cq - he)), d2::hp(&(cq + he)))));
            }
        }
        v
    }

    // ---------------------------------------------------------------- nonlinear casts
    pub fn gen_nlcast(r: &mut Rng, thorough: bool) -> Vec<(String, String)> {
        let mut v = Vec::new();
        let n = if thorough { 400 } else { 50 };
        for it in 0..n {
            let lat = it % 2 == 0;
            let c = match it % 3 { 0 => gen_compound(r, lat), 1 => gen_compound_x(r, true, true), _ => gen_polyline(r, lat) };
            let world = if r.below(3) == 0 { Isometry::identity() } else { d2::gen_iso(r, lat, 20.0) };
            let hc = format!("{} {}", hco(&c), d2::hiso(&world));
            let boxes = part_boxes(&c);
            for _ in 0..2 {
                let x = match r.below(5) { 0 => Sh2::Ball(*r.pick(&[0.25, 0.5])), 1 => Sh2::Cuboid(d2::gen_he(r, true) * 0.5),
                                           2 => Sh2::Capsule(Point::new(1.0, 0.5), Point::new(2.0, 1.0), 0.25),
                                           3 => { let o = d2::gen_v(r, true, 2.0); Sh2::Triangle(Point::from(o), Point::from(o + Vector::new(0.5, 0.0)), Point::from(o + Vector::new(0.0, 0.5))) }
                                           _ => { let o = d2::gen_v(r, true, 2.0); Sh2::Segment(Point::from(o), Point::from(o + Vector::new(0.25, 0.5))) } };
                let gx = dynsh(&x);
                let rt = if r.below(3) == 0 { na::UnitComplex::identity() } else { rot(r, lat) };
                let pb = boxes[r.below(boxes.len() as u64) as usize];
                let ctr = na::center(&pb.mins, &pb.maxs);
                let xb = gx.compute_local_aabb(); let xc = na::center(&xb.mins, &xb.maxs);
                let mut dirv = d2::gen_v(r, lat, 1.0); if dirv.norm() < 1e-3 { dirv = Vector::new(0.0, 1.0); }
                let dirv = dirv.normalize();
                let dist = *r.pick(&[2.0, 3.0, 5.0]);
                let t = ctr.coords + dirv * dist - rt * xc.coords;
                let rel = Isometry::from_parts(na::Translation2::from(t), rt);
                let px = world * rel;
                let t1: f64 = *r.pick(&[1.0, 2.0, 10.0]);
                let linx = world * (-dirv * (dist / *r.pick(&[0.5, 1.0, 1.5])) / t1.min(2.0)) + d2::gen_v(r, lat, 0.1);
                let angx = if r.bool() { 0.0 } else { r.coord(lat, 1.0) * 0.25 };
                let lcx = if r.bool() { Point::origin() } else { xc };
                let (linc, angc, lcc) = match r.below(3) { 0 => (Vector::zeros(), 0.0, Point::origin()),
                    1 => (d2::gen_v(r, lat, 0.5), 0.0, Point::origin()),
                    _ => (d2::gen_v(r, lat, 0.25), r.coord(lat, 1.0) * 0.0625, ctr) };
                for first in [true, false] {
                    v.push(("composite2_nlcast".into(), format!("{} {} {} {} {} {} {} {} {} {} {} {} {}", hc, hsh(&x), d2::hiso(&px), b(first),
                        d2::hp(&lcc), d2::hv(&linc), hx(angc), d2::hp(&lcx), d2::hv(&linx), hx(angx), hx(0.0), hx(t1), b(r.bool()))));
                }
            }
        }
        v
    }

    pub fn gen(r: &mut Rng, thorough: bool) -> Vec<(String, String)> {
        let mut v = Vec::new();
        let n = if thorough { 600 } else { 80 };
        for it in 0..n {
            let lat = it % 2 == 0;
            let c = match it % 4 { 0 | 1 => gen_compound(r, lat), 2 => gen_polyline(r, lat), _ => gen_heightfield(r, lat) };
            let is_hf = matches!(c, Co2::HeightField(..));
            let world = if r.below(3) == 0 { Isometry::identity() } else { d2::gen_iso(r, lat, 20.0) };
            let hc = format!("{} {}", hco(&c), d2::hiso(&world));
            for _ in 0..3 {
                let x = gen_other(r, lat);
                let rel = gen_rel_pose(r, lat, &c);
                let px = world * rel;
                let hx_ = format!("{} {}", hsh(&x), d2::hiso(&px));
                for first in [true, false] {
                    let base = format!("{} {} {}", hc, hx_, b(first));
                    if !is_hf {
                        v.push(("composite2_distance".into(), base.clone()));
                        v.push(("composite2_it".into(), base.clone()));
                        let par = if lat { *r.pick(&[0.0, 0.25, 0.5, 1.0, 4.0]) } else { r.logu(1e-3, 1e2) };
                        v.push(("composite2_cp".into(), format!("{} {}", base, hx(par + if r.bool() { 5.0 } else { 0.0 }))));
                        v.push(("composite2_contact".into(), format!("{} {}", base, hx(par))));
                    }
                    let vel = if r.bool() && rel.translation.vector.norm() > 1e-3 { -rel.translation.vector.normalize() * r.pos_extent(lat) + d2::gen_v(r, lat, 0.5) } else { d2::gen_v(r, lat, 3.0) };
                    let vel = if first { vel } else { -(rel.inverse_transform_vector(&vel)) };
                    let max_toi = if r.below(4) == 0 { *r.pick(&[0.5, 2.0]) } else { 1.0e3 };
                    let target = if r.below(3) == 0 { *r.pick(&[0.25, 0.5]) } else { 0.0 };
                    v.push(("composite2_cast".into(), format!("{} {} {} {} {}", base, d2::hv(&vel), hx(max_toi), hx(target), b(r.bool()))));
                }
            }
            let bx = dynco(&c).compute_local_aabb();
            for _ in 0..4 {
                let tgt = Point::new(r.uniform(bx.mins.x, bx.maxs.x), r.uniform(bx.mins.y, bx.maxs.y));
                let org = if r.below(4) == 0 { tgt } else { tgt + d2::gen_v(r, lat, 8.0) };
                let dir = if r.below(4) == 0 { let mut dd = Vector::zeros(); dd[r.below(2) as usize] = if r.bool() { 1.0 } else { -2.0 }; dd } else { (tgt - org) * *r.pick(&[0.5, 1.0, 3.0]) + d2::gen_v(r, lat, 0.25) };
                if dir.norm() < 1e-6 { continue; }
                let max_toi = if r.below(4) == 0 { *r.pick(&[0.25, 1.0]) } else { 1.0e3 };
                v.push(("composite2_ray".into(), format!("{} {} {} {} {}", hc, d2::hp(&(world * org)), d2::hv(&(world * dir)), hx(max_toi), b(r.bool()))));
                let pt = if r.bool() { tgt } else { tgt + d2::gen_v(r, lat, 4.0) };
                v.push(("composite2_point".into(), format!("{} {} {}", hc, d2::hp(&(world * pt)), b(r.bool()))));
            }
        }
        v
    }
}

/// the lane tests of `SimdAabb` used by the composite-shape visitors and `NonlinearRigidMotion`, 3-D (`lane3_*`, `nl3_*`)
pub mod lanes3 {
    use crate::util::*;
    use crate::p3::bounding_volume::{Aabb, SimdAabb};
    use crate::p3::math::{SimdBool, SimdReal};
    use crate::p3::query::{NonlinearRigidMotion, Ray, SimdRay, DefaultQueryDispatcher};
    use crate::p3::query::details::{CompositeShapeAgainstAnyDistanceVisitor, CompositeShapeAgainstShapeClosestPointsVisitor, TOICompositeShapeShapeBestFirstVisitor};
    use crate::p3::query::ShapeCastOptions;
    use crate::p3::partitioning::{SimdBestFirstVisitStatus, SimdBestFirstVisitor};
    use crate::p3::shape::{Ball, Compound, SharedShape};
    use crate::p3::simba::simd::SimdValue;
    use d3::{Isometry, Point, Real, Vector, na};

    fn aabb(a: &mut Args) -> Aabb { Aabb::new(d3::p(a), d3::p(a)) }
    fn haabb(b: &Aabb) -> String { format!("{} {}", d3::hp(&b.mins), d3::hp(&b.maxs)) }
    fn simd(a: &mut Args) -> SimdAabb { SimdAabb::from([aabb(a), aabb(a), aabb(a), aabb(a)]) }
    fn fmask(m: SimdBool) -> String { (0..4).map(|i| b(m.extract(i))).collect::<Vec<_>>().join(" ") }
    fn motion(a: &mut Args) -> NonlinearRigidMotion { NonlinearRigidMotion::new(d3::iso(a), d3::p(a), d3::v(a), d3::v(a)) }
    fn hmotion(m: &NonlinearRigidMotion) -> String { format!("{} {} {} {}", d3::hiso(&m.start), d3::hp(&m.local_center), d3::hv(&m.linvel), d3::hv(&m.angvel)) }
    fn fiso(m: &Isometry<Real>) -> String { format!("{} {} {} {} {}", ff(m.rotation.i), ff(m.rotation.j), ff(m.rotation.k), ff(m.rotation.w), d3::fv(&m.translation.vector)) }

    pub fn exec(func: &str, a: &mut Args) -> String {
        match func {
            "lane3_intersects" => { let x = simd(a); let y = simd(a); fmask(x.intersects(&y)) }
            "lane3_point" => { let x = simd(a); let p = d3::p(a); fmask(x.contains_local_point(&Point::splat(p))) }
            "lane3_dist" => { let x = simd(a); let p = d3::p(a);
                let d = x.distance_to_local_point(&Point::splat(p)); let o = x.distance_to_origin();
                (0..4).map(|i| ff(d.extract(i))).chain((0..4).map(|i| ff(o.extract(i)))).collect::<Vec<_>>().join(" ") }
            "lane3_ray" => { let x = simd(a); let ray = Ray::new(d3::p(a), d3::v(a)); let mt = a.f();
                let (hit, tmin) = x.cast_local_ray(&SimdRay::splat(ray), SimdReal::splat(mt));
                (0..4).map(|i| format!("{} {}", b(hit.extract(i)), ff(tmin.extract(i)))).collect::<Vec<_>>().join(" ") }
            "nl3_set" => { let m = motion(a); let k = a.u(); let tra = d3::v(a); let iso = d3::iso(a);
                let r = match k { 0 => m.append_translation(tra), 1 => m.prepend_translation(tra), 2 => m.append(iso), _ => m.prepend(iso) };
                format!("{} {}", fiso(&r.start), d3::fp(&r.local_center)) }
            "nl3_pos" => { let m = motion(a); let t = a.f(); fiso(&m.position_at_time(t)) }
            // the REAL CompositeShapeAgainstAnyDistanceVisitor (new + visit on an internal node: data = None)
            "dv3_visit" => { let _aabb2 = aabb(a); let best = a.f(); let bv = simd(a); let pos12 = d3::iso(a); let s = super::super::c03::sh(a);
                let g2 = super::super::c03::dynsh(&s);
                let g1 = Compound::new(vec![(Isometry::identity(), SharedShape::new(Ball::new(0.5)))]);
                let d = DefaultQueryDispatcher;
                let mut vis = CompositeShapeAgainstAnyDistanceVisitor::new(&d, &pos12, &g1, &*g2);
                match vis.visit(best, &bv, None) {
                    SimdBestFirstVisitStatus::MaybeContinue { weights, mask, .. } =>
                        format!("{} {}", (0..4).map(|i| ff(weights.extract(i))).collect::<Vec<_>>().join(" "), fmask(mask)),
                    _ => "exit".into(),
                } }
            // the REAL CompositeShapeAgainstShapeClosestPointsVisitor: same lane formula as the distance visitor
            "cp3_visit" => { let _aabb2 = aabb(a); let best = a.f(); let bv = simd(a); let pos12 = d3::iso(a); let s = super::super::c03::sh(a);
                let g2 = super::super::c03::dynsh(&s);
                let g1 = Compound::new(vec![(Isometry::identity(), SharedShape::new(Ball::new(0.5)))]);
                let d = DefaultQueryDispatcher;
                let mut vis = CompositeShapeAgainstShapeClosestPointsVisitor::new(&d, &pos12, &g1, &*g2, 1.0);
                match vis.visit(best, &bv, None) {
                    SimdBestFirstVisitStatus::MaybeContinue { weights, mask, .. } =>
                        format!("{} {}", (0..4).map(|i| ff(weights.extract(i))).collect::<Vec<_>>().join(" "), fmask(mask)),
                    _ => "exit".into(),
                } }
            // the REAL TOICompositeShapeShapeBestFirstVisitor (new + visit on an internal node)
            "tv3_visit" => { let _aabb2 = aabb(a); let vel = d3::v(a); let mt = a.f(); let td = a.f(); let bv = simd(a); let pos12 = d3::iso(a); let s = super::super::c03::sh(a);
                let g2 = super::super::c03::dynsh(&s);
                let g1 = Compound::new(vec![(Isometry::identity(), SharedShape::new(Ball::new(0.5)))]);
                let d = DefaultQueryDispatcher;
                let opts = ShapeCastOptions { max_time_of_impact: mt, target_distance: td, stop_at_penetration: true, compute_impact_geometry_on_penetration: true };
                let mut vis = TOICompositeShapeShapeBestFirstVisitor::new(&d, &pos12, &vel, &g1, &*g2, opts);
                match vis.visit(f64::MAX, &bv, None) {
                    SimdBestFirstVisitStatus::MaybeContinue { weights, mask, .. } =>
                        (0..4).map(|i| format!("{} {}", b(mask.extract(i)), ff(weights.extract(i)))).collect::<Vec<_>>().join(" "),
                    _ => "exit".into(),
                } }
            _ => "nofn".into(),
        }
    }
    /// the lane part of the linear shape-cast visitor (`tv3_visit`): same boxes as `gen_dv`, velocities towards / past / away from
    /// the lane boxes, hits exactly at max_toi, target distances 0 / 0.25
    pub fn gen_tv(r: &mut Rng, thorough: bool) -> Vec<(String, String)> {
        use crate::p3::bounding_volume::BoundingVolume;
        let mut v = Vec::new();
        let n = if thorough { 3000 } else { 400 };
        for it in 0..n {
            let lat = it % 2 == 0;
            let s = super::super::c03::gen_shape(r, lat, &[0, 1, 3, 4, 4, 5, 5]);
            let pos12 = if r.below(4) == 0 { Isometry::identity() } else if lat && r.bool() { Isometry::translation(*r.pick(&[-2.0, 0.5, 3.0]), *r.pick(&[0.0, 1.25]), *r.pick(&[-0.75, 2.0])) } else { d3::gen_iso(r, lat, 10.0) };
            let g2 = super::super::c03::dynsh(&s);
            let ab = g2.compute_aabb(&pos12);
            let xs: Vec<Aabb> = (0..4).map(|_| match r.below(5) { 0 => gen_box(r, lat), 1 => near_box(r, lat, &ab).merged(&gen_box(r, lat)), _ => near_box(r, lat, &ab) }).collect();
            let x0 = xs[r.below(4) as usize];
            let to = na::center(&x0.mins, &x0.maxs) - ab.center();
            let k = r.below(3) as usize;
            let vel = match r.below(5) { 0 => to * *r.pick(&[0.5, 1.0, 2.0]), 1 => -to, 2 => { let mut d = Vector::zeros(); d[k] = *r.pick(&[1.0, -1.0, 0.5]); d }, 3 => { let mut d = to; d[k] = 0.0; d }, _ => d3::gen_v(r, lat, 2.0) };
            let mt = *r.pick(&[0.5, 1.0, 2.0, 4.0, 1.0e3]); let td = *r.pick(&[0.0, 0.0, 0.25]);
            v.push(("tv3_visit".into(), format!("{} {} {} {} {} {} {}", haabb(&ab), d3::hv(&vel), hx(mt), hx(td), xs.iter().map(haabb).collect::<Vec<_>>().join(" "), d3::hiso(&pos12), super::super::c03::hsh(&s))));
        }
        v
    }
    /// the lane part of the composite distance visitor: other shape with an off-centre box (triangles, segments, capsules built
    /// from arbitrary points), arbitrary relative pose, lane boxes touching / overlapping / missing the other shape's box by
    /// lattice amounts, `best` = MAX / the exact weight of a lane (tie: the mask is strict) / small / random
    pub fn gen_dv(r: &mut Rng, thorough: bool) -> Vec<(String, String)> {
        use crate::p3::bounding_volume::BoundingVolume;
        let mut v = Vec::new();
        let n = if thorough { 3000 } else { 400 };
        for it in 0..n {
            let lat = it % 2 == 0;
            let s = super::super::c03::gen_shape(r, lat, &[0, 1, 3, 4, 4, 5, 5]);
            let pos12 = if r.below(4) == 0 { Isometry::identity() } else if lat && r.bool() { Isometry::translation(*r.pick(&[-2.0, 0.5, 3.0]), *r.pick(&[0.0, 1.25]), *r.pick(&[-0.75, 2.0])) } else { d3::gen_iso(r, lat, 10.0) };
            let g2 = super::super::c03::dynsh(&s);
            let ab = g2.compute_aabb(&pos12);
            let xs: Vec<Aabb> = (0..4).map(|_| match r.below(5) { 0 => gen_box(r, lat), 1 => near_box(r, lat, &ab).merged(&gen_box(r, lat)), _ => near_box(r, lat, &ab) }).collect();
            let gap = |x: &Aabb| -> f64 { (0..3).map(|k| { let g = (x.mins[k] - ab.maxs[k]).max(ab.mins[k] - x.maxs[k]).max(0.0); g * g }).sum::<f64>().sqrt() };
            let best = match r.below(5) { 0 => f64::MAX, 1 => gap(&xs[r.below(4) as usize]), 2 => *r.pick(&[0.0, 0.25, 0.5, 1.0]), 3 => gap(&xs[0]) + *r.pick(&[-0.25, 0.25]), _ => r.uniform(0.0, 5.0) };
            v.push(("dv3_visit".into(), format!("{} {} {} {} {}", haabb(&ab), hx(best), xs.iter().map(haabb).collect::<Vec<_>>().join(" "), d3::hiso(&pos12), super::super::c03::hsh(&s))));
        }
        v
    }

    fn gen_box(r: &mut Rng, lat: bool) -> Aabb {
        let c = d3::gen_p(r, lat, 10.0); let he = d3::gen_he(r, lat) * *r.pick(&[0.25, 1.0]);
        if r.below(10) == 0 { Aabb::new(c, c) } else { Aabb::new(c - he, c + he) }
    }
    /// a box that touches / overlaps / misses `x` by lattice amounts on a chosen side of every axis
    fn near_box(r: &mut Rng, lat: bool, x: &Aabb) -> Aabb {
        let mut y = gen_box(r, lat);
        let he = (y.maxs - y.mins) * 0.5;
        let mut c = na::center(&x.mins, &x.maxs);
        for k in 0..3 {
            let gap = *r.pick(&[0.0, 0.0, 0.0, -0.25, 0.25]);
            match r.below(4) { 0 => c[k] = x.maxs[k] + he[k] + gap, 1 => c[k] = x.mins[k] - he[k] - gap, _ => c[k] += *r.pick(&[-0.5, 0.0, 0.25]) }
        }
        y.mins = c - he; y.maxs = c + he; y
    }
    pub fn gen(r: &mut Rng, thorough: bool) -> Vec<(String, String)> {
        let mut v = Vec::new();
        let n = if thorough { 2000 } else { 250 };
        for it in 0..n {
            let lat = it % 2 == 0;
            let xs: Vec<Aabb> = (0..4).map(|_| gen_box(r, lat)).collect();
            let ys: Vec<Aabb> = xs.iter().map(|x| if r.below(4) == 0 { gen_box(r, lat) } else { near_box(r, lat, x) }).collect();
            let sx = xs.iter().map(haabb).collect::<Vec<_>>().join(" ");
            let sy = ys.iter().map(haabb).collect::<Vec<_>>().join(" ");
            // both orders: `self` is the node box for the enumeration / contact visitors, the query box for the intersection-test visitor
            v.push(("lane3_intersects".into(), format!("{} {}", sx, sy)));
            v.push(("lane3_intersects".into(), format!("{} {}", sy, sx)));
            // points on faces / edges / corners of a lane box, or anywhere
            let x0 = xs[r.below(4) as usize]; let c0 = na::center(&x0.mins, &x0.maxs);
            let mut p = c0; for k in 0..3 { p[k] = *r.pick(&[x0.mins[k], c0[k], x0.maxs[k], x0.maxs[k] + 0.25, x0.mins[k] - 0.25]); }
            let p = if r.below(4) == 0 { d3::gen_p(r, lat, 10.0) } else { p };
            v.push(("lane3_point".into(), format!("{} {}", sx, d3::hp(&p))));
            v.push(("lane3_dist".into(), format!("{} {}", sx, d3::hp(&p))));
            // rays: axis-parallel grazing a face, towards a corner, reaching the box exactly at max_toi, zero components, random
            let k = r.below(3 as u64) as usize; let j = (k + 1) % 3;
            let (org, dir, mt) = match r.below(5) {
                0 => { let mut o = c0; o[k] = if r.bool() { x0.maxs[k] } else { x0.mins[k] }; o[j] = x0.mins[j] - 2.0; let mut d = Vector::zeros(); d[j] = *r.pick(&[0.5, 1.0, 2.0]); (o, d, *r.pick(&[1.0, 2.0, 4.0, 1.0e3])) }
                1 => { let mut o = c0; o[k] = x0.maxs[k] + 2.0; let mut d = Vector::zeros(); d[k] = *r.pick(&[-1.0, -2.0, 1.0]); (o, d, *r.pick(&[1.0, 2.0, 4.0])) }
                2 => { let tgt = Point::from(x0.maxs.coords); let o = tgt + Vector::repeat(2.0); (o, (tgt - o) * *r.pick(&[0.5, 1.0]), *r.pick(&[1.0, 2.0, 1.0e3])) }
                3 => { let o = c0; (o, d3::gen_v(r, lat, 1.0), *r.pick(&[0.0, 1.0])) }
                _ => { let o = d3::gen_p(r, lat, 10.0); let tgt = c0 + d3::gen_v(r, lat, 1.0); let mut d = tgt - o; if r.below(3) == 0 { d[k] = 0.0; } (o, d, *r.pick(&[0.5, 1.0, 1.0e3])) }
            };
            v.push(("lane3_ray".into(), format!("{} {} {} {}", sx, d3::hp(&org), d3::hv(&dir), hx(mt))));
            // motions
            let m = NonlinearRigidMotion::new(d3::gen_iso(r, lat, 10.0), if r.below(3) == 0 { Point::origin() } else { d3::gen_p(r, lat, 4.0) }, d3::gen_v(r, lat, 2.0), if r.bool() { Vector::zeros() } else { d3::gen_v(r, lat, 1.0) });
            let tra = d3::gen_v(r, lat, 4.0); let iso = d3::gen_iso(r, lat, 4.0);
            v.push(("nl3_set".into(), format!("{} {} {} {}", hmotion(&m), r.below(4), d3::hv(&tra), d3::hiso(&iso))));
            let t = *r.pick(&[0.0, 0.5, 1.0, 3.0]);
            // the rotation part of `Isometry::new(linvel * t, angvel * t)` (the exponential map is not modelled) travels with the case
            let mm = Isometry::new(m.linvel * t, m.angvel * t);
            v.push(("nl3_pos".into(), format!("{} {} {}", hmotion(&m), hx(t), format!("{} {} {} {}", hx(mm.rotation.i), hx(mm.rotation.j), hx(mm.rotation.k), hx(mm.rotation.w)))));
        }
        v
    }
}

/// the lane tests of `SimdAabb` used by the composite-shape visitors and `NonlinearRigidMotion`, 2-D (`lane2_*`, `nl2_*`)
pub mod lanes2 {
    use crate::util::*;
    use crate::p2::bounding_volume::{Aabb, SimdAabb};
    use crate::p2::math::{SimdBool, SimdReal};
    use crate::p2::query::{NonlinearRigidMotion, Ray, SimdRay, DefaultQueryDispatcher};
    use crate::p2::query::details::{CompositeShapeAgainstAnyDistanceVisitor, CompositeShapeAgainstShapeClosestPointsVisitor, TOICompositeShapeShapeBestFirstVisitor};
    use crate::p2::query::ShapeCastOptions;
    use crate::p2::partitioning::{SimdBestFirstVisitStatus, SimdBestFirstVisitor};
    use crate::p2::shape::{Ball, Compound, SharedShape};
    use crate::p2::simba::simd::SimdValue;
    use d2::{Isometry, Point, Real, Vector, na};

    fn aabb(a: &mut Args) -> Aabb { Aabb::new(d2::p(a), d2::p(a)) }
    fn haabb(b: &Aabb) -> String { format!("{} {}", d2::hp(&b.mins), d2::hp(&b.maxs)) }
    fn simd(a: &mut Args) -> SimdAabb { SimdAabb::from([aabb(a), aabb(a), aabb(a), aabb(a)]) }
    fn fmask(m: SimdBool) -> String { (0..4).map(|i| b(m.extract(i))).collect::<Vec<_>>().join(" ") }
    fn motion(a: &mut Args) -> NonlinearRigidMotion { NonlinearRigidMotion::new(d2::iso(a), d2::p(a), d2::v(a), a.f()) }
    fn hmotion(m: &NonlinearRigidMotion) -> String { format!("{} {} {} {}", d2::hiso(&m.start), d2::hp(&m.local_center), d2::hv(&m.linvel), hx(m.angvel)) }
    fn fiso(m: &Isometry<Real>) -> String { format!("{} {} {}", ff(m.rotation.re), ff(m.rotation.im), d2::fv(&m.translation.vector)) }

    pub fn exec(func: &str, a: &mut Args) -> String {
        match func {
            "lane2_intersects" => { let x = simd(a); let y = simd(a); fmask(x.intersects(&y)) }
            "lane2_point" => { let x = simd(a); let p = d2::p(a); fmask(x.contains_local_point(&Point::splat(p))) }
            "lane2_dist" => { let x = simd(a); let p = d2::p(a);
                let d = x.distance_to_local_point(&Point::splat(p)); let o = x.distance_to_origin();
                (0..4).map(|i| ff(d.extract(i))).chain((0..4).map(|i| ff(o.extract(i)))).collect::<Vec<_>>().join(" ") }
            "lane2_ray" => { let x = simd(a); let ray = Ray::new(d2::p(a), d2::v(a)); let mt = a.f();
                let (hit, tmin) = x.cast_local_ray(&SimdRay::splat(ray), SimdReal::splat(mt));
                (0..4).map(|i| format!("{} {}", b(hit.extract(i)), ff(tmin.extract(i)))).collect::<Vec<_>>().join(" ") }
            "nl2_set" => { let m = motion(a); let k = a.u(); let tra = d2::v(a); let iso = d2::iso(a);
                let r = match k { 0 => m.append_translation(tra), 1 => m.prepend_translation(tra), 2 => m.append(iso), _ => m.prepend(iso) };
                format!("{} {}", fiso(&r.start), d2::fp(&r.local_center)) }
            "nl2_pos" => { let m = motion(a); let t = a.f(); fiso(&m.position_at_time(t)) }
            "dv2_visit" => { let _aabb2 = aabb(a); let best = a.f(); let bv = simd(a); let pos12 = d2::iso(a); let s = super::comp2::sh(a);
                let g2 = super::comp2::dynsh(&s);
                let g1 = Compound::new(vec![(Isometry::identity(), SharedShape::new(Ball::new(0.5)))]);
                let d = DefaultQueryDispatcher;
                let mut vis = CompositeShapeAgainstAnyDistanceVisitor::new(&d, &pos12, &g1, &*g2);
                match vis.visit(best, &bv, None) {
                    SimdBestFirstVisitStatus::MaybeContinue { weights, mask, .. } =>
                        format!("{} {}", (0..4).map(|i| ff(weights.extract(i))).collect::<Vec<_>>().join(" "), fmask(mask)),
                    _ => "exit".into(),
                } }
            "cp2_visit" => { let _aabb2 = aabb(a); let best = a.f(); let bv = simd(a); let pos12 = d2::iso(a); let s = super::comp2::sh(a);
                let g2 = super::comp2::dynsh(&s);
                let g1 = Compound::new(vec![(Isometry::identity(), SharedShape::new(Ball::new(0.5)))]);
                let d = DefaultQueryDispatcher;
                let mut vis = CompositeShapeAgainstShapeClosestPointsVisitor::new(&d, &pos12, &g1, &*g2, 1.0);
                match vis.visit(best, &bv, None) {
                    SimdBestFirstVisitStatus::MaybeContinue { weights, mask, .. } =>
                        format!("{} {}", (0..4).map(|i| ff(weights.extract(i))).collect::<Vec<_>>().join(" "), fmask(mask)),
                    _ => "exit".into(),
                } }
            "tv2_visit" => { let _aabb2 = aabb(a); let vel = d2::v(a); let mt = a.f(); let td = a.f(); let bv = simd(a); let pos12 = d2::iso(a); let s = super::comp2::sh(a);
                let g2 = super::comp2::dynsh(&s);
                let g1 = Compound::new(vec![(Isometry::identity(), SharedShape::new(Ball::new(0.5)))]);
                let d = DefaultQueryDispatcher;
                let opts = ShapeCastOptions { max_time_of_impact: mt, target_distance: td, stop_at_penetration: true, compute_impact_geometry_on_penetration: true };
                let mut vis = TOICompositeShapeShapeBestFirstVisitor::new(&d, &pos12, &vel, &g1, &*g2, opts);
                match vis.visit(f64::MAX, &bv, None) {
                    SimdBestFirstVisitStatus::MaybeContinue { weights, mask, .. } =>
                        (0..4).map(|i| format!("{} {}", b(mask.extract(i)), ff(weights.extract(i)))).collect::<Vec<_>>().join(" "),
                    _ => "exit".into(),
                } }
            _ => "nofn".into(),
        }
    }
    /// 2-D twin of `lanes3::gen_tv`
    pub fn gen_tv(r: &mut Rng, thorough: bool) -> Vec<(String, String)> {
        use crate::p2::bounding_volume::BoundingVolume;
        let mut v = Vec::new();
        let n = if thorough { 3000 } else { 400 };
        for it in 0..n {
            let lat = it % 2 == 0;
            let s = if r.below(3) == 0 { let (p, q) = (d2::gen_p(r, lat, 2.0), d2::gen_p(r, lat, 2.0)); super::comp2::Sh2::Segment(p, q + Vector::new(0.25, 0.0)) } else { super::comp2::gen_other(r, lat) };
            let pos12 = if r.below(4) == 0 { Isometry::identity() } else if lat && r.bool() { Isometry::translation(*r.pick(&[-2.0, 0.5, 3.0]), *r.pick(&[0.0, 1.25])) } else { d2::gen_iso(r, lat, 10.0) };
            let g2 = super::comp2::dynsh(&s);
            let ab = g2.compute_aabb(&pos12);
            let xs: Vec<Aabb> = (0..4).map(|_| match r.below(5) { 0 => gen_box(r, lat), 1 => near_box(r, lat, &ab).merged(&gen_box(r, lat)), _ => near_box(r, lat, &ab) }).collect();
            let x0 = xs[r.below(4) as usize];
            let to = na::center(&x0.mins, &x0.maxs) - ab.center();
            let k = r.below(2) as usize;
            let vel = match r.below(5) { 0 => to * *r.pick(&[0.5, 1.0, 2.0]), 1 => -to, 2 => { let mut d = Vector::zeros(); d[k] = *r.pick(&[1.0, -1.0, 0.5]); d }, 3 => { let mut d = to; d[k] = 0.0; d }, _ => d2::gen_v(r, lat, 2.0) };
            let mt = *r.pick(&[0.5, 1.0, 2.0, 4.0, 1.0e3]); let td = *r.pick(&[0.0, 0.0, 0.25]);
            v.push(("tv2_visit".into(), format!("{} {} {} {} {} {} {}", haabb(&ab), d2::hv(&vel), hx(mt), hx(td), xs.iter().map(haabb).collect::<Vec<_>>().join(" "), d2::hiso(&pos12), super::comp2::hsh(&s))));
        }
        v
    }
    /// 2-D twin of `lanes3::gen_dv`
    pub fn gen_dv(r: &mut Rng, thorough: bool) -> Vec<(String, String)> {
        use crate::p2::bounding_volume::BoundingVolume;
        let mut v = Vec::new();
        let n = if thorough { 3000 } else { 400 };
        for it in 0..n {
            let lat = it % 2 == 0;
            let s = if r.below(3) == 0 { let (p, q) = (d2::gen_p(r, lat, 2.0), d2::gen_p(r, lat, 2.0)); super::comp2::Sh2::Segment(p, q + Vector::new(0.25, 0.0)) } else { super::comp2::gen_other(r, lat) };
            let pos12 = if r.below(4) == 0 { Isometry::identity() } else if lat && r.bool() { Isometry::translation(*r.pick(&[-2.0, 0.5, 3.0]), *r.pick(&[0.0, 1.25])) } else { d2::gen_iso(r, lat, 10.0) };
            let g2 = super::comp2::dynsh(&s);
            let ab = g2.compute_aabb(&pos12);
            let xs: Vec<Aabb> = (0..4).map(|_| match r.below(5) { 0 => gen_box(r, lat), 1 => near_box(r, lat, &ab).merged(&gen_box(r, lat)), _ => near_box(r, lat, &ab) }).collect();
            let gap = |x: &Aabb| -> f64 { (0..2).map(|k| { let g = (x.mins[k] - ab.maxs[k]).max(ab.mins[k] - x.maxs[k]).max(0.0); g * g }).sum::<f64>().sqrt() };
            let best = match r.below(5) { 0 => f64::MAX, 1 => gap(&xs[r.below(4) as usize]), 2 => *r.pick(&[0.0, 0.25, 0.5, 1.0]), 3 => gap(&xs[0]) + *r.pick(&[-0.25, 0.25]), _ => r.uniform(0.0, 5.0) };
            v.push(("dv2_visit".into(), format!("{} {} {} {} {}", haabb(&ab), hx(best), xs.iter().map(haabb).collect::<Vec<_>>().join(" "), d2::hiso(&pos12), super::comp2::hsh(&s))));
        }
        v
    }

    fn gen_box(r: &mut Rng, lat: bool) -> Aabb {
        let c = d2::gen_p(r, lat, 10.0); let he = d2::gen_he(r, lat) * *r.pick(&[0.25, 1.0]);
        if r.below(10) == 0 { Aabb::new(c, c) } else { Aabb::new(c - he, c + he) }
    }
    /// a box that touches / overlaps / misses `x` by lattice amounts on a chosen side of every axis
    fn near_box(r: &mut Rng, lat: bool, x: &Aabb) -> Aabb {
        let mut y = gen_box(r, lat);
        let he = (y.maxs - y.mins) * 0.5;
        let mut c = na::center(&x.mins, &x.maxs);
        for k in 0..2 {
            let gap = *r.pick(&[0.0, 0.0, 0.0, -0.25, 0.25]);
            match r.below(4) { 0 => c[k] = x.maxs[k] + he[k] + gap, 1 => c[k] = x.mins[k] - he[k] - gap, _ => c[k] += *r.pick(&[-0.5, 0.0, 0.25]) }
        }
        y.mins = c - he; y.maxs = c + he; y
    }
    pub fn gen(r: &mut Rng, thorough: bool) -> Vec<(String, String)> {
        let mut v = Vec::new();
        let n = if thorough { 2000 } else { 250 };
        for it in 0..n {
            let lat = it % 2 == 0;
            let xs: Vec<Aabb> = (0..4).map(|_| gen_box(r, lat)).collect();
            let ys: Vec<Aabb> = xs.iter().map(|x| if r.below(4) == 0 { gen_box(r, lat) } else { near_box(r, lat, x) }).collect();
            let sx = xs.iter().map(haabb).collect::<Vec<_>>().join(" ");
            let sy = ys.iter().map(haabb).collect::<Vec<_>>().join(" ");
            // both orders: `self` is the node box for the enumeration / contact visitors, the query box for the intersection-test visitor
            v.push(("lane2_intersects".into(), format!("{} {}", sx, sy)));
            v.push(("lane2_intersects".into(), format!("{} {}", sy, sx)));
            // points on faces / edges / corners of a lane box, or anywhere
            let x0 = xs[r.below(4) as usize]; let c0 = na::center(&x0.mins, &x0.maxs);
            let mut p = c0; for k in 0..2 { p[k] = *r.pick(&[x0.mins[k], c0[k], x0.maxs[k], x0.maxs[k] + 0.25, x0.mins[k] - 0.25]); }
            let p = if r.below(4) == 0 { d2::gen_p(r, lat, 10.0) } else { p };
            v.push(("lane2_point".into(), format!("{} {}", sx, d2::hp(&p))));
            v.push(("lane2_dist".into(), format!("{} {}", sx, d2::hp(&p))));
            // rays: axis-parallel grazing a face, towards a corner, reaching the box exactly at max_toi, zero components, random
            let k = r.below(2 as u64) as usize; let j = (k + 1) % 2;
            let (org, dir, mt) = match r.below(5) {
                0 => { let mut o = c0; o[k] = if r.bool() { x0.maxs[k] } else { x0.mins[k] }; o[j] = x0.mins[j] - 2.0; let mut d = Vector::zeros(); d[j] = *r.pick(&[0.5, 1.0, 2.0]); (o, d, *r.pick(&[1.0, 2.0, 4.0, 1.0e3])) }
                1 => { let mut o = c0; o[k] = x0.maxs[k] + 2.0; let mut d = Vector::zeros(); d[k] = *r.pick(&[-1.0, -2.0, 1.0]); (o, d, *r.pick(&[1.0, 2.0, 4.0])) }
                2 => { let tgt = Point::from(x0.maxs.coords); let o = tgt + Vector::repeat(2.0); (o, (tgt - o) * *r.pick(&[0.5, 1.0]), *r.pick(&[1.0, 2.0, 1.0e3])) }
                3 => { let o = c0; (o, d2::gen_v(r, lat, 1.0), *r.pick(&[0.0, 1.0])) }
                _ => { let o = d2::gen_p(r, lat, 10.0); let tgt = c0 + d2::gen_v(r, lat, 1.0); let mut d = tgt - o; if r.below(3) == 0 { d[k] = 0.0; } (o, d, *r.pick(&[0.5, 1.0, 1.0e3])) }
            };
            v.push(("lane2_ray".into(), format!("{} {} {} {}", sx, d2::hp(&org), d2::hv(&dir), hx(mt))));
            // motions
            let m = NonlinearRigidMotion::new(d2::gen_iso(r, lat, 10.0), if r.below(3) == 0 { Point::origin() } else { d2::gen_p(r, lat, 4.0) }, d2::gen_v(r, lat, 2.0), if r.bool() { 0.0 } else { r.coord(lat, 1.0) });
            let tra = d2::gen_v(r, lat, 4.0); let iso = d2::gen_iso(r, lat, 4.0);
            v.push(("nl2_set".into(), format!("{} {} {} {}", hmotion(&m), r.below(4), d2::hv(&tra), d2::hiso(&iso))));
            let t = *r.pick(&[0.0, 0.5, 1.0, 3.0]);
            // the rotation part of `Isometry::new(linvel * t, angvel * t)` (the exponential map is not modelled) travels with the case
            let mm = Isometry::new(m.linvel * t, m.angvel * t);
            v.push(("nl2_pos".into(), format!("{} {} {}", hmotion(&m), hx(t), format!("{} {}", hx(mm.rotation.re), hx(mm.rotation.im)))));
        }
        v
    }
}

/// the grid lookups of the 2-D heightfield (`hf2_*`): the real `HeightField::{cell_at_point,
/// unclamped_elements_range_in_local_aabb, map_elements_in_local_aabb}`; wire format of a heightfield:
/// `n h_0 … h_{n-1} s_0 … s_{n-2} scale.x scale.y` (`s_i = 1`: cell `i` present)
pub mod hf2 {
    use crate::util::*;
    use crate::p2::bounding_volume::Aabb;
    use crate::p2::na::DVector;
    use crate::p2::shape::{HeightField, Segment, Shape};
    use crate::p2::query::{ClosestPoints, Contact, DefaultQueryDispatcher, NonlinearRigidMotion, QueryDispatcher, ShapeCastHit, ShapeCastOptions, Unsupported};
    use crate::p2::query::details::cast_shapes_heightfield_shape;
    use crate::p2::bounding_volume::BoundingVolume;
    use d2::{Isometry, Point, Vector};

    pub struct Rec(pub std::sync::Mutex<Vec<Segment>>);
    impl QueryDispatcher for Rec {
        fn intersection_test(&self, p: &Isometry<f64>, g1: &dyn Shape, g2: &dyn Shape) -> Result<bool, Unsupported> { DefaultQueryDispatcher.intersection_test(p, g1, g2) }
        fn distance(&self, p: &Isometry<f64>, g1: &dyn Shape, g2: &dyn Shape) -> Result<f64, Unsupported> { DefaultQueryDispatcher.distance(p, g1, g2) }
        fn contact(&self, p: &Isometry<f64>, g1: &dyn Shape, g2: &dyn Shape, pr: f64) -> Result<Option<Contact>, Unsupported> { DefaultQueryDispatcher.contact(p, g1, g2, pr) }
        fn closest_points(&self, p: &Isometry<f64>, g1: &dyn Shape, g2: &dyn Shape, m: f64) -> Result<ClosestPoints, Unsupported> { DefaultQueryDispatcher.closest_points(p, g1, g2, m) }
        fn cast_shapes(&self, p: &Isometry<f64>, v: &Vector<f64>, g1: &dyn Shape, g2: &dyn Shape, o: ShapeCastOptions) -> Result<Option<ShapeCastHit>, Unsupported> {
            if let Some(sg) = g1.as_segment() { self.0.lock().unwrap().push(*sg); }
            DefaultQueryDispatcher.cast_shapes(p, v, g1, g2, o)
        }
        fn cast_shapes_nonlinear(&self, m1: &NonlinearRigidMotion, g1: &dyn Shape, m2: &NonlinearRigidMotion, g2: &dyn Shape, s: f64, e: f64, st: bool) -> Result<Option<ShapeCastHit>, Unsupported> {
            DefaultQueryDispatcher.cast_shapes_nonlinear(m1, g1, m2, g2, s, e, st)
        }
    }
    pub struct H { pub hs: Vec<f64>, pub st: Vec<bool>, pub sc: Vector<f64> }
    pub fn h(a: &mut Args) -> H { let n = a.u(); let hs = (0..n).map(|_| a.f()).collect(); let st = (0..n - 1).map(|_| a.u() != 0).collect(); H { hs, st, sc: d2::v(a) } }
    pub fn hh(x: &H) -> String { format!("{} {} {} {}", x.hs.len(), hxs(x.hs.iter()), x.st.iter().map(|s| if *s { "1" } else { "0" }).collect::<Vec<_>>().join(" "), d2::hv(&x.sc)) }
    pub fn build(x: &H) -> HeightField {
        let mut f = HeightField::new(DVector::from_vec(x.hs.clone()), x.sc);
        for (i, s) in x.st.iter().enumerate() { if !*s { f.set_segment_removed(i, true); } }
        f
    }
    pub fn exec(func: &str, a: &mut Args) -> String {
        match func {
            "hf2_cell" => { let x = h(a); let f = build(&x); let p = d2::p(a);
                match f.cell_at_point(&p) { None => "none".into(), Some(i) => format!("some {}", i) } }
            "hf2_range" => { let x = h(a); let f = build(&x); let b = Aabb::new(d2::p(a), d2::p(a));
                let r = f.unclamped_elements_range_in_local_aabb(&b); format!("{} {}", r.start, r.end) }
            // the cell walk of the 2-D cast_shapes_heightfield_shape, observed through a recording dispatcher that forwards
            // every per-segment cast to the default dispatcher
            "hf2_walk" => { let x = h(a); let f = build(&x); let _ab = Aabb::new(d2::p(a), d2::p(a)); let vel = d2::v(a); let mt = a.f();
                let td = a.f(); let sp = a.u() != 0; let pos12 = d2::iso(a); let s = super::comp2::sh(a); let g2 = super::comp2::dynsh(&s);
                let rec = Rec(std::sync::Mutex::new(Vec::new()));
                let opts = ShapeCastOptions { max_time_of_impact: mt, target_distance: td, stop_at_penetration: sp, compute_impact_geometry_on_penetration: true };
                let res = cast_shapes_heightfield_shape(&rec, &pos12, &vel, &f, &*g2, opts);
                if res.is_err() { return "unsupported".into(); }
                let segs = rec.0.lock().unwrap();
                let ids: Vec<String> = segs.iter().map(|sg| match (0..f.num_cells()).find(|i| f.segment_at(*i).map(|t| t.a == sg.a && t.b == sg.b).unwrap_or(false)) { Some(i) => i.to_string(), None => "?".into() }).collect();
                format!("ids {}", ids.join(" ")).trim_end().to_string() }
            "hf2_elems" => { let x = h(a); let f = build(&x); let b = Aabb::new(d2::p(a), d2::p(a));
                let mut ids = Vec::new(); f.map_elements_in_local_aabb(&b, &mut |i, _| ids.push(i.to_string()));
                format!("ids {}", ids.join(" ")).trim_end().to_string() }
            _ => "nofn".into(),
        }
    }
    pub fn gen_h(r: &mut Rng, lat: bool) -> H {
        let n = *r.pick(&[2usize, 2, 3, 4, 5, 6, 8, 9, 11, 17, 34]);
        let zig = r.below(3) == 0;
        let hs: Vec<f64> = (0..n).map(|i| if zig { if i % 2 == 0 { 0.0 } else { *r.pick(&[1.0, -1.0, 0.5]) } } else if lat { *r.pick(&[0.0, 0.25, 0.5, 1.0, -0.5, 2.0]) } else { r.uniform(-2.0, 2.0) }).collect();
        let st = (0..n - 1).map(|_| r.below(6) != 0).collect();
        let sx = if lat { *r.pick(&[1.0, 2.0, 4.0, 0.5, 3.0, 10.0, 7.0]) } else { *r.pick(&[0.01, 0.37, 1.3, 17.0, 100.0]) * r.uniform(1.0, 1.5).min(100.0 / 1.5) };
        let sy = if lat { *r.pick(&[1.0, 2.0, 0.5]) } else { r.uniform(0.05, 5.0) };
        H { hs, st, sc: Vector::new(sx.min(100.0), sy) }
    }
    /// an abscissa on / next to a cell boundary (computed as the code computes vertex abscissae, or exactly), on the
    /// border, outside, anywhere
    fn gen_x(r: &mut Rng, x: &H, f: &HeightField) -> f64 {
        let n = x.hs.len() - 1; let i = r.below(n as u64 + 1) as f64;
        let vx = f.start_x() + f.cell_width() * i;
        let ex = x.sc.x * (-0.5 + i / n as f64);
        match r.below(8) {
            0 => vx, 1 => ex, 2 => if vx == 0.0 { 1.0e-300 } else { f64::from_bits(vx.to_bits() + 1) }, 3 => if vx == 0.0 { -1.0e-300 } else { f64::from_bits(vx.to_bits() - 1) },
            4 => vx + *r.pick(&[0.25, -0.25, 0.001]) * f.cell_width(),
            5 => *r.pick(&[-0.5, 0.5, -0.75, 0.75, -10.0, 10.0]) * x.sc.x,
            6 => r.uniform(-0.7, 0.7) * x.sc.x,
            _ => vx + 0.5 * f.cell_width(),
        }
    }
    pub fn gen(r: &mut Rng, thorough: bool) -> Vec<(String, String)> {
        let mut v = Vec::new();
        let n = if thorough { 4000 } else { 500 };
        for it in 0..n {
            let lat = it % 2 == 0;
            let x = gen_h(r, lat); let f = build(&x); let s = hh(&x);
            let p = Point::new(gen_x(r, &x, &f), *r.pick(&[0.0, 1.0, -3.0]));
            v.push(("hf2_cell".into(), format!("{} {}", s, d2::hp(&p))));
            // boxes: edges on cell boundaries, zero width, spanning everything, outside, touching the border; ordinates above /
            // below / touching the heights of the cells
            let (mut x0, mut x1) = (gen_x(r, &x, &f), gen_x(r, &x, &f));
            if r.below(8) == 0 { x1 = x0; }
            if x0 > x1 { std::mem::swap(&mut x0, &mut x1); }
            let hy = x.hs[r.below(x.hs.len() as u64) as usize] * x.sc.y;
            let (y0, y1) = match r.below(5) { 0 => (hy, hy + 1.0), 1 => (hy - 1.0, hy), 2 => (-100.0, 100.0), 3 => (hy + 0.25, hy + 0.5), _ => { let a = r.uniform(-3.0, 3.0); (a, a + r.uniform(0.0, 2.0)) } };
            let b = format!("{} {} {} {}", hx(x0), hx(y0), hx(x1), hx(y1));
            v.push(("hf2_range".into(), format!("{} {}", s, b)));
            v.push(("hf2_elems".into(), format!("{} {}", s, b)));
            // cell walk: a small shape somewhere above / left / right of the heightfield moving mostly sideways (both ways),
            // straight down, or barely sideways; time limits that stop the walk early or never
            let sh = match r.below(4) { 0 => super::comp2::Sh2::Ball(*r.pick(&[0.25, 0.5, 1.0])), 1 => super::comp2::Sh2::Cuboid(Vector::new(*r.pick(&[0.1, 0.5, 2.0]), 0.25)),
                2 => super::comp2::Sh2::Segment(Point::new(0.5, 0.0), Point::new(1.5, 0.25)), _ => super::comp2::gen_other(r, lat) };
            let px = match r.below(4) { 0 => *r.pick(&[-0.5, 0.5]) * x.sc.x, 1 => *r.pick(&[-0.75, 0.75, -2.0, 2.0]) * x.sc.x, _ => gen_x(r, &x, &f) };
            let py = *r.pick(&[0.0, 1.0, 3.0, -1.0]) * x.sc.y;
            let pos12 = if lat || r.bool() { Isometry::translation(px, py) } else { Isometry::new(Vector::new(px, py), r.uniform(-3.0, 3.0)) };
            let vel = match r.below(6) { 0 => Vector::new(0.0, -1.0), 1 => Vector::new(*r.pick(&[1.0, -1.0, 2.0, -0.5]), 0.0), 2 => Vector::new(*r.pick(&[1.0e-3, -1.0e-3]), -1.0),
                _ => Vector::new(*r.pick(&[1.0, -1.0, 3.0, -3.0]) * if lat { 1.0 } else { r.uniform(0.2, 1.5) }, *r.pick(&[0.0, -0.25, -1.0, 0.5])) };
            let mt = *r.pick(&[0.5, 1.0, 2.0, 10.0, 1.0e3, f64::MAX]) * if r.below(4) == 0 { x.sc.x } else { 1.0 };
            let td = *r.pick(&[0.0, 0.0, 0.25]); let sp = r.bool();
            let g2 = super::comp2::dynsh(&sh);
            let ab = g2.compute_aabb(&pos12).loosened(td);
            v.push(("hf2_walk".into(), format!("{} {} {} {} {} {} {} {} {}", s, d2::hp(&ab.mins), d2::hp(&ab.maxs), d2::hv(&vel), hx(mt), hx(td), sp as u8, d2::hiso(&pos12), super::comp2::hsh(&sh))));
        }
        v
    }
}

/// the grid lookups of the 3-D heightfield (`hf3_*`): the real `HeightField::{cell_at_point,
/// unclamped_elements_range_in_local_aabb, map_elements_in_local_aabb}`; wire format:
/// `nr nc h[nr*nc] (column-major) st[(nr-1)*(nc-1)] (column-major flag bits) scale.x scale.y scale.z`
pub mod hf3 {
    use crate::util::*;
    use crate::p3::bounding_volume::Aabb;
    use crate::p3::na::DMatrix;
    use crate::p3::shape::{HeightField, HeightFieldCellStatus};
    use d3::{Point, Vector};

    pub struct H { pub nr: usize, pub nc: usize, pub hs: Vec<f64>, pub st: Vec<u8>, pub sc: Vector<f64> }
    pub fn h(a: &mut Args) -> H { let nr = a.u(); let nc = a.u(); let hs = (0..nr * nc).map(|_| a.f()).collect(); let st = (0..(nr - 1) * (nc - 1)).map(|_| a.u() as u8).collect(); H { nr, nc, hs, st, sc: d3::v(a) } }
    pub fn hh(x: &H) -> String { format!("{} {} {} {} {}", x.nr, x.nc, hxs(x.hs.iter()), x.st.iter().map(|s| s.to_string()).collect::<Vec<_>>().join(" "), d3::hv(&x.sc)) }
    pub fn build(x: &H) -> HeightField {
        let mut f = HeightField::new(DMatrix::from_column_slice(x.nr, x.nc, &x.hs), x.sc);
        for j in 0..x.nc - 1 { for i in 0..x.nr - 1 { f.set_cell_status(i, j, HeightFieldCellStatus::from_bits_truncate(x.st[i + j * (x.nr - 1)])); } }
        f
    }
    pub fn exec(func: &str, a: &mut Args) -> String {
        match func {
            "hf3_cell" => { let x = h(a); let f = build(&x); let p = d3::p(a);
                match f.cell_at_point(&p) { None => "none".into(), Some((i, j)) => format!("some {} {}", i, j) } }
            "hf3_range" => { let x = h(a); let f = build(&x); let b = Aabb::new(d3::p(a), d3::p(a));
                let (ri, rj) = f.unclamped_elements_range_in_local_aabb(&b); format!("{} {} {} {}", ri.start, ri.end, rj.start, rj.end) }
            "hf3_elems" => { let x = h(a); let f = build(&x); let b = Aabb::new(d3::p(a), d3::p(a));
                let mut ids = Vec::new(); f.map_elements_in_local_aabb(&b, &mut |i, _| ids.push(i.to_string()));
                format!("ids {}", ids.join(" ")).trim_end().to_string() }
            _ => "nofn".into(),
        }
    }
    pub fn gen_h(r: &mut Rng, lat: bool) -> H {
        let nr = *r.pick(&[2usize, 2, 3, 4, 5, 6, 9]); let nc = *r.pick(&[2usize, 3, 3, 4, 5, 7, 10]);
        let hs: Vec<f64> = (0..nr * nc).map(|_| if lat { *r.pick(&[0.0, 0.25, 0.5, 1.0, -0.5, 2.0]) } else { r.uniform(-2.0, 2.0) }).collect();
        let st = (0..(nr - 1) * (nc - 1)).map(|_| *r.pick(&[0u8, 0, 0, 1, 1, 2, 4, 6, 3, 5])).collect();
        let sc = if lat { Vector::new(*r.pick(&[1.0, 2.0, 4.0, 0.5, 3.0, 10.0, 7.0]), *r.pick(&[1.0, 2.0, 0.5]), *r.pick(&[1.0, 2.0, 4.0, 6.0, 0.25])) }
                 else { Vector::new(r.uniform(0.05, 50.0), r.uniform(0.05, 5.0), r.uniform(0.05, 50.0)) };
        H { nr, nc, hs, st, sc }
    }
    /// an abscissa on / beside a grid line of an axis with `n` cells and scale `s`, on the border, outside, anywhere
    fn gen_c(r: &mut Rng, n: usize, s: f64) -> f64 {
        let i = r.below(n as u64 + 1) as f64;
        let w = 1.0 / ((n + 1) as f64 - 1.0);
        let vx = (-0.5 + w * i) * s;
        match r.below(8) {
            0 => vx, 1 => s * (-0.5 + i / n as f64), 2 => if vx == 0.0 { 1.0e-300 } else { f64::from_bits(vx.to_bits() + 1) }, 3 => if vx == 0.0 { -1.0e-300 } else { f64::from_bits(vx.to_bits() - 1) },
            4 => vx + *r.pick(&[0.25, -0.25, 0.001]) * w * s,
            5 => *r.pick(&[-0.5, 0.5, -0.75, 0.75, -10.0, 10.0]) * s,
            6 => r.uniform(-0.7, 0.7) * s,
            _ => vx + 0.5 * w * s,
        }
    }
    pub fn gen(r: &mut Rng, thorough: bool) -> Vec<(String, String)> {
        let mut v = Vec::new();
        let n = if thorough { 4000 } else { 500 };
        for it in 0..n {
            let lat = it % 2 == 0;
            let x = gen_h(r, lat); let s = hh(&x);
            let p = Point::new(gen_c(r, x.nc - 1, x.sc.x), *r.pick(&[0.0, 1.0]), gen_c(r, x.nr - 1, x.sc.z));
            v.push(("hf3_cell".into(), format!("{} {}", s, d3::hp(&p))));
            let (mut x0, mut x1) = (gen_c(r, x.nc - 1, x.sc.x), gen_c(r, x.nc - 1, x.sc.x)); if r.below(8) == 0 { x1 = x0; } if x0 > x1 { std::mem::swap(&mut x0, &mut x1); }
            let (mut z0, mut z1) = (gen_c(r, x.nr - 1, x.sc.z), gen_c(r, x.nr - 1, x.sc.z)); if r.below(8) == 0 { z1 = z0; } if z0 > z1 { std::mem::swap(&mut z0, &mut z1); }
            let hy = x.hs[r.below(x.hs.len() as u64) as usize] * x.sc.y;
            let (y0, y1) = match r.below(5) { 0 => (hy, hy + 1.0), 1 => (hy - 1.0, hy), 2 => (-100.0, 100.0), 3 => (hy + 0.25, hy + 0.5), _ => { let a = r.uniform(-3.0, 3.0); (a, a + r.uniform(0.0, 2.0)) } };
            let b = format!("{} {} {} {} {} {}", hx(x0), hx(y0), hx(z0), hx(x1), hx(y1), hx(z1));
            v.push(("hf3_range".into(), format!("{} {}", s, b)));
            v.push(("hf3_elems".into(), format!("{} {}", s, b)));
        }
        v
    }
}
