//! C07: traversals of the real `Qbvh` against brute force.  `bf_point`: a C08 history, then a point;
//! `Qbvh::traverse_best_first` with a point-distance visitor.
use crate::util::*;
use super::c08;
use crate::p3::bounding_volume::{Aabb, SimdAabb};
use crate::p3::math::{Real, SimdBool, SimdReal};
use crate::p3::partitioning::{SimdBestFirstVisitStatus, SimdBestFirstVisitor};

fn dist2(p: &d3::Point<Real>, b: &Aabb) -> f64 {
    let mut s = 0.0;
    // same operation order as `Model.Qbvh.dist2`
    let dx = (b.mins.x - p.x).max(p.x - b.maxs.x).max(0.0);
    let dy = (b.mins.y - p.y).max(p.y - b.maxs.y).max(0.0);
    let dz = (b.mins.z - p.z).max(p.z - b.maxs.z).max(0.0);
    s += dx * dx; s += dy * dy; s += dz * dz;
    s
}

struct PointVisitor<'a> { p: d3::Point<Real>, cur: &'a [Aabb] }
impl<'a> SimdBestFirstVisitor<u32, SimdAabb> for PointVisitor<'a> {
    type Result = u32;
    fn visit(&mut self, best: Real, bv: &SimdAabb, data: Option<[Option<&u32>; 4]>) -> SimdBestFirstVisitStatus<u32> {
        let mut weights = [0.0f64; 4]; let mut mask = [false; 4]; let mut results = [None; 4];
        for ii in 0..4 {
            match data {
                Some(d) => if let Some(id) = d[ii] {
                    let bx = self.cur.get(*id as usize).copied().unwrap_or_else(Aabb::new_invalid);
                    let c = dist2(&self.p, &bx);
                    weights[ii] = c; mask[ii] = c < best; results[ii] = Some(*id);
                },
                None => { let w = dist2(&self.p, &bv.extract(ii)); weights[ii] = w; mask[ii] = w < best; }
            }
        }
        SimdBestFirstVisitStatus::MaybeContinue { weights: SimdReal::from(weights), mask: SimdBool::from(mask), results }
    }
}

pub fn exec(func: &str, a: &mut Args) -> String {
    match func {
        "bf_point" => {
            let (q, cur, _) = c08::replay_cur(a, false);
            let p = d3::p(a);
            match q {
                None => "PANIC".into(),
                Some(q) => {
                    let mut v = PointVisitor { p, cur: &cur };
                    match q.traverse_best_first(&mut v) {
                        None => "none".into(),
                        Some((_, id)) => format!("some {}", ff(dist2(&p, &cur[id as usize]))),
                    }
                }
            }
        }
        _ => "nofn".into(),
    }
}

pub fn gen(r: &mut Rng, thorough: bool) -> Vec<(String, String)> {
    let mut v = Vec::new();
    let n = if thorough { 500 } else { 200 };
    for it in 0..n {
        let lat = it % 2 == 0;
        for (_, args) in c08::gen_history_for_queries(r, thorough, lat, 4) {
            v.push(("bf_point".to_string(), args));
        }
    }
    v
}
