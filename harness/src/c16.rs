//! C16: ear clipping (`TriMesh::from_polygon`), Hertel–Mehlhorn (`hertel_mehlhorn_idx`, `hertel_mehlhorn`) and the
//! `Compound::decompose_trimesh` glue (`ConvexPolygon::from_convex_polyline`), all through the public API.
use crate::util::*;
use crate::p2::shape::TriMesh;
use crate::p2::transformation::{hertel_mehlhorn, hertel_mehlhorn_idx};
use crate::p2::shape::Compound;

type P2 = d2::Point<f64>;

fn poly(a: &mut Args) -> Vec<P2> { let n = a.u(); (0..n).map(|_| d2::p(a)).collect() }
fn hpoly(p: &[P2]) -> String {
    let mut s = format!("{}", p.len());
    for q in p { s.push(' '); s.push_str(&d2::hp(q)); }
    s
}
fn htris(t: &[[u32; 3]]) -> String {
    let mut s = format!("{}", t.len());
    for x in t { s.push_str(&format!(" {} {} {}", x[0], x[1], x[2])); }
    s
}

pub fn exec(func: &str, a: &mut Args) -> String {
    match func {
        "dbg_families" => { let mut r = Rng::new(a.u() as u64); let mut out = String::new();
            for fam in 0..7u64 { let (mut ok, mut bad, mut nv) = (0, 0, 0);
                for it in 0..300 { let m = if it % 10 == 0 { 12 + r.below(40) as usize } else { 2 + r.below(7) as usize };
                    let base = family2(&mut r, fam, m); let mut p = place(&mut r, true, &base); if !is_ccw(&p) { p.reverse(); }
                    nv += p.len(); if simple_exact(&p) { ok += 1 } else { bad += 1; if bad == 1 { out.push_str(&format!("[bad fam {} {:?}] ", fam, base)); } } }
                out.push_str(&format!("fam{}: ok {} bad {} avgn {}; ", fam, ok, bad, nv / 300)); }
            out }
        // family / size distribution of the fu4 generator families (for the notes; not part of the check)
        "dbg_families4" => { let mut r = Rng::new(a.u() as u64); let thorough = a.u() != 0; let mut v = Vec::new();
            let d = gen_growth4(&mut r, thorough, &mut v); format!("{} cases; {}", v.len(), d) }
        "dbg_families5" => { let mut r = Rng::new(a.u() as u64); let thorough = a.u() != 0; let mut v = Vec::new();
            let d = gen_growth5(&mut r, thorough, &mut v); format!("{} cases; {}", v.len(), d) }
        // `TriMesh::from_polygon` observed through the mesh it builds: vertex buffer and `flat_indices()` (u32 view)
        "from_polygon_mesh" => { let p = poly(a);
            match TriMesh::from_polygon(p) { None => "none".into(), Some(m) => {
                let mut s = format!("mesh {}", fpoly(m.vertices()));
                let f = m.flat_indices(); s.push_str(&format!(" {}", f.len())); for i in f { s.push_str(&format!(" {}", i)); }
                s } } }
        "triangulate" => { let p = poly(a);
            match TriMesh::from_polygon(p) { None => "none".into(), Some(m) => format!("some {}", htris(m.indices())) } }
        "hertel_mehlhorn" => { let p = poly(a); let k = a.u();
            let t: Vec<[u32; 3]> = (0..k).map(|_| [a.u() as u32, a.u() as u32, a.u() as u32]).collect();
            let r = hertel_mehlhorn_idx(&p, &t);
            let mut s = format!("{}", r.len());
            for q in r.iter() { s.push_str(&format!(" {}", q.len())); for i in q.iter() { s.push_str(&format!(" {}", i)); } }
            s }
        // the point-valued wrapper `hertel_mehlhorn` (public API): pieces as point lists
        "hertel_mehlhorn_pts" => { let p = poly(a); let k = a.u();
            let t: Vec<[u32; 3]> = (0..k).map(|_| [a.u() as u32, a.u() as u32, a.u() as u32]).collect();
            let r = hertel_mehlhorn(&p, &t);
            let mut s = format!("{}", r.len());
            for q in r.iter() { s.push(' '); s.push_str(&fpoly(q)); }
            s }
        // `Compound::decompose_trimesh(&TriMesh::from_polygon(p)?)` through the public API
        "decompose" => { let p = poly(a);
            match TriMesh::from_polygon(p) { None => "none".into(), Some(m) => fcompound(Compound::decompose_trimesh(&m)) } }
        // `Compound::decompose_trimesh(&TriMesh::new(p, t))`: any triangle list
        "decompose_tris" => { let p = poly(a); let k = a.u();
            let t: Vec<[u32; 3]> = (0..k).map(|_| [a.u() as u32, a.u() as u32, a.u() as u32]).collect();
            match TriMesh::new(p, t) { Err(_) => "none".into(), Ok(m) => fcompound(Compound::decompose_trimesh(&m)) } }
        _ => "nofn".into(),
    }
}

fn fpoly(p: &[P2]) -> String {
    let mut s = format!("{}", p.len());
    for q in p { s.push(' '); s.push_str(&d2::fp(q)); }
    s
}
/// `cnone` | `shapes m (T a b c | P k points… normals…)*`
fn fcompound(c: Option<Compound>) -> String {
    match c {
        None => "cnone".into(),
        Some(c) => {
            let mut s = format!("shapes {}", c.shapes().len());
            for (m, sh) in c.shapes() {
                if *m != d2::Isometry::identity() { s.push_str(" nonidentity"); }
                if let Some(t) = sh.as_triangle() { s.push_str(&format!(" T {} {} {}", d2::fp(&t.a), d2::fp(&t.b), d2::fp(&t.c))); }
                else if let Some(cp) = sh.as_convex_polygon() {
                    s.push_str(&format!(" P {}", fpoly(cp.points())));
                    for n in cp.normals() { s.push(' '); s.push_str(&d2::fv(&n.into_inner())); }
                } else { s.push_str(" othershape"); }
            }
            s
        }
    }
}

// ---------------------------------------------------------------- polygon families (all counter-clockwise, simple)

fn lat_pt(r: &mut Rng) -> P2 { P2::new(r.lattice(16, 2), r.lattice(16, 2)) }

/// star-shaped polygon around `c`: exact direction fan (lattice) or sorted random angles
fn star(r: &mut Rng, lat: bool, n: usize) -> Vec<P2> {
    if lat {
        // directions (dx,dy) of a fan sorted by angle: slopes k/8 in each octant → up to 64 exact directions
        let mut dirs: Vec<(f64, f64)> = Vec::new();
        for o in 0..8 {
            for k in 0..8 {
                let t = k as f64 / 8.0;
                let (x, y) = match o { 0 => (1.0, t), 1 => (1.0 - t, 1.0), 2 => (-t, 1.0), 3 => (-1.0, 1.0 - t),
                                       4 => (-1.0, -t), 5 => (-1.0 + t, -1.0), 6 => (t, -1.0), _ => (1.0, -1.0 + t) };
                dirs.push((x, y));
            }
        }
        let c = lat_pt(r);
        let mut keep: Vec<usize> = (0..dirs.len()).collect();
        while keep.len() > n.max(3) { let i = r.below(keep.len() as u64) as usize; keep.remove(i); }
        // consecutive kept directions must span < 180°: the full set has 45°/8 steps, so dropping many can break that;
        // guard by keeping at least one direction per quadrant boundary when n is small
        keep.iter().map(|&i| { let k = (1 + r.below(8)) as f64 * 0.5; P2::new(c.x + dirs[i].0 * k, c.y + dirs[i].1 * k) }).collect()
    } else {
        let mut ang: Vec<f64> = (0..n).map(|_| r.uniform(0.0, 6.283185307179586)).collect();
        ang.sort_by(|a, b| a.partial_cmp(b).unwrap());
        let c = P2::new(r.uniform(-100.0, 100.0), r.uniform(-100.0, 100.0));
        let s = r.logu(1e-1, 1e2);
        ang.iter().map(|t| { let k = s * r.uniform(0.3, 1.0); P2::new(c.x + k * t.cos(), c.y + k * t.sin()) }).collect()
    }
}
/// x-monotone polygon: lower chain left→right, upper chain right→left
fn monotone(r: &mut Rng, lat: bool, n: usize) -> Vec<P2> {
    let m = n.max(4);
    let nl = 2 + r.below((m - 3) as u64) as usize; let nu = m - nl;
    let step = if lat { 0.5 } else { r.logu(0.1, 10.0) };
    let x0 = if lat { r.lattice(8, 1) } else { r.uniform(-50.0, 50.0) };
    let mut v = Vec::new();
    // both chains share the extreme x positions (all abscissae are integer multiples of `step`: exact in lattice mode);
    // lower y in [-3,0), upper y in (0,3]
    for i in 0..nl {
        let x = x0 + step * (i * (nu + 1)) as f64;
        let y = if i == 0 || i + 1 == nl { 0.0 } else if lat { -((1 + r.below(6)) as f64) * 0.5 } else { -r.uniform(0.1, 3.0) * step };
        v.push(P2::new(x, y));
    }
    for j in 0..nu {
        let x = x0 + step * ((nu - j) * (nl - 1)) as f64;
        let y = if lat { ((1 + r.below(6)) as f64) * 0.5 } else { r.uniform(0.1, 3.0) * step };
        v.push(P2::new(x, y));
    }
    v
}
/// comb with `teeth` teeth (axis-parallel, many collinear / same-level vertices)
fn comb(r: &mut Rng, lat: bool, teeth: usize) -> Vec<P2> {
    let s = if lat { 0.5 } else { r.logu(0.1, 10.0) };
    let o = if lat { lat_pt(r) } else { P2::new(r.uniform(-50.0, 50.0), r.uniform(-50.0, 50.0)) };
    let mut v = vec![P2::new(o.x, o.y)];
    for t in 0..teeth {
        let x0 = o.x + (2 * t) as f64 * s; let x1 = x0 + s; let x2 = x0 + 2.0 * s;
        let h = (2 + r.below(3)) as f64 * s;
        v.push(P2::new(x0, o.y + h)); v.push(P2::new(x1, o.y + h));
        if t + 1 < teeth { v.push(P2::new(x1, o.y + s)); v.push(P2::new(x2, o.y + s)); }
    }
    v.push(P2::new(o.x + (2 * teeth - 1) as f64 * s, o.y));
    v.reverse();
    v
}
/// spiral corridor: lattice = fixed rectangular spirals (1 or 2 turns); random = polar spiral with `turns` turns
fn spiral(r: &mut Rng, lat: bool, turns: usize) -> Vec<P2> {
    if lat {
        let base: Vec<(f64, f64)> = if r.bool() {
            vec![(0.0, 0.0), (5.0, 0.0), (5.0, 5.0), (0.0, 5.0), (0.0, 2.0), (1.0, 2.0), (1.0, 4.0), (4.0, 4.0), (4.0, 1.0), (0.0, 1.0)]
        } else {
            vec![(0.0, 0.0), (9.0, 0.0), (9.0, 9.0), (0.0, 9.0), (0.0, 2.0), (7.0, 2.0), (7.0, 7.0), (2.0, 7.0), (2.0, 4.0), (3.0, 4.0),
                 (3.0, 6.0), (6.0, 6.0), (6.0, 3.0), (1.0, 3.0), (1.0, 8.0), (8.0, 8.0), (8.0, 1.0), (0.0, 1.0)]
        };
        return similar(r, &base);
    }
    let b = r.logu(0.05, 2.0); let w = 3.0 * b; let r0 = 4.0 * b;
    let m = 24 * turns;
    let c = P2::new(r.uniform(-50.0, 50.0), r.uniform(-50.0, 50.0));
    let mut v = Vec::new();
    for i in 0..=m { let t = i as f64 * 6.283185307179586 / 24.0; let k = r0 + b * t; v.push(P2::new(c.x + k * t.cos(), c.y + k * t.sin())); }
    for i in (0..=m).rev() { let t = i as f64 * 6.283185307179586 / 24.0; let k = r0 + b * t - w; v.push(P2::new(c.x + k * t.cos(), c.y + k * t.sin())); }
    v
}
/// exact similarity: rotation by a multiple of 90°, scale 2^k, lattice shift (orientation preserved)
fn similar(r: &mut Rng, base: &[(f64, f64)]) -> Vec<P2> {
    let (c, s) = *r.pick(&[(1.0, 0.0), (0.0, 1.0), (-1.0, 0.0), (0.0, -1.0)]);
    let k = *r.pick(&[0.25, 0.5, 1.0, 2.0]);
    let o = lat_pt(r);
    base.iter().map(|p| P2::new(o.x + k * (c * p.0 - s * p.1), o.y + k * (s * p.0 + c * p.1))).collect()
}
/// insert collinear vertices on edges
fn subdivide(r: &mut Rng, lat: bool, p: &[P2], prob: u64) -> Vec<P2> {
    let mut v = Vec::new();
    for i in 0..p.len() {
        let a = p[i]; let b = p[(i + 1) % p.len()];
        v.push(a);
        if r.below(prob) == 0 {
            let k = if lat { *r.pick(&[1usize, 3]) } else { 1 + r.below(2) as usize }; // lattice: halves / quarters stay exact
            for j in 1..=k { let t = j as f64 / (k + 1) as f64; v.push(P2::new(a.x + (b.x - a.x) * t, a.y + (b.y - a.y) * t)); }
        }
    }
    v
}
/// families with a vertex exactly on an ear diagonal / on another edge's line
fn diagonal_family(r: &mut Rng) -> Vec<P2> {
    let base: Vec<(f64, f64)> = match r.below(5) {
        0 => vec![(0.0, 0.0), (4.0, 0.0), (4.0, 4.0), (2.0, 2.0), (0.0, 4.0)],
        1 => vec![(0.0, 0.0), (2.0, 0.0), (4.0, 0.0), (4.0, 2.0), (2.0, 2.0), (2.0, 4.0), (0.0, 4.0)],
        2 => vec![(0.0, 0.0), (6.0, 0.0), (6.0, 6.0), (4.0, 4.0), (3.0, 5.0), (2.0, 4.0), (0.0, 6.0)],
        3 => vec![(0.0, 0.0), (4.0, 0.0), (4.0, 1.0), (1.0, 1.0), (1.0, 3.0), (4.0, 3.0), (4.0, 4.0), (0.0, 4.0)],
        _ => vec![(0.0, 0.0), (1.0, 0.0), (2.0, 0.0), (3.0, 0.0), (3.0, 1.0), (2.0, 1.0), (1.0, 1.0), (0.0, 1.0)],
    };
    similar(r, &base)
}
fn rotate_start(r: &mut Rng, mut p: Vec<P2>) -> Vec<P2> {
    if !p.is_empty() { let k = r.below(p.len() as u64) as usize; p.rotate_left(k); }
    p
}
fn is_ccw(p: &[P2]) -> bool {
    let mut a = 0.0; for i in 0..p.len() { let q = p[(i + 1) % p.len()]; a += p[i].x * q.y - p[i].y * q.x; } a > 0.0
}

pub fn gen_simple(r: &mut Rng, lat: bool, big: bool) -> Vec<P2> {
    let n = if big { 40 + r.below(if lat { 24 } else { 260 }) as usize } else { 3 + r.below(14) as usize };
    let mut p = match r.below(6) {
        0 | 1 => star(r, lat, n),
        2 => monotone(r, lat, n),
        3 => comb(r, lat, (1 + n / 4).min(if big { 60 } else { 4 })),
        4 => spiral(r, lat, (1 + n / 24).min(if big { 6 } else { 2 })),
        _ => if lat { diagonal_family(r) } else { star(r, lat, n) },
    };
    if r.below(3) == 0 { p = subdivide(r, lat, &p, 3); }
    if !is_ccw(&p) { p.reverse(); }
    rotate_start(r, p)
}


// ---------------------------------------------------------------- growth: more simple families with exactly tied tests

/// exact similarity or an exact shear-free affine placement of integer-grid polygons; `lat = false`: random similarity
/// (rotation by a random angle, random scale and shift: the ties are then only approximate)
fn place(r: &mut Rng, lat: bool, base: &[(f64, f64)]) -> Vec<P2> {
    if lat { return similar(r, base); }
    let a = r.uniform(0.0, 6.283185307179586); let (c, s) = (a.cos(), a.sin());
    let k = r.logu(0.05, 20.0);
    let o = P2::new(r.uniform(-100.0, 100.0), r.uniform(-100.0, 100.0));
    base.iter().map(|p| P2::new(o.x + k * (c * p.0 - s * p.1), o.y + k * (s * p.0 + c * p.1))).collect()
}
/// orthogonal histogram polygon on the integer grid: bars of unit width; equal neighbouring heights give collinear runs,
/// unequal ones two vertices on the same vertical line; `both`: the lower chain varies as well (reflex corners on both
/// chains); `cut`: the bottom edge is cut at every integer (a collinear run of `m + 1` vertices)
fn histogram(r: &mut Rng, m: usize, both: bool, cut: bool) -> Vec<(f64, f64)> {
    let hs: Vec<i64> = (0..m).map(|_| 1 + r.below(4) as i64).collect();
    let ls: Vec<i64> = (0..m).map(|_| if both { -(r.below(3) as i64) } else { 0 }).collect();
    let mut v: Vec<(f64, f64)> = Vec::new();
    // lower chain, left to right
    for i in 0..m {
        let y = ls[i] as f64;
        if i == 0 || ls[i - 1] != ls[i] || cut { v.push((i as f64, y)); }
        if i + 1 == m || ls[i + 1] != ls[i] { v.push(((i + 1) as f64, y)); }
    }
    // upper chain, right to left
    for i in (0..m).rev() {
        let y = hs[i] as f64;
        if i + 1 == m || hs[i + 1] != hs[i] || r.below(3) == 0 { v.push(((i + 1) as f64, y)); }
        if i == 0 || hs[i - 1] != hs[i] { v.push((i as f64, y)); }
    }
    v.dedup();
    v
}
/// zigzag band: both chains are saw-teeth (every second vertex of each chain is reflex)
fn zigzag(r: &mut Rng, m: usize) -> Vec<(f64, f64)> {
    let a = (1 + r.below(3)) as f64; let b = a + (1 + r.below(3)) as f64;
    let mut v: Vec<(f64, f64)> = (0..=m).map(|i| (i as f64, if i % 2 == 0 { 0.0 } else { a })).collect();
    for i in (0..=m).rev() { v.push((i as f64, b + if i % 2 == 0 { 0.0 } else { a })); }
    v
}
/// region under a parabola / under a `|x|` roof: one long reflex chain (parabola: no three collinear; roof: two collinear
/// runs meeting in one reflex vertex)
fn reflex_chain(r: &mut Rng, m: i64) -> Vec<(f64, f64)> {
    let roof = r.bool();
    let mut v = vec![(-(m as f64), -1.0), (m as f64, -1.0)];
    for x in (-m..=m).rev() { let y = if roof { 2 * x.abs() } else { x * x }; v.push((x as f64, y as f64)); }
    v
}
/// star polygon with `k` points alternating between two radii along the 16 exact directions (many tied orientation tests:
/// opposite spikes are collinear with the centre, inner vertices lie on lines through outer ones)
fn star_poly(r: &mut Rng) -> Vec<(f64, f64)> {
    let dirs: [(f64, f64); 16] = [(2.0, 0.0), (2.0, 1.0), (2.0, 2.0), (1.0, 2.0), (0.0, 2.0), (-1.0, 2.0), (-2.0, 2.0), (-2.0, 1.0),
        (-2.0, 0.0), (-2.0, -1.0), (-2.0, -2.0), (-1.0, -2.0), (0.0, -2.0), (1.0, -2.0), (2.0, -2.0), (2.0, -1.0)];
    let step = *r.pick(&[1usize, 2, 4]);
    let (ro, ri) = ((2 + r.below(3)) as f64, (1 + r.below(2)) as f64 * 0.5);
    let mut v = Vec::new();
    let mut i = 0;
    while i < 16 { let k = if (i / step) % 2 == 0 { ro } else { ri }; v.push((dirs[i].0 * k, dirs[i].1 * k)); i += step; }
    v
}
/// rectangular spiral corridor of width 1 with `t` turns on the integer grid
fn rect_spiral(t: usize) -> Vec<(f64, f64)> {
    let l = (4 * t + 1) as i64;
    let mut a: Vec<(i64, i64)> = vec![(0, 0)];
    let mut b: Vec<(i64, i64)> = vec![(0, 1)];
    for k in 0..t as i64 {
        let (lo, hi) = (2 * k, l - 2 * k);
        a.extend_from_slice(&[(hi, lo), (hi, hi), (lo, hi), (lo, lo + 2)]);
        let last = k + 1 == t as i64;
        b.extend_from_slice(&[(hi - 1, lo + 1), (hi - 1, hi - 1), (lo + 1, hi - 1), (lo + 1, if last { lo + 2 } else { lo + 3 })]);
    }
    let mut v: Vec<(f64, f64)> = a.iter().map(|p| (p.0 as f64, p.1 as f64)).collect();
    for p in b.iter().rev() { v.push((p.0 as f64, p.1 as f64)); }
    v
}
fn simple_exact(poly: &[P2]) -> bool {
    // cheap f64 simplicity filter for generated *lattice* polygons (all predicates exact there); used only to drop the
    // rare malformed instance of a constructive family, never to judge an output
    let n = poly.len();
    if n < 3 { return false; }
    let o = |a: &P2, b: &P2, c: &P2| (b.x - a.x) * (c.y - a.y) - (b.y - a.y) * (c.x - a.x);
    let on = |a: &P2, b: &P2, c: &P2| c.x >= a.x.min(b.x) && c.x <= a.x.max(b.x) && c.y >= a.y.min(b.y) && c.y <= a.y.max(b.y);
    for i in 0..n { for j in i + 1..n {
        let (a, b, c, d) = (&poly[i], &poly[(i + 1) % n], &poly[j], &poly[(j + 1) % n]);
        if j == i + 1 || (j + 1) % n == i {
            let (p, q, s) = if j == i + 1 { (a, b, d) } else { (c, d, b) };
            if o(p, q, s) == 0.0 && (q.x - p.x) * (s.x - q.x) + (q.y - p.y) * (s.y - q.y) <= 0.0 { return false; }
            continue;
        }
        let (o1, o2, o3, o4) = (o(a, b, c), o(a, b, d), o(c, d, a), o(c, d, b));
        if ((o1 > 0.0) != (o2 > 0.0) || o1 == 0.0 || o2 == 0.0) && ((o3 > 0.0) != (o4 > 0.0) || o3 == 0.0 || o4 == 0.0) {
            if o1 != 0.0 && o2 != 0.0 && o3 != 0.0 && o4 != 0.0 { return false; }
            if (o1 == 0.0 && on(a, b, c)) || (o2 == 0.0 && on(a, b, d)) || (o3 == 0.0 && on(c, d, a)) || (o4 == 0.0 && on(c, d, b)) { return false; }
        }
    } }
    true
}
fn family2(r: &mut Rng, fam: u64, m: usize) -> Vec<(f64, f64)> {
    match fam {
        0 => { let c = r.bool(); histogram(r, m, false, c) }
        1 => { let c = r.bool(); histogram(r, m, true, c) }
        2 => zigzag(r, m.max(2)),
        3 => reflex_chain(r, (m as i64).clamp(1, 12)),
        4 => star_poly(r),
        5 => rect_spiral(1 + (m / 8).min(5)),
        _ => { let mut h = histogram(r, m, true, true); h.dedup(); h }
    }
}
/// second batch of simple counter-clockwise families (growth round)
pub fn gen_simple2(r: &mut Rng, lat: bool, big: bool) -> Vec<P2> {
    let m = if big { 12 + r.below(40) as usize } else { 2 + r.below(7) as usize };
    let fam = r.below(7);
    let base = family2(r, fam, m);
    let mut p = place(r, lat, &base);
    if r.below(4) == 0 { p = subdivide(r, lat, &p, 3); }
    if !is_ccw(&p) { p.reverse(); }
    rotate_start(r, p)
}

// ---------------------------------------------------------------- growth: non-simple families (rejection clause)

/// a non-simple polygon derived from the simple polygon `p`
fn spoil(r: &mut Rng, lat: bool, p: &[P2]) -> Vec<P2> {
    let n = p.len();
    let mut q = p.to_vec();
    match r.below(8) {
        // repeated consecutive vertex
        0 => { let i = r.below(n as u64) as usize; q.insert(i, p[i]); }
        // zero-area spike: … p[i], s, p[i] …  (s anywhere: outside, inside or on the boundary)
        1 => { let i = r.below(n as u64) as usize; let j = r.below(n as u64) as usize;
               let s = if r.bool() { P2::new((p[i].x + p[j].x) * 0.5, (p[i].y + p[j].y) * 0.5 + if lat { 0.5 } else { 0.37 }) } else { p[j] };
               q.insert(i + 1, s); q.insert(i + 2, p[i]); }
        // pinch: a non-adjacent vertex is moved onto another vertex (repeated, non-consecutive vertex)
        2 => { if n >= 5 { let i = r.below(n as u64) as usize; let j = (i + 2 + r.below(n as u64 - 3) as usize) % n; q[j] = p[i]; } else { q.swap(0, 1); } }
        // touch: a vertex is moved onto the middle of a non-adjacent edge
        3 => { if n >= 5 { let i = r.below(n as u64) as usize; let j = (i + 2 + r.below(n as u64 - 4) as usize) % n;
                           q[j] = P2::new((p[i].x + p[(i + 1) % n].x) * 0.5, (p[i].y + p[(i + 1) % n].y) * 0.5); } else { q.swap(0, 2 % n); } }
        // fold-back: the boundary backtracks along an edge
        4 => { let i = r.below(n as u64) as usize; let a = p[i]; let b = p[(i + 1) % n];
               let m1 = P2::new(a.x + (b.x - a.x) * 0.75, a.y + (b.y - a.y) * 0.75); let m2 = P2::new(a.x + (b.x - a.x) * 0.25, a.y + (b.y - a.y) * 0.25);
               q.insert(i + 1, m1); q.insert(i + 2, m2); }
        // bow-tie: two (usually non-adjacent) vertices exchanged
        5 => { if n >= 4 { let i = r.below(n as u64) as usize; let j = (i + 1 + r.below(n as u64 - 1) as usize) % n; q.swap(i, j); } else { q.reverse(); } }
        // the polygon traversed twice (winding number 2 everywhere inside)
        6 => { q.extend_from_slice(p); }
        // one vertex thrown far across the polygon
        _ => { let i = r.below(n as u64) as usize; let j = (i + n / 2) % n; let d = if lat { 1.0 } else { 0.61 };
               q[i] = P2::new(2.0 * p[j].x - p[i].x + d, 2.0 * p[j].y - p[i].y); }
    }
    if r.below(4) == 0 { q.reverse(); }
    q
}
/// closed curve winding twice around its centre (self-intersecting, regions of winding number 2)
fn double_wind(r: &mut Rng, lat: bool) -> Vec<P2> {
    let n = 5 + 2 * r.below(6) as usize;   // odd
    if lat {
        // {n/2} star polygons on exact directions: vertices of a convex lattice polygon visited with step 2
        let c = crate::registry::c15::gen_convex(r, true);
        let m = c.len(); if m < 5 || m % 2 == 0 { return vec![P2::new(0.0, 4.0), P2::new(-2.0, -4.0), P2::new(4.0, 1.0), P2::new(-4.0, 1.0), P2::new(2.0, -4.0)]; }
        (0..m).map(|i| c[(2 * i) % m]).collect()
    } else {
        let c = P2::new(r.uniform(-50.0, 50.0), r.uniform(-50.0, 50.0)); let s = r.logu(0.1, 50.0);
        (0..n).map(|i| { let t = i as f64 * 2.0 * 6.283185307179586 / n as f64; let k = s * (1.0 + 0.3 * r.unit()); P2::new(c.x + k * t.cos(), c.y + k * t.sin()) }).collect()
    }
}

pub fn gen(r: &mut Rng, thorough: bool) -> Vec<(String, String)> {
    let n = if thorough { 12000 } else { 1500 };
    let mut v = Vec::new();
    for it in 0..n {
        let lat = it % 2 == 0;
        let big = it % 40 == 7;
        let p = gen_simple(r, lat, big);
        let kind = r.below(10);
        let q: Vec<P2> = match kind {
            0 => { let mut q = p.clone(); q.reverse(); q }                                  // clockwise
            1 => { let mut q = p.clone(); if q.len() >= 4 { let i = r.below(q.len() as u64) as usize; let j = (i + 1 + r.below(q.len() as u64 - 1) as usize) % q.len(); q.swap(i, j); } q } // likely self-intersecting
            2 => match r.below(6) {                                                           // fixed small suspects
                0 => vec![P2::new(0.0, 0.0), P2::new(1.0, 1.0), P2::new(1.0, 0.0)],                      // clockwise triangle
                1 => vec![P2::new(0.0, 2.0), P2::new(1.0, 0.0), P2::new(0.0, 1.0), P2::new(-1.0, 0.0)],  // clockwise dart
                2 => (0..r.below(3)).map(|_| lat_pt(r)).collect(),                                        // n < 3
                3 => vec![P2::new(0.0, 0.0), P2::new(2.0, 2.0), P2::new(2.0, 0.0), P2::new(0.0, 2.0)],   // bow-tie
                4 => { let c = [(0.0, 4.0), (-4.0, 1.0), (-2.0, -4.0), (2.0, -4.0), (4.0, 1.0)];         // pentagram
                       [0usize, 2, 4, 1, 3].iter().map(|&i| P2::new(c[i].0, c[i].1)).collect() }
                _ => { let t = [lat_pt(r), lat_pt(r), lat_pt(r)]; t.to_vec() }                            // random triangle (either orientation, maybe degenerate)
            },
            _ => p.clone(),
        };
        v.push(("triangulate".into(), hpoly(&q)));
        // Hertel–Mehlhorn on the implementation's own triangulation (and variants of it)
        if let Some(m) = std::panic::catch_unwind(|| TriMesh::from_polygon(q.clone())).ok().flatten() {
            let mut t: Vec<[u32; 3]> = m.indices().to_vec();
            v.push(("hertel_mehlhorn".into(), format!("{} {}", hpoly(&q), htris(&t))));
            // same tiling, triangles shuffled and each triangle's start rotated
            for i in (1..t.len()).rev() { let j = r.below(i as u64 + 1) as usize; t.swap(i, j); }
            for x in t.iter_mut() { let k = r.below(3) as usize; x.rotate_left(k); }
            v.push(("hertel_mehlhorn".into(), format!("{} {}", hpoly(&q), htris(&t))));
            // the public wrappers: point-valued Hertel–Mehlhorn and the Compound glue, on the shuffled tiling too
            if it % 2 == 0 || it % 40 == 7 {
                v.push(("decompose".into(), hpoly(&q)));
                v.push(("hertel_mehlhorn_pts".into(), format!("{} {}", hpoly(&q), htris(&t))));
                v.push(("decompose_tris".into(), format!("{} {}", hpoly(&q), htris(&t))));
            }
        } else if it % 4 == 0 { v.push(("decompose".into(), hpoly(&q))); }
        // fan triangulation of a convex polygon: everything merges back into one piece
        if it % 5 == 0 {
            let c = crate::registry::c15::gen_convex(r, lat);
            if c.len() >= 3 && is_ccw(&c) {
                let t: Vec<[u32; 3]> = (1..c.len() as u32 - 1).map(|i| [0, i, i + 1]).collect();
                v.push(("hertel_mehlhorn".into(), format!("{} {}", hpoly(&c), htris(&t))));
                v.push(("decompose_tris".into(), format!("{} {}", hpoly(&c), htris(&t))));
            }
        }
    }
    gen_growth(r, thorough, &mut v);
    gen_growth4(r, thorough, &mut v);
    gen_growth5(r, thorough, &mut v);
    v
}

/// growth round: the new simple families (also through the `Compound` glue), their clockwise mirror images, and the
/// non-simple families
fn gen_growth(r: &mut Rng, thorough: bool, v: &mut Vec<(String, String)>) {
    let n = if thorough { 9000 } else { 900 };
    for it in 0..n {
        let lat = it % 2 == 0;
        let big = it % 30 == 11;
        let p = if it % 3 == 2 { gen_simple(r, lat, big) } else { gen_simple2(r, lat, big) };
        if lat && !simple_exact(&p) { continue; }
        let q: Vec<P2> = match r.below(10) {
            0 => { let mut q = p.clone(); q.reverse(); q }
            1 | 2 | 3 => spoil(r, lat, &p),
            4 => if r.bool() { double_wind(r, lat) } else { spoil(r, lat, &p) },
            _ => p.clone(),
        };
        v.push(("triangulate".into(), hpoly(&q)));
        if it % 3 == 0 { v.push(("decompose".into(), hpoly(&q))); }
        if it % 4 == 1 {
            if let Some(m) = std::panic::catch_unwind(|| TriMesh::from_polygon(q.clone())).ok().flatten() {
                let mut t: Vec<[u32; 3]> = m.indices().to_vec();
                for i in (1..t.len()).rev() { let j = r.below(i as u64 + 1) as usize; t.swap(i, j); }
                for x in t.iter_mut() { let k = r.below(3) as usize; x.rotate_left(k); }
                v.push(("hertel_mehlhorn".into(), format!("{} {}", hpoly(&q), htris(&t))));
                if it % 8 == 1 { v.push(("decompose_tris".into(), format!("{} {}", hpoly(&q), htris(&t)))); }
            }
        }
    }
}

// ---------------------------------------------------------------- fu4: keyholes, near-collinear runs, convex + collinear, large n
// (appended after the earlier families so that their random stream is unchanged)

/// keyhole polygon on the integer grid: a rectangle with `k` rectangular "holes", each connected to the bottom edge by a
/// slit of width 1 (strictly simple: the slit has positive width; when the slit starts at the hole's left wall the two
/// walls are collinear)
fn keyhole(r: &mut Rng, k: usize) -> Vec<(f64, f64)> {
    let b = (1 + r.below(2)) as f64;
    let mut x = 0.0f64; let mut hmax = 0.0f64;
    let mut v: Vec<(f64, f64)> = vec![(0.0, 0.0)];
    for _ in 0..k {
        x += (1 + r.below(2)) as f64;
        let w = (1 + r.below(3)) as f64; let h = (1 + r.below(3)) as f64;
        let sx = x + r.below(w as u64) as f64;
        v.extend_from_slice(&[(sx, 0.0), (sx, b), (x, b), (x, b + h), (x + w, b + h), (x + w, b), (sx + 1.0, b), (sx + 1.0, 0.0)]);
        x += w; if h > hmax { hmax = h; }
    }
    x += (1 + r.below(2)) as f64;
    let top = b + hmax + (1 + r.below(2)) as f64;
    v.extend_from_slice(&[(x, 0.0), (x, top), (0.0, top)]);
    v.dedup();
    v
}
/// near-collinear runs: 1–3 vertices inserted on some edges and pushed off the edge by `± 2^-22 · |edge|` along the normal
/// (nearly straight convex and reflex corners; on lattice input all cross products stay exactly representable)
fn near_collinear(r: &mut Rng, p: &[P2], prob: u64) -> Vec<P2> {
    let mut v = Vec::new();
    let eps = 1.0 / 4194304.0;
    for i in 0..p.len() {
        let a = p[i]; let b = p[(i + 1) % p.len()];
        v.push(a);
        if r.below(prob) == 0 {
            let k = *r.pick(&[1usize, 3]);
            for j in 1..=k {
                let t = j as f64 / (k + 1) as f64; let s = if r.bool() { eps } else { -eps };
                v.push(P2::new(a.x + (b.x - a.x) * t - (b.y - a.y) * s, a.y + (b.y - a.y) * t + (b.x - a.x) * s));
            }
        }
    }
    v
}
fn push_all(v: &mut Vec<(String, String)>, q: &[P2], r: &mut Rng, glue: bool) {
    v.push(("triangulate".into(), hpoly(q)));
    if glue { v.push(("from_polygon_mesh".into(), hpoly(q))); v.push(("decompose".into(), hpoly(q))); }
    if let Some(m) = std::panic::catch_unwind(|| TriMesh::from_polygon(q.to_vec())).ok().flatten() {
        let mut t: Vec<[u32; 3]> = m.indices().to_vec();
        for i in (1..t.len()).rev() { let j = r.below(i as u64 + 1) as usize; t.swap(i, j); }
        for x in t.iter_mut() { let k = r.below(3) as usize; x.rotate_left(k); }
        v.push(("hertel_mehlhorn".into(), format!("{} {}", hpoly(q), htris(&t))));
        if glue { v.push(("hertel_mehlhorn_pts".into(), format!("{} {}", hpoly(q), htris(&t)))); }
    }
}
/// returns the family / size distribution as text
fn gen_growth4(r: &mut Rng, thorough: bool, v: &mut Vec<(String, String)>) -> String {
    let n = if thorough { 2400 } else { 240 };
    let names = ["keyhole", "near-collinear", "convex+collinear", "keyhole-mirror/spoiled", "large"];
    let mut cnt = [0usize; 5]; let mut nmin = [usize::MAX; 5]; let mut nmax = [0usize; 5]; let mut dropped = 0;
    let note = |f: usize, n: usize, cnt: &mut [usize; 5], nmin: &mut [usize; 5], nmax: &mut [usize; 5]| {
        cnt[f] += 1; if n < nmin[f] { nmin[f] = n; } if n > nmax[f] { nmax[f] = n; } };
    for it in 0..n {
        let lat = it % 2 == 0;
        let fam = it % 4;
        let q: Vec<P2> = match fam {
            0 | 3 => { let k = if it % 20 == 0 { 4 + r.below(5) as usize } else { 1 + r.below(3) as usize };
                   let base = keyhole(r, k); let mut p = place(r, lat, &base);
                   if r.below(4) == 0 { p = subdivide(r, lat, &p, 3); }
                   if !is_ccw(&p) { p.reverse(); }
                   let p = rotate_start(r, p);
                   if fam == 3 { if r.bool() { let mut q = p.clone(); q.reverse(); q } else { spoil(r, lat, &p) } } else { p } }
            1 => { let m = 2 + r.below(7) as usize; let f2 = r.below(7); let kk = 1 + r.below(2) as usize; let base = if r.below(3) == 0 { keyhole(r, kk) } else { family2(r, f2, m) };
                   let p0 = place(r, true, &base); let mut p = near_collinear(r, &p0, 2);
                   if !is_ccw(&p) { p.reverse(); }
                   if !simple_exact(&p) { dropped += 1; continue; }
                   rotate_start(r, p) }
            _ => { let c = crate::registry::c15::gen_convex(r, lat);
                   if c.len() < 3 { dropped += 1; continue; }
                   let mut p = subdivide(r, lat, &c, 2);
                   if !is_ccw(&p) { p.reverse(); }
                   rotate_start(r, p) }
        };
        if lat && fam != 3 && fam != 2 && !simple_exact(&q) { dropped += 1; continue; }
        note(fam as usize, q.len(), &mut cnt, &mut nmin, &mut nmax);
        push_all(v, &q, r, it % 3 == 0);
    }
    // large polygons (thorough tier only): 500–900 vertices
    if thorough {
        for it in 0..10 {
            let base: Option<Vec<(f64, f64)>> = match it % 5 {
                0 => None,
                1 => { let m = 250 + r.below(150) as usize; Some(zigzag(r, m)) }
                2 => { let c = r.bool(); let m = 260 + r.below(100) as usize; Some(histogram(r, m, true, c)) }
                3 => { let t = 62 + r.below(20) as usize; Some(rect_spiral(t)) },
                _ => { let k = 60 + r.below(30) as usize; Some(keyhole(r, k)) }
            };
            let nn = 500 + r.below(400) as usize; let mut p = match base { None => star(r, false, nn), Some(b) => place(r, it < 5, &b) };
            if !is_ccw(&p) { p.reverse(); }
            let p = rotate_start(r, p);
            note(4, p.len(), &mut cnt, &mut nmin, &mut nmax);
            push_all(v, &p, r, false);
        }
    }
    let mut s = String::new();
    for f in 0..5 { if cnt[f] > 0 { s.push_str(&format!("{}: {} polygons, n {}..{}; ", names[f], cnt[f], nmin[f], nmax[f])); } }
    s.push_str(&format!("dropped {}", dropped));
    s
}

// ---------------------------------------------------------------- fu5: tiny-but-representable edges, needle pieces, extreme aspect ratios
// (appended after the earlier families so that their random stream is unchanged)

/// corners cut by a tiny chamfer: the vertex `v` is replaced by `v - d (v - prev)`, `v + d (next - v)` with `d = 2^-k`,
/// `k` in 24..=42 (new edge 1e-7 … 1e-13 of the neighbouring edges; exactly representable on lattice input); convex and
/// reflex corners alike (the cut stays inside a 2^-24 neighbourhood of `v`, so the polygon stays simple)
fn chamfer(r: &mut Rng, lat: bool, p: &[P2], prob: u64) -> Vec<P2> {
    let n = p.len(); let forced = r.below(n as u64) as usize;
    let mut v = Vec::new();
    for i in 0..n {
        let (a, b, c) = (p[(i + n - 1) % n], p[i], p[(i + 1) % n]);
        if i == forced || r.below(prob) == 0 {
            // random placements: the cut must stay well above the rounding unit of the coordinates
            let d = (0.5f64).powi(24 + r.below(if lat { 19 } else { 9 }) as i32);
            // a doubled vertex split: sometimes only one of the two cut points moves (edge along one side only)
            match r.below(4) {
                0 => { v.push(b); v.push(P2::new(b.x + (c.x - b.x) * d, b.y + (c.y - b.y) * d)); }
                _ => { v.push(P2::new(b.x - (b.x - a.x) * d, b.y - (b.y - a.y) * d)); v.push(P2::new(b.x + (c.x - b.x) * d, b.y + (c.y - b.y) * d)); }
            }
        } else { v.push(b); }
    }
    v
}
/// polygons whose convex partition contains a needle piece with >= 4 vertices, half-length `l`, half-width `w`
/// (templates on exact coordinates; `t` selects the template)
fn needle(t: u64, l: f64, w: f64, f: f64) -> Vec<(f64, f64)> {
    match t {
        // the polygon is the needle: kite / rhombus
        0 => vec![(0.0, 0.0), (l, -w), (2.0 * l, 0.0), (l, w)],
        // kite with a fin glued below its edge p1 p2 (reflex corner at p1 keeps the needle a piece of its own)
        1 => vec![(0.0, 0.0), (l, -w), (2.0 * l, -f), (2.0 * l, 0.0), (l, w)],
        // hexagonal needle (four flat side corners)
        2 => vec![(0.0, 0.0), (l, -w), (2.0 * l, -w), (3.0 * l, 0.0), (2.0 * l, w), (l, w)],
        // needle between two blocks: fins below p1 p2 and above p3 p0
        3 => vec![(0.0, 0.0), (l, -w), (2.0 * l, -f), (2.0 * l, 0.0), (l, w), (0.0, f)],
        // asymmetric kite (one side corner three times flatter than the other) with a fin
        4 => vec![(0.0, 0.0), (l, -w), (2.0 * l, -f), (2.0 * l, 0.0), (0.5 * l, 0.25 * w)],
        // two needles sharing a tip, separated by a notch
        5 => vec![(0.0, 0.0), (l, -w), (2.0 * l, 0.0), (l, w), (0.0, 2.0 * f), (-l, w), (-2.0 * l, 0.0), (-l, -w)],
        // needle pentagon standing on a block (block corners are right angles)
        _ => vec![(0.0, 0.0), (2.0 * l, 0.0), (2.0 * l, f), (l, f + w), (0.0, f + 2.0 * w), (-l, f + w), (-2.0 * l, f), (-2.0 * l, 0.0)],
    }
}
/// exact squash: the y coordinates scaled by `2^-k` (all orientation predicates of a lattice polygon keep their sign exactly)
fn squash(base: &[(f64, f64)], k: i32) -> Vec<(f64, f64)> { let s = (0.5f64).powi(k); base.iter().map(|p| (p.0, p.1 * s)).collect() }

fn push_all5(v: &mut Vec<(String, String)>, q: &[P2], r: &mut Rng) {
    v.push(("triangulate".into(), hpoly(q)));
    v.push(("from_polygon_mesh".into(), hpoly(q)));
    v.push(("decompose".into(), hpoly(q)));
    if let Some(m) = std::panic::catch_unwind(|| TriMesh::from_polygon(q.to_vec())).ok().flatten() {
        let mut t: Vec<[u32; 3]> = m.indices().to_vec();
        v.push(("hertel_mehlhorn_pts".into(), format!("{} {}", hpoly(q), htris(&t))));
        for i in (1..t.len()).rev() { let j = r.below(i as u64 + 1) as usize; t.swap(i, j); }
        for x in t.iter_mut() { let k = r.below(3) as usize; x.rotate_left(k); }
        v.push(("hertel_mehlhorn".into(), format!("{} {}", hpoly(q), htris(&t))));
        v.push(("decompose_tris".into(), format!("{} {}", hpoly(q), htris(&t))));
    }
}
/// returns the family / size distribution as text
fn gen_growth5(r: &mut Rng, thorough: bool, v: &mut Vec<(String, String)>) -> String {
    let n = if thorough { 1800 } else { 180 };
    let names = ["chamfer", "needle", "squashed"];
    let mut cnt = [0usize; 3]; let mut nmin = [usize::MAX; 3]; let mut nmax = [0usize; 3]; let mut dropped = 0;
    let mut ratio = [0usize; 4]; // needle aspect 1:1e3.., 1:1e4.., 1:1e5.., 1:1e6
    for it in 0..n {
        let lat = it % 2 == 0;
        let fam = it % 3;
        let q: Vec<P2> = match fam {
            0 => { let p = match r.below(4) {
                       0 => { let c = crate::registry::c15::gen_convex(r, lat); if c.len() < 3 { dropped += 1; continue; } c }
                       1 => { let kk = 1 + r.below(2) as usize; let b = keyhole(r, kk); place(r, lat, &b) }
                       2 => gen_simple(r, lat, false),
                       _ => gen_simple2(r, lat, false) };
                   let mut p = p; if !is_ccw(&p) { p.reverse(); }
                   if lat && !simple_exact(&p) { dropped += 1; continue; }
                   let p = chamfer(r, lat, &p, 4);
                   rotate_start(r, p) }
            1 => { let t = r.below(7);
                   // aspect ratio w/l = 2^-e, e in 9..=20  (1:512 … 1:1e6); l, f powers of two
                   // (polygon extents stay within D: lattice placements scale by <= 2, random ones by <= 20)
                   let e = 9 + r.below(12) as i32; let l = *r.pick(&[2.0, 4.0, 8.0, 16.0]) * if lat { 1.0 } else { 0.125 }; let w = l * (0.5f64).powi(e);
                   let f = *r.pick(&[0.5, 1.0, 2.0]);
                   ratio[((e as f64 * 0.30103 - 3.0).max(0.0) as usize).min(3)] += 1;
                   let base = needle(t, l, w, f);
                   let mut p = place(r, lat, &base);
                   if r.below(4) == 0 { p = subdivide(r, lat, &p, 4); }
                   if !is_ccw(&p) { p.reverse(); }
                   rotate_start(r, p) }
            _ => { let m = 2 + r.below(6) as usize; let f2 = r.below(7);
                   let base = match r.below(3) { 0 => { let kk = 1 + r.below(2) as usize; keyhole(r, kk) }
                       1 => { let c = crate::registry::c15::gen_convex(r, true); if c.len() < 3 { dropped += 1; continue; } c.iter().map(|p| (p.x, p.y)).collect() }
                       _ => family2(r, f2, m) };
                   // exact placements keep every predicate's sign; a random rotation only for a moderate squash
                   let k = if lat { 8 + r.below(13) as i32 } else { 6 + r.below(5) as i32 };
                   let sq = squash(&base, k);
                   let mut p = place(r, lat, &sq);
                   if !is_ccw(&p) { p.reverse(); }
                   rotate_start(r, p) }
        };
        let f = fam as usize; cnt[f] += 1; if q.len() < nmin[f] { nmin[f] = q.len(); } if q.len() > nmax[f] { nmax[f] = q.len(); }
        push_all5(v, &q, r);
    }
    let mut s = String::new();
    for f in 0..3 { if cnt[f] > 0 { s.push_str(&format!("{}: {} polygons, n {}..{}; ", names[f], cnt[f], nmin[f], nmax[f])); } }
    s.push_str(&format!("needle aspect 1e-3/1e-4/1e-5/1e-6: {:?}; dropped {}", ratio, dropped));
    s
}
