//! C16: ear clipping (`TriMesh::from_polygon`) and Hertel–Mehlhorn (`hertel_mehlhorn_idx`).
use crate::util::*;
use crate::p2::shape::TriMesh;
use crate::p2::transformation::{hertel_mehlhorn, hertel_mehlhorn_idx};
use crate::p2::shape::Compound;

type P2 = d2::Point<f64>;

fn poly(a: &mut Args) -> Vec<P2> { let n = a.u(); (0..n).map(|_| d2::p(a)).collect() }
fn hpoly(p: &[P2]) -> String {
    let mut s = format!("{}", p.len());
    for q in p { s.push(' '); s.push_str(&d2::hp(q)); }
    s
}
fn htris(t: &[[u32; 3]]) -> String {
    let mut s = format!("{}", t.len());
    for x in t { s.push_str(&format!(" {} {} {}", x[0], x[1], x[2])); }
    s
}

pub fn exec(func: &str, a: &mut Args) -> String {
    match func {
        "triangulate" => { let p = poly(a);
            match TriMesh::from_polygon(p) { None => "none".into(), Some(m) => format!("some {}", htris(m.indices())) } }
        "hertel_mehlhorn" => { let p = poly(a); let k = a.u();
            let t: Vec<[u32; 3]> = (0..k).map(|_| [a.u() as u32, a.u() as u32, a.u() as u32]).collect();
            let r = hertel_mehlhorn_idx(&p, &t);
            let mut s = format!("{}", r.len());
            for q in r.iter() { s.push_str(&format!(" {}", q.len())); for i in q.iter() { s.push_str(&format!(" {}", i)); } }
            s }
        // the point-valued wrapper `hertel_mehlhorn` (public API): pieces as point lists
        "hertel_mehlhorn_pts" => { let p = poly(a); let k = a.u();
            let t: Vec<[u32; 3]> = (0..k).map(|_| [a.u() as u32, a.u() as u32, a.u() as u32]).collect();
            let r = hertel_mehlhorn(&p, &t);
            let mut s = format!("{}", r.len());
            for q in r.iter() { s.push(' '); s.push_str(&fpoly(q)); }
            s }
        // `Compound::decompose_trimesh(&TriMesh::from_polygon(p)?)` through the public API
        "decompose" => { let p = poly(a);
            match TriMesh::from_polygon(p) { None => "none".into(), Some(m) => fcompound(Compound::decompose_trimesh(&m)) } }
        // `Compound::decompose_trimesh(&TriMesh::new(p, t))`: any triangle list
        "decompose_tris" => { let p = poly(a); let k = a.u();
            let t: Vec<[u32; 3]> = (0..k).map(|_| [a.u() as u32, a.u() as u32, a.u() as u32]).collect();
            match TriMesh::new(p, t) { Err(_) => "none".into(), Ok(m) => fcompound(Compound::decompose_trimesh(&m)) } }
        _ => "nofn".into(),
    }
}

fn fpoly(p: &[P2]) -> String {
    let mut s = format!("{}", p.len());
    for q in p { s.push(' '); s.push_str(&d2::fp(q)); }
    s
}
/// `cnone` | `shapes m (T a b c | P k points… normals…)*`
fn fcompound(c: Option<Compound>) -> String {
    match c {
        None => "cnone".into(),
        Some(c) => {
            let mut s = format!("shapes {}", c.shapes().len());
            for (m, sh) in c.shapes() {
                if *m != d2::Isometry::identity() { s.push_str(" nonidentity"); }
                if let Some(t) = sh.as_triangle() { s.push_str(&format!(" T {} {} {}", d2::fp(&t.a), d2::fp(&t.b), d2::fp(&t.c))); }
                else if let Some(cp) = sh.as_convex_polygon() {
                    s.push_str(&format!(" P {}", fpoly(cp.points())));
                    for n in cp.normals() { s.push(' '); s.push_str(&d2::fv(&n.into_inner())); }
                } else { s.push_str(" othershape"); }
            }
            s
        }
    }
}

// ---------------------------------------------------------------- polygon families (all counter-clockwise, simple)

fn lat_pt(r: &mut Rng) -> P2 { P2::new(r.lattice(16, 2), r.lattice(16, 2)) }

/// star-shaped polygon around `c`: exact direction fan (lattice) or sorted random angles
fn star(r: &mut Rng, lat: bool, n: usize) -> Vec<P2> {
    if lat {
        // directions (dx,dy) of a fan sorted by angle: slopes k/8 in each octant → up to 64 exact directions
        let mut dirs: Vec<(f64, f64)> = Vec::new();
        for o in 0..8 {
            for k in 0..8 {
                let t = k as f64 / 8.0;
                let (x, y) = match o { 0 => (1.0, t), 1 => (1.0 - t, 1.0), 2 => (-t, 1.0), 3 => (-1.0, 1.0 - t),
                                       4 => (-1.0, -t), 5 => (-1.0 + t, -1.0), 6 => (t, -1.0), _ => (1.0, -1.0 + t) };
                dirs.push((x, y));
            }
        }
        let c = lat_pt(r);
        let mut keep: Vec<usize> = (0..dirs.len()).collect();
        while keep.len() > n.max(3) { let i = r.below(keep.len() as u64) as usize; keep.remove(i); }
        // consecutive kept directions must span < 180°: the full set has 45°/8 steps, so dropping many can break that;
        // guard by keeping at least one direction per quadrant boundary when n is small
        keep.iter().map(|&i| { let k = (1 + r.below(8)) as f64 * 0.5; P2::new(c.x + dirs[i].0 * k, c.y + dirs[i].1 * k) }).collect()
    } else {
        let mut ang: Vec<f64> = (0..n).map(|_| r.uniform(0.0, 6.283185307179586)).collect();
        ang.sort_by(|a, b| a.partial_cmp(b).unwrap());
        let c = P2::new(r.uniform(-100.0, 100.0), r.uniform(-100.0, 100.0));
        let s = r.logu(1e-1, 1e2);
        ang.iter().map(|t| { let k = s * r.uniform(0.3, 1.0); P2::new(c.x + k * t.cos(), c.y + k * t.sin()) }).collect()
    }
}
/// x-monotone polygon: lower chain left→right, upper chain right→left
fn monotone(r: &mut Rng, lat: bool, n: usize) -> Vec<P2> {
    let m = n.max(4);
    let nl = 2 + r.below((m - 3) as u64) as usize; let nu = m - nl;
    let step = if lat { 0.5 } else { r.logu(0.1, 10.0) };
    let x0 = if lat { r.lattice(8, 1) } else { r.uniform(-50.0, 50.0) };
    let mut v = Vec::new();
    // both chains share the extreme x positions (all abscissae are integer multiples of `step`: exact in lattice mode);
    // lower y in [-3,0), upper y in (0,3]
    for i in 0..nl {
        let x = x0 + step * (i * (nu + 1)) as f64;
        let y = if i == 0 || i + 1 == nl { 0.0 } else if lat { -((1 + r.below(6)) as f64) * 0.5 } else { -r.uniform(0.1, 3.0) * step };
        v.push(P2::new(x, y));
    }
    for j in 0..nu {
        let x = x0 + step * ((nu - j) * (nl - 1)) as f64;
        let y = if lat { ((1 + r.below(6)) as f64) * 0.5 } else { r.uniform(0.1, 3.0) * step };
        v.push(P2::new(x, y));
    }
    v
}
/// comb with `teeth` teeth (axis-parallel, many collinear / same-level vertices)
fn comb(r: &mut Rng, lat: bool, teeth: usize) -> Vec<P2> {
    let s = if lat { 0.5 } else { r.logu(0.1, 10.0) };
    let o = if lat { lat_pt(r) } else { P2::new(r.uniform(-50.0, 50.0), r.uniform(-50.0, 50.0)) };
    let mut v = vec![P2::new(o.x, o.y)];
    for t in 0..teeth {
        let x0 = o.x + (2 * t) as f64 * s; let x1 = x0 + s; let x2 = x0 + 2.0 * s;
        let h = (2 + r.below(3)) as f64 * s;
        v.push(P2::new(x0, o.y + h)); v.push(P2::new(x1, o.y + h));
        if t + 1 < teeth { v.push(P2::new(x1, o.y + s)); v.push(P2::new(x2, o.y + s)); }
    }
    v.push(P2::new(o.x + (2 * teeth - 1) as f64 * s, o.y));
    v.reverse();
    v
}
/// spiral corridor: lattice = fixed rectangular spirals (1 or 2 turns); random = polar spiral with `turns` turns
fn spiral(r: &mut Rng, lat: bool, turns: usize) -> Vec<P2> {
    if lat {
        let base: Vec<(f64, f64)> = if r.bool() {
            vec![(0.0, 0.0), (5.0, 0.0), (5.0, 5.0), (0.0, 5.0), (0.0, 2.0), (1.0, 2.0), (1.0, 4.0), (4.0, 4.0), (4.0, 1.0), (0.0, 1.0)]
        } else {
            vec![(0.0, 0.0), (9.0, 0.0), (9.0, 9.0), (0.0, 9.0), (0.0, 2.0), (7.0, 2.0), (7.0, 7.0), (2.0, 7.0), (2.0, 4.0), (3.0, 4.0),
                 (3.0, 6.0), (6.0, 6.0), (6.0, 3.0), (1.0, 3.0), (1.0, 8.0), (8.0, 8.0), (8.0, 1.0), (0.0, 1.0)]
        };
        return similar(r, &base);
    }
    let b = r.logu(0.05, 2.0); let w = 3.0 * b; let r0 = 4.0 * b;
    let m = 24 * turns;
    let c = P2::new(r.uniform(-50.0, 50.0), r.uniform(-50.0, 50.0));
    let mut v = Vec::new();
    for i in 0..=m { let t = i as f64 * 6.283185307179586 / 24.0; let k = r0 + b * t; v.push(P2::new(c.x + k * t.cos(), c.y + k * t.sin())); }
    for i in (0..=m).rev() { let t = i as f64 * 6.283185307179586 / 24.0; let k = r0 + b * t - w; v.push(P2::new(c.x + k * t.cos(), c.y + k * t.sin())); }
    v
}
/// exact similarity: rotation by a multiple of 90°, scale 2^k, lattice shift (orientation preserved)
fn similar(r: &mut Rng, base: &[(f64, f64)]) -> Vec<P2> {
    let (c, s) = *r.pick(&[(1.0, 0.0), (0.0, 1.0), (-1.0, 0.0), (0.0, -1.0)]);
    let k = *r.pick(&[0.25, 0.5, 1.0, 2.0]);
    let o = lat_pt(r);
    base.iter().map(|p| P2::new(o.x + k * (c * p.0 - s * p.1), o.y + k * (s * p.0 + c * p.1))).collect()
}
/// insert collinear vertices on edges
fn subdivide(r: &mut Rng, lat: bool, p: &[P2], prob: u64) -> Vec<P2> {
    let mut v = Vec::new();
    for i in 0..p.len() {
        let a = p[i]; let b = p[(i + 1) % p.len()];
        v.push(a);
        if r.below(prob) == 0 {
            let k = if lat { *r.pick(&[1usize, 3]) } else { 1 + r.below(2) as usize }; // lattice: halves / quarters stay exact
            for j in 1..=k { let t = j as f64 / (k + 1) as f64; v.push(P2::new(a.x + (b.x - a.x) * t, a.y + (b.y - a.y) * t)); }
        }
    }
    v
}
/// families with a vertex exactly on an ear diagonal / on another edge's line
fn diagonal_family(r: &mut Rng) -> Vec<P2> {
    let base: Vec<(f64, f64)> = match r.below(5) {
        0 => vec![(0.0, 0.0), (4.0, 0.0), (4.0, 4.0), (2.0, 2.0), (0.0, 4.0)],
        1 => vec![(0.0, 0.0), (2.0, 0.0), (4.0, 0.0), (4.0, 2.0), (2.0, 2.0), (2.0, 4.0), (0.0, 4.0)],
        2 => vec![(0.0, 0.0), (6.0, 0.0), (6.0, 6.0), (4.0, 4.0), (3.0, 5.0), (2.0, 4.0), (0.0, 6.0)],
        3 => vec![(0.0, 0.0), (4.0, 0.0), (4.0, 1.0), (1.0, 1.0), (1.0, 3.0), (4.0, 3.0), (4.0, 4.0), (0.0, 4.0)],
        _ => vec![(0.0, 0.0), (1.0, 0.0), (2.0, 0.0), (3.0, 0.0), (3.0, 1.0), (2.0, 1.0), (1.0, 1.0), (0.0, 1.0)],
    };
    similar(r, &base)
}
fn rotate_start(r: &mut Rng, mut p: Vec<P2>) -> Vec<P2> {
    if !p.is_empty() { let k = r.below(p.len() as u64) as usize; p.rotate_left(k); }
    p
}
fn is_ccw(p: &[P2]) -> bool {
    let mut a = 0.0; for i in 0..p.len() { let q = p[(i + 1) % p.len()]; a += p[i].x * q.y - p[i].y * q.x; } a > 0.0
}

pub fn gen_simple(r: &mut Rng, lat: bool, big: bool) -> Vec<P2> {
    let n = if big { 40 + r.below(if lat { 24 } else { 260 }) as usize } else { 3 + r.below(14) as usize };
    let mut p = match r.below(6) {
        0 | 1 => star(r, lat, n),
        2 => monotone(r, lat, n),
        3 => comb(r, lat, (1 + n / 4).min(if big { 60 } else { 4 })),
        4 => spiral(r, lat, (1 + n / 24).min(if big { 6 } else { 2 })),
        _ => if lat { diagonal_family(r) } else { star(r, lat, n) },
    };
    if r.below(3) == 0 { p = subdivide(r, lat, &p, 3); }
    if !is_ccw(&p) { p.reverse(); }
    rotate_start(r, p)
}

pub fn gen(r: &mut Rng, thorough: bool) -> Vec<(String, String)> {
    let n = if thorough { 12000 } else { 1500 };
    let mut v = Vec::new();
    for it in 0..n {
        let lat = it % 2 == 0;
        let big = it % 40 == 7;
        let p = gen_simple(r, lat, big);
        let kind = r.below(10);
        let q: Vec<P2> = match kind {
            0 => { let mut q = p.clone(); q.reverse(); q }                                  // clockwise
            1 => { let mut q = p.clone(); if q.len() >= 4 { let i = r.below(q.len() as u64) as usize; let j = (i + 1 + r.below(q.len() as u64 - 1) as usize) % q.len(); q.swap(i, j); } q } // likely self-intersecting
            2 => match r.below(6) {                                                           // fixed small suspects
                0 => vec![P2::new(0.0, 0.0), P2::new(1.0, 1.0), P2::new(1.0, 0.0)],                      // clockwise triangle
                1 => vec![P2::new(0.0, 2.0), P2::new(1.0, 0.0), P2::new(0.0, 1.0), P2::new(-1.0, 0.0)],  // clockwise dart
                2 => (0..r.below(3)).map(|_| lat_pt(r)).collect(),                                        // n < 3
                3 => vec![P2::new(0.0, 0.0), P2::new(2.0, 2.0), P2::new(2.0, 0.0), P2::new(0.0, 2.0)],   // bow-tie
                4 => { let c = [(0.0, 4.0), (-4.0, 1.0), (-2.0, -4.0), (2.0, -4.0), (4.0, 1.0)];         // pentagram
                       [0usize, 2, 4, 1, 3].iter().map(|&i| P2::new(c[i].0, c[i].1)).collect() }
                _ => { let t = [lat_pt(r), lat_pt(r), lat_pt(r)]; t.to_vec() }                            // random triangle (either orientation, maybe degenerate)
            },
            _ => p.clone(),
        };
        v.push(("triangulate".into(), hpoly(&q)));
        // Hertel–Mehlhorn on the implementation's own triangulation (and variants of it)
        if let Some(m) = std::panic::catch_unwind(|| TriMesh::from_polygon(q.clone())).ok().flatten() {
            let mut t: Vec<[u32; 3]> = m.indices().to_vec();
            v.push(("hertel_mehlhorn".into(), format!("{} {}", hpoly(&q), htris(&t))));
            // same tiling, triangles shuffled and each triangle's start rotated
            for i in (1..t.len()).rev() { let j = r.below(i as u64 + 1) as usize; t.swap(i, j); }
            for x in t.iter_mut() { let k = r.below(3) as usize; x.rotate_left(k); }
            v.push(("hertel_mehlhorn".into(), format!("{} {}", hpoly(&q), htris(&t))));
            // the public wrappers: point-valued Hertel–Mehlhorn and the Compound glue, on the shuffled tiling too
            if it % 2 == 0 || it % 40 == 7 {
                v.push(("decompose".into(), hpoly(&q)));
                v.push(("hertel_mehlhorn_pts".into(), format!("{} {}", hpoly(&q), htris(&t))));
                v.push(("decompose_tris".into(), format!("{} {}", hpoly(&q), htris(&t))));
            }
        } else if it % 4 == 0 { v.push(("decompose".into(), hpoly(&q))); }
        // fan triangulation of a convex polygon: everything merges back into one piece
        if it % 5 == 0 {
            let c = crate::registry::c15::gen_convex(r, lat);
            if c.len() >= 3 && is_ccw(&c) {
                let t: Vec<[u32; 3]> = (1..c.len() as u32 - 1).map(|i| [0, i, i + 1]).collect();
                v.push(("hertel_mehlhorn".into(), format!("{} {}", hpoly(&c), htris(&t))));
                v.push(("decompose_tris".into(), format!("{} {}", hpoly(&c), htris(&t))));
            }
        }
    }
    v
}
