//! C05 — composite shapes: ORIENTED TriMesh (pseudo-normal inside flag) and 3-D HeightField (all cell statuses).
//!
//! `tm_*`  args: `nv <3 f64 each> nt <3 idx each> fid ...` — `fid` is the part the best-first traversal lands on (computed by the
//!          generator with the same real query; the model projects on that triangle, the oracle checks it against ALL triangles).
//! `hf_*`  args: `nr nc <nr*nc heights, column-major> <(nr-1)*(nc-1) statuses, column-major> <scale>` ...
use crate::util::*;
use crate::p3::query::{PointQuery, PointQueryWithLocation};
use crate::p3::shape::{HeightField, HeightFieldCellStatus, TriMesh, TriMeshFlags, TrianglePointLocation};
use crate::p3::bounding_volume::Aabb;
use d3::{na, Point, Vector};
use super::o3;

type P3 = Point<f64>;
type V3 = Vector<f64>;

fn parse_mesh(a: &mut Args) -> TriMesh {
    let nv = a.u();
    let vs: Vec<P3> = (0..nv).map(|_| d3::p(a)).collect();
    let nt = a.u();
    let is: Vec<[u32; 3]> = (0..nt).map(|_| [a.u() as u32, a.u() as u32, a.u() as u32]).collect();
    TriMesh::with_flags(vs, is, TriMeshFlags::ORIENTED).expect("trimesh")
}
fn parse_hf(a: &mut Args) -> HeightField {
    let nr = a.u(); let nc = a.u();
    let hs: Vec<f64> = (0..nr * nc).map(|_| a.f()).collect();
    let st: Vec<usize> = (0..(nr - 1) * (nc - 1)).map(|_| a.u()).collect();
    let scale = d3::v(a);
    let mut hf = HeightField::new(na::DMatrix::from_vec(nr, nc, hs), scale);
    for j in 0..nc - 1 { for i in 0..nr - 1 {
        hf.set_cell_status(i, j, HeightFieldCellStatus::from_bits_truncate(st[i + j * (nr - 1)] as u8));
    } }
    hf
}
fn floc(l: &TrianglePointLocation) -> String {
    match l { TrianglePointLocation::OnVertex(i) => format!("V {}", i),
              TrianglePointLocation::OnEdge(i, bc) => format!("E {} {} {}", i, ff(bc[0]), ff(bc[1])),
              TrianglePointLocation::OnFace(i, bc) => format!("F {} {} {} {}", i, ff(bc[0]), ff(bc[1]), ff(bc[2])),
              TrianglePointLocation::OnSolid => "S".into() }
}

pub fn exec(func: &str, a: &mut Args) -> Option<String> {
    let mut it = func.splitn(2, '_');
    let shape = it.next().unwrap_or("");
    let op = it.next().unwrap_or("");
    match shape {
        "tm" => {
            let m = parse_mesh(a);
            if op == "pn" {
                let pn = m.pseudo_normals().expect("pseudo-normals");
                let mut s = format!("{}", pn.vertices_pseudo_normal.len());
                for v in &pn.vertices_pseudo_normal { s.push(' '); s.push_str(&d3::fv(v)); }
                s.push_str(&format!(" {}", pn.edges_pseudo_normal.len()));
                for e in &pn.edges_pseudo_normal { for v in e { s.push(' '); s.push_str(&d3::fv(v)); } }
                return Some(s);
            }
            let _fid = a.u();
            Some(match op {
                "loc" => { let p = d3::p(a); let so = a.b();
                    let (pp, (id, l)) = m.project_local_point_and_get_location(&p, so);
                    format!("{} {} {}", o3::fpp(&pp), id, floc(&l)) }
                "lmaxd" => { let p = d3::p(a); let so = a.b(); let d = a.f();
                    match m.project_local_point_and_get_location_with_max_dist(&p, so, d) {
                        None => "none".into(),
                        Some((pp, (id, l))) => format!("some {} {} {}", o3::fpp(&pp), id, floc(&l)) } }
                _ => o3::op(&m, op, a),
            })
        }
        "hf" => {
            let h = parse_hf(a);
            Some(match op {
                "wmaxd" => { let m = d3::iso(a); let p = d3::p(a); let so = a.b(); let d = a.f();
                    match h.project_point_with_max_dist(&m, &p, so, d) { None => "none".into(), Some(pp) => format!("some {}", o3::fpp(&pp)) } }
                "map" => { let mins = d3::p(a); let maxs = d3::p(a);
                    let mut out: Vec<String> = Vec::new();
                    h.map_elements_in_local_aabb(&Aabb::new(mins, maxs), &mut |id, t| {
                        out.push(format!("{} {} {} {}", id, d3::fp(&t.a), d3::fp(&t.b), d3::fp(&t.c))); });
                    format!("{} {}", out.len(), out.join(" ")).trim_end().to_string() }
                _ => o3::op(&h, op, a),
            })
        }
        _ => None,
    }
}

// ------------------------------------------------------------------ generators

struct MeshB { vs: Vec<P3>, is: Vec<[u32; 3]> }

fn p3(x: f64, y: f64, z: f64) -> P3 { P3::new(x, y, z) }

/// signed volume * 6 of the mesh (positive for outward orientation)
fn vol6(m: &MeshB) -> f64 {
    m.is.iter().map(|t| { let (a, b, c) = (m.vs[t[0] as usize].coords, m.vs[t[1] as usize].coords, m.vs[t[2] as usize].coords); a.dot(&b.cross(&c)) }).sum()
}
fn orient(mut m: MeshB) -> MeshB {
    if vol6(&m) < 0.0 { for t in m.is.iter_mut() { t.swap(1, 2); } }
    m
}
fn tetra(a: P3, b: P3, c: P3, d: P3) -> MeshB {
    orient(MeshB { vs: vec![a, b, c, d], is: vec![[0, 2, 1], [0, 1, 3], [1, 2, 3], [2, 0, 3]] })
}
/// double pyramid over a polygon in the plane y = 0 (star-shaped about the origin): saddle vertices at reflex corners,
/// apexes with alternating convex / reflex incident edges ("spike over a non-convex base").
fn bipyramid(poly: &[[f64; 2]], top: P3, bot: P3) -> MeshB {
    let n = poly.len() as u32;
    let mut vs: Vec<P3> = poly.iter().map(|q| p3(q[0], 0.0, q[1])).collect();
    vs.push(top); vs.push(bot);
    let mut is = Vec::new();
    for k in 0..n { let k1 = (k + 1) % n; is.push([n, k, k1]); is.push([n + 1, k1, k]); }
    orient(MeshB { vs, is })
}
fn star_poly(r: &mut Rng, lat: bool) -> Vec<[f64; 2]> {
    if lat {
        match r.below(3) {
            0 => vec![[4.0, 0.0], [1.0, 1.0], [0.0, 4.0], [-1.0, 1.0], [-4.0, 0.0], [-1.0, -1.0], [0.0, -4.0], [1.0, -1.0]],
            1 => vec![[3.0, 0.0], [1.0, 1.0], [0.0, 3.0], [-1.0, 1.0], [-3.0, 0.0], [0.0, -1.0]],
            _ => vec![[2.0, -2.0], [2.0, 2.0], [0.0, 0.5], [-2.0, 2.0], [-2.0, -2.0]], // one reflex corner
        }
    } else {
        let m = 3 + r.below(3) as usize;
        let (ro, ri) = (r.uniform(2.0, 4.0), r.uniform(0.8, 1.2));
        let ph = r.uniform(0.0, 6.28);
        (0..2 * m).map(|k| { let t = ph + std::f64::consts::PI * k as f64 / m as f64; let rr = if k % 2 == 0 { ro } else { ri }; [rr * t.cos(), rr * t.sin()] }).collect()
    }
}
fn gen_mesh(r: &mut Rng, lat: bool) -> (MeshB, &'static str) {
    let fam = r.below(6);
    let (mut m, name) = match fam {
        0 => { // corner tetrahedron: three mutually orthogonal faces + one oblique; scaled per axis
            let s = if lat { [*r.pick(&[1.0, 2.0, 4.0]), *r.pick(&[1.0, 2.0, 0.5]), *r.pick(&[1.0, 3.0])] } else { [r.logu(0.3, 5.0), r.logu(0.3, 5.0), r.logu(0.3, 5.0)] };
            (tetra(p3(0.0, 0.0, 0.0), p3(s[0], 0.0, 0.0), p3(0.0, s[1], 0.0), p3(0.0, 0.0, s[2])), "corner-tet") }
        1 => { // needle: small base, far leaning apex (face normals with negative mutual dot products)
            let (h, lx, lz) = if lat { (*r.pick(&[4.0, 8.0]), *r.pick(&[0.0, 1.0, 3.0, -2.0]), *r.pick(&[0.0, 2.0, -1.0])) } else { (r.uniform(3.0, 10.0), r.uniform(-3.0, 3.0), r.uniform(-3.0, 3.0)) };
            (tetra(p3(1.0, 0.0, 0.0), p3(-0.5, 0.0, 1.0), p3(-0.5, 0.0, -1.0), p3(lx, h, lz)), "needle-tet") }
        2 => { let (a, b, c, d) = (d3::gen_p(r, lat, 4.0), d3::gen_p(r, lat, 4.0), d3::gen_p(r, lat, 4.0), d3::gen_p(r, lat, 4.0));
            (tetra(a, b, c, d), "random-tet") }
        3 | 4 => { // star bipyramid: non-convex, leaning apexes (foot-points inside the kernel of the polygon)
            let poly = star_poly(r, lat);
            let (tx, tz, bx, bz) = if lat { (*r.pick(&[0.0, 0.5, -0.5]), *r.pick(&[0.0, 0.25, -0.5]), *r.pick(&[0.0, 0.5]), *r.pick(&[0.0, -0.25])) }
                                   else { (r.uniform(-0.4, 0.4), r.uniform(-0.4, 0.4), r.uniform(-0.4, 0.4), r.uniform(-0.4, 0.4)) };
            let (ht, hb) = if lat { (*r.pick(&[0.5, 1.0, 3.0]), *r.pick(&[0.5, 2.0])) } else { (r.logu(0.3, 5.0), r.logu(0.3, 5.0)) };
            (bipyramid(&poly, p3(tx, ht, tz), p3(bx, -hb, bz)), "star-bipyramid") }
        _ => { // box split into 12 triangles
            let he = d3::gen_he(r, true);
            let (vs, is) = crate::p3::shape::Cuboid::new(he).to_trimesh();
            (orient(MeshB { vs, is }), "box") }
    };
    // rotate the index triples so that every vertex is met at every index position
    for t in m.is.iter_mut() { let k = r.below(3) as usize; t.rotate_left(k); }
    // shuffle the triangle order
    for i in (1..m.is.len()).rev() { let j = r.below(i as u64 + 1) as usize; m.is.swap(i, j); }
    // pose
    if r.below(3) != 0 { let iso = d3::gen_iso(r, lat, 4.0); for v in m.vs.iter_mut() { *v = iso * *v; } }
    (m, name)
}
fn mesh_args(m: &MeshB) -> String {
    let mut s = format!("{}", m.vs.len());
    for v in &m.vs { s.push(' '); s.push_str(&d3::hp(v)); }
    s.push_str(&format!(" {}", m.is.len()));
    for t in &m.is { s.push_str(&format!(" {} {} {}", t[0], t[1], t[2])); }
    s
}
fn unit_normal(m: &MeshB, t: &[u32; 3]) -> Option<V3> {
    let (a, b, c) = (m.vs[t[0] as usize], m.vs[t[1] as usize], m.vs[t[2] as usize]);
    let n = (b - a).cross(&(c - a)); let l = n.norm(); if l > 1e-12 { Some(n / l) } else { None }
}
/// query points aimed at vertex / edge / face Voronoi regions, outside and inside
fn mesh_points(r: &mut Rng, lat: bool, m: &MeshB) -> Vec<(P3, &'static str)> {
    let mut out = Vec::new();
    let ts = [0.125, 0.5, 1.0, 3.0];
    let nv = m.vs.len();
    for _ in 0..3 {
        let vi = r.below(nv as u64) as u32;
        let v = m.vs[vi as usize];
        let inc: Vec<V3> = m.is.iter().filter(|t| t.contains(&vi)).filter_map(|t| unit_normal(m, t)).collect();
        if inc.is_empty() { continue; }
        // a direction in the cone spanned by the incident normals: biased toward ONE face (others with small weights)
        let fav = r.below(inc.len() as u64) as usize;
        let mut d = V3::zeros();
        for (k, n) in inc.iter().enumerate() {
            let w = if k == fav { 1.0 } else if lat { *r.pick(&[0.0, 0.125, 0.25]) } else { r.uniform(0.0, 0.3) };
            d += n * w;
        }
        let t = if lat { *r.pick(&ts) } else { r.logu(0.05, 4.0) };
        out.push((v + d * t, "vertex-cone-out"));
        out.push((v - d * (t * 0.25), "vertex-cone-in"));
        let mut e = V3::zeros(); for n in &inc { e += n; }
        out.push((v + e * t, "vertex-mean-out"));
        out.push((v + d3::gen_v(r, lat, 1.0) * 0.5, "vertex-near"));
    }
    for _ in 0..2 {
        let t = m.is[r.below(m.is.len() as u64) as usize];
        let k = r.below(3) as usize;
        let (i, j) = (t[k], t[(k + 1) % 3]);
        let mid = na::center(&m.vs[i as usize], &m.vs[j as usize]);
        let inc: Vec<V3> = m.is.iter().filter(|t| t.contains(&i) && t.contains(&j)).filter_map(|t| unit_normal(m, t)).collect();
        let mut d = V3::zeros();
        for n in &inc { d += n * (if lat { *r.pick(&[0.0, 0.25, 1.0]) } else { r.uniform(0.0, 1.0) }); }
        let s = if lat { *r.pick(&ts) } else { r.logu(0.05, 4.0) };
        out.push((mid + d * s, "edge-out"));
        out.push((mid - d * (s * 0.125), "edge-in"));
        if let Some(n) = unit_normal(m, &t) {
            let c = P3::from((m.vs[t[0] as usize].coords + m.vs[t[1] as usize].coords + m.vs[t[2] as usize].coords) / 3.0);
            out.push((c + n * s, "face-out"));
            out.push((c - n * (s * 0.0625), "face-in"));
        }
    }
    let c = P3::from(m.vs.iter().map(|v| v.coords).sum::<V3>() / nv as f64);
    out.push((c + d3::gen_v(r, lat, 6.0), "around"));
    out.push((c + d3::gen_v(r, lat, 1.0) * 0.25, "centre"));
    out
}
fn hint(m: &TriMesh, p: &P3, solid: bool) -> u32 {
    std::panic::catch_unwind(std::panic::AssertUnwindSafe(|| m.project_local_point_and_get_location(p, solid).1 .0)).unwrap_or(0)
}

fn gen_hf(r: &mut Rng, lat: bool) -> (String, usize, usize, V3) {
    let nr = 2 + r.below(4) as usize; let nc = 2 + r.below(4) as usize;
    let hs: Vec<f64> = (0..nr * nc).map(|_| if lat { r.lattice(8, 2) } else { r.uniform(-2.0, 2.0) }).collect();
    // every status value 0..=7 (zig-zag, left / right / both removed), default more often
    let st: Vec<usize> = (0..(nr - 1) * (nc - 1)).map(|_| if r.below(4) == 0 { 0 } else { r.below(8) as usize }).collect();
    let scale = if lat { V3::new(*r.pick(&[1.0, 2.0, 4.0, 8.0]), *r.pick(&[1.0, 0.5, 2.0]), *r.pick(&[1.0, 2.0, 4.0, 3.0])) }
                else { V3::new(r.logu(0.5, 20.0), r.logu(0.2, 5.0), r.logu(0.5, 20.0)) };
    let mut s = format!("{} {} {}", nr, nc, hxs(hs.iter()));
    for x in &st { s.push_str(&format!(" {}", x)); }
    s.push(' '); s.push_str(&d3::hv(&scale));
    (s, nr, nc, scale)
}

pub fn gen(r: &mut Rng, thorough: bool, v: &mut Vec<(String, String)>) {
    let n = if thorough { 600 } else { 60 };
    let mut fam: std::collections::BTreeMap<String, usize> = Default::default();
    for it in 0..n {
        let lat = it % 2 == 0;
        let (mb, name) = gen_mesh(r, lat);
        let ma = mesh_args(&mb);
        let mesh = match TriMesh::with_flags(mb.vs.clone(), mb.is.clone(), TriMeshFlags::ORIENTED) { Ok(m) => m, Err(_) => continue };
        v.push(("tm_pn".into(), ma.clone()));
        for (p, cls) in mesh_points(r, lat, &mb) {
            *fam.entry(format!("{}/{}", name, cls)).or_insert(0) += 1;
            let ph = d3::hp(&p);
            let (h0, h1) = (hint(&mesh, &p, false), hint(&mesh, &p, true));
            v.push(("tm_loc".into(), format!("{} {} {} 0", ma, h0, ph)));
            v.push(("tm_loc".into(), format!("{} {} {} 1", ma, h1, ph)));
            let so = r.bool(); let hs = if so { h1 } else { h0 };
            match r.below(4) {
                0 => v.push(("tm_proj".into(), format!("{} {} {} {}", ma, hs, ph, b(so)))),
                1 => v.push(("tm_dist".into(), format!("{} {} {} {}", ma, hs, ph, b(so)))),
                2 => v.push(("tm_cont".into(), format!("{} {} {}", ma, h1, ph))),
                _ => v.push(("tm_feat".into(), format!("{} {} {}", ma, h0, ph))),
            }
            let d0 = na::distance(&p, &mesh.project_local_point(&p, so).point);
            // bounds: 0, fractions / multiples of the true distance, the true distance itself (tie).  When the point is within
            // rounding noise of the surface the verdict depends on the node Aabbs of the Qbvh (not modelled): use 0 or 1/4 then.
            let md = if d0 < 1e-9 { *r.pick(&[0.0, 0.25]) } else if lat { *r.pick(&[0.0, 0.5, 1.0, 1.0, 2.0]) * d0 + *r.pick(&[0.0, 0.0, 0.25]) } else { r.uniform(0.0, 2.0 * d0 + 0.1) };
            // the part reached by the BOUNDED traversal (ties / last-ulp pruning can differ from the unbounded one)
            let hb = std::panic::catch_unwind(std::panic::AssertUnwindSafe(|| mesh.project_local_point_and_get_location_with_max_dist(&p, so, md).map(|x| x.1 .0))).unwrap_or(None).unwrap_or(hs);
            v.push((if r.bool() { "tm_maxd" } else { "tm_lmaxd" }.into(), format!("{} {} {} {} {}", ma, hb, ph, b(so), hx(md))));
            let m = d3::gen_iso(r, lat, 100.0);
            let w = m * p;
            let lp = m.inverse_transform_point(&w);
            let (g0, g1) = (hint(&mesh, &lp, false), hint(&mesh, &lp, true));
            match r.below(3) {
                0 => v.push(("tm_wproj".into(), format!("{} {} {} {} {}", ma, if so { g1 } else { g0 }, d3::hiso(&m), d3::hp(&w), b(so)))),
                1 => v.push(("tm_wdist".into(), format!("{} {} {} {} {}", ma, if so { g1 } else { g0 }, d3::hiso(&m), d3::hp(&w), b(so)))),
                _ => v.push(("tm_wcont".into(), format!("{} {} {} {}", ma, g1, d3::hiso(&m), d3::hp(&w)))),
            }
        }
    }
    // ---- heightfields: every cell status, points above / below / beside every cell
    for it in 0..n {
        let lat = it % 2 == 0;
        let (ha, nr, nc, scale) = gen_hf(r, lat);
        for _ in 0..6 {
            // a point over a chosen cell (so that zig-zag / removed cells are really targeted), or outside the footprint
            let (ci, cj) = (r.below(nr as u64 - 1) as f64, r.below(nc as u64 - 1) as f64);
            let (u, w) = if lat { (*r.pick(&[0.0, 0.25, 0.5, 0.75, 1.0]), *r.pick(&[0.0, 0.25, 0.5, 0.75, 1.0])) } else { (r.unit(), r.unit()) };
            let mut x = (-0.5 + (cj + u) / (nc as f64 - 1.0)) * scale.x;
            let mut z = (-0.5 + (ci + w) / (nr as f64 - 1.0)) * scale.z;
            if r.below(6) == 0 { x += scale.x * *r.pick(&[1.0, -1.0, 0.5]); }
            if r.below(6) == 0 { z += scale.z * *r.pick(&[1.0, -1.0, -0.5]); }
            let y = if lat { r.lattice(12, 2) } else { r.uniform(-3.0, 3.0) } * scale.y;
            let p = p3(x, y, z);
            let ph = d3::hp(&p);
            let so = r.bool();
            *fam.entry("heightfield/point".into()).or_insert(0) += 1;
            v.push(("hf_proj".into(), format!("{} {} {}", ha, ph, b(so))));
            let md = if lat { *r.pick(&[0.25, 0.5, 1.0, 2.0, 4.0, 16.0]) } else { r.logu(0.05, 30.0) };
            v.push(("hf_maxd".into(), format!("{} {} {} {}", ha, ph, b(so), hx(md))));
            v.push(("hf_maxd".into(), format!("{} {} {} {}", ha, ph, b(!so), hx(md * 4.0))));
            // (`project_local_point_and_get_feature` of a HeightField reports FeatureId::Unknown by design: not generated)
            if r.bool() { v.push(("hf_dist".into(), format!("{} {} {}", ha, ph, b(so)))); } else { v.push(("hf_cont".into(), format!("{} {}", ha, ph))); }
            let m = d3::gen_iso(r, lat, 100.0);
            let w = m * p;
            v.push(("hf_wproj".into(), format!("{} {} {} {}", ha, d3::hiso(&m), d3::hp(&w), b(so))));
            v.push(("hf_wmaxd".into(), format!("{} {} {} {} {}", ha, d3::hiso(&m), d3::hp(&w), b(so), hx(md * 2.0))));
            let e = if lat { V3::new(*r.pick(&[0.0, 0.5, 2.0]), *r.pick(&[0.0, 1.0, 4.0]), *r.pick(&[0.0, 0.5, 2.0])) } else { V3::new(r.uniform(0.0, 3.0), r.uniform(0.0, 3.0), r.uniform(0.0, 3.0)) };
            v.push(("hf_map".into(), format!("{} {} {}", ha, d3::hp(&(p - e)), d3::hp(&(p + e)))));
        }
    }
    if std::env::var("VERIF_FAMILIES").is_ok() { for (k, c) in &fam { eprintln!("C05 family {} {}", k, c); } }
}
