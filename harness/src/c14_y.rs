//! C14 extension (round fu5): 2-D cuboid/cuboid and 2-D polygonal-feature contacts
//!   sat2 pos12 he1 he2             `query::sat::cuboid_cuboid_find_local_separating_normal_oneway` (parry2d) → `sep dir`
//!   cuc2 pos12 he1 he2 pred manifold   `query::details::contact_manifold_cuboid_cuboid` (parry2d) called directly → manifold
//!   pc2  pos12 nf1 v* nf2 v* sep flipped   `PolygonalFeature::contacts` (parry2d) on features with 1 or 2 vertices
//!                                  → `npts (p1 p2 dist)*`, or `panic` for the `unimplemented!()` arm
//!   seq2 kind 6                    cuboid/cuboid pose histories through `DefaultQueryDispatcher::contact_manifolds` (exec in c14.rs)
use super::*;

fn feat2(vs: &[d2::Point<f64>]) -> crate::p2::shape::PolygonalFeature {
    let mut f = crate::p2::shape::PolygonalFeature::default();
    for (i, v) in vs.iter().enumerate().take(2) { f.vertices[i] = *v; }
    f.num_vertices = vs.len();
    f
}

pub fn exec(func: &str, a: &mut Args) -> Option<String> {
    use crate::p2::shape::Cuboid;
    Some(match func {
        "sat2" => { let p = d2::iso(a); let he1 = d2::v(a); let he2 = d2::v(a);
            let (s, d) = crate::p2::query::sat::cuboid_cuboid_find_local_separating_normal_oneway(&Cuboid::new(he1), &Cuboid::new(he2), &p);
            format!("{} {}", ff(s), d2::fv(&d)) }
        "cuc2" => { let p = d2::iso(a); let he1 = d2::v(a); let he2 = d2::v(a); let pred = a.f(); let mut m = man2(a);
            crate::p2::query::details::contact_manifold_cuboid_cuboid(&p, &Cuboid::new(he1), &Cuboid::new(he2), pred, &mut m);
            fman2(&m) }
        "pc2" => { use crate::p2::shape::PolygonalFeature;
            let p = d2::iso(a);
            let n1 = a.u(); let v1: Vec<_> = (0..n1).map(|_| d2::p(a)).collect();
            let n2 = a.u(); let v2: Vec<_> = (0..n2).map(|_| d2::p(a)).collect();
            let sep = d2::v(a); let flipped = a.b();
            if n1 != 2 && n2 != 2 { return Some("panic".into()); }          // `(false, false) => unimplemented!()`
            let sep2 = p.inverse_transform_vector(&-sep);
            let mut m = M2::new();
            PolygonalFeature::contacts(&p, &p.inverse(), &sep, &sep2, &feat2(&v1), &feat2(&v2), &mut m, flipped);
            let mut o = format!("{}", m.points.len());
            for c in &m.points { o += &format!(" {} {} {}", d2::fp(&c.local_p1), d2::fp(&c.local_p2), ff(c.dist)); }
            o }
        _ => return None,
    })
}

// ---------------------------------------------------------------- generators
fn supp(he: &d2::Vector<f64>, rot: &d2::na::UnitComplex<f64>, dir: &d2::Vector<f64>) -> f64 {
    // support function of the rotated box along `dir`
    let l = rot.inverse_transform_vector(dir);
    he.x * l.x.abs() + he.y * l.y.abs()
}
fn rot_of(re: f64, im: f64) -> d2::na::UnitComplex<f64> { d2::na::Unit::new_unchecked(d2::na::Complex::new(re, im)) }

/// two boxes and a pose near contact.
/// fam 0  face against face: rotation = a multiple of 90° (lattice) or that plus a tilt from 1e-9 rad to a few degrees (either sign);
///        box 2 placed beyond a face of box 1 with gap in {touching, ±small, around the prediction} and every lengthwise overlap
///        (centred, partial on either side, flush ends, only a corner, none);
/// fam 1  arbitrary rotation (corner against face), placed at contact distance along a random direction by the support functions;
/// fam 2  ties and degenerate placements: coincident centres, translation components exactly `0.0` / `-0.0`, squares on the
///        diagonal (both one-way separations equal), rotation 45°;
/// fam 3  thin plates / needles (aspect up to 1e4) in the fam 0/1 placements.
pub fn gen_cuc2_pose(r: &mut Rng, lat: bool, fam: usize) -> (d2::Isometry<f64>, d2::Vector<f64>, d2::Vector<f64>, f64) {
    let ext = |r: &mut Rng| if lat { *r.pick(&[0.25, 0.5, 1.0, 1.5, 2.0, 4.0]) } else { r.logu(5e-2, 8.0) };
    let thin = |r: &mut Rng| if lat { *r.pick(&[0.015625, 0.03125]) } else { r.logu(1e-2, 5e-2) };
    let (mut he1, mut he2) = (d2::Vector::new(ext(r), ext(r)), d2::Vector::new(ext(r), ext(r)));
    if fam == 3 { match r.below(3) { 0 => { he1.x = thin(r); } 1 => { he2.y = thin(r); } _ => { he1.y = thin(r); he2.y = thin(r); } } }
    if fam == 2 && r.bool() { he1.y = he1.x; he2 = he1; }
    let scale = (he1.norm() + he2.norm()).min(4.0);
    let pred = if lat { *r.pick(&[0.0, 0.25, 0.5]) } else { *r.pick(&[0.0, 1e-3, 0.05, 0.2]) * scale.min(2.0) };
    let sub = if fam == 3 { r.below(2) as usize } else { fam };
    let (rot, t) = match sub {
        0 => {
            let q = r.below(4);
            let base = [(1.0, 0.0), (0.0, 1.0), (-1.0, 0.0), (0.0, -1.0)][q as usize];
            let tilt = if lat { 0.0 } else { (match r.below(4) { 0 => 0.0, 1 => r.logu(1e-9, 1e-4), 2 => r.logu(1e-4, 2e-2), _ => r.uniform(0.0, 0.2) }) * if r.bool() { 1.0 } else { -1.0 } };
            let rot = d2::na::UnitComplex::new(tilt) * rot_of(base.0, base.1);
            let rot = if tilt == 0.0 { rot_of(base.0, base.1) } else { rot };
            let i = r.below(2) as usize; let j = 1 - i;
            let sgn = if r.bool() { 1.0 } else { -1.0 };
            let mut ax = d2::Vector::zeros(); ax[i] = sgn;
            let mut tg = d2::Vector::zeros(); tg[j] = 1.0;
            let gap = if lat { *r.pick(&[0.0, 0.25, -0.25, 0.5, 1.0, -0.125]) } else {
                match r.below(6) { 0 => r.uniform(-1e-6, 1e-6), 1 => pred + r.uniform(-1e-3, 1e-3), 2 => r.uniform(0.0, 1.5) * (pred + 0.05),
                                   _ => r.uniform(-0.5, 0.1) * he1[i].min(he2.x.min(he2.y)) } };
            let w1 = he1[j]; let w2 = supp(&he2, &rot, &tg);
            let s = if lat { *r.pick(&[0.0, 0.5, -0.5, 1.0, -1.0, 1.25, -1.25, 0.25]) } else {
                match r.below(6) { 0 => 0.0, 1 => if r.bool() { 1.0 } else { -1.0 }, 2 => r.uniform(-1.3, 1.3), 3 => (w1 - w2) / (w1 + w2) * if r.bool() { 1.0 } else { -1.0 }, _ => r.uniform(-1.0, 1.0) } };
            (rot, ax * (he1[i] + supp(&he2, &rot, &ax) + gap) + tg * (s * (w1 + w2)))
        }
        1 => {
            let (re, im) = d2::gen_rot(r, lat); let rot = rot_of(re, im);
            let dir = unit2(r, lat);
            let gap = if lat { *r.pick(&[0.0, 0.25, -0.25, 0.5, -0.125]) } else {
                match r.below(5) { 0 => r.uniform(-1e-6, 1e-6), 1 => pred + r.uniform(-1e-3, 1e-3), _ => r.uniform(-0.5, 0.3) * he1.x.min(he1.y).min(he2.x).min(he2.y) } };
            let id = d2::na::UnitComplex::identity();
            (rot, dir * (supp(&he1, &id, &dir) + supp(&he2, &rot, &dir) + gap))
        }
        _ => {
            let rot = match r.below(4) { 0 => rot_of(std::f64::consts::FRAC_1_SQRT_2, std::f64::consts::FRAC_1_SQRT_2), 1 => rot_of(1.0, 0.0),
                                          2 => rot_of(0.0, 1.0), _ => { let (re, im) = d2::gen_rot(r, lat); rot_of(re, im) } };
            let z = |r: &mut Rng| *r.pick(&[0.0, -0.0, 0.0, -0.0, 1e-300, -1e-300]);
            let t = match r.below(5) {
                0 => d2::Vector::new(z(r), z(r)),
                1 => d2::Vector::new(z(r), (he1.y + he2.y) * *r.pick(&[1.0, -1.0, 0.5])),
                2 => d2::Vector::new((he1.x + he2.x) * *r.pick(&[1.0, -1.0, 0.5]), z(r)),
                3 => { let d = (he1.x + he2.x) * *r.pick(&[1.0, 0.75, 1.125]); d2::Vector::new(d * if r.bool() { 1.0 } else { -1.0 }, d * if r.bool() { 1.0 } else { -1.0 }) }
                _ => d2::gen_v(r, lat, 1.0) * 0.25,
            };
            (rot, t)
        }
    };
    (d2::Isometry::from_parts(d2::na::Translation2::from(t), rot), he1, he2, pred)
}

fn gen_cuc2(r: &mut Rng, lat: bool, fam: usize) -> Vec<(String, String)> {
    let (pos12, he1, he2, pred) = gen_cuc2_pose(r, lat, fam);
    // prior manifold: empty (fresh), stale garbage, or the REAL manifold of a nearby pose (so that the warm start is decided by the code)
    let prior = match r.below(4) {
        0 => { let npts = *r.pick(&[1usize, 2]);
               let pts: Vec<_> = (0..npts).map(|_| (d2::gen_p(r, lat, 2.0), d2::gen_p(r, lat, 2.0), r.coord(lat, 1.0))).collect();
               hman2(&unit2(r, lat), &unit2(r, lat), &pts) }
        1 => { let mut near = pos12;
               let s = if lat { 0.03125 } else { r.logu(1e-6, 3e-2) };
               near.translation.vector += d2::Vector::new(r.uniform(-1.0, 1.0), r.uniform(-1.0, 1.0)) * s;
               if !lat { near.rotation = d2::na::UnitComplex::new(r.uniform(-1.0, 1.0) * *r.pick(&[1e-4, 1e-2, 3e-2])) * near.rotation; }
               let mut m = M2::new();
               crate::p2::query::details::contact_manifold_cuboid_cuboid(&near, &crate::p2::shape::Cuboid::new(he1), &crate::p2::shape::Cuboid::new(he2), pred, &mut m);
               let pts: Vec<_> = m.points.iter().map(|c| (c.local_p1, c.local_p2, c.dist)).collect();
               hman2(&m.local_n1, &m.local_n2, &pts) }
        _ => hman2(&d2::Vector::zeros(), &d2::Vector::zeros(), &[]),
    };
    let mut v = vec![("cuc2".to_string(), format!("{} {} {} {} {}", d2::hiso(&pos12), d2::hv(&he1), d2::hv(&he2), hx(pred), prior))];
    if r.below(3) == 0 { v.push(("sat2".to_string(), format!("{} {} {}", d2::hiso(&pos12), d2::hv(&he1), d2::hv(&he2)))); }
    v
}

/// cuboid/cuboid pose history through the dispatcher: base pose from the `cuc2` families, then the step distribution of `gen_seq2`
/// (small steps on the fast path, rotations, jumps away, returns to the base pose)
fn gen_seq2_cuc(r: &mut Rng, lat: bool, fam: usize, maxposes: usize) -> (String, String) {
    let (base, a, b, pred) = gen_cuc2_pose(r, lat, fam);
    let scale = (a.norm() + b.norm()).min(4.0).max(0.1);
    let n = 1 + r.below(maxposes as u64) as usize;
    let mut poses = vec![base];
    let mut cur = base;
    for _ in 1..n {
        let k = r.below(20);
        if lat {
            if k < 11 { cur.translation.vector += d2::gen_v(r, true, 1.0) * 0.03125; }
            else if k < 14 { cur.translation.vector += d2::gen_v(r, true, 1.0) * 0.25; let (re, im) = d2::gen_rot(r, true); cur.rotation = rot_of(re, im); }
            else if k < 16 { cur.translation.vector += unit2(r, true) * (64.0 * scale); }
            else if k < 19 { cur = base; cur.translation.vector += d2::gen_v(r, true, 1.0) * 0.0625; }
        } else {
            if k < 11 { let s = r.logu(1e-5, 3e-2) * scale; cur.translation.vector += d2::Vector::new(r.uniform(-1.0, 1.0), r.uniform(-1.0, 1.0)) * s;
                cur.rotation = d2::na::UnitComplex::new(r.uniform(-0.02, 0.02)) * cur.rotation; }
            else if k < 14 { cur.translation.vector += d2::Vector::new(r.uniform(-1.0, 1.0), r.uniform(-1.0, 1.0)) * (0.3 * scale);
                cur.rotation = d2::na::UnitComplex::new(r.uniform(-1.0, 1.0)) * cur.rotation; }
            else if k < 16 { cur.translation.vector += unit2(r, false) * (r.uniform(5.0, 50.0) * scale); }
            else if k < 19 { cur = base; cur.translation.vector += d2::Vector::new(r.uniform(-1.0, 1.0), r.uniform(-1.0, 1.0)) * (0.02 * scale); }
        }
        poses.push(cur);
    }
    let mut s = format!("6 {} {} {} {}", d2::hv(&a), d2::hv(&b), hx(pred), n);
    for p in &poses { s += " "; s += &d2::hiso(p); }
    ("seq2".into(), s)
}

/// two features for `PolygonalFeature::contacts`: faces (two vertices) nearly parallel / anti-parallel / tilted with every
/// lengthwise overlap, unequal lengths, either vertex order; in a quarter of the cases one feature is a single vertex
/// (face/vertex and vertex/face arms; the face then has unit length and `sep` is its unit normal half of the time);
/// a few vertex/vertex cases (the `unimplemented!()` arm).
fn gen_pc2(r: &mut Rng, lat: bool) -> (String, String) {
    let pos12 = d2::gen_iso(r, lat, 4.0);
    let u = unit2(r, lat);
    let n = d2::Vector::new(-u.y, u.x);
    let c1 = d2::gen_v(r, lat, 3.0);
    let h1 = if lat { *r.pick(&[0.5, 1.0, 2.0]) } else { r.logu(5e-2, 10.0) };
    let h2 = if lat { *r.pick(&[0.5, 1.0, 2.0, 4.0]) } else { h1 * r.logu(0.1, 10.0) };
    let kind = r.below(16);                                   // 0..11 face/face, 12 13 face/vertex, 14 vertex/face, 15 vertex/vertex
    let h1 = if kind >= 12 && r.bool() { 0.5 } else { h1 };
    let w = if lat { u + n * *r.pick(&[0.0, 0.0, 0.0625, -0.0625, 0.25, -0.25, 1.0]) } else {
        let t = match r.below(4) { 0 => 0.0, 1 => r.logu(1e-9, 1e-3), 2 => r.uniform(0.0, 0.4), _ => r.uniform(0.0, 1.5) } * if r.bool() { 1.0 } else { -1.0 };
        u * t.cos() + n * t.sin() };
    let w = if r.bool() { w } else { -w };
    let s = if lat { *r.pick(&[0.0, 0.25, -0.25, 0.5, -0.5, 1.0, -1.0, 1.25, -1.25]) } else {
        match r.below(6) { 0 => 0.0, 1 => if r.bool() { 1.0 } else { -1.0 }, 2 => r.uniform(-1.5, 1.5), _ => r.uniform(-1.0, 1.0) } };
    let side = if r.bool() { 1.0 } else { -1.0 };
    let gap = if lat { *r.pick(&[0.0, 0.25, -0.25, 1.0]) } else { r.uniform(-0.5, 1.0) };
    let c2 = c1 + u * (s * (h1 + h2)) + n * (side * gap);
    let (mut a1, mut b1) = (c1 - u * h1, c1 + u * h1);
    let (mut a2, mut b2) = (c2 - w * h2, c2 + w * h2);
    if r.below(4) == 0 { std::mem::swap(&mut a1, &mut b1); }
    if r.below(4) == 0 { std::mem::swap(&mut a2, &mut b2); }
    let sep = match r.below(4) { 0 => unit2(r, lat), _ => n * side };
    let loc = |p: d2::Vector<f64>| d2::hp(&pos12.inverse_transform_point(&d2::Point::from(p)));
    let f1 = if kind >= 14 { format!("1 {}", d2::hp(&d2::Point::from(a1))) } else { format!("2 {} {}", d2::hp(&d2::Point::from(a1)), d2::hp(&d2::Point::from(b1))) };
    let f2 = if kind == 12 || kind == 13 || kind == 15 { format!("1 {}", loc(a2)) } else { format!("2 {} {}", loc(a2), loc(b2)) };
    ("pc2".into(), format!("{} {} {} {} {}", d2::hiso(&pos12), f1, f2, d2::hv(&sep), b(r.below(4) == 0)))
}

/// cuboid / triangle (kind 2) and triangle / cuboid (kind 3) pose histories in the `seq2t` layout, general sizes: a non-degenerate
/// triangle (lattice vertices or random, incl. thin ones), placed at contact distance along a random direction by the support
/// functions (corner on face, face on face when an edge is axis-parallel, corner on corner), then the `gen_seq2` step distribution.
fn gen_seq2m_tri(r: &mut Rng, lat: bool, kind: usize, maxposes: usize) -> (String, String) {
    let ext = |r: &mut Rng| if lat { *r.pick(&[0.25, 0.5, 1.0, 1.5, 2.0]) } else { r.logu(5e-2, 6.0) };
    let he = d2::Vector::new(ext(r), ext(r));
    let tri = loop {
        let s = ext(r);
        let (a, b, c) = if lat && r.bool() {
            // axis-parallel edges (face on face)
            let w = ext(r); let h = ext(r); (d2::Vector::new(-w, 0.0), d2::Vector::new(w, 0.0), d2::Vector::new(*r.pick(&[-w, 0.0, w]), if r.bool() { h } else { -h }))
        } else { (d2::gen_v(r, lat, 1.0) * s, d2::gen_v(r, lat, 1.0) * s, d2::gen_v(r, lat, 1.0) * s) };
        let area = (b - a).perp(&(c - a));
        if area.abs() > 1e-3 * ((b - a).norm() * (c - a).norm()).max(1e-6) && (b - a).norm() > 1e-2 && (c - b).norm() > 1e-2 && (a - c).norm() > 1e-2 { break [a, b, c]; }
    };
    let (re, im) = d2::gen_rot(r, lat); let rot = rot_of(re, im);
    let dir = unit2(r, lat);
    let id = d2::na::UnitComplex::identity();
    let ld = rot.inverse_transform_vector(&-dir);
    let htri = tri.iter().map(|v| v.dot(&ld)).fold(f64::MIN, f64::max);
    let scale = (he.norm() + tri.iter().map(|v| v.norm()).fold(0.0, f64::max)).min(4.0).max(0.1);
    let pred = if lat { *r.pick(&[0.0, 0.25, 0.5]) } else { *r.pick(&[0.0, 1e-3, 0.05, 0.2]) * scale.min(2.0) };
    let gap = if lat { *r.pick(&[0.0, 0.25, -0.25, -0.125]) } else { match r.below(4) { 0 => r.uniform(-1e-6, 1e-6), 1 => pred + r.uniform(-1e-3, 1e-3), _ => r.uniform(-0.3, 0.2) * he.x.min(he.y) } };
    let base_ct = d2::Isometry::from_parts(d2::na::Translation2::from(dir * (supp(&he, &id, &dir) + htri + gap)), rot);   // triangle in the cuboid's frame
    let n = 1 + r.below(maxposes as u64) as usize;
    let mut cur = base_ct;
    let mut s = format!("{} {} {} {} {}", kind, d2::hv(&he), tri.iter().map(|v| d2::hv(v)).collect::<Vec<_>>().join(" "), hx(pred), n);
    for i in 0..n {
        if i > 0 {
            let k = r.below(20);
            if lat {
                if k < 11 { cur.translation.vector += d2::gen_v(r, true, 1.0) * 0.03125; }
                else if k < 14 { cur.translation.vector += d2::gen_v(r, true, 1.0) * 0.25; let (re, im) = d2::gen_rot(r, true); cur.rotation = rot_of(re, im); }
                else if k < 16 { cur.translation.vector += unit2(r, true) * (64.0 * scale); }
                else if k < 19 { cur = base_ct; cur.translation.vector += d2::gen_v(r, true, 1.0) * 0.0625; }
            } else {
                if k < 11 { let st = r.logu(1e-5, 3e-2) * scale; cur.translation.vector += d2::Vector::new(r.uniform(-1.0, 1.0), r.uniform(-1.0, 1.0)) * st;
                    cur.rotation = d2::na::UnitComplex::new(r.uniform(-0.02, 0.02)) * cur.rotation; }
                else if k < 14 { cur.translation.vector += d2::Vector::new(r.uniform(-1.0, 1.0), r.uniform(-1.0, 1.0)) * (0.3 * scale);
                    cur.rotation = d2::na::UnitComplex::new(r.uniform(-1.0, 1.0)) * cur.rotation; }
                else if k < 16 { cur.translation.vector += unit2(r, false) * (r.uniform(5.0, 50.0) * scale); }
                else if k < 19 { cur = base_ct; cur.translation.vector += d2::Vector::new(r.uniform(-1.0, 1.0), r.uniform(-1.0, 1.0)) * (0.02 * scale); }
            }
        }
        let p12 = if kind % 2 == 0 { cur } else { cur.inverse() };
        s += " "; s += &d2::hiso(&p12);
    }
    ("seq2m".into(), s)
}

pub fn gen(r: &mut Rng, thorough: bool) -> Vec<(String, String)> {
    let k = if thorough { 10 } else { 1 };
    let mut v = Vec::new();
    for it in 0..1200 * k { v.extend(gen_cuc2(r, it % 2 == 0, (it / 2) % 4)); }
    for it in 0..160 * k { v.push(gen_seq2_cuc(r, it % 2 == 0, (it / 2) % 4, 20)); }
    for it in 0..600 * k { v.push(gen_pc2(r, it % 2 == 0)); }
    // the millimetre-sized cuboid tilting on a unit cuboid (`seq2t` kinds 0/1: the warm-start ANGLE clause inside the real
    // dispatcher), replayed as `seq2` kind 6 so that it also runs through the model
    for _ in 0..40 * k { for kind in 0..2 {
        let (_, args) = gen_seq2t(r, kind, 16);
        let t: Vec<&str> = args.split_whitespace().collect();
        let (hb, tiny) = (t[1..3].join(" "), t[3..5].join(" "));
        let (a, b) = if kind == 0 { (hb, tiny) } else { (tiny, hb) };
        v.push(("seq2".into(), format!("6 {} {} {}", a, b, t[9..].join(" "))));
    } }
    // cuboid/triangle, both orders: the millimetre-sized triangles of `seq2t` and general sizes, through the model
    for it in 0..40 * k { for kind in 2..4 {
        let (_, args) = gen_seq2t(r, kind, 16); v.push(("seq2m".into(), args));
        for j in 0..3 { v.push(gen_seq2m_tri(r, (it + j) % 2 == 0, kind, 16)); }
    } }
    v
}
