//! C11: TriMesh derived-data coherence.  Operation histories on the real `TriMesh` (3-D and 2-D).
//!
//! `hist3` / `hist2` args:  <mesh> <nops> <op>*      mesh = nv <coords> ni <idx> flags
//!     op = `sf <flags>` | `rev` | `app <mesh>` | `tv <n> <isometry components>` (3-D: qi qj qk qw tx ty tz; 2-D: re im tx ty)
//!        | `sc <n> <scale components>` (`mesh = mesh.scaled(&scale)`, any sign)
//! output: segments joined by ` ; `
//!     initial: `empty` | `panic` | <state>
//!     sf     : `panic` | (`ok` | `badtri f` | `badadj t1 t2 e0 e1`) <state>
//!     rev    : `panic` | <state>
//!     app    : `rhsfail` (rhs could not be built, op skipped) | `panic` | <state>
//!     sc     : `emptysc` (the mesh has no triangle left, op skipped) | `panic` | <state>
//! state = V nv coords I ni idx F flags A <root aabb mins maxs> Q <q> B <n> <leaf boxes> H <h> D <derived> L <lit> G <der>
//!     q = 1 iff the QBVH equals (node for node) the QBVH of the fresh builds; after a `sc` (which transforms the tree in place:
//!         a fresh build on non-uniformly scaled triangles may split differently) and until the next operation that rebuilds
//!         it (`tv`, `app`, a `sf` that changes the number of triangles) the tree is judged through `B` and `H` only and q = 1
//!     B   = for every triangle id (= proxy id) the box stored in its leaf slot (`x` if the proxy designates no leaf slot)
//!     h = 1 iff the tree is a bounding hierarchy of these leaves: every triangle is reached exactly once from the root, every
//!         leaf slot points back to its proxy, the box of every inner slot is the merge of the non-empty slots of its child,
//!         and `root_aabb` is the box of the root slot
//!     derived = T <topo> C <cc> P <pn>
//!     lit = `e` (indices empty) | `u` (a fresh with_flags on the current buffers+flags changes the buffers)
//!           | <derived> of that fresh mesh
//!     der = `e` | <derived> of a fresh with_flags on the current buffers with the non-mutating flags that ask
//!           for the same derived data
use crate::util::*;
use std::panic::{catch_unwind, AssertUnwindSafe};

pub const HET: u16 = 1;
pub const CC: u16 = 2;
pub const DEL_BAD: u16 = 4;
pub const ORIENTED: u16 = 8;
pub const MERGE: u16 = 16;
pub const DEL_DEGEN: u16 = 32;
pub const DEL_DUP: u16 = 64;
pub const FIX7: u16 = 128;

/// flags asking for the same derived data without touching the buffers
pub fn derive_flags(f: u16) -> u16 {
    let mut g = 0;
    if f & (HET | DEL_BAD) != 0 { g |= HET; }
    if f & CC != 0 { g |= CC; }
    if f & (ORIENTED | MERGE | FIX7) != 0 { g |= ORIENTED; }
    g
}

#[derive(Clone, Debug)]
pub struct RawMesh { pub v: Vec<Vec<f64>>, pub i: Vec<[u32; 3]>, pub f: u16 }
#[derive(Clone, Debug)]
pub enum RawOp { Sf(u16), Rev, App(RawMesh), Tv(Vec<f64>), Sc(Vec<f64>) }

pub fn read_mesh(a: &mut Args, d: usize) -> RawMesh {
    let nv = a.u();
    let v = (0..nv).map(|_| (0..d).map(|_| a.f()).collect()).collect();
    let ni = a.u();
    let i = (0..ni).map(|_| [a.u() as u32, a.u() as u32, a.u() as u32]).collect();
    let f = a.u() as u16;
    RawMesh { v, i, f }
}
pub fn read_ops(a: &mut Args, d: usize) -> Vec<RawOp> {
    let n = a.u();
    (0..n).map(|_| match a.tok() {
        "sf" => RawOp::Sf(a.u() as u16),
        "rev" => RawOp::Rev,
        "app" => RawOp::App(read_mesh(a, d)),
        "tv" => { let n = a.u(); RawOp::Tv((0..n).map(|_| a.f()).collect()) }
        "sc" => { let n = a.u(); RawOp::Sc((0..n).map(|_| a.f()).collect()) }
        t => panic!("bad op {}", t),
    }).collect()
}
pub fn show_mesh(m: &RawMesh) -> String {
    let mut s = format!("{}", m.v.len());
    for p in &m.v { s.push(' '); s.push_str(&hxs(p.iter())); }
    s.push_str(&format!(" {}", m.i.len()));
    for t in &m.i { s.push_str(&format!(" {} {} {}", t[0], t[1], t[2])); }
    s.push_str(&format!(" {}", m.f));
    s
}
pub fn show_case(m: &RawMesh, ops: &[RawOp]) -> String {
    let mut s = show_mesh(m);
    s.push_str(&format!(" {}", ops.len()));
    for o in ops {
        match o {
            RawOp::Sf(f) => s.push_str(&format!(" sf {}", f)),
            RawOp::Rev => s.push_str(" rev"),
            RawOp::App(r) => { s.push_str(" app "); s.push_str(&show_mesh(r)); }
            RawOp::Tv(xs) => { s.push_str(&format!(" tv {} {}", xs.len(), hxs(xs.iter()))); }
            RawOp::Sc(xs) => { s.push_str(&format!(" sc {} {}", xs.len(), hxs(xs.iter()))); }
        }
    }
    s
}

macro_rules! dim_impl {
    ($m:ident, $p:ident, $d:expr, $pn:expr, $iso:expr) => {
        pub mod $m {
            use super::*;
            use crate::$p::bounding_volume::Aabb;
            use crate::$p::math::{Isometry, Point, Real, Vector};
            use crate::$p::query::{self, PointQuery, Ray, RayCast};
            use crate::$p::shape::{Ball, TopologyError, TriMesh, TriMeshFlags};

            fn pts(m: &RawMesh) -> Vec<Point<Real>> {
                m.v.iter().map(|c| Point::from_slice(&c[..])).collect()
            }
            fn flags(f: u16) -> TriMeshFlags { TriMeshFlags::from_bits_truncate(f) }
            /// None = panic
            fn build(v: Vec<Point<Real>>, i: Vec<[u32; 3]>, f: u16) -> Option<Result<TriMesh, ()>> {
                catch_unwind(AssertUnwindSafe(|| TriMesh::with_flags(v, i, flags(f)).map_err(|_| ()))).ok()
            }
            fn derived(m: &TriMesh) -> String {
                let mut s = String::from("T");
                match m.topology() {
                    None => s.push_str(" -"),
                    Some(t) => {
                        s.push_str(&format!(" {}", t.vertices.len()));
                        for v in &t.vertices { s.push_str(&format!(" {}", v.half_edge)); }
                        s.push_str(&format!(" {}", t.faces.len()));
                        for v in &t.faces { s.push_str(&format!(" {}", v.half_edge)); }
                        s.push_str(&format!(" {}", t.half_edges.len()));
                        for h in &t.half_edges { s.push_str(&format!(" {} {} {} {}", h.next, h.twin, h.vertex, h.face)); }
                    }
                }
                s.push_str(" C");
                match m.connected_components() {
                    None => s.push_str(" -"),
                    Some(c) => {
                        s.push_str(&format!(" {}", c.face_colors.len()));
                        for v in &c.face_colors { s.push_str(&format!(" {}", v)); }
                        s.push_str(&format!(" {}", c.grouped_faces.len()));
                        for v in &c.grouped_faces { s.push_str(&format!(" {}", v)); }
                        s.push_str(&format!(" {}", c.ranges.len()));
                        for v in &c.ranges { s.push_str(&format!(" {}", v)); }
                    }
                }
                s.push_str(" P");
                let pn: Option<(Vec<Vec<f64>>, Vec<Vec<f64>>)> = ($pn)(m);
                match pn {
                    None => s.push_str(" -"),
                    Some((vn, en)) => {
                        s.push_str(&format!(" {}", vn.len()));
                        for v in &vn { s.push(' '); s.push_str(&ffs(v.iter())); }
                        s.push_str(&format!(" {}", en.len()));
                        for v in &en { s.push(' '); s.push_str(&ffs(v.iter())); }
                    }
                }
                s
            }
            fn qdump(m: &TriMesh) -> String {
                let d = format!("{:?} {:?} {:?}", m.qbvh().raw_nodes(), m.qbvh().raw_proxies(), m.qbvh().root_aabb());
                // `-0.0` and `0.0` are the same bound (a mirroring `scaled` turns 0.0 into -0.0, and `f64::min(-0.0, 0.0)` depends on
                // the argument order): print both as `0.0`
                let bytes = d.as_bytes();
                let mut o = String::with_capacity(d.len());
                let mut i = 0;
                while i < bytes.len() {
                    if bytes[i..].starts_with(b"-0.0") && !bytes.get(i + 4).map_or(false, |c| c.is_ascii_digit() || *c == b'e' || *c == b'E') {
                        o.push_str("0.0"); i += 4;
                    } else { o.push(bytes[i] as char); i += 1; }
                }
                o
            }
            fn fbox(b: &Aabb) -> String { format!("{} {}", ffs(b.mins.coords.iter()), ffs(b.maxs.coords.iter())) }
            fn beq(a: &Aabb, b: &Aabb) -> bool { a.mins == b.mins && a.maxs == b.maxs }
            /// leaf boxes by triangle id, and whether the tree is a bounding hierarchy of them (see the header)
            pub fn qsem(m: &TriMesh) -> (String, bool) {
                let nodes = m.qbvh().raw_nodes();
                let prox = m.qbvh().raw_proxies();
                let mut s = format!("{}", prox.len());
                let mut ok = prox.len() == m.indices().len();
                for (i, p) in prox.iter().enumerate() {
                    let (ni, l) = (p.node.index as usize, p.node.lane as usize);
                    if ni < nodes.len() && l < 4 && nodes[ni].is_leaf() && nodes[ni].children[l] as usize == i {
                        s.push(' '); s.push_str(&fbox(&nodes[ni].simd_aabb.extract(l)));
                    } else { s.push_str(" x"); ok = false; }
                }
                // walk from the root; `visit` returns the merge of the non-empty slots of a node
                fn visit(nodes: &[crate::$p::partitioning::QbvhNode], id: usize, seen_node: &mut Vec<bool>, seen_leaf: &mut Vec<u32>, ok: &mut bool) -> Option<Aabb> {
                    if id >= nodes.len() || seen_node[id] { *ok = false; return None; }
                    seen_node[id] = true;
                    let n = &nodes[id];
                    let mut acc: Option<Aabb> = None;
                    for l in 0..4 {
                        let c = n.children[l];
                        if c == u32::MAX { continue; }
                        let bx = n.simd_aabb.extract(l);
                        let sub = if n.is_leaf() {
                            if (c as usize) < seen_leaf.len() { seen_leaf[c as usize] += 1; } else { *ok = false; }
                            Some(bx)
                        } else {
                            if (c as usize) < nodes.len() && (nodes[c as usize].parent.index as usize != id || nodes[c as usize].parent.lane as usize != l) { *ok = false; }
                            let sub = visit(nodes, c as usize, seen_node, seen_leaf, ok);
                            if let Some(sb) = &sub { if !beq(sb, &bx) { *ok = false; } }
                            sub
                        };
                        if let Some(sb) = sub { acc = Some(match acc { None => sb, Some(a) => Aabb::new(a.mins.inf(&sb.mins), a.maxs.sup(&sb.maxs)) }); }
                    }
                    acc
                }
                if nodes.is_empty() { return (s, false); }
                let mut seen_node = vec![false; nodes.len()];
                let mut seen_leaf = vec![0u32; prox.len()];
                let r = visit(nodes, 0, &mut seen_node, &mut seen_leaf, &mut ok);
                if seen_leaf.iter().any(|&k| k != 1) { ok = false; }
                match r { Some(rb) => if !beq(&rb, m.qbvh().root_aabb()) { ok = false; }, None => if !prox.is_empty() { ok = false; } }
                (s, ok)
            }
            fn state(m: &TriMesh, loose: bool) -> String {
                let mut s = format!("V {}", m.vertices().len());
                for p in m.vertices() { s.push(' '); s.push_str(&ffs(p.coords.iter())); }
                s.push_str(&format!(" I {}", m.indices().len()));
                for t in m.indices() { s.push_str(&format!(" {} {} {}", t[0], t[1], t[2])); }
                let f = m.flags().bits();
                let bl = build(m.vertices().to_vec(), m.indices().to_vec(), f);
                let bg = build(m.vertices().to_vec(), m.indices().to_vec(), derive_flags(f));
                // QBVH: root box, and structural equality with the QBVH of the fresh builds
                let ab = m.local_aabb();
                let mut q = 1;
                if !loose {
                    if let Some(Ok(fr)) = &bg { if qdump(fr) != qdump(m) { q = 0; } }
                    if let Some(Ok(fr)) = &bl {
                        if fr.vertices() == m.vertices() && fr.indices() == m.indices() && qdump(fr) != qdump(m) { q = 0; }
                    }
                }
                let (lb, h) = qsem(m);
                s.push_str(&format!(" F {} A {} {} Q {} B {} H {} D {}", f, ffs(ab.mins.coords.iter()), ffs(ab.maxs.coords.iter()), q, lb, b(h), derived(m)));
                // literal fresh build
                s.push_str(" L ");
                match bl {
                    None => s.push_str("panic"),
                    Some(Err(())) => s.push_str("e"),
                    Some(Ok(fr)) => {
                        if fr.vertices() == m.vertices() && fr.indices() == m.indices() { s.push_str(&derived(&fr)); }
                        else { s.push_str("u"); }
                    }
                }
                s.push_str(" G ");
                match bg {
                    None => s.push_str("panic"),
                    Some(Err(())) => s.push_str("e"),
                    Some(Ok(fr)) => s.push_str(&derived(&fr)),
                }
                s
            }

            pub fn hist(a: &mut Args) -> String {
                let m0 = read_mesh(a, $d);
                let ops = read_ops(a, $d);
                let mut out: Vec<String> = vec![];
                let mut mesh = match build(pts(&m0), m0.i.clone(), m0.f) {
                    None => return "panic".into(),
                    Some(Err(())) => return "empty".into(),
                    Some(Ok(m)) => m,
                };
                let mut loose = false;
                out.push(state(&mesh, loose));
                for op in &ops {
                    match op {
                        RawOp::Sf(f) => {
                            let prev_len = mesh.indices().len();
                            let r = catch_unwind(AssertUnwindSafe(|| mesh.set_flags(flags(*f))));
                            match r {
                                Err(_) => { out.push("panic".into()); break; }
                                Ok(res) => {
                                    // `set_flags` rebuilds the QBVH from scratch exactly when the number of triangles changed
                                    if mesh.indices().len() != prev_len { loose = false; }
                                    let rs = match res {
                                        Ok(()) => "ok".to_string(),
                                        Err(TopologyError::BadTriangle(t)) => format!("badtri {}", t),
                                        Err(TopologyError::BadAdjacentTrianglesOrientation { triangle1, triangle2, edge }) =>
                                            format!("badadj {} {} {} {}", triangle1, triangle2, edge.0, edge.1),
                                    };
                                    out.push(format!("{} {}", rs, state(&mesh, loose)));
                                }
                            }
                        }
                        RawOp::Rev => {
                            let r = catch_unwind(AssertUnwindSafe(|| mesh.reverse()));
                            if r.is_err() { out.push("panic".into()); break; }
                            out.push(state(&mesh, loose));
                        }
                        RawOp::Sc(xs) => {
                            // a mesh that has lost all its triangles is outside the explored domain of `scaled` (see claims note)
                            if mesh.indices().is_empty() { out.push("emptysc".into()); continue; }
                            let sc = Vector::<Real>::from_column_slice(&xs[..]);
                            let r = catch_unwind(AssertUnwindSafe(|| mesh.clone().scaled(&sc)));
                            match r { Err(_) => { out.push("panic".into()); break; } Ok(m2) => mesh = m2 }
                            loose = true;
                            out.push(state(&mesh, loose));
                        }
                        RawOp::Tv(xs) => {
                            let iso = ($iso)(&xs[..]);
                            let r = catch_unwind(AssertUnwindSafe(|| mesh.transform_vertices(&iso)));
                            if r.is_err() { out.push("panic".into()); break; }
                            loose = false;
                            out.push(state(&mesh, loose));
                        }
                        RawOp::App(r) => {
                            let rhs = match build(pts(r), r.i.clone(), r.f) {
                                Some(Ok(m)) => m,
                                _ => { out.push("rhsfail".into()); continue; }
                            };
                            let r = catch_unwind(AssertUnwindSafe(|| mesh.append(&rhs)));
                            if r.is_err() { out.push("panic".into()); break; }
                            loose = false;
                            out.push(state(&mesh, loose));
                        }
                    }
                }
                out.join(" ; ")
            }

            // ---------------------------------------------------------- real queries on the final mesh of a history
            fn centroids(m: &TriMesh) -> Vec<Vec<f64>> {
                let vs = m.vertices();
                m.indices().iter().filter_map(|t| {
                    if t.iter().any(|&k| k as usize >= vs.len()) { return None; }
                    Some((0..$d).map(|k| (vs[t[0] as usize][k] + vs[t[1] as usize][k] + vs[t[2] as usize][k]) / 3.0).collect())
                }).collect()
            }
            fn pt(c: &[f64]) -> Point<Real> { Point::from_slice(&c[..$d]) }
            fn vc(c: &[f64]) -> Vector<Real> { Vector::from_column_slice(&c[..$d]) }
            fn guard<F: FnOnce() -> String>(tag: String, f: F) -> Result<String, String> {
                catch_unwind(AssertUnwindSafe(f)).map_err(|e| format!("panic {} {}", tag, pmsg(e)))
            }
            /// the final buffers: `Q d F flags V nv coords I ni idx`
            fn header(mesh: &TriMesh) -> String {
                let mut s = format!("Q {} F {} V {}", $d, mesh.flags().bits(), mesh.vertices().len());
                for p in mesh.vertices() { s.push(' '); s.push_str(&ffs(p.coords.iter())); }
                s.push_str(&format!(" I {}", mesh.indices().len()));
                for t in mesh.indices() { s.push_str(&format!(" {} {} {}", t[0], t[1], t[2])); }
                s
            }
            /// the queries; `Err` = `panic <tag> <msg>` of the first query that panicked
            fn queries(mesh: &TriMesh, targets: &[Vec<f64>]) -> Result<String, String> {
                let d: usize = $d;
                let vs = mesh.vertices();
                                // box of the vertices used by the triangles and first used vertex: only used to place the queries (the oracle
                // recomputes them from the printed buffers)
                let (mut lo, mut hi, mut w) = (vec![0.0f64; d], vec![0.0f64; d], vec![0.0f64; d]);
                let mut first = true;
                for t in mesh.indices() { for &k in t.iter() {
                    let p = &vs[k as usize];
                    for a in 0..d {
                        if first { lo[a] = p[a]; hi[a] = p[a]; w[a] = p[a]; } else { lo[a] = lo[a].min(p[a]); hi[a] = hi[a].max(p[a]); }
                    }
                    first = false;
                } }
                let mut s = header(mesh);
                let dirs: Vec<Vec<f64>> = [[0.0, 0.0, 1.0], [0.0, 1.0, 0.0], [1.0, 0.0, 0.0], [0.5, 1.0, 0.25], [-0.75, 0.25, 1.0], [0.25, -0.5, -1.0]]
                    .iter().map(|u| u[..d].to_vec()).filter(|u| u.iter().any(|x| *x != 0.0)).collect();
                let centre: Vec<f64> = (0..d).map(|a| 0.5 * (lo[a] + hi[a])).collect();
                // ---- rays: (origin, dir, max_toi, solid)
                let mut rays: Vec<(Vec<f64>, Vec<f64>, f64, bool)> = vec![];
                for (j, c) in targets.iter().take(16).enumerate() {
                    let u = &dirs[j % dirs.len()];
                    let sc = [1.0, 2.0, 0.5][j % 3];
                    rays.push(((0..d).map(|a| c[a] + 3.0 * u[a]).collect(), u.iter().map(|x| 0.0 - x * sc).collect(), 1000.0, j % 2 == 0));
                    if j < 8 { rays.push(((0..d).map(|a| c[a] - 3.0 * u[a]).collect(), u.iter().map(|x| x * sc).collect(), 1000.0, j % 2 == 1)); }
                }
                rays.push(((0..d).map(|a| lo[a] - 1.0).collect(), (0..d).map(|a| hi[a] - lo[a] + 2.0).collect(), 1000.0, true));
                rays.push((centre.clone(), (0..d).map(|a| if a == 0 { 1.0 } else { 0.0 }).collect(), 0.5, false));
                rays.push(((0..d).map(|a| hi[a] + 5.0).collect(), vec![1.0; d], 1000.0, true));
                for (j, (o, u, mx, solid)) in rays.iter().enumerate() {
                    let ray = Ray::new(pt(o), vc(u));
                    let r1 = guard(format!("ray{}", j), || match mesh.cast_local_ray(&ray, *mx, *solid) { None => "-".into(), Some(t) => ff(t) })?;
                    let r2 = guard(format!("rayn{}", j), || match mesh.cast_local_ray_and_get_normal(&ray, *mx, *solid) {
                        None => "- -".into(), Some(h) => format!("{} {}", ff(h.time_of_impact), ffs(h.normal.iter())) })?;
                    s.push_str(&format!(" r {} {} {} {} {} {}", hxs(o.iter()), hxs(u.iter()), hx(*mx), b(*solid), r1, r2));
                }
                // ---- point projections (solid = false)
                let mut qpts: Vec<Vec<f64>> = vec![(0..d).map(|a| hi[a] + 10.0).collect(),
                                                  (0..d).map(|a| centre[a] + 0.1 * (a as f64 + 1.0)).collect(), w.clone()];
                for c in targets.iter().take(8) { qpts.push(c.clone()); }
                for (j, p) in qpts.iter().enumerate() {
                    let r = guard(format!("proj{}", j), || { let pr = mesh.project_local_point(&pt(p), false);
                        format!("{} {}", ffs(pr.point.coords.iter()), b(pr.is_inside)) })?;
                    s.push_str(&format!(" p {} {}", hxs(p.iter()), r));
                }
                // ---- a small ball at a few positions
                let (rad, pred) = (0.25f64, 0.5f64);
                let ball = Ball::new(rad);
                let mut cs: Vec<Vec<f64>> = vec![(0..d).map(|a| hi[a] + 10.0).collect(), (0..d).map(|a| w[a] + if a == 0 { 0.25 } else { 0.0 }).collect()];
                for (j, c) in targets.iter().take(6).enumerate() {
                    let u = &dirs[j % dirs.len()];
                    let off = [0.0, 0.5, 0.3][j % 3];
                    cs.push((0..d).map(|a| c[a] + off * u[a]).collect());
                }
                let id = Isometry::<Real>::identity();
                for (j, c) in cs.iter().enumerate() {
                    let pos: Isometry<Real> = crate::$p::na::Translation::from(vc(c)).into();
                    let rd = guard(format!("ball{}.distance", j), || match query::distance(&id, mesh, &pos, &ball) { Ok(x) => ff(x), Err(_) => "u".into() })?;
                    let ri = guard(format!("ball{}.intersection_test", j), || match query::intersection_test(&id, mesh, &pos, &ball) { Ok(x) => b(x).into(), Err(_) => "u".into() })?;
                    let rc = guard(format!("ball{}.contact", j), || match query::contact(&id, mesh, &pos, &ball, pred) {
                        Err(_) => "u".into(), Ok(None) => "-".into(),
                        Ok(Some(k)) => format!("c {} {} {} {} {}", ff(k.dist), ffs(k.point1.coords.iter()), ffs(k.point2.coords.iter()),
                                               ffs(k.normal1.iter()), ffs(k.normal2.iter())) })?;
                    s.push_str(&format!(" b {} {} {} {} {} {}", hxs(c.iter()), hx(rad), hx(pred), rd, ri, rc));
                }
                Ok(s)
            }

            /// `histq3` / `histq2`: same arguments as `hist3` / `hist2`; replays the history (no state dump) and runs real
            /// queries on the final mesh.  Output: `histpanic` | `empty` | `emptyfinal …` | `panic <query> <msg> <header>` | <header> <results>.
            pub fn histq(a: &mut Args) -> String {
                let m0 = read_mesh(a, $d);
                let ops = read_ops(a, $d);
                let mut mesh = match build(pts(&m0), m0.i.clone(), m0.f) {
                    None => return "histpanic".into(),
                    Some(Err(())) => return "empty".into(),
                    Some(Ok(m)) => m,
                };
                // targets: centroids of the original mesh, of the mesh before the last operation, and of the final mesh
                let orig = centroids(&mesh);
                let mut prev = orig.clone();
                for op in &ops {
                    let before = centroids(&mesh);
                    let r = match op {
                        RawOp::Sf(f) => catch_unwind(AssertUnwindSafe(|| { let _ = mesh.set_flags(flags(*f)); })),
                        RawOp::Rev => catch_unwind(AssertUnwindSafe(|| mesh.reverse())),
                        RawOp::Sc(xs) => {
                            if mesh.indices().is_empty() { Ok(()) } else {
                                let sc = Vector::<Real>::from_column_slice(&xs[..]);
                                match catch_unwind(AssertUnwindSafe(|| mesh.clone().scaled(&sc))) { Ok(m2) => { mesh = m2; Ok(()) } Err(e) => Err(e) }
                            }
                        }
                        RawOp::Tv(xs) => { let iso = ($iso)(&xs[..]); catch_unwind(AssertUnwindSafe(|| mesh.transform_vertices(&iso))) }
                        RawOp::App(r) => match build(pts(r), r.i.clone(), r.f) {
                            Some(Ok(rhs)) => catch_unwind(AssertUnwindSafe(|| mesh.append(&rhs))),
                            _ => Ok(()),
                        },
                    };
                    if r.is_err() { return "histpanic".into(); }
                    prev = before;
                }
                let mut targets: Vec<Vec<f64>> = vec![];
                for c in prev.iter().chain(centroids(&mesh).iter()).chain(orig.iter()) {
                    if c.iter().all(|x| x.is_finite()) && !targets.contains(c) { targets.push(c.clone()); }
                }
                if mesh.indices().is_empty() {
                    // a history may delete every triangle (`with_flags` itself refuses an empty index buffer): outside the
                    // domain of the queries; what each of them does is recorded, not judged
                    let o = vec![0.0f64; $d];
                    let ray = Ray::new(pt(&o), vc(&vec![1.0f64; $d]));
                    let ball = Ball::new(0.25);
                    let id = Isometry::<Real>::identity();
                    let st = |r: Result<String, String>| match r { Ok(s) => s, Err(e) => format!("panicked:{}", e.split_whitespace().last().unwrap_or("?")) };
                    return format!("emptyfinal ray {} rayn {} proj {} distance {} intersection_test {} contact {}",
                        st(guard("".into(), || match mesh.cast_local_ray(&ray, 10.0, true) { None => "none".into(), Some(_) => "some".into() })),
                        st(guard("".into(), || match mesh.cast_local_ray_and_get_normal(&ray, 10.0, true) { None => "none".into(), Some(_) => "some".into() })),
                        st(guard("".into(), || { let _ = mesh.project_local_point(&pt(&o), false); "ok".into() })),
                        st(guard("".into(), || match query::distance(&id, &mesh, &id, &ball) { Ok(x) => ff(x), Err(_) => "u".into() })),
                        st(guard("".into(), || match query::intersection_test(&id, &mesh, &id, &ball) { Ok(x) => b(x).into(), Err(_) => "u".into() })),
                        st(guard("".into(), || match query::contact(&id, &mesh, &id, &ball, 0.5) { Ok(None) => "none".into(), Ok(Some(_)) => "some".into(), Err(_) => "u".into() })));
                }
                match queries(&mesh, &targets) { Ok(s) => s, Err(e) => format!("{} {}", e, header(&mesh)) }
            }

            /// apply a history without dumping; None = build failure / panic
            pub fn run_ops(m0: &RawMesh, ops: &[RawOp]) -> Option<TriMesh> {
                let mut mesh = match build(pts(m0), m0.i.clone(), m0.f) { Some(Ok(m)) => m, _ => return None };
                for op in ops {
                    let r = catch_unwind(AssertUnwindSafe(|| {
                        let mut mesh = mesh.clone();
                        match op {
                            RawOp::Sf(f) => { let _ = mesh.set_flags(flags(*f)); }
                            RawOp::Rev => mesh.reverse(),
                            RawOp::Tv(xs) => { let iso = ($iso)(&xs[..]); mesh.transform_vertices(&iso); }
                            RawOp::Sc(xs) => { if !mesh.indices().is_empty() { mesh = mesh.scaled(&Vector::<Real>::from_column_slice(&xs[..])); } }
                            RawOp::App(r) => { if let Some(Ok(rhs)) = build(pts(r), r.i.clone(), r.f) { mesh.append(&rhs); } }
                        }
                        mesh
                    }));
                    match r { Ok(m) => mesh = m, Err(_) => return None }
                }
                Some(mesh)
            }

            /// `bvhq`: <mesh> <nops> <op>* <npts> <pts>  ->  `V nv coords I ni idx R <distance of every point to its projection>` | `nobuild`
            /// (`project_local_point(p, solid)`, a best-first traversal of the QBVH; solid = true in 2-D, false in 3-D)
            pub fn bvhq(a: &mut Args) -> String {
                use crate::$p::query::PointQuery;
                let m0 = read_mesh(a, $d);
                let ops = read_ops(a, $d);
                let npts = a.u();
                let qs: Vec<Point<Real>> = (0..npts).map(|_| { let c: Vec<f64> = (0..$d).map(|_| a.f()).collect(); Point::from_slice(&c[..]) }).collect();
                let mesh = match run_ops(&m0, &ops) { Some(m) => m, None => return "nobuild".into() };
                let mut s = format!("V {}", mesh.vertices().len());
                for p in mesh.vertices() { s.push(' '); s.push_str(&ffs(p.coords.iter())); }
                s.push_str(&format!(" I {}", mesh.indices().len()));
                for t in mesh.indices() { s.push_str(&format!(" {} {} {}", t[0], t[1], t[2])); }
                s.push_str(" R");
                for p in &qs {
                    let pr = mesh.project_local_point(p, $d == 2);
                    s.push(' '); s.push_str(&ff((p - pr.point).norm()));
                }
                s
            }

            /// `boxscale`: a b c scale -> `Triangle(a,b,c).local_aabb().scaled(scale)` then `Triangle(a∘s, b∘s, c∘s).local_aabb()`
            pub fn boxscale(a: &mut Args) -> String {
                use crate::$p::shape::Triangle;
                let mut rd = || { let c: Vec<f64> = (0..$d).map(|_| a.f()).collect(); Point::<Real>::from_slice(&c[..]) };
                let (pa, pb, pc, sc) = (rd(), rd(), rd(), rd().coords);
                let b1 = Triangle::new(pa, pb, pc).local_aabb().scaled(&sc);
                let sp = |p: &Point<Real>| Point::from(p.coords.component_mul(&sc));
                let b2 = Triangle::new(sp(&pa), sp(&pb), sp(&pc)).local_aabb();
                format!("{} {}", fbox(&b1), fbox(&b2))
            }
        }
    };
}

fn pmsg(e: Box<dyn std::any::Any + Send>) -> String {
    let msg = if let Some(s) = e.downcast_ref::<&str>() { s.to_string() }
        else if let Some(s) = e.downcast_ref::<String>() { s.clone() } else { "?".into() };
    msg.chars().map(|c| if c.is_whitespace() || c == '|' || c == ';' { '_' } else { c }).take(100).collect()
}

dim_impl!(h3, p3, 3, |m: &TriMesh| m.pseudo_normals().map(|pn| (
    pn.vertices_pseudo_normal.iter().map(|v| v.iter().cloned().collect::<Vec<f64>>()).collect::<Vec<_>>(),
    pn.edges_pseudo_normal.iter().map(|e| e.iter().flat_map(|v| v.iter().cloned()).collect::<Vec<f64>>()).collect::<Vec<_>>())),
    |xs: &[f64]| { use crate::p3::na; crate::p3::math::Isometry::<f64>::from_parts(na::Translation3::new(xs[4], xs[5], xs[6]),
        na::Unit::new_unchecked(na::Quaternion::new(xs[3], xs[0], xs[1], xs[2]))) });
dim_impl!(h2, p2, 2, |_m: &TriMesh| None,
    |xs: &[f64]| { use crate::p2::na; crate::p2::math::Isometry::<f64>::from_parts(na::Translation2::new(xs[2], xs[3]),
        na::Unit::new_unchecked(na::Complex::new(xs[0], xs[1]))) });

/// `contains3`: <mesh> <nops> <op>* <npts> <pts>  ->  one bit per point (`contains_local_point`), or `nobuild`
fn contains3(a: &mut Args) -> String {
    use crate::p3::math::Point;
    use crate::p3::query::PointQuery;
    let m0 = read_mesh(a, 3);
    let ops = read_ops(a, 3);
    let npts = a.u();
    let pts: Vec<Point<f64>> = (0..npts).map(|_| Point::new(a.f(), a.f(), a.f())).collect();
    let mesh = match h3::run_ops(&m0, &ops) { Some(m) => m, None => return "nobuild".into() };
    pts.iter().map(|p| if mesh.contains_local_point(p) { "1" } else { "0" }).collect::<Vec<_>>().join(" ")
}

/// `scaled3` (oracle only, see claims note): <mesh> sx sy sz -> pseudo-normals of `mesh.scaled(s)` and of a fresh build on its buffers
fn scaled3(a: &mut Args) -> String {
    use crate::p3::math::{Point, Vector};
    use crate::p3::shape::{TriMesh, TriMeshFlags};
    let m0 = read_mesh(a, 3);
    let sc = Vector::new(a.f(), a.f(), a.f());
    let mesh = match TriMesh::with_flags(m0.v.iter().map(|c| Point::new(c[0], c[1], c[2])).collect(), m0.i.clone(), TriMeshFlags::from_bits_truncate(m0.f)) {
        Ok(m) => m, Err(_) => return "nobuild".into() };
    let sm = mesh.scaled(&sc);
    let fr = TriMesh::with_flags(sm.vertices().to_vec(), sm.indices().to_vec(), sm.flags()).unwrap();
    let dump = |m: &TriMesh| match m.pseudo_normals() {
        None => "-".to_string(),
        Some(pn) => { let mut s = format!("{}", pn.vertices_pseudo_normal.len());
            for v in &pn.vertices_pseudo_normal { s.push(' '); s.push_str(&ffs(v.iter())); }
            s.push_str(&format!(" {}", pn.edges_pseudo_normal.len()));
            for e in &pn.edges_pseudo_normal { for v in e.iter() { s.push(' '); s.push_str(&ffs(v.iter())); } }
            s }
    };
    let aabb_eq = sm.local_aabb().mins == fr.local_aabb().mins && sm.local_aabb().maxs == fr.local_aabb().maxs;
    format!("A {} S {} F {}", b(aabb_eq), dump(&sm), dump(&fr))
}

/// `pnsign3`: <mesh> <nops> <op>* <n> { (`v` vid 0 | `e` tri slot) px py pz fx fy fz }*
/// For every item: `is_inside` of the real `project_local_point_and_get_location(p, true)` (the pseudo-normal sign test of
/// point_composite_shape.rs) and, for a vertex feature, the dot product `(p - vertices[vid]) . vertices_pseudo_normal[vid]`
/// the test evaluates when the closest point is that vertex (`-` for an edge feature).  `f` (the point of the feature closest
/// to `p`, as constructed by the generator) is only read by the model (edge items) and the oracle.
fn pnsign3(a: &mut Args) -> String {
    use crate::p3::math::Point;
    use crate::p3::query::PointQueryWithLocation;
    let m0 = read_mesh(a, 3);
    let ops = read_ops(a, 3);
    let n = a.u();
    let items: Vec<(bool, usize, usize, Point<f64>)> = (0..n).map(|_| {
        let isv = a.tok() == "v"; let i0 = a.u() as usize; let i1 = a.u() as usize;
        let p = Point::new(a.f(), a.f(), a.f()); let _f = (a.f(), a.f(), a.f());
        (isv, i0, i1, p) }).collect();
    let mesh = match h3::run_ops(&m0, &ops) { Some(m) => m, None => return "nobuild".into() };
    items.iter().map(|(isv, i0, i1, p)| {
        let pn = match mesh.pseudo_normals() { Some(pn) => pn, None => return "nopn".to_string() };
        let r = catch_unwind(AssertUnwindSafe(|| mesh.project_local_point_and_get_location(p, true).0.is_inside));
        let ins = match r { Ok(x) => b(x).to_string(), Err(_) => "panic".to_string() };
        if *isv {
            if *i0 >= mesh.vertices().len() || *i0 >= pn.vertices_pseudo_normal.len() { return "bad".to_string(); }
            let d = p - mesh.vertices()[*i0];
            format!("{} {}", ins, ff(d.dot(&pn.vertices_pseudo_normal[*i0])))
        } else {
            if *i0 >= pn.edges_pseudo_normal.len() || *i1 > 2 { return "bad".to_string(); }
            format!("{} -", ins)
        }
    }).collect::<Vec<_>>().join(" ")
}

/// `tnc3`: <mesh> <nops> <op>*  ->  `V nv coords I ni idx F flags N { - | panic | face e0 e1 e2 }*ni` | `nobuild`:
/// `TriMesh::triangle_normal_constraints(i)` (the FIX_INTERNAL_EDGES data handed to the contact-manifold code) for every
/// triangle of the final mesh of the history, with the buffers and flags the answer has to be judged against
fn tnc3(a: &mut Args) -> String {
    let m0 = read_mesh(a, 3);
    let ops = read_ops(a, 3);
    let mesh = match h3::run_ops(&m0, &ops) { Some(m) => m, None => return "nobuild".into() };
    let mut s = format!("V {}", mesh.vertices().len());
    for p in mesh.vertices() { s.push(' '); s.push_str(&ffs(p.coords.iter())); }
    s.push_str(&format!(" I {}", mesh.indices().len()));
    for t in mesh.indices() { s.push_str(&format!(" {} {} {}", t[0], t[1], t[2])); }
    s.push_str(&format!(" F {} N", mesh.flags().bits()));
    for i in 0..mesh.indices().len() as u32 {
        match catch_unwind(AssertUnwindSafe(|| mesh.triangle_normal_constraints(i))) {
            Err(_) => s.push_str(" panic"),
            Ok(None) => s.push_str(" -"),
            Ok(Some(c)) => { s.push(' '); s.push_str(&ffs(c.face.iter())); for e in c.edges.iter() { s.push(' '); s.push_str(&ffs(e.iter())); } }
        }
    }
    s
}

pub fn exec(func: &str, a: &mut Args) -> String {
    match func {
        "hist3" | "hist3w" | "hist3s" => h3::hist(a),
        "hist2" | "hist2w" | "hist2s" => h2::hist(a),
        "histq3" => h3::histq(a),
        "histq2" => h2::histq(a),
        "contains3" => contains3(a),
        "pnsign3" => pnsign3(a),
        "tnc3" => tnc3(a),
        "bvhq3" => h3::bvhq(a),
        "bvhq2" => h2::bvhq(a),
        "boxscale3" => h3::boxscale(a),
        "boxscale2" => h2::boxscale(a),
        "scaled3" => scaled3(a),
        _ => "nofn".into(),
    }
}

// ------------------------------------------------------------------ generators

fn coord(r: &mut Rng, mode: u64) -> f64 {
    // never -0.0 / NaN: the vertex HashMap hashes the bytes of the coordinates (see claims note)
    match mode {
        0 => r.range(0, 2) as f64,
        1 => (r.range(-8, 8) as f64) * 0.25 + 0.125 * (r.range(0, 3) as f64),
        _ => { let x = r.uniform(-10.0, 10.0); if x == 0.0 { 1.0 } else { x } }
    }
}
fn gen_flags(r: &mut Rng) -> u16 {
    match r.below(10) {
        0 => 0,
        1 => 255,
        2 => *r.pick(&[HET, CC, DEL_BAD, ORIENTED, MERGE, DEL_DEGEN, DEL_DUP, FIX7 | MERGE]),
        3 => *r.pick(&[HET | CC, HET | ORIENTED, CC | ORIENTED, HET | CC | ORIENTED, MERGE | DEL_DEGEN, MERGE | DEL_DEGEN | DEL_DUP,
                       HET | DEL_BAD, CC | DEL_BAD, HET | MERGE, CC | MERGE | DEL_DEGEN]),
        _ => { let mut f = 0; for k in 0..8 { if r.below(100) < 35 { f |= 1 << k; } } f }
    }
}
fn tetra(d: usize, off: f64) -> RawMesh {
    // outward-oriented tetrahedron (3-D) / two triangles of a square (2-D)
    if d == 3 {
        let v = vec![vec![off, 0.0, 0.0], vec![off + 1.0, 0.0, 0.0], vec![off, 1.0, 0.0], vec![off, 0.0, 1.0]];
        RawMesh { v, i: vec![[0, 2, 1], [0, 1, 3], [1, 2, 3], [0, 3, 2]], f: 0 }
    } else {
        let v = vec![vec![off, 0.0], vec![off + 1.0, 0.0], vec![off + 1.0, 1.0], vec![off, 1.0]];
        RawMesh { v, i: vec![[0, 1, 2], [0, 2, 3]], f: 0 }
    }
}
fn cube() -> RawMesh {
    let mut v = vec![];
    for x in 0..2 { for y in 0..2 { for z in 0..2 { v.push(vec![x as f64, y as f64, z as f64]); } } }
    // vertex id = 4x+2y+z ; outward orientation
    let i = vec![[0, 1, 3], [0, 3, 2], [4, 6, 7], [4, 7, 5], [0, 4, 5], [0, 5, 1], [2, 3, 7], [2, 7, 6], [0, 2, 6], [0, 6, 4], [1, 5, 7], [1, 7, 3]];
    RawMesh { v, i, f: 0 }
}
/// unshare the vertices: every triangle gets its own copies (a "soup" that needs merging)
fn soupify(m: &RawMesh) -> RawMesh {
    let mut v = vec![]; let mut i = vec![];
    for t in &m.i {
        let b = v.len() as u32;
        for k in 0..3 { v.push(m.v[t[k] as usize].clone()); }
        i.push([b, b + 1, b + 2]);
    }
    RawMesh { v, i, f: m.f }
}
fn gen_mesh(r: &mut Rng, d: usize, small: bool) -> RawMesh {
    let kind = r.below(10);
    let mut m = match kind {
        0 => tetra(d, 0.0),
        1 => { // two components
            let mut a = tetra(d, 0.0); let b = tetra(d, 3.0); let base = a.v.len() as u32;
            a.v.extend(b.v); a.i.extend(b.i.iter().map(|t| [t[0] + base, t[1] + base, t[2] + base])); a }
        2 if d == 3 && !small => cube(),
        3 => soupify(&tetra(d, 0.0)),
        4 => { // fan: three triangles around the edge (0,1): non-manifold
            let z = |x: f64, y: f64, zz: f64| if d == 3 { vec![x, y, zz] } else { vec![x, y] };
            RawMesh { v: vec![z(0.0, 0.0, 0.0), z(1.0, 0.0, 0.0), z(0.0, 1.0, 0.0), z(0.0, -1.0, 1.0), z(1.0, 1.0, -1.0)],
                      i: vec![[0, 1, 2], [1, 0, 3], [0, 1, 4]], f: 0 } }
        _ => { // random soup over a small lattice (duplicate coordinates are frequent)
            let mode = r.below(4).min(2);
            let nv = r.range(3, if small { 5 } else { 8 }) as usize;
            let mut v: Vec<Vec<f64>> = (0..nv).map(|_| (0..d).map(|_| coord(r, mode)).collect()).collect();
            if mode == 2 { // random coordinates never coincide by chance: copy some
                for _ in 0..r.below(3) { let a = r.below(nv as u64) as usize; let b2 = r.below(nv as u64) as usize; v[a] = v[b2].clone(); }
            }
            let ni = r.range(1, if small { 4 } else { 9 }) as usize;
            let i = (0..ni).map(|_| [r.below(nv as u64) as u32, r.below(nv as u64) as u32, r.below(nv as u64) as u32]).collect();
            RawMesh { v, i, f: 0 } }
    };
    // sometimes move the mesh to generic (non-lattice) coordinates: x -> s * x + t per axis (keeps duplicates duplicated)
    if r.below(3) == 0 {
        let sc: Vec<f64> = (0..d).map(|_| r.uniform(0.3, 3.0)).collect();
        let tr: Vec<f64> = (0..d).map(|_| r.uniform(-5.0, 5.0)).collect();
        for p in m.v.iter_mut() { for k in 0..d { let x = p[k] * sc[k] + tr[k]; p[k] = if x == 0.0 { 0.0 } else { x }; } }
    }
    // perturbations: duplicate vertex, duplicate / permuted / reversed / degenerate triangle
    let np = r.below(4);
    for _ in 0..np {
        match r.below(6) {
            0 => { let k = r.below(m.v.len() as u64) as usize; let c = m.v[k].clone(); m.v.push(c);
                   // re-point one corner to the copy
                   let t = r.below(m.i.len() as u64) as usize; let c2 = r.below(3) as usize;
                   if m.i[t][c2] as usize == k { m.i[t][c2] = (m.v.len() - 1) as u32; } }
            1 => { let t = m.i[r.below(m.i.len() as u64) as usize]; let p = r.below(m.i.len() as u64 + 1) as usize; m.i.insert(p, t); }
            2 => { let t = m.i[r.below(m.i.len() as u64) as usize]; let p = r.below(m.i.len() as u64 + 1) as usize; m.i.insert(p, [t[1], t[2], t[0]]); }
            3 => { let t = m.i[r.below(m.i.len() as u64) as usize]; let p = r.below(m.i.len() as u64 + 1) as usize; m.i.insert(p, [t[1], t[0], t[2]]); }
            4 => { let a = r.below(m.v.len() as u64) as u32; let b2 = r.below(m.v.len() as u64) as u32;
                   let p = r.below(m.i.len() as u64 + 1) as usize; m.i.insert(p, [a, a, b2]); }
            _ => { let k = r.below(m.i.len() as u64) as usize; if m.i.len() > 1 { m.i.remove(k); } }
        }
    }
    if r.below(150) == 0 { let t = r.below(m.i.len() as u64) as usize; m.i[t][r.below(3) as usize] = m.v.len() as u32 + r.below(2) as u32; }
    if r.below(300) == 0 { m.i.clear(); }
    m.f = gen_flags(r);
    m
}

/// a scale vector: any sign (mirroring scales are the point), non-uniform or uniform, lattice or random magnitudes
fn gen_scale(r: &mut Rng, d: usize) -> Vec<f64> {
    let lat = r.bool();
    let mag = |r: &mut Rng| if lat { *r.pick(&[0.25, 0.5, 1.0, 1.0, 2.0, 3.0]) } else { r.logu(0.1, 10.0) };
    let mut s: Vec<f64> = if r.below(5) == 0 { let m = mag(r); vec![m; d] } else { (0..d).map(|_| mag(r)).collect() };
    match r.below(4) {
        0 => {}                                                             // all positive
        1 => { let k = r.below(d as u64) as usize; s[k] = -s[k]; }          // one mirrored axis
        2 => { for x in s.iter_mut() { *x = -*x; } }                        // all negative
        _ => { for x in s.iter_mut() { if r.bool() { *x = -*x; } } }
    }
    s
}
fn gen_tv(r: &mut Rng, d: usize) -> RawOp {
    let lat = r.bool();
    if d == 3 { let q = d3::gen_quat(r, lat); let t: Vec<f64> = (0..3).map(|_| r.coord(lat, 5.0)).collect();
                RawOp::Tv(vec![q[0], q[1], q[2], q[3], t[0], t[1], t[2]]) }
    else { let (re, im) = d2::gen_rot(r, lat); RawOp::Tv(vec![re, im, r.coord(lat, 5.0), r.coord(lat, 5.0)]) }
}
/// histories built around `scaled`: a mesh that is not symmetric about the origin, a scale (half of them mirroring), and the
/// operations that keep / reuse the transformed tree before and after it
fn gen_scaled_hist(r: &mut Rng, d: usize) -> (RawMesh, Vec<RawOp>) {
    let mut m = gen_mesh(r, d, false);
    // move it off the origin (translation per axis, never symmetric): x -> x + t, t in ±[1, 6] (lattice) — keeps duplicates
    if r.below(4) != 0 {
        let tr: Vec<f64> = (0..d).map(|_| { let t = r.range(2, 12) as f64 * 0.5; if r.bool() { t } else { -t } }).collect();
        for p in m.v.iter_mut() { for k in 0..d { let x = p[k] + tr[k]; p[k] = if x == 0.0 { 0.0 } else { x }; } }
    }
    let mut ops = vec![];
    let pre = r.below(3);
    for _ in 0..pre { ops.push(match r.below(4) { 0 => RawOp::Sf(gen_flags(r)), 1 => RawOp::Rev, 2 => gen_tv(r, d), _ => RawOp::Sf(m.f) }); }
    ops.push(RawOp::Sc(gen_scale(r, d)));
    let post = r.below(4);
    for _ in 0..post {
        ops.push(match r.below(8) {
            0..=2 => RawOp::Sf(gen_flags(r)),
            3 => RawOp::Rev,
            4 => RawOp::Sc(gen_scale(r, d)),
            5 => RawOp::App(gen_mesh(r, d, true)),
            6 => gen_tv(r, d),
            _ => RawOp::Sf(m.f),
        });
    }
    (m, ops)
}

fn gen_ops(r: &mut Rng, d: usize, maxlen: u64) -> Vec<RawOp> {
    let n = r.below(maxlen + 1);
    (0..n).map(|_| match r.below(14) {
        0..=5 => RawOp::Sf(gen_flags(r)),
        6..=7 => RawOp::Rev,
        8..=9 => RawOp::App(gen_mesh(r, d, true)),
        12..=13 => RawOp::Sc(gen_scale(r, d)),
        _ => { let lat = r.bool();
               if d == 3 { let q = d3::gen_quat(r, lat); let t: Vec<f64> = (0..3).map(|_| r.coord(lat, 5.0)).collect();
                           RawOp::Tv(vec![q[0], q[1], q[2], q[3], t[0], t[1], t[2]]) }
               else { let (re, im) = d2::gen_rot(r, lat); RawOp::Tv(vec![re, im, r.coord(lat, 5.0), r.coord(lat, 5.0)]) } }
    }).collect()
}

/// closed, outward-oriented meshes with integer vertices
fn closed_mesh(r: &mut Rng) -> RawMesh {
    let mut m = match r.below(4) {
        0 => tetra(3, 0.0),
        1 => cube(),
        2 => { // octahedron
            let v = vec![vec![1.0, 0.0, 0.0], vec![-1.0, 0.0, 0.0], vec![0.0, 1.0, 0.0], vec![0.0, -1.0, 0.0], vec![0.0, 0.0, 1.0], vec![0.0, 0.0, -1.0]];
            RawMesh { v, i: vec![[0, 2, 4], [2, 1, 4], [1, 3, 4], [3, 0, 4], [2, 0, 5], [1, 2, 5], [3, 1, 5], [0, 3, 5]], f: 0 } }
        _ => { // cube [0,2]^3 whose top face is dented down to its centre (1,1,1): non-convex
            let mut c = cube();
            for p in c.v.iter_mut() { for x in p.iter_mut() { *x *= 2.0; } }
            // remove the two top triangles (z = 2): vertices 1,3,5,7
            c.i.retain(|t| !t.iter().all(|&k| k % 2 == 1));
            c.v.push(vec![1.0, 1.0, 1.0]);
            // top ring, counter-clockwise seen from above: (0,0,2)=1, (2,0,2)=5, (2,2,2)=7, (0,2,2)=3
            for (a2, b2) in [(1u32, 5u32), (5, 7), (7, 3), (3, 1)] { c.i.push([a2, b2, 8]); }
            c }
    };
    // integer scale / translation keeps everything exact
    let sc = r.range(1, 3) as f64; let tr: Vec<f64> = (0..3).map(|_| r.range(-3, 3) as f64).collect();
    for p in m.v.iter_mut() { for k in 0..3 { p[k] = p[k] * sc + tr[k]; } }
    if r.below(3) == 0 { m = soupify(&m); m.f = MERGE; }
    m.f |= ORIENTED;
    if r.bool() { m.f |= *r.pick(&[HET, CC, HET | CC, DEL_DEGEN | MERGE, DEL_DUP | MERGE, FIX7 | MERGE, DEL_BAD]); }
    m
}
fn gen_contains(r: &mut Rng) -> String {
    use crate::p3::math::Point;
    use crate::p3::query::PointQuery;
    use crate::p3::shape::{TriMesh, TriMeshFlags};
    let m = closed_mesh(r);
    // orientation-preserving histories only
    let mut ops = vec![];
    for _ in 0..r.below(3) {
        match r.below(3) {
            0 => { ops.push(RawOp::Rev); ops.push(RawOp::Rev); }
            1 => ops.push(RawOp::Sf(m.f | *r.pick(&[HET, CC, MERGE, DEL_DEGEN | MERGE, DEL_BAD, FIX7 | MERGE]))),
            _ => ops.push(RawOp::Sf(ORIENTED | (m.f & MERGE))),
        }
    }
    // one time in two a `scaled`, uniform or not, with ANY of the 8 sign patterns: every mesh here is ORIENTED, so `scaled`
    // flips the winding back under a mirroring scale (odd number of negative factors) and the scaled mesh must again be a
    // closed outward-oriented mesh whose inside test agrees with the crossing parity; sometimes two scales in a row
    // (mirror twice = orientation preserved through two reversals)
    if r.bool() {
        for _ in 0..(if r.below(4) == 0 { 2 } else { 1 }) {
            let lat = r.bool();
            let mut sc: Vec<f64> = (0..3).map(|_| if lat { *r.pick(&[0.5, 1.0, 2.0, 3.0]) } else { r.uniform(0.3, 3.0) }).collect();
            if r.below(4) == 0 { let k = sc[0]; sc = vec![k; 3]; }
            let signs = r.below(8);
            for k in 0..3 { if (signs >> k) & 1 == 1 { sc[k] = -sc[k]; } }
            let pos = r.below(ops.len() as u64 + 1) as usize;
            ops.insert(pos, RawOp::Sc(sc));
        }
    }
    // the final buffers (real code) only serve to place the query points away from the surface
    let fm = h3::run_ops(&m, &ops).expect("closed mesh history");
    let (mut lo, mut hi) = (vec![f64::MAX; 3], vec![f64::MIN; 3]);
    for p in fm.vertices() { for k in 0..3 { lo[k] = lo[k].min(p[k]); hi[k] = hi[k].max(p[k]); } }
    let refm = TriMesh::with_flags(fm.vertices().to_vec(), fm.indices().to_vec(), TriMeshFlags::empty()).unwrap();
    let mut pts = vec![];
    while pts.len() < 6 {
        let margin = if r.bool() { 0.0 } else { 1.0 };
        let lat = r.bool();
        let p: Vec<f64> = (0..3).map(|k| if lat { (r.range(((lo[k] - margin) * 8.0) as i64, ((hi[k] + margin) * 8.0) as i64) as f64) / 8.0 + 0.0625 }
                                          else { r.uniform(lo[k] - margin, hi[k] + margin) }).collect();
        let d = refm.distance_to_local_point(&Point::new(p[0], p[1], p[2]), false);
        if d >= 1.0e-3 { pts.push(p); }
    }
    let mut s = show_case(&m, &ops);
    s.push_str(&format!(" {}", pts.len()));
    for p in &pts { s.push(' '); s.push_str(&hxs(p.iter())); }
    s
}

/// closed convex pyramids over irregular lattice polygons: thin spikes (high apex), flat caps (low apex), oblique apices.
/// Around the apex of a spike the faces are seen from different sides by points of the normal cone: the region the
/// same-side theorem (`vertex_sign_partial`) does not cover.
fn spike_mesh(r: &mut Rng) -> RawMesh {
    let polys: [&[(f64, f64)]; 5] = [
        &[(0.0, 0.0), (4.0, 0.0), (0.0, 1.0)],
        &[(0.0, 0.0), (6.0, 0.0), (6.0, 1.0), (0.0, 1.0)],
        &[(0.0, 0.0), (4.0, 0.0), (6.0, 2.0), (3.0, 4.0), (-1.0, 2.0)],
        &[(1.0, 0.0), (3.0, 0.0), (4.0, 2.0), (3.0, 4.0), (1.0, 4.0), (0.0, 2.0)],
        &[(0.0, 0.0), (2.0, 0.0), (3.0, 1.0), (3.0, 2.0), (2.0, 3.0), (0.0, 3.0), (-1.0, 2.0), (-1.0, 1.0)],
    ];
    let poly = polys[r.below(5) as usize];
    let k = poly.len();
    let (mut cx, mut cy) = (0.0, 0.0);
    for p in poly { cx += p.0; cy += p.1; }
    // apex above the (rounded) centroid, or shifted sideways (oblique, possibly outside the footprint: still convex)
    let ax = (cx / k as f64 * 2.0).round() / 2.0 + if r.below(3) == 0 { r.range(-3, 3) as f64 } else { 0.0 };
    let ay = (cy / k as f64 * 2.0).round() / 2.0 + if r.below(3) == 0 { r.range(-3, 3) as f64 } else { 0.0 };
    let h = *r.pick(&[0.25, 1.0, 4.0, 16.0, 64.0]);
    let mut v: Vec<Vec<f64>> = poly.iter().map(|p| vec![p.0, p.1, 0.0]).collect();
    v.push(vec![ax, ay, h]);
    let mut i = vec![];
    for j in 1..k - 1 { i.push([0u32, (j + 1) as u32, j as u32]); }                       // base, facing -z
    for j in 0..k { i.push([j as u32, ((j + 1) % k) as u32, k as u32]); }                   // sides
    let tr: Vec<f64> = (0..3).map(|_| r.range(-3, 3) as f64).collect();
    for p in v.iter_mut() { for c in 0..3 { p[c] += tr[c]; } }
    let mut m = RawMesh { v, i, f: 0 };
    if r.below(3) == 0 { m = soupify(&m); m.f = MERGE; }
    m.f |= ORIENTED;
    if r.bool() { m.f |= *r.pick(&[HET, CC, HET | CC, DEL_DEGEN | MERGE, DEL_DUP | MERGE, FIX7 | MERGE, DEL_BAD]); }
    m
}

/// `pnsign3` cases: a closed outward-oriented mesh (spikes two times out of three), an orientation-preserving history, and
/// points `f + s * d` where `f` is a vertex (or a point of an edge) of the final mesh and `d` a non-negative combination of
/// the normals of the faces around it (the normal cone when the feature is convex); for the non-convex mesh also `-d`.
fn gen_pnsign(r: &mut Rng) -> String {
    let m = if r.below(3) == 0 { closed_mesh(r) } else { spike_mesh(r) };
    let mut ops = vec![];
    for _ in 0..r.below(3) {
        match r.below(3) {
            0 => { ops.push(RawOp::Rev); ops.push(RawOp::Rev); }
            1 => ops.push(RawOp::Sf(m.f | *r.pick(&[HET, CC, MERGE, DEL_DEGEN | MERGE, DEL_BAD, FIX7 | MERGE]))),
            _ => ops.push(RawOp::Sf(ORIENTED | (m.f & MERGE))),
        }
    }
    use crate::p3::math::Point;
    use crate::p3::query::PointQuery;
    use crate::p3::shape::{TriMesh, TriMeshFlags};
    let fm = h3::run_ops(&m, &ops).expect("closed mesh history");
    // flagless copy of the final buffers: only its distance query is used, to keep the points whose closest point is `f`
    let refm = TriMesh::with_flags(fm.vertices().to_vec(), fm.indices().to_vec(), TriMeshFlags::empty()).unwrap();
    let vs: Vec<[f64; 3]> = fm.vertices().iter().map(|p| [p[0], p[1], p[2]]).collect();
    let idx: Vec<[u32; 3]> = fm.indices().to_vec();
    let sub = |a: [f64; 3], b2: [f64; 3]| [a[0] - b2[0], a[1] - b2[1], a[2] - b2[2]];
    let cross = |a: [f64; 3], b2: [f64; 3]| [a[1] * b2[2] - a[2] * b2[1], a[2] * b2[0] - a[0] * b2[2], a[0] * b2[1] - a[1] * b2[0]];
    let normal = |t: &[u32; 3]| cross(sub(vs[t[1] as usize], vs[t[0] as usize]), sub(vs[t[2] as usize], vs[t[0] as usize]));
    let lam = |r: &mut Rng| *r.pick(&[0.0, 0.0, 0.125, 0.25, 0.5, 1.0, 1.0]);
    let mut items = vec![];
    let mut guard = 0;
    while items.len() < 6 && guard < 300 {
        guard += 1;
        let mut d = [0.0f64; 3];
        let (head, f): (String, [f64; 3]);
        if r.bool() {
            let vid = r.below(vs.len() as u64) as usize;
            for t in idx.iter().filter(|t| t.contains(&(vid as u32))) {
                let n = normal(t); let l = lam(r);
                for c in 0..3 { d[c] += l * n[c]; }
            }
            head = format!("v {} 0", vid); f = vs[vid];
        } else {
            let ti = r.below(idx.len() as u64) as usize; let slot = r.below(3) as usize;
            let (ia, ib) = match slot { 0 => (idx[ti][0], idx[ti][1]), 1 => (idx[ti][1], idx[ti][2]), _ => (idx[ti][2], idx[ti][0]) };
            for t in idx.iter().filter(|t| t.contains(&ia) && t.contains(&ib)) {
                let n = normal(t); let l = lam(r);
                for c in 0..3 { d[c] += l * n[c]; }
            }
            let (pa, pb) = (vs[ia as usize], vs[ib as usize]);
            let tt = *r.pick(&[0.25, 0.5, 0.75]);
            head = format!("e {} {}", ti, slot); f = [pa[0] + (pb[0] - pa[0]) * tt, pa[1] + (pb[1] - pa[1]) * tt, pa[2] + (pb[2] - pa[2]) * tt];
        }
        let mx = d.iter().fold(0.0f64, |a2, x| a2.max(x.abs()));
        if mx == 0.0 { continue; }
        // bring the offset to a size between 1/8 and 2 with a power of two (keeps the point exactly representable)
        let mut s = *r.pick(&[0.25, 1.0, 2.0]);
        while mx * s > 2.0 { s *= 0.5; }
        while mx * s < 0.125 { s *= 2.0; }
        if r.below(3) == 0 { s = -s; }
        let p = [f[0] + s * d[0], f[1] + s * d[1], f[2] + s * d[2]];
        // `f` lies on the mesh, so dist(p, mesh) <= |p - f|, with equality iff `f` is a closest point: keep those only
        // (the model evaluates the test with the pseudo-normal of the feature of `f`)
        let pf = ((p[0] - f[0]).powi(2) + (p[1] - f[1]).powi(2) + (p[2] - f[2]).powi(2)).sqrt();
        let dist = refm.distance_to_local_point(&Point::new(p[0], p[1], p[2]), false);
        if dist < 1.0e-3 || dist < pf * (1.0 - 1.0e-9) { continue; }
        items.push(format!("{} {} {}", head, hxs(p.iter()), hxs(f.iter())));
    }
    let mut s = show_case(&m, &ops);
    s.push_str(&format!(" {}", items.len()));
    for it in &items { s.push(' '); s.push_str(it); }
    s
}

/// Two-step histories of the shape "build without a deleting flag, then `set_flags` with deleting flags": a clean base mesh
/// into which degenerate (repeated index / coincident vertices), duplicate (same, rotated, flipped indices) and
/// bad-topology (a directed edge used twice) triangles are inserted FIRST, LAST or in the middle of the index buffer.
fn gen_delete_history(r: &mut Rng, d: usize, k: u64) -> (RawMesh, Vec<RawOp>) {
    let mut m = match k % 5 {
        0 => tetra(d, 0.0),
        1 if d == 3 => cube(),
        2 => { let z = |x: f64, y: f64, zz: f64| if d == 3 { vec![x, y, zz] } else { vec![x, y] };   // one triangle
               RawMesh { v: vec![z(0.0, 0.0, 0.0), z(1.0, 0.0, 0.0), z(0.0, 1.0, 0.0)], i: vec![[0, 1, 2]], f: 0 } }
        3 => { let mut a = tetra(d, 0.0); let b = tetra(d, 3.0); let base = a.v.len() as u32;
               a.v.extend(b.v); a.i.extend(b.i.iter().map(|t| [t[0] + base, t[1] + base, t[2] + base])); a }
        _ => { // random triangles over a small lattice, pairwise distinct corners
            let nv = r.range(4, 7) as usize;
            let v: Vec<Vec<f64>> = (0..nv).map(|_| (0..d).map(|_| coord(r, 1)).collect()).collect();
            let ni = r.range(1, 6) as usize;
            let i = (0..ni).map(|_| { let a = r.below(nv as u64) as u32; let b2 = (a + 1 + r.below(nv as u64 - 1) as u32) % nv as u32;
                let mut c = r.below(nv as u64) as u32; while c == a || c == b2 { c = (c + 1) % nv as u32; } [a, b2, c] }).collect();
            RawMesh { v, i, f: 0 } }
    };
    if r.below(3) == 0 { // generic (non-lattice) coordinates
        let sc: Vec<f64> = (0..d).map(|_| r.uniform(0.3, 3.0)).collect();
        let tr: Vec<f64> = (0..d).map(|_| r.uniform(-5.0, 5.0)).collect();
        for p in m.v.iter_mut() { for a in 0..d { let x = p[a] * sc[a] + tr[a]; p[a] = if x == 0.0 { 0.0 } else { x }; } }
    }
    let nbad = 1 + r.below(3);
    let place = (k / 5) % 4;    // 0 first, 1 last, 2 middle, 3 random
    for j in 0..nbad {
        let n = m.i.len();
        let nv = m.v.len() as u64;
        let t = m.i[r.below(n as u64) as usize];
        let bad: [u32; 3] = match (k / 20 + j) % 8 {
            0 => { let a = r.below(nv) as u32; let b2 = r.below(nv) as u32; [a, a, b2] }
            1 => { let a = r.below(nv) as u32; let b2 = r.below(nv) as u32; *r.pick(&[[a, b2, a], [b2, a, a], [a, a, a]]) }
            2 => t,
            3 => [t[1], t[2], t[0]],
            4 => [t[1], t[0], t[2]],
            5 => { // same directed edge t0 -> t1, another apex
                let mut x = r.below(nv) as u32; while x == t[0] || x == t[1] { x = (x + 1) % nv as u32; } [t[0], t[1], x] }
            6 => { // degenerate by coordinates: a copy of a vertex
                let c = m.v[t[0] as usize].clone(); m.v.push(c); [t[0], (m.v.len() - 1) as u32, t[1]] }
            _ => [t[2], t[1], t[0]],
        };
        let pos = match place { 0 => 0, 1 => n, 2 => n / 2, _ => r.below(n as u64 + 1) as usize };
        m.i.insert(pos, bad);
    }
    m.f = *r.pick(&[0, 0, 0, HET, CC, ORIENTED, HET | CC | ORIENTED, MERGE, FIX7 | MERGE]);
    let del = *r.pick(&[DEL_DEGEN, DEL_DUP, DEL_BAD, DEL_DEGEN | DEL_DUP, DEL_DEGEN | DEL_BAD, DEL_DUP | DEL_BAD, DEL_DEGEN | DEL_DUP | DEL_BAD]);
    let keep = match r.below(4) { 0 => m.f, 1 => m.f | MERGE, 2 => *r.pick(&[HET, CC, ORIENTED, HET | CC | ORIENTED]), _ => 0 };
    let mut ops = vec![RawOp::Sf(del | keep)];
    match r.below(8) { 0 => ops.push(RawOp::Rev), 1 => ops.push(RawOp::Sf(0)), 2 => ops.insert(0, RawOp::Rev), _ => {} }
    (m, ops)
}

/// `boxscale`: a triangle (lattice with ties, or random) and a scale of any sign
fn gen_boxscale(r: &mut Rng, d: usize) -> String {
    let lat = r.bool();
    let mut xs: Vec<f64> = (0..3 * d).map(|_| if lat { r.range(-8, 8) as f64 * 0.25 } else { r.uniform(-10.0, 10.0) }).collect();
    xs.extend(gen_scale(r, d));
    hxs(xs.iter())
}

/// well-formed meshes (no flat triangle) away from the origin, for the QBVH query probe
fn probe_mesh(r: &mut Rng, d: usize) -> RawMesh {
    let mut m = if d == 3 { closed_mesh(r) } else {
        // a strip of k squares, two triangles each
        let k = r.range(1, 4) as usize;
        let mut v = vec![]; let mut i = vec![];
        for x in 0..=k { v.push(vec![x as f64, 0.0]); v.push(vec![x as f64, 1.0]); }
        for x in 0..k as u32 { i.push([2 * x, 2 * x + 2, 2 * x + 3]); i.push([2 * x, 2 * x + 3, 2 * x + 1]); }
        let mut m = RawMesh { v, i, f: 0 };
        if r.below(3) == 0 { m = soupify(&m); m.f = MERGE; }
        m
    };
    if d == 3 && r.below(3) == 0 { // a second component
        let b2 = closed_mesh(r); let base = m.v.len() as u32;
        m.v.extend(b2.v.iter().map(|p| vec![p[0] + 7.0, p[1], p[2] - 5.0]));
        m.i.extend(b2.i.iter().map(|t| [t[0] + base, t[1] + base, t[2] + base]));
        m.f |= b2.f;
    }
    let tr: Vec<f64> = (0..d).map(|_| { let t = r.range(2, 12) as f64 * 0.5; if r.bool() { t } else { -t } }).collect();
    let sc = if r.bool() { 1.0 } else { r.uniform(0.5, 2.0) };
    for p in m.v.iter_mut() { for k in 0..d { p[k] = p[k] * sc + tr[k]; } }
    if r.bool() { m.f |= *r.pick(&[HET, CC, HET | CC, DEL_DEGEN | MERGE, DEL_DUP | MERGE, DEL_BAD, ORIENTED, 0]); }
    m
}
fn gen_bvhq(r: &mut Rng, d: usize) -> Option<String> {
    let m = probe_mesh(r, d);
    let mut ops = vec![];
    for _ in 0..r.range(1, 3) {
        ops.push(match r.below(8) {
            0..=3 => RawOp::Sc(gen_scale(r, d)),
            4 => RawOp::Rev,
            5 => RawOp::Sf(m.f | *r.pick(&[HET, CC, MERGE, DEL_DEGEN | MERGE, DEL_BAD])),
            6 => gen_tv(r, d),
            _ => RawOp::App(probe_mesh(r, d)),
        });
    }
    // the final buffers (real code) only serve to place the query points: on the triangles, near them, around the mesh
    let fin: Vec<Vec<f64>>; let idx: Vec<[u32; 3]>;
    if d == 3 { let fm = h3::run_ops(&m, &ops)?; fin = fm.vertices().iter().map(|p| p.coords.iter().cloned().collect()).collect(); idx = fm.indices().to_vec(); }
    else { let fm = h2::run_ops(&m, &ops)?; fin = fm.vertices().iter().map(|p| p.coords.iter().cloned().collect()).collect(); idx = fm.indices().to_vec(); }
    let (mut lo, mut hi) = (vec![f64::MAX; d], vec![f64::MIN; d]);
    for p in &fin { for k in 0..d { lo[k] = lo[k].min(p[k]); hi[k] = hi[k].max(p[k]); } }
    let mut pts: Vec<Vec<f64>> = vec![];
    for _ in 0..6 {
        let t = idx[r.below(idx.len() as u64) as usize];
        let (a, b2, c) = (&fin[t[0] as usize], &fin[t[1] as usize], &fin[t[2] as usize]);
        match r.below(4) {
            0 => pts.push((0..d).map(|k| (a[k] + b2[k] + c[k]) / 3.0).collect()),                      // centroid of a triangle
            1 => { let (u, v) = (r.uniform(0.05, 0.45), r.uniform(0.05, 0.45));                          // inside a triangle
                   pts.push((0..d).map(|k| a[k] + u * (b2[k] - a[k]) + v * (c[k] - a[k])).collect()) }
            2 => { let e = r.uniform(0.01, 0.5);                                                          // next to a vertex
                   pts.push((0..d).map(|k| a[k] + e * r.uniform(-1.0, 1.0)).collect()) }
            _ => pts.push((0..d).map(|k| r.uniform(lo[k] - 1.0, hi[k] + 1.0)).collect()),                // around the mesh
        }
    }
    let mut s = show_case(&m, &ops);
    s.push_str(&format!(" {}", pts.len()));
    for p in &pts { s.push(' '); s.push_str(&hxs(p.iter())); }
    Some(s)
}

/// `tnc3` histories: meshes that carry FIX_INTERNAL_EDGES at some point of the history (set at build time, added or removed
/// by `set_flags`, kept through `reverse` / `transform_vertices` / `scaled` of any sign / `append`): closed meshes and spikes
/// (dihedral edges), soups merged by the flag, random lattice meshes with duplicate / degenerate / coplanar-opposite
/// triangles (edge sums that cancel: the `1e-6` branch), open strips (boundary edges: a single incident face).
fn gen_tnc(r: &mut Rng, thorough_len: u64) -> (RawMesh, Vec<RawOp>) {
    let fix = FIX7 | MERGE;
    let (mut m, mut ops) = match r.below(4) {
        0 => { let m = if r.bool() { closed_mesh(r) } else { spike_mesh(r) }; (m, vec![]) }
        1 => { let m = probe_mesh(r, 3); (m, vec![]) }
        2 => gen_scaled_hist(r, 3),
        _ => { let m = gen_mesh(r, 3, false); let ops = gen_ops(r, 3, thorough_len); (m, ops) }
    };
    // a back-to-back copy of a triangle (opposite winding on the same vertices): the two normals cancel on its three edges
    if r.below(6) == 0 && !m.i.is_empty() { let t = m.i[r.below(m.i.len() as u64) as usize]; m.i.push([t[1], t[0], t[2]]); }
    match r.below(4) {
        0 => { m.f |= fix; }                                                     // from the start
        1 => { m.f &= !FIX7; let f = m.f; let pos = r.below(ops.len() as u64 + 1) as usize; ops.insert(pos, RawOp::Sf(f | fix)); }   // added later
        2 => { m.f |= fix; let pos = r.below(ops.len() as u64 + 1) as usize;    // removed, then possibly added again
               ops.insert(pos, RawOp::Sf(*r.pick(&[0, MERGE, FIX7, ORIENTED, HET | CC])));
               if r.bool() { ops.push(RawOp::Sf(fix | *r.pick(&[0, ORIENTED, HET, DEL_DEGEN, DEL_DUP]))); } }
        _ => { m.f |= fix; for op in ops.iter_mut() { if let RawOp::Sf(f) = op { if r.below(3) != 0 { *f |= fix; } } } }
    }
    if r.below(3) == 0 { ops.push(match r.below(4) { 0 => RawOp::Rev, 1 => RawOp::Sc(gen_scale(r, 3)), 2 => gen_tv(r, 3), _ => RawOp::App(probe_mesh(r, 3)) }); }
    (m, ops)
}

pub fn gen(r: &mut Rng, thorough: bool) -> Vec<(String, String)> {
    let mut out = vec![];
    let n3 = if thorough { 40000 } else { 5000 };
    let n2 = if thorough { 12000 } else { 1500 };
    let maxlen = if thorough { 8 } else { 5 };
    // every history is emitted twice: `hist*` (states, modelled) and `histq*` (real queries on the final mesh, oracle only)
    for _ in 0..n3 {
        let m = gen_mesh(r, 3, false); let ops = gen_ops(r, 3, maxlen);
        out.push(("hist3".to_string(), show_case(&m, &ops)));
        out.push(("histq3".to_string(), show_case(&m, &ops)));
    }
    for _ in 0..n2 {
        let m = gen_mesh(r, 2, false); let ops = gen_ops(r, 2, maxlen);
        out.push(("hist2".to_string(), show_case(&m, &ops)));
        out.push(("histq2".to_string(), show_case(&m, &ops)));
    }
    for k in 0..(if thorough { 4000 } else { 640 }) {
        let (m, ops) = gen_delete_history(r, 3, k);
        out.push(("hist3".to_string(), show_case(&m, &ops)));
        out.push(("histq3".to_string(), show_case(&m, &ops)));
    }
    for k in 0..(if thorough { 1600 } else { 320 }) {
        let (m, ops) = gen_delete_history(r, 2, k);
        out.push(("hist2".to_string(), show_case(&m, &ops)));
        out.push(("histq2".to_string(), show_case(&m, &ops)));
    }
    for _ in 0..(if thorough { 6000 } else { 600 }) {
        out.push(("contains3".to_string(), gen_contains(r)));
    }
    // `scaled`: histories around a (mirroring) scale, the box law, and QBVH-backed queries after the history
    for _ in 0..(if thorough { 8000 } else { 800 }) {
        let (m, ops) = gen_scaled_hist(r, 3);
        out.push(("hist3".to_string(), show_case(&m, &ops)));
    }
    for _ in 0..(if thorough { 4000 } else { 400 }) {
        let (m, ops) = gen_scaled_hist(r, 2);
        out.push(("hist2".to_string(), show_case(&m, &ops)));
    }
    for _ in 0..(if thorough { 2000 } else { 200 }) {
        out.push(("boxscale3".to_string(), gen_boxscale(r, 3)));
        out.push(("boxscale2".to_string(), gen_boxscale(r, 2)));
    }
    for _ in 0..(if thorough { 3000 } else { 300 }) {
        if let Some(c) = gen_bvhq(r, 3) { out.push(("bvhq3".to_string(), c)); }
        if let Some(c) = gen_bvhq(r, 2) { out.push(("bvhq2".to_string(), c)); }
    }
    // `triangle_normal_constraints` of every triangle after a history that meets FIX_INTERNAL_EDGES
    for _ in 0..(if thorough { 6000 } else { 600 }) {
        let (m, ops) = gen_tnc(r, maxlen);
        out.push(("tnc3".to_string(), show_case(&m, &ops)));
    }
    // pseudo-normal sign test at vertices / edges of closed meshes (spikes: faces seen from different sides)
    for _ in 0..(if thorough { 4000 } else { 400 }) {
        out.push(("pnsign3".to_string(), gen_pnsign(r)));
    }
    out
}
