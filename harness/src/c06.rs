//! C06: shape casts (closed forms bit-exact, end-to-end runs oracle-only).
//! Function names carry the dimension as a suffix (`ballball3`, `ballball2`, …); the bodies are shared (c06_dim.rs).
use crate::util::*;

pub mod m3 {
    use crate::util::*;
    use crate::p3 as px;
    use crate::util::d3 as dx;
    pub const DIM: usize = 3;
    pub fn zero_angvel() -> dx::Vector<f64> { dx::Vector::zeros() }
    pub fn fiso(m: &dx::Isometry<f64>) -> String { dx::fiso(m) }
    pub fn convex(pts: &[dx::Point<f64>]) -> Box<dyn px::shape::Shape> {
        Box::new(px::shape::ConvexPolyhedron::from_convex_hull(pts).expect("convex hull"))
    }
    pub fn axis(i: usize, s: f64) -> dx::Vector<f64> { let mut v = dx::Vector::zeros(); v[i % 3] = s; v }
    /// a vector orthogonal to `v` (not normalised), lattice-friendly
    pub fn ortho(v: &dx::Vector<f64>) -> dx::Vector<f64> {
        if v.x.abs() <= v.y.abs() && v.x.abs() <= v.z.abs() { dx::Vector::new(0.0, -v.z, v.y) }
        else if v.y.abs() <= v.z.abs() { dx::Vector::new(-v.z, 0.0, v.x) } else { dx::Vector::new(-v.y, v.x, 0.0) }
    }
    pub fn lat_units() -> Vec<dx::Vector<f64>> {
        vec![dx::Vector::new(1.0, 0.0, 0.0), dx::Vector::new(0.0, -1.0, 0.0), dx::Vector::new(0.0, 0.0, 1.0), dx::Vector::new(-0.0, 1.0, -0.0),
             dx::Vector::new(0.6, 0.8, 0.0), dx::Vector::new(0.0, -0.6, 0.8), dx::Vector::new(-0.8, 0.0, 0.6),
             dx::Vector::new(1.0, 1.0, 0.0).normalize(), dx::Vector::new(1.0, -1.0, 1.0).normalize(), dx::Vector::new(2.0, 3.0, 6.0) / 7.0]
    }
    pub fn pyth() -> Vec<(dx::Vector<f64>, f64)> {
        vec![(dx::Vector::new(3.0, 4.0, 0.0), 5.0), (dx::Vector::new(0.0, -3.0, 4.0), 5.0), (dx::Vector::new(2.0, 3.0, 6.0), 7.0),
             (dx::Vector::new(-1.0, 2.0, 2.0), 3.0), (dx::Vector::new(4.0, 0.0, 0.0), 4.0), (dx::Vector::new(0.0, 0.0, -2.5), 2.5),
             (dx::Vector::new(1.0, 4.0, 8.0), 9.0), (dx::Vector::new(-6.0, 8.0, 0.0), 10.0)]
    }
    include!("c06_dim.rs");
    include!("c06_gen.rs");
}

pub mod m2 {
    use crate::util::*;
    use crate::p2 as px;
    use crate::util::d2 as dx;
    pub const DIM: usize = 2;
    pub fn zero_angvel() -> f64 { 0.0 }
    pub fn fiso(m: &dx::Isometry<f64>) -> String {
        format!("{} {} {}", ff(m.rotation.re), ff(m.rotation.im), dx::fv(&m.translation.vector))
    }
    pub fn convex(pts: &[dx::Point<f64>]) -> Box<dyn px::shape::Shape> {
        Box::new(px::shape::ConvexPolygon::from_convex_hull(pts).expect("convex hull"))
    }
    pub fn axis(i: usize, s: f64) -> dx::Vector<f64> { let mut v = dx::Vector::zeros(); v[i % 2] = s; v }
    pub fn ortho(v: &dx::Vector<f64>) -> dx::Vector<f64> { dx::Vector::new(-v.y, v.x) }
    pub fn lat_units() -> Vec<dx::Vector<f64>> {
        vec![dx::Vector::new(1.0, 0.0), dx::Vector::new(0.0, -1.0), dx::Vector::new(-1.0, -0.0), dx::Vector::new(-0.0, 1.0),
             dx::Vector::new(0.6, 0.8), dx::Vector::new(-0.8, 0.6), dx::Vector::new(0.28, -0.96),
             dx::Vector::new(1.0, 1.0).normalize(), dx::Vector::new(1.0, -1.0).normalize()]
    }
    pub fn pyth() -> Vec<(dx::Vector<f64>, f64)> {
        vec![(dx::Vector::new(3.0, 4.0), 5.0), (dx::Vector::new(-4.0, 3.0), 5.0), (dx::Vector::new(5.0, -12.0), 13.0),
             (dx::Vector::new(4.0, 0.0), 4.0), (dx::Vector::new(0.0, -2.5), 2.5), (dx::Vector::new(-6.0, -8.0), 10.0),
             (dx::Vector::new(0.75, 1.0), 1.25), (dx::Vector::new(7.0, 24.0), 25.0)]
    }
    include!("c06_dim.rs");
    include!("c06_gen.rs");
}

pub fn exec(func: &str, a: &mut Args) -> String {
    if let Some(f) = func.strip_suffix('3') { m3::exec(f, a) }
    else if let Some(f) = func.strip_suffix('2') { m2::exec(f, a) }
    else { "nofn".into() }
}

pub fn gen(r: &mut Rng, thorough: bool) -> Vec<(String, String)> {
    let mut v = Vec::new();
    for (f, a) in m3::gen(r, thorough) { v.push((format!("{}3", f), a)); }
    for (f, a) in m2::gen(r, thorough) { v.push((format!("{}2", f), a)); }
    v
}
