//! C06: shape casts (closed forms bit-exact, end-to-end runs oracle-only).
//! Function names carry the dimension as a suffix (`ballball3`, `ballball2`, …); the bodies are shared (c06_dim.rs).
use crate::util::*;

pub mod m3 {
    use crate::util::*;
    use crate::p3 as px;
    use crate::util::d3 as dx;
    pub const DIM: usize = 3;
    pub fn zero_angvel() -> dx::Vector<f64> { dx::Vector::zeros() }
    pub fn fiso(m: &dx::Isometry<f64>) -> String { dx::fiso(m) }
    pub fn convex(pts: &[dx::Point<f64>]) -> Box<dyn px::shape::Shape> {
        Box::new(px::shape::ConvexPolyhedron::from_convex_hull(pts).expect("convex hull"))
    }
    /// `hf nr nc <nr*nc heights, column-major> sx sy sz ns (i j bits)*ns`  (bits: 1 zig-zag, 2 left removed, 4 right removed)
    pub fn heightfield(a: &mut Args) -> Box<dyn px::shape::Shape> {
        let nr = a.u(); let nc = a.u();
        let hs: Vec<f64> = (0..nr * nc).map(|_| a.f()).collect();
        let sc = dx::v(a);
        let mut hf = px::shape::HeightField::new(px::na::DMatrix::from_column_slice(nr, nc, &hs), sc);
        let ns = a.u();
        for _ in 0..ns { let i = a.u(); let j = a.u(); let b = a.u() as u8; hf.set_cell_status(i, j, px::shape::HeightFieldCellStatus::from_bits_truncate(b)); }
        Box::new(hf)
    }
    pub fn hf_parts(h: &px::shape::HeightField) -> Vec<(dx::Isometry<f64>, Box<dyn px::shape::Shape>)> {
        h.triangles().map(|t| (dx::Isometry::identity(), Box::new(t) as Box<dyn px::shape::Shape>)).collect()
    }
    pub fn trimesh(pts: Vec<dx::Point<f64>>, idx: Vec<[u32; 3]>) -> Box<dyn px::shape::Shape> {
        Box::new(px::shape::TriMesh::new(pts, idx).expect("trimesh"))
    }
    pub struct HfInfo { pub tok: String, pub half: [f64; 2], pub cw: [f64; 2], pub top: f64, pub haxes: Vec<usize> }
    /// random height field: 3..6 x 3..6 samples, some zig-zag / removed cells
    pub fn gen_hf(r: &mut Rng, lat: bool) -> HfInfo {
        let nr = 3 + r.below(4) as usize; let nc = 3 + r.below(4) as usize;
        let hs: Vec<f64> = (0..nr * nc).map(|_| if lat { r.range(-2, 2) as f64 * 0.25 } else { r.uniform(-0.5, 0.5) }).collect();
        let sc = if lat { dx::Vector::new(*r.pick(&[4.0, 8.0, 12.0]), *r.pick(&[0.5, 1.0, 2.0]), *r.pick(&[4.0, 8.0, 12.0])) }
                 else { dx::Vector::new(r.uniform(4.0, 14.0), r.uniform(0.5, 2.0), r.uniform(4.0, 14.0)) };
        let mut st = Vec::new();
        for i in 0..nr - 1 { for j in 0..nc - 1 { if r.below(5) == 0 { st.push(format!("{} {} {}", i, j, *r.pick(&[1u8, 1, 2, 4, 6, 3, 5]))); } } }
        let top = hs.iter().cloned().fold(f64::MIN, f64::max) * sc.y;
        let tok = format!("hf {} {} {} {} {}{}{}", nr, nc, hxs(hs.iter()), dx::hv(&sc), st.len(), if st.is_empty() { "" } else { " " }, st.join(" "));
        // x spans the columns (nc), z the rows (nr)
        HfInfo { tok, half: [sc.x * 0.5, sc.z * 0.5], cw: [sc.x / (nc - 1) as f64, sc.z / (nr - 1) as f64], top, haxes: vec![0, 2] }
    }
    /// height field from a height function on the sample grid: `nx` samples along x (matrix columns), `nz` along z (rows)
    pub fn hf_grid_tok(nx: usize, nz: usize, h: &dyn Fn(usize, usize) -> f64, sx: f64, sy: f64, sz: f64, st: &[(usize, usize, u8)]) -> String {
        let mut hs = Vec::new();
        for j in 0..nx { for i in 0..nz { hs.push(h(j, i)); } }
        let sts: Vec<String> = st.iter().map(|(jx, iz, b)| format!("{} {} {}", iz, jx, b)).collect();
        format!("hf {} {} {} {} {}{}{}", nz, nx, hxs(hs.iter()), dx::hv(&dx::Vector::new(sx, sy, sz)), sts.len(), if sts.is_empty() { "" } else { " " }, sts.join(" "))
    }
    /// the grid-line coordinates of the height field as the shape itself reports them: one list per horizontal axis (x, z)
    pub fn hf_lines(h: &px::shape::HeightField) -> Vec<Vec<f64>> {
        vec![(0..=h.ncols()).map(|j| h.x_at(j)).collect(), (0..=h.nrows()).map(|i| h.z_at(i)).collect()]
    }
    pub const HAXES: [usize; 2] = [0, 2];
    /// the cell `(i, j)` (row, column) a triangle handed to the dispatcher belongs to (exact vertex comparison)
    pub fn hf_cell_of(h: &px::shape::HeightField, g: &dyn px::shape::Shape) -> Option<(usize, usize)> {
        let t = g.as_triangle()?;
        for i in 0..h.nrows() { for j in 0..h.ncols() {
            let (a, b) = h.triangles_at(i, j);
            for c in [a, b].into_iter().flatten() { if c.a == t.a && c.b == t.b && c.c == t.c { return Some((i, j)); } }
        } }
        None
    }
    /// small triangle mesh: a bumpy 3x3 .. 4x4 grid, or a tetrahedron
    pub fn gen_trimesh_tok(r: &mut Rng, lat: bool) -> (String, Vec<dx::Point<f64>>) {
        let mut pts = Vec::new(); let mut idx: Vec<[usize; 3]> = Vec::new();
        if r.below(4) == 0 {
            let s = if lat { 2.0 } else { r.uniform(1.0, 3.0) };
            pts = vec![dx::Point::new(s, s, s), dx::Point::new(s, -s, -s), dx::Point::new(-s, s, -s), dx::Point::new(-s, -s, s)];
            idx = vec![[0, 1, 2], [0, 3, 1], [0, 2, 3], [1, 3, 2]];
        } else {
            let n = 3 + r.below(2) as usize; let w = if lat { 2.0 } else { r.uniform(1.0, 2.5) };
            for i in 0..n { for j in 0..n {
                let h = if lat { r.range(-2, 2) as f64 * 0.25 } else { r.uniform(-0.6, 0.6) };
                pts.push(dx::Point::new((j as f64 - (n - 1) as f64 * 0.5) * w, h, (i as f64 - (n - 1) as f64 * 0.5) * w)); } }
            for i in 0..n - 1 { for j in 0..n - 1 { let a = i * n + j; idx.push([a, a + n, a + 1]); idx.push([a + 1, a + n, a + n + 1]); } }
        }
        let tok = format!("tm {} {} {} {}", pts.len(), pts.iter().map(|p| dx::hp(p)).collect::<Vec<_>>().join(" "), idx.len(),
                          idx.iter().map(|t| format!("{} {} {}", t[0], t[1], t[2])).collect::<Vec<_>>().join(" "));
        (tok, pts)
    }
    pub fn axis(i: usize, s: f64) -> dx::Vector<f64> { let mut v = dx::Vector::zeros(); v[i % 3] = s; v }
    /// a vector orthogonal to `v` (not normalised), lattice-friendly
    pub fn ortho(v: &dx::Vector<f64>) -> dx::Vector<f64> {
        if v.x.abs() <= v.y.abs() && v.x.abs() <= v.z.abs() { dx::Vector::new(0.0, -v.z, v.y) }
        else if v.y.abs() <= v.z.abs() { dx::Vector::new(-v.z, 0.0, v.x) } else { dx::Vector::new(-v.y, v.x, 0.0) }
    }
    pub fn lat_units() -> Vec<dx::Vector<f64>> {
        vec![dx::Vector::new(1.0, 0.0, 0.0), dx::Vector::new(0.0, -1.0, 0.0), dx::Vector::new(0.0, 0.0, 1.0), dx::Vector::new(-0.0, 1.0, -0.0),
             dx::Vector::new(0.6, 0.8, 0.0), dx::Vector::new(0.0, -0.6, 0.8), dx::Vector::new(-0.8, 0.0, 0.6),
             dx::Vector::new(1.0, 1.0, 0.0).normalize(), dx::Vector::new(1.0, -1.0, 1.0).normalize(), dx::Vector::new(2.0, 3.0, 6.0) / 7.0]
    }
    pub fn pyth() -> Vec<(dx::Vector<f64>, f64)> {
        vec![(dx::Vector::new(3.0, 4.0, 0.0), 5.0), (dx::Vector::new(0.0, -3.0, 4.0), 5.0), (dx::Vector::new(2.0, 3.0, 6.0), 7.0),
             (dx::Vector::new(-1.0, 2.0, 2.0), 3.0), (dx::Vector::new(4.0, 0.0, 0.0), 4.0), (dx::Vector::new(0.0, 0.0, -2.5), 2.5),
             (dx::Vector::new(1.0, 4.0, 8.0), 9.0), (dx::Vector::new(-6.0, 8.0, 0.0), 10.0)]
    }
    include!("c06_dim.rs");
    include!("c06_gen.rs");
}

pub mod m2 {
    use crate::util::*;
    use crate::p2 as px;
    use crate::util::d2 as dx;
    pub const DIM: usize = 2;
    pub fn zero_angvel() -> f64 { 0.0 }
    pub fn fiso(m: &dx::Isometry<f64>) -> String {
        format!("{} {} {}", ff(m.rotation.re), ff(m.rotation.im), dx::fv(&m.translation.vector))
    }
    pub fn convex(pts: &[dx::Point<f64>]) -> Box<dyn px::shape::Shape> {
        Box::new(px::shape::ConvexPolygon::from_convex_hull(pts).expect("convex hull"))
    }
    /// `hf n <heights> sx sy nrem idx*nrem`
    pub fn heightfield(a: &mut Args) -> Box<dyn px::shape::Shape> {
        let n = a.u();
        let hs: Vec<f64> = (0..n).map(|_| a.f()).collect();
        let sc = dx::v(a);
        let mut hf = px::shape::HeightField::new(px::na::DVector::from_column_slice(&hs), sc);
        let nrem = a.u();
        for _ in 0..nrem { let i = a.u(); hf.set_segment_removed(i, true); }
        Box::new(hf)
    }
    pub fn hf_parts(h: &px::shape::HeightField) -> Vec<(dx::Isometry<f64>, Box<dyn px::shape::Shape>)> {
        h.segments().map(|t| (dx::Isometry::identity(), Box::new(t) as Box<dyn px::shape::Shape>)).collect()
    }
    pub fn trimesh(pts: Vec<dx::Point<f64>>, idx: Vec<[u32; 3]>) -> Box<dyn px::shape::Shape> {
        Box::new(px::shape::TriMesh::new(pts, idx).expect("trimesh"))
    }
    pub struct HfInfo { pub tok: String, pub half: [f64; 2], pub cw: [f64; 2], pub top: f64, pub haxes: Vec<usize> }
    pub fn gen_hf(r: &mut Rng, lat: bool) -> HfInfo {
        let n = 4 + r.below(6) as usize;
        let hs: Vec<f64> = (0..n).map(|_| if lat { r.range(-2, 2) as f64 * 0.25 } else { r.uniform(-0.5, 0.5) }).collect();
        let sc = if lat { dx::Vector::new(*r.pick(&[4.0, 8.0, 12.0]), *r.pick(&[0.5, 1.0, 2.0])) } else { dx::Vector::new(r.uniform(4.0, 14.0), r.uniform(0.5, 2.0)) };
        let mut rem = Vec::new();
        for i in 0..n - 1 { if r.below(6) == 0 { rem.push(format!("{}", i)); } }
        let top = hs.iter().cloned().fold(f64::MIN, f64::max) * sc.y;
        let tok = format!("hf {} {} {} {}{}{}", n, hxs(hs.iter()), dx::hv(&sc), rem.len(), if rem.is_empty() { "" } else { " " }, rem.join(" "));
        HfInfo { tok, half: [sc.x * 0.5, 0.0], cw: [sc.x / (n - 1) as f64, 1.0], top, haxes: vec![0] }
    }
    /// height field from a height function on the sample grid (`nz`, `sz` and the second index are unused in 2-D)
    pub fn hf_grid_tok(nx: usize, _nz: usize, h: &dyn Fn(usize, usize) -> f64, sx: f64, sy: f64, _sz: f64, st: &[(usize, usize, u8)]) -> String {
        let hs: Vec<f64> = (0..nx).map(|j| h(j, 1)).collect();
        let mut rem: Vec<usize> = st.iter().map(|x| x.0).collect(); rem.sort(); rem.dedup();
        let rs: Vec<String> = rem.iter().map(|x| format!("{}", x)).collect();
        format!("hf {} {} {} {}{}{}", nx, hxs(hs.iter()), dx::hv(&dx::Vector::new(sx, sy)), rs.len(), if rs.is_empty() { "" } else { " " }, rs.join(" "))
    }
    /// the grid-line coordinates of the height field (end points of its cells, computed as the cast computes them)
    pub fn hf_lines(h: &px::shape::HeightField) -> Vec<Vec<f64>> {
        vec![(0..=h.num_cells()).map(|j| h.cell_width() * (j as f64) + h.start_x()).collect()]
    }
    pub const HAXES: [usize; 1] = [0];
    /// the cell a segment handed to the dispatcher belongs to (exact vertex comparison); reported as `(0, j)`
    pub fn hf_cell_of(h: &px::shape::HeightField, g: &dyn px::shape::Shape) -> Option<(usize, usize)> {
        let t = g.as_segment()?;
        for j in 0..h.num_cells() { if let Some(c) = h.segment_at(j) { if c.a == t.a && c.b == t.b { return Some((0, j)); } } }
        None
    }
    /// small 2-D triangle mesh: a fan / strip of triangles
    pub fn gen_trimesh_tok(r: &mut Rng, lat: bool) -> (String, Vec<dx::Point<f64>>) {
        let n = 3 + r.below(3) as usize; let w = if lat { 2.0 } else { r.uniform(1.0, 2.5) };
        let mut pts = Vec::new(); let mut idx: Vec<[usize; 3]> = Vec::new();
        for j in 0..n { let h = if lat { r.range(0, 3) as f64 * 0.5 } else { r.uniform(0.0, 1.5) };
            pts.push(dx::Point::new((j as f64 - (n - 1) as f64 * 0.5) * w, -1.0 - h)); pts.push(dx::Point::new((j as f64 - (n - 1) as f64 * 0.5) * w, 1.0 + h)); }
        for j in 0..n - 1 { let a = 2 * j; idx.push([a, a + 2, a + 1]); idx.push([a + 1, a + 2, a + 3]); }
        let tok = format!("tm {} {} {} {}", pts.len(), pts.iter().map(|p| dx::hp(p)).collect::<Vec<_>>().join(" "), idx.len(),
                          idx.iter().map(|t| format!("{} {} {}", t[0], t[1], t[2])).collect::<Vec<_>>().join(" "));
        (tok, pts)
    }
    pub fn axis(i: usize, s: f64) -> dx::Vector<f64> { let mut v = dx::Vector::zeros(); v[i % 2] = s; v }
    pub fn ortho(v: &dx::Vector<f64>) -> dx::Vector<f64> { dx::Vector::new(-v.y, v.x) }
    pub fn lat_units() -> Vec<dx::Vector<f64>> {
        vec![dx::Vector::new(1.0, 0.0), dx::Vector::new(0.0, -1.0), dx::Vector::new(-1.0, -0.0), dx::Vector::new(-0.0, 1.0),
             dx::Vector::new(0.6, 0.8), dx::Vector::new(-0.8, 0.6), dx::Vector::new(0.28, -0.96),
             dx::Vector::new(1.0, 1.0).normalize(), dx::Vector::new(1.0, -1.0).normalize()]
    }
    pub fn pyth() -> Vec<(dx::Vector<f64>, f64)> {
        vec![(dx::Vector::new(3.0, 4.0), 5.0), (dx::Vector::new(-4.0, 3.0), 5.0), (dx::Vector::new(5.0, -12.0), 13.0),
             (dx::Vector::new(4.0, 0.0), 4.0), (dx::Vector::new(0.0, -2.5), 2.5), (dx::Vector::new(-6.0, -8.0), 10.0),
             (dx::Vector::new(0.75, 1.0), 1.25), (dx::Vector::new(7.0, 24.0), 25.0)]
    }
    include!("c06_dim.rs");
    include!("c06_gen.rs");
}

pub fn exec(func: &str, a: &mut Args) -> String {
    if let Some(f) = func.strip_suffix('3') { m3::exec(f, a) }
    else if let Some(f) = func.strip_suffix('2') { m2::exec(f, a) }
    else { "nofn".into() }
}

pub fn gen(r: &mut Rng, thorough: bool) -> Vec<(String, String)> {
    let mut v = Vec::new();
    for (f, a) in m3::gen(r, thorough) { v.push((format!("{}3", f), a)); }
    for (f, a) in m2::gen(r, thorough) { v.push((format!("{}2", f), a)); }
    v
}
