//! C06: shape casts (closed forms bit-exact, end-to-end runs oracle-only).
//! Function names carry the dimension as a suffix (`ballball3`, `ballball2`, …); the bodies are shared (c06_dim.rs).
use crate::util::*;

pub mod m3 {
    use crate::util::*;
    use crate::p3 as px;
    use crate::util::d3 as dx;
    pub const DIM: usize = 3;
    pub fn zero_angvel() -> dx::Vector<f64> { dx::Vector::zeros() }
    pub fn fiso(m: &dx::Isometry<f64>) -> String { dx::fiso(m) }
    pub fn convex(pts: &[dx::Point<f64>]) -> Box<dyn px::shape::Shape> {
        Box::new(px::shape::ConvexPolyhedron::from_convex_hull(pts).expect("convex hull"))
    }
    /// `hf nr nc <nr*nc heights, column-major> sx sy sz ns (i j bits)*ns`  (bits: 1 zig-zag, 2 left removed, 4 right removed)
    pub fn heightfield(a: &mut Args) -> Box<dyn px::shape::Shape> {
        let nr = a.u(); let nc = a.u();
        let hs: Vec<f64> = (0..nr * nc).map(|_| a.f()).collect();
        let sc = dx::v(a);
        let mut hf = px::shape::HeightField::new(px::na::DMatrix::from_column_slice(nr, nc, &hs), sc);
        let ns = a.u();
        for _ in 0..ns { let i = a.u(); let j = a.u(); let b = a.u() as u8; hf.set_cell_status(i, j, px::shape::HeightFieldCellStatus::from_bits_truncate(b)); }
        Box::new(hf)
    }
    pub fn hf_parts(h: &px::shape::HeightField) -> Vec<(dx::Isometry<f64>, Box<dyn px::shape::Shape>)> {
        h.triangles().map(|t| (dx::Isometry::identity(), Box::new(t) as Box<dyn px::shape::Shape>)).collect()
    }
    pub fn trimesh(pts: Vec<dx::Point<f64>>, idx: Vec<[u32; 3]>) -> Box<dyn px::shape::Shape> {
        Box::new(px::shape::TriMesh::new(pts, idx).expect("trimesh"))
    }
    pub struct HfInfo { pub tok: String, pub half: [f64; 2], pub cw: [f64; 2], pub top: f64, pub haxes: Vec<usize> }
    /// random height field: 3..6 x 3..6 samples, some zig-zag / removed cells
    pub fn gen_hf(r: &mut Rng, lat: bool) -> HfInfo {
        let nr = 3 + r.below(4) as usize; let nc = 3 + r.below(4) as usize;
        let hs: Vec<f64> = (0..nr * nc).map(|_| if lat { r.range(-2, 2) as f64 * 0.25 } else { r.uniform(-0.5, 0.5) }).collect();
        let sc = if lat { dx::Vector::new(*r.pick(&[4.0, 8.0, 12.0]), *r.pick(&[0.5, 1.0, 2.0]), *r.pick(&[4.0, 8.0, 12.0])) }
                 else { dx::Vector::new(r.uniform(4.0, 14.0), r.uniform(0.5, 2.0), r.uniform(4.0, 14.0)) };
        let mut st = Vec::new();
        for i in 0..nr - 1 { for j in 0..nc - 1 { if r.below(5) == 0 { st.push(format!("{} {} {}", i, j, *r.pick(&[1u8, 1, 2, 4, 6, 3, 5]))); } } }
        let top = hs.iter().cloned().fold(f64::MIN, f64::max) * sc.y;
        let tok = format!("hf {} {} {} {} {}{}{}", nr, nc, hxs(hs.iter()), dx::hv(&sc), st.len(), if st.is_empty() { "" } else { " " }, st.join(" "));
        // x spans the columns (nc), z the rows (nr)
        HfInfo { tok, half: [sc.x * 0.5, sc.z * 0.5], cw: [sc.x / (nc - 1) as f64, sc.z / (nr - 1) as f64], top, haxes: vec![0, 2] }
    }
    /// height field from a height function on the sample grid: `nx` samples along x (matrix columns), `nz` along z (rows)
    pub fn hf_grid_tok(nx: usize, nz: usize, h: &dyn Fn(usize, usize) -> f64, sx: f64, sy: f64, sz: f64, st: &[(usize, usize, u8)]) -> String {
        let mut hs = Vec::new();
        for j in 0..nx { for i in 0..nz { hs.push(h(j, i)); } }
        let sts: Vec<String> = st.iter().map(|(jx, iz, b)| format!("{} {} {}", iz, jx, b)).collect();
        format!("hf {} {} {} {} {}{}{}", nz, nx, hxs(hs.iter()), dx::hv(&dx::Vector::new(sx, sy, sz)), sts.len(), if sts.is_empty() { "" } else { " " }, sts.join(" "))
    }
    /// the grid-line coordinates of the height field as the shape itself reports them: one list per horizontal axis (x, z)
    pub fn hf_lines(h: &px::shape::HeightField) -> Vec<Vec<f64>> {
        vec![(0..=h.ncols()).map(|j| h.x_at(j)).collect(), (0..=h.nrows()).map(|i| h.z_at(i)).collect()]
    }
    pub const HAXES: [usize; 2] = [0, 2];
    /// the cell `(i, j)` (row, column) a triangle handed to the dispatcher belongs to (exact vertex comparison)
    pub fn hf_cell_of(h: &px::shape::HeightField, g: &dyn px::shape::Shape) -> Option<(usize, usize)> {
        let t = g.as_triangle()?;
        for i in 0..h.nrows() { for j in 0..h.ncols() {
            let (a, b) = h.triangles_at(i, j);
            for c in [a, b].into_iter().flatten() { if c.a == t.a && c.b == t.b && c.c == t.c { return Some((i, j)); } }
        } }
        None
    }
    /// `hfwalk`: the trace of the real 3-D height-field cast (cells handed to the dispatcher, one per pair of triangles)
    /// args: `ni nj hmin hmax sx sy sz <iso3 pos12> vx vy vz hex hey hez max_toi target`
    pub fn hfwalk_exec(a: &mut Args) -> String {
        let ni = a.u(); let nj = a.u(); let hmin = a.f(); let hmax = a.f(); let sc = dx::v(a);
        let pos12 = dx::iso(a); let vel = dx::v(a); let he = dx::v(a); let max_toi = a.f(); let target = a.f();
        let mut hs = px::na::DMatrix::from_element(ni + 1, nj + 1, hmin); hs[(0, 0)] = hmax;
        let hf = px::shape::HeightField::new(hs, sc);
        let o = ShapeCastOptions { max_time_of_impact: max_toi, target_distance: target, stop_at_penetration: true, compute_impact_geometry_on_penetration: false };
        let rec = RecDispatcher { log: std::sync::Mutex::new(Vec::new()) };
        let g2 = Cuboid::new(he);
        let _ = px::query::details::cast_shapes_heightfield_shape(&rec, &pos12, &vel, &hf, &g2, o);
        let log = rec.log.lock().unwrap();
        if log.len() % 2 != 0 { return "odd-number-of-triangles".into(); }
        let mut cells = Vec::new();
        for k in 0..log.len() / 2 {
            match (hf_cell_of(&hf, &*log[2 * k]), hf_cell_of(&hf, &*log[2 * k + 1])) {
                (Some(c), Some(d)) if c == d => cells.push(c),
                _ => return "unpaired-triangles".into(),
            }
        }
        // `None` before the walk (the box never meets the field's box) is told apart from an empty trace by the box test itself
        let bb = { use px::bounding_volume::BoundingVolume; g2.aabb(&pos12).loosened(target) };
        let hext = bb.half_extents();
        let msum = px::bounding_volume::Aabb::new(hf.local_aabb().mins - hext, hf.local_aabb().maxs + hext);
        if { use px::query::RayCast; msum.cast_local_ray(&px::query::Ray::new(bb.center(), vel), max_toi, true).is_none() } { return "none".into(); }
        let mut s = format!("cells {}", cells.len());
        for (i, j) in cells { s.push_str(&format!(" {} {}", i, j)); }
        s
    }
    /// `hfbest`: the real 3-D height-field cast run with scripted part-cast answers; args = `hfwalk` args + script
    pub fn hfbest_exec(a: &mut Args) -> String {
        let ni = a.u(); let nj = a.u(); let hmin = a.f(); let hmax = a.f(); let sc = dx::v(a);
        let pos12 = dx::iso(a); let vel = dx::v(a); let he = dx::v(a); let max_toi = a.f(); let target = a.f();
        let script = parse_script(a);
        let mut hs = px::na::DMatrix::from_element(ni + 1, nj + 1, hmin); hs[(0, 0)] = hmax;
        let hf = px::shape::HeightField::new(hs, sc);
        let o = ShapeCastOptions { max_time_of_impact: max_toi, target_distance: target, stop_at_penetration: true, compute_impact_geometry_on_penetration: false };
        let d = ScriptDispatcher { script, calls: std::sync::Mutex::new(0) };
        let r = px::query::details::cast_shapes_heightfield_shape(&d, &pos12, &vel, &hf, &Cuboid::new(he), o);
        fmt_script_result(r, &d)
    }
    pub fn gen_hfbest(r: &mut Rng, thorough: bool) -> Vec<(String, String)> {
        let mut v = Vec::new();
        for (_, a) in gen_hfwalk_n(r, if thorough { 6000 } else { 600 }) { let s = gen_script(r); v.push(("hfbest".to_string(), format!("{} {}", a, s))); }
        v
    }
    pub fn gen_hfwalk(r: &mut Rng, thorough: bool) -> Vec<(String, String)> { gen_hfwalk_n(r, if thorough { 15000 } else { 1500 }) }
    pub fn gen_hfwalk_n(r: &mut Rng, count: usize) -> Vec<(String, String)> {
        let mut v = Vec::new();
        for it in 0..count {
            let lat = it % 4 != 3;
            let ni = if lat { *r.pick(&[2usize, 4, 8, 3, 5, 6]) } else { 2 + r.below(7) as usize };
            let nj = if lat { *r.pick(&[2usize, 4, 8, 3, 5, 6]) } else { 2 + r.below(7) as usize };
            let (wx, wz) = if lat { (*r.pick(&[0.5, 1.0, 2.0]), *r.pick(&[0.5, 1.0, 2.0])) } else { (r.uniform(0.3, 3.0), r.uniform(0.3, 3.0)) };
            let sc = dx::Vector::new(nj as f64 * wx, *r.pick(&[0.5, 1.0, 2.0]), ni as f64 * wz);
            let hmin = *r.pick(&[0.0, -0.5, 0.25]); let hmax = hmin + *r.pick(&[0.5, 1.0, 2.0, 0.0]);
            let he = if lat { dx::Vector::new(wx * *r.pick(&[0.25, 0.5, 1.0, 1.5]), *r.pick(&[0.25, 0.5]), wz * *r.pick(&[0.25, 0.5, 1.0, 1.5])) }
                     else { dx::Vector::new(wx * r.uniform(0.1, 1.6), r.uniform(0.1, 1.0), wz * r.uniform(0.1, 1.6)) };
            let target = match r.below(3) { 0 => 0.0, 1 => 0.125, _ => if lat { 0.25 } else { r.uniform(0.01, 0.5) } };
            let sgn = |r: &mut Rng| if r.bool() { 1.0 } else { -1.0 };
            let mut vel = dx::Vector::zeros();
            let (a0, a1) = if r.bool() { (0, 2) } else { (2, 0) };
            match r.below(8) {
                0 | 1 => { vel[a0] = sgn(r); }
                2 => { vel[a0] = sgn(r); vel[a1] = sgn(r); }
                3 => { vel[a0] = sgn(r); vel[a1] = sgn(r) * 0.5; }
                4 => { vel[a0] = sgn(r); vel[a1] = sgn(r) / 16.0; }
                5 => { vel[a0] = sgn(r) * r.uniform(0.2, 1.0); vel[a1] = sgn(r) * r.uniform(0.2, 1.0); }
                6 => { vel[a0] = sgn(r) * wx; vel[a1] = sgn(r) * wz; if a0 == 2 { vel[a0] = sgn(r) * wz; vel[a1] = sgn(r) * wx; } }   // through the grid points
                _ => { if r.bool() { vel[a0] = sgn(r) * 0.0; } }                                           // no horizontal motion (signed zeros)
            }
            let line = |n: usize, s: f64, l: f64| (-0.5 + (1.0 / (n as f64 + 1.0 - 1.0)) * l) * s;
            let mut t = dx::Vector::zeros();
            for (ax, n, s) in [(0usize, nj, sc.x), (2usize, ni, sc.z)] {
                let l = match r.below(6) { 0 => r.range(-2, -1), 1 => n as i64 + r.range(1, 2), _ => r.range(0, n as i64) } as f64;
                let frac = match r.below(5) { 0 | 1 | 2 => 0.0, 3 => 0.5, _ => if lat { 0.25 } else { r.unit() } };
                // outside starts fly inwards most of the time
                if (l < 0.0 && vel[ax] < 0.0 || l > n as f64 && vel[ax] > 0.0) && r.below(4) != 0 { vel[ax] = -vel[ax]; }
                t[ax] = line(n, s, l + frac);
                if frac == 0.0 && t[ax] != 0.0 && r.below(8) == 0 { t[ax] = f64::from_bits((t[ax].to_bits() as i64 + r.range(-2, 2)) as u64); }   // an ulp or two off the line
            }
            let (y0, y1) = (hmin * sc.y, hmax * sc.y);
            let hv = vel.norm();
            match r.below(6) {
                0 | 1 | 2 => { t.y = y0 + (y1 - y0) * *r.pick(&[0.0, 0.5, 1.0]) + he.y * *r.pick(&[-0.5, 0.0, 0.5, 1.0]); vel.y = hv * *r.pick(&[0.0, 0.0, -1.0 / 16.0, 1.0 / 32.0]); }
                3 => { t.y = y1 + he.y + target + *r.pick(&[0.5, 2.0]); vel.y = -(hv.max(0.25)) * *r.pick(&[0.25, 1.0, 1.0 / 16.0]); }   // comes down
                4 => { t.y = y1 + he.y + target + *r.pick(&[0.0, 0.5]); vel.y = 0.0; }                                             // flies over (touching / above)
                _ => { t.y = y0 - he.y - target - 1.0; vel.y = hv.max(0.5) * 0.5; }                                                   // comes up from below
            }
            vel *= if lat { *r.pick(&[0.5, 1.0, 4.0]) } else { r.logu(0.2, 20.0) };
            let mut m = match r.below(5) { 0 => dx::gen_iso(r, true, 0.0), 1 => dx::gen_iso(r, false, 0.0), _ => dx::Isometry::identity() };
            m.translation.vector = t;
            let max_toi = *r.pick(&[0.5, 2.0, 8.0, 64.0, 1.0e4, f64::MAX]);
            v.push(("hfwalk".to_string(), format!("{} {} {} {} {} {} {} {} {} {}", ni, nj, hx(hmin), hx(hmax), dx::hv(&sc), dx::hiso(&m), dx::hv(&vel), dx::hv(&he), hx(max_toi), hx(target))));
        }
        v
    }
    /// small triangle mesh: a bumpy 3x3 .. 4x4 grid, or a tetrahedron
    pub fn gen_trimesh_tok(r: &mut Rng, lat: bool) -> (String, Vec<dx::Point<f64>>) {
        let mut pts = Vec::new(); let mut idx: Vec<[usize; 3]> = Vec::new();
        if r.below(4) == 0 {
            let s = if lat { 2.0 } else { r.uniform(1.0, 3.0) };
            pts = vec![dx::Point::new(s, s, s), dx::Point::new(s, -s, -s), dx::Point::new(-s, s, -s), dx::Point::new(-s, -s, s)];
            idx = vec![[0, 1, 2], [0, 3, 1], [0, 2, 3], [1, 3, 2]];
        } else {
            let n = 3 + r.below(2) as usize; let w = if lat { 2.0 } else { r.uniform(1.0, 2.5) };
            for i in 0..n { for j in 0..n {
                let h = if lat { r.range(-2, 2) as f64 * 0.25 } else { r.uniform(-0.6, 0.6) };
                pts.push(dx::Point::new((j as f64 - (n - 1) as f64 * 0.5) * w, h, (i as f64 - (n - 1) as f64 * 0.5) * w)); } }
            for i in 0..n - 1 { for j in 0..n - 1 { let a = i * n + j; idx.push([a, a + n, a + 1]); idx.push([a + 1, a + n, a + n + 1]); } }
        }
        let tok = format!("tm {} {} {} {}", pts.len(), pts.iter().map(|p| dx::hp(p)).collect::<Vec<_>>().join(" "), idx.len(),
                          idx.iter().map(|t| format!("{} {} {}", t[0], t[1], t[2])).collect::<Vec<_>>().join(" "));
        (tok, pts)
    }
    pub fn axis(i: usize, s: f64) -> dx::Vector<f64> { let mut v = dx::Vector::zeros(); v[i % 3] = s; v }
    /// a vector orthogonal to `v` (not normalised), lattice-friendly
    pub fn ortho(v: &dx::Vector<f64>) -> dx::Vector<f64> {
        if v.x.abs() <= v.y.abs() && v.x.abs() <= v.z.abs() { dx::Vector::new(0.0, -v.z, v.y) }
        else if v.y.abs() <= v.z.abs() { dx::Vector::new(-v.z, 0.0, v.x) } else { dx::Vector::new(-v.y, v.x, 0.0) }
    }
    pub fn lat_units() -> Vec<dx::Vector<f64>> {
        vec![dx::Vector::new(1.0, 0.0, 0.0), dx::Vector::new(0.0, -1.0, 0.0), dx::Vector::new(0.0, 0.0, 1.0), dx::Vector::new(-0.0, 1.0, -0.0),
             dx::Vector::new(0.6, 0.8, 0.0), dx::Vector::new(0.0, -0.6, 0.8), dx::Vector::new(-0.8, 0.0, 0.6),
             dx::Vector::new(1.0, 1.0, 0.0).normalize(), dx::Vector::new(1.0, -1.0, 1.0).normalize(), dx::Vector::new(2.0, 3.0, 6.0) / 7.0]
    }
    pub fn pyth() -> Vec<(dx::Vector<f64>, f64)> {
        vec![(dx::Vector::new(3.0, 4.0, 0.0), 5.0), (dx::Vector::new(0.0, -3.0, 4.0), 5.0), (dx::Vector::new(2.0, 3.0, 6.0), 7.0),
             (dx::Vector::new(-1.0, 2.0, 2.0), 3.0), (dx::Vector::new(4.0, 0.0, 0.0), 4.0), (dx::Vector::new(0.0, 0.0, -2.5), 2.5),
             (dx::Vector::new(1.0, 4.0, 8.0), 9.0), (dx::Vector::new(-6.0, 8.0, 0.0), 10.0)]
    }
    include!("c06_dim.rs");
    include!("c06_gen.rs");
}

pub mod m2 {
    use crate::util::*;
    use crate::p2 as px;
    use crate::util::d2 as dx;
    pub const DIM: usize = 2;
    pub fn zero_angvel() -> f64 { 0.0 }
    pub fn fiso(m: &dx::Isometry<f64>) -> String {
        format!("{} {} {}", ff(m.rotation.re), ff(m.rotation.im), dx::fv(&m.translation.vector))
    }
    pub fn convex(pts: &[dx::Point<f64>]) -> Box<dyn px::shape::Shape> {
        Box::new(px::shape::ConvexPolygon::from_convex_hull(pts).expect("convex hull"))
    }
    /// `hf n <heights> sx sy nrem idx*nrem`
    pub fn heightfield(a: &mut Args) -> Box<dyn px::shape::Shape> {
        let n = a.u();
        let hs: Vec<f64> = (0..n).map(|_| a.f()).collect();
        let sc = dx::v(a);
        let mut hf = px::shape::HeightField::new(px::na::DVector::from_column_slice(&hs), sc);
        let nrem = a.u();
        for _ in 0..nrem { let i = a.u(); hf.set_segment_removed(i, true); }
        Box::new(hf)
    }
    pub fn hf_parts(h: &px::shape::HeightField) -> Vec<(dx::Isometry<f64>, Box<dyn px::shape::Shape>)> {
        h.segments().map(|t| (dx::Isometry::identity(), Box::new(t) as Box<dyn px::shape::Shape>)).collect()
    }
    pub fn trimesh(pts: Vec<dx::Point<f64>>, idx: Vec<[u32; 3]>) -> Box<dyn px::shape::Shape> {
        Box::new(px::shape::TriMesh::new(pts, idx).expect("trimesh"))
    }
    pub struct HfInfo { pub tok: String, pub half: [f64; 2], pub cw: [f64; 2], pub top: f64, pub haxes: Vec<usize> }
    pub fn gen_hf(r: &mut Rng, lat: bool) -> HfInfo {
        let n = 4 + r.below(6) as usize;
        let hs: Vec<f64> = (0..n).map(|_| if lat { r.range(-2, 2) as f64 * 0.25 } else { r.uniform(-0.5, 0.5) }).collect();
        let sc = if lat { dx::Vector::new(*r.pick(&[4.0, 8.0, 12.0]), *r.pick(&[0.5, 1.0, 2.0])) } else { dx::Vector::new(r.uniform(4.0, 14.0), r.uniform(0.5, 2.0)) };
        let mut rem = Vec::new();
        for i in 0..n - 1 { if r.below(6) == 0 { rem.push(format!("{}", i)); } }
        let top = hs.iter().cloned().fold(f64::MIN, f64::max) * sc.y;
        let tok = format!("hf {} {} {} {}{}{}", n, hxs(hs.iter()), dx::hv(&sc), rem.len(), if rem.is_empty() { "" } else { " " }, rem.join(" "));
        HfInfo { tok, half: [sc.x * 0.5, 0.0], cw: [sc.x / (n - 1) as f64, 1.0], top, haxes: vec![0] }
    }
    /// height field from a height function on the sample grid (`nz`, `sz` and the second index are unused in 2-D)
    pub fn hf_grid_tok(nx: usize, _nz: usize, h: &dyn Fn(usize, usize) -> f64, sx: f64, sy: f64, _sz: f64, st: &[(usize, usize, u8)]) -> String {
        let hs: Vec<f64> = (0..nx).map(|j| h(j, 1)).collect();
        let mut rem: Vec<usize> = st.iter().map(|x| x.0).collect(); rem.sort(); rem.dedup();
        let rs: Vec<String> = rem.iter().map(|x| format!("{}", x)).collect();
        format!("hf {} {} {} {}{}{}", nx, hxs(hs.iter()), dx::hv(&dx::Vector::new(sx, sy)), rs.len(), if rs.is_empty() { "" } else { " " }, rs.join(" "))
    }
    /// the grid-line coordinates of the height field (end points of its cells, computed as the cast computes them)
    pub fn hf_lines(h: &px::shape::HeightField) -> Vec<Vec<f64>> {
        vec![(0..=h.num_cells()).map(|j| h.cell_width() * (j as f64) + h.start_x()).collect()]
    }
    pub const HAXES: [usize; 1] = [0];
    /// the cell a segment handed to the dispatcher belongs to (exact vertex comparison); reported as `(0, j)`
    pub fn hf_cell_of(h: &px::shape::HeightField, g: &dyn px::shape::Shape) -> Option<(usize, usize)> {
        let t = g.as_segment()?;
        for j in 0..h.num_cells() { if let Some(c) = h.segment_at(j) { if c.a == t.a && c.b == t.b { return Some((0, j)); } } }
        None
    }
    /// `hfwalk`: the trace of the real 2-D height-field cast (segments handed to the dispatcher), reported as cells `(0, j)`
    /// args: `nh h_0 .. h_{nh-1} sx sy nrem idx.. <iso2 pos12> vx vy hex hey max_toi target`
    pub fn hfwalk_exec(a: &mut Args) -> String {
        let sh = heightfield(a);
        let hf = match sh.as_heightfield() { Some(h) => h, None => return "nofn".into() };
        let pos12 = dx::iso(a); let vel = dx::v(a); let he = dx::v(a); let max_toi = a.f(); let target = a.f();
        let o = ShapeCastOptions { max_time_of_impact: max_toi, target_distance: target, stop_at_penetration: true, compute_impact_geometry_on_penetration: false };
        let rec = RecDispatcher { log: std::sync::Mutex::new(Vec::new()) };
        let g2 = Cuboid::new(he);
        let _ = px::query::details::cast_shapes_heightfield_shape(&rec, &pos12, &vel, hf, &g2, o);
        let log = rec.log.lock().unwrap();
        let mut cells = Vec::new();
        for g in log.iter() {
            match hf_cell_of(hf, &**g) { Some(c) => cells.push(c), None => return "unknown-segment".into() }
        }
        let mut s = format!("cells {}", cells.len());
        for (i, j) in cells { s.push_str(&format!(" {} {}", i, j)); }
        s
    }
    /// families (printed with C06_FAMILIES=1): start on a grid line / half / quarter cell / an ulp off a line, inside, at the
    /// borders and outside the field (flying in or away), right / left / no horizontal motion (signed zeros), removed segments,
    /// rotated cuboids, `max_time_of_impact` generic, huge, and EXACTLY at / one ulp around the time at which the leading face of
    /// the box reaches a grid line (the tie of the loop's `>=` break)
    /// `hfbest`: the real 2-D height-field cast run with scripted part-cast answers; args = `hfwalk` args + script
    pub fn hfbest_exec(a: &mut Args) -> String {
        let sh = heightfield(a);
        let hf = match sh.as_heightfield() { Some(h) => h, None => return "nofn".into() };
        let pos12 = dx::iso(a); let vel = dx::v(a); let he = dx::v(a); let max_toi = a.f(); let target = a.f();
        let script = parse_script(a);
        let o = ShapeCastOptions { max_time_of_impact: max_toi, target_distance: target, stop_at_penetration: true, compute_impact_geometry_on_penetration: false };
        let d = ScriptDispatcher { script, calls: std::sync::Mutex::new(0) };
        let r = px::query::details::cast_shapes_heightfield_shape(&d, &pos12, &vel, hf, &Cuboid::new(he), o);
        fmt_script_result(r, &d)
    }
    pub fn gen_hfbest(r: &mut Rng, thorough: bool) -> Vec<(String, String)> {
        let mut v = Vec::new();
        for (_, a) in gen_hfwalk_n(r, if thorough { 6000 } else { 600 }, false) { let s = gen_script(r); v.push(("hfbest".to_string(), format!("{} {}", a, s))); }
        v
    }
    pub fn gen_hfwalk(r: &mut Rng, thorough: bool) -> Vec<(String, String)> { gen_hfwalk_n(r, if thorough { 12000 } else { 1200 }, true) }
    pub fn gen_hfwalk_n(r: &mut Rng, count: usize, print_fam: bool) -> Vec<(String, String)> {
        let mut v = Vec::new();
        let mut fam: std::collections::BTreeMap<String, usize> = Default::default();
        for it in 0..count {
            let lat = it % 4 != 3;
            let n = if lat { *r.pick(&[2usize, 4, 8, 3, 5, 6, 1]) } else { 1 + r.below(9) as usize };
            let w = if lat { *r.pick(&[0.5, 1.0, 2.0]) } else { r.uniform(0.3, 3.0) };
            let sc = dx::Vector::new(n as f64 * w, *r.pick(&[0.5, 1.0, 2.0]));
            let hs: Vec<f64> = (0..=n).map(|_| if lat { r.range(-2, 2) as f64 * 0.25 } else { r.uniform(-0.5, 0.5) }).collect();
            let mut rem = Vec::new();
            for i in 0..n { if r.below(6) == 0 { rem.push(format!("{}", i)); } }
            let he = if lat { dx::Vector::new(w * *r.pick(&[0.25, 0.5, 1.0, 1.5]), *r.pick(&[0.25, 0.5])) } else { dx::Vector::new(w * r.uniform(0.1, 1.6), r.uniform(0.1, 1.0)) };
            let target = match r.below(3) { 0 => 0.0, 1 => 0.125, _ => if lat { 0.25 } else { r.uniform(0.01, 0.5) } };
            let sgn = |r: &mut Rng| if r.bool() { 1.0 } else { -1.0 };
            let mut vel = dx::Vector::zeros();
            let fv = match r.below(8) {
                0 | 1 | 2 => { vel.x = sgn(r); "axis" }
                3 => { vel.x = sgn(r); vel.y = sgn(r) * 0.5; "oblique" }
                4 => { vel.x = sgn(r) / 16.0; vel.y = sgn(r); "steep" }
                5 => { vel.x = sgn(r) * r.uniform(0.2, 1.0); vel.y = sgn(r) * r.uniform(0.0, 1.0); "random" }
                6 => { vel.x = sgn(r) * w; vel.y = -0.25; "cell-per-unit" }
                _ => { vel.x = sgn(r) * 0.0; vel.y = -1.0; "vertical" }
            };
            let line = |l: f64| (-0.5 + (1.0 / (n as f64 + 1.0 - 1.0)) * l) * sc.x;
            let l = match r.below(6) { 0 => r.range(-3, -1), 1 => n as i64 + r.range(1, 3), _ => r.range(0, n as i64) } as f64;
            let frac = match r.below(5) { 0 | 1 | 2 => 0.0, 3 => 0.5, _ => if lat { 0.25 } else { r.unit() } };
            let fs = if l < 0.0 || l > n as f64 { if (l < 0.0) == (vel.x > 0.0) { "outside-in" } else { "outside-away" } } else if frac == 0.0 { "on-line" } else { "in-cell" };
            let mut t = dx::Vector::zeros();
            t.x = line(l + frac);
            if frac == 0.0 && t.x != 0.0 && r.below(8) == 0 { t.x = f64::from_bits((t.x.to_bits() as i64 + r.range(-2, 2)) as u64); }
            let top = hs.iter().cloned().fold(f64::MIN, f64::max) * sc.y; let bot = hs.iter().cloned().fold(f64::MAX, f64::min) * sc.y;
            t.y = match r.below(4) { 0 => top + he.y + target + *r.pick(&[0.0, 0.5, 2.0]), 1 => bot - he.y - target - 1.0, _ => bot + (top - bot) * *r.pick(&[0.0, 0.5, 1.0]) };
            vel *= if lat { *r.pick(&[0.5, 1.0, 4.0]) } else { r.logu(0.2, 20.0) };
            let mut m = match r.below(5) { 0 => dx::gen_iso(r, true, 0.0), 1 => dx::gen_iso(r, false, 0.0), _ => dx::Isometry::identity() };
            m.translation.vector = t;
            // the box exactly as the cast computes it: the tie values of max_toi come from its leading face
            let bb = { use px::bounding_volume::BoundingVolume; Cuboid::new(he).aabb(&m).loosened(target) };
            let (fm, max_toi) = match r.below(8) {
                0 | 1 | 2 if vel.x != 0.0 => {
                    // time at which the leading face reaches a grid line ahead (k lines ahead of the box), exactly / an ulp around
                    let lead = if vel.x > 0.0 { bb.maxs.x } else { bb.mins.x };
                    let cur = ((lead / sc.x + 0.5) * n as f64).floor();
                    let k = cur + if vel.x > 0.0 { r.range(1, 3) as f64 } else { -(r.range(0, 2) as f64) };
                    let tt = (line(k) - lead) / vel.x;
                    let tt = if tt.is_finite() && tt > 0.0 { f64::from_bits((tt.to_bits() as i64 + *r.pick(&[0i64, 0, 1, -1, 4, -4])) as u64) } else { 1.0 };
                    ("max-at-line-arrival", tt)
                }
                3 => ("max-huge", f64::MAX),
                _ => ("max-generic", *r.pick(&[0.5, 2.0, 8.0, 64.0, 1.0e4])),
            };
            *fam.entry(format!("hfwalk2 {} {} {}", fv, fs, fm)).or_insert(0) += 1;
            v.push(("hfwalk".to_string(), format!("{} {} {} {}{}{} {} {} {} {} {}", n + 1, hxs(hs.iter()), dx::hv(&sc), rem.len(), if rem.is_empty() { "" } else { " " }, rem.join(" "),
                dx::hiso(&m), dx::hv(&vel), dx::hv(&he), hx(max_toi), hx(target))));
        }
        if print_fam && std::env::var("C06_FAMILIES").is_ok() { for (k, c) in &fam { eprintln!("family {} {}", k, c); } }
        v
    }
    /// small 2-D triangle mesh: a fan / strip of triangles
    pub fn gen_trimesh_tok(r: &mut Rng, lat: bool) -> (String, Vec<dx::Point<f64>>) {
        let n = 3 + r.below(3) as usize; let w = if lat { 2.0 } else { r.uniform(1.0, 2.5) };
        let mut pts = Vec::new(); let mut idx: Vec<[usize; 3]> = Vec::new();
        for j in 0..n { let h = if lat { r.range(0, 3) as f64 * 0.5 } else { r.uniform(0.0, 1.5) };
            pts.push(dx::Point::new((j as f64 - (n - 1) as f64 * 0.5) * w, -1.0 - h)); pts.push(dx::Point::new((j as f64 - (n - 1) as f64 * 0.5) * w, 1.0 + h)); }
        for j in 0..n - 1 { let a = 2 * j; idx.push([a, a + 2, a + 1]); idx.push([a + 1, a + 2, a + 3]); }
        let tok = format!("tm {} {} {} {}", pts.len(), pts.iter().map(|p| dx::hp(p)).collect::<Vec<_>>().join(" "), idx.len(),
                          idx.iter().map(|t| format!("{} {} {}", t[0], t[1], t[2])).collect::<Vec<_>>().join(" "));
        (tok, pts)
    }
    pub fn axis(i: usize, s: f64) -> dx::Vector<f64> { let mut v = dx::Vector::zeros(); v[i % 2] = s; v }
    pub fn ortho(v: &dx::Vector<f64>) -> dx::Vector<f64> { dx::Vector::new(-v.y, v.x) }
    pub fn lat_units() -> Vec<dx::Vector<f64>> {
        vec![dx::Vector::new(1.0, 0.0), dx::Vector::new(0.0, -1.0), dx::Vector::new(-1.0, -0.0), dx::Vector::new(-0.0, 1.0),
             dx::Vector::new(0.6, 0.8), dx::Vector::new(-0.8, 0.6), dx::Vector::new(0.28, -0.96),
             dx::Vector::new(1.0, 1.0).normalize(), dx::Vector::new(1.0, -1.0).normalize()]
    }
    pub fn pyth() -> Vec<(dx::Vector<f64>, f64)> {
        vec![(dx::Vector::new(3.0, 4.0), 5.0), (dx::Vector::new(-4.0, 3.0), 5.0), (dx::Vector::new(5.0, -12.0), 13.0),
             (dx::Vector::new(4.0, 0.0), 4.0), (dx::Vector::new(0.0, -2.5), 2.5), (dx::Vector::new(-6.0, -8.0), 10.0),
             (dx::Vector::new(0.75, 1.0), 1.25), (dx::Vector::new(7.0, 24.0), 25.0)]
    }
    include!("c06_dim.rs");
    include!("c06_gen.rs");
}

pub fn exec(func: &str, a: &mut Args) -> String {
    if let Some(f) = func.strip_suffix('3') { m3::exec(f, a) }
    else if let Some(f) = func.strip_suffix('2') { m2::exec(f, a) }
    else { "nofn".into() }
}

pub fn gen(r: &mut Rng, thorough: bool) -> Vec<(String, String)> {
    let mut v = Vec::new();
    for (f, a) in m3::gen(r, thorough) { v.push((format!("{}3", f), a)); }
    for (f, a) in m2::gen(r, thorough) { v.push((format!("{}2", f), a)); }
    v
}
