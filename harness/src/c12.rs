//! C12: convex hulls.
use crate::util::*;
use crate::p2::transformation::convex_hull_idx as hull2_idx;
use crate::p3::transformation::try_convex_hull;

pub fn exec(func: &str, a: &mut Args) -> String {
    match func {
        "hull2" => { let n = a.u(); let pts: Vec<_> = (0..n).map(|_| d2::p(a)).collect();
            let idx = hull2_idx(&pts); format!("{} {}", idx.len(), idx.iter().map(|i| i.to_string()).collect::<Vec<_>>().join(" ")).trim().to_string() }
        "hull2_idem" => { let n = a.u(); let pts: Vec<_> = (0..n).map(|_| d2::p(a)).collect();
            let h1: Vec<_> = hull2_idx(&pts).into_iter().map(|i| pts[i]).collect();
            let h2: Vec<_> = hull2_idx(&h1).into_iter().map(|i| h1[i]).collect();
            format!("{} {} {} {}", h1.len(), h1.iter().map(d2::fp).collect::<Vec<_>>().join(" "), h2.len(), h2.iter().map(d2::fp).collect::<Vec<_>>().join(" ")) }
        "hull3" => { let n = a.u(); let pts: Vec<_> = (0..n).map(|_| d3::p(a)).collect();
            match try_convex_hull(&pts) {
                Err(e) => format!("err {:?}", e).replace(' ', "_").replacen("err_", "err ", 1),
                Ok((v, t)) => format!("{} {} {} {}", v.len(), v.iter().map(d3::fp).collect::<Vec<_>>().join(" "), t.len(),
                    t.iter().map(|t| format!("{} {} {}", t[0], t[1], t[2])).collect::<Vec<_>>().join(" ")) } }
        _ => "nofn".into(),
    }
}

fn cloud2(r: &mut Rng, kind: u64, n: usize) -> Vec<d2::Point<f64>> {
    (0..n).map(|i| match kind {
        0 => d2::Point::new(r.range(-8, 8) as f64, r.range(-8, 8) as f64),                  // lattice with duplicates / collinear runs
        1 => { let a = r.uniform(0.0, 6.283); d2::Point::new(a.cos() * 3.0, a.sin() * 3.0) }   // on a circle
        2 => d2::Point::new(r.uniform(-100.0, 100.0), r.uniform(-100.0, 100.0)),
        3 => d2::Point::new(r.lattice(64, 3), r.lattice(64, 3)),
        4 => d2::Point::new(r.logu(1e-3, 1e3) * if r.bool() { -1.0 } else { 1.0 }, r.logu(1e-3, 1e3) * if r.bool() { -1.0 } else { 1.0 }), // several orders of magnitude
        5 => { let t = i as f64; d2::Point::new(t, if i % 2 == 0 { 0.0 } else { r.range(0, 1) as f64 }) }  // long collinear runs
        _ => { let c = r.range(-2, 2) as f64; d2::Point::new(c, c * 2.0 + 1.0) }              // all collinear (degenerate)
    }).collect()
}
fn cloud3(r: &mut Rng, kind: u64, n: usize) -> Vec<d3::Point<f64>> {
    (0..n).map(|_| match kind {
        0 => d3::Point::new(r.range(-4, 4) as f64, r.range(-4, 4) as f64, r.range(-4, 4) as f64),
        1 => { let v = d3::gen_v(r, false, 1.0); let n = v.norm().max(1e-3); d3::Point::from(v / n * 2.0) }  // on a sphere
        2 => d3::gen_p(r, false, 100.0),
        3 => d3::Point::new(r.lattice(16, 2), r.lattice(16, 2), r.lattice(16, 2)),
        4 => { // voxel-corner-like: half-integer lattice scaled
            let s = 0.18181818181818182; d3::Point::new((r.range(0, 10) as f64 - 0.5) * s, (r.range(0, 10) as f64 - 0.5) * s, (r.range(0, 10) as f64 - 0.5) * s) }
        _ => d3::Point::new(r.logu(1e-2, 1e2), r.logu(1e-2, 1e2) * if r.bool() { -1.0 } else { 1.0 }, r.uniform(-1.0, 1.0)),
    }).collect()
}

pub fn gen(r: &mut Rng, thorough: bool) -> Vec<(String, String)> {
    let n = if thorough { 1500 } else { 300 };
    let mut v = Vec::new();
    for it in 0..n {
        let kind = r.below(7);
        let np = if r.below(10) == 0 { 3 + r.below(if thorough { 2000 } else { 400 }) as usize } else { 3 + r.below(40) as usize };
        let pts = cloud2(r, kind, np);
        let s = format!("{} {}", pts.len(), pts.iter().map(d2::hp).collect::<Vec<_>>().join(" "));
        v.push(("hull2".into(), s.clone()));
        if it % 4 == 0 { v.push(("hull2_idem".into(), s)); }
        if it % 3 == 0 {
            let k3 = r.below(6);
            let np3 = if r.below(8) == 0 { 4 + r.below(if thorough { 1500 } else { 300 }) as usize } else { 4 + r.below(60) as usize };
            let p3 = cloud3(r, k3, np3);
            v.push(("hull3".into(), format!("{} {}", p3.len(), p3.iter().map(d3::hp).collect::<Vec<_>>().join(" "))));
        }
    }
    // degenerate corners
    v.push(("hull2".into(), format!("1 {}", d2::hp(&d2::Point::new(1.0, 2.0)))));
    v.push(("hull2".into(), format!("3 {0} {0} {0}", d2::hp(&d2::Point::new(1.0, 2.0)))));
    v
}
