//! C12: convex hulls.
use crate::util::*;
use crate::p2::transformation::convex_hull_idx as hull2_idx;
use crate::p3::transformation::try_convex_hull;

pub fn exec(func: &str, a: &mut Args) -> String {
    match func {
        "hull2" => { let n = a.u(); let pts: Vec<_> = (0..n).map(|_| d2::p(a)).collect();
            let idx = hull2_idx(&pts); format!("{} {}", idx.len(), idx.iter().map(|i| i.to_string()).collect::<Vec<_>>().join(" ")).trim().to_string() }
        "hull2_idem" => { let n = a.u(); let pts: Vec<_> = (0..n).map(|_| d2::p(a)).collect();
            let h1: Vec<_> = hull2_idx(&pts).into_iter().map(|i| pts[i]).collect();
            let h2: Vec<_> = hull2_idx(&h1).into_iter().map(|i| h1[i]).collect();
            format!("{} {} {} {}", h1.len(), h1.iter().map(d2::fp).collect::<Vec<_>>().join(" "), h2.len(), h2.iter().map(d2::fp).collect::<Vec<_>>().join(" ")) }
        "convex_polygon" => { let n = a.u(); let pts: Vec<_> = (0..n).map(|_| d2::p(a)).collect();
            match crate::p2::shape::ConvexPolygon::from_convex_hull(&pts) { None => "none".into(),
                Some(p) => format!("{} {} {} {}", p.points().len(), p.points().iter().map(d2::fp).collect::<Vec<_>>().join(" "),
                    p.normals().len(), p.normals().iter().map(|n| d2::fv(&n.into_inner())).collect::<Vec<_>>().join(" ")) } }
        "hull3" => { let n = a.u(); let pts: Vec<_> = (0..n).map(|_| d3::p(a)).collect();
            match try_convex_hull(&pts) {
                Err(e) => format!("err {:?}", e).replace(' ', "_").replacen("err_", "err ", 1),
                Ok((v, t)) => format!("{} {} {} {}", v.len(), v.iter().map(d3::fp).collect::<Vec<_>>().join(" "), t.len(),
                    t.iter().map(|t| format!("{} {} {}", t[0], t[1], t[2])).collect::<Vec<_>>().join(" ")) } }
        _ => "nofn".into(),
    }
}

fn cloud2(r: &mut Rng, kind: u64, n: usize) -> Vec<d2::Point<f64>> {
    (0..n).map(|i| match kind {
        0 => d2::Point::new(r.range(-8, 8) as f64, r.range(-8, 8) as f64),                  // lattice with duplicates / collinear runs
        1 => { let a = r.uniform(0.0, 6.283); d2::Point::new(a.cos() * 3.0, a.sin() * 3.0) }   // on a circle
        2 => d2::Point::new(r.uniform(-100.0, 100.0), r.uniform(-100.0, 100.0)),
        3 => d2::Point::new(r.lattice(64, 3), r.lattice(64, 3)),
        4 => d2::Point::new(r.logu(1e-3, 1e3) * if r.bool() { -1.0 } else { 1.0 }, r.logu(1e-3, 1e3) * if r.bool() { -1.0 } else { 1.0 }), // several orders of magnitude
        5 => { let t = i as f64; d2::Point::new(t, if i % 2 == 0 { 0.0 } else { r.range(0, 1) as f64 }) }  // long collinear runs
        7 => { // every point duplicated, large coordinates (rounding makes a duplicate "visible")
            let base = (i / 2) as u64; let mut rr = Rng::new(base.wrapping_mul(7919) ^ n as u64);
            d2::Point::new(rr.uniform(100.0, 9000.0), rr.uniform(100.0, 9000.0)) }
        8 => { // shuffled small lattice: the first-listed maximal-x point may be mid-edge
            d2::Point::new(r.range(-1, 1) as f64, r.range(-1, 1) as f64) }
        _ => { let c = r.range(-2, 2) as f64; d2::Point::new(c, c * 2.0 + 1.0) }              // all collinear (degenerate)
    }).collect()
}
fn cloud3(r: &mut Rng, kind: u64, n: usize) -> Vec<d3::Point<f64>> {
    (0..n).map(|_| match kind {
        0 => d3::Point::new(r.range(-4, 4) as f64, r.range(-4, 4) as f64, r.range(-4, 4) as f64),
        1 => { let v = d3::gen_v(r, false, 1.0); let n = v.norm().max(1e-3); d3::Point::from(v / n * 2.0) }  // on a sphere
        2 => d3::gen_p(r, false, 100.0),
        3 => d3::Point::new(r.lattice(16, 2), r.lattice(16, 2), r.lattice(16, 2)),
        4 => { // voxel-corner-like: half-integer lattice scaled
            let s = 0.18181818181818182; d3::Point::new((r.range(0, 10) as f64 - 0.5) * s, (r.range(0, 10) as f64 - 0.5) * s, (r.range(0, 10) as f64 - 0.5) * s) }
        _ => d3::Point::new(r.logu(1e-2, 1e2), r.logu(1e-2, 1e2) * if r.bool() { -1.0 } else { 1.0 }, r.uniform(-1.0, 1.0)),
    }).collect()
}
/// structured degenerate families: pyramids / bipyramids / prisms over regular k-gons (many coplanar hull vertices)
fn solid3(r: &mut Rng) -> Vec<d3::Point<f64>> {
    let k = 3 + r.below(12) as usize;
    let h = *r.pick(&[0.2, 0.44, 0.6, 1.0, 2.5]);
    let rad = *r.pick(&[1.0, 2.0, 0.5]);
    let ring = |y: f64| -> Vec<d3::Point<f64>> { (0..k).map(|i| { let a = 2.0 * std::f64::consts::PI * i as f64 / k as f64; d3::Point::new(rad * a.cos(), y, rad * a.sin()) }).collect() };
    let mut pts = match r.below(3) {
        0 => { let mut p = ring(0.0); p.push(d3::Point::new(0.0, h, 0.0)); p }
        1 => { let mut p = ring(0.0); p.push(d3::Point::new(0.0, h, 0.0)); p.push(d3::Point::new(0.0, -h, 0.0)); p }
        _ => { let mut p = ring(0.0); p.extend(ring(h)); p }
    };
    // a few interior points, random order
    for _ in 0..r.below(4) { pts.push(d3::Point::new(r.uniform(-0.2, 0.2) * rad, h * 0.3, r.uniform(-0.2, 0.2) * rad)); }
    for i in (1..pts.len()).rev() { let j = r.below(i as u64 + 1) as usize; pts.swap(i, j); }
    if r.bool() { let lt = r.bool(); let iso = d3::gen_iso(r, lt, 5.0); for p in pts.iter_mut() { *p = iso * *p; } }
    pts
}

pub fn gen(r: &mut Rng, thorough: bool) -> Vec<(String, String)> {
    let n = if thorough { 900 } else { 300 };
    let mut v = Vec::new();
    for it in 0..n {
        let kind = r.below(10);
        let np = if r.below(10) == 0 { 3 + r.below(if thorough { 1200 } else { 400 }) as usize } else { 3 + r.below(40) as usize };
        let pts = cloud2(r, kind, np);
        let s = format!("{} {}", pts.len(), pts.iter().map(d2::hp).collect::<Vec<_>>().join(" "));
        v.push(("hull2".into(), s.clone()));
        if it % 4 == 0 { v.push(("hull2_idem".into(), s.clone())); }
        if it % 2 == 0 { v.push(("convex_polygon".into(), s)); }
        if it % 3 == 1 { let p3 = solid3(r); v.push(("hull3".into(), format!("{} {}", p3.len(), p3.iter().map(d3::hp).collect::<Vec<_>>().join(" ")))); }
        if it % 3 == 0 {
            let k3 = r.below(6);
            let np3 = if r.below(8) == 0 { 4 + r.below(if thorough { 700 } else { 300 }) as usize } else { 4 + r.below(60) as usize };
            let p3 = cloud3(r, k3, np3);
            v.push(("hull3".into(), format!("{} {}", p3.len(), p3.iter().map(d3::hp).collect::<Vec<_>>().join(" "))));
        }
    }
    // degenerate corners
    v.push(("hull2".into(), format!("1 {}", d2::hp(&d2::Point::new(1.0, 2.0)))));
    v.push(("hull2".into(), format!("3 {0} {0} {0}", d2::hp(&d2::Point::new(1.0, 2.0)))));
    v
}
