//! C12: convex hulls.
use crate::util::*;
use crate::p2::transformation::convex_hull_idx as hull2_idx;
use crate::p3::transformation::try_convex_hull;

pub fn exec(func: &str, a: &mut Args) -> String {
    match func {
        "hull2" => { let n = a.u(); let pts: Vec<_> = (0..n).map(|_| d2::p(a)).collect();
            let idx = hull2_idx(&pts); format!("{} {}", idx.len(), idx.iter().map(|i| i.to_string()).collect::<Vec<_>>().join(" ")).trim().to_string() }
        "hull2_idem" => { let n = a.u(); let pts: Vec<_> = (0..n).map(|_| d2::p(a)).collect();
            let h1: Vec<_> = hull2_idx(&pts).into_iter().map(|i| pts[i]).collect();
            let h2: Vec<_> = hull2_idx(&h1).into_iter().map(|i| h1[i]).collect();
            format!("{} {} {} {}", h1.len(), h1.iter().map(d2::fp).collect::<Vec<_>>().join(" "), h2.len(), h2.iter().map(d2::fp).collect::<Vec<_>>().join(" ")) }
        "convex_polygon" => { let n = a.u(); let pts: Vec<_> = (0..n).map(|_| d2::p(a)).collect();
            match crate::p2::shape::ConvexPolygon::from_convex_hull(&pts) { None => "none".into(),
                Some(p) => format!("{} {} {} {}", p.points().len(), p.points().iter().map(d2::fp).collect::<Vec<_>>().join(" "),
                    p.normals().len(), p.normals().iter().map(|n| d2::fv(&n.into_inner())).collect::<Vec<_>>().join(" ")) } }
        // the modelled 3-D quickhull: the eigen-decomposition of the covariance matrix of the normalised cloud (nalgebra's
        // `symmetric_eigen`, not transliterated) is an observed input of the model: `<evec columns, evals> ;; <output>`.
        "hull3m" => { let n = a.u(); let pts: Vec<_> = (0..n).map(|_| d3::p(a)).collect();
            if pts.len() < 3 { return "lowdim".into(); }
            let mut np = pts.clone();
            { // convex_hull_utils::normalize (pub(crate)): same public primitives, same expressions
                let aabb = crate::p3::bounding_volume::details::local_point_cloud_aabb(&*np);
                let diag = d3::na::distance(&aabb.mins, &aabb.maxs);
                let center = aabb.center();
                for c in np.iter_mut() { *c = (*c + (-center.coords)) / diag; } }
            let eig = crate::p3::utils::cov(&np).symmetric_eigen();
            let (evec, eval) = (eig.eigenvectors, eig.eigenvalues);
            let obs = format!("{} {} {} {} {} {}", d3::hv(&evec.column(0).into_owned()), d3::hv(&evec.column(1).into_owned()), d3::hv(&evec.column(2).into_owned()),
                hx(eval[0]), hx(eval[1]), hx(eval[2]));
            let out = { match try_convex_hull(&pts) {
                Err(e) => format!("err {:?}", e).replace(' ', "_").replacen("err_", "err ", 1),
                Ok((v, t)) => format!("{} {} {} {}", v.len(), v.iter().map(d3::fp).collect::<Vec<_>>().join(" "), t.len(),
                    t.iter().map(|t| format!("{} {} {}", t[0], t[1], t[2])).collect::<Vec<_>>().join(" ")) } };
            format!("{} ;; {}", obs, out) }
        // try_convex_hull followed by the maintainers' validator check_convex_hull on its result (same observed input as hull3m)
        "hull3v" => { let n = a.u(); let pts: Vec<_> = (0..n).map(|_| d3::p(a)).collect();
            if pts.len() < 3 { return "lowdim".into(); }
            let mut np = pts.clone();
            { let aabb = crate::p3::bounding_volume::details::local_point_cloud_aabb(&*np);
                let diag = d3::na::distance(&aabb.mins, &aabb.maxs);
                let center = aabb.center();
                for c in np.iter_mut() { *c = (*c + (-center.coords)) / diag; } }
            let eig = crate::p3::utils::cov(&np).symmetric_eigen();
            let (evec, eval) = (eig.eigenvectors, eig.eigenvalues);
            let obs = format!("{} {} {} {} {} {}", d3::hv(&evec.column(0).into_owned()), d3::hv(&evec.column(1).into_owned()), d3::hv(&evec.column(2).into_owned()),
                hx(eval[0]), hx(eval[1]), hx(eval[2]));
            let out = match std::panic::catch_unwind(std::panic::AssertUnwindSafe(|| try_convex_hull(&pts))) {
                Err(_) => "hullpanic".to_string(),
                Ok(Err(e)) => format!("err {:?}", e).replace(' ', "_").replacen("err_", "err ", 1),
                Ok(Ok((v, t))) => {
                    use std::io::Write; use std::os::unix::io::AsRawFd;
                    extern "C" { fn dup(fd: i32) -> i32; fn dup2(a: i32, b: i32) -> i32; fn close(fd: i32) -> i32; }
                    let _ = std::io::stdout().flush();
                    let null = std::fs::OpenOptions::new().write(true).open("/dev/null").expect("devnull");
                    let saved = unsafe { dup(1) };
                    unsafe { dup2(null.as_raw_fd(), 1); }
                    let res = std::panic::catch_unwind(std::panic::AssertUnwindSafe(|| crate::p3::transformation::check_convex_hull(&v, &t)));
                    let _ = std::io::stdout().flush();
                    unsafe { dup2(saved, 1); close(saved); }
                    if res.is_ok() { "ok".into() } else { "panic".into() } } };
            format!("{} ;; {}", obs, out) }
        "hull3" => { let n = a.u(); let pts: Vec<_> = (0..n).map(|_| d3::p(a)).collect();
            match try_convex_hull(&pts) {
                Err(e) => format!("err {:?}", e).replace(' ', "_").replacen("err_", "err ", 1),
                Ok((v, t)) => format!("{} {} {} {}", v.len(), v.iter().map(d3::fp).collect::<Vec<_>>().join(" "), t.len(),
                    t.iter().map(|t| format!("{} {} {}", t[0], t[1], t[2])).collect::<Vec<_>>().join(" ")) } }
        // hull of P and of 2^k * P (exact scaling): the property is scale free, the two runs must describe the same polytope
        "hull3_scale" => { let k = a.i(); let n = a.u(); let pts: Vec<_> = (0..n).map(|_| d3::p(a)).collect();
            let s = (2.0f64).powi(k as i32);
            let scaled: Vec<_> = pts.iter().map(|p| d3::Point::from(p.coords * s)).collect();
            let one = |pts: &[d3::Point<f64>]| match try_convex_hull(pts) {
                Err(e) => format!("err {:?}", e).replace(' ', "_").replacen("err_", "err ", 1),
                Ok((v, t)) => format!("{} {} {} {}", v.len(), v.iter().map(d3::fp).collect::<Vec<_>>().join(" "), t.len(),
                    t.iter().map(|t| format!("{} {} {}", t[0], t[1], t[2])).collect::<Vec<_>>().join(" ")) };
            format!("{} ; {}", one(&pts), one(&scaled)) }
        // ConvexPolyhedron::from_convex_hull: every adjacency table + feature_normal of every feature
        "polyhedron" => { let n = a.u(); let pts: Vec<_> = (0..n).map(|_| d3::p(a)).collect();
            // the hull mesh the polyhedron is built from is an observed internal input of the model (`<mesh> ;; <output>`)
            let mesh = match try_convex_hull(&pts) { Err(_) => None, Ok((v, t)) => Some(format!("{} {} {} {}", v.len(), v.iter().map(d3::hp).collect::<Vec<_>>().join(" "), t.len(),
                    t.iter().map(|t| format!("{} {} {}", t[0], t[1], t[2])).collect::<Vec<_>>().join(" "))) };
            let out = match crate::p3::shape::ConvexPolyhedron::from_convex_hull(&pts) { None => "none".into(), Some(p) => dump_poly(&p) };
            match mesh { Some(m) => format!("{} ;; {}", m, out), None => out } }
        // ConvexPolyhedron::from_convex_mesh on an explicit triangle mesh
        "polymesh" => { let n = a.u(); let pts: Vec<_> = (0..n).map(|_| d3::p(a)).collect();
            let m = a.u(); let tris: Vec<[u32; 3]> = (0..m).map(|_| [a.u() as u32, a.u() as u32, a.u() as u32]).collect();
            match crate::p3::shape::ConvexPolyhedron::from_convex_mesh(pts, &tris) { None => "none".into(), Some(p) => dump_poly(&p) } }
        // utils::remove_unused_points (public; the last step of try_convex_hull) on an arbitrary index buffer
        "remove_unused" => { let n = a.u(); let mut pts: Vec<_> = (0..n).map(|_| d3::p(a)).collect();
            let m = a.u(); let mut tris: Vec<[u32; 3]> = (0..m).map(|_| [a.u() as u32, a.u() as u32, a.u() as u32]).collect();
            crate::p3::utils::remove_unused_points(&mut pts, &mut tris[..]);
            format!("{} {} {} {}", pts.len(), pts.iter().map(d3::fp).collect::<Vec<_>>().join(" "), tris.len(),
                tris.iter().map(|t| format!("{} {} {}", t[0], t[1], t[2])).collect::<Vec<_>>().join(" ")).replace("  ", " ").trim().to_string() }
        // the maintainers' validator transformation::check_convex_hull (returns () or panics).  Its duplicate-point branch
        // println!s to stdout, which carries the harness protocol: stdout is flushed and sent to /dev/null around the call.
        "validate3" => { let n = a.u(); let pts: Vec<_> = (0..n).map(|_| d3::p(a)).collect();
            let m = a.u(); let tris: Vec<[u32; 3]> = (0..m).map(|_| [a.u() as u32, a.u() as u32, a.u() as u32]).collect();
            use std::io::Write; use std::os::unix::io::AsRawFd;
            extern "C" { fn dup(fd: i32) -> i32; fn dup2(a: i32, b: i32) -> i32; fn close(fd: i32) -> i32; }
            let _ = std::io::stdout().flush();
            let null = std::fs::OpenOptions::new().write(true).open("/dev/null").expect("devnull");
            let saved = unsafe { dup(1) };
            unsafe { dup2(null.as_raw_fd(), 1); }
            let res = std::panic::catch_unwind(std::panic::AssertUnwindSafe(|| crate::p3::transformation::check_convex_hull(&pts, &tris)));
            let _ = std::io::stdout().flush();
            unsafe { dup2(saved, 1); close(saved); }
            if res.is_ok() { "ok".into() } else { "panic".into() } }
        _ => "nofn".into(),
    }
}

/// a closed triangulated torus (`k x l` grid, Euler characteristic 0): closed 2-manifold that the validator must reject
fn torus_mesh(k: usize, l: usize) -> (Vec<P3>, Vec<[u32; 3]>) {
    let mut pts = Vec::new(); let mut tris = Vec::new();
    for i in 0..k { for j in 0..l {
        let (u, w) = (i as f64 / k as f64 * std::f64::consts::TAU, j as f64 / l as f64 * std::f64::consts::TAU);
        pts.push(P3::new((2.0 + w.cos()) * u.cos(), (2.0 + w.cos()) * u.sin(), w.sin())); } }
    let id = |i: usize, j: usize| ((i % k) * l + (j % l)) as u32;
    for i in 0..k { for j in 0..l {
        tris.push([id(i, j), id(i + 1, j), id(i + 1, j + 1)]); tris.push([id(i, j), id(i + 1, j + 1), id(i, j + 1)]); } }
    (pts, tris)
}

/// inputs for `validate3`: a base mesh (hull of a cloud from the hull families, an explicit closed mesh, a tetrahedron) and one
/// mutation.  0 none, 1 one point moved onto another (duplicate, counts unchanged; sometimes `-0.0` against `0.0`), 2 a triangle
/// removed (open edges), 3 a triangle listed twice (edge with 4 sides), 4 a repeated index in a triangle, 5 an extra unused point
/// (Euler 3), 6 one triangle flipped (the validator is orientation-blind: accepted), 7 two disjoint copies (Euler 4),
/// 8 triangles shuffled and their indices rotated (accepted), 9 a torus (closed, Euler 0), 10 tiny buffers (0..2 points, 0..1 triangles),
/// 11 a fan triangle re-glued: a triangle replaced by one sharing an already full edge (t-junction + open edge),
/// 12 a triangle removed AND an isolated point added (open edges with Euler 2: only the "unfinished triangle" test can reject),
/// 13 a triangle replaced by a copy of another one (same V, F, E: Euler 2; t-junction and open edges),
/// 14 a torus plus two "pillows" (two opposite triangles over an existing edge and a new point): every side in 2 or 4 triangles,
///    Euler 2, no open edge: only the t-junction test can reject
fn validate_case(r: &mut Rng, fam: u64) -> (Vec<P3>, Vec<[u32; 3]>) {
    let base = |r: &mut Rng| -> (Vec<P3>, Vec<[u32; 3]>) {
        for _ in 0..8 {
            let cloud = match r.below(4) { 0 => solid3(r), 1 => merged_solid(r), 2 => { let n = 4 + r.below(40) as usize; cloud3(r, 2, n) } _ => { let n = 4 + r.below(30) as usize; cloud3(r, 1, n) } };
            // (the generator must survive a hull that panics: the case then falls back to the next cloud / the tetrahedron)
            if let Ok(Ok((v, t))) = std::panic::catch_unwind(std::panic::AssertUnwindSafe(|| try_convex_hull(&cloud))) { if t.len() >= 4 && v.len() >= 4 { return (v, t); } }
        }
        (vec![P3::new(0.0, 0.0, 0.0), P3::new(1.0, 0.0, 0.0), P3::new(0.0, 1.0, 0.0), P3::new(0.0, 0.0, 1.0)], vec![[0, 2, 1], [0, 1, 3], [1, 2, 3], [2, 0, 3]])
    };
    if fam == 9 { return torus_mesh(3 + r.below(4) as usize, 3 + r.below(4) as usize); }
    if fam == 14 {
        let (mut p, mut t) = torus_mesh(3 + r.below(3) as usize, 3 + r.below(3) as usize);
        for q in 0..2 { let k = r.below(t.len() as u64 - 4) as usize; let (a, b) = (t[k][q], t[k][q + 1]); let d = p.len() as u32;
            p.push(P3::new(10.0 + q as f64, 0.5, -0.25)); t.push([a, b, d]); t.push([b, a, d]); }
        return (p, t);
    }
    if fam == 10 {
        let n = r.below(3) as usize; let pts: Vec<P3> = (0..n).map(|i| P3::new(i as f64, 1.0, -2.0)).collect();
        let tris = if r.bool() && n > 0 { vec![[0, (n as u32 - 1).min(1), 2]] } else { vec![] };
        return (pts, tris);
    }
    let (mut pts, mut tris) = base(r);
    let nt = tris.len() as u64; let np = pts.len() as u64;
    match fam {
        1 => { let i = r.below(np) as usize; let j = (i + 1 + r.below(np - 1) as usize) % np as usize;
               if r.below(3) == 0 { pts[i] = P3::new(0.0, 1.0, 2.0); pts[j] = P3::new(-0.0, 1.0, 2.0); } else { pts[j] = pts[i]; } }
        2 => { let k = r.below(nt) as usize; tris.remove(k); }
        3 => { let k = r.below(nt) as usize; let t = tris[k]; let at = r.below(nt + 1) as usize; tris.insert(at, t); }
        4 => { let k = r.below(nt) as usize; let c = r.below(3) as usize; tris[k][c] = tris[k][(c + 1) % 3]; }
        5 => { pts.push(P3::new(7.5, -3.25, 11.0)); }
        6 => { let k = r.below(nt) as usize; tris[k].swap(1, 2); }
        7 => { let off = pts.len() as u32; let p2: Vec<P3> = pts.iter().map(|p| P3::new(p.x + 1000.0, p.y, p.z)).collect();
               let t2: Vec<[u32; 3]> = tris.iter().map(|t| [t[0] + off, t[1] + off, t[2] + off]).collect(); pts.extend(p2); tris.extend(t2); }
        8 => { shuffle(r, &mut tris); for t in tris.iter_mut() { let k = r.below(3) as usize; t.rotate_left(k); } }
        12 => { let k = r.below(nt) as usize; tris.remove(k); pts.push(P3::new(7.5, -3.25, 11.0)); }
        13 => { let k = r.below(nt) as usize; let k2 = (k + 1 + r.below(nt - 1) as usize) % nt as usize; tris[k] = tris[k2]; }
        11 => { let k = r.below(nt) as usize; let k2 = (k + 1 + r.below(nt - 1) as usize) % nt as usize; let o = tris[k2];
                let far = (0..np as u32).find(|v| !o.contains(v)).unwrap_or(0); tris[k] = [o[0], o[1], far]; }
        _ => {}
    }
    (pts, tris)
}

/// index buffers for `remove_unused`: which of the `n` points are referenced decides the path through the `swap_remove` loop
/// (family 0 random subset, 1 only a prefix used (the tail is popped, `i == len` pops), 2 only a suffix used (every kept point
/// is moved), 3 every other point, 4 all used, 5 one triangle, 6 empty buffer, 7 unused runs of random lengths, 8 repeated
/// indices inside a triangle, 9 one index out of range (documented index panic; outside the domain))
fn unused_case(r: &mut Rng, fam: u64) -> (Vec<P3>, Vec<[u32; 3]>) {
    let nmax = if r.below(6) == 0 { 60 } else { 14 };
    let n = 1 + r.below(nmax) as usize;
    let lat = r.bool();
    let mut pts: Vec<P3> = (0..n).map(|_| d3::gen_p(r, lat, 2.0)).collect();
    if r.below(4) == 0 && n > 1 { let k = r.below(n as u64) as usize; pts[k] = pts[0]; }          // duplicated coordinates
    let pool: Vec<u32> = match fam {
        1 => (0..(1 + r.below(n as u64)) as u32).collect(),
        2 => { let k = r.below(n as u64) as u32; (k..n as u32).collect() }
        3 => (0..n as u32).filter(|i| i % 2 == (n as u32 % 2)).collect(),
        4 | 8 | 9 => (0..n as u32).collect(),
        7 => { let mut v = Vec::new(); let mut i = 0u32; let mut on = r.bool();
               while (i as usize) < n { let len = 1 + r.below(4) as u32; if on { for k in i..(i + len).min(n as u32) { v.push(k); } } i += len; on = !on; } v }
        _ => { let mut v = Vec::new(); for i in 0..n as u32 { if r.below(3) != 0 { v.push(i); } } v }
    };
    let mut tris: Vec<[u32; 3]> = Vec::new();
    if fam != 6 && !pool.is_empty() {
        if fam == 5 { tris.push([*r.pick(&pool), *r.pick(&pool), *r.pick(&pool)]); }
        else {
            // every pool index at least once (so that the used set is exactly the pool), then random extra triangles
            let mut order = pool.clone(); shuffle(r, &mut order);
            for c in order.chunks(3) { tris.push([c[0], c[c.len() / 2], c[c.len() - 1]]); }
            for _ in 0..r.below(6) { tris.push([*r.pick(&pool), *r.pick(&pool), *r.pick(&pool)]); }
            shuffle(r, &mut tris);
        }
    }
    if fam == 8 { for t in tris.iter_mut() { if r.bool() { t[1] = t[0]; } } }
    if fam == 9 && !tris.is_empty() { let k = r.below(tris.len() as u64) as usize; tris[k][r.below(3) as usize] = n as u32 + r.below(3) as u32; }
    (pts, tris)
}

/// `P np pts… F nf {first num nx ny nz}… E ne {v0 v1 f0 f1 dx dy dz}… V nv {first num}… VF n ids… EF n ids… FV n ids…
///  NF nf {xyz}… NE ne {xyz}… NV nv {xyz}…`; a `feature_normal` call that panics prints `x x x`
fn dump_poly(p: &crate::p3::shape::ConvexPolyhedron) -> String {
    use crate::p3::shape::FeatureId;
    use std::panic::{catch_unwind, AssertUnwindSafe};
    let ids = |v: &[u32]| format!("{} {}", v.len(), v.iter().map(|i| i.to_string()).collect::<Vec<_>>().join(" ")).trim().to_string();
    let fnrm = |f: FeatureId| match catch_unwind(AssertUnwindSafe(|| p.feature_normal(f))) {
        Ok(Some(n)) => d3::fv(&n.into_inner()), Ok(None) => "n n n".to_string(), Err(_) => "x x x".to_string() };
    let mut s = String::new();
    s += &format!("P {} {}", p.points().len(), p.points().iter().map(d3::fp).collect::<Vec<_>>().join(" "));
    s += &format!(" F {} {}", p.faces().len(), p.faces().iter().map(|f| format!("{} {} {}", f.first_vertex_or_edge, f.num_vertices_or_edges, d3::fv(&f.normal.into_inner()))).collect::<Vec<_>>().join(" "));
    s += &format!(" E {} {}", p.edges().len(), p.edges().iter().map(|e| format!("{} {} {} {} {}", e.vertices[0], e.vertices[1], e.faces[0], e.faces[1], d3::fv(&e.dir.into_inner()))).collect::<Vec<_>>().join(" "));
    s += &format!(" V {} {}", p.vertices().len(), p.vertices().iter().map(|v| format!("{} {}", v.first_adj_face_or_edge, v.num_adj_faces_or_edge)).collect::<Vec<_>>().join(" "));
    s += &format!(" VF {}", ids(p.vertices_adj_to_face()));
    s += &format!(" EF {}", ids(p.edges_adj_to_face()));
    s += &format!(" FV {}", ids(p.faces_adj_to_vertex()));
    s += &format!(" NF {} {}", p.faces().len(), (0..p.faces().len()).map(|i| fnrm(FeatureId::Face(i as u32))).collect::<Vec<_>>().join(" "));
    s += &format!(" NE {} {}", p.edges().len(), (0..p.edges().len()).map(|i| fnrm(FeatureId::Edge(i as u32))).collect::<Vec<_>>().join(" "));
    s += &format!(" NV {} {}", p.vertices().len(), (0..p.vertices().len()).map(|i| fnrm(FeatureId::Vertex(i as u32))).collect::<Vec<_>>().join(" "));
    s.split_whitespace().collect::<Vec<_>>().join(" ")
}

fn cloud2(r: &mut Rng, kind: u64, n: usize) -> Vec<d2::Point<f64>> {
    (0..n).map(|i| match kind {
        0 => d2::Point::new(r.range(-8, 8) as f64, r.range(-8, 8) as f64),                  // lattice with duplicates / collinear runs
        1 => { let a = r.uniform(0.0, 6.283); d2::Point::new(a.cos() * 3.0, a.sin() * 3.0) }   // on a circle
        2 => d2::Point::new(r.uniform(-100.0, 100.0), r.uniform(-100.0, 100.0)),
        3 => d2::Point::new(r.lattice(64, 3), r.lattice(64, 3)),
        4 => d2::Point::new(r.logu(1e-3, 1e3) * if r.bool() { -1.0 } else { 1.0 }, r.logu(1e-3, 1e3) * if r.bool() { -1.0 } else { 1.0 }), // several orders of magnitude
        5 => { let t = i as f64; d2::Point::new(t, if i % 2 == 0 { 0.0 } else { r.range(0, 1) as f64 }) }  // long collinear runs
        7 => { // every point duplicated, large coordinates (rounding makes a duplicate "visible")
            let base = (i / 2) as u64; let mut rr = Rng::new(base.wrapping_mul(7919) ^ n as u64);
            d2::Point::new(rr.uniform(100.0, 9000.0), rr.uniform(100.0, 9000.0)) }
        8 => { // shuffled small lattice: the first-listed maximal-x point may be mid-edge
            d2::Point::new(r.range(-1, 1) as f64, r.range(-1, 1) as f64) }
        _ => { let c = r.range(-2, 2) as f64; d2::Point::new(c, c * 2.0 + 1.0) }              // all collinear (degenerate)
    }).collect()
}
fn cloud3(r: &mut Rng, kind: u64, n: usize) -> Vec<d3::Point<f64>> {
    (0..n).map(|_| match kind {
        0 => d3::Point::new(r.range(-4, 4) as f64, r.range(-4, 4) as f64, r.range(-4, 4) as f64),
        1 => { let v = d3::gen_v(r, false, 1.0); let n = v.norm().max(1e-3); d3::Point::from(v / n * 2.0) }  // on a sphere
        2 => d3::gen_p(r, false, 100.0),
        3 => d3::Point::new(r.lattice(16, 2), r.lattice(16, 2), r.lattice(16, 2)),
        4 => { // voxel-corner-like: half-integer lattice scaled
            let s = 0.18181818181818182; d3::Point::new((r.range(0, 10) as f64 - 0.5) * s, (r.range(0, 10) as f64 - 0.5) * s, (r.range(0, 10) as f64 - 0.5) * s) }
        _ => d3::Point::new(r.logu(1e-2, 1e2), r.logu(1e-2, 1e2) * if r.bool() { -1.0 } else { 1.0 }, r.uniform(-1.0, 1.0)),
    }).collect()
}
/// structured degenerate families: pyramids / bipyramids / prisms over regular k-gons (many coplanar hull vertices)
fn solid3(r: &mut Rng) -> Vec<d3::Point<f64>> {
    let k = 3 + r.below(12) as usize;
    let h = *r.pick(&[0.2, 0.44, 0.6, 1.0, 2.5]);
    let rad = *r.pick(&[1.0, 2.0, 0.5]);
    let ring = |y: f64| -> Vec<d3::Point<f64>> { (0..k).map(|i| { let a = 2.0 * std::f64::consts::PI * i as f64 / k as f64; d3::Point::new(rad * a.cos(), y, rad * a.sin()) }).collect() };
    let mut pts = match r.below(3) {
        0 => { let mut p = ring(0.0); p.push(d3::Point::new(0.0, h, 0.0)); p }
        1 => { let mut p = ring(0.0); p.push(d3::Point::new(0.0, h, 0.0)); p.push(d3::Point::new(0.0, -h, 0.0)); p }
        _ => { let mut p = ring(0.0); p.extend(ring(h)); p }
    };
    // a few interior points, random order
    for _ in 0..r.below(4) { pts.push(d3::Point::new(r.uniform(-0.2, 0.2) * rad, h * 0.3, r.uniform(-0.2, 0.2) * rad)); }
    for i in (1..pts.len()).rev() { let j = r.below(i as u64 + 1) as usize; pts.swap(i, j); }
    if r.bool() { let lt = r.bool(); let iso = d3::gen_iso(r, lt, 5.0); for p in pts.iter_mut() { *p = iso * *p; } }
    pts
}


// ---------------------------------------------------------------------------------------------------------------
// follow-up families: hulls with merged coplanar faces, clouds of every scale / far from the origin, explicit meshes

type P3 = d3::Point<f64>;
fn fmt3(pts: &[P3]) -> String { format!("{} {}", pts.len(), pts.iter().map(d3::hp).collect::<Vec<_>>().join(" ")) }
fn shuffle<T>(r: &mut Rng, v: &mut Vec<T>) { for i in (1..v.len()).rev() { let j = r.below(i as u64 + 1) as usize; v.swap(i, j); } }

/// unit-scale solids whose hull has polygonal (merged) faces: boxes, lattice blocks, prisms, frusta; plus simplicial controls
fn merged_solid(r: &mut Rng) -> Vec<P3> {
    let kind = r.below(9);
    let mut pts: Vec<P3> = Vec::new();
    match kind {
        0 | 1 => { // box corners (kind 1: + points inside faces, on edges, inside the box; all dyadic)
            let he = [*r.pick(&[0.5, 1.0, 1.5, 2.0, 0.25]), *r.pick(&[0.5, 1.0, 1.5, 2.0, 3.0]), *r.pick(&[0.5, 1.0, 0.75, 2.0])];
            for sx in [-1.0, 1.0] { for sy in [-1.0, 1.0] { for sz in [-1.0, 1.0] { pts.push(P3::new(sx * he[0], sy * he[1], sz * he[2])); } } }
            if kind == 1 { for _ in 0..(1 + r.below(12)) {
                let mut c = [0.0; 3];
                for (i, ci) in c.iter_mut().enumerate() { *ci = he[i] * *r.pick(&[-1.0, -0.5, 0.0, 0.25, 0.5, 1.0]); }
                pts.push(P3::new(c[0], c[1], c[2])); } } }
        2 | 3 => { // lattice block {0..a}x{0..b}x{0..c}: full, or a random subset that keeps the 8 corners
            let (a, b, c) = (1 + r.below(3) as i64, 1 + r.below(3) as i64, 1 + r.below(4) as i64);
            let h = *r.pick(&[1.0, 0.5, 0.25, 2.0]);
            for i in 0..=a { for j in 0..=b { for k in 0..=c {
                let corner = (i == 0 || i == a) && (j == 0 || j == b) && (k == 0 || k == c);
                if kind == 2 || corner || r.below(3) != 0 { pts.push(P3::new(i as f64 * h, j as f64 * h, k as f64 * h)); } } } } }
        4 | 5 => { // prism (r2 == r1) or frustum over a regular k-gon, optionally with the cap centres (coplanar interior points)
            let k = 3 + r.below(10) as usize; let h = *r.pick(&[0.25, 0.5, 1.0, 2.5]);
            let r1 = *r.pick(&[1.0, 2.0, 0.5]); let r2 = if kind == 4 { r1 } else { r1 * *r.pick(&[0.5, 0.25, 0.75]) };
            for (y, rad) in [(0.0, r1), (h, r2)] { for i in 0..k { let a = 2.0 * std::f64::consts::PI * i as f64 / k as f64;
                pts.push(P3::new(rad * a.cos(), y, rad * a.sin())); } }
            if r.bool() { pts.push(P3::new(0.0, 0.0, 0.0)); pts.push(P3::new(0.0, h, 0.0)); } }
        6 => { // wedge / house: box + ridge (mixed quads and triangles), dyadic
            for sx in [-1.0, 1.0] { for sz in [-1.0, 1.0] { pts.push(P3::new(sx, 0.0, sz)); pts.push(P3::new(sx, 1.0, sz)); } }
            pts.push(P3::new(-0.5, 1.75, 0.0)); pts.push(P3::new(0.5, 1.75, 0.0)); }
        7 => { // simplicial controls: octahedron, tetrahedron, bipyramid over a triangle
            match r.below(3) {
                0 => { for s in [-1.0, 1.0] { pts.push(P3::new(s, 0.0, 0.0)); pts.push(P3::new(0.0, 1.5 * s, 0.0)); pts.push(P3::new(0.0, 0.0, 2.0 * s)); } }
                1 => { pts.extend([P3::new(0.0, 0.0, 0.0), P3::new(1.0, 0.0, 0.0), P3::new(0.0, 1.0, 0.0), P3::new(0.0, 0.0, 1.0)]); }
                _ => { pts.extend([P3::new(1.0, 0.0, 0.0), P3::new(-0.5, 0.0, 0.75), P3::new(-0.5, 0.0, -0.75), P3::new(0.0, 1.0, 0.0), P3::new(0.0, -2.0, 0.0)]); } } }
        _ => { let n = 4 + r.below(40) as usize; for _ in 0..n { pts.push(d3::gen_p(r, false, 1.0)); } }   // generic random cloud
    }
    if r.below(3) == 0 { for _ in 0..(1 + r.below(3)) { let c = pts[r.below(pts.len() as u64) as usize]; pts.push(c); } }   // duplicates
    shuffle(r, &mut pts);
    pts
}

/// similarity `p -> s * (R p) + t`. `exact`: s = 2^k, R in the cube group, t a dyadic multiple of s (no rounding for dyadic
/// inputs); otherwise s log-uniform in [1e-6, 1e6], R random, |t| up to 1e5 cloud sizes.  Returns the points and log2(s) if exact.
fn similarity(r: &mut Rng, pts: &[P3], exact: bool) -> Vec<P3> {
    let diag = { let mut lo = pts[0].coords; let mut hi = lo; for p in pts { lo = lo.inf(&p.coords); hi = hi.sup(&p.coords); } (hi - lo).norm().max(1e-300) };
    if exact {
        let s = (2.0f64).powi(r.range(-20, 20) as i32);
        let q = loop { let q = d3::gen_quat(r, true); if q.iter().all(|c| *c == 0.0 || c.abs() == 0.5 || c.abs() == 1.0) { break q; } };
        let rot = d3::na::Unit::new_unchecked(d3::na::Quaternion::new(q[3], q[0], q[1], q[2]));
        let tm = *r.pick(&[0.0, 0.0, 1.0, 16.0, 1024.0, 65536.0]);
        let t = d3::Vector::new(r.range(-4, 4) as f64 * tm * s, r.range(-4, 4) as f64 * tm * s, r.range(-4, 4) as f64 * tm * s);
        pts.iter().map(|p| P3::from((rot * p.coords) * s + t)).collect()
    } else {
        let s = match r.below(4) { 0 => 1.0, 1 => r.logu(1e-6, 1e-3), 2 => r.logu(1e3, 1e6), _ => r.logu(1e-6, 1e6) };
        let lt = r.bool(); let q = d3::gen_quat(r, lt);
        let rot = d3::na::Unit::new_unchecked(d3::na::Quaternion::new(q[3], q[0], q[1], q[2]));
        let ratio = *r.pick(&[0.0, 0.0, 1.0, 30.0, 1.0e3, 1.0e5]);
        let dir = d3::gen_v(r, false, 1.0);
        let t = dir * (ratio * diag * s);
        pts.iter().map(|p| P3::from((rot * p.coords) * s + t)).collect()
    }
}

/// triangulated surface of the lattice box {0..a}x{0..b}x{0..c} (every unit cell of every face split by a random diagonal):
/// vertices inside faces and on edges, triangles with no contour edge. Returns integer vertices and CCW-outward triangles.
fn grid_box_mesh(r: &mut Rng, a: i64, b: i64, c: i64) -> (Vec<[i64; 3]>, Vec<[u32; 3]>) {
    let mut verts: Vec<[i64; 3]> = Vec::new();
    let mut tris = Vec::new();
    let mut id = |v: [i64; 3], verts: &mut Vec<[i64; 3]>| -> u32 { match verts.iter().position(|w| *w == v) { Some(i) => i as u32, None => { verts.push(v); (verts.len() - 1) as u32 } } };
    // (origin, u, v, nu, nv) with u x v = outward normal
    let faces: [([i64; 3], [i64; 3], [i64; 3], i64, i64); 6] = [
        ([a, 0, 0], [0, 1, 0], [0, 0, 1], b, c), ([0, 0, 0], [0, 0, 1], [0, 1, 0], c, b),
        ([0, b, 0], [0, 0, 1], [1, 0, 0], c, a), ([0, 0, 0], [1, 0, 0], [0, 0, 1], a, c),
        ([0, 0, c], [1, 0, 0], [0, 1, 0], a, b), ([0, 0, 0], [0, 1, 0], [1, 0, 0], b, a)];
    for (o, u, v, nu, nv) in faces {
        for s in 0..nu { for t in 0..nv {
            let at = |s: i64, t: i64| [o[0] + s * u[0] + t * v[0], o[1] + s * u[1] + t * v[1], o[2] + s * u[2] + t * v[2]];
            let p00 = id(at(s, t), &mut verts); let p10 = id(at(s + 1, t), &mut verts);
            let p11 = id(at(s + 1, t + 1), &mut verts); let p01 = id(at(s, t + 1), &mut verts);
            if r.bool() { tris.push([p00, p10, p11]); tris.push([p00, p11, p01]); } else { tris.push([p00, p10, p01]); tris.push([p10, p11, p01]); }
        } }
    }
    (verts, tris)
}

/// explicit closed convex meshes (and a few invalid ones) for `ConvexPolyhedron::from_convex_mesh`
fn explicit_mesh(r: &mut Rng) -> (Vec<P3>, Vec<[u32; 3]>) {
    let kind = r.below(8);
    let (mut pts, mut tris): (Vec<P3>, Vec<[u32; 3]>) = match kind {
        0 | 1 | 2 => { // lattice box, faces split in unit cells (kind 0: a plain box, 12 triangles)
            let (a, b, c) = if kind == 0 { (1, 1, 1) } else { (1 + r.below(3) as i64, 1 + r.below(2) as i64, 1 + r.below(3) as i64) };
            let h = [*r.pick(&[1.0, 0.5, 2.0, 0.75]), *r.pick(&[1.0, 0.5, 2.0, 1.5]), *r.pick(&[1.0, 0.25, 3.0])];
            let (v, t) = grid_box_mesh(r, a, b, c);
            (v.iter().map(|v| P3::new(v[0] as f64 * h[0], v[1] as f64 * h[1], v[2] as f64 * h[2])).collect(), t) }
        3 | 4 => { // prism / frustum over a regular k-gon: caps fan-triangulated from a random corner, side quads split by a random diagonal
            let k = 3 + r.below(9) as usize; let h = *r.pick(&[0.25, 0.5, 1.0, 2.5]);
            let r1 = *r.pick(&[1.0, 2.0, 0.5]); let r2 = if kind == 3 { r1 } else { r1 * 0.5 };
            let mut pts = Vec::new();
            // CCW seen from +y means decreasing angle in the (x, z) parametrisation used here: x = cos, z = sin  (y = z' x x')
            for (y, rad) in [(0.0, r1), (h, r2)] { for i in 0..k { let a = 2.0 * std::f64::consts::PI * i as f64 / k as f64; pts.push(P3::new(rad * a.cos(), y, rad * a.sin())); } }
            let mut tris = Vec::new();
            let (f0, f1) = (r.below(k as u64) as usize, r.below(k as u64) as usize);
            for i in 1..k - 1 { // bottom cap (outward -y): increasing angle is CCW seen from -y
                tris.push([(f0 % k) as u32, ((f0 + i) % k) as u32, ((f0 + i + 1) % k) as u32]);
                tris.push([(k + f1 % k) as u32, (k + (f1 + i + 1) % k) as u32, (k + (f1 + i) % k) as u32]); }
            for i in 0..k { let j = (i + 1) % k; let (b0, b1, t0, t1) = (i as u32, j as u32, (k + i) as u32, (k + j) as u32);
                if r.bool() { tris.push([b0, t0, t1]); tris.push([b0, t1, b1]); } else { tris.push([b0, t0, b1]); tris.push([t0, t1, b1]); } }
            (pts, tris) }
        5 => { // octahedron (simplicial)
            let pts = vec![P3::new(1.0, 0.0, 0.0), P3::new(-1.0, 0.0, 0.0), P3::new(0.0, 1.5, 0.0), P3::new(0.0, -1.5, 0.0), P3::new(0.0, 0.0, 2.0), P3::new(0.0, 0.0, -2.0)];
            (pts, vec![[0, 2, 4], [2, 1, 4], [1, 3, 4], [3, 0, 4], [2, 0, 5], [1, 2, 5], [3, 1, 5], [0, 3, 5]]) }
        6 => { // pyramid over a k-gon base (base merged, sides simplicial)
            let k = 3 + r.below(8) as usize; let mut pts = Vec::new();
            for i in 0..k { let a = 2.0 * std::f64::consts::PI * i as f64 / k as f64; pts.push(P3::new(a.cos(), 0.0, a.sin())); }
            pts.push(P3::new(0.0, *r.pick(&[0.5, 1.0, 3.0]), 0.0));
            let mut tris = Vec::new(); let f0 = r.below(k as u64) as usize;
            for i in 1..k - 1 { tris.push([(f0 % k) as u32, ((f0 + i) % k) as u32, ((f0 + i + 1) % k) as u32]); }
            for i in 0..k { tris.push([i as u32, k as u32, ((i + 1) % k) as u32]); }
            (pts, tris) }
        _ => { // tetrahedron
            (vec![P3::new(0.0, 0.0, 0.0), P3::new(1.0, 0.0, 0.0), P3::new(0.0, 1.0, 0.0), P3::new(0.0, 0.0, 1.0)], vec![[0, 2, 1], [0, 1, 3], [1, 2, 3], [2, 0, 3]]) }
    };
    // random relabelling of the vertices, rotation of each index triple, order of the triangles
    let n = pts.len(); let mut perm: Vec<usize> = (0..n).collect(); shuffle(r, &mut perm);
    let mut np = pts.clone(); for (i, p) in pts.iter().enumerate() { np[perm[i]] = *p; } pts = np;
    for t in tris.iter_mut() { let k = r.below(3) as usize; let o = [perm[t[0] as usize] as u32, perm[t[1] as usize] as u32, perm[t[2] as usize] as u32]; *t = [o[k], o[(k + 1) % 3], o[(k + 2) % 3]]; }
    shuffle(r, &mut tris);
    // invalid inputs the function documents as `None`: open mesh, t-junction (a triangle listed twice), repeated index
    match r.below(16) {
        0 => { tris.pop(); }
        1 => { let t = tris[0]; tris.push(t); }
        2 => { let i = r.below(tris.len() as u64) as usize; tris[i][1] = tris[i][0]; }
        _ => {}
    }
    let exact = r.bool();
    let pts = similarity(r, &pts, exact);
    (pts, tris)
}

/// cube corners + a (k+1)x(k+1) lattice on one or all faces, pushed outwards by 0, d, 2d or -d with d of the order of an ulp
/// (or a quantised dome): many nearly coplanar hull vertices in a full-dimensional cloud -- the family on which the
/// silhouette occasionally visits a vertex twice (`fix_silhouette_topology`)
fn bumpy_cube(r: &mut Rng) -> Vec<P3> {
    let d = *r.pick(&[1.0e-16, 2.0e-16, 4.0e-16, 1.0e-15, 3.0e-15, 1.0e-14, 1.0e-13, 1.0e-10]);
    let k = 2 + r.below(7) as usize;
    let mut pts: Vec<P3> = Vec::new();
    for sx in [-1.0, 1.0] { for sy in [-1.0, 1.0] { for sz in [-1.0, 1.0] { pts.push(P3::new(sx, sy, sz)); } } }
    let kind = r.below(3);
    let faces = if kind == 1 { 6 } else { 1 };
    for f in 0..faces { let (ax, sg) = (if faces == 1 { 2 } else { f / 2 }, if faces == 1 || f % 2 == 0 { 1.0 } else { -1.0 });
        for i in 0..=k { for j in 0..=k {
            if kind == 1 && r.bool() { continue; }
            let (u, v) = (-1.0 + 2.0 * i as f64 / k as f64, -1.0 + 2.0 * j as f64 / k as f64);
            let h = if kind == 2 { 1.0 + d * (4.0 * (2.0 - u * u - v * v)).round() } else { 1.0 + d * *r.pick(&[0.0, 1.0, 2.0, -1.0]) };
            let mut c = [0.0; 3]; c[ax] = sg * h; c[(ax + 1) % 3] = u; c[(ax + 2) % 3] = v;
            pts.push(P3::new(c[0], c[1], c[2])); } } }
    shuffle(r, &mut pts);
    pts
}

/// >= 100 points on the faces of a cube (or of a prism over a regular k-gon) in GENERAL orientation: large nearly coplanar subsets
/// whose coplanarity is broken by the rounding of the rotation -- the family on which the horizon pinches (`needs_fixing`)
fn rotated_face_cloud(r: &mut Rng) -> Vec<P3> {
    let n = 100 + r.below(60) as usize;
    let mut pts: Vec<P3> = Vec::new();
    if r.below(3) != 0 {
        for _ in 0..n { let ax = r.below(3) as usize; let sg = if r.bool() { 1.0 } else { -1.0 };
            let mut c = [r.uniform(-1.0, 1.0), r.uniform(-1.0, 1.0), r.uniform(-1.0, 1.0)]; c[ax] = sg; pts.push(P3::new(c[0], c[1], c[2])); }
    } else {
        let k = 3 + r.below(6) as usize;
        for _ in 0..n { match r.below(3) {
            0 | 1 => { let y = if r.bool() { 0.0 } else { 1.0 }; let i = r.below(k as u64) as usize; let (t, u) = (r.uniform(0.0, 1.0), r.uniform(0.0, 1.0));
                let a0 = 2.0 * std::f64::consts::PI * i as f64 / k as f64; let a1 = 2.0 * std::f64::consts::PI * (i + 1) as f64 / k as f64;
                let (w0, w1) = (t * u, t * (1.0 - u)); pts.push(P3::new(w0 * a0.cos() + w1 * a1.cos(), y, w0 * a0.sin() + w1 * a1.sin())); }
            _ => { let i = r.below(k as u64) as usize; let t = r.uniform(0.0, 1.0);
                let a0 = 2.0 * std::f64::consts::PI * i as f64 / k as f64; let a1 = 2.0 * std::f64::consts::PI * (i + 1) as f64 / k as f64;
                pts.push(P3::new((1.0 - t) * a0.cos() + t * a1.cos(), r.uniform(0.0, 1.0), (1.0 - t) * a0.sin() + t * a1.sin())); } } }
    }
    let iso = d3::gen_iso(r, false, 3.0);
    for q in pts.iter_mut() { *q = iso * *q; }
    pts
}

/// multi-scale cloud: ~100 points in a unit cube plus a small cluster (points on a sphere of radius 1e-3 .. 1e-5) outside it:
/// genuine hull facets 3 to 5 orders of magnitude smaller than the cloud
fn multiscale_cloud(r: &mut Rng) -> Vec<P3> {
    let mut pts: Vec<P3> = (0..(60 + r.below(60))).map(|_| P3::new(r.uniform(0.0, 1.0), r.uniform(0.0, 1.0), r.uniform(0.0, 1.0))).collect();
    let rad = r.logu(1.0e-5, 1.0e-3);
    let c = d3::Vector::new(1.0 + r.uniform(0.05, 0.5), r.uniform(0.0, 1.0), r.uniform(0.0, 1.0));
    for _ in 0..(20 + r.below(30)) { let v = d3::gen_v(r, false, 1.0); let n = v.norm().max(1e-3); pts.push(P3::from(c + v / n * rad)); }
    shuffle(r, &mut pts);
    if r.bool() { let iso = d3::gen_iso(r, false, 3.0); for q in pts.iter_mut() { *q = iso * *q; } }
    pts
}

pub fn gen(r: &mut Rng, thorough: bool) -> Vec<(String, String)> {
    let n = if thorough { 900 } else { 300 };
    let mut v = Vec::new();
    for it in 0..n {
        let kind = r.below(10);
        let np = if r.below(10) == 0 { 3 + r.below(if thorough { 1200 } else { 400 }) as usize } else { 3 + r.below(40) as usize };
        let pts = cloud2(r, kind, np);
        let s = format!("{} {}", pts.len(), pts.iter().map(d2::hp).collect::<Vec<_>>().join(" "));
        v.push(("hull2".into(), s.clone()));
        if it % 4 == 0 { v.push(("hull2_idem".into(), s.clone())); }
        if it % 2 == 0 { v.push(("convex_polygon".into(), s)); }
        if it % 3 == 1 { let p3 = solid3(r); v.push(("hull3".into(), format!("{} {}", p3.len(), p3.iter().map(d3::hp).collect::<Vec<_>>().join(" ")))); }
        if it % 3 == 0 {
            let k3 = r.below(6);
            let np3 = if r.below(8) == 0 { 4 + r.below(if thorough { 700 } else { 300 }) as usize } else { 4 + r.below(60) as usize };
            let p3 = cloud3(r, k3, np3);
            v.push(("hull3".into(), format!("{} {}", p3.len(), p3.iter().map(d3::hp).collect::<Vec<_>>().join(" "))));
        }
    }
    // degenerate corners
    v.push(("hull2".into(), format!("1 {}", d2::hp(&d2::Point::new(1.0, 2.0)))));
    v.push(("hull2".into(), format!("3 {0} {0} {0}", d2::hp(&d2::Point::new(1.0, 2.0)))));
    // follow-up families (appended so that the stream above is unchanged)
    let m = if thorough { 450 } else { 150 };
    for it in 0..m {
        // (a) any cloud family at any scale 1e-6..1e6, rotated, far from the origin: certificate oracle
        let base = match r.below(3) { 0 => solid3(r), 1 => merged_solid(r), _ => { let k3 = r.below(6); let np3 = 4 + r.below(60) as usize; cloud3(r, k3, np3) } };
        let exact = r.bool();
        let cloud = similarity(r, &base, exact);
        v.push(("hull3".into(), fmt3(&cloud)));
        // (b) exact power-of-two rescaling of the same cloud must give the same polytope
        if it % 2 == 0 { let k = if r.bool() { r.range(-40, -10) } else { r.range(10, 40) }; v.push(("hull3_scale".into(), format!("{} {}", k, fmt3(&cloud)))); }
        // (c) ConvexPolyhedron tables on hulls with merged faces (the same cloud also goes through `hull3`)
        let solid = merged_solid(r);
        let exact = r.below(3) != 0;
        let solid = similarity(r, &solid, exact);
        v.push(("hull3".into(), fmt3(&solid)));
        v.push(("polyhedron".into(), fmt3(&solid)));
        if it % 3 == 0 { v.push(("polyhedron".into(), fmt3(&cloud))); }
        // (d) from_convex_mesh on explicit meshes
        let (mp, mt) = explicit_mesh(r);
        v.push(("polymesh".into(), format!("{} {} {}", fmt3(&mp), mt.len(), mt.iter().map(|t| format!("{} {} {}", t[0], t[1], t[2])).collect::<Vec<_>>().join(" "))));
    }
    // fu4: the modelled 3-D quickhull, index-exact against the real code (appended so that the stream above is unchanged)
    let m3 = if thorough { 1200 } else { 400 };
    for it in 0..m3 {
        let base = match it % 10 {
            8 => bumpy_cube(r),                                                                    // near-coplanar SUBSETS (bumps of a few ulps on the faces of a cube)
            9 => { let mut p = bumpy_cube(r); let lt = r.bool(); let iso = d3::gen_iso(r, lt, 3.0); for q in p.iter_mut() { *q = iso * *q; } p }
            0 | 1 => { let np3 = 4 + r.below(60) as usize; cloud3(r, 2, np3) }                    // generic random
            2 => { let np3 = 4 + r.below(if it % 16 == 2 { 400 } else { 80 }) as usize; cloud3(r, 1, np3) }   // on a sphere
            3 => { let k3 = r.below(6); let np3 = 4 + r.below(60) as usize; cloud3(r, k3, np3) }     // lattices, voxel corners, multi-scale
            4 => solid3(r),                                                                        // pyramids / prisms: coplanar hull vertices
            5 => merged_solid(r),                                                                  // boxes, lattice blocks, duplicates
            6 => { let np3 = 4 + r.below(30) as usize; let mut p = cloud3(r, 2, np3); let d = p.clone(); p.extend(d); shuffle(r, &mut p); p }  // every point twice
            _ => { // nearly flat cloud (thin slab): the silhouette repair / undecidable paths
                let np3 = 5 + r.below(40) as usize; let th = *r.pick(&[1.0e-3, 1.0e-5, 1.0e-2]);
                (0..np3).map(|_| P3::new(r.uniform(-1.0, 1.0), r.uniform(-1.0, 1.0), r.uniform(-1.0, 1.0) * th)).collect() }
        };
        let cloud = if it % 3 == 0 { base } else { let exact = r.bool(); similarity(r, &base, exact) };
        v.push(("hull3m".into(), fmt3(&cloud)));
    }
    // fu4: large coplanar subsets in general orientation (pinched horizons) and multi-scale clouds (small genuine facets):
    // both through the certificate oracle (`hull3`) and the index-exact model (`hull3m`)
    let m4 = if thorough { 360 } else { 120 };
    for it in 0..m4 {
        // (rotated face clouds go through `hull3m` only: its oracle judges closedness / orientation / Euler / provenance; their
        //  enclosure is the known finding [coplanar-subset-cloud], whose cap this family would exhaust)
        let ms = it % 3 == 2;
        let cloud = if ms { multiscale_cloud(r) } else { rotated_face_cloud(r) };
        if ms { v.push(("hull3".into(), fmt3(&cloud))); }
        v.push(("hull3m".into(), fmt3(&cloud)));
    }
    // fu5: remove_unused_points on arbitrary index buffers (appended so that the stream above is unchanged)
    let m5 = if thorough { 1500 } else { 300 };
    let mut fam_count = [0usize; 10];
    for it in 0..m5 {
        let fam = if it % 25 == 24 { 9 } else { (it % 9) as u64 };
        fam_count[fam as usize] += 1;
        let (p, t) = unused_case(r, fam);
        v.push(("remove_unused".into(), format!("{} {} {}", fmt3(&p), t.len(), t.iter().map(|t| format!("{} {} {}", t[0], t[1], t[2])).collect::<Vec<_>>().join(" ")).trim().to_string()));
    }
    if std::env::var("VERIF_DBG").is_ok() { eprintln!("C12 remove_unused families 0..9: {:?}", fam_count); }
    // fu5: the maintainers' validator on valid hull meshes and on single mutations of them
    let m6 = if thorough { 1200 } else { 300 };
    let mut vfam = [0usize; 15];
    for it in 0..m6 {
        let fam = (it % 15) as u64;
        vfam[fam as usize] += 1;
        let (p, t) = validate_case(r, fam);
        v.push(("validate3".into(), format!("{} {} {}", fmt3(&p), t.len(), t.iter().map(|t| format!("{} {} {}", t[0], t[1], t[2])).collect::<Vec<_>>().join(" ")).replace("  ", " ").trim().to_string()));
    }
    if std::env::var("VERIF_DBG").is_ok() { eprintln!("C12 validate3 families 0..14: {:?}", vfam); }
    // fu5: every hull must pass the maintainers' validator (clouds from all the 3-D families, incl. duplicates, coplanar subsets, slabs)
    let m7 = if thorough { 600 } else { 150 };
    for it in 0..m7 {
        let base = match it % 8 {
            0 => bumpy_cube(r),
            1 => { let np3 = 4 + r.below(60) as usize; cloud3(r, 2, np3) }
            2 => { let np3 = 4 + r.below(80) as usize; cloud3(r, 1, np3) }
            3 => { let k3 = r.below(6); let np3 = 4 + r.below(60) as usize; cloud3(r, k3, np3) }
            4 => solid3(r),
            5 => merged_solid(r),
            6 => { let np3 = 4 + r.below(30) as usize; let mut p = cloud3(r, 2, np3); let d = p.clone(); p.extend(d); shuffle(r, &mut p); p }
            _ => if it % 16 == 7 { multiscale_cloud(r) } else { rotated_face_cloud(r) },
        };
        let cloud = if it % 3 == 0 { base } else { let exact = r.bool(); similarity(r, &base, exact) };
        v.push(("hull3v".into(), fmt3(&cloud)));
    }
    v
}
