//! C10: support maps (SupportMap trait, point clouds, RoundShape, special support maps, feature maps).
use crate::util::*;
use crate::p3::shape::{Cuboid, SupportMap};
use crate::p2::shape::SupportMap as SupportMap2;

type C2 = crate::p2::shape::Cuboid;

pub fn exec(func: &str, a: &mut Args) -> String {
    match func {
        "cuboid_local" => { let he = d3::v(a); let d = d3::v(a); d3::fp(&Cuboid::new(he).local_support_point(&d)) }
        "cuboid2_local" => { let he = d2::v(a); let d = d2::v(a); d2::fp(&C2::new(he).local_support_point(&d)) }
        _ => "nofn".into(),
    }
}

/// a direction: lattice stream = axis-aligned / diagonal / ±0 components / ties; random stream = |dir| in [1e-3,1e3]
/// plus near-zero components.
pub fn gen_dir3(r: &mut Rng, lat: bool) -> d3::Vector<f64> {
    if lat {
        let c = |r: &mut Rng| *r.pick(&[0.0, -0.0, 1.0, -1.0, 0.5, -0.5, 2.0, -2.0, 0.25, 3.0, -3.0]);
        loop {
            let v = match r.below(4) {
                0 => { let mut v = d3::Vector::new(0.0, 0.0, 0.0); v[r.below(3) as usize] = *r.pick(&[1.0, -1.0, 2.0, -0.5]);
                       for i in 0..3 { if v[i] == 0.0 && r.bool() { v[i] = -0.0; } } v }
                _ => d3::Vector::new(c(r), c(r), c(r)),
            };
            if v.norm_squared() > 0.0 { return v; }
        }
    } else {
        let s = r.logu(1e-3, 1e3);
        let mut v = d3::Vector::new(r.uniform(-1.0, 1.0), r.uniform(-1.0, 1.0), r.uniform(-1.0, 1.0));
        if r.below(8) == 0 { v[r.below(3) as usize] *= 1e-12; }
        if r.below(8) == 0 { v[r.below(3) as usize] = 0.0; }
        if v.norm() < 1e-3 { v.x = 1.0; }
        v.normalize() * s
    }
}
pub fn gen_dir2(r: &mut Rng, lat: bool) -> d2::Vector<f64> {
    if lat {
        let c = |r: &mut Rng| *r.pick(&[0.0, -0.0, 1.0, -1.0, 0.5, -0.5, 2.0, -2.0, 0.25, 3.0, -3.0]);
        loop {
            let v = d2::Vector::new(c(r), c(r));
            if v.norm_squared() > 0.0 { return v; }
        }
    } else {
        let s = r.logu(1e-3, 1e3);
        let mut v = d2::Vector::new(r.uniform(-1.0, 1.0), r.uniform(-1.0, 1.0));
        if r.below(8) == 0 { v[r.below(2) as usize] *= 1e-12; }
        if r.below(8) == 0 { v[r.below(2) as usize] = 0.0; }
        if v.norm() < 1e-3 { v.x = 1.0; }
        v.normalize() * s
    }
}

pub fn gen(r: &mut Rng, thorough: bool) -> Vec<(String, String)> {
    let n = if thorough { 4000 } else { 400 };
    let mut v = Vec::new();
    for it in 0..n {
        let lat = it % 2 == 0;
        let d = gen_dir3(r, lat); let dd = gen_dir2(r, lat);
        let he = d3::gen_he(r, lat); let he2 = d2::gen_he(r, lat);
        v.push(("cuboid_local".into(), format!("{} {}", d3::hv(&he), d3::hv(&d))));
        v.push(("cuboid2_local".into(), format!("{} {}", d2::hv(&he2), d2::hv(&dd))));
    }
    v
}
