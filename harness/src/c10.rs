//! C10: support maps (SupportMap trait, point clouds, RoundShape, special support maps, feature maps).
//! Protocol function names are `<shape>_<mode>`; mode = local | toward | posed | ptoward:
//!   local   : <shape args> dir          -> local_support_point(dir)
//!   toward  : <shape args> dir(unit)    -> local_support_point_toward(Unit::new_unchecked(dir))
//!   posed   : <shape args> iso dir      -> support_point(iso, dir)
//!   ptoward : <shape args> iso dir(unit)-> support_point_toward(iso, Unit::new_unchecked(dir))
use crate::util::*;
use crate::p3::na::Unit;
use crate::p3::shape as s3;
use crate::p2::shape as s2;
use crate::p3::shape::SupportMap as SM3;
use crate::p2::shape::SupportMap as SM2;
use crate::p3::query::gjk::{ConstantOrigin, ConstantPoint, DilatedShape};
#[path = "c10_poly.rs"]
mod poly;

fn sup3<S: SM3 + ?Sized>(s: &S, mode: &str, a: &mut Args) -> String {
    match mode {
        "local" => { let d = d3::v(a); d3::fp(&s.local_support_point(&d)) }
        "toward" => { let d = d3::v(a); d3::fp(&s.local_support_point_toward(&Unit::new_unchecked(d))) }
        "posed" => { let m = d3::iso(a); let d = d3::v(a); d3::fp(&s.support_point(&m, &d)) }
        "ptoward" => { let m = d3::iso(a); let d = d3::v(a); d3::fp(&s.support_point_toward(&m, &Unit::new_unchecked(d))) }
        _ => "nomode".into(),
    }
}
fn sup2<S: SM2 + ?Sized>(s: &S, mode: &str, a: &mut Args) -> String {
    use crate::p2::na::Unit;
    match mode {
        "local" => { let d = d2::v(a); d2::fp(&s.local_support_point(&d)) }
        "toward" => { let d = d2::v(a); d2::fp(&s.local_support_point_toward(&Unit::new_unchecked(d))) }
        "posed" => { let m = d2::iso(a); let d = d2::v(a); d2::fp(&s.support_point(&m, &d)) }
        "ptoward" => { let m = d2::iso(a); let d = d2::v(a); d2::fp(&s.support_point_toward(&m, &Unit::new_unchecked(d))) }
        _ => "nomode".into(),
    }
}

fn pts3(a: &mut Args) -> Vec<d3::Point<f64>> { let n = a.u(); (0..n).map(|_| d3::p(a)).collect() }
fn pts2(a: &mut Args) -> Vec<d2::Point<f64>> { let n = a.u(); (0..n).map(|_| d2::p(a)).collect() }
fn idx3(a: &mut Args) -> Vec<[u32; 3]> { let n = a.u(); (0..n).map(|_| [a.u() as u32, a.u() as u32, a.u() as u32]).collect() }
fn polyhedron(a: &mut Args) -> s3::ConvexPolyhedron {
    let p = pts3(a); let i = idx3(a);
    let poly = s3::ConvexPolyhedron::from_convex_mesh(p.clone(), &i).expect("from_convex_mesh");
    assert!(poly.points() == &p[..], "constructor changed the points");
    poly
}
fn polygon(a: &mut Args) -> s2::ConvexPolygon {
    let p = pts2(a);
    let poly = s2::ConvexPolygon::from_convex_polyline_unmodified(p.clone()).expect("from_convex_polyline_unmodified");
    assert!(poly.points() == &p[..], "constructor changed the points");
    poly
}

fn fid3(p: s3::PackedFeatureId) -> String {
    match p.unpack() { s3::FeatureId::Vertex(c) => format!("v{}", c), s3::FeatureId::Edge(c) => format!("e{}", c),
                       s3::FeatureId::Face(c) => format!("f{}", c), _ => "u".into() }
}
fn fid2(p: s2::PackedFeatureId) -> String {
    match p.unpack() { s2::FeatureId::Vertex(c) => format!("v{}", c), s2::FeatureId::Face(c) => format!("f{}", c), _ => "u".into() }
}
/// `n  v_0 … v_{n-1}  vid_0 … vid_{n-1}  eid_0 … eid_{n-1}  fid`
fn ffeat3(f: &s3::PolygonalFeature) -> String {
    let n = f.num_vertices;
    let mut t = vec![format!("{}", n)];
    for i in 0..n { t.push(d3::fp(&f.vertices[i])); }
    for i in 0..n { t.push(fid3(f.vids[i])); }
    for i in 0..n { t.push(fid3(f.eids[i])); }
    t.push(fid3(f.fid));
    t.join(" ")
}
fn ffeat2(f: &s2::PolygonalFeature) -> String {
    let n = f.num_vertices;
    let mut t = vec![format!("{}", n)];
    for i in 0..n { t.push(d2::fp(&f.vertices[i])); }
    for i in 0..n { t.push(fid2(f.vids[i])); }
    t.push(fid2(f.fid));
    t.join(" ")
}
fn feat3<S: s3::PolygonalFeatureMap>(s: &S, a: &mut Args) -> String {
    let d = d3::v(a);
    let mut f = s3::PolygonalFeature::default();
    s.local_support_feature(&Unit::new_unchecked(d), &mut f);
    ffeat3(&f)
}
fn feat2<S: s2::PolygonalFeatureMap>(s: &S, a: &mut Args) -> String {
    let d = d2::v(a);
    let mut f = s2::PolygonalFeature::default();
    s.local_support_feature(&crate::p2::na::Unit::new_unchecked(d), &mut f);
    ffeat2(&f)
}

fn exec_feature(func: &str, a: &mut Args) -> Option<String> {
    Some(match func {
        // ---- feature maps
        "cuboid_face" => { let he = d3::v(a); let d = d3::v(a); ffeat3(&s3::Cuboid::new(he).support_face(d)) }
        "cuboid_feature" => { let he = d3::v(a); feat3(&s3::Cuboid::new(he), a) }
        "cuboid_edge" => { let he = d3::v(a); let d = d3::v(a); let s = s3::Cuboid::new(he).local_support_edge_segment(d);
            format!("{} {}", d3::fp(&s.a), d3::fp(&s.b)) }
        "cuboid2_face" => { let he = d2::v(a); let d = d2::v(a); ffeat2(&s2::Cuboid::new(he).support_face(d)) }
        "cuboid2_feature" => { let he = d2::v(a); feat2(&s2::Cuboid::new(he), a) }
        "triangle_feature" => { let p = d3::p(a); let q = d3::p(a); let r = d3::p(a); feat3(&s3::Triangle::new(p, q, r), a) }
        "triangle_edge" => { let p = d3::p(a); let q = d3::p(a); let r = d3::p(a); let d = d3::v(a);
            let s = s3::Triangle::new(p, q, r).local_support_edge_segment(d); format!("{} {}", d3::fp(&s.a), d3::fp(&s.b)) }
        "triangle2_feature" => { let p = d2::p(a); let q = d2::p(a); let r = d2::p(a); feat2(&s2::Triangle::new(p, q, r), a) }
        "segment_feature" => { let p = d3::p(a); let q = d3::p(a); feat3(&s3::Segment::new(p, q), a) }
        "segment2_feature" => { let p = d2::p(a); let q = d2::p(a); feat2(&s2::Segment::new(p, q), a) }
        "cylinder_feature" => { let hh = a.f(); let r = a.f(); feat3(&s3::Cylinder::new(hh, r), a) }
        "cone_feature" => { let hh = a.f(); let r = a.f(); feat3(&s3::Cone::new(hh, r), a) }
        "polygon_feature" => { let s = polygon(a); feat2(&s, a) }
        _ => return None,
    })
}

pub fn exec(func: &str, a: &mut Args) -> String {
    if let Some(s) = exec_feature(func, a) { return s; }
    if let Some(s) = poly::exec(func, a) { return s; }
    let (shape, mode) = match func.rfind('_') { Some(i) => (&func[..i], &func[i + 1..]), None => (func, "") };
    match shape {
        // ---- 3-D
        "ball" => { let r = a.f(); sup3(&s3::Ball::new(r), mode, a) }
        "cuboid" => { let he = d3::v(a); sup3(&s3::Cuboid::new(he), mode, a) }
        "capsule" => { let p = d3::p(a); let q = d3::p(a); let r = a.f(); sup3(&s3::Capsule::new(p, q, r), mode, a) }
        "segment" => { let p = d3::p(a); let q = d3::p(a); sup3(&s3::Segment::new(p, q), mode, a) }
        "triangle" => { let p = d3::p(a); let q = d3::p(a); let r = d3::p(a); sup3(&s3::Triangle::new(p, q, r), mode, a) }
        "cone" => { let hh = a.f(); let r = a.f(); sup3(&s3::Cone::new(hh, r), mode, a) }
        "cylinder" => { let hh = a.f(); let r = a.f(); sup3(&s3::Cylinder::new(hh, r), mode, a) }
        "polyhedron" => { let s = polyhedron(a); sup3(&s, mode, a) }
        "cloud" => { // cloud_id: n pts dir -> point_cloud_support_point_id ; cloud_point -> point_cloud_support_point
            let p = pts3(a); let d = d3::v(a);
            match mode {
                "id" => format!("{}", crate::p3::utils::point_cloud_support_point_id(&d, &p)),
                "point" => d3::fp(&crate::p3::utils::point_cloud_support_point(&d, &p)),
                _ => "nomode".into() } }
        "roundcuboid" => { let he = d3::v(a); let br = a.f(); sup3(&s3::RoundShape { inner_shape: s3::Cuboid::new(he), border_radius: br }, mode, a) }
        "roundtriangle" => { let p = d3::p(a); let q = d3::p(a); let r = d3::p(a); let br = a.f();
            sup3(&s3::RoundShape { inner_shape: s3::Triangle::new(p, q, r), border_radius: br }, mode, a) }
        "roundcylinder" => { let hh = a.f(); let r = a.f(); let br = a.f(); sup3(&s3::RoundShape { inner_shape: s3::Cylinder::new(hh, r), border_radius: br }, mode, a) }
        "roundcone" => { let hh = a.f(); let r = a.f(); let br = a.f(); sup3(&s3::RoundShape { inner_shape: s3::Cone::new(hh, r), border_radius: br }, mode, a) }
        "roundpolyhedron" => { let s = polyhedron(a); let br = a.f(); sup3(&s3::RoundShape { inner_shape: s, border_radius: br }, mode, a) }
        "dilatedcuboid" => { let he = d3::v(a); let br = a.f(); let c = s3::Cuboid::new(he); sup3(&DilatedShape { shape: &c, radius: br }, mode, a) }
        "dilatedcapsule" => { let p = d3::p(a); let q = d3::p(a); let r = a.f(); let br = a.f(); let c = s3::Capsule::new(p, q, r); sup3(&DilatedShape { shape: &c, radius: br }, mode, a) }
        "constantpoint" => { let p = d3::p(a); sup3(&ConstantPoint(p), mode, a) }
        "constantorigin" => sup3(&ConstantOrigin, mode, a),
        // ---- 2-D
        "ball2" => { let r = a.f(); sup2(&s2::Ball::new(r), mode, a) }
        "cuboid2" => { let he = d2::v(a); sup2(&s2::Cuboid::new(he), mode, a) }
        "capsule2" => { let p = d2::p(a); let q = d2::p(a); let r = a.f(); sup2(&s2::Capsule::new(p, q, r), mode, a) }
        "segment2" => { let p = d2::p(a); let q = d2::p(a); sup2(&s2::Segment::new(p, q), mode, a) }
        "triangle2" => { let p = d2::p(a); let q = d2::p(a); let r = d2::p(a); sup2(&s2::Triangle::new(p, q, r), mode, a) }
        "polygon" => { let s = polygon(a); sup2(&s, mode, a) }
        "roundcuboid2" => { let he = d2::v(a); let br = a.f(); sup2(&s2::RoundShape { inner_shape: s2::Cuboid::new(he), border_radius: br }, mode, a) }
        "roundpolygon" => { let s = polygon(a); let br = a.f(); sup2(&s2::RoundShape { inner_shape: s, border_radius: br }, mode, a) }
        _ => "nofn".into(),
    }
}

// ------------------------------------------------------------------ generators

/// a direction: lattice stream = axis-aligned / diagonal / ±0 components / ties; random stream = |dir| in [1e-3,1e3]
/// plus near-zero and exactly-zero components.
pub fn gen_dir3(r: &mut Rng, lat: bool) -> d3::Vector<f64> {
    if lat {
        let c = |r: &mut Rng| *r.pick(&[0.0, -0.0, 1.0, -1.0, 0.5, -0.5, 2.0, -2.0, 0.25, 3.0, -3.0]);
        loop {
            let v = match r.below(4) {
                0 => { let mut v = d3::Vector::new(0.0, 0.0, 0.0); v[r.below(3) as usize] = *r.pick(&[1.0, -1.0, 2.0, -0.5]);
                       for i in 0..3 { if v[i] == 0.0 && r.bool() { v[i] = -0.0; } } v }
                _ => d3::Vector::new(c(r), c(r), c(r)),
            };
            if v.norm_squared() > 0.0 { return v; }
        }
    } else {
        let s = r.logu(1e-3, 1e3);
        let mut v = d3::Vector::new(r.uniform(-1.0, 1.0), r.uniform(-1.0, 1.0), r.uniform(-1.0, 1.0));
        if r.below(8) == 0 { v[r.below(3) as usize] *= 1e-12; }
        if r.below(8) == 0 { v[r.below(3) as usize] = 0.0; }
        if v.norm() < 1e-3 { v.x = 1.0; }
        v.normalize() * s
    }
}
pub fn gen_dir2(r: &mut Rng, lat: bool) -> d2::Vector<f64> {
    if lat {
        let c = |r: &mut Rng| *r.pick(&[0.0, -0.0, 1.0, -1.0, 0.5, -0.5, 2.0, -2.0, 0.25, 3.0, -3.0]);
        loop {
            let v = d2::Vector::new(c(r), c(r));
            if v.norm_squared() > 0.0 { return v; }
        }
    } else {
        let s = r.logu(1e-3, 1e3);
        let mut v = d2::Vector::new(r.uniform(-1.0, 1.0), r.uniform(-1.0, 1.0));
        if r.below(8) == 0 { v[r.below(2) as usize] *= 1e-12; }
        if r.below(8) == 0 { v[r.below(2) as usize] = 0.0; }
        if v.norm() < 1e-3 { v.x = 1.0; }
        v.normalize() * s
    }
}
/// near-zero directions (property: "all directions including ... near-zero ones"): an ordinary direction scaled by
/// 2^-k, k in {30, 60, 200, 500, 1000} (exact scaling, possibly subnormal components), or by a decimal 1e-17 / 1e-40 /
/// 1e-150.  Still non-zero.  `sel` cycles through the scales so that every shape meets every scale.
pub const TINY_SCALES: usize = 8;
pub fn tiny_scale(sel: usize) -> f64 {
    match sel % TINY_SCALES {
        0 => 2f64.powi(-30), 1 => 2f64.powi(-60), 2 => 2f64.powi(-200), 3 => 2f64.powi(-500), 4 => 2f64.powi(-1000),
        5 => 1e-17, 6 => 1e-40, _ => 1e-150,
    }
}
fn tiny3(r: &mut Rng, lat: bool, sel: usize) -> d3::Vector<f64> { gen_dir3(r, lat) * tiny_scale(sel) }
fn tiny2(r: &mut Rng, lat: bool, sel: usize) -> d2::Vector<f64> { gen_dir2(r, lat) * tiny_scale(sel) }

/// unit directions for the `_toward` variants: exact axis/Pythagorean ones on the lattice stream, normalised otherwise
fn gen_unit3(r: &mut Rng, lat: bool) -> d3::Vector<f64> {
    if lat {
        let mut v = d3::Vector::new(0.0, 0.0, 0.0);
        match r.below(3) {
            0 => { v[r.below(3) as usize] = if r.bool() { 1.0 } else { -1.0 }; for i in 0..3 { if v[i] == 0.0 && r.bool() { v[i] = -0.0; } } }
            1 => { let i = r.below(3) as usize; let j = (i + 1 + r.below(2) as usize) % 3;
                   v[i] = if r.bool() { 0.6 } else { -0.6 }; v[j] = if r.bool() { 0.8 } else { -0.8 }; }
            _ => { let s = std::f64::consts::FRAC_1_SQRT_2; let i = r.below(3) as usize; let j = (i + 1) % 3;
                   v[i] = if r.bool() { s } else { -s }; v[j] = if r.bool() { s } else { -s }; }
        }
        v
    } else { gen_dir3(r, false).normalize() }
}
fn gen_unit2(r: &mut Rng, lat: bool) -> d2::Vector<f64> {
    if lat {
        *r.pick(&[d2::Vector::new(1.0, 0.0), d2::Vector::new(-1.0, 0.0), d2::Vector::new(0.0, 1.0), d2::Vector::new(-0.0, -1.0),
                  d2::Vector::new(0.6, 0.8), d2::Vector::new(-0.8, 0.6), d2::Vector::new(0.6, -0.8),
                  d2::Vector::new(std::f64::consts::FRAC_1_SQRT_2, -std::f64::consts::FRAC_1_SQRT_2)])
    } else { gen_dir2(r, false).normalize() }
}

fn hpts3(p: &[d3::Point<f64>]) -> String { format!("{} {}", p.len(), p.iter().map(d3::hp).collect::<Vec<_>>().join(" ")) }
fn hpts2(p: &[d2::Point<f64>]) -> String { format!("{} {}", p.len(), p.iter().map(d2::hp).collect::<Vec<_>>().join(" ")) }
fn hidx(i: &[[u32; 3]]) -> String { format!("{} {}", i.len(), i.iter().map(|t| format!("{} {} {}", t[0], t[1], t[2])).collect::<Vec<_>>().join(" ")) }

/// a convex polyhedron as (points, triangle indices) accepted by `from_convex_mesh`
fn gen_polyhedron(r: &mut Rng, lat: bool) -> (Vec<d3::Point<f64>>, Vec<[u32; 3]>) {
    let tetra = |r: &mut Rng| {
        let s = r.pos_extent(true);
        (vec![d3::Point::new(s, s, s), d3::Point::new(s, -s, -s), d3::Point::new(-s, s, -s), d3::Point::new(-s, -s, s)],
         vec![[0u32, 1, 2], [0, 3, 1], [0, 2, 3], [1, 3, 2]])
    };
    let cand: Vec<d3::Point<f64>> = if lat {
        match r.below(3) {
            0 => { // box corners (many ties)
                let he = d3::gen_he(r, true); let c = d3::gen_v(r, true, 1.0) * 0.25;
                let mut p = Vec::new();
                for sx in [-1.0, 1.0] { for sy in [-1.0, 1.0] { for sz in [-1.0, 1.0] {
                    p.push(d3::Point::new(c.x + sx * he.x, c.y + sy * he.y, c.z + sz * he.z)); } } }
                p }
            1 => { // octahedron
                let he = d3::gen_he(r, true);
                vec![d3::Point::new(he.x, 0.0, 0.0), d3::Point::new(-he.x, 0.0, 0.0), d3::Point::new(0.0, he.y, 0.0),
                     d3::Point::new(0.0, -he.y, 0.0), d3::Point::new(0.0, 0.0, he.z), d3::Point::new(0.0, 0.0, -he.z)] }
            _ => return tetra(r),
        }
    } else {
        let n = 4 + r.below(12) as usize;
        (0..n).map(|_| d3::gen_p(r, false, 10.0)).collect()
    };
    match crate::p3::transformation::try_convex_hull(&cand) {
        Ok((p, i)) if s3::ConvexPolyhedron::from_convex_mesh(p.clone(), &i).is_some() => (p, i),
        _ => tetra(r),
    }
}
/// a convex polygon (counter-clockwise) accepted by `from_convex_polyline_unmodified`
fn gen_polygon(r: &mut Rng, lat: bool) -> Vec<d2::Point<f64>> {
    let cand: Vec<d2::Point<f64>> = if lat {
        match r.below(3) {
            0 => { let he = d2::gen_he(r, true); let c = d2::gen_v(r, true, 1.0) * 0.25;
                   vec![d2::Point::new(c.x + he.x, c.y + he.y), d2::Point::new(c.x - he.x, c.y + he.y),
                        d2::Point::new(c.x - he.x, c.y - he.y), d2::Point::new(c.x + he.x, c.y - he.y)] }
            1 => { let he = d2::gen_he(r, true);
                   vec![d2::Point::new(he.x, 0.0), d2::Point::new(0.0, he.y), d2::Point::new(-he.x, 0.0), d2::Point::new(0.0, -he.y)] }
            _ => { let s = r.pos_extent(true); // hexagon-like lattice polygon
                   vec![d2::Point::new(2.0 * s, 0.0), d2::Point::new(s, s), d2::Point::new(-s, s), d2::Point::new(-2.0 * s, 0.0),
                        d2::Point::new(-s, -s), d2::Point::new(s, -s)] }
        }
    } else {
        let n = 3 + r.below(10) as usize;
        (0..n).map(|_| d2::gen_p(r, false, 10.0)).collect()
    };
    let hull = crate::p2::transformation::convex_hull(&cand);
    if hull.len() >= 3 && s2::ConvexPolygon::from_convex_polyline_unmodified(hull.clone()).is_some() { hull }
    else { vec![d2::Point::new(1.0, 0.0), d2::Point::new(0.0, 1.0), d2::Point::new(-1.0, -1.0)] }
}

/// points for segments/triangles/capsules: lattice points give many exact ties with lattice directions
fn gp3(r: &mut Rng, lat: bool) -> d3::Point<f64> { d3::gen_p(r, lat, 10.0) }
fn gp2(r: &mut Rng, lat: bool) -> d2::Point<f64> { d2::gen_p(r, lat, 10.0) }

pub fn gen(r: &mut Rng, thorough: bool) -> Vec<(String, String)> {
    let n = if thorough { 2000 } else { 200 };
    let mut v: Vec<(String, String)> = Vec::new();
    for it in 0..n {
        let lat = it % 2 == 0;
        let mut tsel: usize = it * 5; // cycles the tiny-direction scales over shapes (+3 per draw) and iterations (+5)
        // every mode of a 3-D shape: `sa` = hex-encoded shape arguments
        let mut all3 = |r: &mut Rng, v: &mut Vec<(String, String)>, shape: &str, sa: String| {
            let d = gen_dir3(r, lat); let u = gen_unit3(r, lat); let m = d3::gen_iso(r, lat, 100.0);
            // near-zero (tiny-norm, non-zero) directions for the un-normalised variants, local and posed
            for _ in 0..2 {
                tsel += 3; // 3 is coprime with TINY_SCALES: every shape meets every scale
                v.push((format!("{}_local", shape), format!("{} {}", sa, d3::hv(&tiny3(r, lat, tsel)))));
                v.push((format!("{}_posed", shape), format!("{} {} {}", sa, d3::hiso(&m), d3::hv(&tiny3(r, lat, tsel + 1)))));
            }
            v.push((format!("{}_local", shape), format!("{} {}", sa, d3::hv(&d))));
            v.push((format!("{}_toward", shape), format!("{} {}", sa, d3::hv(&u))));
            v.push((format!("{}_posed", shape), format!("{} {} {}", sa, d3::hiso(&m), d3::hv(&gen_dir3(r, lat)))));
            v.push((format!("{}_ptoward", shape), format!("{} {} {}", sa, d3::hiso(&m), d3::hv(&gen_unit3(r, lat)))));
        };
        let r1 = r.pos_extent(lat); let r2 = r.pos_extent(lat); let r3 = r.pos_extent(lat);
        let he = d3::gen_he(r, lat);
        all3(r, &mut v, "ball", hx(r1));
        all3(r, &mut v, "cuboid", d3::hv(&he));
        let (a, b, c) = (gp3(r, lat), gp3(r, lat), gp3(r, lat));
        // degenerate-but-valid: coincident end points / flat triangles once in a while
        let b = if r.below(16) == 0 { a } else { b };
        all3(r, &mut v, "capsule", format!("{} {} {}", d3::hp(&a), d3::hp(&b), hx(r1)));
        all3(r, &mut v, "segment", format!("{} {}", d3::hp(&a), d3::hp(&b)));
        all3(r, &mut v, "triangle", format!("{} {} {}", d3::hp(&a), d3::hp(&b), d3::hp(&c)));
        all3(r, &mut v, "cone", format!("{} {}", hx(r2), hx(r3)));
        all3(r, &mut v, "cylinder", format!("{} {}", hx(r2), hx(r3)));
        let (pp, pi) = gen_polyhedron(r, lat);
        let ph = format!("{} {}", hpts3(&pp), hidx(&pi));
        all3(r, &mut v, "polyhedron", ph.clone());
        // raw point clouds (not necessarily convex position, duplicates allowed)
        let nc = 1 + r.below(10) as usize;
        let mut cloud: Vec<d3::Point<f64>> = (0..nc).map(|_| gp3(r, lat)).collect();
        if nc > 2 && r.bool() { let k = r.below(nc as u64) as usize; cloud[k] = cloud[0]; }
        let d = gen_dir3(r, lat);
        v.push(("cloud_id".into(), format!("{} {}", hpts3(&cloud), d3::hv(&d))));
        v.push(("cloud_point".into(), format!("{} {}", hpts3(&cloud), d3::hv(&d))));
        v.push(("cloud_id".into(), format!("{} {}", hpts3(&pp), d3::hv(&gen_dir3(r, lat)))));
        v.push(("cloud_id".into(), format!("{} {}", hpts3(&cloud), d3::hv(&tiny3(r, lat, it)))));
        v.push(("cloud_point".into(), format!("{} {}", hpts3(&pp), d3::hv(&tiny3(r, lat, it + 3)))));
        let br = r.pos_extent(lat);
        all3(r, &mut v, "roundcuboid", format!("{} {}", d3::hv(&he), hx(br)));
        all3(r, &mut v, "roundtriangle", format!("{} {} {} {}", d3::hp(&a), d3::hp(&b), d3::hp(&c), hx(br)));
        all3(r, &mut v, "roundcylinder", format!("{} {} {}", hx(r2), hx(r3), hx(br)));
        all3(r, &mut v, "roundcone", format!("{} {} {}", hx(r2), hx(r3), hx(br)));
        all3(r, &mut v, "roundpolyhedron", format!("{} {}", ph, hx(br)));
        all3(r, &mut v, "dilatedcuboid", format!("{} {}", d3::hv(&he), hx(br)));
        all3(r, &mut v, "dilatedcapsule", format!("{} {} {} {}", d3::hp(&a), d3::hp(&b), hx(r1), hx(br)));
        all3(r, &mut v, "constantpoint", d3::hp(&a));
        if it % 4 == 0 { // no shape arguments: the leading space is harmless for the tokenizer
            let d = gen_dir3(r, lat); let m = d3::gen_iso(r, lat, 100.0);
            v.push(("constantorigin_local".into(), d3::hv(&d)));
            v.push(("constantorigin_posed".into(), format!("{} {}", d3::hiso(&m), d3::hv(&d))));
        }
        // ---- 2-D
        let mut tsel2: usize = it * 5;
        let mut all2 = |r: &mut Rng, v: &mut Vec<(String, String)>, shape: &str, sa: String| {
            let d = gen_dir2(r, lat); let u = gen_unit2(r, lat); let m = d2::gen_iso(r, lat, 100.0);
            for _ in 0..2 {
                tsel2 += 3;
                v.push((format!("{}_local", shape), format!("{} {}", sa, d2::hv(&tiny2(r, lat, tsel2)))));
                v.push((format!("{}_posed", shape), format!("{} {} {}", sa, d2::hiso(&m), d2::hv(&tiny2(r, lat, tsel2 + 1)))));
            }
            v.push((format!("{}_local", shape), format!("{} {}", sa, d2::hv(&d))));
            v.push((format!("{}_toward", shape), format!("{} {}", sa, d2::hv(&u))));
            v.push((format!("{}_posed", shape), format!("{} {} {}", sa, d2::hiso(&m), d2::hv(&gen_dir2(r, lat)))));
            v.push((format!("{}_ptoward", shape), format!("{} {} {}", sa, d2::hiso(&m), d2::hv(&gen_unit2(r, lat)))));
        };
        let he2 = d2::gen_he(r, lat);
        let (a2, b2, c2) = (gp2(r, lat), gp2(r, lat), gp2(r, lat));
        let b2 = if r.below(16) == 0 { a2 } else { b2 };
        all2(r, &mut v, "ball2", hx(r1));
        all2(r, &mut v, "cuboid2", d2::hv(&he2));
        all2(r, &mut v, "capsule2", format!("{} {} {}", d2::hp(&a2), d2::hp(&b2), hx(r1)));
        all2(r, &mut v, "segment2", format!("{} {}", d2::hp(&a2), d2::hp(&b2)));
        all2(r, &mut v, "triangle2", format!("{} {} {}", d2::hp(&a2), d2::hp(&b2), d2::hp(&c2)));
        let pg = gen_polygon(r, lat);
        all2(r, &mut v, "polygon", hpts2(&pg));
        all2(r, &mut v, "roundcuboid2", format!("{} {}", d2::hv(&he2), hx(br)));
        all2(r, &mut v, "roundpolygon", format!("{} {}", hpts2(&pg), hx(br)));
        // ---- exact ties: vertices that differ by a vector orthogonal to the direction (all arithmetic exact on the lattice)
        if lat {
            let d = gen_dir3(r, true);
            let w1 = d.cross(&d3::gen_v(r, true, 1.0)); let w2 = d.cross(&d3::gen_v(r, true, 1.0));
            let (ta, tb, tc) = (a, a + w1, a + w2);
            v.push(("segment_local".into(), format!("{} {} {}", d3::hp(&ta), d3::hp(&tb), d3::hv(&d))));
            v.push(("segment_local".into(), format!("{} {} {}", d3::hp(&tb), d3::hp(&ta), d3::hv(&d))));
            v.push(("capsule_local".into(), format!("{} {} {} {}", d3::hp(&ta), d3::hp(&tb), hx(r1), d3::hv(&d))));
            v.push(("triangle_local".into(), format!("{} {} {} {}", d3::hp(&ta), d3::hp(&tb), d3::hp(&tc), d3::hv(&d))));
            v.push(("triangle_local".into(), format!("{} {} {} {}", d3::hp(&tc), d3::hp(&ta), d3::hp(&tb), d3::hv(&d))));
            v.push(("triangle_edge".into(), format!("{} {} {} {}", d3::hp(&tb), d3::hp(&tc), d3::hp(&ta), d3::hv(&d))));
            // all six vertex orders of the tied triangle (two- and three-way ties: the branch order decides), plain and rounded
            let tv = [ta, tb, tc];
            for pm in [[0usize, 1, 2], [0, 2, 1], [1, 0, 2], [1, 2, 0], [2, 0, 1], [2, 1, 0]] {
                let ts = format!("{} {} {}", d3::hp(&tv[pm[0]]), d3::hp(&tv[pm[1]]), d3::hp(&tv[pm[2]]));
                v.push(("triangle_local".into(), format!("{} {}", ts, d3::hv(&d))));
                v.push(("triangle_edge".into(), format!("{} {}", ts, d3::hv(&d))));
                if pm[0] == it % 3 { v.push(("roundtriangle_local".into(), format!("{} {} {}", ts, hx(r1), d3::hv(&d)))); }
            }
            v.push(("cloud_id".into(), format!("{} {}", hpts3(&[tc, ta, b, tb]), d3::hv(&d))));
            let d2v = gen_dir2(r, true);
            let p2 = d2::Vector::new(-d2v.y, d2v.x) * *r.pick(&[0.5, 1.0, -1.0, 2.0]);
            v.push(("segment2_local".into(), format!("{} {} {}", d2::hp(&a2), d2::hp(&(a2 + p2)), d2::hv(&d2v))));
            v.push(("triangle2_local".into(), format!("{} {} {} {}", d2::hp(&a2), d2::hp(&(a2 + p2)), d2::hp(&(a2 - p2)), d2::hv(&d2v))));
            v.push(("capsule2_local".into(), format!("{} {} {} {}", d2::hp(&(a2 + p2)), d2::hp(&a2), hx(r1), d2::hv(&d2v))));
        }
        // ---- feature maps (directions are unit for the trait method; `support_face` takes any vector)
        for k in 0..2 {
            let d = if k == 0 { gen_dir3(r, lat) } else { gen_unit3(r, lat) };
            let dd = if k == 0 { gen_dir2(r, lat) } else { gen_unit2(r, lat) };
            v.push(("cuboid_face".into(), format!("{} {}", d3::hv(&he), d3::hv(&d))));
            v.push(("cuboid_edge".into(), format!("{} {}", d3::hv(&he), d3::hv(&d))));
            v.push(("cuboid2_face".into(), format!("{} {}", d2::hv(&he2), d2::hv(&dd))));
            v.push(("triangle_edge".into(), format!("{} {} {} {}", d3::hp(&a), d3::hp(&b), d3::hp(&c), d3::hv(&d))));
        }
        { // the raw-vector feature functions also accept near-zero directions
            let d = tiny3(r, lat, it); let dd = tiny2(r, lat, it + 2);
            v.push(("cuboid_face".into(), format!("{} {}", d3::hv(&he), d3::hv(&d))));
            v.push(("cuboid_edge".into(), format!("{} {}", d3::hv(&he), d3::hv(&d))));
            v.push(("cuboid2_face".into(), format!("{} {}", d2::hv(&he2), d2::hv(&dd))));
            v.push(("triangle_edge".into(), format!("{} {} {} {}", d3::hp(&a), d3::hp(&b), d3::hp(&c), d3::hv(&d))));
        }
        let u = gen_unit3(r, lat); let u2 = gen_unit2(r, lat);
        v.push(("cuboid_feature".into(), format!("{} {}", d3::hv(&he), d3::hv(&u))));
        v.push(("cuboid2_feature".into(), format!("{} {}", d2::hv(&he2), d2::hv(&u2))));
        v.push(("triangle_feature".into(), format!("{} {} {} {}", d3::hp(&a), d3::hp(&b), d3::hp(&c), d3::hv(&u))));
        v.push(("segment_feature".into(), format!("{} {} {}", d3::hp(&a), d3::hp(&b), d3::hv(&u))));
        v.push(("segment2_feature".into(), format!("{} {} {}", d2::hp(&a2), d2::hp(&b2), d2::hv(&u2))));
        // counter-clockwise (and, rarely, clockwise / degenerate) 2-D triangles
        let (ta, tb, tc) = { let area = (b2 - a2).perp(&(c2 - a2)); if area < 0.0 && r.below(8) != 0 { (a2, c2, b2) } else { (a2, b2, c2) } };
        for _ in 0..2 {
            v.push(("triangle2_feature".into(), format!("{} {} {} {}", d2::hp(&ta), d2::hp(&tb), d2::hp(&tc), d2::hv(&gen_unit2(r, lat)))));
        }
        for _ in 0..2 {
            let u = if r.below(4) == 0 { // around the |dir.y| = 0.5 switch of the cylinder and dir.y = 0 of the cone
                let y = *r.pick(&[0.5, -0.5, 0.0, -0.0, 0.4999999999999999, 0.5000000000000001]);
                let s = (1.0 - y * y as f64).sqrt(); let (cx, cz) = *r.pick(&[(1.0, 0.0), (0.0, 1.0), (0.6, 0.8), (-0.8, 0.6)]);
                d3::Vector::new(cx * s, y, cz * s)
            } else { gen_unit3(r, lat) };
            v.push(("cylinder_feature".into(), format!("{} {} {}", hx(r2), hx(r3), d3::hv(&u))));
            v.push(("cone_feature".into(), format!("{} {} {}", hx(r2), hx(r3), d3::hv(&u))));
            v.push(("polygon_feature".into(), format!("{} {}", hpts2(&pg), d2::hv(&gen_unit2(r, lat)))));
        }
        // structured family: the direction is (close to) the outward normal of a chosen edge -- every edge index in
        // turn, and always the closing edge points[n-1] -> points[0] and the first edge
        {
            let np = pg.len();
            for e in [np - 1, 0, it % np] {
                let t = pg[(e + 1) % np] - pg[e];
                let nrm = d2::Vector::new(t.y, -t.x);
                if nrm.norm() > 0.0 {
                    let u = nrm.normalize();
                    v.push(("polygon_feature".into(), format!("{} {}", hpts2(&pg), d2::hv(&u))));
                    let w = (u + d2::Vector::new(-u.y, u.x) * r.uniform(-0.2, 0.2)).normalize();
                    v.push(("polygon_feature".into(), format!("{} {}", hpts2(&pg), d2::hv(&w))));
                }
            }
            let tri = [ta, tb, tc];
            for e in 0..3 {
                let t = tri[(e + 1) % 3] - tri[e];
                let nrm = d2::Vector::new(t.y, -t.x);
                if nrm.norm() > 0.0 {
                    v.push(("triangle2_feature".into(), format!("{} {} {} {}", d2::hp(&ta), d2::hp(&tb), d2::hp(&tc), d2::hv(&nrm.normalize()))));
                }
            }
        }
        // ---- ConvexPolyhedron feature maps, CSO points (c10_poly.rs)
        poly::gen(r, it, lat, &mut v);
    }
    v
}
