//! C17: cutting and clipping (split_segment, split_aabb, Aabb::difference, clip_aabb_line & co,
//! clip_halfspace_polygon, Aabb::clip_polygon, clip_segment_segment; TriMesh split / plane section: oracle-only).
use crate::util::*;
use crate::p3::bounding_volume::Aabb;
use crate::p3::na::Unit;
use crate::p3::query::details::{clip_aabb_line, clip_halfspace_polygon};
use crate::p3::query::{IntersectResult, Ray, SplitResult};
use crate::p3::shape::{Ball, Cuboid, Cylinder, Segment, TriMesh, TriMeshFlags};

type P3 = d3::Point<f64>;
type V3 = d3::Vector<f64>;

fn aabb(a: &mut Args) -> Aabb { Aabb::new(d3::p(a), d3::p(a)) }
fn faabb(b: &Aabb) -> String { format!("{} {}", d3::fp(&b.mins), d3::fp(&b.maxs)) }
fn haabb(b: &Aabb) -> String { format!("{} {}", d3::hp(&b.mins), d3::hp(&b.maxs)) }
fn fpts(v: &[P3]) -> String {
    let mut s = format!("{}", v.len());
    for p in v { s.push(' '); s.push_str(&d3::fp(p)); }
    s
}
fn hpts(v: &[P3]) -> String {
    let mut s = format!("{}", v.len());
    for p in v { s.push(' '); s.push_str(&d3::hp(p)); }
    s
}
fn pts(a: &mut Args) -> Vec<P3> { let n = a.u(); (0..n).map(|_| d3::p(a)).collect() }
fn fmesh(m: &TriMesh) -> String {
    let mut s = fpts(m.vertices());
    s.push_str(&format!(" {}", m.indices().len()));
    for t in m.indices() { s.push_str(&format!(" {} {} {}", t[0], t[1], t[2])); }
    s
}
/// mesh argument: `oriented(0/1) nverts verts… ntris idx…`
fn mesh(a: &mut Args) -> TriMesh {
    let oriented = a.b();
    let v = pts(a);
    let n = a.u();
    let idx: Vec<[u32; 3]> = (0..n).map(|_| [a.u() as u32, a.u() as u32, a.u() as u32]).collect();
    if oriented { TriMesh::with_flags(v, idx, TriMeshFlags::ORIENTED).expect("mesh") } else { TriMesh::new(v, idx).expect("mesh") }
}
fn hmesh(oriented: bool, v: &[P3], idx: &[[u32; 3]]) -> String {
    let mut s = format!("{} {} {}", b(oriented), hpts(v), idx.len());
    for t in idx { s.push_str(&format!(" {} {} {}", t[0], t[1], t[2])); }
    s
}

pub fn exec(func: &str, a: &mut Args) -> String {
    match func {
        "aabb_split" => { let x = aabb(a); let axis = a.u(); let bias = a.f(); let eps = a.f();
            match x.canonical_split(axis, bias, eps) {
                SplitResult::Negative => "neg".into(), SplitResult::Positive => "pos".into(),
                SplitResult::Pair(l, r) => format!("pair {} {}", faabb(&l), faabb(&r)) } }
        "seg_split" => { let p = d3::p(a); let q = d3::p(a); let n = d3::v(a); let bias = a.f(); let eps = a.f();
            let (res, inter) = Segment::new(p, q).local_split_and_get_intersection(&Unit::new_unchecked(n), bias, eps);
            let r = match res { SplitResult::Negative => "neg".to_string(), SplitResult::Positive => "pos".to_string(),
                SplitResult::Pair(l, r) => format!("pair {} {} {} {}", d3::fp(&l.a), d3::fp(&l.b), d3::fp(&r.a), d3::fp(&r.b)) };
            let i = match inter { None => "none".to_string(), Some((pt, t)) => format!("some {} {}", d3::fp(&pt), ff(t)) };
            format!("{} {}", r, i) }
        "aabb_diff" => { let x = aabb(a); let y = aabb(a);
            let (pieces, cuts) = x.difference_with_cut_sequence(&y);
            let mut s = format!("{}", pieces.len());
            for p in pieces.iter() { s.push(' '); s.push_str(&faabb(p)); }
            s.push_str(&format!(" {}", cuts.len()));
            for (ax, bias) in cuts.iter() { s.push_str(&format!(" {} {}", ax, ff(*bias))); }
            s }
        "clip_line" => { let x = aabb(a); let o = d3::p(a); let d = d3::v(a);
            match clip_aabb_line(&x, &o, &d) { None => "none".into(),
                Some((n, f)) => format!("some {} {} {} {} {} {}", ff(n.0), d3::fv(&n.1), n.2, ff(f.0), d3::fv(&f.1), f.2) } }
        "clip_line_params" => { let x = aabb(a); let o = d3::p(a); let d = d3::v(a);
            match x.clip_line_parameters(&o, &d) { None => "none".into(), Some((t0, t1)) => format!("some {} {}", ff(t0), ff(t1)) } }
        "clip_ray_params" => { let x = aabb(a); let o = d3::p(a); let d = d3::v(a);
            match x.clip_ray_parameters(&Ray::new(o, d)) { None => "none".into(), Some((t0, t1)) => format!("some {} {}", ff(t0), ff(t1)) } }
        "clip_seg" => { let x = aabb(a); let pa = d3::p(a); let pb = d3::p(a);
            match x.clip_segment(&pa, &pb) { None => "none".into(), Some(s) => format!("some {} {}", d3::fp(&s.a), d3::fp(&s.b)) } }
        "clip_hs_poly" => { let c = d3::p(a); let n = d3::v(a); let poly = pts(a);
            let mut out = vec![P3::origin()]; // non-empty: `result.clear()` is part of the contract
            clip_halfspace_polygon(&c, &n, &poly, &mut out);
            fpts(&out) }
        "clip_poly" => { let x = aabb(a); let mut poly = pts(a);
            x.clip_polygon(&mut poly);
            fpts(&poly) }
        "clip_seg_seg" => { let s1 = (d2::p(a), d2::p(a)); let s2 = (d2::p(a), d2::p(a));
            match crate::p2::query::details::clip_segment_segment(s1, s2) { None => "none".into(),
                Some((ca, cb)) => format!("some {} {} {} {} {} {} {} {}", d2::fp(&ca.0), d2::fp(&ca.1), ca.2, ca.3, d2::fp(&cb.0), d2::fp(&cb.1), cb.2, cb.3) } }
        "tm_split" => { let m = mesh(a); let n = d3::v(a); let bias = a.f(); let eps = a.f();
            match m.local_split(&Unit::new_unchecked(n), bias, eps) {
                SplitResult::Negative => "neg".into(), SplitResult::Positive => "pos".into(),
                SplitResult::Pair(l, r) => format!("pair {} {}", fmesh(&l), fmesh(&r)) } }
        "tm_split_pos" => { let m = mesh(a); let pos = d3::iso(a); let n = d3::v(a); let bias = a.f(); let eps = a.f();
            match m.split(&pos, &Unit::new_unchecked(n), bias, eps) {
                SplitResult::Negative => "neg".into(), SplitResult::Positive => "pos".into(),
                SplitResult::Pair(l, r) => format!("pair {} {}", fmesh(&l), fmesh(&r)) } }
        "tm_section" => { let m = mesh(a); let n = d3::v(a); let bias = a.f(); let eps = a.f();
            match m.intersection_with_local_plane(&Unit::new_unchecked(n), bias, eps) {
                IntersectResult::Negative => "neg".into(), IntersectResult::Positive => "pos".into(),
                IntersectResult::Intersect(pl) => { let mut s = format!("poly {}", fpts(pl.vertices()));
                    s.push_str(&format!(" {}", pl.indices().len()));
                    for e in pl.indices() { s.push_str(&format!(" {} {}", e[0], e[1])); }
                    s } } }
        _ => "nofn".into(),
    }
}

fn gen_aabb(r: &mut Rng, lat: bool) -> Aabb {
    let c = d3::gen_p(r, lat, 50.0);
    let he = d3::gen_he(r, lat);
    if r.below(25) == 0 { Aabb::new(c, c) } else { Aabb::new(c - he, c + he) }
}
fn gen_eps(r: &mut Rng, lat: bool) -> f64 {
    if lat { *r.pick(&[0.0, 0.0, 0.25, 0.5, 1.0, 0.125]) } else { *r.pick(&[0.0, 1e-9, 1e-6, 1e-3, 0.1]) }
}

pub fn gen(r: &mut Rng, thorough: bool) -> Vec<(String, String)> {
    let n = if thorough { 5000 } else { 500 };
    let mut v = Vec::new();
    for it in 0..n {
        let lat = it % 2 == 0;
        // ---- Aabb::canonical_split: planes through faces, inside, outside, within epsilon
        let x = gen_aabb(r, lat);
        let axis = r.below(3) as usize;
        let eps = gen_eps(r, lat);
        let bias = match r.below(6) {
            0 => x.mins[axis], 1 => x.maxs[axis], 2 => x.mins[axis] + eps, 3 => x.maxs[axis] - eps,
            4 => x.mins[axis] + (x.maxs[axis] - x.mins[axis]) * *r.pick(&[0.25, 0.5, 0.75, -0.25, 1.25]),
            _ => r.coord(lat, 60.0) };
        v.push(("aabb_split".into(), format!("{} {} {} {}", haabb(&x), axis, hx(bias), hx(eps))));
    }
    v
}
