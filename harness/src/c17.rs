//! C17: cutting and clipping (split_segment, split_aabb, Aabb::difference, clip_aabb_line & co,
//! clip_halfspace_polygon, Aabb::clip_polygon, clip_segment_segment; TriMesh split / plane section: oracle-only).
use crate::util::*;
use crate::p3::bounding_volume::Aabb;
use crate::p3::na::Unit;
use crate::p3::query::details::{clip_aabb_line, clip_halfspace_polygon};
use crate::p3::query::{IntersectResult, Ray, SplitResult};
use crate::p3::shape::{Ball, Cuboid, Cylinder, Segment, TriMesh, TriMeshFlags};

type P3 = d3::Point<f64>;
type V3 = d3::Vector<f64>;

fn aabb(a: &mut Args) -> Aabb { Aabb::new(d3::p(a), d3::p(a)) }
fn faabb(b: &Aabb) -> String { format!("{} {}", d3::fp(&b.mins), d3::fp(&b.maxs)) }
fn haabb(b: &Aabb) -> String { format!("{} {}", d3::hp(&b.mins), d3::hp(&b.maxs)) }
fn fpts(v: &[P3]) -> String {
    let mut s = format!("{}", v.len());
    for p in v { s.push(' '); s.push_str(&d3::fp(p)); }
    s
}
fn hpts(v: &[P3]) -> String {
    let mut s = format!("{}", v.len());
    for p in v { s.push(' '); s.push_str(&d3::hp(p)); }
    s
}
fn pts(a: &mut Args) -> Vec<P3> { let n = a.u(); (0..n).map(|_| d3::p(a)).collect() }
fn fmesh(m: &TriMesh) -> String {
    let mut s = fpts(m.vertices());
    s.push_str(&format!(" {}", m.indices().len()));
    for t in m.indices() { s.push_str(&format!(" {} {} {}", t[0], t[1], t[2])); }
    s
}
/// mesh argument: `oriented(0/1) nverts verts… ntris idx…`
fn mesh(a: &mut Args) -> TriMesh {
    let oriented = a.b();
    let v = pts(a);
    let n = a.u();
    let idx: Vec<[u32; 3]> = (0..n).map(|_| [a.u() as u32, a.u() as u32, a.u() as u32]).collect();
    if oriented { TriMesh::with_flags(v, idx, TriMeshFlags::ORIENTED).expect("mesh") } else { TriMesh::new(v, idx).expect("mesh") }
}
fn hmesh(oriented: bool, v: &[P3], idx: &[[u32; 3]]) -> String {
    let mut s = format!("{} {} {}", b(oriented), hpts(v), idx.len());
    for t in idx { s.push_str(&format!(" {} {} {}", t[0], t[1], t[2])); }
    s
}

pub fn exec(func: &str, a: &mut Args) -> String {
    if std::env::var("C17_DRY").is_ok() { return "dry".into(); } // debugging aid: list the generated cases without calling parry
    match func {
        "aabb_split" => { let x = aabb(a); let axis = a.u(); let bias = a.f(); let eps = a.f();
            match x.canonical_split(axis, bias, eps) {
                SplitResult::Negative => "neg".into(), SplitResult::Positive => "pos".into(),
                SplitResult::Pair(l, r) => format!("pair {} {}", faabb(&l), faabb(&r)) } }
        "seg_split" => { let p = d3::p(a); let q = d3::p(a); let n = d3::v(a); let bias = a.f(); let eps = a.f();
            let (res, inter) = Segment::new(p, q).local_split_and_get_intersection(&Unit::new_unchecked(n), bias, eps);
            let r = match res { SplitResult::Negative => "neg".to_string(), SplitResult::Positive => "pos".to_string(),
                SplitResult::Pair(l, r) => format!("pair {} {} {} {}", d3::fp(&l.a), d3::fp(&l.b), d3::fp(&r.a), d3::fp(&r.b)) };
            let i = match inter { None => "none".to_string(), Some((pt, t)) => format!("some {} {}", d3::fp(&pt), ff(t)) };
            format!("{} {}", r, i) }
        "aabb_diff" => { let x = aabb(a); let y = aabb(a);
            let (pieces, cuts) = x.difference_with_cut_sequence(&y);
            let mut s = format!("{}", pieces.len());
            for p in pieces.iter() { s.push(' '); s.push_str(&faabb(p)); }
            s.push_str(&format!(" {}", cuts.len()));
            for (ax, bias) in cuts.iter() { s.push_str(&format!(" {} {}", ax, ff(*bias))); }
            s }
        "clip_line" => { let x = aabb(a); let o = d3::p(a); let d = d3::v(a);
            match clip_aabb_line(&x, &o, &d) { None => "none".into(),
                Some((n, f)) => format!("some {} {} {} {} {} {}", ff(n.0), d3::fv(&n.1), n.2, ff(f.0), d3::fv(&f.1), f.2) } }
        "clip_line_params" => { let x = aabb(a); let o = d3::p(a); let d = d3::v(a);
            match x.clip_line_parameters(&o, &d) { None => "none".into(), Some((t0, t1)) => format!("some {} {}", ff(t0), ff(t1)) } }
        "clip_ray_params" => { let x = aabb(a); let o = d3::p(a); let d = d3::v(a);
            match x.clip_ray_parameters(&Ray::new(o, d)) { None => "none".into(), Some((t0, t1)) => format!("some {} {}", ff(t0), ff(t1)) } }
        "clip_seg" => { let x = aabb(a); let pa = d3::p(a); let pb = d3::p(a);
            match x.clip_segment(&pa, &pb) { None => "none".into(), Some(s) => format!("some {} {}", d3::fp(&s.a), d3::fp(&s.b)) } }
        "clip_hs_poly" => { let c = d3::p(a); let n = d3::v(a); let poly = pts(a);
            let mut out = vec![P3::origin()]; // non-empty: `result.clear()` is part of the contract
            clip_halfspace_polygon(&c, &n, &poly, &mut out);
            fpts(&out) }
        "clip_poly" => { let x = aabb(a); let mut poly = pts(a);
            x.clip_polygon(&mut poly);
            fpts(&poly) }
        "clip_seg_seg" => { let s1 = (d2::p(a), d2::p(a)); let s2 = (d2::p(a), d2::p(a));
            match crate::p2::query::details::clip_segment_segment(s1, s2) { None => "none".into(),
                Some((ca, cb)) => format!("some {} {} {} {} {} {} {} {}", d2::fp(&ca.0), d2::fp(&ca.1), ca.2, ca.3, d2::fp(&cb.0), d2::fp(&cb.1), cb.2, cb.3) } }
        "tm_split" => { let m = mesh(a); let n = d3::v(a); let bias = a.f(); let eps = a.f();
            match m.local_split(&Unit::new_unchecked(n), bias, eps) {
                SplitResult::Negative => "neg".into(), SplitResult::Positive => "pos".into(),
                SplitResult::Pair(l, r) => format!("pair {} {}", fmesh(&l), fmesh(&r)) } }
        "tm_split_pos" => { let m = mesh(a); let pos = d3::iso(a); let n = d3::v(a); let bias = a.f(); let eps = a.f();
            match m.split(&pos, &Unit::new_unchecked(n), bias, eps) {
                SplitResult::Negative => "neg".into(), SplitResult::Positive => "pos".into(),
                SplitResult::Pair(l, r) => format!("pair {} {}", fmesh(&l), fmesh(&r)) } }
        // The pinned `intersection_with_local_plane` never terminates (and allocates without bound) on sections that are
        // open polylines, so the real call runs in a child process that is killed after a time budget -> `hang`.
        "tm_section" if std::env::var("C17_CHILD").is_err() => {
            use std::io::Write;
            use std::process::{Command, Stdio};
            let line = format!("C17 tm_section {}\n", a.t[a.i..].join(" "));
            let mut child = Command::new(std::env::current_exe().expect("exe")).arg("exec").env("C17_CHILD", "1")
                .stdin(Stdio::piped()).stdout(Stdio::piped()).stderr(Stdio::null()).spawn().expect("spawn");
            child.stdin.take().unwrap().write_all(line.as_bytes()).expect("write");
            let t0 = std::time::Instant::now();
            loop {
                match child.try_wait() {
                    Ok(Some(_)) => break,
                    Ok(None) => {
                        if t0.elapsed().as_millis() > 150 { let _ = child.kill(); let _ = child.wait(); return "hang".into(); }
                        std::thread::sleep(std::time::Duration::from_millis(2));
                    }
                    Err(_) => return "hang".into(),
                }
            }
            let mut out = String::new();
            use std::io::Read;
            let _ = child.stdout.take().unwrap().read_to_string(&mut out);
            match out.trim().split(" | ").nth(1) { Some(o) => o.to_string(), None => "hang".into() }
        }
        "tm_section" => { let m = mesh(a); let n = d3::v(a); let bias = a.f(); let eps = a.f();
            match m.intersection_with_local_plane(&Unit::new_unchecked(n), bias, eps) {
                IntersectResult::Negative => "neg".into(), IntersectResult::Positive => "pos".into(),
                IntersectResult::Intersect(pl) => { let mut s = format!("poly {}", fpts(pl.vertices()));
                    s.push_str(&format!(" {}", pl.indices().len()));
                    for e in pl.indices() { s.push_str(&format!(" {} {}", e[0], e[1])); }
                    s } } }
        _ => "nofn".into(),
    }
}

fn gen_aabb(r: &mut Rng, lat: bool) -> Aabb {
    let c = d3::gen_p(r, lat, 50.0);
    let he = d3::gen_he(r, lat);
    if r.below(25) == 0 { Aabb::new(c, c) } else { Aabb::new(c - he, c + he) }
}
fn gen_eps(r: &mut Rng, lat: bool) -> f64 {
    if lat { *r.pick(&[0.0, 0.0, 0.25, 0.5, 1.0, 0.125]) } else { *r.pick(&[0.0, 1e-9, 1e-6, 1e-3, 0.1]) }
}
/// unit normals: canonical axes (both signs, with signed zeros), Pythagorean, normalised diagonals, random
fn unit3(r: &mut Rng, lat: bool) -> V3 {
    if lat {
        match r.below(4) {
            0 => { let mut v = V3::zeros(); v[r.below(3) as usize] = if r.bool() { 1.0 } else { -1.0 }; v }
            1 => { let mut v = V3::new(-0.0, 0.0, -0.0); v[r.below(3) as usize] = 1.0; v }
            2 => *r.pick(&[V3::new(0.6, 0.8, 0.0), V3::new(0.0, -0.6, 0.8), V3::new(-0.8, 0.0, 0.6), V3::new(0.28, 0.96, 0.0),
                           V3::new(2.0 / 3.0, 2.0 / 3.0, 1.0 / 3.0), V3::new(3.0 / 13.0, 4.0 / 13.0, 12.0 / 13.0)]),
            _ => *r.pick(&[V3::new(1.0, 1.0, 0.0).normalize(), V3::new(1.0, -1.0, 1.0).normalize(), V3::new(0.0, 1.0, -1.0).normalize()]),
        }
    } else { loop { let v = d3::gen_v(r, false, 1.0); if v.norm() > 0.1 { return v.normalize(); } } }
}
/// convex planar polygon: triangle, parallelogram or affine hexagon on lattice / random vectors
fn gen_poly(r: &mut Rng, lat: bool, s: f64) -> Vec<P3> {
    let p = d3::gen_p(r, lat, s);
    let (u, v) = loop { let u = d3::gen_v(r, lat, s); let v = d3::gen_v(r, lat, s); if u.cross(&v).norm() > 1e-3 { break (u, v); } };
    let mut pts = match r.below(4) {
        0 => vec![p, p + u, p + v],
        1 => vec![p, p + u, p + u + v, p + v],
        2 => vec![p + u, p + u + v, p + v, p - u, p - u - v, p - v],
        _ => vec![p, p + u * 2.0, p + u * 2.0 + v, p + u + v * 2.0, p + v * 2.0],
    };
    if r.bool() { pts.reverse(); }
    let k = r.below(pts.len() as u64) as usize; pts.rotate_left(k);
    pts
}

/// test meshes: (oriented?, vertices, indices, closed?)
fn gen_mesh(r: &mut Rng, lat: bool) -> (bool, Vec<P3>, Vec<[u32; 3]>) {
    let shift = if r.bool() { V3::zeros() } else { d3::gen_v(r, true, 1.0) };
    let kind = r.below(10);
    let (mut v, idx, closed): (Vec<P3>, Vec<[u32; 3]>, bool) = match kind {
        0 | 1 => { let (v, i) = Cuboid::new(d3::gen_he(r, true)).to_trimesh(); (v, i, true) }
        2 => { let (v, i) = Ball::new(r.pos_extent(lat)).to_trimesh(*r.pick(&[4, 6, 8]), *r.pick(&[4, 6])); (v, i, true) }
        3 => { let (v, i) = Cylinder::new(r.pos_extent(lat), r.pos_extent(lat)).to_trimesh(*r.pick(&[4, 6, 8])); (v, i, true) }
        4 => { // open: cuboid without its two first triangles
            let (v, mut i) = Cuboid::new(d3::gen_he(r, true)).to_trimesh(); i.drain(0..2); (v, i, false) }
        5 => { // open: k x k sheet spanned by two lattice vectors
            let k = 2 + r.below(2) as usize;
            let (u, w) = loop { let u = d3::gen_v(r, true, 1.0); let w = d3::gen_v(r, true, 1.0); if u.cross(&w).norm() > 1e-3 { break (u, w); } };
            let mut v = Vec::new(); let mut idx = Vec::new();
            for a in 0..=k { for b in 0..=k { v.push(P3::origin() + u * a as f64 + w * b as f64); } }
            let id = |a: usize, b: usize| (a * (k + 1) + b) as u32;
            for a in 0..k { for b in 0..k { idx.push([id(a, b), id(a + 1, b), id(a + 1, b + 1)]); idx.push([id(a, b), id(a + 1, b + 1), id(a, b + 1)]); } }
            (v, idx, false) }
        6 => { // closed, non-convex: L-shaped prism (tread face y = 1 between x = 1 and x = 2)
            let poly = [(0.0, 0.0), (2.0, 0.0), (2.0, 1.0), (1.0, 1.0), (1.0, 2.0), (0.0, 2.0), (0.0, 1.0)];
            let caps = [[0u32, 1, 2], [0, 2, 3], [0, 3, 6], [6, 3, 4], [6, 4, 5]];
            let n = poly.len() as u32;
            let mut v: Vec<P3> = poly.iter().map(|p| P3::new(p.0, p.1, 0.0)).collect();
            v.extend(poly.iter().map(|p| P3::new(p.0, p.1, 1.0)));
            let mut idx = Vec::new();
            for t in caps.iter() { idx.push([t[0] + n, t[1] + n, t[2] + n]); idx.push([t[0], t[2], t[1]]); }
            for k in 0..n { let p = k; let q = (k + 1) % n; idx.push([p, q, q + n]); idx.push([p, q + n, p + n]); }
            (v, idx, true) }
        7 | 8 => { // closed, non-convex: prism over a star-shaped polygon with deep notches (cap = fan around the kernel point)
            let n = 6 + 2 * r.below(4) as u32;
            let mut v: Vec<P3> = Vec::new();
            for z in [0.0, 1.0] {
                for k in 0..n {
                    let (cx, cy) = [(1.0, 0.0), (0.75, 0.75), (0.0, 1.0), (-0.75, 0.75), (-1.0, 0.0), (-0.75, -0.75), (0.0, -1.0), (0.75, -0.75),
                                    (1.0, 0.5), (0.5, 1.0), (-0.5, 1.0), (-1.0, 0.5), (-1.0, -0.5), (-0.5, -1.0), (0.5, -1.0), (1.0, -0.5)]
                        [if n == 8 { k as usize } else { (k as usize * 16 / n as usize + if n > 8 { 8 } else { 0 }) % 16 }];
                    let _ = (cx, cy);
                    let ang = k as f64 / n as f64;
                    // exact directions on the unit square boundary (lattice), alternating radii
                    let t = ang * 8.0; let side = t.floor() as i64 % 8; let f = t - t.floor();
                    let corner = |i: i64| -> (f64, f64) { [(1.0, 0.0), (1.0, 1.0), (0.0, 1.0), (-1.0, 1.0), (-1.0, 0.0), (-1.0, -1.0), (0.0, -1.0), (1.0, -1.0)][(i % 8) as usize] };
                    let (a, b) = (corner(side), corner(side + 1));
                    let dir = (a.0 + (b.0 - a.0) * f, a.1 + (b.1 - a.1) * f);
                    let rad = if k % 2 == 0 { 4.0 } else { 0.5 };
                    if z == 0.0 { v.push(P3::new(dir.0 * rad, dir.1 * rad, 0.0)); } else { let p = v[k as usize]; v.push(P3::new(p.x, p.y, 1.0)); }
                }
            }
            let c0 = v.len() as u32; v.push(P3::new(0.0, 0.0, 0.0)); v.push(P3::new(0.0, 0.0, 1.0));
            let mut idx = Vec::new();
            for k in 0..n { let p = k; let q = (k + 1) % n;
                idx.push([c0 + 1, p + n, q + n]); idx.push([c0, q, p]);
                idx.push([p, q, q + n]); idx.push([p, q + n, p + n]); }
            (v, idx, true) }
        _ => { // two stacked cuboids sharing the plane y = 0 (each closed; together a non-manifold soup) -> never flagged oriented
            let he = d3::gen_he(r, true);
            let (v1, i1) = Cuboid::new(he).to_trimesh();
            let mut v: Vec<P3> = v1.iter().map(|p| p + V3::new(0.0, he.y, 0.0)).collect();
            let n = v.len() as u32;
            v.extend(v1.iter().map(|p| p - V3::new(0.0, he.y, 0.0)));
            let mut idx = i1.clone();
            idx.extend(i1.iter().map(|t| [t[0] + n, t[1] + n, t[2] + n]));
            (v, idx, false) }
    };
    for p in v.iter_mut() { *p += shift; }
    let oriented = closed && r.below(3) != 0;
    (oriented, v, idx)
}

pub fn gen(r: &mut Rng, thorough: bool) -> Vec<(String, String)> {
    let n = if thorough { 5000 } else { 500 };
    let mut v = Vec::new();
    for it in 0..n {
        let lat = it % 2 == 0;
        // ---- Aabb::canonical_split: planes through faces, inside, outside, within epsilon
        let x = gen_aabb(r, lat);
        let axis = r.below(3) as usize;
        let eps = gen_eps(r, lat);
        let bias = match r.below(6) {
            0 => x.mins[axis], 1 => x.maxs[axis], 2 => x.mins[axis] + eps, 3 => x.maxs[axis] - eps,
            4 => x.mins[axis] + (x.maxs[axis] - x.mins[axis]) * *r.pick(&[0.25, 0.5, 0.75, -0.25, 1.25]),
            _ => r.coord(lat, 60.0) };
        v.push(("aabb_split".into(), format!("{} {} {} {}", haabb(&x), axis, hx(bias), hx(eps))));

        // ---- Segment split: plane through an end point, through the middle, within epsilon of an end, parallel, beyond
        for _ in 0..2 {
            let a = d3::gen_p(r, lat, 10.0);
            let nrm = unit3(r, lat);
            let b = match r.below(8) {
                0 => a, // degenerate segment
                1 => { // parallel to the plane
                    let t = nrm.cross(&d3::gen_v(r, lat, 4.0)); a + t }
                2 => a + nrm * *r.pick(&[0.5, 1.0, -2.0, 4.0]),
                _ => d3::gen_p(r, lat, 10.0) };
            let eps = gen_eps(r, lat);
            let sa = nrm.dot(&a.coords); let sb = nrm.dot(&b.coords);
            let bias = match r.below(10) {
                0 => sa, 1 => sb, 2 => (sa + sb) * 0.5, 3 => sa + eps, 4 => sb - eps, 5 => sa - eps * 0.5, 6 => sb + eps * 0.5,
                7 => sa + (sb - sa) * *r.pick(&[0.25, 0.75, -0.5, 1.5, 0.125]),
                8 => sa.min(sb) - 1.0,
                _ => r.coord(lat, 12.0) };
            v.push(("seg_split".into(), format!("{} {} {} {} {}", d3::hp(&a), d3::hp(&b), d3::hv(&nrm), hx(bias), hx(eps))));
        }

        // ---- Aabb difference: nested, containing, shifted, touching, disjoint, equal
        let x = gen_aabb(r, lat);
        let e = x.maxs - x.mins;
        let y = match r.below(8) {
            0 => x,
            1 => { let s = d3::gen_v(r, true, 1.0); Aabb::new(x.mins + s, x.maxs + s) }
            2 => { let mut s = V3::zeros(); let k = r.below(3) as usize; s[k] = if r.bool() { e[k] } else { -e[k] }; Aabb::new(x.mins + s, x.maxs + s) } // touching
            3 => Aabb::new(x.mins + e * 0.25, x.maxs - e * 0.25), // nested
            4 => Aabb::new(x.mins - e * 0.5, x.maxs + e * 0.5),   // containing
            5 => { // partial overlap per axis from a menu
                let mut mins = x.mins; let mut maxs = x.maxs;
                for k in 0..3 { let (lo, hi) = *r.pick(&[(-0.5, 0.5), (0.5, 1.5), (0.25, 0.75), (-0.5, 1.5), (0.0, 1.0), (0.0, 0.5), (0.5, 1.0), (1.0, 2.0), (-1.0, 0.0)]);
                    mins[k] = x.mins[k] + e[k] * lo; maxs[k] = x.mins[k] + e[k] * hi; }
                Aabb::new(mins, maxs) }
            _ => gen_aabb(r, lat) };
        v.push(("aabb_diff".into(), format!("{} {}", haabb(&x), haabb(&y))));

        // ---- clip_aabb_line & co: origin inside/outside/on a face, axis-aligned / diagonal / generic / zero directions
        for _ in 0..2 {
            let x = gen_aabb(r, lat);
            let e = x.maxs - x.mins;
            let c = x.mins + e * 0.5;
            let o = match r.below(6) {
                0 => c,
                1 => x.mins + e.component_mul(&V3::new(*r.pick(&[0.0, 0.5, 1.0]), *r.pick(&[0.0, 0.5, 1.0]), *r.pick(&[0.0, 0.25, 1.0]))),
                2 => x.mins + e.component_mul(&V3::new(*r.pick(&[-1.0, 0.5, 2.0]), *r.pick(&[-0.5, 0.5, 1.5]), *r.pick(&[-1.0, 0.0, 0.5, 2.0]))),
                3 => { let k = *r.pick(&[1.0, 2.0, -1.0, -3.0, 0.5]); x.mins - V3::new(k, k, k) } // on the main diagonal through `mins`
                _ => d3::gen_p(r, lat, 60.0) };
            let d = match r.below(8) {
                0 => V3::zeros(),
                1 => { let mut d = V3::new(0.0, -0.0, 0.0); d[r.below(3) as usize] = *r.pick(&[1.0, -1.0, 2.0, -0.5, 1e-3, 1e3]); d }
                2 => V3::new(1.0, 1.0, 1.0) * *r.pick(&[1.0, -1.0, 0.5, 3.0]),
                3 => { let mut d = V3::new(*r.pick(&[1.0, -1.0, 2.0]), *r.pick(&[1.0, -1.0, 0.5]), *r.pick(&[1.0, -2.0])); d[r.below(3) as usize] = 0.0; d }
                4 => (c - o) * *r.pick(&[1.0, -1.0, 0.5, 2.0, 0.125]), // through the centre (or away from it)
                5 => (x.maxs - o) * *r.pick(&[1.0, -1.0, 0.5, 2.0]),   // through a vertex
                _ => { let s = if lat { 1.0 } else { r.logu(1e-3, 1e3) }; d3::gen_v(r, lat, 2.0) * s } };
            let args = format!("{} {} {}", haabb(&x), d3::hp(&o), d3::hv(&d));
            for f in ["clip_line", "clip_line_params", "clip_ray_params"] { v.push((f.to_string(), args.clone())); }
            // segment: [o, o + d] and variants that stop short of / start beyond the box
            let pb = o + d;
            v.push(("clip_seg".into(), format!("{} {} {}", haabb(&x), d3::hp(&o), d3::hp(&pb))));
            let pa2 = d3::gen_p(r, lat, 8.0); let pb2 = d3::gen_p(r, lat, 8.0);
            let x2 = if lat { Aabb::new(P3::new(-2.0, -1.0, -1.5), P3::new(1.0, 2.0, 1.5)) } else { Aabb::new(P3::new(-3.0, -2.0, -4.0), P3::new(2.5, 3.0, 1.0)) };
            v.push(("clip_seg".into(), format!("{} {} {}", haabb(&x2), d3::hp(&pa2), d3::hp(&pb2))));
        }

        // ---- half-space / box clipping of convex planar polygons
        for _ in 0..2 {
            let poly = gen_poly(r, lat, 4.0);
            let nrm = if r.below(3) == 0 { d3::gen_v(r, lat, 3.0) } else { unit3(r, lat) };
            let nrm = if nrm.norm() == 0.0 { V3::new(0.0, 1.0, 0.0) } else { nrm };
            let k = r.below(poly.len() as u64) as usize;
            let c = match r.below(5) {
                0 => poly[k],                                             // plane through a vertex
                1 => P3::from((poly[k].coords + poly[(k + 1) % poly.len()].coords) * 0.5), // through an edge mid-point
                2 => P3::from(poly.iter().fold(V3::zeros(), |s, p| s + p.coords) / poly.len() as f64), // through the centroid
                3 => poly[k] + nrm * *r.pick(&[10.0, -10.0]),             // all kept / none kept
                _ => d3::gen_p(r, lat, 4.0) };
            // plane containing an edge: normal orthogonal to it
            let nrm = if r.below(6) == 0 { let e = poly[(k + 1) % poly.len()] - poly[k]; let t = e.cross(&d3::gen_v(r, lat, 2.0)); if t.norm() > 0.0 { t } else { nrm } } else { nrm };
            v.push(("clip_hs_poly".into(), format!("{} {} {}", d3::hp(&c), d3::hv(&nrm), hpts(&poly))));
            if it % 16 == 0 { v.push(("clip_hs_poly".into(), format!("{} {} 0", d3::hp(&c), d3::hv(&nrm)))); }
            let x = match r.below(4) {
                0 => { let he = d3::gen_he(r, lat); Aabb::new(poly[k] - he, poly[k] + he) }      // box centred on a vertex
                1 => Aabb::new(P3::new(-100.0, -100.0, -100.0), P3::new(100.0, 100.0, 100.0)),  // contains everything
                2 => { let he = d3::gen_he(r, lat); let c = P3::from(poly.iter().fold(V3::zeros(), |s, p| s + p.coords) / poly.len() as f64); Aabb::new(c - he, c + he) }
                _ => gen_aabb(r, lat) };
            v.push(("clip_poly".into(), format!("{} {}", haabb(&x), hpts(&poly))));
        }

        // ---- clip_segment_segment (2-D)
        for _ in 0..2 {
            let a1 = d2::gen_p(r, lat, 8.0);
            let t = loop { let t = d2::gen_v(r, lat, 4.0); if t.norm() > 0.0 { break t; } };
            let b1 = a1 + t;
            let nrm = d2::Vector::new(-t.y, t.x);
            let off = nrm * if lat { *r.pick(&[0.0, 0.25, -0.5, 1.0]) } else { r.uniform(-1.0, 1.0) };
            let (s0, s1) = match r.below(7) {
                0 => (0.0, 1.0), 1 => (0.25, 0.75), 2 => (-0.5, 0.5), 3 => (0.5, 1.5), 4 => (1.0, 2.0), 5 => (1.25, 2.0),
                _ => (r.coord(lat, 2.0) * 0.5, r.coord(lat, 2.0) * 0.5) };
            let tilt = if r.below(3) == 0 { nrm * if lat { 0.125 } else { r.uniform(-0.2, 0.2) } } else { d2::Vector::zeros() };
            let (mut a2, mut b2) = (a1 + t * s0 + off, a1 + t * s1 + off + tilt);
            if r.bool() { core::mem::swap(&mut a2, &mut b2); }
            if r.below(8) == 0 { a2 = d2::gen_p(r, lat, 8.0); b2 = d2::gen_p(r, lat, 8.0); }
            v.push(("clip_seg_seg".into(), format!("{} {} {} {}", d2::hp(&a1), d2::hp(&b1), d2::hp(&a2), d2::hp(&b2))));
        }

        // ---- TriMesh split / plane section (oracle-only): planes through vertices, along edges, generic; bias sweep
        if it % 2 == 0 || thorough {
            let mlat = it % 4 == 0;
            let (oriented, mv, mi) = gen_mesh(r, mlat);
            let nlat = mlat || r.bool(); let nrm = unit3(r, nlat);
            let ds: Vec<f64> = mv.iter().map(|p| nrm.dot(&p.coords)).collect();
            let (lo, hi) = ds.iter().fold((f64::MAX, -f64::MAX), |(a, b), d| (a.min(*d), b.max(*d)));
            let k = r.below(mv.len() as u64) as usize;
            let t = mi[r.below(mi.len() as u64) as usize];
            for _ in 0..2 {
                let eps = *r.pick(&[0.0, 0.0, 1e-9, 1e-6, 1e-3, 0.125, 0.25]);
                let bias = match r.below(6) {
                    0 => ds[k],                                             // through a vertex
                    1 => (ds[t[0] as usize] + ds[t[1] as usize]) * 0.5,    // through an edge mid-point
                    2 => ds[k] + eps, 3 => ds[k] - eps * 0.5,
                    4 => lo + (hi - lo) * (r.range(-1, 9) as f64) / 8.0,  // sweep
                    _ => r.uniform(lo - 0.1, hi + 0.1) };
                let args = format!("{} {} {} {}", hmesh(oriented, &mv, &mi), d3::hv(&nrm), hx(bias), hx(eps));
                v.push(("tm_split".into(), args.clone()));
                v.push(("tm_section".into(), args));
            }
            if it % 8 == 0 {
                let pos = d3::gen_iso(r, true, 2.0);
                let bias = r.lattice(8, 2);
                v.push(("tm_split_pos".into(), format!("{} {} {} {} {}", hmesh(oriented, &mv, &mi), d3::hiso(&pos), d3::hv(&nrm), hx(bias), hx(1e-6))));
            }
        }
    }
    v
}
