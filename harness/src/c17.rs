//! C17: cutting and clipping (split_segment, split_aabb, Aabb::difference, clip_aabb_line & co,
//! clip_halfspace_polygon, Aabb::clip_polygon, clip_segment_segment; TriMesh split / plane section, intersect_meshes and
//! TriMesh::intersection_with_{local_cuboid, cuboid, aabb}: oracle-only).
use crate::util::*;
use crate::p3::bounding_volume::Aabb;
use crate::p3::na::Unit;
use crate::p3::query::details::{clip_aabb_line, clip_halfspace_polygon};
use crate::p3::query::{IntersectResult, Ray, SplitResult};
use crate::p3::shape::{Ball, Cone, Cuboid, Cylinder, Segment, TriMesh, TriMeshFlags};
use crate::p3::transformation::intersect_meshes;

type P3 = d3::Point<f64>;
type V3 = d3::Vector<f64>;

fn aabb(a: &mut Args) -> Aabb { Aabb::new(d3::p(a), d3::p(a)) }
fn faabb(b: &Aabb) -> String { format!("{} {}", d3::fp(&b.mins), d3::fp(&b.maxs)) }
fn haabb(b: &Aabb) -> String { format!("{} {}", d3::hp(&b.mins), d3::hp(&b.maxs)) }
fn fpts(v: &[P3]) -> String {
    let mut s = format!("{}", v.len());
    for p in v { s.push(' '); s.push_str(&d3::fp(p)); }
    s
}
fn hpts(v: &[P3]) -> String {
    let mut s = format!("{}", v.len());
    for p in v { s.push(' '); s.push_str(&d3::hp(p)); }
    s
}
fn pts(a: &mut Args) -> Vec<P3> { let n = a.u(); (0..n).map(|_| d3::p(a)).collect() }
fn fmesh(m: &TriMesh) -> String {
    let mut s = fpts(m.vertices());
    s.push_str(&format!(" {}", m.indices().len()));
    for t in m.indices() { s.push_str(&format!(" {} {} {}", t[0], t[1], t[2])); }
    s
}
/// mesh argument: `oriented(0/1) nverts verts… ntris idx…`
fn mesh(a: &mut Args) -> TriMesh {
    let oriented = a.b();
    let v = pts(a);
    let n = a.u();
    let idx: Vec<[u32; 3]> = (0..n).map(|_| [a.u() as u32, a.u() as u32, a.u() as u32]).collect();
    if oriented { TriMesh::with_flags(v, idx, TriMeshFlags::ORIENTED).expect("mesh") } else { TriMesh::new(v, idx).expect("mesh") }
}
/// the mesh argument built WITHOUT the ORIENTED flag (no cap triangulation in `local_split`), whatever the flag says
fn mesh_plain(a: &mut Args) -> TriMesh {
    let _ = a.b();
    let v = pts(a);
    let n = a.u();
    let idx: Vec<[u32; 3]> = (0..n).map(|_| [a.u() as u32, a.u() as u32, a.u() as u32]).collect();
    TriMesh::new(v, idx).expect("mesh")
}
fn hmesh(oriented: bool, v: &[P3], idx: &[[u32; 3]]) -> String {
    let mut s = format!("{} {} {}", b(oriented), hpts(v), idx.len());
    for t in idx { s.push_str(&format!(" {} {} {}", t[0], t[1], t[2])); }
    s
}

fn fsplit(r: SplitResult<TriMesh>) -> String {
    match r { SplitResult::Negative => "neg".into(), SplitResult::Positive => "pos".into(),
        SplitResult::Pair(l, r) => format!("pair {} {}", fmesh(&l), fmesh(&r)) }
}
fn fsection(r: IntersectResult<crate::p3::shape::Polyline>) -> String {
    match r { IntersectResult::Negative => "neg".into(), IntersectResult::Positive => "pos".into(),
        IntersectResult::Intersect(pl) => { let mut s = format!("poly {}", fpts(pl.vertices()));
            s.push_str(&format!(" {}", pl.indices().len()));
            for e in pl.indices() { s.push_str(&format!(" {} {}", e[0], e[1])); }
            s } }
}
fn ksplit(r: SplitResult<TriMesh>) -> &'static str { match r { SplitResult::Negative => "neg", SplitResult::Positive => "pos", SplitResult::Pair(..) => "cut" } }
fn ksection(r: IntersectResult<crate::p3::shape::Polyline>) -> &'static str { match r { IntersectResult::Negative => "neg", IntersectResult::Positive => "pos", IntersectResult::Intersect(..) => "cut" } }
fn same(x: &str, y: &str) -> &'static str { if x == y { "same" } else { "diff" } }
/// functions that call a plane-section routine: run in a killable child process (see `tm_section`)
fn calls_section(func: &str) -> bool { matches!(func, "tm_section" | "tm_section_m" | "tm_section_m_pos" | "tm_section_m_canon" | "tm_section_pos" | "tm_canon_section" | "tm_plane_pos" | "tm_plane_canon" | "tm_verdict" | "tm_verdict_pos" | "tm_verdict_canon") }

/// order-independent signature of a mesh-intersection result (`intersect_meshes` iterates over hash maps with a random
/// state: vertex and triangle order differ from call to call): kind, signed volume, area, bounding box of the vertices
fn isect_sig(r: Result<Option<TriMesh>, crate::p3::transformation::MeshIntersectionError>) -> (u8, [f64; 8]) {
    match r {
        Err(_) => (0, [0.0; 8]), Ok(None) => (1, [0.0; 8]),
        Ok(Some(m)) => { let v = m.vertices(); let (mut vol, mut area) = (0.0, 0.0);
            let (mut lo, mut hi) = (V3::repeat(f64::MAX), V3::repeat(-f64::MAX));
            for p in v { lo = lo.inf(&p.coords); hi = hi.sup(&p.coords); }
            for t in m.indices() { let (a, b, c) = (v[t[0] as usize].coords, v[t[1] as usize].coords, v[t[2] as usize].coords);
                vol += a.dot(&b.cross(&c)) / 6.0; area += (b - a).cross(&(c - a)).norm() * 0.5; }
            (2, [vol, area, lo.x, lo.y, lo.z, hi.x, hi.y, hi.z]) } }
}
fn same_sig(x: (u8, [f64; 8]), y: (u8, [f64; 8])) -> &'static str {
    let sc = 1.0 + x.1.iter().chain(y.1.iter()).fold(0.0f64, |m, v| m.max(v.abs()));
    if x.0 == y.0 && x.1.iter().zip(y.1.iter()).all(|(a, b)| (a - b).abs() <= 1e-9 * sc * sc) { "same" } else { "diff" }
}
pub fn exec(func: &str, a: &mut Args) -> String {
    if std::env::var("C17_DRY").is_ok() { return "dry".into(); } // debugging aid: list the generated cases without calling parry
    match func {
        "aabb_split" => { let x = aabb(a); let axis = a.u(); let bias = a.f(); let eps = a.f();
            match x.canonical_split(axis, bias, eps) {
                SplitResult::Negative => "neg".into(), SplitResult::Positive => "pos".into(),
                SplitResult::Pair(l, r) => format!("pair {} {}", faabb(&l), faabb(&r)) } }
        "seg_split" => { let p = d3::p(a); let q = d3::p(a); let n = d3::v(a); let bias = a.f(); let eps = a.f();
            let (res, inter) = Segment::new(p, q).local_split_and_get_intersection(&Unit::new_unchecked(n), bias, eps);
            let r = match res { SplitResult::Negative => "neg".to_string(), SplitResult::Positive => "pos".to_string(),
                SplitResult::Pair(l, r) => format!("pair {} {} {} {}", d3::fp(&l.a), d3::fp(&l.b), d3::fp(&r.a), d3::fp(&r.b)) };
            let i = match inter { None => "none".to_string(), Some((pt, t)) => format!("some {} {}", d3::fp(&pt), ff(t)) };
            format!("{} {}", r, i) }
        "aabb_diff" => { let x = aabb(a); let y = aabb(a);
            let (pieces, cuts) = x.difference_with_cut_sequence(&y);
            let mut s = format!("{}", pieces.len());
            for p in pieces.iter() { s.push(' '); s.push_str(&faabb(p)); }
            s.push_str(&format!(" {}", cuts.len()));
            for (ax, bias) in cuts.iter() { s.push_str(&format!(" {} {}", ax, ff(*bias))); }
            s }
        "clip_line" => { let x = aabb(a); let o = d3::p(a); let d = d3::v(a);
            match clip_aabb_line(&x, &o, &d) { None => "none".into(),
                Some((n, f)) => format!("some {} {} {} {} {} {}", ff(n.0), d3::fv(&n.1), n.2, ff(f.0), d3::fv(&f.1), f.2) } }
        "clip_line_params" => { let x = aabb(a); let o = d3::p(a); let d = d3::v(a);
            match x.clip_line_parameters(&o, &d) { None => "none".into(), Some((t0, t1)) => format!("some {} {}", ff(t0), ff(t1)) } }
        "clip_ray_params" => { let x = aabb(a); let o = d3::p(a); let d = d3::v(a);
            match x.clip_ray_parameters(&Ray::new(o, d)) { None => "none".into(), Some((t0, t1)) => format!("some {} {}", ff(t0), ff(t1)) } }
        "clip_line_seg" => { let x = aabb(a); let o = d3::p(a); let d = d3::v(a);
            match x.clip_line(&o, &d) { None => "none".into(), Some(s) => format!("some {} {}", d3::fp(&s.a), d3::fp(&s.b)) } }
        "clip_ray_seg" => { let x = aabb(a); let o = d3::p(a); let d = d3::v(a);
            match x.clip_ray(&Ray::new(o, d)) { None => "none".into(), Some(s) => format!("some {} {}", d3::fp(&s.a), d3::fp(&s.b)) } }
        "clip_seg" => { let x = aabb(a); let pa = d3::p(a); let pb = d3::p(a);
            match x.clip_segment(&pa, &pb) { None => "none".into(), Some(s) => format!("some {} {}", d3::fp(&s.a), d3::fp(&s.b)) } }
        "clip_hs_poly" => { let c = d3::p(a); let n = d3::v(a); let poly = pts(a);
            let mut out = vec![P3::origin()]; // non-empty: `result.clear()` is part of the contract
            clip_halfspace_polygon(&c, &n, &poly, &mut out);
            fpts(&out) }
        "clip_poly" => { let x = aabb(a); let mut poly = pts(a);
            x.clip_polygon(&mut poly);
            fpts(&poly) }
        "clip_seg_seg" => { let s1 = (d2::p(a), d2::p(a)); let s2 = (d2::p(a), d2::p(a));
            match crate::p2::query::details::clip_segment_segment(s1, s2) { None => "none".into(),
                Some((ca, cb)) => format!("some {} {} {} {} {} {} {} {}", d2::fp(&ca.0), d2::fp(&ca.1), ca.2, ca.3, d2::fp(&cb.0), d2::fp(&cb.1), cb.2, cb.3) } }
        "clip_seg_seg_n" => { let s1 = (d2::p(a), d2::p(a)); let s2 = (d2::p(a), d2::p(a)); let n = d2::v(a);
            match crate::p2::query::details::clip_segment_segment_with_normal(s1, s2, n) { None => "none".into(),
                Some((ca, cb)) => format!("some {} {} {} {} {} {} {} {}", d2::fp(&ca.0), d2::fp(&ca.1), ca.2, ca.3, d2::fp(&cb.0), d2::fp(&cb.1), cb.2, cb.3) } }
        "tm_split" => { let m = mesh(a); let n = d3::v(a); let bias = a.f(); let eps = a.f();
            match m.local_split(&Unit::new_unchecked(n), bias, eps) {
                SplitResult::Negative => "neg".into(), SplitResult::Positive => "pos".into(),
                SplitResult::Pair(l, r) => format!("pair {} {}", fmesh(&l), fmesh(&r)) } }
        // the cutting part of `local_split`, bit-exact against `Model.Cut.localSplitUncapped`: the mesh is built WITHOUT the
        // ORIENTED flag (no cap triangulation), whatever the flag in the arguments says
        "tm_cut" => { let m = mesh_plain(a);
            let n = d3::v(a); let bias = a.f(); let eps = a.f();
            fsplit(m.local_split(&Unit::new_unchecked(n), bias, eps)) }
        "tm_cut_pos" => { let m = mesh_plain(a); let pos = d3::iso(a); let n = d3::v(a); let bias = a.f(); let eps = a.f();
            fsplit(m.split(&pos, &Unit::new_unchecked(n), bias, eps)) }
        "tm_cut_canon" => { let m = mesh_plain(a); let axis = a.u(); let bias = a.f(); let eps = a.f();
            fsplit(m.canonical_split(axis, bias, eps)) }
        "tm_split_pos" => { let m = mesh(a); let pos = d3::iso(a); let n = d3::v(a); let bias = a.f(); let eps = a.f();
            match m.split(&pos, &Unit::new_unchecked(n), bias, eps) {
                SplitResult::Negative => "neg".into(), SplitResult::Positive => "pos".into(),
                SplitResult::Pair(l, r) => format!("pair {} {}", fmesh(&l), fmesh(&r)) } }
        // The pinned `intersection_with_local_plane` never terminates (and allocates without bound) on sections that are
        // open polylines, so the real call runs in a child process that is killed after a time budget -> `hang`.
        f if calls_section(f) && std::env::var("C17_CHILD").is_err() => {
            use std::io::{Read, Write};
            use std::process::{Command, Stdio};
            use std::sync::atomic::{AtomicUsize, Ordering};
            // A child that does not answer within 150 ms is retried once with a 3 s budget (a loaded machine can take longer than
            // 150 ms just to start the process); after 3 confirmed hangs the retry is dropped so that a tree that really hangs
            // on many inputs does not make the run crawl.
            static CONFIRMED_HANGS: AtomicUsize = AtomicUsize::new(0);
            let line = format!("C17 {} {}\n", func, a.t[a.i..].join(" "));
            let run = |budget_ms: u128| -> Option<String> {
                let mut child = Command::new(std::env::current_exe().expect("exe")).arg("exec").env("C17_CHILD", "1")
                    .stdin(Stdio::piped()).stdout(Stdio::piped()).stderr(Stdio::null()).spawn().expect("spawn");
                child.stdin.take().unwrap().write_all(line.as_bytes()).expect("write");
                let t0 = std::time::Instant::now();
                loop {
                    match child.try_wait() {
                        Ok(Some(_)) => break,
                        Ok(None) => {
                            if t0.elapsed().as_millis() > budget_ms { let _ = child.kill(); let _ = child.wait(); return None; }
                            std::thread::sleep(std::time::Duration::from_millis(2));
                        }
                        Err(_) => return None,
                    }
                }
                let mut out = String::new();
                let _ = child.stdout.take().unwrap().read_to_string(&mut out);
                Some(match out.trim().split(" | ").nth(1) { Some(o) => o.to_string(), None => "hang".into() })
            };
            match run(150) {
                Some(o) => o,
                None if CONFIRMED_HANGS.load(Ordering::Relaxed) < 3 => match run(3000) {
                    Some(o) => o,
                    None => { CONFIRMED_HANGS.fetch_add(1, Ordering::Relaxed); "hang".into() } },
                None => "hang".into(),
            }
        }
        "tm_section_m" => { let m = mesh(a); let n = d3::v(a); let bias = a.f(); let eps = a.f();
            fsection(m.intersection_with_local_plane(&Unit::new_unchecked(n), bias, eps)) }
        "tm_section" => { let m = mesh(a); let n = d3::v(a); let bias = a.f(); let eps = a.f();
            match m.intersection_with_local_plane(&Unit::new_unchecked(n), bias, eps) {
                IntersectResult::Negative => "neg".into(), IntersectResult::Positive => "pos".into(),
                IntersectResult::Intersect(pl) => { let mut s = format!("poly {}", fpts(pl.vertices()));
                    s.push_str(&format!(" {}", pl.indices().len()));
                    for e in pl.indices() { s.push_str(&format!(" {} {}", e[0], e[1])); }
                    s } } }
        // ---- world-space and canonical-axis wrappers (results are expressed in the mesh's local frame, like the local functions')
        "tm_section_pos" => { let m = mesh(a); let pos = d3::iso(a); let n = d3::v(a); let bias = a.f(); let eps = a.f();
            fsection(m.intersection_with_plane(&pos, &Unit::new_unchecked(n), bias, eps)) }
        "tm_section_m_pos" => { let m = mesh(a); let pos = d3::iso(a); let n = d3::v(a); let bias = a.f(); let eps = a.f();
            fsection(m.intersection_with_plane(&pos, &Unit::new_unchecked(n), bias, eps)) }
        "tm_section_m_canon" => { let m = mesh(a); let axis = a.u(); let bias = a.f(); let eps = a.f();
            fsection(m.canonical_intersection_with_plane(axis, bias, eps)) }
        "tm_canon_split" => { let m = mesh(a); let axis = a.u(); let bias = a.f(); let eps = a.f();
            fsplit(m.canonical_split(axis, bias, eps)) }
        "tm_canon_section" => { let m = mesh(a); let axis = a.u(); let bias = a.f(); let eps = a.f();
            fsection(m.canonical_intersection_with_plane(axis, bias, eps)) }
        // plane transfer of the wrappers, observed differentially: the arguments carry a local plane `(la, lb)`; the wrapper's result
        // must be identical to the local function's on that plane (the Lean model checks that `(la, lb)` is bit-for-bit its own
        // `planeToLocal(position, axis, bias)`, the oracle that it is the same plane in exact arithmetic)
        "tm_plane_pos" => { let m = mesh(a); let pos = d3::iso(a); let n = Unit::new_unchecked(d3::v(a)); let bias = a.f(); let eps = a.f();
            let la = Unit::new_unchecked(d3::v(a)); let lb = a.f();
            format!("split:{} section:{}", same(&fsplit(m.split(&pos, &n, bias, eps)), &fsplit(m.local_split(&la, lb, eps))),
                same(&fsection(m.intersection_with_plane(&pos, &n, bias, eps)), &fsection(m.intersection_with_local_plane(&la, lb, eps)))) }
        "tm_plane_canon" => { let m = mesh(a); let axis = a.u(); let bias = a.f(); let eps = a.f(); let la = Unit::new_unchecked(d3::v(a));
            format!("split:{} section:{}", same(&fsplit(m.canonical_split(axis, bias, eps)), &fsplit(m.local_split(&la, bias, eps))),
                same(&fsection(m.canonical_intersection_with_plane(axis, bias, eps)), &fsection(m.intersection_with_local_plane(&la, bias, eps)))) }
        // the Negative / Positive / cut decision of (split, section), bit-exact against the model's `meshVerdict*`
        "tm_verdict" => { let m = mesh(a); let n = Unit::new_unchecked(d3::v(a)); let bias = a.f(); let eps = a.f();
            format!("{} {}", ksplit(m.local_split(&n, bias, eps)), ksection(m.intersection_with_local_plane(&n, bias, eps))) }
        "tm_verdict_pos" => { let m = mesh(a); let pos = d3::iso(a); let n = Unit::new_unchecked(d3::v(a)); let bias = a.f(); let eps = a.f();
            format!("{} {}", ksplit(m.split(&pos, &n, bias, eps)), ksection(m.intersection_with_plane(&pos, &n, bias, eps))) }
        "tm_verdict_canon" => { let m = mesh(a); let axis = a.u(); let bias = a.f(); let eps = a.f();
            format!("{} {}", ksplit(m.canonical_split(axis, bias, eps)), ksection(m.canonical_intersection_with_plane(axis, bias, eps))) }
        "seg_canon_split" => { let p = d3::p(a); let q = d3::p(a); let axis = a.u(); let bias = a.f(); let eps = a.f();
            match Segment::new(p, q).canonical_split(axis, bias, eps) { SplitResult::Negative => "neg".to_string(), SplitResult::Positive => "pos".to_string(),
                SplitResult::Pair(l, r) => format!("pair {} {} {} {}", d3::fp(&l.a), d3::fp(&l.b), d3::fp(&r.a), d3::fp(&r.b)) } }
        // intersect_meshes(pos1, mesh1, false, pos2, mesh2, false); result vertices are in world space
        "mesh_isect" => { let (m1, _) = solid(a); let p1 = d3::iso(a); let (m2, _) = solid(a); let p2 = d3::iso(a);
            match intersect_meshes(&p1, &m1, false, &p2, &m2, false) {
                Err(e) => format!("err {}", format!("{:?}", e).split(|c: char| !c.is_alphanumeric()).next().unwrap_or("?")),
                Ok(None) => "none".into(), Ok(Some(m)) => format!("some {}", fmesh(&m)) } }
        // TriMesh::intersection_with_{local_cuboid (0), cuboid (1), aabb (2)}; result vertices are in the mesh's local space
        "isect_cuboid" => { let variant = a.u(); let (m, _) = solid(a); let pm = d3::iso(a); let he = d3::v(a); let pc = d3::iso(a);
            let cuboid = Cuboid::new(he);
            let r = match variant {
                0 => m.intersection_with_local_cuboid(false, &cuboid, &pm.inv_mul(&pc), false, 0.0),
                1 => m.intersection_with_cuboid(&pm, false, &cuboid, &pc, false, 0.0),
                _ => m.intersection_with_aabb(&pm, false, &Aabb::from_half_extents(P3::from(pc.translation.vector), he), false, 0.0) };
            match r {
                Err(e) => format!("err {}", format!("{:?}", e).split(|c: char| !c.is_alphanumeric()).next().unwrap_or("?")),
                Ok(None) => "none".into(), Ok(Some(m)) => format!("some {}", fmesh(&m)) } }
        // Aabb::split_at_center (3-D octree / 2-D quad-tree split): `n boxes…`
        "aabb_split_center" => { let x = aabb(a); let o = x.split_at_center();
            let mut s = format!("{}", o.len()); for b in o.iter() { s.push(' '); s.push_str(&faabb(b)); } s }
        "aabb2_split_center" => { let x = crate::p2::bounding_volume::Aabb::new(d2::p(a), d2::p(a)); let o = x.split_at_center();
            let mut s = format!("{}", o.len()); for b in o.iter() { s.push_str(&format!(" {} {}", d2::fp(&b.mins), d2::fp(&b.maxs))); } s }
        // frame glue, observed differentially: `intersection_with_cuboid(pm, cuboid, pc)` must have the same signature (kind, volume, area,
        // bounding box; the routine's vertex order is not deterministic) as `intersection_with_local_cuboid(cuboid, lp)` on the local pose `lp` that the Lean model confirms bit-for-bit to be
        // `pm.inv_mul(pc)`; `intersection_with_aabb(pm, aabb)` identical to `intersection_with_cuboid(pm, Cuboid(he), from(c))`
        "cuboid_frame" => { let (m, _) = solid(a); let pm = d3::iso(a); let he = d3::v(a); let pc = d3::iso(a); let lp = d3::iso(a);
            let cuboid = Cuboid::new(he);
            same_sig(isect_sig(m.intersection_with_cuboid(&pm, false, &cuboid, &pc, false, 0.0)),
                     isect_sig(m.intersection_with_local_cuboid(false, &cuboid, &lp, false, 0.0))).into() }
        "aabb_frame" => { let (m, _) = solid(a); let pm = d3::iso(a); let bx = aabb(a); let he = d3::v(a); let c = d3::p(a);
            same_sig(isect_sig(m.intersection_with_aabb(&pm, false, &bx, false, 0.0)),
                     isect_sig(m.intersection_with_cuboid(&pm, false, &Cuboid::new(he), &d3::Isometry::from(c), false, 0.0))).into() }
        _ => "nofn".into(),
    }
}

/// closed oriented solid argument: `cc(0/1) nverts verts… ntris idx… nparts (mins maxs)…`; `parts` = boxes whose union is the
/// solid when it is not convex (read by the oracle only). Flags: HALF_EDGE_TOPOLOGY | ORIENTED (| CONNECTED_COMPONENTS).
fn solid(a: &mut Args) -> (TriMesh, usize) {
    let cc = a.b();
    let v = pts(a);
    let n = a.u();
    let idx: Vec<[u32; 3]> = (0..n).map(|_| [a.u() as u32, a.u() as u32, a.u() as u32]).collect();
    let np = a.u();
    for _ in 0..np { let _ = aabb(a); }
    let mut flags = TriMeshFlags::HALF_EDGE_TOPOLOGY | TriMeshFlags::ORIENTED;
    if cc { flags |= TriMeshFlags::CONNECTED_COMPONENTS; }
    (TriMesh::with_flags(v, idx, flags).expect("mesh"), np)
}
struct Solid { v: Vec<P3>, idx: Vec<[u32; 3]>, parts: Vec<Aabb>, centre: P3, inradius: f64, radius: f64 }
fn hsolid(cc: bool, s: &Solid) -> String {
    let mut o = format!("{} {} {}", b(cc), hpts(&s.v), s.idx.len());
    for t in &s.idx { o.push_str(&format!(" {} {} {}", t[0], t[1], t[2])); }
    o.push_str(&format!(" {}", s.parts.len()));
    for p in &s.parts { o.push(' '); o.push_str(&haabb(p)); }
    o
}
/// a closed oriented solid of "size" about `size`, not centred at its local origin when `offc`:
/// `centre` = a point well inside, `inradius` = radius of a ball around `centre` inside the solid (conservative),
/// `radius` = radius of a ball around `centre` containing it
fn gen_solid(r: &mut Rng, lat: bool, size: f64, offc: bool, allow_l: bool, force: Option<u64>) -> Solid {
    let kind = r.below(if allow_l { 7 } else { 6 });
    let kind = force.unwrap_or(kind);
    let (mut v, idx, mut parts, mut centre, inr): (Vec<P3>, Vec<[u32; 3]>, Vec<Aabb>, P3, f64) = match kind {
        0 | 1 => { let he = V3::new(size * *r.pick(&[0.5, 1.0, 1.5]), size * *r.pick(&[0.75, 1.0]), size * *r.pick(&[0.5, 1.0, 1.25]));
            let (v, i) = Cuboid::new(he).to_trimesh(); (v, i, vec![], P3::origin(), he.min()) }
        2 => { let rad = size * *r.pick(&[1.0, 1.5]); let (v, i) = Ball::new(rad).to_trimesh(*r.pick(&[5, 6, 8]), *r.pick(&[5, 6]));
            (v, i, vec![], P3::origin(), rad * 0.55) }
        3 => { let (hh, rad) = (size * *r.pick(&[0.75, 1.0, 1.5]), size * *r.pick(&[0.75, 1.0])); let (v, i) = Cylinder::new(hh, rad).to_trimesh(*r.pick(&[5, 6, 8]));
            (v, i, vec![], P3::origin(), hh.min(rad * 0.55)) }
        4 => { let (hh, rad) = (size * *r.pick(&[1.0, 1.5]), size * *r.pick(&[1.0, 1.25])); let (v, i) = Cone::new(hh, rad).to_trimesh(*r.pick(&[5, 6, 8]));
            (v, i, vec![], P3::new(0.0, -hh * 0.5, 0.0), hh.min(rad) * 0.2) }
        5 => { // octahedron (bipyramid): eight large slanted faces
            let (a, b2, c) = (size * *r.pick(&[1.0, 1.5]), size * *r.pick(&[1.0, 1.25, 2.0]), size * *r.pick(&[0.75, 1.0]));
            let v = vec![P3::new(a, 0.0, 0.0), P3::new(-a, 0.0, 0.0), P3::new(0.0, b2, 0.0), P3::new(0.0, -b2, 0.0), P3::new(0.0, 0.0, c), P3::new(0.0, 0.0, -c)];
            let idx = vec![[0u32, 2, 4], [2, 1, 4], [1, 3, 4], [3, 0, 4], [2, 0, 5], [1, 2, 5], [3, 1, 5], [0, 3, 5]];
            (v, idx, vec![], P3::origin(), 1.0 / (1.0 / (a * a) + 1.0 / (b2 * b2) + 1.0 / (c * c)).sqrt()) }
        _ => { // L-shaped prism, union of two boxes; `centre` inside the long leg
            let poly = [(0.0, 0.0), (2.0, 0.0), (2.0, 1.0), (1.0, 1.0), (1.0, 2.0), (0.0, 2.0), (0.0, 1.0)];
            let caps = [[0u32, 1, 2], [0, 2, 3], [0, 3, 6], [6, 3, 4], [6, 4, 5]];
            let n = poly.len() as u32; let s = size;
            let mut v: Vec<P3> = poly.iter().map(|p| P3::new(p.0 * s, p.1 * s, 0.0)).collect();
            v.extend(poly.iter().map(|p| P3::new(p.0 * s, p.1 * s, s)));
            let mut idx = Vec::new();
            for t in caps.iter() { idx.push([t[0] + n, t[1] + n, t[2] + n]); idx.push([t[0], t[2], t[1]]); }
            for k in 0..n { let p = k; let q = (k + 1) % n; idx.push([p, q, q + n]); idx.push([p, q + n, p + n]); }
            let parts = vec![Aabb::new(P3::new(0.0, 0.0, 0.0), P3::new(2.0 * s, s, s)), Aabb::new(P3::new(0.0, 0.0, 0.0), P3::new(s, 2.0 * s, s))];
            (v, idx, parts, P3::new(1.25 * s, 0.5 * s, 0.5 * s), 0.5 * s) }
    };
    if offc {
        let shift = if lat { d3::gen_v(r, true, 1.0) * size } else { d3::gen_v(r, false, 2.0 * size) };
        for p in v.iter_mut() { *p += shift; }
        for p in parts.iter_mut() { p.mins += shift; p.maxs += shift; }
        centre += shift;
    }
    let radius = v.iter().map(|p| (p - centre).norm()).fold(0.0, f64::max);
    Solid { v, idx, parts, centre, inradius: inr, radius }
}
/// exact 90-degree-family rotations that keep a box axis-aligned and are exact in binary64
fn gen_axis_perm_quat(r: &mut Rng) -> [f64; 4] {
    match r.below(3) {
        0 => [0.0, 0.0, 0.0, 1.0],
        1 => { let mut q = [0.0; 4]; q[r.below(3) as usize] = 1.0; q }
        _ => { let mut q = [0.5; 4]; for x in q.iter_mut().take(3) { if r.bool() { *x = -*x; } } q }
    }
}
fn iso_of(q: [f64; 4], t: V3) -> d3::Isometry<f64> {
    d3::Isometry::from_parts(d3::na::Translation3::from(t), Unit::new_unchecked(d3::na::Quaternion::new(q[3], q[0], q[1], q[2])))
}

/// intersect_meshes / intersection_with_cuboid families (general position unless stated)
fn gen_isect(r: &mut Rng, v: &mut Vec<(String, String)>, n: usize) {
    for it in 0..n {
        let lat = it % 2 == 0;
        let fam = it % 4;
        let (cc1, cc2) = (r.below(3) == 0, r.below(3) == 0);
        match fam {
            // (a) NESTED: inner strictly inside outer, arbitrary relative pose, outer not centred on its origin; both orders
            0 | 1 => {
                // every fourth nested case: the inner solid is a scaled copy of the outer one with the same orientation, so
                // that every face of one operand is parallel to (and not coplanar with) a face of the other
                let similar = it % 16 == 4 || it % 16 == 9;
                let force = if similar { Some(4 + r.below(2)) } else { None };
                let outer = gen_solid(r, lat, 4.0, true, true, force);
                let oc = r.bool(); let inner = gen_solid(r, lat, 1.0, oc, true, None);
                let inner = if similar { let c = outer.centre.coords;
                    Solid { v: outer.v.iter().map(|p| P3::from(p.coords - c)).collect(), idx: outer.idx.clone(),
                            parts: outer.parts.iter().map(|b| Aabb::new(b.mins - c, b.maxs - c)).collect(), centre: P3::origin(), inradius: outer.inradius, radius: outer.radius } } else { inner };
                let k = (outer.inradius * 0.45 / inner.radius).min(1.0); // scale the inner solid so that it fits
                let inner = Solid { v: inner.v.iter().map(|p| P3::from(p.coords * k)).collect(), parts: inner.parts.iter().map(|b| Aabb::new(P3::from(b.mins.coords * k), P3::from(b.maxs.coords * k))).collect(),
                    centre: P3::from(inner.centre.coords * k), radius: inner.radius * k, inradius: inner.inradius * k, idx: inner.idx };
                let pos_o = d3::gen_iso(r, lat, 5.0);
                // world position of the inner centre: outer centre + offset within 0.45 * inradius
                let off = loop { let o = d3::gen_v(r, false, 1.0); if o.norm() <= 1.0 { break o * (outer.inradius * 0.45); } };
                let target = pos_o * (outer.centre + off);
                let q = d3::gen_quat(r, lat);
                let q = if similar { let c = pos_o.rotation.as_ref().coords; [c[0], c[1], c[2], c[3]] } else { q };
                let rot = iso_of(q, V3::zeros());
                let pos_i = iso_of(q, target.coords - (rot * inner.centre).coords);
                if fam == 0 || outer.parts.len() + inner.parts.len() > 0 {
                    let (a, b2) = (format!("{} {}", hsolid(cc1, &inner), d3::hiso(&pos_i)), format!("{} {}", hsolid(cc2, &outer), d3::hiso(&pos_o)));
                    v.push(("mesh_isect".into(), format!("{} {}", a, b2)));
                    v.push(("mesh_isect".into(), format!("{} {}", b2, a)));
                } else {
                    // a cuboid strictly inside the mesh `outer`, through the three cuboid entry points
                    let he = V3::new(inner.radius, inner.radius * 0.5, inner.radius * 0.75) * 0.5;
                    let variant = r.below(3);
                    let pc = if variant == 2 { iso_of([0.0, 0.0, 0.0, 1.0], target.coords) } else { iso_of(q, target.coords) };
                    let he = if variant == 2 { he * 0.5 } else { he };
                    v.push(("isect_cuboid".into(), format!("{} {} {} {} {}", variant, hsolid(cc2, &outer), d3::hiso(&pos_o), d3::hv(&he), d3::hiso(&pc))));
                    if variant == 2 { let bx = Aabb::from_half_extents(P3::from(pc.translation.vector), he);
                        v.push(("aabb_frame".into(), format!("{} {} {} {} {}", hsolid(cc2, &outer), d3::hiso(&pos_o), haabb(&bx), d3::hv(&bx.half_extents()), d3::hp(&bx.center()))));
                    } else { v.push(("cuboid_frame".into(), format!("{} {} {} {} {}", hsolid(cc2, &outer), d3::hiso(&pos_o), d3::hv(&he), d3::hiso(&pc), d3::hiso(&pos_o.inv_mul(&pc))))); }
                }
            }
            // (b) DISJOINT (every fourth case) / (c) generic-position partial overlaps of convex solids
            2 => {
                let oc = r.bool(); let s1 = gen_solid(r, lat, 2.0, oc, false, None);
                let oc = r.bool(); let s2 = gen_solid(r, lat, 2.0, oc, false, None);
                let p1 = d3::gen_iso(r, false, 3.0);
                let dir = loop { let o = d3::gen_v(r, false, 1.0); if o.norm() > 0.2 { break o.normalize(); } };
                let disjoint = it % 16 == 2;
                let dist = if disjoint { (s1.radius + s2.radius) * 1.5 + 1.0 } else { (s1.inradius + s2.inradius) * r.uniform(0.5, 1.1) };
                let c1 = p1 * s1.centre;
                let q = d3::gen_quat(r, false);
                let rot = iso_of(q, V3::zeros());
                let p2 = iso_of(q, c1.coords + dir * dist - (rot * s2.centre).coords);
                if r.below(4) == 0 && s2.parts.is_empty() {
                    // the second operand as a cuboid
                    let he = V3::new(s2.inradius * 1.5, s2.inradius, s2.inradius * 1.25);
                    let variant = r.below(3);
                    let pc = if variant == 2 { iso_of([0.0, 0.0, 0.0, 1.0], c1.coords + dir * dist) } else { iso_of(q, c1.coords + dir * dist) };
                    v.push(("isect_cuboid".into(), format!("{} {} {} {} {}", variant, hsolid(cc1, &s1), d3::hiso(&p1), d3::hv(&he), d3::hiso(&pc))));
                    if variant == 2 { let bx = Aabb::from_half_extents(P3::from(pc.translation.vector), he);
                        v.push(("aabb_frame".into(), format!("{} {} {} {} {}", hsolid(cc1, &s1), d3::hiso(&p1), haabb(&bx), d3::hv(&bx.half_extents()), d3::hp(&bx.center()))));
                    } else { v.push(("cuboid_frame".into(), format!("{} {} {} {} {}", hsolid(cc1, &s1), d3::hiso(&p1), d3::hv(&he), d3::hiso(&pc), d3::hiso(&p1.inv_mul(&pc))))); }
                } else {
                    v.push(("mesh_isect".into(), format!("{} {} {} {}", hsolid(cc1, &s1), d3::hiso(&p1), hsolid(cc2, &s2), d3::hiso(&p2))));
                }
            }
            // (c) BOX-BOX partial overlap under translations and axis-permuting rotations: the intersection is an axis-aligned box
            _ => {
                let he1 = V3::new(*r.pick(&[1.0, 1.5, 2.0]), *r.pick(&[1.0, 1.25]), *r.pick(&[0.75, 1.0, 2.0]));
                let he2 = V3::new(*r.pick(&[1.0, 1.75]), *r.pick(&[0.5, 1.5]), *r.pick(&[1.0, 1.25]));
                let (v1, i1) = Cuboid::new(he1).to_trimesh(); let (v2, i2) = Cuboid::new(he2).to_trimesh();
                let mk = |v: Vec<P3>, idx: Vec<[u32; 3]>| Solid { v, idx, parts: vec![], centre: P3::origin(), inradius: 0.0, radius: 0.0 };
                let p1 = iso_of(gen_axis_perm_quat(r), d3::gen_v(r, true, 2.0));
                // offsets k/32 with odd k: no coincident face planes, and the piercing points stay off the face diagonals
                let t = V3::new(r.range(-8, 8) as f64 / 8.0 + 3.0 / 32.0, r.range(-6, 6) as f64 / 8.0 + 5.0 / 32.0, r.range(-6, 6) as f64 / 8.0 - 7.0 / 32.0);
                let p2 = iso_of(gen_axis_perm_quat(r), p1.translation.vector + t);
                v.push(("mesh_isect".into(), format!("{} {} {} {}", hsolid(cc1, &mk(v1, i1)), d3::hiso(&p1), hsolid(cc2, &mk(v2, i2)), d3::hiso(&p2))));
            }
        }
    }
}

fn gen_aabb(r: &mut Rng, lat: bool) -> Aabb {
    let c = d3::gen_p(r, lat, 50.0);
    let he = d3::gen_he(r, lat);
    if r.below(25) == 0 { Aabb::new(c, c) } else { Aabb::new(c - he, c + he) }
}
fn gen_eps(r: &mut Rng, lat: bool) -> f64 {
    if lat { *r.pick(&[0.0, 0.0, 0.25, 0.5, 1.0, 0.125]) } else { *r.pick(&[0.0, 1e-9, 1e-6, 1e-3, 0.1]) }
}
/// unit normals: canonical axes (both signs, with signed zeros), Pythagorean, normalised diagonals, random
fn unit3(r: &mut Rng, lat: bool) -> V3 {
    if lat {
        match r.below(4) {
            0 => { let mut v = V3::zeros(); v[r.below(3) as usize] = if r.bool() { 1.0 } else { -1.0 }; v }
            1 => { let mut v = V3::new(-0.0, 0.0, -0.0); v[r.below(3) as usize] = 1.0; v }
            2 => *r.pick(&[V3::new(0.6, 0.8, 0.0), V3::new(0.0, -0.6, 0.8), V3::new(-0.8, 0.0, 0.6), V3::new(0.28, 0.96, 0.0),
                           V3::new(2.0 / 3.0, 2.0 / 3.0, 1.0 / 3.0), V3::new(3.0 / 13.0, 4.0 / 13.0, 12.0 / 13.0)]),
            _ => *r.pick(&[V3::new(1.0, 1.0, 0.0).normalize(), V3::new(1.0, -1.0, 1.0).normalize(), V3::new(0.0, 1.0, -1.0).normalize()]),
        }
    } else { loop { let v = d3::gen_v(r, false, 1.0); if v.norm() > 0.1 { return v.normalize(); } } }
}
/// convex planar polygon: triangle, parallelogram or affine hexagon on lattice / random vectors
fn gen_poly(r: &mut Rng, lat: bool, s: f64) -> Vec<P3> {
    let p = d3::gen_p(r, lat, s);
    let (u, v) = loop { let u = d3::gen_v(r, lat, s); let v = d3::gen_v(r, lat, s); if u.cross(&v).norm() > 1e-3 { break (u, v); } };
    let mut pts = match r.below(4) {
        0 => vec![p, p + u, p + v],
        1 => vec![p, p + u, p + u + v, p + v],
        2 => vec![p + u, p + u + v, p + v, p - u, p - u - v, p - v],
        _ => vec![p, p + u * 2.0, p + u * 2.0 + v, p + u + v * 2.0, p + v * 2.0],
    };
    if r.bool() { pts.reverse(); }
    let k = r.below(pts.len() as u64) as usize; pts.rotate_left(k);
    pts
}

/// test meshes: (oriented?, vertices, indices, closed?)
fn gen_mesh(r: &mut Rng, lat: bool) -> (bool, Vec<P3>, Vec<[u32; 3]>) {
    let shift = if r.bool() { V3::zeros() } else { d3::gen_v(r, true, 1.0) };
    let kind = r.below(10);
    let (mut v, idx, closed): (Vec<P3>, Vec<[u32; 3]>, bool) = match kind {
        0 | 1 => { let (v, i) = Cuboid::new(d3::gen_he(r, true)).to_trimesh(); (v, i, true) }
        2 => { let (v, i) = Ball::new(r.pos_extent(lat)).to_trimesh(*r.pick(&[4, 6, 8]), *r.pick(&[4, 6])); (v, i, true) }
        3 => { let (v, i) = Cylinder::new(r.pos_extent(lat), r.pos_extent(lat)).to_trimesh(*r.pick(&[4, 6, 8])); (v, i, true) }
        4 => { // open: cuboid without its two first triangles
            let (v, mut i) = Cuboid::new(d3::gen_he(r, true)).to_trimesh(); i.drain(0..2); (v, i, false) }
        5 => { // open: k x k sheet spanned by two lattice vectors
            let k = 2 + r.below(2) as usize;
            let (u, w) = loop { let u = d3::gen_v(r, true, 1.0); let w = d3::gen_v(r, true, 1.0); if u.cross(&w).norm() > 1e-3 { break (u, w); } };
            let mut v = Vec::new(); let mut idx = Vec::new();
            for a in 0..=k { for b in 0..=k { v.push(P3::origin() + u * a as f64 + w * b as f64); } }
            let id = |a: usize, b: usize| (a * (k + 1) + b) as u32;
            for a in 0..k { for b in 0..k { idx.push([id(a, b), id(a + 1, b), id(a + 1, b + 1)]); idx.push([id(a, b), id(a + 1, b + 1), id(a, b + 1)]); } }
            (v, idx, false) }
        6 => { // closed, non-convex: L-shaped prism (tread face y = 1 between x = 1 and x = 2)
            let poly = [(0.0, 0.0), (2.0, 0.0), (2.0, 1.0), (1.0, 1.0), (1.0, 2.0), (0.0, 2.0), (0.0, 1.0)];
            let caps = [[0u32, 1, 2], [0, 2, 3], [0, 3, 6], [6, 3, 4], [6, 4, 5]];
            let n = poly.len() as u32;
            let mut v: Vec<P3> = poly.iter().map(|p| P3::new(p.0, p.1, 0.0)).collect();
            v.extend(poly.iter().map(|p| P3::new(p.0, p.1, 1.0)));
            let mut idx = Vec::new();
            for t in caps.iter() { idx.push([t[0] + n, t[1] + n, t[2] + n]); idx.push([t[0], t[2], t[1]]); }
            for k in 0..n { let p = k; let q = (k + 1) % n; idx.push([p, q, q + n]); idx.push([p, q + n, p + n]); }
            (v, idx, true) }
        7 | 8 => { // closed, non-convex: prism over a star-shaped polygon with deep notches (cap = fan around the kernel point)
            let n = 6 + 2 * r.below(4) as u32;
            let mut v: Vec<P3> = Vec::new();
            for z in [0.0, 1.0] {
                for k in 0..n {
                    let (cx, cy) = [(1.0, 0.0), (0.75, 0.75), (0.0, 1.0), (-0.75, 0.75), (-1.0, 0.0), (-0.75, -0.75), (0.0, -1.0), (0.75, -0.75),
                                    (1.0, 0.5), (0.5, 1.0), (-0.5, 1.0), (-1.0, 0.5), (-1.0, -0.5), (-0.5, -1.0), (0.5, -1.0), (1.0, -0.5)]
                        [if n == 8 { k as usize } else { (k as usize * 16 / n as usize + if n > 8 { 8 } else { 0 }) % 16 }];
                    let _ = (cx, cy);
                    let ang = k as f64 / n as f64;
                    // exact directions on the unit square boundary (lattice), alternating radii
                    let t = ang * 8.0; let side = t.floor() as i64 % 8; let f = t - t.floor();
                    let corner = |i: i64| -> (f64, f64) { [(1.0, 0.0), (1.0, 1.0), (0.0, 1.0), (-1.0, 1.0), (-1.0, 0.0), (-1.0, -1.0), (0.0, -1.0), (1.0, -1.0)][(i % 8) as usize] };
                    let (a, b) = (corner(side), corner(side + 1));
                    let dir = (a.0 + (b.0 - a.0) * f, a.1 + (b.1 - a.1) * f);
                    let rad = if k % 2 == 0 { 4.0 } else { 0.5 };
                    if z == 0.0 { v.push(P3::new(dir.0 * rad, dir.1 * rad, 0.0)); } else { let p = v[k as usize]; v.push(P3::new(p.x, p.y, 1.0)); }
                }
            }
            let c0 = v.len() as u32; v.push(P3::new(0.0, 0.0, 0.0)); v.push(P3::new(0.0, 0.0, 1.0));
            let mut idx = Vec::new();
            for k in 0..n { let p = k; let q = (k + 1) % n;
                idx.push([c0 + 1, p + n, q + n]); idx.push([c0, q, p]);
                idx.push([p, q, q + n]); idx.push([p, q + n, p + n]); }
            (v, idx, true) }
        _ => { // two stacked cuboids sharing the plane y = 0 (each closed; together a non-manifold soup) -> never flagged oriented
            let he = d3::gen_he(r, true);
            let (v1, i1) = Cuboid::new(he).to_trimesh();
            let mut v: Vec<P3> = v1.iter().map(|p| p + V3::new(0.0, he.y, 0.0)).collect();
            let n = v.len() as u32;
            v.extend(v1.iter().map(|p| p - V3::new(0.0, he.y, 0.0)));
            let mut idx = i1.clone();
            idx.extend(i1.iter().map(|t| [t[0] + n, t[1] + n, t[2] + n]));
            (v, idx, false) }
    };
    for p in v.iter_mut() { *p += shift; }
    let oriented = closed && r.below(3) != 0;
    (oriented, v, idx)
}

pub fn gen(r: &mut Rng, thorough: bool) -> Vec<(String, String)> {
    let n = if thorough { 5000 } else { 500 };
    let mut v = Vec::new();
    for it in 0..n {
        let lat = it % 2 == 0;
        // ---- Aabb::canonical_split: planes through faces, inside, outside, within epsilon
        let x = gen_aabb(r, lat);
        let axis = r.below(3) as usize;
        let eps = gen_eps(r, lat);
        let bias = match r.below(6) {
            0 => x.mins[axis], 1 => x.maxs[axis], 2 => x.mins[axis] + eps, 3 => x.maxs[axis] - eps,
            4 => x.mins[axis] + (x.maxs[axis] - x.mins[axis]) * *r.pick(&[0.25, 0.5, 0.75, -0.25, 1.25]),
            _ => r.coord(lat, 60.0) };
        v.push(("aabb_split".into(), format!("{} {} {} {}", haabb(&x), axis, hx(bias), hx(eps))));
        // ---- Aabb::split_at_center: the same boxes (incl. degenerate point boxes), flat boxes, 2-D boxes
        v.push(("aabb_split_center".into(), haabb(&x)));
        if it % 5 == 0 { let mut y = x; let k = r.below(3) as usize; y.maxs[k] = y.mins[k]; v.push(("aabb_split_center".into(), haabb(&y))); }
        { let c2 = d2::gen_p(r, lat, 50.0); let he2 = d2::gen_he(r, lat);
          let (lo, hi) = if r.below(20) == 0 { (c2, c2) } else { (c2 - he2, c2 + he2) };
          v.push(("aabb2_split_center".into(), format!("{} {}", d2::hp(&lo), d2::hp(&hi)))); }

        // ---- Segment split: plane through an end point, through the middle, within epsilon of an end, parallel, beyond
        for _ in 0..2 {
            let a = d3::gen_p(r, lat, 10.0);
            let nrm = unit3(r, lat);
            let b = match r.below(8) {
                0 => a, // degenerate segment
                1 => { // parallel to the plane
                    let t = nrm.cross(&d3::gen_v(r, lat, 4.0)); a + t }
                2 => a + nrm * *r.pick(&[0.5, 1.0, -2.0, 4.0]),
                _ => d3::gen_p(r, lat, 10.0) };
            let eps = gen_eps(r, lat);
            let sa = nrm.dot(&a.coords); let sb = nrm.dot(&b.coords);
            let bias = match r.below(10) {
                0 => sa, 1 => sb, 2 => (sa + sb) * 0.5, 3 => sa + eps, 4 => sb - eps, 5 => sa - eps * 0.5, 6 => sb + eps * 0.5,
                7 => sa + (sb - sa) * *r.pick(&[0.25, 0.75, -0.5, 1.5, 0.125]),
                8 => sa.min(sb) - 1.0,
                _ => r.coord(lat, 12.0) };
            v.push(("seg_split".into(), format!("{} {} {} {} {}", d3::hp(&a), d3::hp(&b), d3::hv(&nrm), hx(bias), hx(eps))));
        }

        // ---- Segment split, epsilon family: a segment of length L != 1 cut at arc-length distance d from one of its end points,
        // d around epsilon, epsilon * L and epsilon / L (the tolerance is a length, on both ends, whatever the segment's length);
        // normal along the segment or oblique
        {
            let a = d3::gen_p(r, lat, 10.0);
            let u = unit3(r, lat);
            let len = *r.pick(&[0.25, 0.5, 2.0, 4.0, 10.0, 3.0, 0.125, 1.0]);
            let b = a + u * len;
            let nrm = if r.bool() { u } else { unit3(r, lat) };
            let eps = if lat { *r.pick(&[0.125, 0.25, 0.5, 0.0625]) } else { *r.pick(&[0.1, 1e-3, 0.3, 0.01]) };
            let k = *r.pick(&[0.5, 0.875, 1.125, 2.0, 0.5 * len, 0.9375 * len, 1.0625 * len, 0.5 / len, 0.9375 / len, 1.0625 / len, 2.0 * len]);
            let d = eps * k;
            let t = if r.below(3) != 0 { len - d } else { d };
            let bias = nrm.dot(&(a + u * t).coords);
            let (a, b) = if r.below(4) == 0 { (b, a) } else { (a, b) };
            v.push(("seg_split".into(), format!("{} {} {} {} {}", d3::hp(&a), d3::hp(&b), d3::hv(&nrm), hx(bias), hx(eps))));
        }
        // ---- Segment::canonical_split: every axis, planes through / near the end points
        {
            let a = d3::gen_p(r, lat, 10.0);
            let axis = r.below(3) as usize;
            let b = match r.below(6) { 0 => a, 1 => { let mut b = d3::gen_p(r, lat, 10.0); b[axis] = a[axis]; b } // parallel to the plane
                2 => { let mut b = a; b[axis] += *r.pick(&[0.5, -2.0, 4.0, 10.0]); b }
                _ => d3::gen_p(r, lat, 10.0) };
            let eps = gen_eps(r, lat);
            let (sa, sb) = (a[axis], b[axis]);
            let bias = match r.below(9) {
                0 => sa, 1 => sb, 2 => (sa + sb) * 0.5, 3 => sa + eps * *r.pick(&[1.0, 0.5, 2.0, -1.0]), 4 => sb - eps * *r.pick(&[1.0, 0.5, 2.0, -1.0]),
                5 => sa + (sb - sa) * *r.pick(&[0.25, 0.75, -0.5, 1.5, 0.125]), 6 => sa.min(sb) - 1.0,
                7 => a[(axis + 1) % 3], // the value a wrong axis would be compared with
                _ => r.coord(lat, 12.0) };
            v.push(("seg_canon_split".into(), format!("{} {} {} {} {}", d3::hp(&a), d3::hp(&b), axis, hx(bias), hx(eps))));
        }

        // ---- Aabb difference: nested, containing, shifted, touching, disjoint, equal
        let x = gen_aabb(r, lat);
        let e = x.maxs - x.mins;
        let y = match r.below(8) {
            0 => x,
            1 => { let s = d3::gen_v(r, true, 1.0); Aabb::new(x.mins + s, x.maxs + s) }
            2 => { let mut s = V3::zeros(); let k = r.below(3) as usize; s[k] = if r.bool() { e[k] } else { -e[k] }; Aabb::new(x.mins + s, x.maxs + s) } // touching
            3 => Aabb::new(x.mins + e * 0.25, x.maxs - e * 0.25), // nested
            4 => Aabb::new(x.mins - e * 0.5, x.maxs + e * 0.5),   // containing
            5 => { // partial overlap per axis from a menu
                let mut mins = x.mins; let mut maxs = x.maxs;
                for k in 0..3 { let (lo, hi) = *r.pick(&[(-0.5, 0.5), (0.5, 1.5), (0.25, 0.75), (-0.5, 1.5), (0.0, 1.0), (0.0, 0.5), (0.5, 1.0), (1.0, 2.0), (-1.0, 0.0)]);
                    mins[k] = x.mins[k] + e[k] * lo; maxs[k] = x.mins[k] + e[k] * hi; }
                Aabb::new(mins, maxs) }
            _ => gen_aabb(r, lat) };
        v.push(("aabb_diff".into(), format!("{} {}", haabb(&x), haabb(&y))));

        // ---- clip_aabb_line & co: origin inside/outside/on a face, axis-aligned / diagonal / generic / zero directions
        for _ in 0..2 {
            let x = gen_aabb(r, lat);
            let e = x.maxs - x.mins;
            let c = x.mins + e * 0.5;
            let o = match r.below(6) {
                0 => c,
                1 => x.mins + e.component_mul(&V3::new(*r.pick(&[0.0, 0.5, 1.0]), *r.pick(&[0.0, 0.5, 1.0]), *r.pick(&[0.0, 0.25, 1.0]))),
                2 => x.mins + e.component_mul(&V3::new(*r.pick(&[-1.0, 0.5, 2.0]), *r.pick(&[-0.5, 0.5, 1.5]), *r.pick(&[-1.0, 0.0, 0.5, 2.0]))),
                3 => { let k = *r.pick(&[1.0, 2.0, -1.0, -3.0, 0.5]); x.mins - V3::new(k, k, k) } // on the main diagonal through `mins`
                _ => d3::gen_p(r, lat, 60.0) };
            let d = match r.below(8) {
                0 => V3::zeros(),
                1 => { let mut d = V3::new(0.0, -0.0, 0.0); d[r.below(3) as usize] = *r.pick(&[1.0, -1.0, 2.0, -0.5, 1e-3, 1e3]); d }
                2 => V3::new(1.0, 1.0, 1.0) * *r.pick(&[1.0, -1.0, 0.5, 3.0]),
                3 => { let mut d = V3::new(*r.pick(&[1.0, -1.0, 2.0]), *r.pick(&[1.0, -1.0, 0.5]), *r.pick(&[1.0, -2.0])); d[r.below(3) as usize] = 0.0; d }
                4 => (c - o) * *r.pick(&[1.0, -1.0, 0.5, 2.0, 0.125]), // through the centre (or away from it)
                5 => (x.maxs - o) * *r.pick(&[1.0, -1.0, 0.5, 2.0]),   // through a vertex
                _ => { let s = if lat { 1.0 } else { r.logu(1e-3, 1e3) }; d3::gen_v(r, lat, 2.0) * s } };
            let args = format!("{} {} {}", haabb(&x), d3::hp(&o), d3::hv(&d));
            for f in ["clip_line", "clip_line_params", "clip_ray_params", "clip_line_seg", "clip_ray_seg"] { v.push((f.to_string(), args.clone())); }
            // segment: [o, o + d] and variants that stop short of / start beyond the box
            let pb = o + d;
            v.push(("clip_seg".into(), format!("{} {} {}", haabb(&x), d3::hp(&o), d3::hp(&pb))));
            let pa2 = d3::gen_p(r, lat, 8.0); let pb2 = d3::gen_p(r, lat, 8.0);
            let x2 = if lat { Aabb::new(P3::new(-2.0, -1.0, -1.5), P3::new(1.0, 2.0, 1.5)) } else { Aabb::new(P3::new(-3.0, -2.0, -4.0), P3::new(2.5, 3.0, 1.0)) };
            v.push(("clip_seg".into(), format!("{} {} {}", haabb(&x2), d3::hp(&pa2), d3::hp(&pb2))));
        }

        // ---- half-space / box clipping of convex planar polygons
        for _ in 0..2 {
            let poly = gen_poly(r, lat, 4.0);
            let nrm = if r.below(3) == 0 { d3::gen_v(r, lat, 3.0) } else { unit3(r, lat) };
            let nrm = if nrm.norm() == 0.0 { V3::new(0.0, 1.0, 0.0) } else { nrm };
            let k = r.below(poly.len() as u64) as usize;
            let c = match r.below(5) {
                0 => poly[k],                                             // plane through a vertex
                1 => P3::from((poly[k].coords + poly[(k + 1) % poly.len()].coords) * 0.5), // through an edge mid-point
                2 => P3::from(poly.iter().fold(V3::zeros(), |s, p| s + p.coords) / poly.len() as f64), // through the centroid
                3 => poly[k] + nrm * *r.pick(&[10.0, -10.0]),             // all kept / none kept
                _ => d3::gen_p(r, lat, 4.0) };
            // plane containing an edge: normal orthogonal to it
            let nrm = if r.below(6) == 0 { let e = poly[(k + 1) % poly.len()] - poly[k]; let t = e.cross(&d3::gen_v(r, lat, 2.0)); if t.norm() > 0.0 { t } else { nrm } } else { nrm };
            v.push(("clip_hs_poly".into(), format!("{} {} {}", d3::hp(&c), d3::hv(&nrm), hpts(&poly))));
            if it % 16 == 0 { v.push(("clip_hs_poly".into(), format!("{} {} 0", d3::hp(&c), d3::hv(&nrm)))); }
            let x = match r.below(4) {
                0 => { let he = d3::gen_he(r, lat); Aabb::new(poly[k] - he, poly[k] + he) }      // box centred on a vertex
                1 => Aabb::new(P3::new(-100.0, -100.0, -100.0), P3::new(100.0, 100.0, 100.0)),  // contains everything
                2 => { let he = d3::gen_he(r, lat); let c = P3::from(poly.iter().fold(V3::zeros(), |s, p| s + p.coords) / poly.len() as f64); Aabb::new(c - he, c + he) }
                _ => gen_aabb(r, lat) };
            v.push(("clip_poly".into(), format!("{} {}", haabb(&x), hpts(&poly))));
        }

        // ---- clip_segment_segment (2-D)
        for _ in 0..2 {
            let a1 = d2::gen_p(r, lat, 8.0);
            let t = loop { let t = d2::gen_v(r, lat, 4.0); if t.norm() > 0.0 { break t; } };
            let b1 = a1 + t;
            let nrm = d2::Vector::new(-t.y, t.x);
            let off = nrm * if lat { *r.pick(&[0.0, 0.25, -0.5, 1.0]) } else { r.uniform(-1.0, 1.0) };
            let (s0, s1) = match r.below(7) {
                0 => (0.0, 1.0), 1 => (0.25, 0.75), 2 => (-0.5, 0.5), 3 => (0.5, 1.5), 4 => (1.0, 2.0), 5 => (1.25, 2.0),
                _ => (r.coord(lat, 2.0) * 0.5, r.coord(lat, 2.0) * 0.5) };
            let tilt = if r.below(3) == 0 { nrm * if lat { 0.125 } else { r.uniform(-0.2, 0.2) } } else { d2::Vector::zeros() };
            let (mut a2, mut b2) = (a1 + t * s0 + off, a1 + t * s1 + off + tilt);
            if r.bool() { core::mem::swap(&mut a2, &mut b2); }
            if r.below(8) == 0 { a2 = d2::gen_p(r, lat, 8.0); b2 = d2::gen_p(r, lat, 8.0); }
            v.push(("clip_seg_seg".into(), format!("{} {} {} {}", d2::hp(&a1), d2::hp(&b1), d2::hp(&a2), d2::hp(&b2))));
            // `clip_segment_segment_with_normal`: same pairs; the normal is the left normal of seg1 (the caller's convention:
            // tangent = seg1 direction), an axis, a lattice / random vector (non-unit, sometimes zero), or the normal of seg2
            let d1 = b1 - a1;
            let nn = match it % 6 { 0 => d2::Vector::new(d1.y, -d1.x), 1 => d2::Vector::new(-d1.y, d1.x) / d1.norm().max(1e-3),
                2 => *[d2::Vector::new(0.0, 1.0), d2::Vector::new(1.0, 0.0), d2::Vector::new(0.0, -1.0), d2::Vector::zeros()].get((it / 6) % 4).unwrap(),
                3 => { let d = b2 - a2; d2::Vector::new(d.y, -d.x) }
                _ => nrm * if lat { 2.0 } else { 1.0 } };
            v.push(("clip_seg_seg_n".into(), format!("{} {} {} {} {}", d2::hp(&a1), d2::hp(&b1), d2::hp(&a2), d2::hp(&b2), d2::hv(&nn))));
        }

        // ---- TriMesh split / plane section (oracle-only): planes through vertices, along edges, generic; bias sweep
        if it % 2 == 0 || thorough {
            let mlat = it % 4 == 0;
            let (oriented, mv, mi) = gen_mesh(r, mlat);
            let nlat = mlat || r.bool(); let nrm = unit3(r, nlat);
            let ds: Vec<f64> = mv.iter().map(|p| nrm.dot(&p.coords)).collect();
            let (lo, hi) = ds.iter().fold((f64::MAX, -f64::MAX), |(a, b), d| (a.min(*d), b.max(*d)));
            let k = r.below(mv.len() as u64) as usize;
            let t = mi[r.below(mi.len() as u64) as usize];
            for j in 0..2 {
                let eps = *r.pick(&[0.0, 0.0, 1e-9, 1e-6, 1e-3, 0.125, 0.25]);
                let bias = match r.below(6) {
                    0 => ds[k],                                             // through a vertex
                    1 => (ds[t[0] as usize] + ds[t[1] as usize]) * 0.5,    // through an edge mid-point
                    2 => ds[k] + eps, 3 => ds[k] - eps * 0.5,
                    4 => lo + (hi - lo) * (r.range(-1, 9) as f64) / 8.0,  // sweep
                    _ => r.uniform(lo - 0.1, hi + 0.1) };
                let args = format!("{} {} {} {}", hmesh(oriented, &mv, &mi), d3::hv(&nrm), hx(bias), hx(eps));
                v.push(("tm_split".into(), args.clone()));
                v.push(("tm_verdict".into(), args.clone()));
                if j == 0 { v.push(("tm_cut".into(), args.clone())); }
                v.push(("tm_section_m".into(), args.clone()));
                v.push(("tm_section".into(), args));
            }
            // soups (fu5): the same mesh plus a duplicated triangle (same / opposite orientation), a degenerate triangle with a
            // repeated index on an existing edge, or a point triangle — never flagged oriented (a vertex used by no triangle is NOT
            // generated: the verdict oracles count every vertex as part of the surface). The section and the
            // cutting routines are total on such input (`section_never_panics`, `local_split_never_panics`) and the models are
            // compared bit for bit; planes through a vertex of the touched triangle, through its edge mid-point, sweep.
            if it % 10 == 0 {
                let (sv, mut si) = (mv.clone(), mi.clone());
                match r.below(5) {
                    0 => si.push(t), 1 => si.push([t[0], t[2], t[1]]),
                    2 => si.push([t[0], t[0], t[1]]), 3 => { si.push([t[1], t[2], t[2]]); si.insert(0, [t[2], t[1], t[0]]); }
                    _ => { si.push([t[2], t[2], t[2]]); si.push([t[0], t[1], t[0]]); } }
                let eps = *r.pick(&[0.0, 0.0, 1e-9, 0.125]);
                let bias = match r.below(4) {
                    0 => ds[t[0] as usize], 1 => (ds[t[0] as usize] + ds[t[1] as usize]) * 0.5, 2 => (ds[t[1] as usize] + ds[t[2] as usize]) * 0.5 + eps,
                    _ => lo + (hi - lo) * (r.range(1, 7) as f64) / 8.0 };
                let args = format!("{} {} {} {}", hmesh(false, &sv, &si), d3::hv(&nrm), hx(bias), hx(eps));
                for f in ["tm_split", "tm_verdict", "tm_cut", "tm_section_m", "tm_section"] { v.push((f.to_string(), args.clone())); }
            }
            if it % 8 == 0 {
                let pos = d3::gen_iso(r, true, 2.0);
                let bias = r.lattice(8, 2);
                v.push(("tm_split_pos".into(), format!("{} {} {} {} {}", hmesh(oriented, &mv, &mi), d3::hiso(&pos), d3::hv(&nrm), hx(bias), hx(1e-6))));
            }
        }

        // ---- TriMesh world-space wrappers (`split`, `intersection_with_plane`) and canonical-axis wrappers: the plane is chosen
        // relative to the mesh *as placed in the world* (through a placed vertex, an edge mid-point, within eps, sweep), under poses
        // with both a rotation and a translation (exact cube-group / Pythagorean / quarter-turn rotations and random ones), pure
        // translations and pure rotations.
        if it % 2 == 1 || thorough {
            let mlat = it % 4 == 1;
            let (oriented, mv, mi) = gen_mesh(r, mlat);
            let hm = hmesh(oriented, &mv, &mi);
            let pos = match r.below(10) {
                0 => iso_of([0.0, 0.0, 0.0, 1.0], d3::gen_v(r, true, 4.0)),                    // pure translation
                1 => iso_of(d3::gen_quat(r, true), V3::zeros()),                                // pure rotation
                2 | 3 | 4 => d3::gen_iso(r, false, 5.0),                                        // random rotation and translation
                5 => { // quarter / half turn about one axis + translation along another axis
                    let s = std::f64::consts::FRAC_1_SQRT_2; let k = r.below(3) as usize;
                    let mut q = [0.0; 4]; if r.bool() { q[3] = s; q[k] = if r.bool() { s } else { -s }; } else { q[k] = 1.0; }
                    let mut t = V3::zeros(); t[(k + 1 + r.below(2) as usize) % 3] = *r.pick(&[1.0, -2.0, 0.5, 3.0]);
                    iso_of(q, t) }
                _ => { // exact rotation (never the identity) + lattice translation (never zero)
                    let q = loop { let q = d3::gen_quat(r, true); if q[3].abs() != 1.0 { break q; } };
                    let t = loop { let t = d3::gen_v(r, true, 4.0); if t.norm() > 0.0 { break t; } };
                    iso_of(q, t) }
            };
            let nlat = mlat || r.bool(); let nrm = unit3(r, nlat);
            let ds: Vec<f64> = mv.iter().map(|p| nrm.dot(&(pos * p).coords)).collect();
            let (lo, hi) = ds.iter().fold((f64::MAX, -f64::MAX), |(a, b), d| (a.min(*d), b.max(*d)));
            let k = r.below(mv.len() as u64) as usize;
            let t = mi[r.below(mi.len() as u64) as usize];
            let eps = *r.pick(&[0.0, 0.0, 1e-9, 1e-6, 1e-3, 0.125, 0.25]);
            let bias = match r.below(6) {
                0 => ds[k], 1 => (ds[t[0] as usize] + ds[t[1] as usize]) * 0.5, 2 => ds[k] + eps, 3 => ds[k] - eps * 0.5,
                4 => lo + (hi - lo) * (r.range(-1, 9) as f64) / 8.0,
                _ => r.uniform(lo - 0.1, hi + 0.1) };
            let args = format!("{} {} {} {} {}", hm, d3::hiso(&pos), d3::hv(&nrm), hx(bias), hx(eps));
            v.push(("tm_split_pos".into(), args.clone()));
            v.push(("tm_cut_pos".into(), args.clone()));
            v.push(("tm_section_pos".into(), args.clone()));
            v.push(("tm_section_m_pos".into(), args.clone()));
            v.push(("tm_verdict_pos".into(), args.clone()));
            let un = Unit::new_unchecked(nrm);
            let la = pos.inverse_transform_unit_vector(&un);
            let lb = bias + (-pos.translation.vector.dot(&un));
            v.push(("tm_plane_pos".into(), format!("{} {} {}", args, d3::hv(&la), hx(lb))));
            // canonical axes
            let axis = r.below(3) as usize;
            let cs: Vec<f64> = mv.iter().map(|p| p[axis]).collect();
            let (lo, hi) = cs.iter().fold((f64::MAX, -f64::MAX), |(a, b), d| (a.min(*d), b.max(*d)));
            let eps = *r.pick(&[0.0, 0.0, 1e-9, 1e-3, 0.125, 0.25]);
            let bias = match r.below(6) {
                0 => cs[k], 1 => (cs[t[0] as usize] + cs[t[1] as usize]) * 0.5, 2 => cs[k] + eps, 3 => cs[k] - eps * 0.5,
                4 => lo + (hi - lo) * (r.range(-1, 9) as f64) / 8.0,
                _ => mv[k][(axis + 1) % 3] }; // the value a wrong axis would be compared with
            let args = format!("{} {} {} {}", hm, axis, hx(bias), hx(eps));
            v.push(("tm_canon_split".into(), args.clone()));
            v.push(("tm_cut_canon".into(), args.clone()));
            v.push(("tm_canon_section".into(), args.clone()));
            v.push(("tm_section_m_canon".into(), args.clone()));
            v.push(("tm_verdict_canon".into(), args.clone()));
            v.push(("tm_plane_canon".into(), format!("{} {}", args, d3::hv(&V3::ith_axis(axis)))));
        }
    }
    // ---- intersect_meshes / TriMesh::intersection_with_{local_cuboid, cuboid, aabb} (oracle-only), after the other streams
    gen_isect(r, &mut v, if thorough { 1600 } else { 200 });
    v
}
