//! C14: persistent contact manifolds.
use crate::util::*;

type M3 = crate::p3::query::ContactManifold<u32, u32>;
type M2 = crate::p2::query::ContactManifold<u32, u32>;
type C3 = crate::p3::query::TrackedContact<u32>;
type C2 = crate::p2::query::TrackedContact<u32>;

// ---------------------------------------------------------------- manifold I/O
/// manifold: n1 n2 npts (p1 p2 dist)*
fn man3(a: &mut Args) -> M3 {
    let mut m = M3::new();
    m.local_n1 = d3::v(a);
    m.local_n2 = d3::v(a);
    let n = a.u();
    let fid = crate::p3::shape::PackedFeatureId::face(0);
    for _ in 0..n {
        let p1 = d3::p(a); let p2 = d3::p(a); let d = a.f();
        m.points.push(C3::new(p1, p2, fid, fid, d));
    }
    m
}
fn man2(a: &mut Args) -> M2 {
    let mut m = M2::new();
    m.local_n1 = d2::v(a);
    m.local_n2 = d2::v(a);
    let n = a.u();
    let fid = crate::p2::shape::PackedFeatureId::face(0);
    for _ in 0..n {
        let p1 = d2::p(a); let p2 = d2::p(a); let d = a.f();
        m.points.push(C2::new(p1, p2, fid, fid, d));
    }
    m
}
fn fman3(m: &M3) -> String {
    let mut s = format!("{} {} {}", d3::fv(&m.local_n1), d3::fv(&m.local_n2), m.points.len());
    for c in &m.points { s += &format!(" {} {} {}", d3::fp(&c.local_p1), d3::fp(&c.local_p2), ff(c.dist)); }
    s
}
fn fman2(m: &M2) -> String {
    let mut s = format!("{} {} {}", d2::fv(&m.local_n1), d2::fv(&m.local_n2), m.points.len());
    for c in &m.points { s += &format!(" {} {} {}", d2::fp(&c.local_p1), d2::fp(&c.local_p2), ff(c.dist)); }
    s
}
/// hex (input) encoding of a manifold given as raw parts
fn hman3(n1: &d3::Vector<f64>, n2: &d3::Vector<f64>, pts: &[(d3::Point<f64>, d3::Point<f64>, f64)]) -> String {
    let mut s = format!("{} {} {}", d3::hv(n1), d3::hv(n2), pts.len());
    for (p1, p2, d) in pts { s += &format!(" {} {} {}", d3::hp(p1), d3::hp(p2), hx(*d)); }
    s
}
fn hman2(n1: &d2::Vector<f64>, n2: &d2::Vector<f64>, pts: &[(d2::Point<f64>, d2::Point<f64>, f64)]) -> String {
    let mut s = format!("{} {} {}", d2::hv(n1), d2::hv(n2), pts.len());
    for (p1, p2, d) in pts { s += &format!(" {} {} {}", d2::hp(p1), d2::hp(p2), hx(*d)); }
    s
}


// ---------------------------------------------------------------- primitive pairs through the dispatcher
use crate::p3::shape::Shape as Shape3;
fn shapes3(kind: usize, a: d3::Vector<f64>, b: d3::Vector<f64>, e: f64) -> (Box<dyn Shape3>, Box<dyn Shape3>) {
    use crate::p3::shape::*;
    let hs = |n: d3::Vector<f64>| -> Box<dyn Shape3> { Box::new(HalfSpace::new(d3::na::Unit::new_unchecked(n))) };
    let cu = |he: d3::Vector<f64>| -> Box<dyn Shape3> { Box::new(Cuboid::new(he)) };
    let ba = |r: f64| -> Box<dyn Shape3> { Box::new(Ball::new(r)) };
    let ca = |p: d3::Vector<f64>| -> Box<dyn Shape3> { Box::new(Capsule::new_y(p.x, p.y)) };
    let rc = |he: d3::Vector<f64>| -> Box<dyn Shape3> { Box::new(RoundCuboid { inner_shape: Cuboid::new(he), border_radius: e }) };
    match kind {
        0 => (ba(a.x), ba(b.x)),
        1 => (cu(a), ba(b.x)),
        2 => (ba(a.x), cu(b)),
        3 => (hs(a), cu(b)),
        4 => (cu(a), hs(b)),
        5 => (hs(a), ca(b)),
        6 => (ca(a), hs(b)),
        7 => (hs(a), rc(b)),
        8 => (rc(a), hs(b)),
        9 => (cu(a), cu(b)),
        _ => (ca(a), ca(b)),
    }
}

/// `seq3 kind a b e pred nposes pose*` → `oneshot(flag dist)* ;; manifold after every call`
fn seq3(a: &mut Args) -> String {
    use crate::p3::query::{DefaultQueryDispatcher, PersistentQueryDispatcher, QueryDispatcher};
    let kind = a.u(); let sa = d3::v(a); let sb = d3::v(a); let e = a.f(); let pred = a.f();
    let n = a.u();
    let poses: Vec<_> = (0..n).map(|_| d3::iso(a)).collect();
    let (s1, s2) = shapes3(kind, sa, sb, e);
    let mut manifolds: Vec<M3> = Vec::new();
    let mut ws = None;
    let mut obs = String::new();
    let mut out = String::new();
    for p in &poses {
        // one-shot reference; for (X, halfspace) evaluate the (halfspace, X) route (the other one is a C02/C03 finding)
        let hs2 = s2.as_halfspace().is_some();
        let os = if hs2 { DefaultQueryDispatcher.contact(&p.inverse(), &*s2, &*s1, pred) } else { DefaultQueryDispatcher.contact(p, &*s1, &*s2, pred) };
        match os { Ok(Some(c)) => obs += &format!("1 {} ", ff(c.dist)), _ => obs += "0 0000000000000000 " }
        let r = DefaultQueryDispatcher.contact_manifolds(p, &*s1, &*s2, pred, &mut manifolds, &mut ws);
        if r.is_err() { return "unsupported".into(); }
        if manifolds.len() != 1 { return format!("nmanifolds {}", manifolds.len()); }
        if !out.is_empty() { out.push(' '); }
        out += &fman3(&manifolds[0]);
    }
    format!("{};; {}", obs, out)
}

// ---------------------------------------------------------------- composite shapes: workspace bookkeeping
/// `comp3 flipped nparts (ptype p(3) pose)* s2type q(3) pred nposes pose*`
///  → `part aabbs, per call: box nleaves leaves* ;; per call: nman (s1 s2 pos1? pos2? tag manifold)*`
/// `tm = true`: the composite is a TriMesh given as `nverts v* ntris (i j k)*` instead of the part list.
fn comp3(a: &mut Args, tm: bool) -> String {
    use crate::p3::query::{DefaultQueryDispatcher, PersistentQueryDispatcher};
    use crate::p3::query::visitors::BoundingVolumeIntersectionsVisitor;
    use crate::p3::bounding_volume::BoundingVolume;
    use crate::p3::shape::*;
    let flipped = a.b();
    let mut obs = String::new();
    let comp: Box<dyn Shape3> = if tm {
        let nv = a.u(); let vs: Vec<_> = (0..nv).map(|_| d3::p(a)).collect();
        let nt = a.u(); let ts: Vec<[u32; 3]> = (0..nt).map(|_| [a.u() as u32, a.u() as u32, a.u() as u32]).collect();
        let mesh = TriMesh::new(vs, ts).unwrap();
        for t in mesh.triangles() { let bb = t.local_aabb(); obs += &format!("{} {} ", d3::fp(&bb.mins), d3::fp(&bb.maxs)); }
        Box::new(mesh)
    } else {
        let np = a.u();
        let mut parts = Vec::new();
        for _ in 0..np {
            let ty = a.u(); let p = d3::v(a); let pose = d3::iso(a);
            let sh = if ty == 0 { SharedShape::ball(p.x) } else { SharedShape::cuboid(p.x, p.y, p.z) };
            parts.push((pose, sh));
        }
        let c = Compound::new(parts);
        for bb in c.aabbs() { obs += &format!("{} {} ", d3::fp(&bb.mins), d3::fp(&bb.maxs)); }
        Box::new(c)
    };
    let ty2 = a.u(); let q = d3::v(a);
    let other: Box<dyn Shape3> = if ty2 == 0 { Box::new(Ball::new(q.x)) } else { Box::new(Cuboid::new(q)) };
    let pred = a.f();
    let n = a.u();
    let poses: Vec<_> = (0..n).map(|_| d3::iso(a)).collect();
    let mut manifolds: Vec<M3> = Vec::new();
    let mut ws = None;
    let mut out = String::new();
    for (k, p) in poses.iter().enumerate() {
        // the box the implementation must use: the other shape's AABB in the composite's frame, loosened by the prediction
        let pos_in_comp = if flipped { p.inverse() } else { *p };
        let bx = other.compute_aabb(&pos_in_comp).loosened(pred);
        obs += &format!("{} {} ", d3::fp(&bx.mins), d3::fp(&bx.maxs));
        let mut leaves: Vec<u32> = Vec::new();
        {
            let mut cb = |l: &u32| { leaves.push(*l); true };
            let mut vis = BoundingVolumeIntersectionsVisitor::new(&bx, &mut cb);
            let qb = if let Some(c) = comp.as_compound() { c.qbvh() } else { comp.as_trimesh().unwrap().qbvh() };
            let _ = qb.traverse_depth_first(&mut vis);
        }
        obs += &format!("{} ", leaves.len());
        for l in &leaves { obs += &format!("{} ", l); }
        // the property's reference: a FRESH computation at this pose (new manifold vector, no workspace)
        {
            let mut fm: Vec<M3> = Vec::new(); let mut fws = None;
            let r = if flipped { DefaultQueryDispatcher.contact_manifolds(p, &*other, &*comp, pred, &mut fm, &mut fws) }
                    else { DefaultQueryDispatcher.contact_manifolds(p, &*comp, &*other, pred, &mut fm, &mut fws) };
            if r.is_err() { return "unsupported".into(); }
            obs += &format!("{} ", fm.len());
            for m in &fm { obs += &format!("{} {} {} ", m.subshape1, m.subshape2, fman3(m)); }
        }
        let r = if flipped { DefaultQueryDispatcher.contact_manifolds(p, &*other, &*comp, pred, &mut manifolds, &mut ws) }
                else { DefaultQueryDispatcher.contact_manifolds(p, &*comp, &*other, pred, &mut manifolds, &mut ws) };
        if r.is_err() { return "unsupported".into(); }
        out += &format!("{} ", manifolds.len());
        for (i, m) in manifolds.iter_mut().enumerate() {
            let fp = |o: &Option<d3::Isometry<f64>>| match o { Some(x) => format!("1 {}", d3::fiso(x)), None => "0".to_string() };
            out += &format!("{} {} {} {} {} {} ", m.subshape1, m.subshape2, fp(&m.subshape_pos1), fp(&m.subshape_pos2), m.data, fman3(m));
            m.data = (1000 * (k + 1) + i + 1) as u32;      // re-tag: user data must follow the part, not the slot
        }
    }
    format!("{};; {}", obs, out.trim_end())
}

// ---------------------------------------------------------------- 2-D primitive pairs through the dispatcher
use crate::p2::shape::Shape as Shape2;
fn shapes2(kind: usize, a: d2::Vector<f64>, b: d2::Vector<f64>) -> (Box<dyn Shape2>, Box<dyn Shape2>) {
    use crate::p2::shape::*;
    let hs = |n: d2::Vector<f64>| -> Box<dyn Shape2> { Box::new(HalfSpace::new(d2::na::Unit::new_unchecked(n))) };
    let cu = |he: d2::Vector<f64>| -> Box<dyn Shape2> { Box::new(Cuboid::new(he)) };
    let ba = |r: f64| -> Box<dyn Shape2> { Box::new(Ball::new(r)) };
    let ca = |p: d2::Vector<f64>| -> Box<dyn Shape2> { Box::new(Capsule::new_y(p.x, p.y)) };
    match kind { 0 => (ba(a.x), ba(b.x)), 1 => (cu(a), ba(b.x)), 2 => (ba(a.x), cu(b)), 3 => (hs(a), cu(b)), 5 => (ca(a), ca(b)), 6 => (cu(a), cu(b)), _ => (cu(a), hs(b)) }
}
/// `seq2 kind a b pred nposes pose*` → `oneshot(flag dist)* ;; manifold after every call`
fn seq2(a: &mut Args) -> String {
    use crate::p2::query::{DefaultQueryDispatcher, PersistentQueryDispatcher, QueryDispatcher};
    let kind = a.u(); let sa = d2::v(a); let sb = d2::v(a); let pred = a.f();
    let n = a.u();
    let poses: Vec<_> = (0..n).map(|_| d2::iso(a)).collect();
    let (s1, s2) = shapes2(kind, sa, sb);
    let mut manifolds: Vec<M2> = Vec::new();
    let mut ws = None;
    let mut obs = String::new();
    let mut out = String::new();
    for p in &poses {
        let hs2 = s2.as_halfspace().is_some();
        let os = if hs2 { DefaultQueryDispatcher.contact(&p.inverse(), &*s2, &*s1, pred) } else { DefaultQueryDispatcher.contact(p, &*s1, &*s2, pred) };
        match os { Ok(Some(c)) => obs += &format!("1 {} ", ff(c.dist)), _ => obs += "0 0000000000000000 " }
        let r = DefaultQueryDispatcher.contact_manifolds(p, &*s1, &*s2, pred, &mut manifolds, &mut ws);
        if r.is_err() { return "unsupported".into(); }
        if manifolds.len() != 1 { return format!("nmanifolds {}", manifolds.len()); }
        if !out.is_empty() { out.push(' '); }
        out += &fman2(&manifolds[0]);
    }
    format!("{};; {}", obs, out)
}

// ---------------------------------------------------------------- tiny shapes tilting on unit-size partners (warm-start angle clause)
/// `seq3t kind he_big(3) tiny(9) pred nposes pose*`; kind: 0 big/tiny-cuboid · 1 tiny-cuboid/big · 2 big/tiny-triangle · 3 tiny-triangle/big
/// (tiny cuboid: half extents = first 3 of the 9 numbers; triangle: its 3 vertices) → `oneshot* ;; manifold after every call`
fn seq3t(a: &mut Args) -> String {
    use crate::p3::query::{DefaultQueryDispatcher, PersistentQueryDispatcher, QueryDispatcher};
    use crate::p3::shape::*;
    let kind = a.u(); let hb = d3::v(a);
    let t: Vec<f64> = (0..9).map(|_| a.f()).collect();
    let pred = a.f(); let n = a.u();
    let poses: Vec<_> = (0..n).map(|_| d3::iso(a)).collect();
    let big: Box<dyn Shape3> = Box::new(Cuboid::new(hb));
    let tiny: Box<dyn Shape3> = if kind < 2 { Box::new(Cuboid::new(d3::Vector::new(t[0], t[1], t[2]))) }
        else { Box::new(Triangle::new(d3::Point::new(t[0], t[1], t[2]), d3::Point::new(t[3], t[4], t[5]), d3::Point::new(t[6], t[7], t[8]))) };
    let (s1, s2) = if kind % 2 == 0 { (big, tiny) } else { (tiny, big) };
    let mut manifolds: Vec<M3> = Vec::new();
    let mut ws = None;
    let mut obs = String::new(); let mut out = String::new();
    for p in &poses {
        match DefaultQueryDispatcher.contact(p, &*s1, &*s2, pred) { Ok(Some(c)) => obs += &format!("1 {} ", ff(c.dist)), _ => obs += "0 0000000000000000 " }
        let r = DefaultQueryDispatcher.contact_manifolds(p, &*s1, &*s2, pred, &mut manifolds, &mut ws);
        if r.is_err() { return "unsupported".into(); }
        if manifolds.len() != 1 { return format!("nmanifolds {}", manifolds.len()); }
        if !out.is_empty() { out.push(' '); }
        out += &fman3(&manifolds[0]);
    }
    format!("{};; {}", obs, out)
}
/// `seq2t kind he_big(2) tiny(6) pred nposes pose*` — the 2-D analogue (tiny cuboid: first 2 numbers; triangle: 3 vertices)
fn seq2t(a: &mut Args) -> String {
    use crate::p2::query::{DefaultQueryDispatcher, PersistentQueryDispatcher, QueryDispatcher};
    use crate::p2::shape::*;
    let kind = a.u(); let hb = d2::v(a);
    let t: Vec<f64> = (0..6).map(|_| a.f()).collect();
    let pred = a.f(); let n = a.u();
    let poses: Vec<_> = (0..n).map(|_| d2::iso(a)).collect();
    let big: Box<dyn Shape2> = Box::new(Cuboid::new(hb));
    let tiny: Box<dyn Shape2> = if kind < 2 { Box::new(Cuboid::new(d2::Vector::new(t[0], t[1]))) }
        else { Box::new(Triangle::new(d2::Point::new(t[0], t[1]), d2::Point::new(t[2], t[3]), d2::Point::new(t[4], t[5]))) };
    let (s1, s2) = if kind % 2 == 0 { (big, tiny) } else { (tiny, big) };
    let mut manifolds: Vec<M2> = Vec::new();
    let mut ws = None;
    let mut obs = String::new(); let mut out = String::new();
    for p in &poses {
        match DefaultQueryDispatcher.contact(p, &*s1, &*s2, pred) { Ok(Some(c)) => obs += &format!("1 {} ", ff(c.dist)), _ => obs += "0 0000000000000000 " }
        let r = DefaultQueryDispatcher.contact_manifolds(p, &*s1, &*s2, pred, &mut manifolds, &mut ws);
        if r.is_err() { return "unsupported".into(); }
        if manifolds.len() != 1 { return format!("nmanifolds {}", manifolds.len()); }
        if !out.is_empty() { out.push(' '); }
        out += &fman2(&manifolds[0]);
    }
    format!("{};; {}", obs, out)
}

// ---------------------------------------------------------------- 2-D capsule / capsule (closed form, two-contact branch)
/// `cc2 pos12 a1 b1 r1 a2 b2 r2 pred manifold` → the manifold after `contact_manifold_capsule_capsule` (2-D), capsules with
/// arbitrary axes (as the 2-D HeightField builds them: `Capsule::new(a, b, 0.0)`)
fn cc2(a: &mut Args) -> String {
    use crate::p2::shape::Capsule;
    let p = d2::iso(a);
    let a1 = d2::p(a); let b1 = d2::p(a); let r1 = a.f();
    let a2 = d2::p(a); let b2 = d2::p(a); let r2 = a.f();
    let pred = a.f();
    let mut m = man2(a);
    crate::p2::query::details::contact_manifold_capsule_capsule(&p, &Capsule::new(a1, b1, r1), &Capsule::new(a2, b2, r2), pred, &mut m);
    fman2(&m)
}

/// `hf2 flipped nh h* scale(2) nremoved idx* s2type q(2) pred nposes pose*`; s2type: 0 ball (radius q.x) · 1 capsule_y (half height q.x,
/// radius q.y)  → `ncells (1 a b | 0)* ;; per call: nman (subshape1 subshape2 manifold)*`
fn hf2(a: &mut Args) -> String {
    use crate::p2::query::{DefaultQueryDispatcher, PersistentQueryDispatcher};
    use crate::p2::shape::*;
    let flipped = a.b();
    let nh = a.u();
    let hs: Vec<f64> = (0..nh).map(|_| a.f()).collect();
    let scale = d2::v(a);
    let mut hf = HeightField::new(d2::na::DVector::from_vec(hs), scale);
    let nr = a.u();
    for _ in 0..nr { let i = a.u(); if i < hf.num_cells() { hf.set_segment_removed(i, true); } }
    let ty2 = a.u(); let q = d2::v(a);
    let other: Box<dyn Shape2> = if ty2 == 0 { Box::new(Ball::new(q.x)) } else { Box::new(Capsule::new_y(q.x, q.y)) };
    let pred = a.f();
    let n = a.u();
    let poses: Vec<_> = (0..n).map(|_| d2::iso(a)).collect();
    let mut obs = format!("{} ", hf.num_cells());
    for i in 0..hf.num_cells() {
        match hf.segment_at(i) { Some(sg) => obs += &format!("1 {} {} ", d2::fp(&sg.a), d2::fp(&sg.b)), None => obs += "0 " }
    }
    let mut manifolds: Vec<M2> = Vec::new();
    let mut ws = None;
    let mut out = String::new();
    for p in &poses {
        let r = if flipped { DefaultQueryDispatcher.contact_manifolds(p, &*other, &hf, pred, &mut manifolds, &mut ws) }
                else { DefaultQueryDispatcher.contact_manifolds(p, &hf, &*other, pred, &mut manifolds, &mut ws) };
        if r.is_err() { return "unsupported".into(); }
        out += &format!("{} ", manifolds.len());
        for m in manifolds.iter() { out += &format!("{} {} {} ", m.subshape1, m.subshape2, fman2(m)); }
    }
    format!("{};; {}", obs, out.trim_end())
}

// ---------------------------------------------------------------- exec
pub fn exec(func: &str, a: &mut Args) -> String {
    if let Some(s) = y::exec(func, a) { return s; }
    match func {
        "tuc3" => { let p = d3::iso(a); let mut m = man3(a); let t = a.f(); let d = a.f();
            let ok = m.try_update_contacts_eps(&p, t, d); format!("{} {}", b(ok), fman3(&m)) }
        "tuc3_default" => { let p = d3::iso(a); let mut m = man3(a);
            let ok = m.try_update_contacts(&p); format!("{} {}", b(ok), fman3(&m)) }
        "tuc2" => { let p = d2::iso(a); let mut m = man2(a); let t = a.f(); let d = a.f();
            let ok = m.try_update_contacts_eps(&p, t, d); format!("{} {}", b(ok), fman2(&m)) }
        "tuc2_default" => { let p = d2::iso(a); let mut m = man2(a);
            let ok = m.try_update_contacts(&p); format!("{} {}", b(ok), fman2(&m)) }
        "deepest" => { let n = a.u(); let mut m = M3::new();
            let fid = crate::p3::shape::PackedFeatureId::face(0);
            for _ in 0..n { let d = a.f(); m.points.push(C3::new(d3::Point::origin(), d3::Point::origin(), fid, fid, d)); }
            match m.find_deepest_contact() {
                None => "none".into(),
                Some(c) => { let i = m.points.iter().position(|x| std::ptr::eq(x, c)).unwrap(); format!("some {}", i) } } }
        "take3" => { let mut m = man3(a); let r = m.take(); format!("{} {}", fman3(&r), fman3(&m)) }
        "bb3" => { let p = d3::iso(a); let r1 = a.f(); let r2 = a.f(); let pr = a.f(); let mut m = man3(a);
            crate::p3::query::details::contact_manifold_ball_ball(&p, &crate::p3::shape::Ball::new(r1), &crate::p3::shape::Ball::new(r2), pr, &mut m);
            fman3(&m) }
        "seq3" | "seq3o" => seq3(a),
        "seq2" => seq2(a),
        "cc2" => cc2(a),
        "hf2" => hf2(a),
        "seq3t" => seq3t(a),
        "seq2t" | "seq2m" => seq2t(a),
        "comp3" => comp3(a, false),
        "tm3" => comp3(a, true),
        _ => ext::exec(func, a),
    }
}

#[path = "c14_ext.rs"]
mod ext;
#[path = "c14_y.rs"]
mod y;

// ---------------------------------------------------------------- generators
/// small rotation quaternion about a random axis, angle in radians
fn small_quat(r: &mut Rng, ang: f64) -> d3::na::UnitQuaternion<f64> {
    let ax = loop { let v = d3::Vector::new(r.uniform(-1.0, 1.0), r.uniform(-1.0, 1.0), r.uniform(-1.0, 1.0)); if v.norm() > 0.1 { break v; } };
    d3::na::UnitQuaternion::from_axis_angle(&d3::na::Unit::new_normalize(ax), ang)
}
fn unit3(r: &mut Rng, lat: bool) -> d3::Vector<f64> {
    if lat {
        *r.pick(&[d3::Vector::new(1.0, 0.0, 0.0), d3::Vector::new(0.0, -1.0, 0.0), d3::Vector::new(0.0, 0.0, 1.0),
                  d3::Vector::new(0.6, 0.8, 0.0), d3::Vector::new(0.0, -0.6, 0.8), d3::Vector::new(-0.8, 0.0, 0.6)])
    } else {
        loop { let v = d3::Vector::new(r.uniform(-1.0, 1.0), r.uniform(-1.0, 1.0), r.uniform(-1.0, 1.0)); let n = v.norm(); if n > 0.1 && n <= 1.0 { break v / n; } }
    }
}
fn unit2(r: &mut Rng, lat: bool) -> d2::Vector<f64> {
    if lat { *r.pick(&[d2::Vector::new(1.0, 0.0), d2::Vector::new(0.0, -1.0), d2::Vector::new(0.6, 0.8), d2::Vector::new(-0.8, 0.6)]) }
    else { let a = r.uniform(-3.2, 3.2); d2::Vector::new(a.cos(), a.sin()) }
}

/// a consistent manifold at pose `old`, then a step to a new pose; returns the case args for tuc3
fn gen_tuc3(r: &mut Rng, lat: bool) -> (String, String) {
    let old = d3::gen_iso(r, lat, 4.0);
    let n1 = unit3(r, lat);
    let mut n2 = old.inverse_transform_vector(&-n1);
    let npts = r.below(5) as usize; // 0..4
    let mut pts = Vec::new();
    for _ in 0..npts {
        let p1 = d3::gen_p(r, lat, 3.0);
        let dist = if lat { *r.pick(&[0.0, 0.25, -0.25, 0.5, -0.125, 1.0]) } else { match r.below(4) { 0 => 0.0, 1 => r.uniform(-1e-4, 1e-4), _ => r.uniform(-0.3, 0.3) } };
        let p2 = old.inverse_transform_point(&(p1 + n1 * dist));
        pts.push((p1, p2, dist));
    }
    // the step
    let (newp, thr, dsq) = if lat {
        let step = match r.below(4) {
            0 => d3::Vector::zeros(),
            1 => n1 * *r.pick(&[0.25, -0.25, -0.5, 1.0, -1.0]),                       // along the normal (sign flips / dist==0 ties)
            2 => d3::Vector::new(*r.pick(&[0.0, 0.5, -0.5, 0.25]), *r.pick(&[0.0, 0.5, -0.25]), *r.pick(&[0.0, 0.5, 1.0])),
            _ => d3::gen_v(r, true, 1.0) * 0.125,
        };
        let mut np = old; np.translation.vector += step;
        if r.below(6) == 0 { // exact 90°-type rotation change
            let q = d3::gen_quat(r, true);
            np.rotation = d3::na::Unit::new_unchecked(d3::na::Quaternion::new(q[3], q[0], q[1], q[2]));
        }
        (np, *r.pick(&[1.0, 0.5, 0.0, -1.0, 0.99984769515]), *r.pick(&[0.25, 0.0625, 1.0, 0.5, 1.0e-6, 0.0]))
    } else {
        let tscale = *r.pick(&[0.0, 1e-5, 3e-4, 1e-3, 3e-3, 0.1]);
        let ang = *r.pick(&[0.0, 1e-4, 5e-3, 0.0174, 0.0175, 0.05]);
        let dq = small_quat(r, ang);
        let mut np = old;
        np.rotation = dq * old.rotation;
        np.translation.vector += d3::Vector::new(r.uniform(-1.0, 1.0), r.uniform(-1.0, 1.0), r.uniform(-1.0, 1.0)) * tscale;
        (np, 0.99984769515, *r.pick(&[1.0e-6, 1.0e-6, 1.0e-4, 1.0e-8]))
    };
    if r.below(12) == 0 { n2 = -n2; }               // inconsistent normals: angle test must reject
    if r.below(12) == 0 { n2 = n2 * 1.5; }          // non-unit n2
    let n1x = if r.below(12) == 0 { n1 * 2.0 } else { n1 };   // non-unit n1 (bit-exactness only; oracle skips the identity)
    let args = format!("{} {}", d3::hiso(&newp), hman3(&n1x, &n2, &pts));
    if r.below(3) == 0 { ("tuc3_default".into(), args) } else { ("tuc3".into(), format!("{} {} {}", args, hx(thr), hx(dsq))) }
}

fn gen_tuc2(r: &mut Rng, lat: bool) -> (String, String) {
    let old = d2::gen_iso(r, lat, 4.0);
    let n1 = unit2(r, lat);
    let mut n2 = old.inverse_transform_vector(&-n1);
    let npts = r.below(3) as usize; // 0..2 (ArrayVec capacity 2)
    let mut pts = Vec::new();
    for _ in 0..npts {
        let p1 = d2::gen_p(r, lat, 3.0);
        let dist = if lat { *r.pick(&[0.0, 0.25, -0.25, 0.5, -0.125, 1.0]) } else { match r.below(4) { 0 => 0.0, 1 => r.uniform(-1e-4, 1e-4), _ => r.uniform(-0.3, 0.3) } };
        let p2 = old.inverse_transform_point(&(p1 + n1 * dist));
        pts.push((p1, p2, dist));
    }
    let (newp, thr, dsq) = if lat {
        let step = match r.below(4) {
            0 => d2::Vector::zeros(),
            1 => n1 * *r.pick(&[0.25, -0.25, -0.5, 1.0, -1.0]),
            2 => d2::Vector::new(*r.pick(&[0.0, 0.5, -0.5, 0.25]), *r.pick(&[0.0, 0.5, -0.25])),
            _ => d2::gen_v(r, true, 1.0) * 0.125,
        };
        let mut np = old; np.translation.vector += step;
        if r.below(6) == 0 { let (re, im) = d2::gen_rot(r, true); np.rotation = d2::na::Unit::new_unchecked(d2::na::Complex::new(re, im)); }
        (np, *r.pick(&[1.0, 0.5, 0.0, -1.0, 0.99984769515]), *r.pick(&[0.25, 0.0625, 1.0, 0.5, 1.0e-6, 0.0]))
    } else {
        let tscale = *r.pick(&[0.0, 1e-5, 3e-4, 1e-3, 3e-3, 0.1]);
        let ang: f64 = *r.pick(&[0.0, 1e-4, 5e-3, 0.0174, 0.0175, 0.05]);
        let mut np = old;
        np.rotation = d2::na::UnitComplex::new(ang) * old.rotation;
        np.translation.vector += d2::Vector::new(r.uniform(-1.0, 1.0), r.uniform(-1.0, 1.0)) * tscale;
        (np, 0.99984769515, *r.pick(&[1.0e-6, 1.0e-6, 1.0e-4, 1.0e-8]))
    };
    if r.below(12) == 0 { n2 = -n2; }
    if r.below(12) == 0 { n2 = n2 * 1.5; }
    let n1x = if r.below(12) == 0 { n1 * 2.0 } else { n1 };
    let args = format!("{} {}", d2::hiso(&newp), hman2(&n1x, &n2, &pts));
    if r.below(3) == 0 { ("tuc2_default".into(), args) } else { ("tuc2".into(), format!("{} {} {}", args, hx(thr), hx(dsq))) }
}


fn gen_bb3(r: &mut Rng, lat: bool) -> (String, String) {
    let r1 = r.pos_extent(lat); let r2 = r.pos_extent(lat);
    let q = d3::gen_quat(r, lat);
    let dir = unit3(r, lat);
    let gap = if lat { *r.pick(&[0.0, 0.25, -0.25, 0.5, 1.0, -100.0]) } else { match r.below(4) { 0 => r.uniform(-1e-6, 1e-6), 1 => r.uniform(-0.5, 0.5) * (r1 + r2), _ => r.uniform(-0.1, 0.3) } };
    let t = if gap == -100.0 { d3::Vector::zeros() } else { dir * (r1 + r2 + gap) };
    let p = d3::Isometry::from_parts(d3::na::Translation3::from(t), d3::na::Unit::new_unchecked(d3::na::Quaternion::new(q[3], q[0], q[1], q[2])));
    let pred = if lat { *r.pick(&[0.0, 0.25, 0.5]) } else { *r.pick(&[0.0, 1e-3, 0.05, 0.2]) };
    // prior manifold: empty, one stale point, or several stale points
    let npts = *r.pick(&[0usize, 0, 1, 1, 2, 3]);
    let pts: Vec<_> = (0..npts).map(|_| (d3::gen_p(r, lat, 2.0), d3::gen_p(r, lat, 2.0), r.coord(lat, 1.0))).collect();
    ("bb3".into(), format!("{} {} {} {} {}", d3::hiso(&p), hx(r1), hx(r2), hx(pred), hman3(&unit3(r, lat), &unit3(r, lat), &pts)))
}

/// a pose sequence: small steps, medium steps, jumps to separation and returns near the base pose
fn gen_poses3(r: &mut Rng, lat: bool, base: d3::Isometry<f64>, scale: f64, n: usize) -> Vec<d3::Isometry<f64>> {
    let mut v = vec![base];
    let mut cur = base;
    for _ in 1..n {
        let k = r.below(20);
        if lat {
            if k < 11 { cur.translation.vector += d3::gen_v(r, true, 1.0) * 0.03125; }
            else if k < 14 { cur.translation.vector += d3::gen_v(r, true, 1.0) * 0.25;
                let q = d3::gen_quat(r, true); cur.rotation = d3::na::Unit::new_unchecked(d3::na::Quaternion::new(q[3], q[0], q[1], q[2])); }
            else if k < 16 { cur.translation.vector += unit3(r, true) * (64.0 * scale); }     // separation
            else if k < 19 { cur = base; cur.translation.vector += d3::gen_v(r, true, 1.0) * 0.0625; }   // re-contact
            else { /* same pose again */ }
        } else {
            if k < 11 { let s = r.logu(1e-5, 3e-2) * scale;
                cur.translation.vector += d3::Vector::new(r.uniform(-1.0, 1.0), r.uniform(-1.0, 1.0), r.uniform(-1.0, 1.0)) * s;
                cur.rotation = { let ang = r.uniform(0.0, 0.02); small_quat(r, ang) } * cur.rotation; }
            else if k < 14 { cur.translation.vector += d3::Vector::new(r.uniform(-1.0, 1.0), r.uniform(-1.0, 1.0), r.uniform(-1.0, 1.0)) * (0.3 * scale);
                cur.rotation = { let ang = r.uniform(0.0, 1.0); small_quat(r, ang) } * cur.rotation; }
            else if k < 16 { cur.translation.vector += unit3(r, false) * (r.uniform(5.0, 50.0) * scale); }
            else if k < 19 { cur = base; cur.translation.vector += d3::Vector::new(r.uniform(-1.0, 1.0), r.uniform(-1.0, 1.0), r.uniform(-1.0, 1.0)) * (0.02 * scale);
                cur.rotation = { let ang = r.uniform(0.0, 0.05); small_quat(r, ang) } * cur.rotation; }
            else { }
        }
        v.push(cur);
    }
    v
}

fn gen_seq3(r: &mut Rng, lat: bool, kind: usize, maxposes: usize) -> (String, String) {
    let ball = |r: &mut Rng| d3::Vector::new(r.pos_extent(lat).min(8.0).max(0.05), 0.0, 0.0);
    let cub = |r: &mut Rng| { let h = d3::gen_he(r, lat); d3::Vector::new(h.x.min(8.0).max(0.05), h.y.min(8.0).max(0.05), h.z.min(8.0).max(0.05)) };
    let cap = |r: &mut Rng| d3::Vector::new(r.pos_extent(lat).min(4.0).max(0.05), r.pos_extent(lat).min(2.0).max(0.05), 0.0);
    let hsn = |r: &mut Rng| unit3(r, lat);
    let (a, b) = match kind {
        0 => (ball(r), ball(r)), 1 => (cub(r), ball(r)), 2 => (ball(r), cub(r)),
        3 | 7 => (hsn(r), cub(r)), 4 | 8 => (cub(r), hsn(r)),
        5 => (hsn(r), cap(r)), 6 => (cap(r), hsn(r)),
        9 => (cub(r), cub(r)), _ => (cap(r), cap(r)),
    };
    let e = if kind == 7 || kind == 8 { if lat { *r.pick(&[0.25, 0.5]) } else { r.uniform(0.01, 0.5) } } else { 0.0 };
    let size = |k: usize, v: &d3::Vector<f64>| -> f64 { match k { 0 => v.x, 1 => v.norm(), 2 => 0.0, _ => v.x + v.y } };
    // kind -> (type of shape1, type of shape2): 0 ball 1 cuboid 2 halfspace 3 capsule
    let ty = match kind { 0 => (0, 0), 1 => (1, 0), 2 => (0, 1), 3 | 7 => (2, 1), 4 | 8 => (1, 2), 5 => (2, 3), 6 => (3, 2), 9 => (1, 1), _ => (3, 3) };
    let scale = (size(ty.0, &a) + size(ty.1, &b) + e).max(0.1);
    // base pose: near contact
    let q = d3::gen_quat(r, lat);
    let rot = d3::na::Unit::new_unchecked(d3::na::Quaternion::new(q[3], q[0], q[1], q[2]));
    let t = match kind {
        0 => { let gap = if lat { *r.pick(&[0.0, 0.25, -0.25, -100.0]) } else { r.uniform(-0.3, 0.3) * scale.min(1.0) };
               if gap == -100.0 { d3::Vector::zeros() } else { unit3(r, lat) * (a.x + b.x + gap) } }
        1 => { // ball centre around the cuboid surface (inside, outside, on faces/edges)
               let f = |r: &mut Rng, h: f64| if lat { *r.pick(&[0.0, 1.0, -1.0, 0.5, 1.5, -1.25]) * h } else { r.uniform(-1.4, 1.4) * h };
               let c = d3::Vector::new(f(r, a.x), f(r, a.y), f(r, a.z));
               if r.below(3) == 0 { c + unit3(r, lat) * b.x } else { c } }
        2 => { let f = |r: &mut Rng, h: f64| if lat { *r.pick(&[0.0, 1.0, -1.0, 0.5, 1.5, -1.25]) * h } else { r.uniform(-1.4, 1.4) * h };
               let c = d3::Vector::new(f(r, b.x), f(r, b.y), f(r, b.z));
               // pos12 = cuboid pose in the ball frame; ball centre at `c` in the cuboid frame: t = -R c
               -(rot * c) }
        3 | 5 | 7 => { let h = if lat { *r.pick(&[0.0, 0.25, 0.5, 1.0, -0.25]) } else { r.uniform(-0.3, 1.3) }; a * (h * scale) + d3::gen_v(r, lat, 2.0) * 0.5 }
        4 | 6 | 8 => { let h = if lat { *r.pick(&[0.0, 0.25, 0.5, 1.0, -0.25]) } else { r.uniform(-0.3, 1.3) };
               // halfspace is shape 2: its plane passes through t with normal R b; put it below the cuboid
               -(rot * b) * (h * scale) + d3::gen_v(r, lat, 2.0) * 0.5 }
        _ => unit3(r, lat) * (r.uniform(0.3, 1.1) * scale),
    };
    let base = d3::Isometry::from_parts(d3::na::Translation3::from(t), rot);
    let n = 1 + r.below(maxposes as u64) as usize;
    let poses = gen_poses3(r, lat, base, scale, n);
    let pred = if lat { *r.pick(&[0.0, 0.25, 0.5]) } else { *r.pick(&[0.0, 1e-3, 0.05, 0.2]) * scale.min(2.0) };
    let mut s = format!("{} {} {} {} {} {}", kind, d3::hv(&a), d3::hv(&b), hx(e), hx(pred), n);
    for p in &poses { s += " "; s += &d3::hiso(p); }
    ("seq3".into(), s)
}

/// Compound of balls/cuboids (grid-ish layout) against a moving ball/cuboid
fn gen_comp3(r: &mut Rng, lat: bool, maxposes: usize) -> (String, String) {
    let flipped = r.bool();
    let np = 1 + r.below(7) as usize;
    let s2ball = r.below(4) != 0;
    let mut s = format!("{} {}", b(flipped), np);
    let mut centers = Vec::new();
    for i in 0..np {
        // the model has ball/ball, cuboid/ball, ball/cuboid narrow phases: cuboid parts only against a ball
        let ty = if s2ball && r.below(3) == 0 { 1 } else { 0 };
        let p = if ty == 0 { d3::Vector::new(if lat { *r.pick(&[0.25, 0.5, 1.0]) } else { r.uniform(0.2, 1.0) }, 0.0, 0.0) }
                else { if lat { d3::Vector::new(*r.pick(&[0.25, 0.5, 1.0]), *r.pick(&[0.25, 0.5]), *r.pick(&[0.5, 1.0])) } else { d3::Vector::new(r.uniform(0.2, 1.0), r.uniform(0.2, 1.0), r.uniform(0.2, 1.0)) } };
        let c = if lat { d3::Vector::new((i % 3) as f64 * 1.5, ((i / 3) % 3) as f64 * 1.5, r.range(-1, 1) as f64 * 0.5) }
                else { d3::Vector::new(r.uniform(-3.0, 3.0), r.uniform(-3.0, 3.0), r.uniform(-1.0, 1.0)) };
        centers.push(c);
        let q = d3::gen_quat(r, lat);
        let pose = d3::Isometry::from_parts(d3::na::Translation3::from(c), d3::na::Unit::new_unchecked(d3::na::Quaternion::new(q[3], q[0], q[1], q[2])));
        s += &format!(" {} {} {}", ty, d3::hv(&p), d3::hiso(&pose));
    }
    let q2 = if s2ball { d3::Vector::new(if lat { *r.pick(&[0.5, 1.0, 2.0]) } else { r.uniform(0.3, 2.0) }, 0.0, 0.0) }
             else { if lat { d3::Vector::new(*r.pick(&[0.5, 1.0]), *r.pick(&[0.5, 2.0]), 0.5) } else { d3::Vector::new(r.uniform(0.3, 2.0), r.uniform(0.3, 2.0), r.uniform(0.3, 1.0)) } };
    let pred = if lat { *r.pick(&[0.0, 0.25, 0.5]) } else { *r.pick(&[0.0, 0.01, 0.1, 0.4]) };
    s += &format!(" {} {} {}", if s2ball { 0 } else { 1 }, d3::hv(&q2), hx(pred));
    // the other shape wanders over the parts: world frame = compound frame; pose of `other` in it
    let n = 2 + r.below(maxposes as u64 - 1) as usize;
    let mut cur = { let c = *r.pick(&centers); let q = d3::gen_quat(r, lat);
        d3::Isometry::from_parts(d3::na::Translation3::from(c + d3::Vector::new(0.0, 0.0, if lat { 1.0 } else { r.uniform(0.5, 1.5) })), d3::na::Unit::new_unchecked(d3::na::Quaternion::new(q[3], q[0], q[1], q[2]))) };
    let mut poses = Vec::new();
    for _ in 0..n {
        poses.push(if flipped { cur.inverse() } else { cur });
        let k = r.below(10);
        if k < 5 { cur.translation.vector += if lat { d3::gen_v(r, true, 1.0) * 0.125 } else { d3::Vector::new(r.uniform(-1.0, 1.0), r.uniform(-1.0, 1.0), r.uniform(-1.0, 1.0)) * 0.3 };
                   if !lat { let ang = r.uniform(0.0, 0.3); cur.rotation = small_quat(r, ang) * cur.rotation; } }
        else if k < 8 { let c = *r.pick(&centers); cur.translation.vector = c + if lat { d3::gen_v(r, true, 1.0) * 0.25 } else { d3::Vector::new(r.uniform(-1.0, 1.0), r.uniform(-1.0, 1.0), r.uniform(-1.0, 1.0)) }; }
        else if k < 9 { cur.translation.vector += d3::Vector::new(0.0, 0.0, 50.0); }       // separation
        else { }
    }
    // with exact arithmetic in mind the lattice poses use exact rotations only when not flipped (inverse() is exact there too)
    s += &format!(" {}", n);
    for p in &poses { s += " "; s += &d3::hiso(p); }
    ("comp3".into(), s)
}

/// a height-field-like triangle mesh (grid, with jitter) against a moving ball/cuboid: bookkeeping oracle only
fn gen_tm3(r: &mut Rng, lat: bool, maxposes: usize) -> (String, String) {
    let flipped = r.bool();
    let nx = 2 + r.below(3) as usize; let nz = 2 + r.below(3) as usize;
    let mut vs = Vec::new();
    for i in 0..=nx { for j in 0..=nz {
        let y = if lat { r.range(-1, 1) as f64 * 0.25 } else { r.uniform(-0.3, 0.3) };
        vs.push(d3::Point::new(i as f64, y, j as f64));
    } }
    let mut ts = Vec::new();
    for i in 0..nx { for j in 0..nz {
        let v = |a: usize, c: usize| (a * (nz + 1) + c) as u32;
        ts.push([v(i, j), v(i, j + 1), v(i + 1, j)]);
        ts.push([v(i + 1, j), v(i, j + 1), v(i + 1, j + 1)]);
    } }
    let mut s = format!("{} {}", b(flipped), vs.len());
    for v in &vs { s += " "; s += &d3::hp(v); }
    s += &format!(" {}", ts.len());
    for t in &ts { s += &format!(" {} {} {}", t[0], t[1], t[2]); }
    let s2ball = r.bool();
    let q2 = if s2ball { d3::Vector::new(if lat { *r.pick(&[0.25, 0.5, 1.0]) } else { r.uniform(0.2, 1.2) }, 0.0, 0.0) }
             else { if lat { d3::Vector::new(0.5, 0.25, 0.5) } else { d3::Vector::new(r.uniform(0.2, 1.0), r.uniform(0.2, 1.0), r.uniform(0.2, 1.0)) } };
    let pred = if lat { *r.pick(&[0.0, 0.25]) } else { *r.pick(&[0.0, 0.01, 0.1]) };
    s += &format!(" {} {} {}", if s2ball { 0 } else { 1 }, d3::hv(&q2), hx(pred));
    let n = 2 + r.below(maxposes as u64 - 1) as usize;
    let q = d3::gen_quat(r, lat);
    let mut cur = d3::Isometry::from_parts(d3::na::Translation3::new(r.below(nx as u64 + 1) as f64, if lat { 0.5 } else { r.uniform(0.0, 1.0) }, r.below(nz as u64 + 1) as f64),
        d3::na::Unit::new_unchecked(d3::na::Quaternion::new(q[3], q[0], q[1], q[2])));
    let mut poses = Vec::new();
    for _ in 0..n {
        poses.push(if flipped { cur.inverse() } else { cur });
        let k = r.below(10);
        if k < 6 { cur.translation.vector += if lat { d3::gen_v(r, true, 1.0) * 0.03125 } else { d3::Vector::new(r.uniform(-1.0, 1.0), r.uniform(-0.3, 0.3), r.uniform(-1.0, 1.0)) * *r.pick(&[0.01, 0.1, 0.5]) }; }
        else if k < 8 { cur.translation.vector = d3::Vector::new(r.uniform(0.0, nx as f64), r.uniform(0.0, 1.0), r.uniform(0.0, nz as f64)); }
        else if k < 9 { cur.translation.vector.y += 40.0; }
        else { }
    }
    s += &format!(" {}", n);
    for p in &poses { s += " "; s += &d3::hiso(p); }
    ("tm3".into(), s)
}

fn gen_seq2(r: &mut Rng, lat: bool, kind: usize, maxposes: usize) -> (String, String) {
    let ball = |r: &mut Rng| d2::Vector::new(r.pos_extent(lat).min(8.0).max(0.05), 0.0);
    let cub = |r: &mut Rng| { let h = d2::gen_he(r, lat); d2::Vector::new(h.x.min(8.0).max(0.05), h.y.min(8.0).max(0.05)) };
    let (a, b) = match kind { 0 => (ball(r), ball(r)), 1 => (cub(r), ball(r)), 2 => (ball(r), cub(r)), 3 => (unit2(r, lat), cub(r)), _ => (cub(r), unit2(r, lat)) };
    let scale = match kind { 0 => a.x + b.x, 1 => a.norm() + b.x, 2 => a.x + b.norm(), 3 => b.norm(), _ => a.norm() }.max(0.1);
    let (re, im) = d2::gen_rot(r, lat);
    let rot = d2::na::Unit::new_unchecked(d2::na::Complex::new(re, im));
    let f = |r: &mut Rng, h: f64| if lat { *r.pick(&[0.0, 1.0, -1.0, 0.5, 1.5, -1.25]) * h } else { r.uniform(-1.4, 1.4) * h };
    let t = match kind {
        0 => { let gap = if lat { *r.pick(&[0.0, 0.25, -0.25, -100.0]) } else { r.uniform(-0.3, 0.3) * scale.min(1.0) };
               if gap == -100.0 { d2::Vector::zeros() } else { unit2(r, lat) * (a.x + b.x + gap) } }
        1 => { let c = d2::Vector::new(f(r, a.x), f(r, a.y)); if r.below(3) == 0 { c + unit2(r, lat) * b.x } else { c } }
        2 => { let c = d2::Vector::new(f(r, b.x), f(r, b.y)); -(rot * c) }
        3 => { let h = if lat { *r.pick(&[0.0, 0.25, 0.5, 1.0, -0.25]) } else { r.uniform(-0.3, 1.3) }; a * (h * scale) + d2::gen_v(r, lat, 2.0) * 0.5 }
        _ => { let h = if lat { *r.pick(&[0.0, 0.25, 0.5, 1.0, -0.25]) } else { r.uniform(-0.3, 1.3) }; -(rot * b) * (h * scale) + d2::gen_v(r, lat, 2.0) * 0.5 }
    };
    let base = d2::Isometry::from_parts(d2::na::Translation2::from(t), rot);
    let n = 1 + r.below(maxposes as u64) as usize;
    let mut poses = vec![base];
    let mut cur = base;
    for _ in 1..n {
        let k = r.below(20);
        if lat {
            if k < 11 { cur.translation.vector += d2::gen_v(r, true, 1.0) * 0.03125; }
            else if k < 14 { cur.translation.vector += d2::gen_v(r, true, 1.0) * 0.25; let (re, im) = d2::gen_rot(r, true); cur.rotation = d2::na::Unit::new_unchecked(d2::na::Complex::new(re, im)); }
            else if k < 16 { cur.translation.vector += unit2(r, true) * (64.0 * scale); }
            else if k < 19 { cur = base; cur.translation.vector += d2::gen_v(r, true, 1.0) * 0.0625; }
        } else {
            if k < 11 { let s = r.logu(1e-5, 3e-2) * scale; cur.translation.vector += d2::Vector::new(r.uniform(-1.0, 1.0), r.uniform(-1.0, 1.0)) * s;
                cur.rotation = d2::na::UnitComplex::new(r.uniform(-0.02, 0.02)) * cur.rotation; }
            else if k < 14 { cur.translation.vector += d2::Vector::new(r.uniform(-1.0, 1.0), r.uniform(-1.0, 1.0)) * (0.3 * scale);
                cur.rotation = d2::na::UnitComplex::new(r.uniform(-1.0, 1.0)) * cur.rotation; }
            else if k < 16 { cur.translation.vector += unit2(r, false) * (r.uniform(5.0, 50.0) * scale); }
            else if k < 19 { cur = base; cur.translation.vector += d2::Vector::new(r.uniform(-1.0, 1.0), r.uniform(-1.0, 1.0)) * (0.02 * scale); }
        }
        poses.push(cur);
    }
    let pred = if lat { *r.pick(&[0.0, 0.25, 0.5]) } else { *r.pick(&[0.0, 1e-3, 0.05, 0.2]) * scale.min(2.0) };
    let mut s = format!("{} {} {} {} {}", kind, d2::hv(&a), d2::hv(&b), hx(pred), n);
    for p in &poses { s += " "; s += &d2::hiso(p); }
    ("seq2".into(), s)
}

/// warm start decided by the ANGLE test alone: a consistent manifold whose contacts lie within a few millimetres of a pivot,
/// then a rotation of 0.5..6 degrees about that pivot (axis perpendicular to the normal, or general), swept finely and
/// clustered around the documented 1 degree; lever arms are so small that no contact moves by 1e-3.
fn gen_tuc_angle3(r: &mut Rng, it: usize) -> (String, String) {
    let old = d3::gen_iso(r, it % 4 == 0, 4.0);
    let n1 = unit3(r, it % 4 == 0);
    let n2 = old.inverse_transform_vector(&-n1);
    let c = d3::gen_p(r, false, 3.0);
    let rho = r.logu(1e-4, 4e-3);
    let npts = 1 + r.below(4) as usize;
    let mut pts = Vec::new();
    for _ in 0..npts {
        let off = d3::Vector::new(r.uniform(-1.0, 1.0), r.uniform(-1.0, 1.0), r.uniform(-1.0, 1.0)) * rho;
        let off = off - n1 * off.dot(&n1);                     // contacts in the plane through the pivot
        let p1 = c + off;
        let dist = match r.below(6) { 0 => 0.0, 1 => r.uniform(-1e-5, 1e-5), _ => r.logu(1e-3, 1e-2) * if r.bool() { -1.0 } else { 1.0 } };
        let p2 = old.inverse_transform_point(&(p1 + n1 * dist));
        pts.push((p1, p2, dist));
    }
    let deg = match it % 5 {
        0 => 1.0 + r.uniform(-1.0, 1.0) * *r.pick(&[1e-9, 1e-6, 1e-4, 1e-2]),    // around the documented bound
        1 => r.uniform(0.5, 1.5),
        _ => r.uniform(0.5, 6.0),
    };
    let axis = { let v = unit3(r, false); if r.below(4) == 0 { v } else { let w = v - n1 * v.dot(&n1); if w.norm() > 0.1 { w.normalize() } else { v } } };
    let rot = d3::na::UnitQuaternion::from_axis_angle(&d3::na::Unit::new_normalize(axis), deg.to_radians());
    // rotation about the pivot `c` (frame of shape 1) applied to shape 2
    let pivot = d3::Isometry::from_parts(d3::na::Translation3::from(c.coords - rot * c.coords), rot);
    let newp = pivot * old;
    ("tuc3_default".into(), format!("{} {}", d3::hiso(&newp), hman3(&n1, &n2, &pts)))
}
fn gen_tuc_angle2(r: &mut Rng, it: usize) -> (String, String) {
    let old = d2::gen_iso(r, it % 4 == 0, 4.0);
    let n1 = unit2(r, it % 4 == 0);
    let n2 = old.inverse_transform_vector(&-n1);
    let c = d2::gen_p(r, false, 3.0);
    let rho = r.logu(1e-4, 4e-3);
    let tan = d2::Vector::new(-n1.y, n1.x);
    let npts = 1 + r.below(2) as usize;
    let mut pts = Vec::new();
    for _ in 0..npts {
        let p1 = c + tan * (r.uniform(-1.0, 1.0) * rho);
        let dist = match r.below(6) { 0 => 0.0, 1 => r.uniform(-1e-5, 1e-5), _ => r.logu(1e-3, 1e-2) * if r.bool() { -1.0 } else { 1.0 } };
        let p2 = old.inverse_transform_point(&(p1 + n1 * dist));
        pts.push((p1, p2, dist));
    }
    let deg = match it % 5 {
        0 => 1.0 + r.uniform(-1.0, 1.0) * *r.pick(&[1e-9, 1e-6, 1e-4, 1e-2]),
        1 => r.uniform(0.5, 1.5),
        _ => r.uniform(0.5, 6.0),
    } * if r.bool() { -1.0 } else { 1.0 };
    let rot = d2::na::UnitComplex::new(deg.to_radians());
    let pivot = d2::Isometry::from_parts(d2::na::Translation2::from(c.coords - rot * c.coords), rot);
    let newp = pivot * old;
    ("tuc2_default".into(), format!("{} {}", d2::hiso(&newp), hman2(&n1, &n2, &pts)))
}

/// millimetre-sized cuboid / triangle resting (slightly penetrating) on a face of a unit-size cuboid and tilting by
/// 0.5..5 degrees per call about its own centre; both argument orders
fn gen_seq3t(r: &mut Rng, kind: usize, maxposes: usize) -> (String, String) {
    let hb = d3::Vector::new(r.uniform(0.5, 2.0), r.uniform(0.5, 2.0), r.uniform(0.5, 2.0));
    let ht = d3::Vector::new(r.logu(1e-3, 1e-2), r.logu(1e-3, 1e-2), r.logu(1e-3, 1e-2));
    let k = r.below(3) as usize; let sgn = if r.bool() { 1.0 } else { -1.0 };
    let (i, j) = ((k + 1) % 3, (k + 2) % 3);
    // the tiny shape in its own frame: a cuboid, or a triangle lying in the plane through its origin perpendicular to axis k
    let mut tiny = [0.0f64; 9];
    let thick = if kind < 2 { tiny[0] = ht.x; tiny[1] = ht.y; tiny[2] = ht.z; ht[k] } else {
        for v in 0..3 { let ang = r.uniform(0.0, 2.0) + 2.1 * v as f64; tiny[3 * v + i] = ht[i] * ang.cos(); tiny[3 * v + j] = ht[j] * ang.sin(); }
        0.0 };
    let pen = r.uniform(0.05, 0.3) * ht[i].min(ht[j]).min(if kind < 2 { ht[k] } else { 1.0 });
    let mut c = d3::Vector::zeros();
    c[k] = sgn * (hb[k] + thick - pen);
    c[i] = r.uniform(-0.8, 0.8) * hb[i]; c[j] = r.uniform(-0.8, 0.8) * hb[j];
    let n = 2 + r.below(maxposes as u64 - 1) as usize;
    let axis = { let mut v = unit3(r, false); if r.below(4) != 0 { v[k] = 0.0; } if v.norm() < 0.1 { v = d3::Vector::zeros(); v[i] = 1.0; } v.normalize() };
    let mut deg = 0.0f64;
    let mut s = format!("{} {} {} {}", kind, d3::hv(&hb), hxs(tiny.iter()), hx(if r.bool() { 0.0 } else { r.logu(1e-4, 1e-2) }));
    s += &format!(" {}", n);
    for _ in 0..n {
        let pose = d3::Isometry::from_parts(d3::na::Translation3::from(c), d3::na::UnitQuaternion::from_axis_angle(&d3::na::Unit::new_normalize(axis), deg.to_radians()));
        let p12 = if kind % 2 == 0 { pose } else { pose.inverse() };
        s += " "; s += &d3::hiso(&p12);
        let step = match r.below(8) { 0 => 0.0, 1 => r.uniform(0.0, 0.9), _ => r.uniform(0.5, 5.0) } * if r.bool() { 1.0 } else { -1.0 };
        deg += step;
        if deg.abs() > 12.0 { deg = 0.0; }
        if r.below(10) == 0 { c[i] += r.uniform(-1.0, 1.0) * 3e-4; c[k] += r.uniform(-1.0, 1.0) * pen * 0.2; }   // sub-threshold slide
    }
    ("seq3t".into(), s)
}
fn gen_seq2t(r: &mut Rng, kind: usize, maxposes: usize) -> (String, String) {
    let hb = d2::Vector::new(r.uniform(0.5, 2.0), r.uniform(0.5, 2.0));
    let ht = d2::Vector::new(r.logu(1e-3, 1e-2), r.logu(1e-3, 1e-2));
    let k = r.below(2) as usize; let i = 1 - k; let sgn = if r.bool() { 1.0 } else { -1.0 };
    let mut tiny = [0.0f64; 6];
    let thick = if kind < 2 { tiny[0] = ht.x; tiny[1] = ht.y; ht[k] } else {
        // a triangle with one edge flat on the face (in the line through its origin) and the apex away from the big cuboid
        tiny[0 + i] = ht[i]; tiny[2 + i] = -ht[i]; tiny[4 + k] = sgn * ht[k]; tiny[4 + i] = r.uniform(-0.5, 0.5) * ht[i];
        0.0 };
    let pen = r.uniform(0.05, 0.3) * ht[i].min(ht[k]);
    let mut c = d2::Vector::zeros();
    c[k] = sgn * (hb[k] + thick - pen); c[i] = r.uniform(-0.8, 0.8) * hb[i];
    let n = 2 + r.below(maxposes as u64 - 1) as usize;
    let mut deg = 0.0f64;
    let mut s = format!("{} {} {} {} {}", kind, d2::hv(&hb), hxs(tiny.iter()), hx(if r.bool() { 0.0 } else { r.logu(1e-4, 1e-2) }), n);
    for _ in 0..n {
        let pose = d2::Isometry::from_parts(d2::na::Translation2::from(c), d2::na::UnitComplex::new(deg.to_radians()));
        let p12 = if kind % 2 == 0 { pose } else { pose.inverse() };
        s += " "; s += &d2::hiso(&p12);
        let step = match r.below(8) { 0 => 0.0, 1 => r.uniform(0.0, 0.9), _ => r.uniform(0.5, 5.0) } * if r.bool() { 1.0 } else { -1.0 };
        deg += step;
        if deg.abs() > 12.0 { deg = 0.0; }
        if r.below(10) == 0 { c[i] += r.uniform(-1.0, 1.0) * 3e-4; }
    }
    ("seq2t".into(), s)
}

/// 2-D capsule/capsule, structured families (all built in the frame of capsule 1, then capsule 2 is pulled back through `pos12`):
/// fam 0  axes (anti)parallel up to a tilt of either sign, 1e-9 .. 0.45 rad (the two-contact branch switches off at 22.5°), any
///        lengthwise overlap (contained, partial at either end, end to end, disjoint), either side, gaps from deep penetration to
///        beyond the prediction;  fam 1  tilt exactly 0 (incl. collinear axes);  fam 2  unrelated segments;
/// fam 3  degenerate: point-like axes, zero radii, tilt at the 22.5° switch, lengthwise offsets that put the normal at the
///        `sin(pi/8)` switch.
fn gen_cc2(r: &mut Rng, lat: bool, fam: usize) -> (String, String) {
    let pos12 = d2::gen_iso(r, lat, 4.0);
    let rad = |r: &mut Rng| if lat { *r.pick(&[0.0, 0.25, 0.5, 1.0]) } else { match r.below(5) { 0 => 0.0, _ => r.logu(1e-2, 3.0) } };
    let (r1, r2) = (rad(r), rad(r));
    let u = unit2(r, lat);
    let v = d2::Vector::new(-u.y, u.x);
    let c1 = d2::gen_v(r, lat, 3.0);
    let h1 = if lat { *r.pick(&[0.5, 1.0, 2.0, 4.0]) } else { r.logu(5e-2, 20.0) };
    let h2 = if lat { *r.pick(&[0.5, 1.0, 2.0, 4.0]) } else { h1 * r.logu(0.1, 10.0) };
    let (mut a1, mut b1) = (c1 - u * h1, c1 + u * h1);
    let pred = if lat { *r.pick(&[0.0, 0.25, 0.5]) } else { *r.pick(&[0.0, 1e-3, 0.05, 0.2]) * (h1 + h2 + r1 + r2).min(2.0) };
    let (a2w, b2w);
    if fam == 2 {
        let c2 = c1 + d2::gen_v(r, lat, 1.0) * (0.6 * (h1 + h2 + r1 + r2));
        let w = unit2(r, lat);
        a2w = c2 - w * h2; b2w = c2 + w * h2;
    } else {
        // direction of axis 2: `u` tilted
        let w = if fam == 1 { u } else if lat {
            u + v * *r.pick(&[0.0625, -0.0625, 0.125, -0.125, 0.25, -0.25, 0.5, -0.5, 0.015625, -0.015625])      // exact slopes
        } else {
            let t = match if fam == 3 { 5 } else { r.below(5) } {
                0 => r.logu(1e-9, 1e-4), 1 | 2 => r.logu(1e-3, 0.39), 3 => r.uniform(0.0, 0.45),
                4 => std::f64::consts::FRAC_PI_8 + r.uniform(-1.0, 1.0) * *r.pick(&[1e-12, 1e-9, 1e-6, 1e-3]),
                _ => *r.pick(&[0.0, 0.1, std::f64::consts::FRAC_PI_8]) + r.uniform(-1.0, 1.0) * 1e-3 } * if r.bool() { 1.0 } else { -1.0 };
            u * t.cos() + v * t.sin()
        };
        let w = if r.bool() { w } else { -w };                        // anti-parallel
        // lengthwise offset of the centres, in units of h1 + h2
        let s = if lat { *r.pick(&[0.0, 0.25, -0.25, 0.5, -0.5, 1.0, -1.0, 1.25, -1.25]) } else {
            match r.below(6) { 0 => 0.0, 1 => if r.bool() { 1.0 } else { -1.0 }, 2 => r.uniform(-1.5, 1.5), _ => r.uniform(-1.0, 1.0) } };
        let side = if r.bool() { 1.0 } else { -1.0 };
        let gap = if lat { *r.pick(&[0.0, 0.25, -0.25, 0.5, 1.0]) } else {
            match r.below(6) { 0 => r.uniform(-1e-6, 1e-6), 1 => pred + r.uniform(-1e-3, 1e-3), 2 => r.uniform(0.0, 1.5) * (pred + 0.05),
                               _ => r.uniform(-0.9, 0.3) * (r1 + r2).max(0.05) } };
        // fam 3 (random half): slide capsule 2 past the end of capsule 1 so that the normal leans towards the axis
        let lean = if fam == 3 && !lat && r.bool() { r.uniform(0.0, 1.2) * (r1 + r2 + gap).abs().max(0.05) } else { 0.0 };
        let lift = if fam == 1 && r.below(4) == 0 { 0.0 } else { r1 + r2 + gap };                 // collinear axes
        let c2 = c1 + u * (s * (h1 + h2) + s.signum() * lean) + v * (side * lift);
        a2w = c2 - w * h2; b2w = c2 + w * h2;
    }
    let (mut a2w, mut b2w) = (a2w, b2w);
    if fam == 3 {
        match r.below(4) { 0 => { b1 = a1; } 1 => { b2w = a2w; } 2 => { b1 = a1; b2w = a2w; } _ => {} }
        if !lat && r.below(4) == 0 { let e = d2::Vector::new(r.uniform(-1.0, 1.0), r.uniform(-1.0, 1.0)) * *r.pick(&[1e-9, 1e-8, 3e-8]); b1 = a1 + e; }
    }
    if r.below(8) == 0 { std::mem::swap(&mut a1, &mut b1); }
    if r.below(8) == 0 { std::mem::swap(&mut a2w, &mut b2w); }
    let a2 = pos12.inverse_transform_point(&d2::Point::from(a2w));
    let b2 = pos12.inverse_transform_point(&d2::Point::from(b2w));
    // prior manifold: empty or stale
    let npts = *r.pick(&[0usize, 0, 1, 2]);
    let pts: Vec<_> = (0..npts).map(|_| (d2::gen_p(r, lat, 2.0), d2::gen_p(r, lat, 2.0), r.coord(lat, 1.0))).collect();
    ("cc2".into(), format!("{} {} {} {} {} {} {} {} {}", d2::hiso(&pos12), d2::hp(&d2::Point::from(a1)), d2::hp(&d2::Point::from(b1)), hx(r1),
        d2::hp(&a2), d2::hp(&b2), hx(r2), hx(pred), hman2(&unit2(r, lat), &unit2(r, lat), &pts)))
}

/// 2-D capsule_y on capsule_y through the dispatcher: capsule 2 lies along capsule 1 (side by side) and rocks by a few degrees of
/// either sign about the parallel position, slides lengthwise, separates and comes back.
fn gen_seq2_cc(r: &mut Rng, lat: bool, maxposes: usize) -> (String, String) {
    let cap = |r: &mut Rng| d2::Vector::new(if lat { *r.pick(&[0.5, 1.0, 2.0]) } else { r.logu(0.1, 4.0) }, if lat { *r.pick(&[0.25, 0.5]) } else { r.logu(0.02, 1.0) });
    let (a, b) = (cap(r), cap(r));
    let n = 1 + r.below(maxposes as u64) as usize;
    let side = if r.bool() { 1.0 } else { -1.0 };
    let flip = r.bool();                                // capsule 2 upside down (anti-parallel axes)
    let mut ang = 0.0f64; let mut slide = 0.0f64; let mut gap = if lat { *r.pick(&[0.0, -0.125, 0.125]) } else { r.uniform(-0.5, 0.2) * (a.y + b.y) };
    let pred = if lat { *r.pick(&[0.0, 0.25, 0.5]) } else { *r.pick(&[0.0, 1e-3, 0.05, 0.2]) };
    let mut s = format!("5 {} {} {} {}", d2::hv(&a), d2::hv(&b), hx(pred), n);
    for _ in 0..n {
        let rot = d2::na::UnitComplex::new(ang + if flip { std::f64::consts::PI } else { 0.0 });
        let rot = if lat && ang == 0.0 { d2::na::Unit::new_unchecked(d2::na::Complex::new(if flip { -1.0 } else { 1.0 }, 0.0)) } else { rot };
        let t = d2::Vector::new(side * (a.y + b.y + gap), slide);
        let pose = d2::Isometry::from_parts(d2::na::Translation2::from(t), rot);
        s += " "; s += &d2::hiso(&pose);
        match r.below(10) {
            0 | 1 | 2 | 3 => { ang = if lat { *r.pick(&[0.0, 0.0625, -0.0625, 0.125, -0.125]) } else { r.uniform(-0.3, 0.3) * *r.pick(&[1.0, 0.1, 1e-3]) }; }
            4 | 5 => { slide = if lat { *r.pick(&[0.0, 0.5, -0.5, 1.0, -1.0]) * (a.x + b.x) } else { r.uniform(-1.2, 1.2) * (a.x + b.x) }; }
            6 => { gap = if lat { *r.pick(&[0.0, -0.125, 0.125, 0.5]) } else { r.uniform(-0.5, 0.4) * (a.y + b.y) }; }
            7 => { gap += 40.0; }
            8 => { gap = 0.0; ang = 0.0; }
            _ => {}
        }
        if gap > 20.0 && r.bool() { gap -= 40.0; }
    }
    ("seq2".into(), s)
}

/// 2-D HeightField (its cells are zero-radius capsules) against a ball or a capsule lying along the surface: rocking about the
/// direction of the cell underneath (both tilt signs), sliding over cell boundaries and removed cells, separation / re-contact;
/// both argument orders
fn gen_hf2(r: &mut Rng, lat: bool, maxposes: usize) -> (String, String) {
    let flipped = r.bool();
    let nh = 2 + r.below(6) as usize;
    let hs: Vec<f64> = (0..nh).map(|_| if lat { r.range(-2, 2) as f64 * 0.125 } else { r.uniform(-1.0, 1.0) * *r.pick(&[0.02, 0.2, 1.0]) }).collect();
    let scale = if lat { d2::Vector::new(*r.pick(&[2.0, 4.0, 8.0]), *r.pick(&[1.0, 2.0])) } else { d2::Vector::new(r.uniform(1.0, 10.0), r.uniform(0.5, 3.0)) };
    let ncell = nh - 1;
    let removed: Vec<usize> = if ncell > 2 && r.below(4) == 0 { vec![r.below(ncell as u64) as usize] } else { vec![] };
    let ball = r.below(4) == 0;
    let q = if ball { d2::Vector::new(if lat { *r.pick(&[0.25, 0.5, 1.0]) } else { r.logu(0.05, 2.0) }, 0.0) }
            else { d2::Vector::new(if lat { *r.pick(&[0.5, 1.0, 2.0]) } else { r.logu(0.1, 4.0) }, if lat { *r.pick(&[0.0, 0.25, 0.5]) } else { if r.below(6) == 0 { 0.0 } else { r.logu(0.02, 1.0) } }) };
    let rad = if ball { q.x } else { q.y };
    let pred = if lat { *r.pick(&[0.0, 0.25]) } else { *r.pick(&[0.0, 1e-3, 0.05, 0.2]) };
    let mut s = format!("{} {} {} {} {}", b(flipped), nh, hxs(hs.iter()), d2::hv(&scale), removed.len());
    for i in &removed { s += &format!(" {}", i); }
    s += &format!(" {} {} {}", if ball { 0 } else { 1 }, d2::hv(&q), hx(pred));
    let n = 1 + r.below(maxposes as u64) as usize;
    s += &format!(" {}", n);
    let w = scale.x / ncell as f64;
    let vert = |i: usize| d2::Vector::new((-0.5 + i as f64 / ncell as f64) * scale.x, hs[i] * scale.y);
    let mut cell = r.below(ncell as u64) as usize; let mut fr = 0.5f64; let mut tilt = 0.0f64;
    let mut gap = if lat { *r.pick(&[0.0, -0.125, 0.125]) } else { r.uniform(-0.3, 0.2) * rad.max(0.1) };
    let up = if r.bool() { 1.0 } else { -1.0 };                          // the height field is two-sided
    for _ in 0..n {
        let (p0, p1) = (vert(cell), vert(cell + 1));
        let d = (p1 - p0) / (p1 - p0).norm();
        let nrm = d2::Vector::new(-d.y, d.x) * up;
        let c = p0 + (p1 - p0) * fr + nrm * (rad + gap);
        // capsule_y axis is the y axis: align it with the cell direction, plus the tilt
        let ang = d.y.atan2(d.x) - std::f64::consts::FRAC_PI_2 + tilt;
        let pose = d2::Isometry::from_parts(d2::na::Translation2::from(c), d2::na::UnitComplex::new(ang));
        s += " "; s += &d2::hiso(&if flipped { pose.inverse() } else { pose });
        match r.below(10) {
            0 | 1 | 2 | 3 => { tilt = r.uniform(-0.3, 0.3) * *r.pick(&[1.0, 0.1, 1e-3]); }
            4 | 5 => { fr += r.uniform(-1.0, 1.0) * (q.x / w).min(1.0); while fr > 1.0 && cell + 1 < ncell { fr -= 1.0; cell += 1; } while fr < 0.0 && cell > 0 { fr += 1.0; cell -= 1; } }
            6 => { gap = r.uniform(-0.3, 0.4) * rad.max(0.1); }
            7 => { gap += 40.0; }
            8 => { tilt = 0.0; if r.bool() { tilt = std::f64::consts::PI; } }
            _ => {}
        }
        if gap > 20.0 && r.bool() { gap -= 40.0; }
    }
    ("hf2".into(), s)
}

pub fn gen(r: &mut Rng, thorough: bool) -> Vec<(String, String)> {
    let k = if thorough { 10 } else { 1 };
    let mut v = Vec::new();
    for it in 0..1500 * k {
        let lat = it % 2 == 0;
        v.push(gen_tuc3(r, lat));
        v.push(gen_tuc2(r, lat));
    }
    for it in 0..300 * k {
        let lat = it % 2 == 0;
        let n = r.below(6) as usize;
        let ds: Vec<f64> = (0..n).map(|_| if lat { r.range(-3, 3) as f64 * 0.5 } else { r.uniform(-1.0, 1.0) }).collect();
        v.push(("deepest".into(), format!("{} {}", n, hxs(ds.iter())).trim().to_string()));
        let (_, args) = gen_tuc3(r, lat);
        // reuse the manifold part of a tuc3 case: skip the 7 isometry tokens, drop trailing thresholds if any
        let toks: Vec<&str> = args.split_whitespace().collect();
        let npts: usize = toks[7 + 6].parse().unwrap();
        let mtoks = &toks[7..7 + 7 + 7 * npts];
        v.push(("take3".into(), mtoks.join(" ")));
    }
    for it in 0..400 * k {
        let lat = it % 2 == 0;
        v.push(gen_bb3(r, lat));
    }
    for it in 0..90 * k {
        let lat = it % 2 == 0;
        for kind in 0..9 { v.push(gen_seq3(r, lat, kind, 20)); }
        if it % 2 == 0 { v.push(gen_seq3(r, it % 4 == 0, 10, 20)); }      // 3-D capsule/capsule: closed form, modelled
    }
    for it in 0..250 * k {
        let lat = it % 2 == 0;
        v.push(gen_comp3(r, lat, 20));
        if it % 2 == 0 { v.push(gen_tm3(r, it % 4 == 0, 20)); }
    }
    for it in 0..90 * k {
        let lat = it % 2 == 0;
        for kind in 0..5 { v.push(gen_seq2(r, lat, kind, 20)); }
    }
    for it in 0..60 * k {
        let lat = it % 2 == 0;
        for kind in 9..11 { let (_, a) = gen_seq3(r, lat, kind, 20); v.push(("seq3o".into(), a)); }
    }
    for it in 0..600 * k {
        v.push(gen_tuc_angle3(r, it));
        v.push(gen_tuc_angle2(r, it));
    }
    for _ in 0..40 * k {
        for kind in 0..4 { v.push(gen_seq3t(r, kind, 16)); v.push(gen_seq2t(r, kind, 16)); }
    }
    for it in 0..1200 * k {
        let lat = it % 2 == 0;
        v.push(gen_cc2(r, lat, match it % 8 { 0 | 1 | 2 | 3 => 0, 4 => 1, 5 | 6 => 2, _ => 3 }));
    }
    for it in 0..120 * k {
        v.push(gen_seq2_cc(r, it % 2 == 0, 20));
        v.push(gen_hf2(r, it % 4 == 0, 16));
    }
    v.extend(ext::gen(r, thorough));
    v.extend(y::gen(r, thorough));
    v
}
