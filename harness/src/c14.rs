//! C14: persistent contact manifolds.
use crate::util::*;

type M3 = crate::p3::query::ContactManifold<u32, u32>;
type M2 = crate::p2::query::ContactManifold<u32, u32>;
type C3 = crate::p3::query::TrackedContact<u32>;
type C2 = crate::p2::query::TrackedContact<u32>;

// ---------------------------------------------------------------- manifold I/O
/// manifold: n1 n2 npts (p1 p2 dist)*
fn man3(a: &mut Args) -> M3 {
    let mut m = M3::new();
    m.local_n1 = d3::v(a);
    m.local_n2 = d3::v(a);
    let n = a.u();
    let fid = crate::p3::shape::PackedFeatureId::face(0);
    for _ in 0..n {
        let p1 = d3::p(a); let p2 = d3::p(a); let d = a.f();
        m.points.push(C3::new(p1, p2, fid, fid, d));
    }
    m
}
fn man2(a: &mut Args) -> M2 {
    let mut m = M2::new();
    m.local_n1 = d2::v(a);
    m.local_n2 = d2::v(a);
    let n = a.u();
    let fid = crate::p2::shape::PackedFeatureId::face(0);
    for _ in 0..n {
        let p1 = d2::p(a); let p2 = d2::p(a); let d = a.f();
        m.points.push(C2::new(p1, p2, fid, fid, d));
    }
    m
}
fn fman3(m: &M3) -> String {
    let mut s = format!("{} {} {}", d3::fv(&m.local_n1), d3::fv(&m.local_n2), m.points.len());
    for c in &m.points { s += &format!(" {} {} {}", d3::fp(&c.local_p1), d3::fp(&c.local_p2), ff(c.dist)); }
    s
}
fn fman2(m: &M2) -> String {
    let mut s = format!("{} {} {}", d2::fv(&m.local_n1), d2::fv(&m.local_n2), m.points.len());
    for c in &m.points { s += &format!(" {} {} {}", d2::fp(&c.local_p1), d2::fp(&c.local_p2), ff(c.dist)); }
    s
}
/// hex (input) encoding of a manifold given as raw parts
fn hman3(n1: &d3::Vector<f64>, n2: &d3::Vector<f64>, pts: &[(d3::Point<f64>, d3::Point<f64>, f64)]) -> String {
    let mut s = format!("{} {} {}", d3::hv(n1), d3::hv(n2), pts.len());
    for (p1, p2, d) in pts { s += &format!(" {} {} {}", d3::hp(p1), d3::hp(p2), hx(*d)); }
    s
}
fn hman2(n1: &d2::Vector<f64>, n2: &d2::Vector<f64>, pts: &[(d2::Point<f64>, d2::Point<f64>, f64)]) -> String {
    let mut s = format!("{} {} {}", d2::hv(n1), d2::hv(n2), pts.len());
    for (p1, p2, d) in pts { s += &format!(" {} {} {}", d2::hp(p1), d2::hp(p2), hx(*d)); }
    s
}

// ---------------------------------------------------------------- exec
pub fn exec(func: &str, a: &mut Args) -> String {
    match func {
        "tuc3" => { let p = d3::iso(a); let mut m = man3(a); let t = a.f(); let d = a.f();
            let ok = m.try_update_contacts_eps(&p, t, d); format!("{} {}", b(ok), fman3(&m)) }
        "tuc3_default" => { let p = d3::iso(a); let mut m = man3(a);
            let ok = m.try_update_contacts(&p); format!("{} {}", b(ok), fman3(&m)) }
        "tuc2" => { let p = d2::iso(a); let mut m = man2(a); let t = a.f(); let d = a.f();
            let ok = m.try_update_contacts_eps(&p, t, d); format!("{} {}", b(ok), fman2(&m)) }
        "tuc2_default" => { let p = d2::iso(a); let mut m = man2(a);
            let ok = m.try_update_contacts(&p); format!("{} {}", b(ok), fman2(&m)) }
        "deepest" => { let n = a.u(); let mut m = M3::new();
            let fid = crate::p3::shape::PackedFeatureId::face(0);
            for _ in 0..n { let d = a.f(); m.points.push(C3::new(d3::Point::origin(), d3::Point::origin(), fid, fid, d)); }
            match m.find_deepest_contact() {
                None => "none".into(),
                Some(c) => { let i = m.points.iter().position(|x| std::ptr::eq(x, c)).unwrap(); format!("some {}", i) } } }
        "take3" => { let mut m = man3(a); let r = m.take(); format!("{} {}", fman3(&r), fman3(&m)) }
        _ => "nofn".into(),
    }
}

// ---------------------------------------------------------------- generators
/// small rotation quaternion about a random axis, angle in radians
fn small_quat(r: &mut Rng, ang: f64) -> d3::na::UnitQuaternion<f64> {
    let ax = loop { let v = d3::Vector::new(r.uniform(-1.0, 1.0), r.uniform(-1.0, 1.0), r.uniform(-1.0, 1.0)); if v.norm() > 0.1 { break v; } };
    d3::na::UnitQuaternion::from_axis_angle(&d3::na::Unit::new_normalize(ax), ang)
}
fn unit3(r: &mut Rng, lat: bool) -> d3::Vector<f64> {
    if lat {
        *r.pick(&[d3::Vector::new(1.0, 0.0, 0.0), d3::Vector::new(0.0, -1.0, 0.0), d3::Vector::new(0.0, 0.0, 1.0),
                  d3::Vector::new(0.6, 0.8, 0.0), d3::Vector::new(0.0, -0.6, 0.8), d3::Vector::new(-0.8, 0.0, 0.6)])
    } else {
        loop { let v = d3::Vector::new(r.uniform(-1.0, 1.0), r.uniform(-1.0, 1.0), r.uniform(-1.0, 1.0)); let n = v.norm(); if n > 0.1 && n <= 1.0 { break v / n; } }
    }
}
fn unit2(r: &mut Rng, lat: bool) -> d2::Vector<f64> {
    if lat { *r.pick(&[d2::Vector::new(1.0, 0.0), d2::Vector::new(0.0, -1.0), d2::Vector::new(0.6, 0.8), d2::Vector::new(-0.8, 0.6)]) }
    else { let a = r.uniform(-3.2, 3.2); d2::Vector::new(a.cos(), a.sin()) }
}

/// a consistent manifold at pose `old`, then a step to a new pose; returns the case args for tuc3
fn gen_tuc3(r: &mut Rng, lat: bool) -> (String, String) {
    let old = d3::gen_iso(r, lat, 4.0);
    let n1 = unit3(r, lat);
    let mut n2 = old.inverse_transform_vector(&-n1);
    let npts = r.below(5) as usize; // 0..4
    let mut pts = Vec::new();
    for _ in 0..npts {
        let p1 = d3::gen_p(r, lat, 3.0);
        let dist = if lat { *r.pick(&[0.0, 0.25, -0.25, 0.5, -0.125, 1.0]) } else { match r.below(4) { 0 => 0.0, 1 => r.uniform(-1e-4, 1e-4), _ => r.uniform(-0.3, 0.3) } };
        let p2 = old.inverse_transform_point(&(p1 + n1 * dist));
        pts.push((p1, p2, dist));
    }
    // the step
    let (newp, thr, dsq) = if lat {
        let step = match r.below(4) {
            0 => d3::Vector::zeros(),
            1 => n1 * *r.pick(&[0.25, -0.25, -0.5, 1.0, -1.0]),                       // along the normal (sign flips / dist==0 ties)
            2 => d3::Vector::new(*r.pick(&[0.0, 0.5, -0.5, 0.25]), *r.pick(&[0.0, 0.5, -0.25]), *r.pick(&[0.0, 0.5, 1.0])),
            _ => d3::gen_v(r, true, 1.0) * 0.125,
        };
        let mut np = old; np.translation.vector += step;
        if r.below(6) == 0 { // exact 90°-type rotation change
            let q = d3::gen_quat(r, true);
            np.rotation = d3::na::Unit::new_unchecked(d3::na::Quaternion::new(q[3], q[0], q[1], q[2]));
        }
        (np, *r.pick(&[1.0, 0.5, 0.0, -1.0, 0.99984769515]), *r.pick(&[0.25, 0.0625, 1.0, 0.5, 1.0e-6, 0.0]))
    } else {
        let tscale = *r.pick(&[0.0, 1e-5, 3e-4, 1e-3, 3e-3, 0.1]);
        let ang = *r.pick(&[0.0, 1e-4, 5e-3, 0.0174, 0.0175, 0.05]);
        let dq = small_quat(r, ang);
        let mut np = old;
        np.rotation = dq * old.rotation;
        np.translation.vector += d3::Vector::new(r.uniform(-1.0, 1.0), r.uniform(-1.0, 1.0), r.uniform(-1.0, 1.0)) * tscale;
        (np, 0.99984769515, *r.pick(&[1.0e-6, 1.0e-6, 1.0e-4, 1.0e-8]))
    };
    if r.below(12) == 0 { n2 = -n2; }               // inconsistent normals: angle test must reject
    if r.below(12) == 0 { n2 = n2 * 1.5; }          // non-unit n2
    let n1x = if r.below(12) == 0 { n1 * 2.0 } else { n1 };   // non-unit n1 (bit-exactness only; oracle skips the identity)
    let args = format!("{} {}", d3::hiso(&newp), hman3(&n1x, &n2, &pts));
    if r.below(3) == 0 { ("tuc3_default".into(), args) } else { ("tuc3".into(), format!("{} {} {}", args, hx(thr), hx(dsq))) }
}

fn gen_tuc2(r: &mut Rng, lat: bool) -> (String, String) {
    let old = d2::gen_iso(r, lat, 4.0);
    let n1 = unit2(r, lat);
    let mut n2 = old.inverse_transform_vector(&-n1);
    let npts = r.below(3) as usize; // 0..2 (ArrayVec capacity 2)
    let mut pts = Vec::new();
    for _ in 0..npts {
        let p1 = d2::gen_p(r, lat, 3.0);
        let dist = if lat { *r.pick(&[0.0, 0.25, -0.25, 0.5, -0.125, 1.0]) } else { match r.below(4) { 0 => 0.0, 1 => r.uniform(-1e-4, 1e-4), _ => r.uniform(-0.3, 0.3) } };
        let p2 = old.inverse_transform_point(&(p1 + n1 * dist));
        pts.push((p1, p2, dist));
    }
    let (newp, thr, dsq) = if lat {
        let step = match r.below(4) {
            0 => d2::Vector::zeros(),
            1 => n1 * *r.pick(&[0.25, -0.25, -0.5, 1.0, -1.0]),
            2 => d2::Vector::new(*r.pick(&[0.0, 0.5, -0.5, 0.25]), *r.pick(&[0.0, 0.5, -0.25])),
            _ => d2::gen_v(r, true, 1.0) * 0.125,
        };
        let mut np = old; np.translation.vector += step;
        if r.below(6) == 0 { let (re, im) = d2::gen_rot(r, true); np.rotation = d2::na::Unit::new_unchecked(d2::na::Complex::new(re, im)); }
        (np, *r.pick(&[1.0, 0.5, 0.0, -1.0, 0.99984769515]), *r.pick(&[0.25, 0.0625, 1.0, 0.5, 1.0e-6, 0.0]))
    } else {
        let tscale = *r.pick(&[0.0, 1e-5, 3e-4, 1e-3, 3e-3, 0.1]);
        let ang: f64 = *r.pick(&[0.0, 1e-4, 5e-3, 0.0174, 0.0175, 0.05]);
        let mut np = old;
        np.rotation = d2::na::UnitComplex::new(ang) * old.rotation;
        np.translation.vector += d2::Vector::new(r.uniform(-1.0, 1.0), r.uniform(-1.0, 1.0)) * tscale;
        (np, 0.99984769515, *r.pick(&[1.0e-6, 1.0e-6, 1.0e-4, 1.0e-8]))
    };
    if r.below(12) == 0 { n2 = -n2; }
    if r.below(12) == 0 { n2 = n2 * 1.5; }
    let n1x = if r.below(12) == 0 { n1 * 2.0 } else { n1 };
    let args = format!("{} {}", d2::hiso(&newp), hman2(&n1x, &n2, &pts));
    if r.below(3) == 0 { ("tuc2_default".into(), args) } else { ("tuc2".into(), format!("{} {} {}", args, hx(thr), hx(dsq))) }
}

pub fn gen(r: &mut Rng, thorough: bool) -> Vec<(String, String)> {
    let k = if thorough { 10 } else { 1 };
    let mut v = Vec::new();
    for it in 0..1500 * k {
        let lat = it % 2 == 0;
        v.push(gen_tuc3(r, lat));
        v.push(gen_tuc2(r, lat));
    }
    for it in 0..300 * k {
        let lat = it % 2 == 0;
        let n = r.below(6) as usize;
        let ds: Vec<f64> = (0..n).map(|_| if lat { r.range(-3, 3) as f64 * 0.5 } else { r.uniform(-1.0, 1.0) }).collect();
        v.push(("deepest".into(), format!("{} {}", n, hxs(ds.iter())).trim().to_string()));
        let (_, args) = gen_tuc3(r, lat);
        // reuse the manifold part of a tuc3 case: skip the 7 isometry tokens, drop trailing thresholds if any
        let toks: Vec<&str> = args.split_whitespace().collect();
        let npts: usize = toks[7 + 6].parse().unwrap();
        let mtoks = &toks[7..7 + 7 + 7 * npts];
        v.push(("take3".into(), mtoks.join(" ")));
    }
    v
}
