//! C01: distance / closest points — closed forms, cuboid SAT, and end-to-end `query::distance` / `query::closest_points`.
use crate::util::*;
use std::panic::{catch_unwind, AssertUnwindSafe};

fn quiet<T, F: FnOnce() -> T>(f: F) -> Option<T> { catch_unwind(AssertUnwindSafe(f)).ok() }

// ------------------------------------------------------------------------------------------ 3-D
mod k3 {
    use super::*;
    use crate::p3::na::{self, Unit};
    use crate::p3::math::{Isometry, Point, Real, Vector};
    use crate::p3::query::{self, ClosestPoints, DefaultQueryDispatcher, QueryDispatcher};
    use crate::p3::shape::{Ball, Capsule, Cone, ConvexPolyhedron, Cuboid, Cylinder, HalfSpace, RoundShape, Segment, Shape, Triangle};
    use crate::p3::query::gjk::{GJKResult, VoronoiSimplex};

    pub const KINDS: [&str; 9] = ["ball", "cuboid", "capsule", "segment", "triangle", "cone", "cylinder", "convex", "halfspace"];

    #[derive(Clone, Debug)]
    pub enum Sh {
        Ball(f64), Cuboid(Vector<Real>), Capsule(Point<Real>, Point<Real>, f64), Segment(Point<Real>, Point<Real>),
        Triangle(Point<Real>, Point<Real>, Point<Real>), Cone(f64, f64), Cylinder(f64, f64), Convex(Vec<Point<Real>>),
        Halfspace(Vector<Real>), Round(Box<Sh>, f64),
    }
    impl Sh {
        pub fn tokens(&self) -> String {
            match self {
                Sh::Ball(r) => format!("ball {}", hx(*r)),
                Sh::Cuboid(h) => format!("cuboid {}", d3::hv(h)),
                Sh::Capsule(a, b, r) => format!("capsule {} {} {}", d3::hp(a), d3::hp(b), hx(*r)),
                Sh::Segment(a, b) => format!("segment {} {}", d3::hp(a), d3::hp(b)),
                Sh::Triangle(a, b, c) => format!("triangle {} {} {}", d3::hp(a), d3::hp(b), d3::hp(c)),
                Sh::Cone(h, r) => format!("cone {} {}", hx(*h), hx(*r)),
                Sh::Cylinder(h, r) => format!("cylinder {} {}", hx(*h), hx(*r)),
                Sh::Convex(ps) => format!("convex {} {}", ps.len(), ps.iter().map(d3::hp).collect::<Vec<_>>().join(" ")),
                Sh::Halfspace(n) => format!("halfspace {}", d3::hv(n)),
                Sh::Round(i, r) => format!("round {} {}", i.tokens(), hx(*r)),
            }
        }
        pub fn parse(a: &mut Args) -> Sh {
            match a.tok() {
                "round" => { let i = Sh::parse(a); Sh::Round(Box::new(i), a.f()) }
                "ball" => Sh::Ball(a.f()),
                "cuboid" => Sh::Cuboid(d3::v(a)),
                "capsule" => { let p = d3::p(a); let q = d3::p(a); Sh::Capsule(p, q, a.f()) }
                "segment" => { let p = d3::p(a); let q = d3::p(a); Sh::Segment(p, q) }
                "triangle" => { let p = d3::p(a); let q = d3::p(a); let r = d3::p(a); Sh::Triangle(p, q, r) }
                "cone" => { let h = a.f(); Sh::Cone(h, a.f()) }
                "cylinder" => { let h = a.f(); Sh::Cylinder(h, a.f()) }
                "convex" => { let n = a.u(); Sh::Convex((0..n).map(|_| d3::p(a)).collect()) }
                "halfspace" => Sh::Halfspace(d3::v(a)),
                k => panic!("bad shape kind {}", k),
            }
        }
        pub fn build(&self) -> Box<dyn Shape> {
            match self {
                Sh::Ball(r) => Box::new(Ball::new(*r)),
                Sh::Cuboid(h) => Box::new(Cuboid::new(*h)),
                Sh::Capsule(a, b, r) => Box::new(Capsule::new(*a, *b, *r)),
                Sh::Segment(a, b) => Box::new(Segment::new(*a, *b)),
                Sh::Triangle(a, b, c) => Box::new(Triangle::new(*a, *b, *c)),
                Sh::Cone(h, r) => Box::new(Cone::new(*h, *r)),
                Sh::Cylinder(h, r) => Box::new(Cylinder::new(*h, *r)),
                Sh::Convex(ps) => Box::new(ConvexPolyhedron::from_convex_hull(ps).expect("convex hull")),
                Sh::Halfspace(n) => Box::new(HalfSpace::new(Unit::new_unchecked(*n))),
                Sh::Round(i, r) => match &**i {
                    Sh::Cuboid(h) => Box::new(RoundShape { inner_shape: Cuboid::new(*h), border_radius: *r }),
                    Sh::Triangle(a, b, c) => Box::new(RoundShape { inner_shape: Triangle::new(*a, *b, *c), border_radius: *r }),
                    Sh::Cylinder(h, rr) => Box::new(RoundShape { inner_shape: Cylinder::new(*h, *rr), border_radius: *r }),
                    Sh::Cone(h, rr) => Box::new(RoundShape { inner_shape: Cone::new(*h, *rr), border_radius: *r }),
                    Sh::Convex(ps) => Box::new(RoundShape { inner_shape: ConvexPolyhedron::from_convex_hull(ps).expect("convex hull"), border_radius: *r }),
                    k => panic!("no round variant of {:?}", k),
                },
            }
        }
        /// the same shape with every defining point moved by `v` (centred kinds are returned unchanged)
        pub fn shifted(&self, v: &Vector<Real>) -> Sh {
            match self {
                Sh::Capsule(a, b, r) => Sh::Capsule(a + v, b + v, *r),
                Sh::Segment(a, b) => Sh::Segment(a + v, b + v),
                Sh::Triangle(a, b, c) => Sh::Triangle(a + v, b + v, c + v),
                Sh::Convex(ps) => Sh::Convex(ps.iter().map(|p| p + v).collect()),
                Sh::Round(i, r) => Sh::Round(Box::new(i.shifted(v)), *r),
                k => k.clone(),
            }
        }
        pub fn size(&self) -> f64 {
            match self {
                Sh::Round(i, r) => i.size() + r,
                Sh::Ball(r) => *r, Sh::Cuboid(h) => h.norm(), Sh::Capsule(a, b, r) => a.coords.norm().max(b.coords.norm()) + r,
                Sh::Segment(a, b) => a.coords.norm().max(b.coords.norm()),
                Sh::Triangle(a, b, c) => a.coords.norm().max(b.coords.norm()).max(c.coords.norm()),
                Sh::Cone(h, r) | Sh::Cylinder(h, r) => h.hypot(*r),
                Sh::Convex(ps) => ps.iter().map(|p| p.coords.norm()).fold(0.0, f64::max),
                Sh::Halfspace(_) => 0.5,
            }
        }
    }

    pub fn gen_unit(r: &mut Rng, lat: bool) -> Vector<Real> {
        if lat {
            let c: [[f64; 3]; 6] = [[1.0, 0.0, 0.0], [0.0, 1.0, 0.0], [0.0, 0.0, -1.0], [0.6, 0.8, 0.0], [0.0, -0.6, 0.8], [-0.8, 0.0, 0.6]];
            let v = r.pick(&c); Vector::new(v[0], v[1], v[2])
        } else {
            loop {
                let v = Vector::new(r.uniform(-1.0, 1.0), r.uniform(-1.0, 1.0), r.uniform(-1.0, 1.0));
                let n = v.norm();
                if n > 0.1 && n <= 1.0 { return v / n; }
            }
        }
    }

    pub fn gen_shape(r: &mut Rng, kind: &str, lat: bool) -> Sh {
        let ext = |r: &mut Rng| if lat { *r.pick(&[0.25, 0.5, 1.0, 1.5, 2.0, 3.0]) } else { r.logu(0.05, 20.0) };
        let s = if lat { 2.0 } else { r.logu(0.1, 10.0) };
        let pt = |r: &mut Rng| if lat { Point::new(r.lattice(8, 1), r.lattice(8, 1), r.lattice(8, 1)) }
                               else { Point::new(r.uniform(-s, s), r.uniform(-s, s), r.uniform(-s, s)) };
        match kind {
            "ball" => Sh::Ball(ext(r)),
            "cuboid" => Sh::Cuboid(Vector::new(ext(r), ext(r), ext(r))),
            "capsule" => loop { let a = pt(r); let b = pt(r); if (a - b).norm() > 1e-2 { return Sh::Capsule(a, b, ext(r)); } },
            "segment" => loop { let a = pt(r); let b = pt(r); if (a - b).norm() > 1e-2 { return Sh::Segment(a, b); } },
            "triangle" => loop {
                let a = pt(r); let b = pt(r); let c = pt(r);
                let n = (b - a).cross(&(c - a)).norm();
                if n > 1e-2 * (b - a).norm() * (c - a).norm() && n > 1e-4 { return Sh::Triangle(a, b, c); } },
            "cone" => Sh::Cone(ext(r), ext(r)),
            "cylinder" => Sh::Cylinder(ext(r), ext(r)),
            "convex" => loop {
                let n = 4 + r.below(3) as usize;
                let pts: Vec<_> = (0..n).map(|_| pt(r)).collect();
                if let Some(Some(poly)) = quiet(|| ConvexPolyhedron::from_convex_hull(&pts)) {
                    let ps = poly.points().to_vec();
                    // keep well-conditioned hulls only: re-hulling the vertices must succeed with the same count
                    if ps.len() >= 4 {
                        if let Some(Some(p2)) = quiet(|| ConvexPolyhedron::from_convex_hull(&ps)) {
                            if p2.points().len() == ps.len() && volume(&ps) > 1e-3 * s * s * s { return Sh::Convex(ps); }
                        }
                    }
                } },
            "halfspace" => Sh::Halfspace(gen_unit(r, lat)),
            "roundcuboid" | "roundtriangle" | "roundcylinder" | "roundcone" | "roundconvex" => {
                let i = gen_shape(r, &kind[5..], lat);
                let br = if lat { *r.pick(&[0.125, 0.25, 0.5, 1.0]) } else { r.logu(0.01, 2.0) };
                Sh::Round(Box::new(i), br) }
            _ => unreachable!(),
        }
    }
    pub const ROUNDS: [&str; 5] = ["roundcuboid", "roundtriangle", "roundcylinder", "roundcone", "roundconvex"];
    /// kinds that go through GJK (`as_support_map`), round variants included
    pub const SM_KINDS: [&str; 12] = ["cuboid", "capsule", "segment", "triangle", "cone", "cylinder", "convex",
        "roundcuboid", "roundtriangle", "roundcylinder", "roundcone", "roundconvex"];
    fn volume(ps: &[Point<Real>]) -> f64 {
        // crude: max tetra volume from the first point
        let mut best: f64 = 0.0;
        for i in 1..ps.len() { for j in i + 1..ps.len() { for k in j + 1..ps.len() {
            let v = (ps[i] - ps[0]).cross(&(ps[j] - ps[0])).dot(&(ps[k] - ps[0])).abs();
            best = best.max(v);
        } } }
        best
    }

    pub fn fcp(r: &Result<ClosestPoints, query::Unsupported>) -> String {
        match r {
            Err(_) => "U".into(),
            Ok(ClosestPoints::Intersecting) => "I".into(),
            Ok(ClosestPoints::Disjoint) => "D".into(),
            Ok(ClosestPoints::WithinMargin(a, b)) => format!("W {} {}", d3::fp(a), d3::fp(b)),
        }
    }
    pub fn fcp0(r: &ClosestPoints) -> String { fcp(&Ok(*r)) }

    /// hint tail: `H <closest points for max_dist = MAX> C <n> <candidate common points>`
    fn tail_world(p1: &Isometry<Real>, g1: &dyn Shape, p2: &Isometry<Real>, g2: &dyn Shape) -> String {
        let h = quiet(|| query::closest_points(p1, g1, p2, g2, f64::MAX)).map(|r| fcp(&r)).unwrap_or("U".into());
        let c = quiet(|| query::contact(p1, g1, p2, g2, 0.0)).and_then(|r| r.ok()).flatten();
        let pts = match c { Some(c) => vec![c.point1, c.point2, na::center(&c.point1, &c.point2)], None => vec![] };
        format!("H {} C {} {}", h, pts.len(), pts.iter().map(d3::fp).collect::<Vec<_>>().join(" "))
    }
    fn tail_local(p12: &Isometry<Real>, g1: &dyn Shape, g2: &dyn Shape) -> String {
        let h = quiet(|| DefaultQueryDispatcher.closest_points(p12, g1, g2, f64::MAX)).map(|r| fcp(&r)).unwrap_or("U".into());
        let c = quiet(|| DefaultQueryDispatcher.contact(p12, g1, g2, 0.0)).and_then(|r| r.ok()).flatten();
        let pts = match c { Some(c) => { let q = p12 * c.point2; vec![c.point1, q, na::center(&c.point1, &q)] }, None => vec![] };
        format!("H {} C {} {}", h, pts.len(), pts.iter().map(d3::fp).collect::<Vec<_>>().join(" "))
    }

    pub fn exec(func: &str, a: &mut Args) -> Option<String> {
        Some(match func {
            "distance_ball_ball" => { let r1 = a.f(); let r2 = a.f(); let c = d3::p(a);
                ff(query::details::distance_ball_ball(&Ball::new(r1), &c, &Ball::new(r2))) }
            "closest_points_ball_ball" => { let p = d3::iso(a); let r1 = a.f(); let r2 = a.f(); let m = a.f();
                fcp0(&query::details::closest_points_ball_ball(&p, &Ball::new(r1), &Ball::new(r2), m)) }
            "distance_halfspace_ball" => { let p = d3::iso(a); let n = d3::v(a); let r = a.f();
                ff(query::details::distance_halfspace_support_map(&p, &HalfSpace::new(Unit::new_unchecked(n)), &Ball::new(r))) }
            "distance_halfspace_cuboid" => { let p = d3::iso(a); let n = d3::v(a); let he = d3::v(a);
                ff(query::details::distance_halfspace_support_map(&p, &HalfSpace::new(Unit::new_unchecked(n)), &Cuboid::new(he))) }
            "closest_points_halfspace_ball" => { let p = d3::iso(a); let n = d3::v(a); let r = a.f(); let m = a.f();
                fcp0(&query::details::closest_points_halfspace_support_map(&p, &HalfSpace::new(Unit::new_unchecked(n)), &Ball::new(r), m)) }
            "closest_points_halfspace_cuboid" => { let p = d3::iso(a); let n = d3::v(a); let he = d3::v(a); let m = a.f();
                fcp0(&query::details::closest_points_halfspace_support_map(&p, &HalfSpace::new(Unit::new_unchecked(n)), &Cuboid::new(he), m)) }
            "line_line_params" => { let o1 = d3::p(a); let v1 = d3::v(a); let o2 = d3::p(a); let v2 = d3::v(a); let e = a.f();
                let (s, t, par) = query::details::closest_points_line_line_parameters_eps(&o1, &v1, &o2, &v2, e);
                format!("{} {} {}", ff(s), ff(t), b(par)) }
            "closest_points_segment_segment" => { let p = d3::iso(a); let a1 = d3::p(a); let b1 = d3::p(a); let a2 = d3::p(a); let b2 = d3::p(a); let m = a.f();
                fcp0(&query::details::closest_points_segment_segment(&p, &Segment::new(a1, b1), &Segment::new(a2, b2), m)) }
            "sat_cuboid_cuboid_oneway" => { let h1 = d3::v(a); let h2 = d3::v(a); let p = d3::iso(a);
                let (s, d) = query::sat::cuboid_cuboid_find_local_separating_normal_oneway(&Cuboid::new(h1), &Cuboid::new(h2), &p);
                format!("{} {}", ff(s), d3::fv(&d)) }
            "sat_cuboid_cuboid_edge_twoway" => { let h1 = d3::v(a); let h2 = d3::v(a); let p = d3::iso(a);
                let (s, d) = query::sat::cuboid_cuboid_find_local_separating_edge_twoway(&Cuboid::new(h1), &Cuboid::new(h2), &p);
                format!("{} {}", ff(s), d3::fv(&d)) }
            "cp3" => { let m = a.f(); let s1 = Sh::parse(a); let p1 = d3::iso(a); let s2 = Sh::parse(a); let p2 = d3::iso(a);
                let (g1, g2) = (s1.build(), s2.build());
                let r = query::closest_points(&p1, &*g1, &p2, &*g2, m);
                format!("{} {}", fcp(&r), tail_world(&p1, &*g1, &p2, &*g2)) }
            "dist3" => { let s1 = Sh::parse(a); let p1 = d3::iso(a); let s2 = Sh::parse(a); let p2 = d3::iso(a);
                let (g1, g2) = (s1.build(), s2.build());
                let r = query::distance(&p1, &*g1, &p2, &*g2);
                format!("{} {}", match r { Ok(x) => ff(x), Err(_) => "U".into() }, tail_world(&p1, &*g1, &p2, &*g2)) }
            "cpl3" => { let m = a.f(); let s1 = Sh::parse(a); let s2 = Sh::parse(a); let p12 = d3::iso(a);
                let (g1, g2) = (s1.build(), s2.build());
                let r = DefaultQueryDispatcher.closest_points(&p12, &*g1, &*g2, m);
                format!("{} {}", fcp(&r), tail_local(&p12, &*g1, &*g2)) }
            // the SAT-based cuboid/cuboid kernels (public in `query::details`; no longer reached by the default dispatcher)
            "cpcc3" => { let m = a.f(); let h1 = d3::v(a); let h2 = d3::v(a); let p12 = d3::iso(a);
                quiet(|| fcp0(&query::details::closest_points_cuboid_cuboid(&p12, &Cuboid::new(h1), &Cuboid::new(h2), m))).unwrap_or("panic".into()) }
            "dcc3" => { let h1 = d3::v(a); let h2 = d3::v(a); let p12 = d3::iso(a);
                quiet(|| ff(query::details::distance_cuboid_cuboid(&p12, &Cuboid::new(h1), &Cuboid::new(h2)))).unwrap_or("panic".into()) }
            // bare results of the public entry points for the bit-exact model of routing + wrappers + frame changes
            "cpw3" => { let m = a.f(); let s1 = Sh::parse(a); let p1 = d3::iso(a); let s2 = Sh::parse(a); let p2 = d3::iso(a);
                let (g1, g2) = (s1.build(), s2.build());
                quiet(|| fcp(&query::closest_points(&p1, &*g1, &p2, &*g2, m))).unwrap_or("panic".into()) }
            "dw3" => { let s1 = Sh::parse(a); let p1 = d3::iso(a); let s2 = Sh::parse(a); let p2 = d3::iso(a);
                let (g1, g2) = (s1.build(), s2.build());
                quiet(|| match query::distance(&p1, &*g1, &p2, &*g2) { Ok(x) => ff(x), Err(_) => "U".into() }).unwrap_or("panic".into()) }
            // ONE simplex shared by a sequence of `*_with_params` queries (the entry points reset it themselves)
            "vs3" => exec_vs(a),
            // the same history, printed for the bit-exact model: result (+ direction) and the simplex left behind by every query
            "gjkm3" => { let n = a.u(); let mut simplex = VoronoiSimplex::new(); let mut out = Vec::new();
                for _ in 0..n {
                    let op = a.tok().to_string();
                    let m = if op == "c" { a.f() } else { 0.0 };
                    let s1 = Sh::parse(a); let s2 = Sh::parse(a); let p12 = d3::iso(a);
                    let (g1, g2) = (s1.build(), s2.build());
                    let (m1, m2) = (g1.as_support_map().expect("support map"), g2.as_support_map().expect("support map"));
                    let head = quiet(|| if op == "d" {
                        ff(query::details::distance_support_map_support_map_with_params(&p12, m1, m2, &mut simplex, None))
                    } else {
                        match query::details::closest_points_support_map_support_map_with_params(&p12, m1, m2, m, &mut simplex, None) {
                            GJKResult::ClosestPoints(p1, p2, d) => format!("W {} {} {}", d3::fp(&p1), d3::fp(&p2), d3::fv(&d)),
                            GJKResult::NoIntersection(d) => format!("D {}", d3::fv(&d)),
                            GJKResult::Intersection => "I".into(),
                            GJKResult::Proximity(d) => format!("U {}", d3::fv(&d)),
                        }
                    });
                    match head { Some(h) => out.push(format!("{} {}", h, vs_dump(&simplex))), None => { out.push("panic".into()); break; } }
                }
                out.join(" ") }
            "gjkh3" => { let n = a.u(); let mut simplex = VoronoiSimplex::new(); let mut out = Vec::new();
                for _ in 0..n {
                    let op = a.tok().to_string();
                    let m = if op == "c" { a.f() } else { 0.0 };
                    let s1 = Sh::parse(a); let s2 = Sh::parse(a); let p12 = d3::iso(a);
                    let (g1, g2) = (s1.build(), s2.build());
                    let (m1, m2) = (g1.as_support_map().expect("support map"), g2.as_support_map().expect("support map"));
                    let head = if op == "d" {
                        ff(query::details::distance_support_map_support_map_with_params(&p12, m1, m2, &mut simplex, None))
                    } else {
                        match query::details::closest_points_support_map_support_map_with_params(&p12, m1, m2, m, &mut simplex, None) {
                            GJKResult::ClosestPoints(p1, p2, _) => format!("W {} {}", d3::fp(&p1), d3::fp(&p2)),
                            GJKResult::NoIntersection(_) => "D".into(),
                            GJKResult::Intersection => "I".into(),
                            GJKResult::Proximity(_) => "U".into(),
                        }
                    };
                    out.push(format!("{} {}", head, tail_local(&p12, &*g1, &*g2)));
                }
                out.join(" ") }
            _ => return None,
        })
    }

    // ---- VoronoiSimplex histories
    use crate::p3::query::gjk::CSOPoint;
    fn vs_dump(s: &VoronoiSimplex) -> String {
        let (dm, pd) = (s.dimension(), s.prev_dimension());
        let mut t = vec![format!("S {} {}", dm, pd)];
        for i in 0..=dm { let c = s.point(i); t.push(format!("{} {} {}", d3::fp(&c.point), d3::fp(&c.orig1), d3::fp(&c.orig2))); }
        for i in 0..=dm.min(3 - 1) { t.push(ff(s.proj_coord(i))); }
        for i in 0..=pd { t.push(d3::fp(&s.prev_point(i).point)); }
        for i in 0..=pd.min(3 - 1) { t.push(ff(s.prev_proj_coord(i))); }
        t.join(" ")
    }
    pub fn exec_vs(a: &mut Args) -> String {
        let n = a.u(); let mut s = VoronoiSimplex::new(); let mut out: Vec<String> = Vec::new();
        for _ in 0..n {
            let op = a.tok().to_string();
            let r = match op.as_str() {
                "R" => { let o1 = d3::p(a); let o2 = d3::p(a); quiet(|| { s.reset(CSOPoint::new(o1, o2)); vs_dump(&s) }) }
                "A" => { let o1 = d3::p(a); let o2 = d3::p(a); quiet(|| { let r = s.add_point(CSOPoint::new(o1, o2)); format!("{} {}", b(r), vs_dump(&s)) }) }
                "P" => quiet(|| { let p = s.project_origin_and_reduce(); format!("{} {}", d3::fp(&p), vs_dump(&s)) }),
                "C" => { let p = d3::p(a); quiet(|| b(s.contains_point(&p)).to_string()) }
                k => panic!("bad op {}", k),
            };
            match r { Some(t) => out.push(t), None => { out.push("panic".into()); break; } }
        }
        out.join(" ")
    }
    /// a GJK-like history on one simplex: reset, then add / reduce rounds, `contains_point` probes, resets in the middle
    /// (also on a simplex of dimension >= 1). The real simplex is run alongside to know when it is full.
    pub fn gen_vs(r: &mut Rng, lat: bool) -> String {
        let sc = if lat { 1.0 } else { r.logu(0.05, 20.0) };
        let c = |r: &mut Rng| if lat { r.lattice(4, 1) } else { r.uniform(-sc, sc) };
        let mut s = VoronoiSimplex::new();
        let mut ops: Vec<String> = Vec::new();
        let nrounds = 3 + r.below(10) as usize;
        let (o1, o2) = (Point::new(c(r), c(r), c(r)), Point::new(c(r), c(r), c(r)));
        s.reset(CSOPoint::new(o1, o2)); ops.push(format!("R {} {}", d3::hp(&o1), d3::hp(&o2)));
        for _ in 0..nrounds {
            match r.below(8) {
                0 => { // reset in the middle of a run, whatever the current dimension
                    let (o1, o2) = (Point::new(c(r), c(r), c(r)), Point::new(c(r), c(r), c(r)));
                    s.reset(CSOPoint::new(o1, o2)); ops.push(format!("R {} {}", d3::hp(&o1), d3::hp(&o2))); }
                1 => { // probe: a live vertex (true) or an arbitrary point
                    let p = if r.bool() { s.point(r.below(s.dimension() as u64 + 1) as usize).point } else { Point::new(c(r), c(r), c(r)) };
                    ops.push(format!("C {}", d3::hp(&p))); }
                _ => {
                    if s.dimension() >= 3 { continue; }
                    // tie cases: a second copy of a live vertex / the origin itself as CSO point / the mirror image of a vertex
                    let (o1, o2) = match r.below(10) {
                        0 => { let q = s.point(0); (q.orig1, q.orig2) }
                        1 => { let o = Point::new(c(r), c(r), c(r)); (o, o) }
                        2 => { let q = s.point(0); (q.orig2, q.orig1) }
                        _ => (Point::new(c(r), c(r), c(r)), Point::new(c(r), c(r), c(r))),
                    };
                    let ok = quiet(|| s.add_point(CSOPoint::new(o1, o2)));
                    ops.push(format!("A {} {}", d3::hp(&o1), d3::hp(&o2)));
                    if ok.is_none() { break; }
                    if r.below(6) != 0 { ops.push("P".into()); if quiet(|| s.project_origin_and_reduce()).is_none() { break; } }
                }
            }
        }
        format!("{} {}", ops.len(), ops.join(" "))
    }

    pub fn gen_margin(r: &mut Rng, lat: bool) -> f64 {
        if lat { *r.pick(&[0.0, 0.25, 0.5, 1.0, 4.0]) } else { match r.below(4) { 0 => 0.0, 1 => r.logu(1e-3, 1.0), _ => r.logu(0.1, 50.0) } }
    }

    /// one placed pair, all three end-to-end entry points. `mode` 0: coincident frames (relative translation exactly zero,
    /// shape 2 moved off-centre inside its own frame), 1: relative translation below `DEFAULT_EPSILON`, 2: generic.
    fn push_placed(r: &mut Rng, v: &mut Vec<(String, String)>, k1: &str, k2: &str, lat: bool, mode: usize) {
        let s1 = gen_shape(r, k1, lat); let mut s2 = gen_shape(r, k2, lat);
        let reach = s1.size() + s2.size();
        let u = gen_unit(r, lat);
        let dist = if lat { *r.pick(&[0.0, 2.0, 4.0, 8.0]) } else { reach * r.uniform(0.0, 2.5) };
        let mut p12 = if r.below(4) == 0 { Isometry::identity() } else { d3::gen_iso(r, lat, 0.0) };
        match mode {
            0 => { s2 = s2.shifted(&(u * dist)); p12.translation.vector = Vector::zeros(); }
            1 => { s2 = s2.shifted(&(u * dist)); p12.translation.vector = Vector::new(1.0e-17, -3.0e-18, 0.0); }
            _ => { p12.translation.vector = u * dist; }
        }
        let reach = s1.size() + s2.size();
        let p1 = if r.below(3) == 0 { Isometry::identity() } else { d3::gen_iso(r, lat, 5.0) };
        // coincident frames in world space too: pos2 is the very same isometry when the relative pose is the identity
        let p2 = if p12 == Isometry::identity() { p1 } else { p1 * p12 };
        let m = match r.below(4) { 0 => 0.0, 1 => f64::MAX, _ => reach * r.uniform(0.0, 3.0) };
        let w = format!("{} {} {} {}", s1.tokens(), d3::hiso(&p1), s2.tokens(), d3::hiso(&p2));
        v.push(("cp3".into(), format!("{} {}", hx(m), w)));
        v.push(("dist3".into(), w));
        v.push(("cpl3".into(), format!("{} {} {} {}", hx(m), s1.tokens(), s2.tokens(), d3::hiso(&p12))));
    }

    /// DISJOINT cuboid pairs for `closest_points_cuboid_cuboid` / `distance_cuboid_cuboid`. Two thirds are built so that the
    /// closest features are the interiors of two crossed edges (every one of the 9 direction pairs, generic and lattice
    /// rotations, gap 1e-2 … 10, margin below / above the gap / MAX); the rest are generically placed (face–vertex,
    /// vertex–edge, vertex–vertex) or axis-stacked lattice poses (face–face, face–edge). The oracle classifies each pose exactly.
    fn gen_cuboid_pairs(r: &mut Rng, thorough: bool, v: &mut Vec<(String, String)>) {
        let n = if thorough { 1800 } else { 180 };
        for it in 0..n {
            let lat = it % 4 == 3;
            let mode = (it / 4) % 4; // 0, 1: crossed edges; 2: vertex over a face; 3: generic / axis-stacked
            let mut h1 = d3::gen_he(r, lat); let mut h2 = d3::gen_he(r, lat);
            let mut p12 = d3::gen_iso(r, lat, 0.0);
            let gap = if lat { *r.pick(&[0.015625, 0.25, 1.0, 4.0, 8.0]) } else { r.logu(1e-2, 10.0) };
            let mut m = match r.below(4) { 0 => gap * 0.5, 1 => gap * 2.0, 2 => f64::MAX, _ => gap * r.uniform(0.0, 3.0) };
            let (i, j) = (((it / 16) % 3) as usize, ((it / 48) % 3) as usize);
            let rot = p12.rotation;
            let (e1, e2) = (Vector::ith(i, 1.0), rot * Vector::ith(j, 1.0));
            let nrm = if mode == 2 { e1 } else { e1.cross(&e2) };
            if mode != 3 && nrm.norm() > 0.05 {
                // box 1 touches the plane through q1 with unit normal nn from below, box 2 touches the parallel plane `gap` above:
                // crossed edges: edge 1 = support edge of box 1 towards nn (direction i), edge 2 = support edge of box 2 towards -nn
                // (direction j); vertex over face: q1 inside the face of box 1 with normal ±e_i, q2 = support vertex of box 2 towards -nn
                let nn = nrm.normalize() * if r.bool() { 1.0 } else { -1.0 };
                let n2 = rot.inverse() * -nn;
                let (mut q1, mut q2) = (Vector::zeros(), Vector::zeros());
                for k in 0..3 {
                    q1[k] = if mode == 2 { if k == i { h1[k].copysign(nn[k]) } else { h1[k] * r.uniform(-0.7, 0.7) } }
                            else if k == i { h1[k] * r.uniform(-0.7, 0.7) } else { h1[k].copysign(nn[k]) };
                    q2[k] = if mode != 2 && k == j { h2[k] * r.uniform(-0.7, 0.7) } else { h2[k].copysign(n2[k]) };
                }
                p12.translation.vector = q1 + nn * gap - rot * q2;
                if mode == 2 && r.bool() { std::mem::swap(&mut h1, &mut h2); p12 = p12.inverse(); }
            } else {
                let u = if lat && r.bool() { Vector::ith(r.below(3) as usize, if r.bool() { 1.0 } else { -1.0 }) } else { gen_unit(r, lat) };
                let reach = h1.norm() + h2.norm();
                p12.translation.vector = u * if lat { *r.pick(&[4.0, 6.0, 8.0]) } else { reach * r.uniform(0.6, 1.6) };
                if r.below(3) != 0 { m = match r.below(3) { 0 => f64::MAX, _ => reach * r.uniform(0.0, 2.0) }; }
            }
            let w = format!("{} {} {}", d3::hv(&h1), d3::hv(&h2), d3::hiso(&p12));
            v.push(("cpcc3".into(), format!("{} {}", hx(m), w)));
            if it % 4 != 1 { v.push(("dcc3".into(), w)); }
        }
    }

    pub fn gen(r: &mut Rng, thorough: bool, v: &mut Vec<(String, String)>) {
        gen_cuboid_pairs(&mut Rng(r.0 ^ 0x5A5A_C0B0_1D5E_ED01), thorough, v); // own stream: the existing families keep their cases
        let n = if thorough { 4000 } else { 400 };
        for it in 0..n {
            let lat = it % 2 == 0;
            // ---- ball / ball
            let (r1, r2) = (r.pos_extent(lat), r.pos_extent(lat));
            let mut p = d3::gen_iso(r, lat, 8.0);
            match r.below(6) {
                0 => { // exactly touching / tie: |t| = r1 + r2 along an axis
                    p.translation.vector = Vector::ith(r.below(3) as usize, (r1 + r2) * if r.bool() { 1.0 } else { -1.0 }); }
                1 => { let u = gen_unit(r, lat); p.translation.vector = u * (r1 + r2 + r.uniform(-0.5, 2.0)); }
                2 => { p.translation.vector = Vector::zeros(); }
                _ => {}
            }
            let m = gen_margin(r, lat);
            v.push(("distance_ball_ball".into(), format!("{} {} {}", hx(r1), hx(r2), d3::hv(&p.translation.vector))));
            v.push(("closest_points_ball_ball".into(), format!("{} {} {} {}", d3::hiso(&p), hx(r1), hx(r2), hx(m))));
            // ---- half-space / ball, cuboid
            let nrm = gen_unit(r, lat);
            let he = d3::gen_he(r, lat);
            let mut p = d3::gen_iso(r, lat, 6.0);
            if r.below(4) == 0 { // ball/cuboid resting exactly on / near the plane
                p.translation.vector = nrm * (r1 + if lat { 0.0 } else { r.uniform(-0.1, 0.1) }); }
            v.push(("distance_halfspace_ball".into(), format!("{} {} {}", d3::hiso(&p), d3::hv(&nrm), hx(r1))));
            v.push(("distance_halfspace_cuboid".into(), format!("{} {} {}", d3::hiso(&p), d3::hv(&nrm), d3::hv(&he))));
            v.push(("closest_points_halfspace_ball".into(), format!("{} {} {} {}", d3::hiso(&p), d3::hv(&nrm), hx(r1), hx(m))));
            v.push(("closest_points_halfspace_cuboid".into(), format!("{} {} {} {}", d3::hiso(&p), d3::hv(&nrm), d3::hv(&he), hx(m))));
            // ---- segments / lines
            let a1 = d3::gen_p(r, lat, 5.0); let mut b1 = d3::gen_p(r, lat, 5.0);
            let a2 = d3::gen_p(r, lat, 5.0); let mut b2 = d3::gen_p(r, lat, 5.0);
            match r.below(8) {
                0 => { b2 = a2 + (b1 - a1) * *r.pick(&[1.0, -1.0, 0.5, 2.0]); }           // parallel
                1 => { b1 = a1; }                                                      // degenerate first
                2 => { b2 = a2; }                                                      // degenerate second
                3 => { b1 = a1; b2 = a2; }                                             // both points
                4 => { b2 = a1 + (b1 - a1) * 0.5; }                                    // second ends on the first
                _ => {}
            }
            let ps = if r.below(3) == 0 { Isometry::identity() } else { d3::gen_iso(r, lat, 4.0) };
            v.push(("closest_points_segment_segment".into(), format!("{} {} {} {} {} {}", d3::hiso(&ps), d3::hp(&a1), d3::hp(&b1), d3::hp(&a2), d3::hp(&b2), hx(if r.bool() { f64::MAX } else { m }))));
            let eps = if r.bool() { f64::EPSILON } else { *r.pick(&[0.0, 1e-9, 1e-3]) };
            v.push(("line_line_params".into(), format!("{} {} {} {} {}", d3::hp(&a1), d3::hv(&(b1 - a1)), d3::hp(&a2), d3::hv(&(b2 - a2)), hx(eps))));
            // ---- SAT
            let (h1, h2) = (d3::gen_he(r, lat), d3::gen_he(r, lat));
            let mut p = d3::gen_iso(r, lat, 6.0);
            if r.below(5) == 0 { p.translation.vector[r.below(3) as usize] = if r.bool() { 0.0 } else { -0.0 }; }
            let arg = format!("{} {} {}", d3::hv(&h1), d3::hv(&h2), d3::hiso(&p));
            v.push(("sat_cuboid_cuboid_oneway".into(), arg.clone()));
            v.push(("sat_cuboid_cuboid_edge_twoway".into(), arg));
        }
        // ---- end-to-end over all ordered kind pairs
        let reps = if thorough { 24 } else { 3 };
        for rep in 0..reps {
            for k1 in KINDS.iter() { for k2 in KINDS.iter() {
                if *k1 == "halfspace" && *k2 == "halfspace" { continue; }
                let lat = rep % 3 == 0;
                let s1 = gen_shape(r, k1, lat); let s2 = gen_shape(r, k2, lat);
                let tscale = *r.pick(&[0.0, 5.0, 5.0, 100.0, 1000.0]);
                let p1 = if r.below(6) == 0 { Isometry::identity() } else { d3::gen_iso(r, lat, tscale) };
                // relative placement: centre of shape 2 at a controlled distance from shape 1
                let reach = s1.size() + s2.size();
                let u = gen_unit(r, lat);
                let dist = if lat { *r.pick(&[0.0, 0.5, 1.0, 2.0, 4.0, 8.0]) } else { reach * r.uniform(0.0, 2.5) };
                let mut p12 = d3::gen_iso(r, lat, 0.0);
                p12.translation.vector = u * dist;
                let p2 = p1 * p12;
                let m = match r.below(5) { 0 => 0.0, 1 => f64::MAX, 2 => reach * r.uniform(0.0, 0.5), _ => reach * r.uniform(0.0, 3.0) };
                let w = format!("{} {} {} {}", s1.tokens(), d3::hiso(&p1), s2.tokens(), d3::hiso(&p2));
                v.push(("cp3".into(), format!("{} {}", hx(m), w)));
                v.push(("dist3".into(), w));
                v.push(("cpl3".into(), format!("{} {} {} {}", hx(m), s1.tokens(), s2.tokens(), d3::hiso(&p12))));
            } }
        }
        // ---- round shapes and coincident frames: every GJK kind against every round variant (both orders), poses with
        //      zero / sub-epsilon / generic relative translation; off-centre shapes so that coincident frames can be disjoint
        { // forked generator: the older streams keep their cases
        let mut fr = Rng(r.0 ^ 0x5EED_0C01); let r = &mut fr;
        let reps = if thorough { 10 } else { 1 };
        for rep in 0..reps {
            for (ia, ka) in SM_KINDS.iter().enumerate() { for (ib, kb) in ROUNDS.iter().enumerate() {
                let lat = (rep + ia + ib) % 3 == 0;
                let (k1, k2) = if (ia + ib + rep) % 2 == 0 { (*ka, *kb) } else { (*kb, *ka) };
                push_placed(r, v, k1, k2, lat, (ia + ib + rep) % 3);
            } }
            // plain GJK pairs in coincident frames
            for ka in SM_KINDS[..7].iter() { for kb in SM_KINDS[..7].iter() { if r.below(3) == 0 { push_placed(r, v, ka, kb, rep % 2 == 0, 0); } } }
        }
        // ---- histories: one simplex, 2-5 consecutive `_with_params` queries on unrelated pairs / poses
        let nh = if thorough { 600 } else { 60 };
        for it in 0..nh {
            let lat = it % 3 == 0;
            let n = 2 + r.below(4) as usize;
            let mut toks = vec![format!("{}", n)];
            // half of the histories keep the same two shapes and only move them (a simulation step), half change shapes
            let same = r.bool();
            let mut pair = ({ let k = *r.pick(&SM_KINDS); gen_shape(r, k, lat) }, { let k = *r.pick(&SM_KINDS); gen_shape(r, k, lat) });
            for _ in 0..n {
                if !same { pair = ({ let k = *r.pick(&SM_KINDS); gen_shape(r, k, lat) }, { let k = *r.pick(&SM_KINDS); gen_shape(r, k, lat) }); }
                let reach = pair.0.size() + pair.1.size();
                let mut p12 = d3::gen_iso(r, lat, 0.0);
                let dist = if lat { *r.pick(&[0.0, 2.0, 4.0, 8.0]) } else { reach * r.uniform(0.3, 2.5) };
                p12.translation.vector = gen_unit(r, lat) * dist;
                let op = if r.bool() { "d".to_string() } else { format!("c {}", hx(if r.bool() { f64::MAX } else { reach * r.uniform(0.0, 3.0) })) };
                toks.push(format!("{} {} {} {}", op, pair.0.tokens(), pair.1.tokens(), d3::hiso(&p12)));
            }
            v.push(("gjkh3".into(), toks.join(" ")));
        }
        let nv = if thorough { 6000 } else { 600 };
        for it in 0..nv { let h = gen_vs(r, it % 2 == 0); v.push(("vs3".into(), h)); }
        // ---- modelled histories (bit-exact): support maps of the C10 model only, incl. coincident frames (x-axis start direction)
        const MK: [&str; 11] = ["cuboid", "capsule", "segment", "triangle", "cone", "cylinder", "ball", "roundcuboid", "roundtriangle", "roundcylinder", "roundcone"];
        let nm = if thorough { 1500 } else { 150 };
        for it in 0..nm {
            let lat = it % 3 == 0;
            let n = 1 + r.below(4) as usize;
            let mut toks = vec![format!("{}", n)];
            let same = r.bool();
            let mut pair = ({ let k = *r.pick(&MK); gen_shape(r, k, lat) }, { let k = *r.pick(&MK); gen_shape(r, k, lat) });
            for _ in 0..n {
                if !same { pair = ({ let k = *r.pick(&MK); gen_shape(r, k, lat) }, { let k = *r.pick(&MK); gen_shape(r, k, lat) }); }
                let reach = pair.0.size() + pair.1.size();
                let mut p12 = if r.below(5) == 0 { Isometry::identity() } else { d3::gen_iso(r, lat, 0.0) };
                let dist = if lat { *r.pick(&[0.0, 2.0, 4.0, 8.0]) } else { reach * r.uniform(0.0, 2.5) };
                let off = gen_unit(r, lat) * dist;
                let mut g2 = pair.1.clone();
                if r.below(4) == 0 { g2 = g2.shifted(&off); p12.translation.vector = Vector::zeros(); } else { p12.translation.vector = off; }
                let reach = pair.0.size() + g2.size();
                let op = if r.bool() { "d".to_string() } else { format!("c {}", hx(if r.bool() { f64::MAX } else { reach * r.uniform(0.0, 3.0) })) };
                toks.push(format!("{} {} {} {}", op, pair.0.tokens(), g2.tokens(), d3::hiso(&p12)));
            }
            v.push(("gjkm3".into(), toks.join(" ")));
        }
        }
        // ---- public entry points, bit-exact (`cpw3`, `dw3`): every route of the dispatcher that is modelled — ball×ball,
        //      segment×segment, half-space×support map (both orders), support map×support map through GJK — in WORLD poses
        //      (far from the origin, identity, equal poses), relative placement touching / overlapping / separated
        {
        let mut fr = Rng(r.0 ^ 0x5EED_61E5); let r = &mut fr;
        const WK: [&str; 11] = ["halfspace", "cuboid", "capsule", "segment", "triangle", "cone", "cylinder", "roundcuboid", "roundtriangle", "roundcylinder", "roundcone"];
        let nw = if thorough { 2400 } else { 240 };
        for it in 0..nw {
            let lat = it % 3 == 0;
            let (k1, k2) = match it % 8 { 0 => ("ball", "ball"), 1 => ("segment", "segment"), 2 => ("halfspace", *r.pick(&WK[1..])), 3 => (*r.pick(&WK[1..]), "halfspace"),
                _ => (*r.pick(&WK[1..]), *r.pick(&WK[1..])) };
            let s1 = gen_shape(r, k1, lat); let mut s2 = gen_shape(r, k2, lat);
            let reach = s1.size() + s2.size();
            let u = gen_unit(r, lat);
            let dist = if lat { *r.pick(&[0.0, 1.0, 2.0, 4.0, 6.0, 8.0]) } else { reach * r.uniform(0.25, 2.5) };
            let mut p12 = if r.below(5) == 0 { Isometry::identity() } else { d3::gen_iso(r, lat, 0.0) };
            if r.below(6) == 0 && k2 != "halfspace" { s2 = s2.shifted(&(u * dist)); p12.translation.vector = Vector::zeros(); } else { p12.translation.vector = u * dist; }
            let reach = s1.size() + s2.size();
            let tscale = *r.pick(&[0.0, 5.0, 5.0, 100.0, 1000.0]);
            let p1 = if r.below(5) == 0 { Isometry::identity() } else { d3::gen_iso(r, lat, tscale) };
            let p2 = if p12 == Isometry::identity() { p1 } else { p1 * p12 };
            let m = match r.below(5) { 0 => 0.0, 1 => f64::MAX, 2 => reach * r.uniform(0.0, 0.5), _ => reach * r.uniform(0.0, 3.0) };
            let w = format!("{} {} {} {}", s1.tokens(), d3::hiso(&p1), s2.tokens(), d3::hiso(&p2));
            if it % 3 != 2 { v.push(("cpw3".into(), format!("{} {}", hx(m), w))); } else { v.push(("dw3".into(), w)); }
        }
        }
        // ---- focused streams for the SAT-derived routes: closest_points triangle×cuboid and distance cuboid×cuboid
        let nf = if thorough { 3000 } else { 250 };
        for it in 0..nf {
            let lat = it % 4 == 0;
            let (ka, kb, f) = match it % 3 { 0 => ("triangle", "cuboid", "cpl3"), 1 => ("cuboid", "cuboid", "dist3"), _ => ("triangle", "cuboid", "cp3") };
            let s1 = gen_shape(r, ka, lat); let s2 = gen_shape(r, kb, lat);
            let reach = s1.size() + s2.size();
            let u = gen_unit(r, lat);
            let dist = if lat { *r.pick(&[2.0, 3.0, 4.0, 6.0]) } else { reach * r.uniform(0.3, 2.0) };
            let mut p12 = d3::gen_iso(r, lat, 0.0);
            p12.translation.vector = u * dist;
            let p1 = if r.bool() { Isometry::identity() } else { d3::gen_iso(r, lat, 5.0) };
            let p2 = p1 * p12;
            let m = if r.bool() { f64::MAX } else { reach * r.uniform(0.0, 3.0) };
            match f {
                "cpl3" => v.push(("cpl3".into(), format!("{} {} {} {}", hx(m), s1.tokens(), s2.tokens(), d3::hiso(&p12)))),
                "cp3" => v.push(("cp3".into(), format!("{} {} {} {} {}", hx(m), s1.tokens(), d3::hiso(&p1), s2.tokens(), d3::hiso(&p2)))),
                _ => v.push(("dist3".into(), format!("{} {} {} {}", s1.tokens(), d3::hiso(&p1), s2.tokens(), d3::hiso(&p2)))),
            }
        }
    }
}

// ------------------------------------------------------------------------------------------ 2-D
mod k2 {
    use super::*;
    use crate::p2::na::{self, Unit};
    use crate::p2::math::{Isometry, Point, Real, Vector};
    use crate::p2::query::{self, ClosestPoints, DefaultQueryDispatcher, QueryDispatcher};
    use crate::p2::shape::{Ball, Capsule, ConvexPolygon, Cuboid, HalfSpace, RoundShape, Segment, Shape, Triangle};
    use crate::p2::query::gjk::{GJKResult, VoronoiSimplex};

    pub const KINDS: [&str; 7] = ["ball", "cuboid", "capsule", "segment", "triangle", "convex", "halfspace"];

    #[derive(Clone, Debug)]
    pub enum Sh {
        Ball(f64), Cuboid(Vector<Real>), Capsule(Point<Real>, Point<Real>, f64), Segment(Point<Real>, Point<Real>),
        Triangle(Point<Real>, Point<Real>, Point<Real>), Convex(Vec<Point<Real>>), Halfspace(Vector<Real>), Round(Box<Sh>, f64),
    }
    impl Sh {
        pub fn tokens(&self) -> String {
            match self {
                Sh::Ball(r) => format!("ball {}", hx(*r)),
                Sh::Cuboid(h) => format!("cuboid {}", d2::hv(h)),
                Sh::Capsule(a, b, r) => format!("capsule {} {} {}", d2::hp(a), d2::hp(b), hx(*r)),
                Sh::Segment(a, b) => format!("segment {} {}", d2::hp(a), d2::hp(b)),
                Sh::Triangle(a, b, c) => format!("triangle {} {} {}", d2::hp(a), d2::hp(b), d2::hp(c)),
                Sh::Convex(ps) => format!("convex {} {}", ps.len(), ps.iter().map(d2::hp).collect::<Vec<_>>().join(" ")),
                Sh::Halfspace(n) => format!("halfspace {}", d2::hv(n)),
                Sh::Round(i, r) => format!("round {} {}", i.tokens(), hx(*r)),
            }
        }
        pub fn parse(a: &mut Args) -> Sh {
            match a.tok() {
                "round" => { let i = Sh::parse(a); Sh::Round(Box::new(i), a.f()) }
                "ball" => Sh::Ball(a.f()),
                "cuboid" => Sh::Cuboid(d2::v(a)),
                "capsule" => { let p = d2::p(a); let q = d2::p(a); Sh::Capsule(p, q, a.f()) }
                "segment" => { let p = d2::p(a); let q = d2::p(a); Sh::Segment(p, q) }
                "triangle" => { let p = d2::p(a); let q = d2::p(a); let r = d2::p(a); Sh::Triangle(p, q, r) }
                "convex" => { let n = a.u(); Sh::Convex((0..n).map(|_| d2::p(a)).collect()) }
                "halfspace" => Sh::Halfspace(d2::v(a)),
                k => panic!("bad shape kind {}", k),
            }
        }
        pub fn build(&self) -> Box<dyn Shape> {
            match self {
                Sh::Ball(r) => Box::new(Ball::new(*r)),
                Sh::Cuboid(h) => Box::new(Cuboid::new(*h)),
                Sh::Capsule(a, b, r) => Box::new(Capsule::new(*a, *b, *r)),
                Sh::Segment(a, b) => Box::new(Segment::new(*a, *b)),
                Sh::Triangle(a, b, c) => Box::new(Triangle::new(*a, *b, *c)),
                Sh::Convex(ps) => Box::new(ConvexPolygon::from_convex_hull(ps).expect("convex hull")),
                Sh::Halfspace(n) => Box::new(HalfSpace::new(Unit::new_unchecked(*n))),
                Sh::Round(i, r) => match &**i {
                    Sh::Cuboid(h) => Box::new(RoundShape { inner_shape: Cuboid::new(*h), border_radius: *r }),
                    Sh::Triangle(a, b, c) => Box::new(RoundShape { inner_shape: Triangle::new(*a, *b, *c), border_radius: *r }),
                    Sh::Convex(ps) => Box::new(RoundShape { inner_shape: ConvexPolygon::from_convex_hull(ps).expect("convex hull"), border_radius: *r }),
                    k => panic!("no round variant of {:?}", k),
                },
            }
        }
        pub fn shifted(&self, v: &Vector<Real>) -> Sh {
            match self {
                Sh::Capsule(a, b, r) => Sh::Capsule(a + v, b + v, *r),
                Sh::Segment(a, b) => Sh::Segment(a + v, b + v),
                Sh::Triangle(a, b, c) => Sh::Triangle(a + v, b + v, c + v),
                Sh::Convex(ps) => Sh::Convex(ps.iter().map(|p| p + v).collect()),
                Sh::Round(i, r) => Sh::Round(Box::new(i.shifted(v)), *r),
                k => k.clone(),
            }
        }
        pub fn size(&self) -> f64 {
            match self {
                Sh::Round(i, r) => i.size() + r,
                Sh::Ball(r) => *r, Sh::Cuboid(h) => h.norm(), Sh::Capsule(a, b, r) => a.coords.norm().max(b.coords.norm()) + r,
                Sh::Segment(a, b) => a.coords.norm().max(b.coords.norm()),
                Sh::Triangle(a, b, c) => a.coords.norm().max(b.coords.norm()).max(c.coords.norm()),
                Sh::Convex(ps) => ps.iter().map(|p| p.coords.norm()).fold(0.0, f64::max),
                Sh::Halfspace(_) => 0.5,
            }
        }
    }

    pub fn gen_unit(r: &mut Rng, lat: bool) -> Vector<Real> {
        if lat { let c: [[f64; 2]; 5] = [[1.0, 0.0], [0.0, -1.0], [0.6, 0.8], [-0.8, 0.6], [0.28, -0.96]]; let v = r.pick(&c); Vector::new(v[0], v[1]) }
        else { let a = r.uniform(-3.2, 3.2); Vector::new(a.cos(), a.sin()) }
    }

    pub fn gen_shape(r: &mut Rng, kind: &str, lat: bool) -> Sh {
        let ext = |r: &mut Rng| if lat { *r.pick(&[0.25, 0.5, 1.0, 1.5, 2.0, 3.0]) } else { r.logu(0.05, 20.0) };
        let s = if lat { 2.0 } else { r.logu(0.1, 10.0) };
        let pt = |r: &mut Rng| if lat { Point::new(r.lattice(8, 1), r.lattice(8, 1)) } else { Point::new(r.uniform(-s, s), r.uniform(-s, s)) };
        match kind {
            "ball" => Sh::Ball(ext(r)),
            "cuboid" => Sh::Cuboid(Vector::new(ext(r), ext(r))),
            "capsule" => loop { let a = pt(r); let b = pt(r); if (a - b).norm() > 1e-2 { return Sh::Capsule(a, b, ext(r)); } },
            "segment" => loop { let a = pt(r); let b = pt(r); if (a - b).norm() > 1e-2 { return Sh::Segment(a, b); } },
            "triangle" => loop {
                let a = pt(r); let b = pt(r); let c = pt(r);
                let n = (b - a).perp(&(c - a)).abs();
                if n > 1e-2 * (b - a).norm() * (c - a).norm() && n > 1e-4 { return Sh::Triangle(a, b, c); } },
            "convex" => loop {
                let n = 3 + r.below(4) as usize;
                let pts: Vec<_> = (0..n).map(|_| pt(r)).collect();
                if let Some(Some(poly)) = quiet(|| ConvexPolygon::from_convex_hull(&pts)) {
                    let ps = poly.points().to_vec();
                    if ps.len() >= 3 {
                        let area: f64 = (0..ps.len()).map(|i| ps[i].coords.perp(&ps[(i + 1) % ps.len()].coords)).sum::<f64>().abs() * 0.5;
                        if area > 1e-2 * s * s {
                            if let Some(Some(p2)) = quiet(|| ConvexPolygon::from_convex_hull(&ps)) { if p2.points().len() == ps.len() { return Sh::Convex(ps); } }
                        }
                    }
                } },
            "halfspace" => Sh::Halfspace(gen_unit(r, lat)),
            "roundcuboid" | "roundtriangle" | "roundconvex" => {
                let i = gen_shape(r, &kind[5..], lat);
                let br = if lat { *r.pick(&[0.125, 0.25, 0.5, 1.0]) } else { r.logu(0.01, 2.0) };
                Sh::Round(Box::new(i), br) }
            _ => unreachable!(),
        }
    }
    pub const ROUNDS: [&str; 3] = ["roundcuboid", "roundtriangle", "roundconvex"];
    pub const SM_KINDS: [&str; 8] = ["cuboid", "capsule", "segment", "triangle", "convex", "roundcuboid", "roundtriangle", "roundconvex"];

    pub fn fcp(r: &Result<ClosestPoints, query::Unsupported>) -> String {
        match r {
            Err(_) => "U".into(),
            Ok(ClosestPoints::Intersecting) => "I".into(),
            Ok(ClosestPoints::Disjoint) => "D".into(),
            Ok(ClosestPoints::WithinMargin(a, b)) => format!("W {} {}", d2::fp(a), d2::fp(b)),
        }
    }
    pub fn fcp0(r: &ClosestPoints) -> String { fcp(&Ok(*r)) }

    fn tail_world(p1: &Isometry<Real>, g1: &dyn Shape, p2: &Isometry<Real>, g2: &dyn Shape) -> String {
        let h = quiet(|| query::closest_points(p1, g1, p2, g2, f64::MAX)).map(|r| fcp(&r)).unwrap_or("U".into());
        let c = quiet(|| query::contact(p1, g1, p2, g2, 0.0)).and_then(|r| r.ok()).flatten();
        let pts = match c { Some(c) => vec![c.point1, c.point2, na::center(&c.point1, &c.point2)], None => vec![] };
        format!("H {} C {} {}", h, pts.len(), pts.iter().map(d2::fp).collect::<Vec<_>>().join(" "))
    }
    fn tail_local(p12: &Isometry<Real>, g1: &dyn Shape, g2: &dyn Shape) -> String {
        let h = quiet(|| DefaultQueryDispatcher.closest_points(p12, g1, g2, f64::MAX)).map(|r| fcp(&r)).unwrap_or("U".into());
        let c = quiet(|| DefaultQueryDispatcher.contact(p12, g1, g2, 0.0)).and_then(|r| r.ok()).flatten();
        let pts = match c { Some(c) => { let q = p12 * c.point2; vec![c.point1, q, na::center(&c.point1, &q)] }, None => vec![] };
        format!("H {} C {} {}", h, pts.len(), pts.iter().map(d2::fp).collect::<Vec<_>>().join(" "))
    }

    pub fn exec(func: &str, a: &mut Args) -> Option<String> {
        Some(match func {
            "distance_ball_ball2" => { let r1 = a.f(); let r2 = a.f(); let c = d2::p(a);
                ff(query::details::distance_ball_ball(&Ball::new(r1), &c, &Ball::new(r2))) }
            "closest_points_ball_ball2" => { let p = d2::iso(a); let r1 = a.f(); let r2 = a.f(); let m = a.f();
                fcp0(&query::details::closest_points_ball_ball(&p, &Ball::new(r1), &Ball::new(r2), m)) }
            "distance_halfspace_cuboid2" => { let p = d2::iso(a); let n = d2::v(a); let he = d2::v(a);
                ff(query::details::distance_halfspace_support_map(&p, &HalfSpace::new(Unit::new_unchecked(n)), &Cuboid::new(he))) }
            "closest_points_halfspace_cuboid2" => { let p = d2::iso(a); let n = d2::v(a); let he = d2::v(a); let m = a.f();
                fcp0(&query::details::closest_points_halfspace_support_map(&p, &HalfSpace::new(Unit::new_unchecked(n)), &Cuboid::new(he), m)) }
            "closest_points_segment_segment2" => { let p = d2::iso(a); let a1 = d2::p(a); let b1 = d2::p(a); let a2 = d2::p(a); let b2 = d2::p(a); let m = a.f();
                fcp0(&query::details::closest_points_segment_segment(&p, &Segment::new(a1, b1), &Segment::new(a2, b2), m)) }
            "sat_cuboid_cuboid_oneway2" => { let h1 = d2::v(a); let h2 = d2::v(a); let p = d2::iso(a);
                let (s, d) = query::sat::cuboid_cuboid_find_local_separating_normal_oneway(&Cuboid::new(h1), &Cuboid::new(h2), &p);
                format!("{} {}", ff(s), d2::fv(&d)) }
            "cp2" => { let m = a.f(); let s1 = Sh::parse(a); let p1 = d2::iso(a); let s2 = Sh::parse(a); let p2 = d2::iso(a);
                let (g1, g2) = (s1.build(), s2.build());
                let r = query::closest_points(&p1, &*g1, &p2, &*g2, m);
                format!("{} {}", fcp(&r), tail_world(&p1, &*g1, &p2, &*g2)) }
            "dist2" => { let s1 = Sh::parse(a); let p1 = d2::iso(a); let s2 = Sh::parse(a); let p2 = d2::iso(a);
                let (g1, g2) = (s1.build(), s2.build());
                let r = query::distance(&p1, &*g1, &p2, &*g2);
                format!("{} {}", match r { Ok(x) => ff(x), Err(_) => "U".into() }, tail_world(&p1, &*g1, &p2, &*g2)) }
            "cpl2" => { let m = a.f(); let s1 = Sh::parse(a); let s2 = Sh::parse(a); let p12 = d2::iso(a);
                let (g1, g2) = (s1.build(), s2.build());
                let r = DefaultQueryDispatcher.closest_points(&p12, &*g1, &*g2, m);
                format!("{} {}", fcp(&r), tail_local(&p12, &*g1, &*g2)) }
            "cpw2" => { let m = a.f(); let s1 = Sh::parse(a); let p1 = d2::iso(a); let s2 = Sh::parse(a); let p2 = d2::iso(a);
                let (g1, g2) = (s1.build(), s2.build());
                quiet(|| fcp(&query::closest_points(&p1, &*g1, &p2, &*g2, m))).unwrap_or("panic".into()) }
            "dw2" => { let s1 = Sh::parse(a); let p1 = d2::iso(a); let s2 = Sh::parse(a); let p2 = d2::iso(a);
                let (g1, g2) = (s1.build(), s2.build());
                quiet(|| match query::distance(&p1, &*g1, &p2, &*g2) { Ok(x) => ff(x), Err(_) => "U".into() }).unwrap_or("panic".into()) }
            "vs2" => exec_vs(a),
            // the same history, printed for the bit-exact model: result (+ direction) and the simplex left behind by every query
            "gjkm2" => { let n = a.u(); let mut simplex = VoronoiSimplex::new(); let mut out = Vec::new();
                for _ in 0..n {
                    let op = a.tok().to_string();
                    let m = if op == "c" { a.f() } else { 0.0 };
                    let s1 = Sh::parse(a); let s2 = Sh::parse(a); let p12 = d2::iso(a);
                    let (g1, g2) = (s1.build(), s2.build());
                    let (m1, m2) = (g1.as_support_map().expect("support map"), g2.as_support_map().expect("support map"));
                    let head = quiet(|| if op == "d" {
                        ff(query::details::distance_support_map_support_map_with_params(&p12, m1, m2, &mut simplex, None))
                    } else {
                        match query::details::closest_points_support_map_support_map_with_params(&p12, m1, m2, m, &mut simplex, None) {
                            GJKResult::ClosestPoints(p1, p2, d) => format!("W {} {} {}", d2::fp(&p1), d2::fp(&p2), d2::fv(&d)),
                            GJKResult::NoIntersection(d) => format!("D {}", d2::fv(&d)),
                            GJKResult::Intersection => "I".into(),
                            GJKResult::Proximity(d) => format!("U {}", d2::fv(&d)),
                        }
                    });
                    match head { Some(h) => out.push(format!("{} {}", h, vs_dump(&simplex))), None => { out.push("panic".into()); break; } }
                }
                out.join(" ") }
            "gjkh2" => { let n = a.u(); let mut simplex = VoronoiSimplex::new(); let mut out = Vec::new();
                for _ in 0..n {
                    let op = a.tok().to_string();
                    let m = if op == "c" { a.f() } else { 0.0 };
                    let s1 = Sh::parse(a); let s2 = Sh::parse(a); let p12 = d2::iso(a);
                    let (g1, g2) = (s1.build(), s2.build());
                    let (m1, m2) = (g1.as_support_map().expect("support map"), g2.as_support_map().expect("support map"));
                    let head = if op == "d" {
                        ff(query::details::distance_support_map_support_map_with_params(&p12, m1, m2, &mut simplex, None))
                    } else {
                        match query::details::closest_points_support_map_support_map_with_params(&p12, m1, m2, m, &mut simplex, None) {
                            GJKResult::ClosestPoints(p1, p2, _) => format!("W {} {}", d2::fp(&p1), d2::fp(&p2)),
                            GJKResult::NoIntersection(_) => "D".into(),
                            GJKResult::Intersection => "I".into(),
                            GJKResult::Proximity(_) => "U".into(),
                        }
                    };
                    out.push(format!("{} {}", head, tail_local(&p12, &*g1, &*g2)));
                }
                out.join(" ") }
            _ => return None,
        })
    }

    // ---- VoronoiSimplex histories
    use crate::p2::query::gjk::CSOPoint;
    fn vs_dump(s: &VoronoiSimplex) -> String {
        let (dm, pd) = (s.dimension(), s.prev_dimension());
        let mut t = vec![format!("S {} {}", dm, pd)];
        for i in 0..=dm { let c = s.point(i); t.push(format!("{} {} {}", d2::fp(&c.point), d2::fp(&c.orig1), d2::fp(&c.orig2))); }
        for i in 0..=dm.min(2 - 1) { t.push(ff(s.proj_coord(i))); }
        for i in 0..=pd { t.push(d2::fp(&s.prev_point(i).point)); }
        for i in 0..=pd.min(2 - 1) { t.push(ff(s.prev_proj_coord(i))); }
        t.join(" ")
    }
    pub fn exec_vs(a: &mut Args) -> String {
        let n = a.u(); let mut s = VoronoiSimplex::new(); let mut out: Vec<String> = Vec::new();
        for _ in 0..n {
            let op = a.tok().to_string();
            let r = match op.as_str() {
                "R" => { let o1 = d2::p(a); let o2 = d2::p(a); quiet(|| { s.reset(CSOPoint::new(o1, o2)); vs_dump(&s) }) }
                "A" => { let o1 = d2::p(a); let o2 = d2::p(a); quiet(|| { let r = s.add_point(CSOPoint::new(o1, o2)); format!("{} {}", b(r), vs_dump(&s)) }) }
                "P" => quiet(|| { let p = s.project_origin_and_reduce(); format!("{} {}", d2::fp(&p), vs_dump(&s)) }),
                "C" => { let p = d2::p(a); quiet(|| b(s.contains_point(&p)).to_string()) }
                k => panic!("bad op {}", k),
            };
            match r { Some(t) => out.push(t), None => { out.push("panic".into()); break; } }
        }
        out.join(" ")
    }
    /// a GJK-like history on one simplex: reset, then add / reduce rounds, `contains_point` probes, resets in the middle
    /// (also on a simplex of dimension >= 1). The real simplex is run alongside to know when it is full.
    pub fn gen_vs(r: &mut Rng, lat: bool) -> String {
        let sc = if lat { 1.0 } else { r.logu(0.05, 20.0) };
        let c = |r: &mut Rng| if lat { r.lattice(4, 1) } else { r.uniform(-sc, sc) };
        let mut s = VoronoiSimplex::new();
        let mut ops: Vec<String> = Vec::new();
        let nrounds = 3 + r.below(10) as usize;
        let (o1, o2) = (Point::new(c(r), c(r)), Point::new(c(r), c(r)));
        s.reset(CSOPoint::new(o1, o2)); ops.push(format!("R {} {}", d2::hp(&o1), d2::hp(&o2)));
        for _ in 0..nrounds {
            match r.below(8) {
                0 => { // reset in the middle of a run, whatever the current dimension
                    let (o1, o2) = (Point::new(c(r), c(r)), Point::new(c(r), c(r)));
                    s.reset(CSOPoint::new(o1, o2)); ops.push(format!("R {} {}", d2::hp(&o1), d2::hp(&o2))); }
                1 => { // probe: a live vertex (true) or an arbitrary point
                    let p = if r.bool() { s.point(r.below(s.dimension() as u64 + 1) as usize).point } else { Point::new(c(r), c(r)) };
                    ops.push(format!("C {}", d2::hp(&p))); }
                _ => {
                    if s.dimension() >= 2 { continue; }
                    // tie cases: a second copy of a live vertex / the origin itself as CSO point / the mirror image of a vertex
                    let (o1, o2) = match r.below(10) {
                        0 => { let q = s.point(0); (q.orig1, q.orig2) }
                        1 => { let o = Point::new(c(r), c(r)); (o, o) }
                        2 => { let q = s.point(0); (q.orig2, q.orig1) }
                        _ => (Point::new(c(r), c(r)), Point::new(c(r), c(r))),
                    };
                    let ok = quiet(|| s.add_point(CSOPoint::new(o1, o2)));
                    ops.push(format!("A {} {}", d2::hp(&o1), d2::hp(&o2)));
                    if ok.is_none() { break; }
                    if r.below(6) != 0 { ops.push("P".into()); if quiet(|| s.project_origin_and_reduce()).is_none() { break; } }
                }
            }
        }
        format!("{} {}", ops.len(), ops.join(" "))
    }

    fn push_placed(r: &mut Rng, v: &mut Vec<(String, String)>, k1: &str, k2: &str, lat: bool, mode: usize) {
        let s1 = gen_shape(r, k1, lat); let mut s2 = gen_shape(r, k2, lat);
        let reach = s1.size() + s2.size();
        let u = gen_unit(r, lat);
        let dist = if lat { *r.pick(&[0.0, 2.0, 4.0, 8.0]) } else { reach * r.uniform(0.0, 2.5) };
        let mut p12 = if r.below(4) == 0 { Isometry::identity() } else { d2::gen_iso(r, lat, 0.0) };
        match mode {
            0 => { s2 = s2.shifted(&(u * dist)); p12.translation.vector = Vector::zeros(); }
            1 => { s2 = s2.shifted(&(u * dist)); p12.translation.vector = Vector::new(1.0e-17, -3.0e-18); }
            _ => { p12.translation.vector = u * dist; }
        }
        let reach = s1.size() + s2.size();
        let p1 = if r.below(3) == 0 { Isometry::identity() } else { d2::gen_iso(r, lat, 5.0) };
        let p2 = if p12 == Isometry::identity() { p1 } else { p1 * p12 };
        let m = match r.below(4) { 0 => 0.0, 1 => f64::MAX, _ => reach * r.uniform(0.0, 3.0) };
        let w = format!("{} {} {} {}", s1.tokens(), d2::hiso(&p1), s2.tokens(), d2::hiso(&p2));
        v.push(("cp2".into(), format!("{} {}", hx(m), w)));
        v.push(("dist2".into(), w));
        v.push(("cpl2".into(), format!("{} {} {} {}", hx(m), s1.tokens(), s2.tokens(), d2::hiso(&p12))));
    }

    pub fn gen(r: &mut Rng, thorough: bool, v: &mut Vec<(String, String)>) {
        { // round shapes, coincident frames, simplex histories (forked generator: the older streams keep their cases)
        let mut fr = Rng(r.0 ^ 0x5EED_2C01); let r = &mut fr;
        let reps = if thorough { 20 } else { 2 };
        for rep in 0..reps {
            for (ia, ka) in SM_KINDS.iter().enumerate() { for (ib, kb) in ROUNDS.iter().enumerate() {
                let lat = (rep + ia + ib) % 3 == 0;
                let (k1, k2) = if (ia + ib + rep) % 2 == 0 { (*ka, *kb) } else { (*kb, *ka) };
                push_placed(r, v, k1, k2, lat, (ia + ib + rep) % 3);
            } }
            for ka in SM_KINDS[..5].iter() { for kb in SM_KINDS[..5].iter() { if r.below(3) == 0 { push_placed(r, v, ka, kb, rep % 2 == 0, 0); } } }
        }
        let nh = if thorough { 800 } else { 80 };
        for it in 0..nh {
            let lat = it % 3 == 0;
            let n = 2 + r.below(4) as usize;
            let mut toks = vec![format!("{}", n)];
            let same = r.bool();
            let mut pair = ({ let k = *r.pick(&SM_KINDS); gen_shape(r, k, lat) }, { let k = *r.pick(&SM_KINDS); gen_shape(r, k, lat) });
            for _ in 0..n {
                if !same { pair = ({ let k = *r.pick(&SM_KINDS); gen_shape(r, k, lat) }, { let k = *r.pick(&SM_KINDS); gen_shape(r, k, lat) }); }
                let reach = pair.0.size() + pair.1.size();
                let mut p12 = d2::gen_iso(r, lat, 0.0);
                let dist = if lat { *r.pick(&[0.0, 2.0, 4.0, 8.0]) } else { reach * r.uniform(0.3, 2.5) };
                p12.translation.vector = gen_unit(r, lat) * dist;
                let op = if r.bool() { "d".to_string() } else { format!("c {}", hx(if r.bool() { f64::MAX } else { reach * r.uniform(0.0, 3.0) })) };
                toks.push(format!("{} {} {} {}", op, pair.0.tokens(), pair.1.tokens(), d2::hiso(&p12)));
            }
            v.push(("gjkh2".into(), toks.join(" ")));
        }
        let nv = if thorough { 6000 } else { 600 };
        for it in 0..nv { let h = gen_vs(r, it % 2 == 0); v.push(("vs2".into(), h)); }
        // ---- modelled histories (bit-exact): support maps of the C10 model only, incl. coincident frames (x-axis start direction)
        const MK: [&str; 7] = ["cuboid", "capsule", "segment", "triangle", "ball", "roundcuboid", "roundtriangle"];
        let nm = if thorough { 1500 } else { 150 };
        for it in 0..nm {
            let lat = it % 3 == 0;
            let n = 1 + r.below(4) as usize;
            let mut toks = vec![format!("{}", n)];
            let same = r.bool();
            let mut pair = ({ let k = *r.pick(&MK); gen_shape(r, k, lat) }, { let k = *r.pick(&MK); gen_shape(r, k, lat) });
            for _ in 0..n {
                if !same { pair = ({ let k = *r.pick(&MK); gen_shape(r, k, lat) }, { let k = *r.pick(&MK); gen_shape(r, k, lat) }); }
                let reach = pair.0.size() + pair.1.size();
                let mut p12 = if r.below(5) == 0 { Isometry::identity() } else { d2::gen_iso(r, lat, 0.0) };
                let dist = if lat { *r.pick(&[0.0, 2.0, 4.0, 8.0]) } else { reach * r.uniform(0.0, 2.5) };
                let off = gen_unit(r, lat) * dist;
                let mut g2 = pair.1.clone();
                if r.below(4) == 0 { g2 = g2.shifted(&off); p12.translation.vector = Vector::zeros(); } else { p12.translation.vector = off; }
                let reach = pair.0.size() + g2.size();
                let op = if r.bool() { "d".to_string() } else { format!("c {}", hx(if r.bool() { f64::MAX } else { reach * r.uniform(0.0, 3.0) })) };
                toks.push(format!("{} {} {} {}", op, pair.0.tokens(), g2.tokens(), d2::hiso(&p12)));
            }
            v.push(("gjkm2".into(), toks.join(" ")));
        }
        }
        let n = if thorough { 3000 } else { 300 };
        for it in 0..n {
            let lat = it % 2 == 0;
            let (r1, r2) = (r.pos_extent(lat), r.pos_extent(lat));
            let mut p = d2::gen_iso(r, lat, 8.0);
            match r.below(6) {
                0 => { p.translation.vector = Vector::ith(r.below(2) as usize, (r1 + r2) * if r.bool() { 1.0 } else { -1.0 }); }
                1 => { let u = gen_unit(r, lat); p.translation.vector = u * (r1 + r2 + r.uniform(-0.5, 2.0)); }
                2 => { p.translation.vector = Vector::zeros(); }
                _ => {}
            }
            let m = super::k3::gen_margin(r, lat);
            v.push(("distance_ball_ball2".into(), format!("{} {} {}", hx(r1), hx(r2), d2::hv(&p.translation.vector))));
            v.push(("closest_points_ball_ball2".into(), format!("{} {} {} {}", d2::hiso(&p), hx(r1), hx(r2), hx(m))));
            let nrm = gen_unit(r, lat);
            let he = d2::gen_he(r, lat);
            let p = d2::gen_iso(r, lat, 6.0);
            v.push(("distance_halfspace_cuboid2".into(), format!("{} {} {}", d2::hiso(&p), d2::hv(&nrm), d2::hv(&he))));
            v.push(("closest_points_halfspace_cuboid2".into(), format!("{} {} {} {}", d2::hiso(&p), d2::hv(&nrm), d2::hv(&he), hx(m))));
            let a1 = d2::gen_p(r, lat, 5.0); let mut b1 = d2::gen_p(r, lat, 5.0);
            let a2 = d2::gen_p(r, lat, 5.0); let mut b2 = d2::gen_p(r, lat, 5.0);
            match r.below(8) {
                0 => { b2 = a2 + (b1 - a1) * *r.pick(&[1.0, -1.0, 0.5, 2.0]); }
                1 => { b1 = a1; }
                2 => { b2 = a2; }
                3 => { b1 = a1; b2 = a2; }
                4 => { b2 = a1 + (b1 - a1) * 0.5; }
                _ => {}
            }
            let ps = if r.below(3) == 0 { Isometry::identity() } else { d2::gen_iso(r, lat, 4.0) };
            v.push(("closest_points_segment_segment2".into(), format!("{} {} {} {} {} {}", d2::hiso(&ps), d2::hp(&a1), d2::hp(&b1), d2::hp(&a2), d2::hp(&b2), hx(if r.bool() { f64::MAX } else { m }))));
            let (h1, h2) = (d2::gen_he(r, lat), d2::gen_he(r, lat));
            let mut p = d2::gen_iso(r, lat, 6.0);
            if r.below(5) == 0 { p.translation.vector[r.below(2) as usize] = if r.bool() { 0.0 } else { -0.0 }; }
            v.push(("sat_cuboid_cuboid_oneway2".into(), format!("{} {} {}", d2::hv(&h1), d2::hv(&h2), d2::hiso(&p))));
        }
        // ---- public entry points, bit-exact (`cpw2`, `dw2`): every modelled route of the dispatcher in WORLD poses
        {
        let mut fr = Rng(r.0 ^ 0x5EED_62E5); let r = &mut fr;
        const WK: [&str; 7] = ["halfspace", "cuboid", "capsule", "segment", "triangle", "roundcuboid", "roundtriangle"];
        let nw = if thorough { 2400 } else { 240 };
        for it in 0..nw {
            let lat = it % 3 == 0;
            let (k1, k2) = match it % 8 { 0 => ("ball", "ball"), 1 => ("segment", "segment"), 2 => ("halfspace", *r.pick(&WK[1..])), 3 => (*r.pick(&WK[1..]), "halfspace"),
                _ => (*r.pick(&WK[1..]), *r.pick(&WK[1..])) };
            let s1 = gen_shape(r, k1, lat); let mut s2 = gen_shape(r, k2, lat);
            let reach = s1.size() + s2.size();
            let u = gen_unit(r, lat);
            let dist = if lat { *r.pick(&[0.0, 1.0, 2.0, 4.0, 6.0, 8.0]) } else { reach * r.uniform(0.25, 2.5) };
            let mut p12 = if r.below(5) == 0 { Isometry::identity() } else { d2::gen_iso(r, lat, 0.0) };
            if r.below(6) == 0 && k2 != "halfspace" { s2 = s2.shifted(&(u * dist)); p12.translation.vector = Vector::zeros(); } else { p12.translation.vector = u * dist; }
            let reach = s1.size() + s2.size();
            let tscale = *r.pick(&[0.0, 5.0, 5.0, 100.0, 1000.0]);
            let p1 = if r.below(5) == 0 { Isometry::identity() } else { d2::gen_iso(r, lat, tscale) };
            let p2 = if p12 == Isometry::identity() { p1 } else { p1 * p12 };
            let m = match r.below(5) { 0 => 0.0, 1 => f64::MAX, 2 => reach * r.uniform(0.0, 0.5), _ => reach * r.uniform(0.0, 3.0) };
            let w = format!("{} {} {} {}", s1.tokens(), d2::hiso(&p1), s2.tokens(), d2::hiso(&p2));
            if it % 3 != 2 { v.push(("cpw2".into(), format!("{} {}", hx(m), w))); } else { v.push(("dw2".into(), w)); }
        }
        }
        // ---- focused streams: SAT-derived routes (triangle×cuboid closest points, cuboid×cuboid distance) and crossing segments
        let nf = if thorough { 1500 } else { 150 };
        for it in 0..nf {
            let lat = it % 4 == 0;
            let (ka, kb, f) = match it % 4 { 0 => ("triangle", "cuboid", "cpl2"), 1 => ("cuboid", "cuboid", "dist2"), 2 => ("segment", "segment", "cp2"), _ => ("triangle", "cuboid", "cp2") };
            let s1 = gen_shape(r, ka, lat); let s2 = gen_shape(r, kb, lat);
            let reach = s1.size() + s2.size();
            let u = gen_unit(r, lat);
            let dist = if ka == "segment" { reach * r.uniform(0.0, 0.6) } else if lat { *r.pick(&[2.0, 3.0, 4.0, 6.0]) } else { reach * r.uniform(0.3, 2.0) };
            let mut p12 = d2::gen_iso(r, lat, 0.0);
            if ka == "cuboid" && it % 8 == 1 { // parallel faces, partial overlap
                let c = *r.pick(&[(1.0, 0.0), (0.0, 1.0), (-1.0, 0.0)]);
                p12.rotation = Unit::new_unchecked(na::Complex::new(c.0, c.1));
            }
            p12.translation.vector = u * dist;
            let p1 = if r.bool() { Isometry::identity() } else { d2::gen_iso(r, lat, 5.0) };
            let p2 = p1 * p12;
            let m = if r.bool() { f64::MAX } else { reach * r.uniform(0.0, 3.0) };
            match f {
                "cpl2" => v.push(("cpl2".into(), format!("{} {} {} {}", hx(m), s1.tokens(), s2.tokens(), d2::hiso(&p12)))),
                "cp2" => v.push(("cp2".into(), format!("{} {} {} {} {}", hx(m), s1.tokens(), d2::hiso(&p1), s2.tokens(), d2::hiso(&p2)))),
                _ => v.push(("dist2".into(), format!("{} {} {} {}", s1.tokens(), d2::hiso(&p1), s2.tokens(), d2::hiso(&p2)))),
            }
        }
        let reps = if thorough { 30 } else { 4 };
        for rep in 0..reps {
            for k1 in KINDS.iter() { for k2 in KINDS.iter() {
                if *k1 == "halfspace" && *k2 == "halfspace" { continue; }
                let lat = rep % 3 == 0;
                let s1 = gen_shape(r, k1, lat); let s2 = gen_shape(r, k2, lat);
                let tscale = *r.pick(&[0.0, 5.0, 5.0, 100.0, 1000.0]);
                let p1 = if r.below(6) == 0 { Isometry::identity() } else { d2::gen_iso(r, lat, tscale) };
                let reach = s1.size() + s2.size();
                let u = gen_unit(r, lat);
                let dist = if lat { *r.pick(&[0.0, 0.5, 1.0, 2.0, 4.0, 8.0]) } else { reach * r.uniform(0.0, 2.5) };
                let mut p12 = d2::gen_iso(r, lat, 0.0);
                p12.translation.vector = u * dist;
                let p2 = p1 * p12;
                let m = match r.below(5) { 0 => 0.0, 1 => f64::MAX, 2 => reach * r.uniform(0.0, 0.5), _ => reach * r.uniform(0.0, 3.0) };
                let w = format!("{} {} {} {}", s1.tokens(), d2::hiso(&p1), s2.tokens(), d2::hiso(&p2));
                v.push(("cp2".into(), format!("{} {}", hx(m), w)));
                v.push(("dist2".into(), w));
                v.push(("cpl2".into(), format!("{} {} {} {}", hx(m), s1.tokens(), s2.tokens(), d2::hiso(&p12))));
            } }
        }
    }
}

pub fn exec(func: &str, a: &mut Args) -> String {
    let save = a.i;
    if let Some(s) = k3::exec(func, a) { return s; }
    a.i = save;
    if let Some(s) = k2::exec(func, a) { return s; }
    "nofn".into()
}

pub fn gen(r: &mut Rng, thorough: bool) -> Vec<(String, String)> {
    let mut v = Vec::new();
    k3::gen(r, thorough, &mut v);
    k2::gen(r, thorough, &mut v);
    v
}
